import IoraModel.Model.HttpClientFraming
import IoraModel.Lemmas.HttpCommon
/-
Lemmas about the client framing model: extension stability of every non-"need more" answer and the
resumption lemmas (the state carried between reads is a function of the accumulated bytes).
-/
namespace Iora.Http
open Iora

theorem findAux0_eq_find (pat t : Bytes) : findAux pat t 0 = find pat t 0 := by simp [find]

theorem findAux_append_some (pat t x : Bytes) (k : Nat) (hp : pat ≠ []) (h : findAux pat t 0 = some k) :
    findAux pat (t ++ x) 0 = some k := by
  rw [findAux0_eq_find] at h ⊢
  exact find_append_some pat t x 0 k hp h

theorem findAux0_lt (pat t : Bytes) (k : Nat) (h : findAux pat t 0 = some k) : k < t.length := by
  rw [findAux0_eq_find, find_some_iff] at h
  exact h.2.1

/-! ### the chunk decoder -/

theorem sizeLine_append (buf x : Bytes) (cap pos : Nat) (r : SizeLine)
    (h : sizeLine buf cap pos = r) (hr : r ≠ .noLF) : sizeLine (buf ++ x) cap pos = r := by
  unfold sizeLine at h ⊢
  cases hf : findAux [10] (buf.drop pos) 0 with
  | none => rw [hf] at h; exact absurd h.symm hr
  | some off =>
    have hoff := findAux0_lt _ _ _ hf
    simp only [List.length_drop] at hoff
    have hdrop : (buf ++ x).drop pos = buf.drop pos ++ x := List.drop_append_of_le_length (by omega)
    have hf' : findAux [10] ((buf ++ x).drop pos) 0 = some off := by
      rw [hdrop]; exact findAux_append_some _ _ _ _ (by simp) hf
    have hget : (buf ++ x)[pos + off - 1]? = buf[pos + off - 1]? :=
      List.getElem?_append_left (by omega)
    have htake : ((buf ++ x).drop pos).take (pos + off - 1 - pos) = (buf.drop pos).take (pos + off - 1 - pos) := by
      rw [hdrop, List.take_append_of_le_length (by simp [List.length_drop]; omega)]
    rw [hf] at h
    rw [hf']
    simp only [hget, htake]
    exact h

theorem trailerLoop_append (buf x : Bytes) (tp : Nat) (r : StepRes)
    (h : trailerLoop buf tp = r) (hr : r ≠ .needMore) : trailerLoop (buf ++ x) tp = r := by
  induction tp using trailerLoop.induct buf with
  | case1 tp hlt hf => rw [trailerLoop] at h; simp [hlt, hf] at h; exact absurd h.symm hr
  | case2 tp hlt off hf hm =>
    have hoff := findAux0_lt _ _ _ hf
    simp only [List.length_drop] at hoff
    have hdrop : (buf ++ x).drop tp = buf.drop tp ++ x := List.drop_append_of_le_length (by omega)
    have hf' : findAux [10] ((buf ++ x).drop tp) 0 = some off := by
      rw [hdrop]; exact findAux_append_some _ _ _ _ (by simp) hf
    have hget : (buf ++ x)[tp + off - 1]? = buf[tp + off - 1]? := List.getElem?_append_left (by omega)
    rw [trailerLoop] at h ⊢
    have hlt' : tp < (buf ++ x).length := by simp; omega
    simp only [hlt, hlt', ↓reduceDIte, hf, hf', hget, if_pos hm] at h ⊢
    exact h
  | case3 tp hlt off hf hm he =>
    have hoff := findAux0_lt _ _ _ hf
    simp only [List.length_drop] at hoff
    have hdrop : (buf ++ x).drop tp = buf.drop tp ++ x := List.drop_append_of_le_length (by omega)
    have hf' : findAux [10] ((buf ++ x).drop tp) 0 = some off := by
      rw [hdrop]; exact findAux_append_some _ _ _ _ (by simp) hf
    have hget : (buf ++ x)[tp + off - 1]? = buf[tp + off - 1]? := List.getElem?_append_left (by omega)
    rw [trailerLoop] at h ⊢
    have hlt' : tp < (buf ++ x).length := by simp; omega
    simp only [hlt, hlt', ↓reduceDIte, hf, hf', hget, if_neg hm, if_pos he] at h ⊢
    exact h
  | case4 tp hlt off hf hm he ih =>
    have hoff := findAux0_lt _ _ _ hf
    simp only [List.length_drop] at hoff
    have hdrop : (buf ++ x).drop tp = buf.drop tp ++ x := List.drop_append_of_le_length (by omega)
    have hf' : findAux [10] ((buf ++ x).drop tp) 0 = some off := by
      rw [hdrop]; exact findAux_append_some _ _ _ _ (by simp) hf
    have hget : (buf ++ x)[tp + off - 1]? = buf[tp + off - 1]? := List.getElem?_append_left (by omega)
    rw [trailerLoop] at h ⊢
    have hlt' : tp < (buf ++ x).length := by simp; omega
    simp only [hlt, hlt', ↓reduceDIte, hf, hf', hget, if_neg hm, if_neg he] at h ⊢
    exact ih h
  | case5 tp hlt => rw [trailerLoop] at h; simp [hlt] at h; exact absurd h.symm hr

theorem chunkStep_append (buf x : Bytes) (cap : Nat) (st : ChunkState) (r : StepRes)
    (h : chunkStep buf cap st = r) (hr : r ≠ .needMore) : chunkStep (buf ++ x) cap st = r := by
  unfold chunkStep at h ⊢
  cases hs : sizeLine buf cap st.pos with
  | noLF => rw [hs] at h; exact absurd h.symm hr
  | bad => rw [sizeLine_append buf x cap st.pos _ hs (by simp)]; rw [hs] at h; exact h
  | ok n ds =>
    rw [sizeLine_append buf x cap st.pos _ hs (by simp)]
    rw [hs] at h
    simp only at h ⊢
    by_cases hn : n = 0
    · simp only [hn, ↓reduceIte] at h ⊢
      exact trailerLoop_append buf x ds r h hr
    · simp only [hn, ↓reduceIte] at h ⊢
      by_cases hb : buf.length < ds ∨ buf.length - ds < n ∨ buf.length - ds - n < 2
      · simp only [hb, ↓reduceIte] at h; exact absurd h.symm hr
      · have hb' : ¬ ((buf ++ x).length < ds ∨ (buf ++ x).length - ds < n ∨ (buf ++ x).length - ds - n < 2) := by
          simp only [List.length_append]; omega
        simp only [hb, hb', ↓reduceIte] at h ⊢
        have hg1 : (buf ++ x)[ds + n]? = buf[ds + n]? := List.getElem?_append_left (by omega)
        have hg2 : (buf ++ x)[ds + n + 1]? = buf[ds + n + 1]? := List.getElem?_append_left (by omega)
        have hd : ((buf ++ x).drop ds).take n = (buf.drop ds).take n := by
          rw [List.drop_append_of_le_length (by omega), List.take_append_of_le_length (by simp [List.length_drop]; omega)]
        rw [hg1, hg2, hd]
        exact h

/-! unfolding equations of `advanceChunked` -/

theorem advanceChunked_oob (buf : Bytes) (cap : Nat) (st : ChunkState) (h : ¬ st.pos < buf.length) :
    advanceChunked buf cap st = (.needMore, st) := by
  rw [advanceChunked, dif_neg h]

theorem advanceChunked_needMore (buf : Bytes) (cap : Nat) (st : ChunkState) (h : st.pos < buf.length)
    (hs : chunkStep buf cap st = .needMore) : advanceChunked buf cap st = (.needMore, st) := by
  rw [advanceChunked, dif_pos h]
  split <;> simp_all

theorem advanceChunked_malformed (buf : Bytes) (cap : Nat) (st : ChunkState) (h : st.pos < buf.length)
    (hs : chunkStep buf cap st = .malformed) : advanceChunked buf cap st = (.malformed, st) := by
  rw [advanceChunked, dif_pos h]
  split <;> simp_all

theorem advanceChunked_complete (buf : Bytes) (cap : Nat) (st : ChunkState) (me : Nat) (h : st.pos < buf.length)
    (hs : chunkStep buf cap st = .complete me) :
    advanceChunked buf cap st = (.complete, { st with messageEnd := me }) := by
  rw [advanceChunked, dif_pos h]
  split <;> simp_all

theorem advanceChunked_next (buf : Bytes) (cap : Nat) (st st' : ChunkState) (h : st.pos < buf.length)
    (hs : chunkStep buf cap st = .next st') : advanceChunked buf cap st = advanceChunked buf cap st' := by
  rw [advanceChunked, dif_pos h]
  split <;> simp_all

/-- **chunk resumption**: the chunk state reached on `buf` is a valid starting point on `buf ++ x` -/
theorem advanceChunked_resume (buf x : Bytes) (cap : Nat) (st st' : ChunkState)
    (h : advanceChunked buf cap st = (.needMore, st')) :
    advanceChunked (buf ++ x) cap st' = advanceChunked (buf ++ x) cap st := by
  induction st using advanceChunked.induct buf cap with
  | case1 s hlt hs => rw [advanceChunked_needMore buf cap s hlt hs] at h; cases h; rfl
  | case2 s hlt hs => rw [advanceChunked_malformed buf cap s hlt hs] at h; cases h
  | case3 s hlt me hs => rw [advanceChunked_complete buf cap s me hlt hs] at h; cases h
  | case4 s hlt s2 hs ih =>
    rw [advanceChunked_next buf cap s s2 hlt hs] at h
    rw [ih h]
    have hlt' : s.pos < (buf ++ x).length := by simp; omega
    rw [advanceChunked_next (buf ++ x) cap s s2 hlt' (chunkStep_append buf x cap s _ hs (by simp))]
  | case5 s hlt => rw [advanceChunked_oob buf cap s hlt] at h; cases h; rfl

/-- a completed / malformed chunked body stays so when more bytes arrive -/
theorem advanceChunked_stable (buf x : Bytes) (cap : Nat) (st : ChunkState) (fs : FrameStatus) (st' : ChunkState)
    (h : advanceChunked buf cap st = (fs, st')) (hfs : fs ≠ .needMore) :
    advanceChunked (buf ++ x) cap st = (fs, st') := by
  induction st using advanceChunked.induct buf cap with
  | case1 s hlt hs => rw [advanceChunked_needMore buf cap s hlt hs] at h; cases h; exact absurd rfl hfs
  | case2 s hlt hs =>
    have hlt' : s.pos < (buf ++ x).length := by simp; omega
    rw [advanceChunked_malformed buf cap s hlt hs] at h
    rw [advanceChunked_malformed (buf ++ x) cap s hlt' (chunkStep_append buf x cap s _ hs (by simp))]
    exact h
  | case3 s hlt me hs =>
    have hlt' : s.pos < (buf ++ x).length := by simp; omega
    rw [advanceChunked_complete buf cap s me hlt hs] at h
    rw [advanceChunked_complete (buf ++ x) cap s me hlt' (chunkStep_append buf x cap s _ hs (by simp))]
    exact h
  | case4 s hlt s2 hs ih =>
    have hlt' : s.pos < (buf ++ x).length := by simp; omega
    rw [advanceChunked_next buf cap s s2 hlt hs] at h
    rw [advanceChunked_next (buf ++ x) cap s s2 hlt' (chunkStep_append buf x cap s _ hs (by simp))]
    exact ih h
  | case5 s hlt => rw [advanceChunked_oob buf cap s hlt] at h; cases h; exact absurd rfl hfs

/-! ### frameResponse: unfolding equations -/

/-- the state with `x` appended to the accumulation buffer (what `responseData.append` does) -/
def St.app (st : St) (x : Bytes) : St := { st with data := st.data ++ x }

theorem FR_done (m : Bytes) (cap : Nat) (st : St) (h : st.headersDone = true) :
    frameResponse m cap st = bodyPhase cap st := by
  rw [frameResponse, if_pos h]

theorem FR_empty (m : Bytes) (cap : Nat) (st : St) (h : st.headersDone = false) (hl : st.data.length = 0) :
    frameResponse m cap st = ({ st with headerScanPos := 0 }, .needMore) := by
  rw [frameResponse]; simp [h, hl]

theorem FR_none (m : Bytes) (cap : Nat) (st : St) (h : st.headersDone = false) (hl : st.data.length ≠ 0)
    (hf : find crlf2 st.data st.headerScanPos = none) :
    frameResponse m cap st =
      ({ st with headerScanPos := if st.data.length ≥ 3 then st.data.length - 3 else 0 }, .needMore) := by
  rw [frameResponse]; simp [h, hl, hf]

theorem FR_parseErr (m : Bytes) (cap : Nat) (st : St) (he : Nat) (k : Kind) (h : st.headersDone = false)
    (hl : st.data.length ≠ 0) (hf : find crlf2 st.data st.headerScanPos = some he)
    (hp : parseHeaderBlock (st.data.take he) = .error k) :
    frameResponse m cap st = (st, .malformed k) := by
  rw [frameResponse]; simp [h, hl, hf, hp]

theorem FR_interim (m : Bytes) (cap : Nat) (st : St) (he : Nat) (resp : Resp) (h : st.headersDone = false)
    (hl : st.data.length ≠ 0) (hf : find crlf2 st.data st.headerScanPos = some he)
    (hp : parseHeaderBlock (st.data.take he) = .ok resp) (hi : isInterim resp.status = true) :
    frameResponse m cap st =
      frameResponse m cap { st with data := st.data.drop (he + 4), headerScanPos := 0, resp := resp } := by
  rw [frameResponse]; simp [h, hl, hf, hp, hi]

theorem FR_dfErr (m : Bytes) (cap : Nat) (st : St) (he : Nat) (resp : Resp) (k : Kind) (h : st.headersDone = false)
    (hl : st.data.length ≠ 0) (hf : find crlf2 st.data st.headerScanPos = some he)
    (hp : parseHeaderBlock (st.data.take he) = .ok resp) (hi : isInterim resp.status = false)
    (hd : determineFraming m resp cap = .error k) :
    frameResponse m cap st = ({ st with resp := resp }, .malformed k) := by
  rw [frameResponse]; simp [h, hl, hf, hp, hi, hd]

theorem FR_final (m : Bytes) (cap : Nat) (st : St) (he : Nat) (resp : Resp) (fr : Framing) (h : st.headersDone = false)
    (hl : st.data.length ≠ 0) (hf : find crlf2 st.data st.headerScanPos = some he)
    (hp : parseHeaderBlock (st.data.take he) = .ok resp) (hi : isInterim resp.status = false)
    (hd : determineFraming m resp cap = .ok fr) :
    frameResponse m cap st =
      bodyPhase cap { st with headersDone := true, bodyStart := he + 4, resp := resp, framing := fr,
                              chunk := { pos := he + 4, decoded := [], messageEnd := 0 } } := by
  rw [frameResponse]; simp [h, hl, hf, hp, hi, hd]

/-! ### what the receive loop observes of a `frameResponse` result -/

/-- `headerScanPos` is dead once the headers are done -/
def normSt (st : St) : St := if st.headersDone then { st with headerScanPos := 0 } else st

inductive Obs where
  | more (st : St)
  | done (r : Resp) (evict : Bool)
  | bad (k : Kind)
  deriving DecidableEq, Repr

def obs : St × Out → Obs
  | (st, .needMore) => .more (normSt st)
  | (st, .complete) => .done st.resp st.forceEvict
  | (_, .malformed k) => .bad k

theorem bodyPhase_headersDone (cap : Nat) (st : St) : (bodyPhase cap st).1.headersDone = st.headersDone := by
  unfold bodyPhase
  split
  · rfl
  · split <;> rfl
  · split <;> rfl
  · rfl

theorem bodyPhase_scan (cap : Nat) (s : St) (p : Nat) (h : s.headersDone = true) :
    obs (bodyPhase cap { s with headerScanPos := p }) = obs (bodyPhase cap s) := by
  unfold bodyPhase
  cases hm : s.framing.mode with
  | noBody => simp [obs]
  | contentLength =>
    simp only
    split <;> simp [obs, normSt, h]
  | chunked =>
    simp only
    cases hadv : advanceChunked s.data cap s.chunk with
    | mk fs cs => cases fs <;> simp [obs, normSt, h]
  | closeDelimited => simp [obs, normSt, h]

/-- `frameResponse` depends on `headerScanPos` only through the result of the terminator search -/
theorem FR_congr (m : Bytes) (cap : Nat) (st : St) (p q : Nat) (h : st.headersDone = false)
    (hf : find crlf2 st.data p = find crlf2 st.data q) :
    obs (frameResponse m cap { st with headerScanPos := p }) = obs (frameResponse m cap { st with headerScanPos := q }) := by
  by_cases hl : st.data.length = 0
  · rw [FR_empty m cap { st with headerScanPos := p } h hl, FR_empty m cap { st with headerScanPos := q } h hl]
  · cases hfq : find crlf2 st.data q with
    | none =>
      rw [FR_none m cap { st with headerScanPos := p } h hl (by rw [← hfq]; exact hf),
          FR_none m cap { st with headerScanPos := q } h hl hfq]
    | some he =>
      have hfp : find crlf2 st.data p = some he := by rw [hf, hfq]
      cases hp : parseHeaderBlock (st.data.take he) with
      | error k =>
        rw [FR_parseErr m cap { st with headerScanPos := p } he k h hl hfp hp,
            FR_parseErr m cap { st with headerScanPos := q } he k h hl hfq hp]
        rfl
      | ok resp =>
        by_cases hi : isInterim resp.status = true
        · rw [FR_interim m cap { st with headerScanPos := p } he resp h hl hfp hp hi,
              FR_interim m cap { st with headerScanPos := q } he resp h hl hfq hp hi]
        · have hi' : isInterim resp.status = false := by simpa using hi
          cases hd : determineFraming m resp cap with
          | error k =>
            rw [FR_dfErr m cap { st with headerScanPos := p } he resp k h hl hfp hp hi' hd,
                FR_dfErr m cap { st with headerScanPos := q } he resp k h hl hfq hp hi' hd]
            rfl
          | ok fr =>
            rw [FR_final m cap { st with headerScanPos := p } he resp fr h hl hfp hp hi' hd,
                FR_final m cap { st with headerScanPos := q } he resp fr h hl hfq hp hi' hd]
            let s1 : St := { st with headersDone := true, bodyStart := he + 4, resp := resp, framing := fr, chunk := { pos := he + 4, decoded := [], messageEnd := 0 } }
            have e1 := bodyPhase_scan cap s1 p rfl
            have e2 := bodyPhase_scan cap s1 q rfl
            exact e1.trans e2.symm

/-! ### resumption and stability of the body phase -/

theorem bodyPhase_resume (cap : Nat) (st st' : St) (x : Bytes) (h : bodyPhase cap st = (st', .needMore)) :
    bodyPhase cap (st'.app x) = bodyPhase cap (st.app x) := by
  unfold bodyPhase at h
  cases hm : st.framing.mode with
  | noBody => simp [hm] at h
  | contentLength =>
    simp only [hm] at h
    split at h
    · cases h; rfl
    · cases h
  | chunked =>
    simp only [hm] at h
    cases hadv : advanceChunked st.data cap st.chunk with
    | mk fs cs =>
      rw [hadv] at h
      cases fs with
      | needMore =>
        simp only at h
        cases h
        have hr := advanceChunked_resume st.data x cap st.chunk cs hadv
        unfold bodyPhase
        simp only [St.app, hm, hr]
        rfl
      | complete => simp at h
      | malformed => simp at h
  | closeDelimited => simp [hm] at h; cases h; rfl

theorem bodyPhase_stable_complete (cap : Nat) (st st' : St) (x : Bytes) (h : bodyPhase cap st = (st', .complete)) :
    ∃ st'', bodyPhase cap (st.app x) = (st'', .complete) ∧ st''.resp = st'.resp ∧
      (st'.forceEvict = true → st''.forceEvict = true) := by
  unfold bodyPhase at h
  cases hm : st.framing.mode with
  | noBody =>
    simp only [hm] at h
    cases h
    have e : bodyPhase cap (st.app x) = ({ st.app x with resp := { st.resp with body := [] }, forceEvict := st.forceEvict || decide ((st.app x).data.length > st.bodyStart) }, .complete) := by
      unfold bodyPhase; simp only [St.app, hm]; rfl
    refine ⟨_, e, rfl, ?_⟩
    simp only [St.app, List.length_append, Bool.or_eq_true, decide_eq_true_eq]
    intro h; rcases h with h | h
    · exact Or.inl h
    · exact Or.inr (by omega)
  | contentLength =>
    simp only [hm] at h
    split at h
    · cases h
    · rename_i hlen
      cases h
      have hlen' : ¬ ((st.data ++ x).length - st.bodyStart < st.framing.contentLength) := by
        simp only [List.length_append]; omega
      have e : bodyPhase cap (st.app x) = ({ st.app x with resp := { st.resp with body := ((st.app x).data.drop st.bodyStart).take st.framing.contentLength }, forceEvict := st.forceEvict || decide ((st.app x).data.length > st.bodyStart + st.framing.contentLength) }, .complete) := by
        unfold bodyPhase; simp only [St.app, hm, hlen', ↓reduceIte]; rfl
      refine ⟨_, e, ?_, ?_⟩
      · simp only [St.app, Resp.mk.injEq, true_and]
        by_cases hb : st.bodyStart ≤ st.data.length
        · rw [List.drop_append_of_le_length hb, List.take_append_of_le_length (by simp [List.length_drop]; omega)]
        · have hz : st.framing.contentLength = 0 := by omega
          simp [hz]
      · simp only [St.app, List.length_append, Bool.or_eq_true, decide_eq_true_eq]
        intro h; rcases h with h | h
        · exact Or.inl h
        · exact Or.inr (by omega)
  | chunked =>
    simp only [hm] at h
    cases hadv : advanceChunked st.data cap st.chunk with
    | mk fs cs =>
      rw [hadv] at h
      cases fs with
      | needMore => simp at h
      | malformed => simp at h
      | complete =>
        simp only at h
        cases h
        have hs := advanceChunked_stable st.data x cap st.chunk _ cs hadv (by simp)
        have e : bodyPhase cap (st.app x) = ({ st.app x with chunk := cs, resp := { st.resp with body := cs.decoded }, forceEvict := st.forceEvict || decide ((st.app x).data.length > cs.messageEnd) }, .complete) := by
          unfold bodyPhase; simp only [St.app, hm, hs]
        refine ⟨_, e, rfl, ?_⟩
        simp only [St.app, List.length_append, Bool.or_eq_true, decide_eq_true_eq]
        intro h; rcases h with h | h
        · exact Or.inl h
        · exact Or.inr (by omega)
  | closeDelimited => simp [hm] at h

theorem bodyPhase_stable_malformed (cap : Nat) (st st' : St) (x : Bytes) (k : Kind)
    (h : bodyPhase cap st = (st', .malformed k)) :
    ∃ st'', bodyPhase cap (st.app x) = (st'', .malformed k) := by
  unfold bodyPhase at h
  cases hm : st.framing.mode with
  | noBody => simp [hm] at h
  | contentLength =>
    simp only [hm] at h
    split at h <;> cases h
  | chunked =>
    simp only [hm] at h
    cases hadv : advanceChunked st.data cap st.chunk with
    | mk fs cs =>
      rw [hadv] at h
      cases fs with
      | needMore => simp at h
      | complete => simp at h
      | malformed =>
        simp only at h
        cases h
        have hs := advanceChunked_stable st.data x cap st.chunk _ cs hadv (by simp)
        have e : bodyPhase cap (st.app x) = ({ st.app x with chunk := cs }, .malformed .chunk) := by
          unfold bodyPhase; simp only [St.app, hm, hs]
        exact ⟨_, e⟩
  | closeDelimited => simp [hm] at h

/-! ### resumption and stability of `frameResponse` -/

theorem app_scan0 (st : St) (x : Bytes) (hs : st.headerScanPos = 0) :
    st.app x = { st.app x with headerScanPos := 0 } := by
  cases st; simp only [St.app] at *; subst hs; rfl

/-- facts needed to replay one header-phase turn on the extended buffer -/
theorem header_found_app (st : St) (x : Bytes) (he : Nat) (hf : find crlf2 st.data st.headerScanPos = some he) :
    find crlf2 (st.app x).data (st.app x).headerScanPos = some he ∧
    (st.app x).data.take he = st.data.take he ∧
    (st.app x).data.drop (he + 4) = st.data.drop (he + 4) ++ x ∧ (st.app x).data.length ≠ 0 := by
  have hb := find_bounds crlf2 st.data (by simp [crlf2]) _ _ hf
  simp only [crlf2, List.length_cons, List.length_nil] at hb
  refine ⟨find_append_some _ _ _ _ _ (by simp [crlf2]) hf, ?_, ?_, ?_⟩
  · simp only [St.app]; rw [List.take_append_of_le_length (by omega)]
  · simp only [St.app]; rw [List.drop_append_of_le_length (by omega)]
  · simp only [St.app, List.length_append]; omega

/-- **Resumption lemma.** After a "need more" answer, the carried state continues on the extended buffer exactly as
the state it came from would: the carried state is a function of the accumulated bytes. -/
theorem FR_resume (m : Bytes) (cap : Nat) (st : St) (hd : st.headersDone = false) (hs : st.headerScanPos = 0)
    (st' : St) (h : frameResponse m cap st = (st', .needMore)) (x : Bytes) :
    obs (frameResponse m cap (st'.app x)) = obs (frameResponse m cap (st.app x)) := by
  induction st using frameResponse.induct m cap generalizing st' with
  | case1 s hd' => rw [hd] at hd'; cases hd'
  | case2 s _ hl =>
    rw [FR_empty m cap s hd hl] at h
    cases h
    have e : ({ s with headerScanPos := 0 } : St) = s := by cases s; simp only at hs; subst hs; rfl
    rw [e]
  | case3 s _ hl hf =>
    rw [FR_none m cap s hd hl hf] at h
    cases h
    have hfind : find crlf2 (s.app x).data (if s.data.length ≥ 3 then s.data.length - 3 else 0) = find crlf2 (s.app x).data 0 := by
      by_cases h3 : s.data.length ≥ 3
      · simp only [h3, ↓reduceIte, St.app]
        rw [hs] at hf
        exact (find_resume crlf2 s.data x 0 (s.data.length - 3) (by simp [crlf2]) (by omega) (by simp [crlf2]; omega) hf).symm
      · simp only [h3, ↓reduceIte]
    have := FR_congr m cap (s.app x) (if s.data.length ≥ 3 then s.data.length - 3 else 0) 0 hd hfind
    exact this.trans (congrArg (fun t => obs (frameResponse m cap t)) (app_scan0 s x hs).symm)
  | case4 s _ hl he hf k hp => rw [FR_parseErr m cap s he k hd hl hf hp] at h; cases h
  | case5 s _ hl he hf resp hp hi ih =>
    rw [FR_interim m cap s he resp hd hl hf hp hi] at h
    have := ih hd rfl st' h
    rw [this]
    obtain ⟨hf', ht, hdr, hl'⟩ := header_found_app s x he hf
    rw [FR_interim m cap (s.app x) he resp hd hl' hf' (by rw [ht]; exact hp) hi, hdr]
    rfl
  | case6 s _ hl he hf resp hp hi k hdf =>
    rw [FR_dfErr m cap s he resp k hd hl hf hp (by simpa using hi) hdf] at h; cases h
  | case7 s _ hl he hf resp hp hi fr hdf =>
    have hi' : isInterim resp.status = false := by simpa using hi
    rw [FR_final m cap s he resp fr hd hl hf hp hi' hdf] at h
    have hd' : st'.headersDone = true := by
      have := bodyPhase_headersDone cap { s with headersDone := true, bodyStart := he + 4, resp := resp, framing := fr, chunk := { pos := he + 4, decoded := [], messageEnd := 0 } }
      rw [h] at this; exact this
    rw [FR_done m cap (st'.app x) hd', bodyPhase_resume cap _ st' x h]
    obtain ⟨hf', ht, _, hl'⟩ := header_found_app s x he hf
    rw [FR_final m cap (s.app x) he resp fr hd hl' hf' (by rw [ht]; exact hp) hi' hdf]
    rfl

/-- **Stability.** A complete or malformed answer stays the same answer when more bytes follow (only the surplus flag can
turn on). -/
theorem FR_stable (m : Bytes) (cap : Nat) (st : St) (hd : st.headersDone = false) (hs : st.headerScanPos = 0)
    (st' : St) (o : Out) (h : frameResponse m cap st = (st', o)) (x : Bytes) :
    (o = .complete → ∃ st'', frameResponse m cap (st.app x) = (st'', .complete) ∧ st''.resp = st'.resp ∧
        (st'.forceEvict = true → st''.forceEvict = true)) ∧
    (∀ k, o = .malformed k → ∃ st'', frameResponse m cap (st.app x) = (st'', .malformed k)) := by
  induction st using frameResponse.induct m cap generalizing st' with
  | case1 s hd' => rw [hd] at hd'; cases hd'
  | case2 s _ hl =>
    rw [FR_empty m cap s hd hl] at h; cases h
    exact ⟨(by intro h; cases h), (by intro k h; cases h)⟩
  | case3 s _ hl hf =>
    rw [FR_none m cap s hd hl hf] at h; cases h
    exact ⟨(by intro h; cases h), (by intro k h; cases h)⟩
  | case4 s _ hl he hf k hp =>
    rw [FR_parseErr m cap s he k hd hl hf hp] at h; cases h
    obtain ⟨hf', ht, _, hl'⟩ := header_found_app s x he hf
    refine ⟨(by intro h; cases h), ?_⟩
    intro k' hk; cases hk
    exact ⟨_, FR_parseErr m cap (s.app x) he k hd hl' hf' (by rw [ht]; exact hp)⟩
  | case5 s _ hl he hf resp hp hi ih =>
    rw [FR_interim m cap s he resp hd hl hf hp hi] at h
    have := ih hd rfl st' h
    obtain ⟨hf', ht, hdr, hl'⟩ := header_found_app s x he hf
    rw [FR_interim m cap (s.app x) he resp hd hl' hf' (by rw [ht]; exact hp) hi, hdr]
    exact this
  | case6 s _ hl he hf resp hp hi k hdf =>
    have hi' : isInterim resp.status = false := by simpa using hi
    rw [FR_dfErr m cap s he resp k hd hl hf hp hi' hdf] at h; cases h
    obtain ⟨hf', ht, _, hl'⟩ := header_found_app s x he hf
    refine ⟨(by intro h; cases h), ?_⟩
    intro k' hk; cases hk
    exact ⟨_, FR_dfErr m cap (s.app x) he resp k hd hl' hf' (by rw [ht]; exact hp) hi' hdf⟩
  | case7 s _ hl he hf resp hp hi fr hdf =>
    have hi' : isInterim resp.status = false := by simpa using hi
    rw [FR_final m cap s he resp fr hd hl hf hp hi' hdf] at h
    obtain ⟨hf', ht, _, hl'⟩ := header_found_app s x he hf
    rw [FR_final m cap (s.app x) he resp fr hd hl' hf' (by rw [ht]; exact hp) hi' hdf]
    constructor
    · intro ho; subst ho
      exact bodyPhase_stable_complete cap _ st' x h
    · intro k ho; subst ho
      exact bodyPhase_stable_malformed cap _ st' x k h

/-! ### the receive loop: any segmentation = the whole buffer -/

theorem normSt_headersDone (st : St) : (normSt st).headersDone = st.headersDone := by
  unfold normSt; split <;> rfl

theorem normSt_data (st : St) : (normSt st).data = st.data := by
  unfold normSt; split <;> rfl

theorem normSt_idem (st : St) : normSt (normSt st) = normSt st := by
  unfold normSt
  by_cases h : st.headersDone = true <;> simp [h]

theorem FR_norm_congr (m : Bytes) (cap : Nat) (st st0 : St) (x : Bytes) (hn : normSt st = normSt st0) :
    obs (frameResponse m cap (st.app x)) = obs (frameResponse m cap (st0.app x)) := by
  have hh : st.headersDone = st0.headersDone := by
    rw [← normSt_headersDone st, ← normSt_headersDone st0, hn]
  by_cases hd : st.headersDone = true
  · have hd0 : st0.headersDone = true := by rw [← hh]; exact hd
    have e : ({ st with headerScanPos := 0 } : St) = { st0 with headerScanPos := 0 } := by
      simpa [normSt, hd, hd0] using hn
    rw [FR_done m cap (st.app x) hd, FR_done m cap (st0.app x) hd0]
    have a := bodyPhase_scan cap (st.app x) 0 hd
    have b := bodyPhase_scan cap (st0.app x) 0 hd0
    rw [← a, ← b]
    have e' : ({ st.app x with headerScanPos := 0 } : St) = { st0.app x with headerScanPos := 0 } := by
      have := congrArg (fun t => St.app t x) e
      exact this
    rw [e']
  · have hd0 : ¬ st0.headersDone = true := by rw [← hh]; exact hd
    have : st = st0 := by simpa [normSt, hd, hd0] using hn
    rw [this]

theorem FR_data_le (m : Bytes) (cap : Nat) (st st' : St) (o : Out) (h : frameResponse m cap st = (st', o)) :
    st'.data.length ≤ st.data.length := by
  induction st using frameResponse.induct m cap generalizing st' with
  | case1 s hd =>
    rw [FR_done m cap s hd] at h
    have : (bodyPhase cap s).1.data = s.data := by
      unfold bodyPhase
      split
      · rfl
      · split <;> rfl
      · split <;> rfl
      · rfl
    rw [h] at this; simp only at this; rw [this]; exact Nat.le_refl _
  | case2 s hd hl => rw [FR_empty m cap s (by simpa using hd) hl] at h; cases h; exact Nat.le_refl _
  | case3 s hd hl hf => rw [FR_none m cap s (by simpa using hd) hl hf] at h; cases h; exact Nat.le_refl _
  | case4 s hd hl he hf k hp => rw [FR_parseErr m cap s he k (by simpa using hd) hl hf hp] at h; cases h; exact Nat.le_refl _
  | case5 s hd hl he hf resp hp hi ih =>
    rw [FR_interim m cap s he resp (by simpa using hd) hl hf hp hi] at h
    have := ih st' h
    simp only [List.length_drop] at this
    omega
  | case6 s hd hl he hf resp hp hi k hdf =>
    rw [FR_dfErr m cap s he resp k (by simpa using hd) hl hf hp (by simpa using hi) hdf] at h; cases h; exact Nat.le_refl _
  | case7 s hd hl he hf resp hp hi fr hdf =>
    rw [FR_final m cap s he resp fr (by simpa using hd) hl hf hp (by simpa using hi) hdf] at h
    have : ∀ t : St, (bodyPhase cap t).1.data = t.data := by
      intro t
      unfold bodyPhase
      split
      · rfl
      · split <;> rfl
      · split <;> rfl
      · rfl
    have e := this { s with headersDone := true, bodyStart := he + 4, resp := resp, framing := fr, chunk := { pos := he + 4, decoded := [], messageEnd := 0 } }
    rw [h] at e; simp only at e; rw [e]; exact Nat.le_refl _

/-- how a loop result relates to the framing of the whole buffer: equal, except that the surplus flag of a response
may still be off (the surplus had not arrived when the message completed) -/
def Rel (res : St × LoopOut) (o : Obs) : Prop :=
  match res.2, o with
  | .more, .more s => normSt res.1 = s
  | .response r e, .done r' e' => r = r' ∧ (e = true → e' = true)
  | .framingError k, .bad k' => k = k'
  | _, _ => False

def dataReads (ss : List Bytes) : List Recv := ss.map .data

theorem runLoop_segments (m : Bytes) (cap : Nat) : ∀ (ss : List Bytes) (D : Bytes) (st st0 : St),
    (D ++ ss.flatten).length ≤ cap →
    frameResponse m cap { data := D } = (st0, .needMore) → normSt st = normSt st0 →
    Rel (runLoop m cap st (dataReads ss)) (obs (frameResponse m cap { data := D ++ ss.flatten })) := by
  intro ss
  induction ss with
  | nil =>
    intro D st st0 _ h0 hn
    simp only [dataReads, List.map_nil, runLoop, List.flatten_nil, List.append_nil, h0, obs, Rel]
    rw [hn]
  | cons s ss ih =>
    intro D st st0 hcap h0 hn
    simp only [dataReads, List.map_cons, runLoop, recvStep]
    by_cases hse : s.isEmpty = true
    · have : s = [] := by simpa using hse
      subst this
      simp only [List.isEmpty_nil, ↓reduceIte, List.flatten_cons, List.nil_append]
      exact ih D st st0 (by simpa using hcap) h0 hn
    · simp only [hse, Bool.false_eq_true, ↓reduceIte]
      have hdl : st.data.length ≤ D.length := by
        have h1 := FR_data_le m cap _ _ _ h0
        have h2 : st.data = st0.data := by rw [← normSt_data st, ← normSt_data st0, hn]
        rw [h2]; exact h1
      have hcap1 : ¬ ((st.data ++ s).length > cap) := by
        simp only [List.length_append, List.flatten_cons] at hcap ⊢
        omega
      simp only [hcap1, ↓reduceIte]
      have hobs : obs (frameResponse m cap (st.app s)) = obs (frameResponse m cap { data := D ++ s }) := by
        rw [FR_norm_congr m cap st st0 s hn]
        exact FR_resume m cap { data := D } rfl rfl st0 h0 s
      have hassoc : D ++ (s :: ss).flatten = (D ++ s) ++ ss.flatten := by simp
      rw [hassoc]
      replace hobs : obs (frameResponse m cap { st with data := st.data ++ s }) = obs (frameResponse m cap { data := D ++ s }) := hobs
      cases hfr : frameResponse m cap { st with data := st.data ++ s } with
      | mk st2 o2 =>
        cases hw : frameResponse m cap { data := D ++ s } with
        | mk stw ow =>
          rw [hfr, hw] at hobs
          cases o2 with
          | needMore =>
            cases ow with
            | needMore =>
              simp only [obs, Obs.more.injEq] at hobs
              exact ih (D ++ s) st2 stw (by simpa [List.append_assoc] using hcap) hw hobs
            | complete => simp [obs] at hobs
            | malformed k => simp [obs] at hobs
          | complete =>
            cases ow with
            | needMore => simp [obs] at hobs
            | malformed k => simp [obs] at hobs
            | complete =>
              simp only [obs, Obs.done.injEq] at hobs
              obtain ⟨st'', hst, hr, he⟩ := (FR_stable m cap { data := D ++ s } rfl rfl stw _ hw ss.flatten).1 rfl
              have : ({ data := D ++ s } : St).app ss.flatten = { data := D ++ s ++ ss.flatten } := rfl
              rw [this] at hst
              simp only [hst, obs, Rel]
              exact ⟨by rw [hr, hobs.1], by intro h; exact he (by rw [← hobs.2]; exact h)⟩
          | malformed k =>
            cases ow with
            | needMore => simp [obs] at hobs
            | complete => simp [obs] at hobs
            | malformed k' =>
              simp only [obs, Obs.bad.injEq] at hobs
              obtain ⟨st'', hst⟩ := (FR_stable m cap { data := D ++ s } rfl rfl stw _ hw ss.flatten).2 k' rfl
              have : ({ data := D ++ s } : St).app ss.flatten = { data := D ++ s ++ ss.flatten } := rfl
              rw [this] at hst
              simp only [hst, obs, Rel]
              exact hobs

/-- outcomes agree up to the surplus flag of a response -/
def SameOutcome : LoopOut → LoopOut → Prop
  | .response r _, .response r' _ => r = r'
  | .response _ _, _ => False
  | _, .response _ _ => False
  | a, b => a = b

theorem SameOutcome_trans_symm {a b c : LoopOut} (h1 : SameOutcome a c) (h2 : SameOutcome b c) : SameOutcome a b := by
  cases a <;> cases b <;> cases c <;> simp_all [SameOutcome]

theorem runLoop_append (m : Bytes) (cap : Nat) : ∀ (rs rs' : List Recv) (st : St),
    runLoop m cap st (rs ++ rs') =
      (match runLoop m cap st rs with
       | (st', .more) => runLoop m cap st' rs'
       | res => res) := by
  intro rs
  induction rs with
  | nil => intro rs' st; simp [runLoop]
  | cons r rs ih =>
    intro rs' st
    simp only [List.cons_append, runLoop]
    cases hr : recvStep m cap st r with
    | mk st1 o1 =>
      cases o1 with
      | more => simp only; exact ih rs' st1
      | response r e => simp
      | framingError k => simp
      | failed f => simp

/-- what the loop returns when the peer closes after the observed framing result -/
def closeOut : Obs → LoopOut
  | .more s =>
    if s.headersDone ∧ s.framing.mode = .closeDelimited then .response { s.resp with body := s.data.drop s.bodyStart } true
    else .failed .closedEarly
  | .done r e => .response r e
  | .bad k => .framingError k

theorem Rel_close (m : Bytes) (cap : Nat) (res : St × LoopOut) (o : Obs) (h : Rel res o) :
    SameOutcome (match res with
                 | (st', .more) => runLoop m cap st' [.peerClosed]
                 | r => r).2 (closeOut o) := by
  obtain ⟨st, lo⟩ := res
  cases lo with
  | more =>
    cases o with
    | more s =>
      simp only [Rel] at h
      subst h
      simp only [runLoop, recvStep, closeOut]
      by_cases hd : st.headersDone = true
      · simp only [normSt, hd, ↓reduceIte, true_and]
        by_cases hm : st.framing.mode = .closeDelimited
        · simp [hm, SameOutcome]
        · simp [hm, SameOutcome]
      · simp [normSt, hd, SameOutcome]
    | done r e => simp [Rel] at h
    | bad k => simp [Rel] at h
  | response r e =>
    cases o with
    | more s => simp [Rel] at h
    | done r' e' => simp only [Rel] at h; simp [closeOut, SameOutcome, h.1]
    | bad k => simp [Rel] at h
  | framingError k =>
    cases o with
    | more s => simp [Rel] at h
    | done r' e' => simp [Rel] at h
    | bad k' => simp only [Rel] at h; simp [closeOut, SameOutcome, h]
  | failed f => cases o <;> simp [Rel] at h

/-! ### invalid length information is rejected (characterisation of acceptance) -/

theorem parseDigits_sound (base : Nat) : ∀ (s : Bytes) (acc n : Nat), parseDigits base s acc = some n →
    (∀ c ∈ s, (digitVal base c).isSome = true) ∧ n < 2 ^ 64 ∨ (s = [] ∧ n = acc) := by
  intro s
  induction s with
  | nil => intro acc n h; simp [parseDigits] at h; exact Or.inr ⟨rfl, h.symm⟩
  | cons c cs ih =>
    intro acc n h
    simp only [parseDigits] at h
    cases hd : digitVal base c with
    | none => rw [hd] at h; cases h
    | some v =>
      rw [hd] at h
      simp only at h
      split at h
      · rename_i hlt
        rcases ih _ _ h with ⟨h1, h2⟩ | ⟨h1, h2⟩
        · left
          refine ⟨?_, h2⟩
          intro x hx
          rcases List.mem_cons.mp hx with rfl | hx
          · simp [hd]
          · exact h1 x hx
        · left
          subst h1
          refine ⟨?_, by omega⟩
          intro x hx
          simp only [List.mem_cons, List.not_mem_nil, or_false] at hx
          subst hx; simp [hd]
      · cases h

theorem parseFullUInt_sound (base : Nat) (s : Bytes) (n : Nat) (h : parseFullUInt base s = some n) :
    s ≠ [] ∧ (∀ c ∈ s, (digitVal base c).isSome = true) ∧ n < 2 ^ 64 := by
  unfold parseFullUInt at h
  split at h
  · cases h
  · rename_i hne
    have hne' : s ≠ [] := by simpa using hne
    rcases parseDigits_sound base s 0 n h with ⟨h1, h2⟩ | ⟨h1, _⟩
    · exact ⟨hne', h1, h2⟩
    · exact absurd h1 hne'

theorem parseCLElems_sound : ∀ (es : List Bytes) (hv : Option Nat) (n : Nat), parseCLElems es hv = .ok n →
    (∀ e ∈ es, parseFullUInt 10 (trim e) = some n) ∧ (∀ r, hv = some r → r = n) := by
  intro es
  induction es with
  | nil =>
    intro hv n h
    cases hv with
    | none => simp [parseCLElems] at h
    | some r =>
      simp only [parseCLElems, Except.ok.injEq] at h
      exact ⟨(by intro e he; cases he), (by intro r' hr; cases hr; exact h)⟩
  | cons e es ih =>
    intro hv n h
    simp only [parseCLElems] at h
    cases hp : parseFullUInt 10 (trim e) with
    | none => rw [hp] at h; cases h
    | some v =>
      rw [hp] at h
      cases hv with
      | none =>
        simp only at h
        obtain ⟨h1, h2⟩ := ih _ _ h
        have hvn : v = n := h2 v rfl
        refine ⟨?_, (by intro r hr; cases hr)⟩
        intro x hx
        rcases List.mem_cons.mp hx with rfl | hx
        · rw [hp, hvn]
        · exact h1 x hx
      | some r =>
        simp only at h
        split at h
        · cases h
        · rename_i hne
          have hvr : v = r := by
            cases Nat.decEq v r with
            | isTrue e => exact e
            | isFalse ne => exact absurd ne hne
          obtain ⟨h1, h2⟩ := ih _ _ h
          have hvn : v = n := h2 v rfl
          refine ⟨?_, (by intro r' hr; cases hr; rw [← hvr, hvn])⟩
          intro x hx
          rcases List.mem_cons.mp hx with rfl | hx
          · rw [hp, hvn]
          · exact h1 x hx

theorem sizeLine_sound (buf : Bytes) (cap pos n ds : Nat) (h : sizeLine buf cap pos = .ok n ds) :
    n ≤ cap ∧ n < 2 ^ 64 := by
  unfold sizeLine at h
  split at h
  · cases h
  · simp only at h
    split at h
    · cases h
    · split at h
      · cases h
      · split at h
        · cases h
        · rename_i v hp
          split at h
          · cases h
          · split at h
            · cases h
              exact ⟨by omega, (parseFullUInt_sound 16 _ _ hp).2.2⟩
            · cases h

end Iora.Http
