import IoraModel.Lemmas.ConnectSyncBase
/-! Helpers for `Lemmas/ConnectSyncG.lean`: per step function, (1) which threads can be in the middle of which attempt after the
step (`att_doX`), (2) a summary `StepSum` of what the step may do to the log, the fence flag and the current attempts. -/
namespace Iora.ConnectSync
set_option linter.unusedSimpArgs false
set_option linter.unusedVariables false

@[simp] theorem step_cRefuse (s : State) (c : Nat) : step s (.cRefuse c) = doRefuse s c := rfl

theorem ret_att (s : State) (c : Nat) (o : Option Nat) (r : Res) (j sid : Nat)
    (h : att ((ret s c o r).callers j).pc = some sid) : att (s.callers j).pc = some sid ∧ j ≠ c := by
  unfold ret at h
  by_cases hj : j = c
  · subst hj; simp at h
  · simp [setC_other _ _ hj] at h; exact ⟨h, hj⟩

theorem notify_att (s : State) (c sid : Nat) (j : Nat) : att ((notify s c sid).callers j).pc = att (s.callers j).pc := by
  unfold notify
  (repeat' split) <;> inv_grind

macro "att_tac " f:ident : tactic =>
  `(tactic| (unfold $f at *; (try unfold ret at *); (try dsimp only at *); (repeat' split at *) <;> inv_grind [att_retPc, notify_att, np_att]))

theorem att_doCall (s : State) (c : Nat) (w : Bool) (j sid : Nat) (h : att ((doCall s c w).callers j).pc = some sid) :
    att (s.callers j).pc = some sid := by att_tac doCall
theorem att_doCancel (s : State) (c : Nat) (j sid : Nat) (h : att ((doCancel s c).callers j).pc = some sid) :
    att (s.callers j).pc = some sid := by att_tac doCancel
theorem att_doEnter (s : State) (c : Nat) (j sid : Nat) (h : att ((doEnter s c).callers j).pc = some sid) :
    att (s.callers j).pc = some sid := by att_tac doEnter
theorem att_doRefuse (s : State) (c : Nat) (j sid : Nat) (h : att ((doRefuse s c).callers j).pc = some sid) :
    att (s.callers j).pc = some sid := by att_tac doRefuse
theorem att_doRegister (s : State) (c : Nat) (j sid : Nat) (h : att ((doRegister s c).callers j).pc = some sid) :
    att (s.callers j).pc = some sid := by att_tac doRegister
theorem att_doPark (s : State) (c : Nat) (j sid : Nat) (h : att ((doPark s c).callers j).pc = some sid) :
    att (s.callers j).pc = some sid := by att_tac doPark
theorem att_afterWait (s : State) (c sid' : Nat) (hp : att (s.callers c).pc = some sid') (j sid : Nat) (h : att ((afterWait s c sid').callers j).pc = some sid) :
    att (s.callers j).pc = some sid := by att_tac afterWait
theorem att_doWake (s : State) (c : Nat) (t : Bool) (j sid : Nat) (h : att ((doWake s c t).callers j).pc = some sid) :
    att (s.callers j).pc = some sid := by
  unfold doWake at h
  split at h
  · rename_i sid' a hpc hl
    split at h
    · exact att_afterWait s c sid' (by simp [hpc, att]) j sid h
    · inv_grind
  · exact h
theorem att_doClose (s : State) (c : Nat) (j sid : Nat) (h : att ((doClose s c).callers j).pc = some sid) :
    att (s.callers j).pc = some sid := by att_tac doClose
theorem att_doRelock (s : State) (c : Nat) (j sid : Nat) (h : att ((doRelock s c).callers j).pc = some sid) :
    att (s.callers j).pc = some sid := by att_tac doRelock
theorem att_doWLoop (s : State) (c : Nat) (d : Bool) (j sid : Nat) (h : att ((doWLoop s c d).callers j).pc = some sid) :
    att (s.callers j).pc = some sid := by att_tac doWLoop
theorem att_doPop (s : State) (b : Bool) (j sid : Nat) (h : att ((doPop s b).callers j).pc = some sid) :
    att (s.callers j).pc = some sid := by att_tac doPop
theorem att_doComplete (s : State) (x : Nat) (j sid : Nat) (h : att ((doComplete s x).callers j).pc = some sid) :
    att (s.callers j).pc = some sid := by att_tac doComplete
theorem att_doFail (s : State) (x : Nat) (j sid : Nat) (h : att ((doFail s x).callers j).pc = some sid) :
    att (s.callers j).pc = some sid := by att_tac doFail
theorem att_doPeerClose (s : State) (x : Nat) (j sid : Nat) (h : att ((doPeerClose s x).callers j).pc = some sid) :
    att (s.callers j).pc = some sid := by att_tac doPeerClose
theorem att_connHandler (s : State) (x : Nat) (j sid : Nat) (h : att ((connHandler s x).callers j).pc = some sid) :
    att (s.callers j).pc = some sid := by att_tac connHandler
theorem att_closeHandler (s : State) (x : Nat) (j sid : Nat) (h : att ((closeHandler s x).callers j).pc = some sid) :
    att (s.callers j).pc = some sid := by att_tac closeHandler
theorem att_doIoStep (s : State) (j sid : Nat) (h : att ((doIoStep s).callers j).pc = some sid) :
    att (s.callers j).pc = some sid := by
  unfold doIoStep at h
  split at h <;> first | exact att_connHandler _ _ _ _ h | exact att_closeHandler _ _ _ _ h | (simp only [notify_att] at h; exact h) | exact h
theorem att_doFence (s : State) (j sid : Nat) (h : att ((doFence s).callers j).pc = some sid) :
    att (s.callers j).pc = some sid := by att_tac doFence

theorem att_doConnect (s : State) (c' c sid : Nat) (h : att ((doConnect s c').callers c).pc = some sid) :
    att (s.callers c).pc = some sid ∨ (c = c' ∧ sid = s.nextSid ∧ (s.callers c').pc = .haveLock) := by att_tac doConnect

/-! ## step summary -/

/-- what one step may do to the log, the fence flag and the current attempts -/
structure StepSum (s s' : State) : Prop where
  mono : ∀ e, e ∈ s.log → e ∈ s'.log
  cr : ∀ c sid, Ev.created c sid ∈ s'.log → Ev.created c sid ∈ s.log ∨ att (s'.callers c).pc = some sid
  ar : ∀ c o r, Ev.attemptRet c o r ∈ s'.log → Ev.attemptRet c o r ∈ s.log ∨
    ((r = .err .closed → ∀ sid, o = some sid → Ev.delivered sid false ∈ s.log) ∧
     (r = .err .shuttingDown → s.shuttingDown = true) ∧ (r = .err .refused → o = none) ∧ r ≠ .err .cancelled)
  fs : Ev.fenceSet ∈ s'.log → Ev.fenceSet ∈ s.log ∨ s'.shuttingDown = true
  fwd : ∀ c sid, att (s.callers c).pc = some sid →
    att (s'.callers c).pc = some sid ∨ ∃ r, Ev.attemptRet c (some sid) r ∈ s'.log
  sd : s.shuttingDown = true → s'.shuttingDown = true

theorem Sum_refl (s : State) : StepSum s s := by
  constructor <;> grind

theorem retEvs_self (c : Nat) (sid : Option Nat) (w : Bool) (r : Res) : Ev.attemptRet c sid r ∈ retEvs c sid w r := by
  rw [mem_retEvs]; exact Or.inl rfl
grind_pattern retEvs_self => retEvs c sid w r

macro "sum_tac " f:ident : tactic =>
  `(tactic| (unfold $f; (try unfold ret); (try dsimp only); (repeat' split) <;>
      first | exact Sum_refl _ | (constructor <;> inv_grind [att_retPc, mem_retEvs, np_att])))

theorem sum_doCall (s : State) (c : Nat) (w : Bool) : StepSum s (doCall s c w) := by sum_tac doCall
theorem sum_doCancel (s : State) (c : Nat) : StepSum s (doCancel s c) := by sum_tac doCancel
theorem sum_doEnter (s : State) (c : Nat) : StepSum s (doEnter s c) := by sum_tac doEnter
theorem sum_doConnect (s : State) (c : Nat) : StepSum s (doConnect s c) := by sum_tac doConnect
theorem sum_doRefuse (s : State) (c : Nat) : StepSum s (doRefuse s c) := by sum_tac doRefuse
theorem sum_doRegister (s : State) (c : Nat) : StepSum s (doRegister s c) := by sum_tac doRegister
theorem sum_doPark (s : State) (c : Nat) : StepSum s (doPark s c) := by sum_tac doPark
theorem sum_doClose (s : State) (c : Nat) : StepSum s (doClose s c) := by sum_tac doClose
theorem sum_doRelock (s : State) (c : Nat) : StepSum s (doRelock s c) := by sum_tac doRelock
theorem sum_doWLoop (s : State) (c : Nat) (d : Bool) : StepSum s (doWLoop s c d) := by sum_tac doWLoop
theorem sum_doPop (s : State) (b : Bool) : StepSum s (doPop s b) := by sum_tac doPop
theorem sum_doComplete (s : State) (x : Nat) : StepSum s (doComplete s x) := by sum_tac doComplete
theorem sum_doFail (s : State) (x : Nat) : StepSum s (doFail s x) := by sum_tac doFail
theorem sum_doPeerClose (s : State) (x : Nat) : StepSum s (doPeerClose s x) := by sum_tac doPeerClose
theorem sum_doFence (s : State) : StepSum s (doFence s) := by sum_tac doFence

theorem notify_log (s : State) (c sid : Nat) : (notify s c sid).log = s.log := by
  unfold notify; (repeat' split) <;> rfl
theorem notify_sd (s : State) (c sid : Nat) : (notify s c sid).shuttingDown = s.shuttingDown := by
  unfold notify; (repeat' split) <;> rfl

theorem sum_connHandler (s : State) (x : Nat) : StepSum s (connHandler s x) := by sum_tac connHandler
theorem sum_closeHandler (s : State) (x : Nat) : StepSum s (closeHandler s x) := by sum_tac closeHandler
theorem sum_doIoStep (s : State) : StepSum s (doIoStep s) := by
  unfold doIoStep
  split <;> (first
    | exact sum_connHandler _ _
    | exact sum_closeHandler _ _
    | exact Sum_refl _
    | (constructor <;> simp only [notify_att, notify_log, notify_sd] <;> grind))

theorem sum_doWake {s : State} (h : Inv s) (c : Nat) (t : Bool) : StepSum s (doWake s c t) := by
  have P4 := h.P4
  clear h
  unfold doWake
  split
  · split
    · unfold afterWait ret
      dsimp only
      (repeat' split) <;> (constructor <;> inv_grind [att_retPc, mem_retEvs])
    · constructor <;> inv_grind
  · exact Sum_refl _

theorem sum_step {s : State} (h : Inv s) (st : Step) : StepSum s (step s st) := by
  cases st with
  | call c w => exact sum_doCall _ _ _
  | cancel c => exact sum_doCancel _ _
  | cEnter c => exact sum_doEnter _ _
  | cConnect c => exact sum_doConnect _ _
  | cRefuse c => exact sum_doRefuse _ _
  | cRegister c => exact sum_doRegister _ _
  | cPark c => exact sum_doPark _ _
  | cWake c t => exact sum_doWake h _ _
  | cClose c => exact sum_doClose _ _
  | cRelock c => exact sum_doRelock _ _
  | wLoop c d => exact sum_doWLoop _ _ _
  | ioPop b => exact sum_doPop _ _
  | ioComplete x => exact sum_doComplete _ _
  | ioFail x => exact sum_doFail _ _
  | ioPeerClose x => exact sum_doPeerClose _ _
  | timerClose x => exact sum_doFail _ _
  | ioStep => exact sum_doIoStep _
  | fence => exact sum_doFence _

end Iora.ConnectSync
