import IoraModel.Lemmas.XmlExplicit
set_option linter.unusedSimpArgs false
set_option linter.unusedVariables false
/-! The two builds of the tokenizer (`IORA_XML_THROW_ON_ERROR` = 0 / 1) compared: one call of `next()` gives the same token and state
in both; an error is the same error at the same cursor, except that an over-long name is reported as "name too long" by the throwing
build (the first `fail()` ends the call) and as the caller's "invalid … name" by the default build. -/
namespace Iora.Xml
open Iora

/-- the same options in a throwing build -/
def Options.thr (o : Options) : Options := { o with throwing := true }

/-- the four messages a caller of `readName` substitutes for the empty view -/
def ErrKind.isNameErr : ErrKind → Bool
  | .badStartName | .badEndName | .badAttrName | .badPiTarget => true
  | _ => false

/-- reader results: equal, or the default build's `fail(k)` is the throwing build's `fail("name too long")` at the same cursor -/
def RRel {α : Type} (k : ErrKind) (r r' : Res α) : Prop := r' = r ∨ ∃ c, r = .fail k c ∧ r' = .fail .nameTooLong c

/-- step results: equal, or an error at the same cursor that the throwing build reports as "name too long" -/
def SRel (s s' : Step) : Prop := s' = s ∨ ∃ e c, e.isNameErr = true ∧ s = .err e c ∧ s' = .err .nameTooLong c

theorem RRel.refl {α : Type} (k : ErrKind) (r : Res α) : RRel k r r := Or.inl rfl
theorem SRel.refl (s : Step) : SRel s s := Or.inl rfl

theorem bind_rrel {α β : Type} {k : ErrKind} (r : Res α) {f f' : α → Cur → Res β} (h : ∀ a c, RRel k (f a c) (f' a c)) :
    RRel k (r.bind f) (r.bind f') := by
  cases r with
  | ok a c => exact h a c
  | fail e c => exact Or.inl rfl
  | bad b => exact Or.inl rfl

theorem toStep_srel {α : Type} (r : Res α) {f f' : α → Cur → Step} (h : ∀ a c, SRel (f a c) (f' a c)) :
    SRel (r.toStep f) (r.toStep f') := by
  cases r with
  | ok a c => exact h a c
  | fail e c => exact Or.inl rfl
  | bad b => exact Or.inl rfl

/-- `readName` in the two builds -/
theorem readName_thr (o : Options) (c : Cur) :
    readNameC o.thr c = readNameC o c ∨ ∃ c', readNameC o c = .ok none c' ∧ readNameC o.thr c = .fail .nameTooLong c' := by
  unfold readNameC
  cases c.rest with
  | nil => exact Or.inl rfl
  | cons ch r =>
    simp only
    split
    · exact Or.inl rfl
    · cases advR (1 + spanLen isNameChar r) c with
      | ok a c' =>
        simp only [Res.bind, Options.thr]
        by_cases hl : c'.pos - c.pos > o.maxName
        · simp only [hl, ↓reduceIte]
          by_cases ht : o.throwing = true
          · simp [ht]
          · exact Or.inr ⟨c', by simp [ht], rfl⟩
        · simp [hl]
      | fail e c' => exact Or.inl rfl
      | bad b => exact Or.inl rfl

/-- a caller of `readName` that turns the empty view into its own error -/
theorem readName_toStep_srel (o : Options) (c : Cur) (ek : ErrKind) (hek : ek.isNameErr = true) {f f' : Slice → Cur → Step}
    (h : ∀ nm c1, SRel (f nm c1) (f' nm c1)) :
    SRel ((readNameC o c).toStep fun name c1 => match name with | none => .err ek c1 | some nm => f nm c1)
         ((readNameC o.thr c).toStep fun name c1 => match name with | none => .err ek c1 | some nm => f' nm c1) := by
  rcases readName_thr o c with he | ⟨c', h1, h2⟩
  · rw [he]
    apply toStep_srel
    intro a c1
    cases a with
    | none => exact Or.inl rfl
    | some nm => exact h nm c1
  · rw [h1, h2]
    exact Or.inr ⟨ek, c', hek, rfl, rfl⟩

theorem readQuotedValue_thr (o : Options) (c : Cur) : readQuotedValueC o.thr c = readQuotedValueC o c := rfl

theorem readAttributes_thr (o : Options) : ∀ (fuel : Nat) (acc : List Attr) (c : Cur),
    RRel .badAttrName (readAttributesC o fuel acc c) (readAttributesC o.thr fuel acc c) := by
  intro fuel
  induction fuel with
  | zero => intro acc c; exact Or.inl rfl
  | succ f ih =>
    intro acc c
    simp only [readAttributesC]
    apply bind_rrel
    intro _ c1
    cases c1.rest with
    | nil => exact Or.inl rfl
    | cons ch _ =>
      simp only
      split
      · exact Or.inl rfl
      · rcases readName_thr o c1 with he | ⟨c', h1, h2⟩
        · rw [he]
          apply bind_rrel
          intro name c2
          cases name with
          | none => exact Or.inl rfl
          | some nm =>
            simp only
            apply bind_rrel
            intro _ c3
            cases c3.rest with
            | nil => exact Or.inl rfl
            | cons e _ =>
              simp only
              split
              · exact Or.inl rfl
              · apply bind_rrel
                intro _ c4
                apply bind_rrel
                intro _ c5
                rw [readQuotedValue_thr]
                apply bind_rrel
                intro v c6
                have : o.thr.maxAttrs = o.maxAttrs := rfl
                rw [this]
                split
                · exact Or.inl rfl
                · exact ih _ c6
        · rw [h1, h2]
          exact Or.inr ⟨c', rfl, rfl⟩

theorem readPI_thr (o : Options) (s : St) (st c : Cur) : SRel (readPIC o s st c) (readPIC o.thr s st c) := by
  unfold readPIC
  exact readName_toStep_srel o c .badPiTarget rfl (fun nm c1 => Or.inl rfl)

theorem readEndTag_thr (o : Options) (s : St) (st c : Cur) : SRel (readEndTagC o s st c) (readEndTagC o.thr s st c) := by
  unfold readEndTagC
  exact readName_toStep_srel o c .badEndName rfl (fun nm c1 => Or.inl rfl)

theorem readStart_thr (o : Options) (s : St) (st c : Cur) :
    SRel (readStartOrEmptyTagC o s st c) (readStartOrEmptyTagC o.thr s st c) := by
  unfold readStartOrEmptyTagC
  apply readName_toStep_srel o c .badStartName rfl
  intro nm c1
  rcases readAttributes_thr o (c1.rest.length + 1) [] c1 with he | ⟨c', h1, h2⟩
  · rw [he]; exact Or.inl rfl
  · rw [h1, h2]; exact Or.inr ⟨_, c', rfl, rfl, rfl⟩

/-- one call of `next()` in the two builds -/
theorem nextC_thr (o : Options) (s : St) : SRel (nextC o s) (nextC o.thr s) := by
  unfold nextC
  have hm : o.thr.maxTokens = o.maxTokens := rfl
  rw [hm]
  split
  · exact Or.inl rfl
  · apply toStep_srel
    intro _ c
    cases c.rest with
    | nil => exact Or.inl rfl
    | cons ch r =>
      simp only
      split
      · apply toStep_srel
        intro _ c1
        cases c1.rest with
        | nil => exact Or.inl rfl
        | cons n _ =>
          simp only
          split
          · apply toStep_srel; intro _ c2; exact readPI_thr o s c c2
          · split
            · exact Or.inl rfl
            · split
              · apply toStep_srel; intro _ c2; exact readEndTag_thr o s c c2
              · exact readStart_thr o s c c1
      · exact Or.inl rfl

/-- **the two builds, one call of `next()`**: same token and state, same Eof, and an error is the same error at the same cursor
unless the throwing build reports it as "name too long" -/
theorem next_thr (o : Options) (s : St) : SRel (next o s) (next o.thr s) := by
  rw [next_eq, next_eq]; exact nextC_thr o s

/-- how a run ends in the two builds: the same way, or with an "invalid … name" error that the throwing build reports as
"name too long" — same cursor, same state -/
def ORel (out out' : Outcome) : Prop :=
  out' = out ∨ ∃ e c s, e.isNameErr = true ∧ out = .error e c s ∧ out' = .error .nameTooLong c s

theorem run_thr (o : Options) : ∀ (fuel : Nat) (s : St),
    (run o.thr fuel s).1 = (run o fuel s).1 ∧ ORel (run o fuel s).2 (run o.thr fuel s).2 := by
  intro fuel
  induction fuel with
  | zero => intro s; exact ⟨rfl, Or.inl rfl⟩
  | succ f ih =>
    intro s
    simp only [run]
    rcases next_thr o s with he | ⟨e, c, hn, h1, h2⟩
    · rw [he]
      cases next o s with
      | tok t s' =>
        simp only
        have := ih s'
        exact ⟨by rw [this.1], this.2⟩
      | eof t s' => exact ⟨rfl, Or.inl rfl⟩
      | err e c => exact ⟨rfl, Or.inl rfl⟩
      | bad b => exact ⟨rfl, Or.inl rfl⟩
    · rw [h1, h2]
      exact ⟨rfl, Or.inr ⟨e, c, s, hn, rfl, rfl⟩⟩

/-- **the two builds, whole documents**: the throwing build returns exactly the tokens of the default build and ends the same way
(the exception carries the same error, recorded at the same cursor), except that an over-long name is "name too long" -/
theorem tokens_thr (o : Options) (bs : Bytes) :
    (tokens o.thr bs).1 = (tokens o bs).1 ∧ ORel (tokens o bs).2 (tokens o.thr bs).2 :=
  run_thr o (bs.length + 2) (St.init bs)

/-- **SAX in the two builds**: the same callbacks with the same tokens in the same order (whether `runSax` then returns false or
the exception leaves it is `ORel`) -/
theorem runSax_thr (reg : Registered) (o : Options) (bs : Bytes) : (runSax reg o.thr bs).1 = (runSax reg o bs).1 := by
  unfold runSax
  simp only [(tokens_thr o bs).1]

/-- **DOM in the two builds**: whenever the default build returns a document or fails in `decodeEntities`, the throwing build
returns exactly the same; where the default build returns `nullptr` with the tokenizer's error, the throwing build lets the
exception out of `build` — the same error at the same position, or "name too long" for an "invalid … name" -/
theorem domBuildT_spec (o : Options) (bs : Bytes) :
    match domBuildT o bs with
    | .ret r => domBuild o bs = r
    | .thrown e c => ∃ e', domBuild o bs = .null e' c.pos c.line c.col ∧ (e = e' ∨ (e'.isNameErr = true ∧ e = .nameTooLong)) := by
  obtain ⟨htok, hout⟩ := tokens_thr o bs
  have hthr : ({ o with throwing := true } : Options) = o.thr := rfl
  unfold domBuildT domBuild domOf
  simp only [hthr, htok]
  cases hf : domFold bs {} (tokens o bs).1 with
  | inr res => simp only
  | inl d =>
    simp only
    rcases hout with he | ⟨e, c, s, hn, h1, h2⟩
    · rw [he]
      cases ho : (tokens o bs).2 with
      | accepted t s => simp only [hf]
      | error e c s => simp only; exact ⟨e, rfl, Or.inl rfl⟩
      | bad b => simp only [hf]
    · rw [h2, h1]
      simp only
      exact ⟨e, rfl, Or.inr ⟨hn, trivial⟩⟩

end Iora.Xml
