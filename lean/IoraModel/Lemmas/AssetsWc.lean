import IoraModel.Lemmas.AssetsLookup
/-!
C20: analysis of `weakly_canonical` when the path does not exist — the loop over the leading elements that exist, the
re-attached tail, its lexical normal form — and the theorem that the result never names a regular file (`WcMissingNoFile`).
-/
namespace Iora.Assets
open Iora

/-! ### building `/a/b/c` element by element (`path::operator/=`) -/

theorem joinSlash_snoc (dn : List Bytes) (c : Bytes) (h : dn ≠ []) : joinSlash (dn ++ [c]) = joinSlash dn ++ SLASH :: c := by
  induction dn with
  | nil => exact absurd rfl h
  | cons a rest ih =>
    cases rest with
    | nil => simp [joinSlash]
    | cons b r =>
      have h1 : joinSlash (a :: (b :: r ++ [c])) = a ++ SLASH :: joinSlash (b :: r ++ [c]) := joinSlash_cons a _ (by simp)
      have h2 : joinSlash (a :: b :: r) = a ++ SLASH :: joinSlash (b :: r) := joinSlash_cons a _ (by simp)
      have ih' := ih (by simp)
      simp only [List.cons_append] at h1 ih' ⊢
      rw [h1, h2, ih']
      simp

theorem isAbs_name (c : Bytes) (h : IsName c) : isAbs c = false := by
  cases c with
  | nil => simp [isAbs]
  | cons x xs =>
    simp [isAbs]
    intro e; exact h.2 (by simp [e])

theorem trailSlash_root : trailSlash [SLASH] = true := by simp [trailSlash]

theorem pathAppend_renderAbs_name (dn : List Bytes) (c : Bytes) (hdn : ∀ n ∈ dn, IsName n) (hc : IsName c) :
    pathAppend (renderAbs dn) c = renderAbs (dn ++ [c]) := by
  unfold pathAppend hasFilename
  simp only [isAbs_name c hc, renderAbs, List.isEmpty_cons, Bool.or_self, Bool.false_eq_true, ↓reduceIte, Bool.not_false,
    Bool.true_and]
  cases dn with
  | nil => simp [joinSlash, trailSlash]
  | cons a r =>
    have := trailSlash_renderAbs (a :: r) hdn (by simp)
    simp only [renderAbs] at this
    have hj := joinSlash_snoc (a :: r) c (by simp)
    simp only [List.cons_append] at hj
    simp [this, hj]

theorem pathAppend_renderAbs_empty (dn : List Bytes) (hdn : ∀ n ∈ dn, IsName n) :
    pathAppend (renderAbs dn) [] = if dn.isEmpty then [SLASH] else renderAbs dn ++ [SLASH] := by
  unfold pathAppend hasFilename
  cases dn with
  | nil => simp [renderAbs, joinSlash, isAbs, trailSlash]
  | cons a r =>
    have := trailSlash_renderAbs (a :: r) hdn (by simp)
    simp [isAbs, renderAbs] at this ⊢
    simp [this]

theorem foldl_pathAppend_names (ns dn : List Bytes) (hdn : ∀ n ∈ dn, IsName n) (hns : ∀ n ∈ ns, IsName n) :
    ns.foldl pathAppend (renderAbs dn) = renderAbs (dn ++ ns) := by
  induction ns generalizing dn with
  | nil => simp
  | cons c rest ih =>
    simp only [List.foldl_cons]
    rw [pathAppend_renderAbs_name dn c hdn (hns c (by simp)), ih (dn ++ [c])]
    · simp
    · intro n hn; simp at hn; rcases hn with hn | hn
      · exact hdn n hn
      · subst hn; exact hns _ (by simp)
    · intro n hn; exact hns n (by simp [hn])

/-! ### elements of a normalised absolute path with an optional trailing slash -/

theorem elems_renderAbs_trail (ms : List Bytes) (h : ∀ n ∈ ms, IsName n) (hne : ms ≠ []) :
    elems (renderAbs ms ++ [SLASH]) = [SLASH] :: ms ++ [[]] := by
  unfold elems
  have ha : isAbs (renderAbs ms ++ [SLASH]) = true := isAbs_append _ _ (isAbs_renderAbs ms)
  have hc : comps (renderAbs ms ++ [SLASH]) = ms := by rw [comps_append_trail]; exact comps_renderAbs ms h
  have ht : trailSlash (renderAbs ms ++ [SLASH]) = true := by simp [trailSlash]
  rw [ha, hc, ht]
  cases ms with
  | nil => exact absurd rfl hne
  | cons a r => simp

/-! ### the status of `/` -/

theorem kwalk_root (fs : Fs) (fol : Bool) : kwalk fs fol [SLASH] = .ok ([], .dir) := by
  simp [kwalk, cstr, SLASH, PATH_MAX, comps, splitSlash, isAbs, walkFuel, walk_succ, walkStep]

theorem status_root (fs : Fs) : status fs [SLASH] = .found [] .dir := by
  simp [status, kwalk_root]

/-! ### the loop of `weakly_canonical` over the names of an absolute path -/

/-- Where the loop stops: at the first name whose prefix does not exist (A), at the trailing empty element (B), or nowhere (C). -/
theorem wcLoop_names (fs : Fs) (tl : List Bytes) (htl : tl = [] ∨ tl = [[]]) :
    ∀ (ns dn : List Bytes), (∀ n ∈ ns, IsName n) → (∀ n ∈ dn, IsName n) → ∀ res rest,
      wcLoop fs (renderAbs dn) (ns ++ tl) = .ok (res, rest) →
      (∃ pre c post, ns = pre ++ c :: post ∧ res = renderAbs (dn ++ pre) ∧ rest = c :: post ++ tl ∧
          status fs (renderAbs (dn ++ pre ++ [c])) = .notFound) ∨
      (tl = [[]] ∧ res = renderAbs (dn ++ ns) ∧ rest = [[]] ∧
          status fs (pathAppend (renderAbs (dn ++ ns)) []) = .notFound) ∨
      (rest = [] ∧ ((tl = [] ∧ (ns = [] ∨ ∃ l e, status fs (renderAbs (dn ++ ns)) = .found l e)) ∨
                    (tl = [[]] ∧ ∃ l e, status fs (pathAppend (renderAbs (dn ++ ns)) []) = .found l e))) := by
  intro ns
  induction ns with
  | nil =>
    intro dn _ hdn res rest h
    rcases htl with rfl | rfl
    · simp [wcLoop] at h
      right; right
      exact ⟨h.2, Or.inl ⟨rfl, Or.inl rfl⟩⟩
    · simp only [List.nil_append, wcLoop] at h
      split at h
      · rename_i l e hs
        simp at h
        right; right
        exact ⟨h.2, Or.inr ⟨rfl, l, e, by simpa using hs⟩⟩
      · injection h with h; injection h with h1 h2
        right; left
        exact ⟨rfl, by simp [h1], h2.symm, by simpa using ‹status fs (pathAppend (renderAbs dn) []) = Status.notFound›⟩
      · cases h
  | cons c rest' ih =>
    intro dn hns hdn res rest h
    have hc : IsName c := hns c (by simp)
    simp only [List.cons_append, wcLoop, pathAppend_renderAbs_name dn c hdn hc] at h
    split at h
    · rename_i l e hs
      have hdn' : ∀ n ∈ dn ++ [c], IsName n := by
        intro n hn; simp at hn; rcases hn with hn | hn
        · exact hdn n hn
        · subst hn; exact hc
      rcases ih (dn ++ [c]) (fun n hn => hns n (by simp [hn])) hdn' res rest h with
        ⟨pre, c', post, h1, h2, h3, h4⟩ | ⟨h1, h2, h3, h4⟩ | ⟨h1, h2⟩
      · left
        exact ⟨c :: pre, c', post, by simp [h1], by simp [h2], h3, by simpa using h4⟩
      · right; left
        exact ⟨h1, by simp [h2], h3, by simpa using h4⟩
      · right; right
        refine ⟨h1, ?_⟩
        rcases h2 with ⟨h2, h3⟩ | ⟨h2, h3⟩
        · left
          refine ⟨h2, Or.inr ?_⟩
          rcases h3 with h3 | ⟨l', e', h3⟩
          · subst h3; exact ⟨l, e, by simpa using hs⟩
          · exact ⟨l', e', by simpa using h3⟩
        · right
          obtain ⟨l', e', h3⟩ := h3
          exact ⟨h2, l', e', by simpa using h3⟩
    · injection h with h; injection h with h1 h2
      left
      exact ⟨[], c, rest', by simp, by simp [h1], by simp [h2], by simpa using ‹status fs (renderAbs (dn ++ [c])) = Status.notFound›⟩
    · cases h

/-! ### the lexical normal form of an absolute path without `..` -/

/-- `lexically_normal` on the names of an absolute path without `..`: drop `.` and empty elements, remember a trailing one -/
def nfNames (stk : List Bytes) (t : Bool) : List Bytes → List Bytes × Bool
  | [] => (stk, t)
  | e :: es => if e = dot ∨ e = [] then nfNames stk (t || !stk.isEmpty) es else nfNames (e :: stk) false es

theorem foldl_normStep_nf (es : List Bytes) (stk : List Bytes) (t : Bool)
    (h : ∀ e ∈ es, e ≠ [SLASH] ∧ e ≠ dotdot) :
    es.foldl normStep { abs := true, names := stk, trail := t } =
      { abs := true, names := (nfNames stk t es).1, trail := (nfNames stk t es).2 } := by
  induction es generalizing stk t with
  | nil => simp [nfNames]
  | cons e rest ih =>
    have he := h e (by simp)
    have hrest : ∀ e ∈ rest, e ≠ [SLASH] ∧ e ≠ dotdot := fun x hx => h x (by simp [hx])
    simp only [List.foldl_cons, nfNames]
    by_cases hd : e = dot ∨ e = []
    · simp only [hd, ↓reduceIte]
      have : normStep { abs := true, names := stk, trail := t } e =
          { abs := true, names := stk, trail := (t || !stk.isEmpty) } := by
        unfold normStep
        have hde : (e = dot || e.isEmpty) = true := by
          rcases hd with hd | hd <;> simp [hd]
        simp only [he.1, he.2, ↓reduceIte, hde]
        cases stk <;> cases t <;> simp
      rw [this, ih _ _ hrest]
    · simp only [hd, ↓reduceIte]
      have : normStep { abs := true, names := stk, trail := t } e =
          { abs := true, names := e :: stk, trail := false } := by
        unfold normStep
        have hde : (e = dot || e.isEmpty) = false := by
          simp only [not_or] at hd
          simp [hd.1, hd.2]
        simp only [he.1, he.2, ↓reduceIte, hde, Bool.false_eq_true]
      rw [this, ih _ _ hrest]

theorem nfNames_append (a b : List Bytes) (stk : List Bytes) (t : Bool) :
    nfNames stk t (a ++ b) = nfNames (nfNames stk t a).1 (nfNames stk t a).2 b := by
  induction a generalizing stk t with
  | nil => simp [nfNames]
  | cons e rest ih =>
    simp only [List.cons_append, nfNames]
    split <;> exact ih _ _

def keepName (e : Bytes) : Bool := !(decide (e = dot) || decide (e = []))

theorem nfNames_names (es stk : List Bytes) (t : Bool) :
    (nfNames stk t es).1 = (es.filter keepName).reverse ++ stk := by
  induction es generalizing stk t with
  | nil => simp [nfNames]
  | cons e rest ih =>
    simp only [nfNames]
    by_cases hd : e = dot ∨ e = []
    · have : keepName e = false := by rcases hd with hd | hd <;> simp [keepName, hd]
      simp [hd, ih, this]
    · have : keepName e = true := by simp only [not_or] at hd; simp [keepName, hd.1, hd.2]
      simp [hd, ih, this]

/-- after a final `.` or empty element the normal form has a trailing slash (if it has any name at all) -/
theorem nfNames_trail_last (es stk : List Bytes) (t : Bool) (x : Bytes) (hx : x = dot ∨ x = [])
    (hne : (nfNames stk t es).1 ≠ []) : (nfNames stk t (es ++ [x])).2 = true := by
  rw [nfNames_append]
  simp only [nfNames, hx, ↓reduceIte]
  cases h : (nfNames stk t es).1 with
  | nil => exact absurd h hne
  | cons a r => simp

/-- after a final ordinary name there is no trailing slash -/
theorem nfNames_trail_name (es stk : List Bytes) (t : Bool) (x : Bytes) (hx : ¬(x = dot ∨ x = [])) :
    (nfNames stk t (es ++ [x])).2 = false := by
  rw [nfNames_append]
  simp [nfNames, hx]

/-- the normal form of `/m1/…/mk[/]` (names without `..`) -/
theorem lexicallyNormal_abs (ms : List Bytes) (tsl : Bool) (hms : ∀ n ∈ ms, IsName n ∧ n ≠ dotdot) (hne : ms ≠ []) :
    lexicallyNormal (renderAbs ms ++ (if tsl then [SLASH] else [])) =
      renderAbs (nfNames [] false (ms ++ (if tsl then [[]] else []))).1.reverse ++
        (if (nfNames [] false (ms ++ (if tsl then [[]] else []))).2 &&
            !(nfNames [] false (ms ++ (if tsl then [[]] else []))).1.isEmpty then [SLASH] else []) := by
  have hnames : ∀ n ∈ ms, IsName n := fun n hn => (hms n hn).1
  have hel : elems (renderAbs ms ++ (if tsl then [SLASH] else [])) = [SLASH] :: (ms ++ (if tsl then [[]] else [])) := by
    cases tsl with
    | true => simp only [↓reduceIte]; rw [elems_renderAbs_trail ms hnames hne]; simp
    | false => simp only [Bool.false_eq_true, ↓reduceIte, List.append_nil]; exact elems_renderAbs ms hnames
  have hc : comps (renderAbs ms ++ (if tsl then [SLASH] else [])) = ms := by
    cases tsl with
    | true => simp only [↓reduceIte]; rw [comps_append_trail]; exact comps_renderAbs ms hnames
    | false => simp only [Bool.false_eq_true, ↓reduceIte, List.append_nil]; exact comps_renderAbs ms hnames
  have hx : (renderAbs ms ++ (if tsl then [SLASH] else [])).isEmpty = false := by simp [renderAbs]
  have hce : (comps (renderAbs ms ++ (if tsl then [SLASH] else []))).isEmpty = false := by rw [hc]; cases ms <;> simp_all
  unfold lexicallyNormal
  simp only [hx, hce, Bool.false_eq_true, ↓reduceIte, Bool.false_and, hel, List.foldl_cons]
  have h0 : normStep {} [SLASH] = { abs := true, names := [], trail := false } := by simp [normStep]
  have hes : ∀ e ∈ ms ++ (if tsl then [[]] else []), e ≠ [SLASH] ∧ e ≠ dotdot := by
    intro e he
    simp at he
    rcases he with he | he
    · have := hms e he
      exact ⟨fun h => this.1.2 (by simp [h]), this.2⟩
    · obtain ⟨_, he⟩ := he
      subst he; simp [dotdot]
  rw [h0, foldl_normStep_nf _ _ _ hes]
  have hnodd : (nfNames [] false (ms ++ (if tsl then [[]] else []))).1.head? ≠ some dotdot := by
    intro h
    have hm := List.mem_of_mem_head? h
    simp only [nfNames_names, List.append_nil, List.mem_reverse, List.mem_filter] at hm
    have := hm.1
    simp at this
    rcases this with h' | h'
    · exact (hms _ h').2 rfl
    · simp [dotdot] at h'
  generalize nfNames [] false (ms ++ (if tsl then [[]] else [])) = NT at hnodd ⊢
  obtain ⟨N, T⟩ := NT
  simp only at hnodd ⊢
  simp [hnodd, NPath.render, renderAbs]

/-! ### helpers for the main theorem -/

theorem status_notFound_iff (fs : Fs) (q : Bytes) :
    status fs q = .notFound ↔ (kwalk fs true q = .error .ENOENT ∨ kwalk fs true q = .error .ENOTDIR) := by
  unfold status
  cases hk : kwalk fs true q with
  | ok x => obtain ⟨l, e⟩ := x; simp
  | error er => cases er <;> simp

theorem status_notFound_walk (fs : Fs) (q : Bytes) (h0 : (0 : UInt8) ∉ q) (ha : isAbs q = true) (h : status fs q = .notFound) :
    ∃ e, (e = .ENOENT ∨ e = .ENOTDIR) ∧
      walk fs (walkFuel fs (comps q)) SYMLOOP [] (comps q) true (trailSlash q) = .error e := by
  have hk := (status_notFound_iff fs q).mp h
  rw [kwalk_abs fs true q h0 ha] at hk
  by_cases hlen : q.length ≥ PATH_MAX
  · simp [hlen] at hk
  · simp only [hlen, ↓reduceIte] at hk
    rcases hk with hk | hk
    · exact ⟨_, Or.inl rfl, hk⟩
    · exact ⟨_, Or.inr rfl, hk⟩

theorem status_found_walk (fs : Fs) (q : Bytes) (h0 : (0 : UInt8) ∉ q) (ha : isAbs q = true) (l : Loc) (e : Entry)
    (h : status fs q = .found l e) :
    walk fs (walkFuel fs (comps q)) SYMLOOP [] (comps q) true (trailSlash q) = .ok (l, e) :=
  (kwalk_abs_ok fs true q h0 ha l e ((status_found_iff fs q l e).mp h)).2.2.2

/-- two spellings with the same names and the same trailing-slash flag have the same status -/
theorem status_same (fs : Fs) (p q : Bytes) (hp0 : (0 : UInt8) ∉ p) (hq0 : (0 : UInt8) ∉ q) (hpa : isAbs p = true)
    (hqa : isAbs q = true) (hc : comps p = comps q) (ht : trailSlash p = trailSlash q) (l : Loc) (e : Entry)
    (hq : status fs q = .found l e) (hp : status fs p = .notFound) : False := by
  obtain ⟨er, _, hw⟩ := status_notFound_walk fs p hp0 hpa hp
  have := status_found_walk fs q hq0 hqa l e hq
  rw [hc, ht, this] at hw
  cases hw

theorem canonical_ok (fs : Fs) (q x : Bytes) (h : canonical fs q = .ok x) :
    ∃ L e, kwalk fs true q = .ok (L, e) ∧ x = renderLoc L := by
  unfold canonical at h
  split at h
  · rename_i L e hk; injection h with h; exact ⟨L, e, hk, h.symm⟩
  · cases h

theorem filter_keep_plain (ns : List Bytes) (h : ∀ n ∈ ns, IsName n ∧ n ≠ dot) : ns.filter keepName = ns := by
  rw [List.filter_eq_self]
  intro n hn
  have := h n hn
  simp [keepName, this.1.1, this.2]

theorem filter_keep_tl (tl : List Bytes) (h : ∀ e ∈ tl, e = []) : tl.filter keepName = [] := by
  rw [List.filter_eq_nil_iff]
  intro e he
  simp [keepName, h e he]

/-- shape of the result: `/n1/…/nk` plus an optional trailing slash -/
theorem shape_facts (Nr : List Bytes) (T : Bool) (hN : ∀ n ∈ Nr, IsName n ∧ (0 : UInt8) ∉ n) :
    let r := renderAbs Nr ++ (if T && !Nr.isEmpty then [SLASH] else [])
    isAbs r = true ∧ (0 : UInt8) ∉ r ∧ comps r = Nr ∧ (T = true → Nr ≠ [] → trailSlash r = true) := by
  intro r
  have hnames : ∀ n ∈ Nr, IsName n := fun n hn => (hN n hn).1
  refine ⟨isAbs_append _ _ (isAbs_renderAbs Nr), ?_, ?_, ?_⟩
  · intro hm
    simp only [r, List.mem_append] at hm
    rcases hm with hm | hm
    · exact renderAbs_no_nul Nr (fun n hn => (hN n hn).2) hm
    · split at hm <;> simp [SLASH] at hm
  · simp only [r]
    split
    · rw [comps_append_trail]; exact comps_renderAbs Nr hnames
    · simp; exact comps_renderAbs Nr hnames
  · intro hT hne
    have : (T && !Nr.isEmpty) = true := by cases Nr <;> simp_all
    simp [r, this, trailSlash]

theorem kwalk_nofile_of_walk (fs : Fs) (fol : Bool) (r : Bytes) (h0 : (0 : UInt8) ∉ r) (ha : isAbs r = true)
    (h : NoFile (walk fs (walkFuel fs (comps r)) SYMLOOP [] (comps r) fol (trailSlash r))) : NoFile (kwalk fs fol r) := by
  rw [kwalk_abs fs fol r h0 ha]
  split
  · intro l d; simp
  · exact h

theorem walk_dot_ok (fs : Fs) (f b : Nat) (L : Loc) (e : Errno) (he : e = .ENOENT ∨ e = .ENOTDIR)
    (h : walk fs f b L [dot] true false = .error e) : False := by
  cases f with
  | zero => simp [walk] at h; subst h; simp at he
  | succ f =>
    simp only [walk_succ, walkStep, ↓reduceIte] at h
    cases f with
    | zero => simp [walk] at h; subst h; simp at he
    | succ f => simp [walk_succ, walkStep] at h

/-! ### case A: the loop stops at a name -/

theorem foldl_tail (M : List Bytes) (tsl : Bool) (hM : ∀ n ∈ M, IsName n) (hne : M ≠ []) :
    (if tsl then [[]] else []).foldl pathAppend (renderAbs M) = renderAbs M ++ (if tsl then [SLASH] else []) := by
  cases tsl with
  | false => simp
  | true =>
    simp only [↓reduceIte, List.foldl_cons, List.foldl_nil]
    rw [pathAppend_renderAbs_empty M hM]
    cases M with
    | nil => exact absurd rfl hne
    | cons a r => simp

theorem wc_caseA (fs : Fs) (pre : List Bytes) (c : Bytes) (post : List Bytes) (tsl : Bool)
    (hall : ∀ n ∈ pre ++ c :: post, IsName n ∧ (0 : UInt8) ∉ n ∧ n ≠ dotdot)
    (hnf : status fs (renderAbs (pre ++ [c])) = .notFound)
    (L : Loc) (e : Entry) (hk : kwalk fs true (renderAbs pre) = .ok (L, e)) (fol : Bool) :
    NoFile (kwalk fs fol (lexicallyNormal ((c :: post ++ (if tsl then [[]] else [])).foldl pathAppend (renderLoc L)))) := by
  have hpre : ∀ n ∈ pre, IsName n := fun n hn => (hall n (by simp [hn])).1
  have hpre0 : ∀ n ∈ pre, (0 : UInt8) ∉ n := fun n hn => (hall n (by simp [hn])).2.1
  have hc : IsName c ∧ (0 : UInt8) ∉ c ∧ c ≠ dotdot := hall c (by simp)
  have hpost : ∀ n ∈ post, IsName n ∧ (0 : UInt8) ∉ n ∧ n ≠ dotdot := fun n hn => hall n (by simp [hn])
  obtain ⟨hget, hLok, hnl, hwalk0⟩ :=
    kwalk_abs_ok fs true (renderAbs pre) (renderAbs_no_nul pre hpre0) (isAbs_renderAbs pre) L e hk
  rw [show comps (renderAbs pre) = pre from comps_renderAbs pre hpre] at hwalk0
  -- the string handed to lexically_normal
  have hLr : ∀ n ∈ L.reverse, IsName n := fun n hn => (hLok n (by simpa using hn)).1.1
  have hM : ∀ n ∈ L.reverse ++ c :: post, IsName n := by
    intro n hn; simp at hn
    rcases hn with hn | hn | hn
    · exact hLr n (by simpa using hn)
    · subst hn; exact hc.1
    · exact (hpost n hn).1
  have hMdd : ∀ n ∈ L.reverse ++ c :: post, IsName n ∧ n ≠ dotdot := by
    intro n hn
    refine ⟨hM n hn, ?_⟩
    simp at hn
    rcases hn with hn | hn | hn
    · exact (hLok n hn).1.2.2
    · subst hn; exact hc.2.2
    · exact (hpost n hn).2.2
  have hMne : L.reverse ++ c :: post ≠ [] := by simp
  rw [List.foldl_append, renderLoc_eq, foldl_pathAppend_names (c :: post) L.reverse hLr (fun n hn => hM n (by simp at hn ⊢; exact Or.inr hn)),
    foldl_tail _ tsl hM hMne, lexicallyNormal_abs _ tsl hMdd hMne]
  -- names and trailing flag of the normal form
  generalize hNT : nfNames [] false (L.reverse ++ c :: post ++ (if tsl then [[]] else [])) = NT
  have hN1 : NT.1.reverse = L.reverse ++ (c :: post).filter keepName := by
    rw [← hNT, nfNames_names]
    simp only [List.append_nil, List.reverse_reverse, List.filter_append]
    rw [filter_keep_plain L.reverse (fun n hn => ⟨hLr n hn, (hLok n (by simpa using hn)).1.2.1⟩),
      filter_keep_tl (if tsl then [[]] else []) (by intro e he; split at he <;> simp at he; exact he)]
    simp
  have hNnames : ∀ n ∈ NT.1.reverse, IsName n ∧ (0 : UInt8) ∉ n := by
    rw [hN1]
    intro n hn
    rcases List.mem_append.mp hn with hn | hn
    · exact ⟨hLr n hn, (hLok n (by simpa using hn)).2⟩
    · have hm : n ∈ c :: post := (List.mem_filter.mp hn).1
      have := hall n (by simp at hm ⊢; exact Or.inr hm)
      exact ⟨this.1, this.2.1⟩
  obtain ⟨hra, hr0, hrc, hrt⟩ := shape_facts NT.1.reverse NT.2 hNnames
  have hemp : NT.1.reverse.isEmpty = NT.1.isEmpty := by cases NT.1 <;> simp
  rw [hemp] at hra hr0 hrc hrt
  apply kwalk_nofile_of_walk fs fol _ hr0 hra
  rw [hrc]
  generalize trailSlash (renderAbs NT.1.reverse ++ if (NT.2 && !NT.1.isEmpty) = true then [SLASH] else []) = trv at hrt ⊢
  rw [hN1]
  intro l d hwalk
  cases e with
  | link t => exact hnl rfl t rfl
  | file d0 =>
    -- the existing prefix is a regular file: anything after it fails, and a trailing slash fails too
    cases L with
    | nil => simp [Fs.get] at hget
    | cons last up =>
      simp only [List.reverse_cons, List.append_assoc, List.singleton_append] at hwalk
      have hp : ∀ n ∈ up.reverse, Plain n := fun n hn => (hLok n (by simp at hn ⊢; exact Or.inr hn)).1
      have hX := walk_over_file fs up.reverse last _ _ _ fol _ d0 _ hp (hLok last (by simp)).1 (by simpa using hget) hwalk
      -- every remaining element is `.`: the normal form ends in a slash
      have hlast : ∃ D x, c :: post ++ (if tsl then [[]] else []) = D ++ [x] := by
        rcases List.eq_nil_or_concat (c :: post ++ (if tsl then [[]] else [])) with h | ⟨D, x, h⟩
        · simp at h
        · exact ⟨D, x, by simpa using h⟩
      obtain ⟨D, x, hDx⟩ := hlast
      have hdots : ∀ y ∈ D ++ [x], y = dot ∨ y = [] := by
        rw [← hDx]
        intro y hy
        simp only [List.mem_append] at hy
        rcases hy with hy | hy
        · by_cases hk' : keepName y = true
          · have : y ∈ (c :: post).filter keepName := List.mem_filter.mpr ⟨hy, hk'⟩
            rw [hX.1] at this; simp at this
          · simp [keepName] at hk'
            by_cases hyd : y = dot
            · exact Or.inl hyd
            · exact Or.inr (hk' hyd)
        · split at hy <;> simp at hy
          exact Or.inr hy
      have hT : NT.2 = true := by
        rw [← hNT, List.append_assoc, hDx, ← List.append_assoc]
        apply nfNames_trail_last _ _ _ x (hdots x (by simp))
        rw [nfNames_names]
        simp only [List.append_nil, ne_eq, List.reverse_eq_nil_iff, List.filter_append]
        rw [filter_keep_plain (last :: up).reverse (fun n hn => ⟨hLr n hn, (hLok n (List.mem_reverse.mp hn)).1.2.1⟩)]
        simp
      have hNne : NT.1.reverse ≠ [] := by rw [hN1]; simp
      have := hrt hT hNne
      rw [this] at hX
      exact absurd hX.2 (by simp)
  | dir =>
    obtain ⟨e1, he1, hw1⟩ := status_notFound_walk fs (renderAbs (pre ++ [c]))
      (renderAbs_no_nul _ (by intro n hn; simp at hn; rcases hn with hn | hn; exact hpre0 n hn; subst hn; exact hc.2.1))
      (isAbs_renderAbs _) hnf
    have hpc : ∀ n ∈ pre ++ [c], IsName n := by
      intro n hn; simp at hn; rcases hn with hn | hn
      · exact hpre n hn
      · subst hn; exact hc.1
    rw [show comps (renderAbs (pre ++ [c])) = pre ++ [c] from comps_renderAbs _ hpc,
      trailSlash_renderAbs _ hpc (by simp)] at hw1
    have hmono := walk_fuel_mono fs _ (walkFuel fs (pre ++ [c])) _ _ _ _ _ _ hwalk0 (by simp) (by simp [walkFuel])
    obtain ⟨f', b', hb', heq⟩ := walk_prefix fs _ _ _ _ _ _ hmono [c] true false (by simp)
    rw [heq] at hw1
    have hcdot : c ≠ dot := by
      intro h; subst h
      exact walk_dot_ok fs f' b' L e1 he1 hw1
    have hkc : keepName c = true := by simp [keepName, hcdot, hc.1.1]
    simp only [List.filter_cons, hkc, ↓reduceIte] at hwalk
    have hp : ∀ n ∈ L.reverse, Plain n := fun n hn => (hLok n (by simpa using hn)).1
    obtain ⟨f'', hf''⟩ := walk_through_dirs fs L.reverse [] _ _ (c :: post.filter keepName) fol _ _ hp (by simpa using hget) hwalk
    simp only [List.reverse_reverse, List.append_nil] at hf''
    exact walk_fail_extend fs f' b' L [c] false e1 hw1 he1 f'' SYMLOOP (post.filter keepName) fol _ hb' (by simp) l d hf''

/-! ### case B: the loop stops at the trailing empty element -/

theorem wc_caseB (fs : Fs) (cs : List Bytes) (hcs : ∀ n ∈ cs, IsName n ∧ (0 : UInt8) ∉ n)
    (L : Loc) (e : Entry) (hk : kwalk fs true (renderAbs cs) = .ok (L, e)) (fol : Bool) :
    NoFile (kwalk fs fol (lexicallyNormal ([[]].foldl pathAppend (renderLoc L)))) := by
  obtain ⟨hget, hLok, _, _⟩ :=
    kwalk_abs_ok fs true (renderAbs cs) (renderAbs_no_nul cs (fun n hn => (hcs n hn).2)) (isAbs_renderAbs cs) L e hk
  have hLr : ∀ n ∈ L.reverse, IsName n := fun n hn => (hLok n (List.mem_reverse.mp hn)).1.1
  simp only [List.foldl_cons, List.foldl_nil, renderLoc_eq]
  rw [pathAppend_renderAbs_empty L.reverse hLr]
  by_cases hL : L = []
  · subst hL
    have : lexicallyNormal [SLASH] = [SLASH] := by
      simp [lexicallyNormal, comps, splitSlash, isAbs, SLASH]
    simp only [List.reverse_nil, List.isEmpty_nil, ↓reduceIte, this, kwalk_root]
    intro l d; simp
  · have hne : L.reverse ≠ [] := by simpa using hL
    have hemp : L.reverse.isEmpty = false := by cases h : L.reverse <;> simp_all
    simp only [hemp, Bool.false_eq_true, ↓reduceIte]
    have hdd : ∀ n ∈ L.reverse, IsName n ∧ n ≠ dotdot := fun n hn => ⟨hLr n hn, (hLok n (List.mem_reverse.mp hn)).1.2.2⟩
    have := lexicallyNormal_abs L.reverse true hdd hne
    simp only [↓reduceIte] at this
    rw [this]
    generalize hNT : nfNames [] false (L.reverse ++ [[]]) = NT
    have hT : NT.2 = true := by
      rw [← hNT]
      apply nfNames_trail_last _ _ _ [] (Or.inr rfl)
      rw [nfNames_names, filter_keep_plain L.reverse (fun n hn => ⟨hLr n hn, (hLok n (List.mem_reverse.mp hn)).1.2.1⟩)]
      simpa using hL
    have hN1 : NT.1.reverse = L.reverse := by
      rw [← hNT, nfNames_names]
      simp only [List.append_nil, List.reverse_reverse, List.filter_append]
      rw [filter_keep_plain L.reverse (fun n hn => ⟨hLr n hn, (hLok n (List.mem_reverse.mp hn)).1.2.1⟩),
        filter_keep_tl [[]] (by simp)]
      simp
    have hNnames : ∀ n ∈ NT.1.reverse, IsName n ∧ (0 : UInt8) ∉ n := by
      rw [hN1]; intro n hn; exact ⟨hLr n hn, (hLok n (List.mem_reverse.mp hn)).2⟩
    obtain ⟨hra, hr0, hrc, hrt⟩ := shape_facts NT.1.reverse NT.2 hNnames
    have hemp' : NT.1.reverse.isEmpty = NT.1.isEmpty := by cases NT.1 <;> simp
    rw [hemp'] at hra hr0 hrc hrt
    apply kwalk_nofile_of_walk fs fol _ hr0 hra
    rw [hrt hT (by rw [hN1]; exact hne)]
    intro l d
    exact walk_trail_nofile fs _ _ _ _ _ l d

/-! ### the theorem -/

theorem elems_abs (p : Bytes) (ha : isAbs p = true) :
    elems p = [SLASH] :: (comps p ++ (if trailSlash p && !(comps p).isEmpty then [[]] else [])) := by
  simp [elems, ha]

/-- **Shape of the non-existing-tail branch**: the loop stops at a name (A) or at the trailing empty element (B); the case
in which every element exists contradicts `status p = notFound`. -/
theorem wc_missing_shape (fs : Fs) (p r : Bytes) (ha : isAbs p = true) (h0 : (0 : UInt8) ∉ p)
    (hs : status fs p = .notFound) (hw : weaklyCanonical fs p = .ok r) :
    (∃ pre c post L e, comps p = pre ++ c :: post ∧ status fs (renderAbs (pre ++ [c])) = .notFound ∧
        kwalk fs true (renderAbs pre) = .ok (L, e) ∧
        r = lexicallyNormal ((c :: post ++ (if trailSlash p && !(comps p).isEmpty then [[]] else [])).foldl pathAppend (renderLoc L))) ∨
    ((trailSlash p && !(comps p).isEmpty) = true ∧ ∃ L e, kwalk fs true (renderAbs (comps p)) = .ok (L, e) ∧
        r = lexicallyNormal ([[]].foldl pathAppend (renderLoc L))) := by
  have hcs : ∀ n ∈ comps p, IsName n ∧ (0 : UInt8) ∉ n := comps_todoOK p h0
  unfold weaklyCanonical at hw
  rw [hs] at hw
  simp only at hw
  rw [elems_abs p ha] at hw
  have hstep : ∀ E, wcLoop fs [] ([SLASH] :: E) = wcLoop fs (renderAbs []) E := by
    intro E
    simp [wcLoop, pathAppend, isAbs, status_root, renderAbs, joinSlash]
  rw [hstep] at hw
  generalize htsl : (trailSlash p && !(comps p).isEmpty) = tsl at hw ⊢
  split at hw
  · cases hw
  rename_i res rest hloop
  have hwl := wcLoop_names fs (if tsl then [[]] else []) (by cases tsl <;> simp) (comps p) []
    (fun n hn => (hcs n hn).1) (by simp) res rest hloop
  simp only [List.nil_append] at hwl
  rcases hwl with ⟨pre, c, post, hsplit, hres, hrest, hnf⟩ | ⟨htl, hres, hrest, hnf⟩ | ⟨hrest, hC⟩
  · -- A
    subst hres hrest
    have hne : (renderAbs pre).isEmpty = false := by simp [renderAbs]
    simp only [hne, Bool.false_eq_true, ↓reduceIte] at hw
    split at hw
    · cases hw
    rename_i x hcan
    injection hw with hw
    obtain ⟨L, e, hk, hx⟩ := canonical_ok fs _ _ hcan
    subst hx
    exact Or.inl ⟨pre, c, post, L, e, hsplit, hnf, hk, hw.symm⟩
  · -- B
    subst hres hrest
    have hne : (renderAbs (comps p)).isEmpty = false := by simp [renderAbs]
    simp only [hne, Bool.false_eq_true, ↓reduceIte] at hw
    split at hw
    · cases hw
    rename_i x hcan
    injection hw with hw
    obtain ⟨L, e, hk, hx⟩ := canonical_ok fs _ _ hcan
    subst hx
    have htt : tsl = true := by cases tsl <;> simp_all
    exact Or.inr ⟨htt, L, e, hk, hw.symm⟩
  · -- C: every element exists, so the path itself exists
    exfalso
    have hq0 : (0 : UInt8) ∉ renderAbs (comps p) := renderAbs_no_nul _ (fun n hn => (hcs n hn).2)
    have hnames : ∀ n ∈ comps p, IsName n := fun n hn => (hcs n hn).1
    rcases hC with ⟨htl, hC⟩ | ⟨htl, l, e, hC⟩
    · rcases hC with hC | ⟨l, e, hC⟩
      · -- no names at all: `/`
        obtain ⟨er, _, hwalk⟩ := status_notFound_walk fs p h0 ha hs
        rw [hC] at hwalk
        simp [walkFuel, walk_succ, walkStep] at hwalk
      · have hcne : comps p ≠ [] := by
          intro hc0
          obtain ⟨er, _, hwalk⟩ := status_notFound_walk fs p h0 ha hs
          rw [hc0] at hwalk
          simp [walkFuel, walk_succ, walkStep] at hwalk
        have htp : trailSlash p = false := by
          cases tsl with
          | true => simp at htl
          | false =>
            cases htp : trailSlash p with
            | false => rfl
            | true =>
              rw [htp] at htsl
              cases hcp : comps p with
              | nil => exact absurd hcp hcne
              | cons a b => simp [hcp] at htsl
        refine status_same fs p (renderAbs (comps p)) h0 hq0 ha (isAbs_renderAbs _) ?_ ?_ l e hC hs
        · exact (comps_renderAbs _ hnames).symm
        · rw [htp, trailSlash_renderAbs _ hnames hcne]
    · have htt : tsl = true := by cases tsl <;> simp_all
      subst htt
      simp only [Bool.and_eq_true, Bool.not_eq_true', List.isEmpty_eq_false_iff] at htsl
      rw [pathAppend_renderAbs_empty _ hnames] at hC
      have hemp : (comps p).isEmpty = false := by cases h : comps p <;> simp_all
      simp only [hemp, Bool.false_eq_true, ↓reduceIte] at hC
      refine status_same fs p (renderAbs (comps p) ++ [SLASH]) h0 ?_ ha (isAbs_append _ _ (isAbs_renderAbs _)) ?_ ?_ l e hC hs
      · intro hm; simp at hm; rcases hm with hm | hm
        · exact hq0 hm
        · simp [SLASH] at hm
      · rw [comps_append_trail]; exact (comps_renderAbs _ hnames).symm
      · rw [htsl.1]; simp [trailSlash]

/-- **`weakly_canonical` of a path that does not exist never names a regular file** (absolute, NUL-free, no `..`). -/
theorem wcMissingNoFile : WcMissingNoFile := by
  intro fs p r ha h0 hdd hs hw fol
  have hcs : ∀ n ∈ comps p, IsName n ∧ (0 : UInt8) ∉ n := comps_todoOK p h0
  rcases wc_missing_shape fs p r ha h0 hs hw with ⟨pre, c, post, L, e, hsplit, hnf, hk, hr⟩ | ⟨_, L, e, hk, hr⟩
  · rw [hr]
    have hall : ∀ n ∈ pre ++ c :: post, IsName n ∧ (0 : UInt8) ∉ n ∧ n ≠ dotdot := by
      rw [← hsplit]
      intro n hn
      exact ⟨(hcs n hn).1, (hcs n hn).2, fun e => hdd (e ▸ hn)⟩
    exact wc_caseA fs pre c post _ hall hnf L e hk fol
  · rw [hr]
    exact wc_caseB fs (comps p) hcs L e hk fol

end Iora.Assets
