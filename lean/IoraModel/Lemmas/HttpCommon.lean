import IoraModel.Model.HttpCommon
/-
Lemmas about the string vocabulary of the HTTP framing models: a relational characterisation of
`std::string::find` (first match at or after `pos`), its behaviour under appending bytes, header maps.
-/
namespace Iora.Http
open Iora

/-- `pat` occurs in `s` at offset `j` -/
def matchAt (pat s : Bytes) (j : Nat) : Bool := pat.isPrefixOf (s.drop j)

theorem isPrefixOf_append_of_le : ∀ (pat l x : Bytes), pat.length ≤ l.length →
    pat.isPrefixOf (l ++ x) = pat.isPrefixOf l := by
  intro pat
  induction pat with
  | nil => intro l x _; simp
  | cons p ps ih =>
    intro l x h
    cases l with
    | nil => simp at h
    | cons a as =>
      simp only [List.cons_append, List.isPrefixOf_cons₂]
      rw [ih as x (by simpa using h)]

theorem isPrefixOf_length {pat l : Bytes} (h : pat.isPrefixOf l = true) : pat.length ≤ l.length :=
  (List.isPrefixOf_iff_prefix.mp h).length_le

theorem matchAt_length {pat s : Bytes} {j : Nat} (h : matchAt pat s j = true) : j + pat.length ≤ s.length ∨ pat = [] := by
  unfold matchAt at h
  have := isPrefixOf_length h
  simp only [List.length_drop] at this
  by_cases hp : pat = []
  · exact Or.inr hp
  · have : 0 < pat.length := List.length_pos_iff.mpr hp
    left; omega

theorem matchAt_append_of_le (pat s x : Bytes) (j : Nat) (h : j + pat.length ≤ s.length) :
    matchAt pat (s ++ x) j = matchAt pat s j := by
  unfold matchAt
  rw [List.drop_append_of_le_length (by omega)]
  exact isPrefixOf_append_of_le pat (s.drop j) x (by simp [List.length_drop]; omega)

theorem matchAt_prepend (pat pre s : Bytes) (j : Nat) :
    matchAt pat (pre ++ s) (pre.length + j) = matchAt pat s j := by
  unfold matchAt
  rw [List.drop_append, List.drop_eq_nil_of_le (Nat.le_add_right _ _)]
  simp

theorem matchAt_beyond (pat s : Bytes) (j : Nat) (hp : pat ≠ []) (h : s.length ≤ j) : matchAt pat s j = false := by
  unfold matchAt
  rw [List.drop_eq_nil_of_le h]
  cases pat with
  | nil => exact absurd rfl hp
  | cons a as => rfl

theorem findAux_some_iff (pat : Bytes) : ∀ (t : Bytes) (i k : Nat),
    findAux pat t i = some k ↔
      ∃ m, k = i + m ∧ m < t.length ∧ pat.isPrefixOf (t.drop m) = true ∧
        ∀ j, j < m → pat.isPrefixOf (t.drop j) = false := by
  intro t
  induction t with
  | nil => intro i k; simp [findAux]
  | cons c cs ih =>
    intro i k
    simp only [findAux]
    by_cases hpre : pat.isPrefixOf (c :: cs) = true
    · simp only [hpre, ↓reduceIte, Option.some.injEq]
      constructor
      · intro h
        exact ⟨0, by omega, by simp, by simpa using hpre, by intro j hj; omega⟩
      · rintro ⟨m, hk, _, _, hall⟩
        cases m with
        | zero => omega
        | succ m =>
          have := hall 0 (by omega)
          simp [hpre] at this
    · simp only [hpre, Bool.false_eq_true, ↓reduceIte]
      rw [ih (i + 1) k]
      constructor
      · rintro ⟨m, hk, hm, hp, hall⟩
        refine ⟨m + 1, by omega, by simp; omega, by simpa using hp, ?_⟩
        intro j hj
        cases j with
        | zero => exact Bool.eq_false_iff.mpr hpre
        | succ j => simpa using hall j (by omega)
      · rintro ⟨m, hk, hm, hp, hall⟩
        cases m with
        | zero => rw [List.drop_zero] at hp; exact absurd hp hpre
        | succ m =>
          refine ⟨m, by omega, by simpa using hm, by simpa using hp, ?_⟩
          intro j hj
          simpa using hall (j + 1) (by omega)

theorem findAux_none_iff (pat : Bytes) : ∀ (t : Bytes) (i : Nat),
    findAux pat t i = none ↔ ∀ j, j < t.length → pat.isPrefixOf (t.drop j) = false := by
  intro t
  induction t with
  | nil => intro i; simp [findAux]
  | cons c cs ih =>
    intro i
    simp only [findAux]
    by_cases hpre : pat.isPrefixOf (c :: cs) = true
    · simp only [hpre, ↓reduceIte]
      constructor
      · intro h; cases h
      · intro h
        have := h 0 (by simp)
        simp [hpre] at this
    · simp only [hpre, Bool.false_eq_true, ↓reduceIte]
      rw [ih (i + 1)]
      constructor
      · intro h j hj
        cases j with
        | zero => exact Bool.eq_false_iff.mpr hpre
        | succ j => simpa using h j (by simpa using hj)
      · intro h j hj
        simpa using h (j + 1) (by simpa using hj)

theorem find_some_iff (pat s : Bytes) (pos k : Nat) :
    find pat s pos = some k ↔
      pos ≤ k ∧ k < s.length ∧ matchAt pat s k = true ∧ ∀ j, pos ≤ j → j < k → matchAt pat s j = false := by
  unfold find matchAt
  rw [findAux_some_iff]
  constructor
  · rintro ⟨m, hk, hm, hp, hall⟩
    simp only [List.length_drop] at hm
    subst hk
    refine ⟨by omega, by omega, by simpa [List.drop_drop] using hp, ?_⟩
    intro j hj hjk
    have := hall (j - pos) (by omega)
    rw [List.drop_drop] at this
    have e : pos + (j - pos) = j := by omega
    rwa [e] at this
  · rintro ⟨hk, hl, hp, hall⟩
    refine ⟨k - pos, by omega, by simp [List.length_drop]; omega, ?_, ?_⟩
    · rw [List.drop_drop]
      have e : pos + (k - pos) = k := by omega
      rwa [e]
    · intro j hj
      rw [List.drop_drop]
      exact hall (pos + j) (by omega) (by omega)

theorem find_none_iff (pat s : Bytes) (pos : Nat) :
    find pat s pos = none ↔ ∀ j, pos ≤ j → j < s.length → matchAt pat s j = false := by
  unfold find matchAt
  rw [findAux_none_iff]
  simp only [List.length_drop, List.drop_drop]
  constructor
  · intro h j hj hl
    have := h (j - pos) (by omega)
    have e : pos + (j - pos) = j := by omega
    rwa [e] at this
  · intro h j hj
    exact h (pos + j) (by omega) (by omega)

/-- a found position stays the first match when bytes are appended -/
theorem find_append_some (pat s x : Bytes) (pos k : Nat) (hp : pat ≠ []) (h : find pat s pos = some k) :
    find pat (s ++ x) pos = some k := by
  rw [find_some_iff] at h ⊢
  obtain ⟨hk, hl, hm, hall⟩ := h
  have hkl : k + pat.length ≤ s.length := by
    rcases matchAt_length hm with h | h
    · exact h
    · exact absurd h hp
  refine ⟨hk, by simp; omega, ?_, ?_⟩
  · rw [matchAt_append_of_le _ _ _ _ hkl]; exact hm
  · intro j hj hjk
    rw [matchAt_append_of_le _ _ _ _ (by omega)]
    exact hall j hj hjk

/-- the search may start later if nothing matches in between -/
theorem find_skip (pat s : Bytes) (pos pos' : Nat) (hle : pos ≤ pos')
    (hno : ∀ j, pos ≤ j → j < pos' → matchAt pat s j = false) : find pat s pos = find pat s pos' := by
  cases h : find pat s pos' with
  | none =>
    rw [find_none_iff] at h ⊢
    intro j hj hl
    by_cases hjp : j < pos'
    · exact hno j hj hjp
    · exact h j (by omega) hl
  | some k =>
    rw [find_some_iff] at h ⊢
    obtain ⟨hk, hl, hm, hall⟩ := h
    refine ⟨by omega, hl, hm, ?_⟩
    intro j hj hjk
    by_cases hjp : j < pos'
    · exact hno j hj hjp
    · exact hall j (by omega) hjk

/-- resuming a failed search after more bytes arrived: back up `pat.length - 1` bytes -/
theorem find_resume (pat s x : Bytes) (pos pos' : Nat) (hp : pat ≠ []) (hle : pos ≤ pos')
    (hback : pos' + pat.length ≤ s.length + 1)
    (h : find pat s pos = none) : find pat (s ++ x) pos = find pat (s ++ x) pos' := by
  apply find_skip _ _ _ _ hle
  intro j hj hjp
  have : 0 < pat.length := List.length_pos_iff.mpr hp
  rw [matchAt_append_of_le _ _ _ _ (by omega)]
  rw [find_none_iff] at h
  exact h j hj (by omega)

theorem find_prepend (pat pre s : Bytes) (pos : Nat) :
    find pat (pre ++ s) (pre.length + pos) = (find pat s pos).map (pre.length + ·) := by
  cases h : find pat s pos with
  | none =>
    simp only [Option.map_none]
    rw [find_none_iff] at h ⊢
    intro j hj hl
    have e : j = pre.length + (j - pre.length) := by omega
    rw [e, matchAt_prepend]
    exact h _ (by omega) (by simp at hl; omega)
  | some k =>
    simp only [Option.map_some]
    rw [find_some_iff] at h ⊢
    obtain ⟨hk, hl, hm, hall⟩ := h
    refine ⟨by omega, by simp; omega, by rw [matchAt_prepend]; exact hm, ?_⟩
    intro j hj hjk
    have e : j = pre.length + (j - pre.length) := by omega
    rw [e, matchAt_prepend]
    exact hall _ (by omega) (by omega)

end Iora.Http
