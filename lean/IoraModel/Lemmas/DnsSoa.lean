import IoraModel.Lemmas.DnsTyped
/-! N2 for C19, typed records: exact decoding of SOA RDATA (two names compressed in any way, then five 32-bit numbers). -/
namespace Iora.Dns
open Iora

/-- **SOA**: MNAME and RNAME compressed in any way, then SERIAL, REFRESH, RETRY, EXPIRE, MINIMUM -/
theorem typed_soa (m : Bytes) (rr : RR) (o : Nat) (ls1 ls2 : List Bytes) (n1 n2 : Nat)
    (serial refresh retry expire minimum : Nat) (ht : rr.type = 6)
    (hr : rr.rdata = slice m o rr.rdata.length)
    (hd1 : WellFormedName m o ls1 (o + n1))                 -- MNAME occupies RDATA bytes [0, n1)
    (hd2 : WellFormedName m (o + n1) ls2 (o + n2))          -- RNAME occupies RDATA bytes [n1, n2)
    (hlen : rr.rdata.length = n2 + 20)                      -- exactly the five 32-bit numbers follow
    (h0 : rd32 rr.rdata n2 = .ok serial) (h1 : rd32 rr.rdata (n2 + 4) = .ok refresh)
    (h2 : rd32 rr.rdata (n2 + 8) = .ok retry) (h3 : rd32 rr.rdata (n2 + 12) = .ok expire)
    (h4 : rd32 rr.rdata (n2 + 16) = .ok minimum) :
    typedSpec m (rr, o) =
      some (.soa rr.name (dottedName ls1) (dottedName ls2) serial refresh retry expire minimum rr.ttl) := by
  apply typedSpec_of
  have hpos1 : 0 < n1 := by
    obtain ⟨_, hh, _, _⟩ := hd1
    have := hh.toDenotes.lt_next; omega
  have hpos2 : n1 < n2 := by
    obtain ⟨_, hh, _, _⟩ := hd2
    have := hh.toDenotes.lt_next; omega
  have hn1 : n1 < rr.rdata.length := by omega
  have e1 := rdataName_exact m rr.rdata o 0 n1 ls1 hr (by omega) (by simpa using hd1) (by omega)
  have e2 := rdataName_exact m rr.rdata o n1 n2 ls2 hr hn1 hd2 (by omega)
  unfold typedOf
  simp [ht, Gen.Dns.typedTypes, parseSoa, e1, e2, Except.map, Gen.Dns.minSoa, Gen.Dns.soaTail,
    show ¬ rr.rdata.length < 20 by omega, hn1, show ¬ n2 + 20 > rr.rdata.length by omega,
    h0, h1, h2, h3, h4, bind, Except.bind, pure, Except.pure]

/-- **SOA, numbers given as values**: the RDATA is `pre` (the two names, `n2` octets) followed by the five numbers written
big-endian -/
theorem typed_soa_values (m : Bytes) (rr : RR) (o : Nat) (ls1 ls2 : List Bytes) (n1 n2 : Nat) (pre : Bytes)
    (serial refresh retry expire minimum : Nat) (ht : rr.type = 6)
    (hr : rr.rdata = slice m o rr.rdata.length)
    (hd1 : WellFormedName m o ls1 (o + n1)) (hd2 : WellFormedName m (o + n1) ls2 (o + n2))
    (hpre : pre.length = n2)
    (hrd : rr.rdata = pre ++ be32 serial ++ be32 refresh ++ be32 retry ++ be32 expire ++ be32 minimum)
    (b0 : serial < 4294967296) (b1 : refresh < 4294967296) (b2 : retry < 4294967296) (b3 : expire < 4294967296)
    (b4 : minimum < 4294967296) :
    typedSpec m (rr, o) =
      some (.soa rr.name (dottedName ls1) (dottedName ls2) serial refresh retry expire minimum rr.ttl) := by
  have r0 : rd32 rr.rdata n2 = .ok serial := by
    have := rd32_mid pre (be32 refresh ++ be32 retry ++ be32 expire ++ be32 minimum) serial b0
    simpa [hrd, hpre, List.append_assoc] using this
  have r1 : rd32 rr.rdata (n2 + 4) = .ok refresh := by
    have := rd32_mid (pre ++ be32 serial) (be32 retry ++ be32 expire ++ be32 minimum) refresh b1
    simpa [hrd, hpre, List.append_assoc] using this
  have r2 : rd32 rr.rdata (n2 + 8) = .ok retry := by
    have := rd32_mid (pre ++ be32 serial ++ be32 refresh) (be32 expire ++ be32 minimum) retry b2
    simpa [hrd, hpre, List.append_assoc] using this
  have r3 : rd32 rr.rdata (n2 + 12) = .ok expire := by
    have := rd32_mid (pre ++ be32 serial ++ be32 refresh ++ be32 retry) (be32 minimum) expire b3
    simpa [hrd, hpre, List.append_assoc] using this
  have r4 : rd32 rr.rdata (n2 + 16) = .ok minimum := by
    have := rd32_mid (pre ++ be32 serial ++ be32 refresh ++ be32 retry ++ be32 expire) [] minimum b4
    simpa [hrd, hpre, List.append_assoc] using this
  have hlen : rr.rdata.length = n2 + 20 := by rw [hrd]; simp; omega
  exact typed_soa m rr o ls1 ls2 n1 n2 serial refresh retry expire minimum ht hr hd1 hd2 hlen r0 r1 r2 r3 r4

example :
    typedSpec ([0, 0] ++ [0,0,0,1, 0,0,0,2, 0,0,0,3, 0,0,0,4, 0,0,0,5])
      ({ name := [], type := 6, cls := 1, ttl := 9, rdlength := 22,
         rdata := [0, 0] ++ [0,0,0,1, 0,0,0,2, 0,0,0,3, 0,0,0,4, 0,0,0,5] }, 0) =
      some (.soa [] (dottedName []) (dottedName []) 1 2 3 4 5 9) :=
  typed_soa _ _ 0 [] [] 1 2 1 2 3 4 5 rfl (by decide)
    ⟨0, DenotesH.root (by decide), by decide, by decide⟩
    ⟨0, DenotesH.root (by decide), by decide, by decide⟩ (by decide) rfl rfl rfl rfl rfl

/-- non-vacuity of `typed_soa_values`, with a compressed RNAME: MNAME = `a.` written out at 0..3, RNAME = pointer to offset 0 -/
example :
    typedSpec ([1, 97, 0, 192, 0] ++ be32 1 ++ be32 2 ++ be32 3 ++ be32 4 ++ be32 4294967295)
      ({ name := [], type := 6, cls := 1, ttl := 9, rdlength := 25,
         rdata := [1, 97, 0, 192, 0] ++ be32 1 ++ be32 2 ++ be32 3 ++ be32 4 ++ be32 4294967295 }, 0) =
      some (.soa [] (dottedName [[97]]) (dottedName [[97]]) 1 2 3 4 4294967295 9) := by
  have hA : DenotesH ([1, 97, 0, 192, 0] ++ be32 1 ++ be32 2 ++ be32 3 ++ be32 4 ++ be32 4294967295) 0 [[97]] 3 0 :=
    DenotesH.label (b := 1) (by decide) (by decide) (by decide) (by decide) (DenotesH.root (by decide))
  exact typed_soa_values _ _ 0 [[97]] [[97]] 3 5 [1, 97, 0, 192, 0] 1 2 3 4 4294967295 rfl (by decide)
    ⟨0, hA, by decide, by decide⟩
    ⟨1, DenotesH.ptr (b := 192) (b2 := 0) (by decide) (by decide) (by decide) hA, by decide, by decide⟩
    rfl rfl (by decide) (by decide) (by decide) (by decide) (by decide)

end Iora.Dns
