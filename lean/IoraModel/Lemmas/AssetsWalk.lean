import IoraModel.Lemmas.AssetsPath
/-!
Lemmas about the kernel path walk of the C20 file-system model (`walkStep`, `walk`, `kwalk`): trailing-slash walks never end
at a file, more fuel never changes an answer, prefix extraction, extension of a failing walk, descent through real
directories, and the invariant that every location reached consists of ordinary, NUL-free names.
-/
namespace Iora.Assets
open Iora

theorem get_parent {fs : Fs} {n : Name} {up : Loc} {e : Entry} (h : fs.get (n :: up) = some e) :
    fs.get up = some .dir := by
  simp only [Fs.get] at h
  split at h
  · assumption
  · cases h

theorem get_append_dir {fs : Fs} (xs l : Loc) (h : fs.get (xs ++ l) = some .dir) : fs.get l = some .dir := by
  induction xs with
  | nil => simpa using h
  | cons x xs ih => exact ih (get_parent h)

theorem walk_succ (fs : Fs) (f b : Nat) (cur : Loc) (todo : List Name) (fol tr : Bool) :
    walk fs (f + 1) b cur todo fol tr =
      match walkStep fs b cur todo fol tr with
      | .done r => r
      | .next b' cur' todo' tr' => walk fs f b' cur' todo' fol tr' := rfl

/-- closes the routine goals of the per-step case analyses -/
macro "fin_step" : tactic =>
  `(tactic| first
    | (simp; done)
    | (constructor <;> intros <;> simp_all <;> omega)
    | (intros; simp_all; done)
    | (intros; simp_all; omega))

/-! ### trailing slash -/

theorem step_trail (fs : Fs) (b : Nat) (cur : Loc) (todo : List Name) (fol : Bool) :
    (∀ r, walkStep fs b cur todo fol true = .done r → ∀ l d, r ≠ .ok (l, .file d)) ∧
    (∀ b' cur' todo' tr', walkStep fs b cur todo fol true = .next b' cur' todo' tr' → tr' = true) := by
  unfold walkStep
  cases todo with
  | nil => simp
  | cons c rest =>
    simp only
    split
    · simp
    split
    · simp
    split
    · simp
    split
    · simp
    · simp
    · simp
    · simp only [Bool.not_true, Bool.and_false, Bool.false_and, Bool.false_eq_true, ↓reduceIte, Bool.true_or]
      split
      · simp
      split
      · simp
      · simp

/-- a walk for a path with a trailing slash never ends at a regular file -/
theorem walk_trail_nofile (fs : Fs) : ∀ (f b : Nat) (cur : Loc) (todo : List Name) (fol : Bool) (l : Loc) (d : Bytes),
    walk fs f b cur todo fol true ≠ .ok (l, .file d) := by
  intro f
  induction f with
  | zero => intros; simp [walk]
  | succ f ih =>
    intro b cur todo fol l d
    rw [walk_succ]
    have hs := step_trail fs b cur todo fol
    cases hst : walkStep fs b cur todo fol true with
    | done r => exact hs.1 r hst l d
    | next b' cur' todo' tr' =>
      have := hs.2 _ _ _ _ hst
      subst this
      exact ih _ _ _ _ _ _

/-- more fuel never changes an answer other than "out of fuel" -/
theorem walk_fuel_mono (fs : Fs) : ∀ (f f' b : Nat) (cur : Loc) (todo : List Name) (fol tr : Bool) (x : Except Errno (Loc × Entry)),
    walk fs f b cur todo fol tr = x → x ≠ .error .EFUEL → f ≤ f' → walk fs f' b cur todo fol tr = x := by
  intro f
  induction f with
  | zero => intro f' b cur todo fol tr x h hx; simp [walk] at h; exact absurd h.symm hx
  | succ f ih =>
    intro f' b cur todo fol tr x h hx hle
    cases f' with
    | zero => omega
    | succ f' =>
      rw [walk_succ] at h ⊢
      cases hst : walkStep fs b cur todo fol tr with
      | done r => simpa [hst] using h
      | next b' cur' todo' tr' =>
        simp only [hst] at h ⊢
        exact ih _ _ _ _ _ _ _ h hx (by omega)

/-! ### prefix extraction: a walk of `A ++ R` passes through the directory the walk of `A` ends at -/

theorem step_prefix (fs : Fs) (b : Nat) (cur : Loc) (c : Name) (A' R : List Name) (fol tr tr0 : Bool) (hR : R ≠ []) :
    (∀ r, walkStep fs b cur (c :: A') true tr0 = .done r → ∀ L, r ≠ .ok (L, .dir)) ∧
    (∀ b' cur' todo' tr0', walkStep fs b cur (c :: A') true tr0 = .next b' cur' todo' tr0' →
      walkStep fs b cur (c :: A' ++ R) fol tr = .next b' cur' (todo' ++ R) tr ∧ b' ≤ b) := by
  have hne : (A' ++ R).isEmpty = false := by
    cases A' <;> cases R <;> simp_all
  unfold walkStep
  simp only [List.cons_append, hne, Bool.false_and, Bool.false_eq_true, ↓reduceIte, Bool.or_false]
  split
  · fin_step
  split
  · fin_step
  split
  · fin_step
  split
  · fin_step
  · constructor
    · intro r hr L
      split at hr <;> (cases hr; simp)
    · intro b' cur' todo' tr0' h
      split at h <;> cases h
  · fin_step
  · simp only [Bool.not_true, Bool.and_false, Bool.false_eq_true, ↓reduceIte]
    split
    · fin_step
    split
    · fin_step
    · constructor
      · intro r h; cases h
      · intro b' cur' todo' tr0' h
        injection h with h1 h2 h3 h4
        subst h1 h2 h3
        simp

theorem walk_prefix (fs : Fs) : ∀ (f b : Nat) (cur : Loc) (A : List Name) (tr0 : Bool) (L : Loc),
    walk fs f b cur A true tr0 = .ok (L, .dir) →
    ∀ (R : List Name) (fol tr : Bool), R ≠ [] →
      ∃ f' b', b' ≤ b ∧ walk fs f b cur (A ++ R) fol tr = walk fs f' b' L R fol tr := by
  intro f
  induction f with
  | zero => intro b cur A tr0 L h; simp [walk] at h
  | succ f ih =>
    intro b cur A tr0 L h R fol tr hR
    cases A with
    | nil =>
      simp [walk_succ, walkStep] at h
      subst h
      exact ⟨f + 1, b, Nat.le_refl _, by simp⟩
    | cons c A' =>
      rw [walk_succ] at h
      have hs := step_prefix fs b cur c A' R fol tr tr0 hR
      cases hst : walkStep fs b cur (c :: A') true tr0 with
      | done r =>
        simp only [hst] at h
        exact absurd h (hs.1 r hst L)
      | next b' cur' todo' tr0' =>
        simp only [hst] at h
        obtain ⟨h2, hb⟩ := hs.2 _ _ _ _ hst
        obtain ⟨f'', b'', hb'', heq⟩ := ih _ _ _ _ _ h R fol tr hR
        refine ⟨f'', b'', by omega, ?_⟩
        rw [walk_succ, h2]
        exact heq

/-! ### a walk that fails with "not found" still does not reach a file when more names follow / with a bigger link budget -/

def NoFile (r : Except Errno (Loc × Entry)) : Prop := ∀ l d, r ≠ .ok (l, .file d)

theorem step_extend (fs : Fs) (b1 b2 : Nat) (cur : Loc) (c : Name) (A' B : List Name) (fol2 tr1 tr2 : Bool)
    (hb : b1 ≤ b2) (hinv : B = [] → tr1 = true → tr2 = true) :
    (∀ e, walkStep fs b1 cur (c :: A') true tr1 = .done (.error e) → (e = .ENOENT ∨ e = .ENOTDIR) →
      ∃ r2, walkStep fs b2 cur (c :: A' ++ B) fol2 tr2 = .done r2 ∧ NoFile r2) ∧
    (∀ b1' cur' todo' tr1', walkStep fs b1 cur (c :: A') true tr1 = .next b1' cur' todo' tr1' →
      (∃ r2, walkStep fs b2 cur (c :: A' ++ B) fol2 tr2 = .done r2 ∧ NoFile r2) ∨
      (∃ b2' tr2', walkStep fs b2 cur (c :: A' ++ B) fol2 tr2 = .next b2' cur' (todo' ++ B) tr2' ∧ b1' ≤ b2' ∧
        (B = [] → tr1' = true → tr2' = true))) := by
  unfold walkStep
  simp only [List.cons_append]
  split
  · -- `.`
    constructor
    · intro e h; cases h
    · intro b1' cur' todo' tr1' h
      injection h with h1 h2 h3 h4
      subst h1 h2 h3 h4
      exact Or.inr ⟨b2, tr2, rfl, hb, hinv⟩
  split
  · -- `..`
    constructor
    · intro e h; cases h
    · intro b1' cur' todo' tr1' h
      injection h with h1 h2 h3 h4
      subst h1 h2 h3 h4
      exact Or.inr ⟨b2, tr2, rfl, hb, hinv⟩
  split
  · -- name too long
    constructor
    · intro e h he; injection h with h; injection h with h; subst h; simp at he
    · intro b1' cur' todo' tr1' h; cases h
  split
  · -- no such entry
    constructor
    · intro e h he
      exact ⟨_, rfl, by intro l d; simp⟩
    · intro b1' cur' todo' tr1' h; cases h
  · -- regular file
    constructor
    · intro e h he
      split at h
      · cases h
      · rename_i hcond
        have : ((A' ++ B).isEmpty && !tr2) = false := by
          cases A' with
          | cons a as => simp
          | nil =>
            simp at hcond
            cases B with
            | cons x xs => simp
            | nil => simp [hinv rfl hcond]
        simp only [this]
        exact ⟨_, rfl, by intro l d; simp⟩
    · intro b1' cur' todo' tr1' h
      split at h <;> cases h
  · -- directory
    constructor
    · intro e h; cases h
    · intro b1' cur' todo' tr1' h
      injection h with h1 h2 h3 h4
      subst h1 h2 h3 h4
      exact Or.inr ⟨b2, tr2, rfl, hb, hinv⟩
  · -- symbolic link
    rename_i t0 hget
    simp only [Bool.not_true, Bool.and_false, Bool.false_eq_true, ↓reduceIte]
    have hlink : ∀ (x : Loc), NoFile (.ok (x, .link t0)) := by intro x l d; simp
    constructor
    · intro e h he
      split at h
      · injection h with h; injection h with h; subst h; simp at he
      rename_i hb1
      split at h
      · rename_i hte
        -- empty target
        by_cases hc2 : ((A' ++ B).isEmpty && !tr2 && !fol2) = true
        · simp only [hc2, ↓reduceIte]; exact ⟨_, rfl, hlink _⟩
        · simp only [hc2, Bool.false_eq_true, ↓reduceIte]
          have : ¬ b2 = 0 := by omega
          simp only [this, ↓reduceIte, hte]
          exact ⟨_, rfl, by intro l d; simp⟩
      · cases h
    · intro b1' cur' todo' tr1' h
      split at h
      · cases h
      rename_i hb1
      split at h
      · cases h
      rename_i hte
      injection h with h1 h2 h3 h4
      subst h1 h2 h3 h4
      by_cases hc2 : ((A' ++ B).isEmpty && !tr2 && !fol2) = true
      · left; simp only [hc2, ↓reduceIte]; exact ⟨_, rfl, hlink _⟩
      · right
        simp only [hc2, Bool.false_eq_true, ↓reduceIte]
        have : ¬ b2 = 0 := by omega
        simp only [this, ↓reduceIte, hte, Bool.false_eq_true]
        refine ⟨b2 - 1, (tr2 || (A' ++ B).isEmpty && trailSlash (cstr t0)), by simp [List.append_assoc], by omega, ?_⟩
        intro hB h1
        subst hB
        simp only [List.append_nil]
        simp only [Bool.or_eq_true, Bool.and_eq_true] at h1 ⊢
        rcases h1 with h1 | h1
        · exact Or.inl (hinv rfl h1)
        · exact Or.inr h1

/-- **Extension of a failing walk.** If the walk of `A` (as a complete path, following a final link) fails with ENOENT/ENOTDIR,
then the walk of `A ++ B` from the same directory, with at least the same link budget and any flags, does not end at a
regular file. -/
theorem walk_fail_extend (fs : Fs) : ∀ (f1 b1 : Nat) (cur : Loc) (A : List Name) (tr1 : Bool) (e : Errno),
    walk fs f1 b1 cur A true tr1 = .error e → (e = .ENOENT ∨ e = .ENOTDIR) →
    ∀ (f2 b2 : Nat) (B : List Name) (fol2 tr2 : Bool), b1 ≤ b2 → (B = [] → tr1 = true → tr2 = true) →
      NoFile (walk fs f2 b2 cur (A ++ B) fol2 tr2) := by
  intro f1
  induction f1 with
  | zero => intro b1 cur A tr1 e h he; simp [walk] at h; subst h; simp at he
  | succ f1 ih =>
    intro b1 cur A tr1 e h he f2 b2 B fol2 tr2 hb hinv
    cases f2 with
    | zero => intro l d; simp [walk]
    | succ f2 =>
      cases A with
      | nil => simp [walk_succ, walkStep] at h
      | cons c A' =>
        rw [walk_succ] at h ⊢
        have hs := step_extend fs b1 b2 cur c A' B fol2 tr1 tr2 hb hinv
        cases hst : walkStep fs b1 cur (c :: A') true tr1 with
        | done r =>
          simp only [hst] at h
          subst h
          obtain ⟨r2, h2, hn⟩ := hs.1 e hst he
          simp only [h2]; exact hn
        | next b1' cur' todo' tr1' =>
          simp only [hst] at h
          rcases hs.2 _ _ _ _ hst with ⟨r2, h2, hn⟩ | ⟨b2', tr2', h2, hb', hinv'⟩
          · simp only [h2]; exact hn
          · simp only [h2]
            exact ih _ _ _ _ _ h he _ _ _ _ _ hb' hinv'

/-! ### descent through real directories -/

theorem step_plain_dir (fs : Fs) (b : Nat) (cur : Loc) (n : Name) (rest : List Name) (fol tr : Bool)
    (hn : Plain n) (hg : fs.get (n :: cur) = some .dir) :
    walkStep fs b cur (n :: rest) fol tr =
      if n.length > NAME_MAX then .done (.error .ENAMETOOLONG) else .next b (n :: cur) rest tr := by
  unfold walkStep
  simp only [hn.2.1, hn.2.2, ↓reduceIte, hg]

/-- a successful walk whose first names lead down a chain of real directories passes through the last of them -/
theorem walk_through_dirs (fs : Fs) : ∀ (names : List Name) (cur : Loc) (f b : Nat) (R : List Name) (fol tr : Bool)
    (r : Loc × Entry), (∀ n ∈ names, Plain n) → fs.get (names.reverse ++ cur) = some .dir →
    walk fs f b cur (names ++ R) fol tr = .ok r → ∃ f', walk fs f' b (names.reverse ++ cur) R fol tr = .ok r := by
  intro names
  induction names with
  | nil => intro cur f b R fol tr r _ _ h; exact ⟨f, by simpa using h⟩
  | cons n ns ih =>
    intro cur f b R fol tr r hp hg h
    have hg' : fs.get (ns.reverse ++ (n :: cur)) = some .dir := by simpa using hg
    have hgn : fs.get (n :: cur) = some .dir := get_append_dir _ _ hg'
    cases f with
    | zero => simp [walk] at h
    | succ f =>
      rw [walk_succ, List.cons_append, step_plain_dir fs b cur n (ns ++ R) fol tr (hp n (by simp)) hgn] at h
      by_cases hlen : n.length > NAME_MAX
      · simp [hlen] at h
      · simp only [hlen, ↓reduceIte] at h
        obtain ⟨f', hf'⟩ := ih (n :: cur) f b R fol tr r (fun x hx => hp x (by simp [hx])) hg' h
        exact ⟨f', by simpa using hf'⟩

/-- **Leaf lemma (open with O_NOFOLLOW).** If the parent of the last name is a real directory chain, a no-follow walk that ends
at a regular file ends exactly at the named location, and that location holds a regular file (not a link). -/
theorem walk_leaf (fs : Fs) (init : List Name) (last : Name) (cur : Loc) (f b : Nat) (l : Loc) (d : Bytes)
    (hp : ∀ n ∈ init, Plain n) (hl : Plain last) (hg : fs.get (init.reverse ++ cur) = some .dir)
    (h : walk fs f b cur (init ++ [last]) false false = .ok (l, .file d)) :
    l = last :: (init.reverse ++ cur) ∧ fs.get l = some (.file d) := by
  obtain ⟨f', hf'⟩ := walk_through_dirs fs init cur f b [last] false false _ hp hg h
  cases f' with
  | zero => simp [walk] at hf'
  | succ f' =>
    rw [walk_succ] at hf'
    by_cases hlen : last.length > NAME_MAX
    · simp [walkStep, hl.2.1, hl.2.2, hlen] at hf'
    cases hget : fs.get (last :: (init.reverse ++ cur)) with
    | none => simp [walkStep, hl.2.1, hl.2.2, hlen, hget] at hf'
    | some e =>
      cases e with
      | file d' =>
        simp [walkStep, hl.2.1, hl.2.2, hlen, hget] at hf'
        obtain ⟨h1, h2⟩ := hf'
        subst h1 h2
        exact ⟨rfl, hget⟩
      | dir =>
        simp [walkStep, hl.2.1, hl.2.2, hlen, hget] at hf'
        cases f' with
        | zero => simp [walk] at hf'
        | succ f'' => simp [walk_succ, walkStep] at hf'
      | link t0 => simp [walkStep, hl.2.1, hl.2.2, hlen, hget] at hf'

/-! ### every location reached consists of ordinary NUL-free names -/

theorem mem_splitSlash_sub (p s : Bytes) (h : s ∈ splitSlash p) : ∀ x ∈ s, x ∈ p := by
  induction p generalizing s with
  | nil => simp [splitSlash] at h; subst h; simp
  | cons c cs ih =>
    simp only [splitSlash] at h
    split at h
    · simp at h
      rcases h with h | h
      · subst h; simp
      · intro x hx; exact List.mem_cons_of_mem _ (ih s h x hx)
    · cases hsp : splitSlash cs with
      | nil => exact absurd hsp (splitSlash_ne_nil cs)
      | cons y ys =>
        rw [hsp] at h
        simp [consHead] at h
        rcases h with h | h
        · subst h
          intro x hx
          simp at hx
          rcases hx with hx | hx
          · simp [hx]
          · exact List.mem_cons_of_mem _ (ih y (by simp [hsp]) x hx)
        · intro x hx; exact List.mem_cons_of_mem _ (ih s (by simp [hsp, h]) x hx)

theorem cstr_no_nul (p : Bytes) : (0 : UInt8) ∉ cstr p := by
  unfold cstr
  induction p with
  | nil => simp
  | cons c cs ih =>
    simp only [List.takeWhile]
    split
    · rename_i hc
      intro h
      simp at h
      rcases h with h | h
      · subst h; simp at hc
      · exact ih h
    · simp

theorem cstr_of_no_nul (p : Bytes) (h : (0 : UInt8) ∉ p) : cstr p = p := by
  unfold cstr
  induction p with
  | nil => simp
  | cons c cs ih =>
    have hc : c ≠ 0 := fun e => h (by simp [e])
    have hcs : (0 : UInt8) ∉ cs := fun e => h (by simp [e])
    have hb : (c != 0) = true := by simpa using hc
    simp [List.takeWhile, hb, ih hcs]

def NameOK (n : Name) : Prop := IsName n ∧ (0 : UInt8) ∉ n
def LocOK (l : Loc) : Prop := ∀ n ∈ l, Plain n ∧ (0 : UInt8) ∉ n
def TodoOK (t : List Name) : Prop := ∀ n ∈ t, NameOK n

theorem comps_todoOK (p : Bytes) (h : (0 : UInt8) ∉ p) : TodoOK (comps p) := by
  intro n hn
  have h1 := mem_comps p n hn
  refine ⟨⟨h1.2, h1.1⟩, ?_⟩
  intro h0
  simp only [comps, List.mem_filter] at hn
  exact h (mem_splitSlash_sub p n hn.1 0 h0)

theorem step_ok (fs : Fs) (b : Nat) (cur : Loc) (todo : List Name) (fol tr : Bool) (hc : LocOK cur) (ht : TodoOK todo) :
    (∀ l e, walkStep fs b cur todo fol tr = .done (.ok (l, e)) → LocOK l) ∧
    (∀ b' cur' todo' tr', walkStep fs b cur todo fol tr = .next b' cur' todo' tr' → LocOK cur' ∧ TodoOK todo') := by
  unfold walkStep
  cases todo with
  | nil => simp; exact hc
  | cons c rest =>
    have hcn : NameOK c := ht c (by simp)
    have hrest : TodoOK rest := fun n hn => ht n (by simp [hn])
    have htail : LocOK cur.tail := fun n hn => hc n (List.mem_of_mem_tail hn)
    simp only
    split
    · constructor
      · intro l e h; cases h
      · intro b' cur' todo' tr' h; injection h with h1 h2 h3 h4; subst h1 h2 h3 h4; exact ⟨hc, hrest⟩
    split
    · constructor
      · intro l e h; cases h
      · intro b' cur' todo' tr' h; injection h with h1 h2 h3 h4; subst h1 h2 h3 h4; exact ⟨htail, hrest⟩
    rename_i hd hdd
    have hcc : LocOK (c :: cur) := by
      intro n hn
      simp at hn
      rcases hn with hn | hn
      · subst hn; exact ⟨⟨hcn.1, hd, hdd⟩, hcn.2⟩
      · exact hc n hn
    split
    · constructor
      · intro l e h; cases h
      · intro b' cur' todo' tr' h; cases h
    split
    · constructor
      · intro l e h; cases h
      · intro b' cur' todo' tr' h; cases h
    · constructor
      · intro l e h
        split at h
        · injection h with h; injection h with h; injection h with h1 h2; subst h1; exact hcc
        · cases h
      · intro b' cur' todo' tr' h; split at h <;> cases h
    · constructor
      · intro l e h; cases h
      · intro b' cur' todo' tr' h; injection h with h1 h2 h3 h4; subst h1 h2 h3 h4; exact ⟨hcc, hrest⟩
    · rename_i t0 hget
      constructor
      · intro l e h
        split at h
        · injection h with h; injection h with h; injection h with h1 h2; subst h1; exact hcc
        split at h
        · cases h
        split at h <;> cases h
      · intro b' cur' todo' tr' h
        split at h
        · cases h
        split at h
        · cases h
        split at h
        · cases h
        injection h with h1 h2 h3 h4
        subst h1 h2 h3 h4
        refine ⟨?_, ?_⟩
        · split
          · intro n hn; simp at hn
          · exact hc
        · intro n hn
          simp at hn
          rcases hn with hn | hn
          · exact comps_todoOK _ (cstr_no_nul t0) n hn
          · exact hrest n hn

theorem walk_ok (fs : Fs) : ∀ (f b : Nat) (cur : Loc) (todo : List Name) (fol tr : Bool) (l : Loc) (e : Entry),
    LocOK cur → TodoOK todo → walk fs f b cur todo fol tr = .ok (l, e) → LocOK l := by
  intro f
  induction f with
  | zero => intro b cur todo fol tr l e _ _ h; simp [walk] at h
  | succ f ih =>
    intro b cur todo fol tr l e hc ht h
    rw [walk_succ] at h
    have hs := step_ok fs b cur todo fol tr hc ht
    cases hst : walkStep fs b cur todo fol tr with
    | done r => simp only [hst] at h; subst h; exact hs.1 l e hst
    | next b' cur' todo' tr' =>
      simp only [hst] at h
      obtain ⟨h1, h2⟩ := hs.2 _ _ _ _ hst
      exact ih _ _ _ _ _ _ _ h1 h2 h

/-! ### what a successful walk returns is what the file system holds there; a following walk never returns a link -/

theorem step_get (fs : Fs) (b : Nat) (cur : Loc) (todo : List Name) (fol tr : Bool) (hc : fs.get cur = some .dir) :
    (∀ l e, walkStep fs b cur todo fol tr = .done (.ok (l, e)) → fs.get l = some e ∧ (fol = true → ∀ t, e ≠ .link t)) ∧
    (∀ b' cur' todo' tr', walkStep fs b cur todo fol tr = .next b' cur' todo' tr' → fs.get cur' = some .dir) := by
  unfold walkStep
  cases todo with
  | nil => simp; exact hc
  | cons c rest =>
    simp only
    split
    · constructor
      · intro l e h; cases h
      · intro b' cur' todo' tr' h; injection h with h1 h2 h3 h4; subst h2; exact hc
    split
    · constructor
      · intro l e h; cases h
      · intro b' cur' todo' tr' h
        injection h with h1 h2 h3 h4
        subst h2
        cases cur with
        | nil => simp [Fs.get]
        | cons x xs => exact get_parent hc
    split
    · constructor
      · intro l e h; cases h
      · intro b' cur' todo' tr' h; cases h
    split
    · constructor
      · intro l e h; cases h
      · intro b' cur' todo' tr' h; cases h
    · rename_i d hget
      constructor
      · intro l e h
        split at h
        · injection h with h; injection h with h; injection h with h1 h2; subst h1 h2
          exact ⟨hget, by intro _ t; simp⟩
        · cases h
      · intro b' cur' todo' tr' h; split at h <;> cases h
    · rename_i hget
      constructor
      · intro l e h; cases h
      · intro b' cur' todo' tr' h; injection h with h1 h2 h3 h4; subst h2; exact hget
    · rename_i t0 hget
      constructor
      · intro l e h
        split at h
        · rename_i hcond
          injection h with h; injection h with h; injection h with h1 h2; subst h1 h2
          refine ⟨hget, ?_⟩
          intro hf; subst hf; simp at hcond
        split at h
        · cases h
        split at h <;> cases h
      · intro b' cur' todo' tr' h
        split at h
        · cases h
        split at h
        · cases h
        split at h
        · cases h
        injection h with h1 h2 h3 h4
        subst h2
        split
        · simp [Fs.get]
        · exact hc

theorem walk_get (fs : Fs) : ∀ (f b : Nat) (cur : Loc) (todo : List Name) (fol tr : Bool) (l : Loc) (e : Entry),
    fs.get cur = some .dir → walk fs f b cur todo fol tr = .ok (l, e) →
    fs.get l = some e ∧ (fol = true → ∀ t, e ≠ .link t) := by
  intro f
  induction f with
  | zero => intro b cur todo fol tr l e _ h; simp [walk] at h
  | succ f ih =>
    intro b cur todo fol tr l e hc h
    rw [walk_succ] at h
    have hs := step_get fs b cur todo fol tr hc
    cases hst : walkStep fs b cur todo fol tr with
    | done r => simp only [hst] at h; subst h; exact hs.1 l e hst
    | next b' cur' todo' tr' =>
      simp only [hst] at h
      exact ih _ _ _ _ _ _ _ (hs.2 _ _ _ _ hst) h

/-- a walk that has to pass THROUGH a regular file fails -/
theorem walk_over_file (fs : Fs) (init : List Name) (last : Name) (X : List Name) (f b : Nat) (fol tr : Bool) (d : Bytes)
    (r : Loc × Entry) (hp : ∀ n ∈ init, Plain n) (hl : Plain last) (hg : fs.get (last :: init.reverse) = some (.file d))
    (h : walk fs f b [] (init ++ last :: X) fol tr = .ok r) : X = [] ∧ tr = false := by
  have hdir : fs.get (init.reverse ++ []) = some .dir := by simpa using get_parent hg
  obtain ⟨f', hf'⟩ := walk_through_dirs fs init [] f b (last :: X) fol tr r hp hdir h
  cases f' with
  | zero => simp [walk] at hf'
  | succ f' =>
    rw [walk_succ] at hf'
    simp only [List.append_nil] at hf'
    by_cases hlen : last.length > NAME_MAX
    · simp [walkStep, hl.2.1, hl.2.2, hlen] at hf'
    · simp only [walkStep, hl.2.1, hl.2.2, hlen, ↓reduceIte, hg] at hf'
      by_cases hc : X = [] ∧ tr = false
      · exact hc
      · have hc' : (X.isEmpty && !tr) = false := by
          cases X <;> cases tr <;> simp_all
        simp [hc'] at hf'

end Iora.Assets
