import IoraModel.Lemmas.ConnectSyncG
/-! C04 extension round: where a `ret` event comes from (one-step origin lemmas), used to state the argument-layer theorems for
the session a call RETURNS (review item D). -/
namespace Iora.ConnectSync

/-- a connectSync return for attempt `sid` of caller `c` is appended only by a step of a caller that was working on `sid` -/
theorem aret_origin (s : State) (st : Step) (c sid : Nat) (r : Res)
    (h : Ev.attemptRet c (some sid) r ∈ (step s st).log) :
    Ev.attemptRet c (some sid) r ∈ s.log ∨ att (s.callers c).pc = some sid := by
  cases st with
  | call c' w =>
    simp only [step, doCall] at h
    split at h
    · split at h
      · simp at h; exact Or.inl h
      · exact Or.inl h
    · split at h
      · simp at h; exact Or.inl h
      · exact Or.inl h
    · exact Or.inl h
  | cancel c' => exact Or.inl (by simpa [step, doCancel] using h)
  | cEnter c' =>
    simp only [step, doEnter] at h
    split at h
    · split at h
      · simp [ret, mem_retEvs] at h; exact Or.inl h
      · exact Or.inl h
    · exact Or.inl h
  | cConnect c' =>
    simp only [step, doConnect] at h
    split at h
    · simp at h; exact Or.inl h
    · exact Or.inl h
  | cRefuse c' =>
    simp only [step, doRefuse] at h
    split at h
    · simp [ret, mem_retEvs] at h; exact Or.inl h
    · exact Or.inl h
  | cRegister c' =>
    simp only [step, doRegister] at h
    split at h
    · simp at h; exact Or.inl h
    · exact Or.inl h
  | cPark c' =>
    simp only [step, doPark] at h
    split at h <;> exact Or.inl h
  | cWake c' t =>
    simp only [step, doWake] at h
    split at h
    · rename_i sid' a hpc hl
      split at h
      · unfold afterWait at h
        dsimp only at h
        split at h
        · simp [ret, mem_retEvs] at h
          rcases h with h | ⟨rfl, rfl, rfl⟩
          · exact Or.inl h
          · exact Or.inr (by simp [hpc, att])
        · split at h
          · simp [ret, mem_retEvs] at h
            rcases h with h | ⟨rfl, rfl, rfl⟩
            · exact Or.inl h
            · exact Or.inr (by simp [hpc, att])
          · exact Or.inl h
      · exact Or.inl h
    · exact Or.inl h
  | cClose c' =>
    simp only [step, doClose] at h
    split at h
    · simp at h; exact Or.inl h
    · exact Or.inl h
  | cRelock c' =>
    simp only [step, doRelock] at h
    split at h
    · rename_i sid' hpc hl
      simp [ret, mem_retEvs] at h
      rcases h with h | ⟨rfl, rfl, rfl⟩
      · exact Or.inl h
      · exact Or.inr (by simp [hpc, att])
    · exact Or.inl h
  | wLoop c' d =>
    simp only [step, doWLoop] at h
    split at h
    · split at h
      · simp at h; exact Or.inl h
      · split at h
        · simp at h; exact Or.inl h
        · exact Or.inl h
    · exact Or.inl h
  | ioPop b =>
    simp only [step, doPop] at h
    split at h
    · split at h
      · split at h <;> exact Or.inl h
      · exact Or.inl h
    · split at h <;> exact Or.inl h
    · exact Or.inl h
  | ioComplete sid' =>
    simp only [step, doComplete] at h
    split at h <;> exact Or.inl h
  | ioFail sid' =>
    simp only [step, doFail] at h
    split at h <;> exact Or.inl h
  | ioPeerClose sid' =>
    simp only [step, doPeerClose] at h
    split at h <;> exact Or.inl h
  | timerClose sid' =>
    simp only [step, doFail] at h
    split at h <;> exact Or.inl h
  | ioStep =>
    simp only [step, doIoStep] at h
    split at h
    · unfold connHandler at h
      split at h
      · split at h
        · simp at h; exact Or.inl h
        · simp at h; exact Or.inl h
      · simp at h; exact Or.inl h
    · unfold closeHandler at h
      split at h
      · split at h
        · simp at h; exact Or.inl h
        · simp at h; exact Or.inl h
      · simp at h; exact Or.inl h
    · simp [notify] at h
      split at h
      · split at h <;> exact Or.inl h
      · exact Or.inl h
    · simp [notify] at h
      split at h
      · split at h <;> exact Or.inl h
      · exact Or.inl h
    · simp at h; exact Or.inl h
    · simp at h; exact Or.inl h
    · exact Or.inl h
  | fence =>
    simp only [step, doFence] at h
    split at h
    · simp at h; exact Or.inl h
    · exact Or.inl h

end Iora.ConnectSync

namespace Iora.ConnectSync

/-- a close handler begins only for a session the engine has not closed yet -/
theorem closeBegins_not_closed (s : State) (st : Step) (sid : Nat) (h : closeBegins s st = some sid) : s.eng sid ≠ .closed := by
  cases st <;> simp only [closeBegins] at h
  case ioPop b =>
    split at h
    · split at h
      · rename_i hc; simp at h hc; subst h; rw [hc.1]; simp
      · cases h
    · split at h
      · rename_i hc; simp at h hc; subst h; rcases hc with hc | hc <;> rw [hc] <;> simp
      · cases h
    · cases h
  case ioFail sid' =>
    split at h
    · rename_i hc; simp at h hc; subst h; rw [hc.2]; simp
    · cases h
  case ioPeerClose sid' =>
    split at h
    · rename_i hc; simp at h hc; subst h; rw [hc.2]; simp
    · cases h
  case timerClose sid' =>
    split at h
    · rename_i hc; simp at h hc; subst h; rw [hc.2]; simp
    · cases h
  all_goals cases h

/-- the reason of a session is written by the step that begins its close handler -/
theorem reason_written (cfg : Cfg) (x : XState) (st : Step) (n sid : Nat) (h : closeBegins x.core st = some sid) :
    (xstep cfg x st n).reason sid = n := by
  unfold xstep
  cases st <;> simp only [closeBegins] at h <;> first | cases h | (dsimp only; simp only [closeBegins]; rw [h]; simp [setN])

/-- once the engine has closed a session its recorded reason never changes -/
theorem reason_frozen (cfg : Cfg) (x : XState) (st : Step) (n sid : Nat) (hc : x.core.eng sid = .closed) :
    (xstep cfg x st n).reason sid = x.reason sid := by
  unfold xstep
  cases st <;> dsimp only
  case call c w => split <;> rfl
  case cConnect c => split <;> rfl
  all_goals
    split
    · rename_i sid' hb
      have hne : sid ≠ sid' := fun e => closeBegins_not_closed _ _ _ hb (e ▸ hc)
      simp [setN, hne]
    · rfl

end Iora.ConnectSync

namespace Iora.ConnectSync

/-- in a reachable state, `wrapRet c Cancelled` is appended only by the wrapper's own token checks: the pre-cancel check of
`call c true`, or the loop check `wLoop c false` — never by the step in which a sub-attempt returns -/
theorem wrapCancelled_origin {s : State} (hI : Inv s) (st : Step) (c : Nat)
    (h : Ev.wrapRet c (.err .cancelled) ∈ (step s st).log) :
    Ev.wrapRet c (.err .cancelled) ∈ s.log ∨ (st = .wLoop c false ∧ (s.callers c).pc = .wloop) ∨
    (st = .call c true ∧ ((s.callers c).pc = .idle ∨ (s.callers c).pc = .finished)) := by
  cases st with
  | call c' w =>
    simp only [step, doCall] at h
    split at h
    · rename_i hpc
      split at h
      · rename_i hw
        simp at h hw
        rcases h with h | rfl
        · exact Or.inl h
        · exact Or.inr (Or.inr ⟨by rw [hw.1], Or.inl hpc⟩)
      · exact Or.inl h
    · rename_i hpc
      split at h
      · rename_i hw
        simp at h hw
        rcases h with h | rfl
        · exact Or.inl h
        · exact Or.inr (Or.inr ⟨by rw [hw.1], Or.inr hpc⟩)
      · exact Or.inl h
    · exact Or.inl h
  | cancel c' => exact Or.inl (by simpa [step, doCancel] using h)
  | cEnter c' =>
    simp only [step, doEnter] at h
    split at h
    · split at h
      · simp [ret, mem_retEvs] at h; exact Or.inl h
      · exact Or.inl h
    · exact Or.inl h
  | cConnect c' =>
    simp only [step, doConnect] at h
    split at h
    · simp at h; exact Or.inl h
    · exact Or.inl h
  | cRefuse c' =>
    simp only [step, doRefuse] at h
    split at h
    · simp [ret, mem_retEvs] at h; exact Or.inl h
    · exact Or.inl h
  | cRegister c' =>
    simp only [step, doRegister] at h
    split at h
    · simp at h; exact Or.inl h
    · exact Or.inl h
  | cPark c' =>
    simp only [step, doPark] at h
    split at h <;> exact Or.inl h
  | cWake c' t =>
    simp only [step, doWake] at h
    split at h
    · rename_i sid' a hpc hl
      split at h
      · unfold afterWait at h
        dsimp only at h
        split at h
        · rename_i r hd
          obtain ⟨sid2, a2, _, _, hr⟩ := hI.P4 c' r hd
          simp [ret, mem_retEvs] at h
          rcases h with h | ⟨⟨_, hr2⟩, _⟩
          · exact Or.inl h
          · subst hr2
            rcases hr with ⟨hr, _⟩ | ⟨hr, _⟩ <;> cases hr
        · split at h
          · simp [ret, mem_retEvs] at h; exact Or.inl h
          · exact Or.inl h
      · exact Or.inl h
    · exact Or.inl h
  | cClose c' =>
    simp only [step, doClose] at h
    split at h
    · simp at h; exact Or.inl h
    · exact Or.inl h
  | cRelock c' =>
    simp only [step, doRelock] at h
    split at h
    · simp [ret, mem_retEvs] at h
      rcases h with h | ⟨⟨_, hh⟩, _⟩
      · exact Or.inl h
      · split at hh <;> cases hh
    · exact Or.inl h
  | wLoop c' d =>
    simp only [step, doWLoop] at h
    split at h
    · rename_i hpc
      split at h
      · simp at h; exact Or.inl h
      · rename_i hd
        split at h
        · simp at h
          rcases h with h | rfl
          · exact Or.inl h
          · exact Or.inr (Or.inl ⟨by simp at hd; rw [hd], hpc⟩)
        · exact Or.inl h
    · exact Or.inl h
  | ioPop b =>
    simp only [step, doPop] at h
    split at h
    · split at h
      · split at h <;> exact Or.inl h
      · exact Or.inl h
    · split at h <;> exact Or.inl h
    · exact Or.inl h
  | ioComplete sid' =>
    simp only [step, doComplete] at h
    split at h <;> exact Or.inl h
  | ioFail sid' =>
    simp only [step, doFail] at h
    split at h <;> exact Or.inl h
  | ioPeerClose sid' =>
    simp only [step, doPeerClose] at h
    split at h <;> exact Or.inl h
  | timerClose sid' =>
    simp only [step, doFail] at h
    split at h <;> exact Or.inl h
  | ioStep =>
    simp only [step, doIoStep] at h
    split at h
    · unfold connHandler at h
      split at h
      · split at h
        · simp at h; exact Or.inl h
        · simp at h; exact Or.inl h
      · simp at h; exact Or.inl h
    · unfold closeHandler at h
      split at h
      · split at h
        · simp at h; exact Or.inl h
        · simp at h; exact Or.inl h
      · simp at h; exact Or.inl h
    · simp [notify] at h
      split at h
      · split at h <;> exact Or.inl h
      · exact Or.inl h
    · simp [notify] at h
      split at h
      · split at h <;> exact Or.inl h
      · exact Or.inl h
    · simp at h; exact Or.inl h
    · simp at h; exact Or.inl h
    · exact Or.inl h
  | fence =>
    simp only [step, doFence] at h
    split at h
    · simp at h; exact Or.inl h
    · exact Or.inl h

end Iora.ConnectSync
