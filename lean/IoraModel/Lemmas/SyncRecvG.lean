import IoraModel.Lemmas.SyncRecv
/-! More lemmas about the C03 core model: `out` as a function of the emitted events, the second invariant `Inv2`
(no `PeerClosed` after a gap), and the shape of a step's events. -/
namespace Iora.SyncRecv
open Iora
set_option linter.unusedSimpArgs false
set_option linter.unusedVariables false

/-! ## `out` is the bytes of the events -/

theorem wake_out (x : Sess) (r : Bool) : (wake x r).out = x.out := by
  unfold wake; split <;> rfl

theorem drain_out (x : Sess) (b : Buf) (len : Nat) (sid : Nat) :
    (drain x b len).1.out = x.out ++ evBytes sid (evRecv sid (some (drain x b len).2)) := by
  unfold drain
  split
  · simp [evRecv, evBytes]
  · split
    · simp [evRecv, evBytes]
    · split <;> simp [evRecv, evBytes]

theorem recvEnterS_out (sh : Bool) (x : Sess) (len : Nat) (sid : Nat) :
    (recvEnterS sh x len).1.out = x.out ++ evBytes sid (evRecv sid (recvEnterS sh x len).2) := by
  unfold recvEnterS
  split
  · simp [evRecv, evBytes]
  · cases hb : x.buf <;> simp only [] <;>
    · split
      · simp [evRecv, evBytes]
      · split
        · rw [drain_out _ _ _ sid]
        · simp [evRecv, evBytes]

theorem recvWakeS_out (sh : Bool) (x : Sess) (t : Bool) (sid : Nat) :
    (recvWakeS sh x t).1.out = x.out ++ evBytes sid (evRecv sid (recvWakeS sh x t).2) := by
  unfold recvWakeS
  split
  · split
    · rw [drain_out _ _ _ sid]
    · split <;> simp [evRecv, evBytes]
  · simp [evRecv, evBytes]

theorem ioDataS_out (cfg : Cfg) (sh : Bool) (x : Sess) (chunk : Bytes) : (ioDataS cfg sh x chunk).1.out = x.out := by
  unfold ioDataS
  (repeat' split) <;> simp [wake_out]

theorem ioCloseS_out (cfg : Cfg) (x : Sess) : (ioCloseS cfg x).out = x.out := by
  unfold ioCloseS
  split <;> simp [wake_out]

theorem setModeS_out (cfg : Cfg) (x : Sess) (m : Mode) : (setModeS cfg x m).1.out = x.out := by
  unfold setModeS
  cases hb : x.buf <;> (repeat' split) <;> simp

theorem flushStepS_out (sh : Bool) (x : Sess) (sid : Nat) :
    (flushStepS sh x).1.out = x.out ++ evBytes sid (evFlush sid (flushStepS sh x).2) := by
  unfold flushStepS
  (repeat' split) <;> simp [evFlush, evBytes]

theorem evBytes_evRecv_ne {j sid : Nat} (h : j ≠ sid) (r : Option RecvRes) : evBytes j (evRecv sid r) = [] := by
  cases r with
  | none => rfl
  | some r => cases r <;> simp [evRecv, evBytes, Ne.symm h]

theorem evBytes_evMode (j sid : Nat) (r : Option Bool) : evBytes j (evMode sid r) = [] := by
  cases r <;> simp [evMode, evBytes]

theorem evBytes_evFlush_ne {j sid : Nat} (h : j ≠ sid) (r : FlushOut) : evBytes j (evFlush sid r) = [] := by
  cases r <;> simp [evFlush, evBytes, Ne.symm h]

theorem step_out_is_events (cfg : Cfg) (s : State) (st : Step) (sid : Nat) :
    ((step cfg s st).1.sess sid).out = (s.sess sid).out ++ evBytes sid (step cfg s st).2 := by
  cases st with
  | ioData sid' chunk =>
    simp only [step]
    split
    · simp [evBytes]
    · by_cases hj : sid = sid'
      · subst hj; simp [evBytes, ioDataS_out]
      · simp [evBytes, upd_other _ _ hj]
  | ioDeliver =>
    simp only [step]
    split
    · rename_i sid' d hp
      by_cases hj : sid = sid'
      · subst hj; simp [evBytes]
      · simp [evBytes, upd_other _ _ hj, Ne.symm hj]
    · simp [evBytes]
  | ioClose sid' =>
    simp only [step]
    split
    · simp [evBytes]
    · simp only [closeSess, evBytes, List.append_nil]
      by_cases hj : sid = sid'
      · subst hj; simp [ioCloseS_out]
      · simp only [hj, if_false]; split <;> rfl
  | recvEnter sid' len =>
    simp only [step]
    by_cases hj : sid = sid'
    · subst hj; simp [recvEnterS_out _ _ _ sid]
    · simp [upd_other _ _ hj, evBytes_evRecv_ne hj]
  | recvWake sid' t =>
    simp only [step]
    by_cases hj : sid = sid'
    · subst hj; simp [recvWakeS_out _ _ _ sid]
    · simp [upd_other _ _ hj, evBytes_evRecv_ne hj]
  | setMode sid' m =>
    simp only [step]
    by_cases hj : sid = sid'
    · subst hj; simp [setModeS_out, evBytes_evMode]
    · simp [upd_other _ _ hj, evBytes_evMode]
  | flushStep sid' =>
    simp only [step]
    by_cases hj : sid = sid'
    · subst hj; simp [flushStepS_out _ _ sid]
    · simp [upd_other _ _ hj, evBytes_evFlush_ne hj]
  | ioCloseCb sid' =>
    simp only [step]
    split <;> simp [evBytes]
  | fence n =>
    simp [step, wake_out, evBytes]

theorem evBytes_append (sid : Nat) (a b : List Ev) : evBytes sid (a ++ b) = evBytes sid a ++ evBytes sid b := by
  induction a with
  | nil => rfl
  | cons e r ih =>
    cases e with
    | recvRet j q => cases q <;> simp [evBytes, ih]
    | cbData j d => simp [evBytes, ih]
    | modeRet j o => simp [evBytes, ih]
    | closeCb j => simp [evBytes, ih]

theorem run_out_is_events (cfg : Cfg) (sid : Nat) : ∀ (steps : List Step) (s : State),
    ((run cfg s steps).1.sess sid).out = (s.sess sid).out ++ evBytes sid (run cfg s steps).2 := by
  intro steps
  induction steps with
  | nil => intro s; simp [run_nil, evBytes]
  | cons st rest ih =>
    intro s
    rw [run_cons]
    simp only [ih, step_out_is_events, evBytes_append, List.append_assoc]


/-! ## no EOF after a gap -/

/-- a dropped chunk outside teardown leaves a buffer that cannot answer `PeerClosed`: it is overflowed (sticky) or not closed -/
def G2S (sh : Bool) (x : Sess) : Prop :=
  x.gap = true → sh = true ∨ (∀ b, x.buf = some b → b.overflow = true ∨ b.closed = false)

def Inv2 (s : State) : Prop := ∀ j, G2S s.shuttingDown (s.sess j)

theorem Inv2_init : Inv2 init := by
  intro j; simp [G2S, init]

theorem wake_g2 {sh : Bool} {x : Sess} (r : Bool) (h : G2S sh x) : G2S sh (wake x r) := by
  unfold wake; split <;> simpa [G2S] using h

theorem drain_g2 {sh : Bool} {x : Sess} {b : Buf} (len : Nat) (h : G2S sh x) (hb : x.buf = some b) :
    G2S sh (drain x b len).1 := by
  unfold drain G2S at *
  split
  · simp_all
  · split
    · simp_all
    · split <;> simp_all

theorem recvEnterS_g2 {sh : Bool} {x : Sess} (len : Nat) (h : G2S sh x) : G2S sh (recvEnterS sh x len).1 := by
  unfold recvEnterS
  split
  · exact h
  · cases hb : x.buf with
    | none =>
      have h' : G2S sh { x with buf := some ({} : Buf) } := by
        unfold G2S at *; simp_all
      simp only []
      split
      · exact h'
      · split
        · exact drain_g2 len h' rfl
        · unfold G2S at *; simp_all
    | some b =>
      have h' : G2S sh { x with buf := some b } := by
        rw [Sess.eta_buf hb]; exact h
      simp only []
      split
      · exact h'
      · split
        · exact drain_g2 len h' rfl
        · unfold G2S at *; simp_all

theorem recvWakeS_g2 {sh : Bool} {x : Sess} (t : Bool) (h : G2S sh x) : G2S sh (recvWakeS sh x t).1 := by
  unfold recvWakeS
  split
  · rename_i p b hp hb
    split
    · exact drain_g2 p.len h hb
    · split <;> (unfold G2S at *; simp_all)
  · exact h

theorem ioDataS_g2 {cfg : Cfg} {sh : Bool} {x : Sess} (chunk : Bytes) (h : G2S sh x) :
    G2S sh (ioDataS cfg sh x chunk).1 := by
  unfold ioDataS G2S at *
  cases hx : x.parked <;> (repeat' split) <;> simp_all [wake, waiters]

theorem ioCloseS_g2 {cfg : Cfg} {sh : Bool} {po : Option Bytes} {x : Sess} (hi : InvS sh po x) (hd : x.dead = false)
    (h : G2S sh x) : G2S sh (ioCloseS cfg x) := by
  have hG := hi.G
  unfold ioCloseS G2S at *
  cases hb : x.buf <;> cases hx : x.parked <;> simp_all [wake] <;>
    (intro g; rcases hG g with g' | g' <;> simp [g'])

theorem setModeS_g2 {cfg : Cfg} {sh : Bool} {x : Sess} (m : Mode) (h : G2S sh x) : G2S sh (setModeS cfg x m).1 := by
  unfold setModeS G2S at *
  cases m <;> cases hb : x.buf <;> (repeat' split) <;> simp_all

theorem flushStepS_g2 {sh : Bool} {x : Sess} (h : G2S sh x) : G2S sh (flushStepS sh x).1 := by
  unfold flushStepS G2S at *
  (repeat' split) <;> simp_all

theorem step_inv2 {cfg : Cfg} {s : State} (hi : Inv s) (h : Inv2 s) (st : Step) (hok : ok s st = true) :
    Inv2 (step cfg s st).1 := by
  cases st with
  | ioData sid chunk =>
    simp only [step]
    split
    · exact h
    · intro j
      by_cases hj : j = sid
      · subst hj; simpa using ioDataS_g2 chunk (h j)
      · simpa [upd_other _ _ hj] using h j
  | ioDeliver =>
    simp only [step]
    split
    · rename_i sid d hp
      intro j
      by_cases hj : j = sid
      · subst hj; simpa [G2S] using h j
      · simpa [upd_other _ _ hj] using h j
    · exact h
  | ioClose sid =>
    simp only [step]
    split
    · exact h
    · intro j
      simp only [closeSess]
      by_cases hj : j = sid
      · subst hj
        have hd : (s.sess j).dead = false := by
          have : (s.sess j).dead = false ∧ s.ioPend = none := by simpa [ok] using hok
          exact this.1
        simpa using ioCloseS_g2 (hi j) hd (h j)
      · simp only [hj, if_false]
        split
        · have := h j; unfold G2S at *; simp_all
        · exact h j
  | recvEnter sid len =>
    simp only [step]
    intro j
    by_cases hj : j = sid
    · subst hj; simpa using recvEnterS_g2 len (h j)
    · simpa [upd_other _ _ hj] using h j
  | recvWake sid t =>
    simp only [step]
    intro j
    by_cases hj : j = sid
    · subst hj; simpa using recvWakeS_g2 t (h j)
    · simpa [upd_other _ _ hj] using h j
  | setMode sid m =>
    simp only [step]
    intro j
    by_cases hj : j = sid
    · subst hj; simpa using setModeS_g2 (cfg := cfg) m (h j)
    · simpa [upd_other _ _ hj] using h j
  | flushStep sid =>
    simp only [step]
    intro j
    by_cases hj : j = sid
    · subst hj; simpa using flushStepS_g2 (h j)
    · simpa [upd_other _ _ hj] using h j
  | ioCloseCb sid =>
    simp only [step]
    split
    · intro j; exact h j
    · exact h
  | fence n =>
    simp only [step]
    intro j
    intro _; exact Or.inl rfl

theorem run_inv2 {cfg : Cfg} (hg : cfg.Good) : ∀ (steps : List Step) (s : State), Inv s → Inv2 s → Disciplined cfg s steps →
    Inv2 (run cfg s steps).1 := by
  intro steps
  induction steps with
  | nil => intro s _ h _; simpa [run_nil] using h
  | cons st rest ih =>
    intro s hi h hd
    rw [run_cons]
    exact ih _ (step_inv hg hi st hd.1) (step_inv2 hi h st hd.1) hd.2


theorem drain_gap (x : Sess) (b : Buf) (len : Nat) : (drain x b len).1.gap = x.gap := by
  unfold drain; (repeat' split) <;> rfl

theorem recvEnterS_gap (sh : Bool) (x : Sess) (len : Nat) : (recvEnterS sh x len).1.gap = x.gap := by
  unfold recvEnterS
  split
  · rfl
  · cases hb : x.buf <;> simp only [] <;>
    · split
      · rfl
      · split
        · rw [drain_gap]
        · rfl

theorem recvWakeS_gap (sh : Bool) (x : Sess) (t : Bool) : (recvWakeS sh x t).1.gap = x.gap := by
  unfold recvWakeS
  split
  · split
    · rw [drain_gap]
    · split <;> rfl
  · rfl

theorem drain_peerClosed_overflow {x : Sess} {b : Buf} {len : Nat} (h : (drain x b len).2 = .peerClosed) :
    b.overflow = false := by
  unfold drain at h
  by_cases h1 : b.data ≠ []
  · simp [h1] at h
  · by_cases h2 : b.overflow = true
    · simp [h1, h2] at h
    · simpa using h2

theorem recvEnterS_peerClosed_overflow {sh : Bool} {x : Sess} {len : Nat} {b : Buf} (hb : x.buf = some b)
    (h : (recvEnterS sh x len).2 = some .peerClosed) : b.overflow = false := by
  have hx := Sess.eta_buf hb
  unfold recvEnterS at h
  simp only [hb, hx] at h
  split at h
  · simp at h
  · split at h
    · simp at h
    · split at h
      · simp only [Option.some.injEq] at h; exact drain_peerClosed_overflow h
      · simp at h

theorem recvWakeS_peerClosed_overflow {sh : Bool} {x : Sess} {t : Bool} {b : Buf} (hb : x.buf = some b)
    (h : (recvWakeS sh x t).2 = some .peerClosed) : b.overflow = false := by
  unfold recvWakeS at h
  split at h
  · rename_i p b0 hp hb0
    have : b0 = b := by simp_all
    subst this
    split at h
    · simp only [Option.some.injEq] at h; exact drain_peerClosed_overflow h
    · split at h <;> simp at h
  · simp at h

/-- a step that answers PeerClosed outside teardown: no chunk of the session was ever dropped -/
theorem peerClosed_no_gap {cfg : Cfg} {s : State} (h2 : Inv2 s) (hsh : s.shuttingDown = false) (st : Step) (sid : Nat)
    (hev : Ev.recvRet sid .peerClosed ∈ (step cfg s st).2) : ((step cfg s st).1.sess sid).gap = false := by
  have key : ∀ b, (s.sess sid).buf = some b → b.closed = true → b.overflow = false → (s.sess sid).gap = false := by
    intro b hb hc ho
    cases hgap : (s.sess sid).gap with
    | false => rfl
    | true =>
      rcases h2 sid hgap with g | g
      · simp [hsh] at g
      · rcases g b hb with g | g <;> simp_all
  cases st with
  | recvEnter sid' len =>
    simp only [step] at hev ⊢
    obtain ⟨rfl, hr⟩ := mem_evRecv.mp hev
    obtain ⟨b, hb, hd, hc, hx1, hx2⟩ := recvEnterS_peerClosed hr
    simp only [upd_same, recvEnterS_gap]
    exact key b hb hc (recvEnterS_peerClosed_overflow hb hr)
  | recvWake sid' t =>
    simp only [step] at hev ⊢
    obtain ⟨rfl, hr⟩ := mem_evRecv.mp hev
    obtain ⟨b, hb, hd, hc, hx1, hx2⟩ := recvWakeS_peerClosed hr
    simp only [upd_same, recvWakeS_gap]
    exact key b hb hc (recvWakeS_peerClosed_overflow hb hr)
  | ioData sid' c =>
    simp only [step] at hev; split at hev <;> simp at hev
  | ioDeliver =>
    simp only [step] at hev; split at hev <;> simp at hev
  | ioClose sid' =>
    simp only [step] at hev; split at hev <;> simp at hev
  | setMode sid' m =>
    simp only [step] at hev
    cases hr : (setModeS cfg (s.sess sid') m).2 <;> simp [hr, evMode] at hev
  | flushStep sid' =>
    simp only [step] at hev
    cases hr : (flushStepS s.shuttingDown (s.sess sid')).2 <;> simp [hr, evFlush] at hev
  | ioCloseCb sid' =>
    simp only [step] at hev; split at hev <;> simp at hev
  | fence n => simp [step] at hev


/-! ## a `Timeout` answer consumes nothing -/

theorem drain_ne_timeout (x : Sess) (b : Buf) (len : Nat) : (drain x b len).2 ≠ .timeout := by
  unfold drain; (repeat' split) <;> simp

theorem recvEnterS_ne_timeout (sh : Bool) (x : Sess) (len : Nat) : (recvEnterS sh x len).2 ≠ some .timeout := by
  unfold recvEnterS
  split
  · simp
  · cases hb : x.buf <;> simp only [] <;>
    · split
      · simp
      · split
        · simpa using drain_ne_timeout _ _ _
        · simp

theorem recvWakeS_timeout {sh : Bool} {x : Sess} {t : Bool} (h : (recvWakeS sh x t).2 = some .timeout) :
    (recvWakeS sh x t).1.buf = x.buf ∧ (recvWakeS sh x t).1.out = x.out := by
  unfold recvWakeS at *
  split at h
  · split at h
    · exact absurd (by simpa using h) (drain_ne_timeout _ _ _)
    · rename_i hp
      split at h
      · simp [hp, *]
      · simp at h
  · simp at h

/-- a core step that answers `Timeout` for a session leaves its buffer and its handed-out bytes untouched -/
theorem step_timeout_consumes_nothing (cfg : Cfg) (s : State) (st : Step) (sid : Nat)
    (hev : Ev.recvRet sid .timeout ∈ (step cfg s st).2) :
    ((step cfg s st).1.sess sid).buf = (s.sess sid).buf ∧ ((step cfg s st).1.sess sid).out = (s.sess sid).out := by
  cases st with
  | recvEnter sid' len =>
    simp only [step] at hev
    obtain ⟨rfl, hr⟩ := mem_evRecv.mp hev
    exact absurd hr (recvEnterS_ne_timeout _ _ _)
  | recvWake sid' t =>
    simp only [step] at hev ⊢
    obtain ⟨rfl, hr⟩ := mem_evRecv.mp hev
    simpa using recvWakeS_timeout hr
  | ioData sid' c =>
    simp only [step] at hev; split at hev <;> simp at hev
  | ioDeliver =>
    simp only [step] at hev; split at hev <;> simp at hev
  | ioClose sid' =>
    simp only [step] at hev; split at hev <;> simp at hev
  | setMode sid' m =>
    simp only [step] at hev
    cases hr : (setModeS cfg (s.sess sid') m).2 <;> simp [hr, evMode] at hev
  | flushStep sid' =>
    simp only [step] at hev
    cases hr : (flushStepS s.shuttingDown (s.sess sid')).2 <;> simp [hr, evFlush] at hev
  | ioCloseCb sid' =>
    simp only [step] at hev; split at hev <;> simp at hev
  | fence n => simp [step] at hev

end Iora.SyncRecv
