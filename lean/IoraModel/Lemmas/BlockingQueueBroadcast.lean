import IoraModel.Lemmas.MonitorBroadcast
import IoraModel.Lemmas.BlockingQueue
/-!
The `close()` path of the blocking queue as an INSTANCE of the generic broadcast-discipline theorem
(`Lemmas/MonitorBroadcast.lean`): predicate "`_closed`" for both condition variables, announced by the two `notify_all`
of `close()`.  (The put/take wake-ups use `notify_one`; their soundness is the counting invariant of
`Lemmas/BlockingQueue.lean` — see the header of `MonitorBroadcast.lean` for why that part is not generic.)
-/
namespace Iora.BQ
open Iora.Monitor

def wfL (l : Loc) : Prop :=
  (l.pc = .enter → l.todo ≠ []) ∧
  (l.pc = .sleepNE → ∃ rest, l.todo = .dequeue :: rest ∨ l.todo = .dequeueFor :: rest) ∧
  (l.pc = .sleepNF → ∃ v rest, l.todo = .queue v :: rest ∨ l.todo = .tryQueueFor v :: rest)

def owesClose (cv : CvId) (l : Loc) : Bool :=
  (cv == NE && (l.pc == .closeUnlock || l.pc == .closeNotifyNE)) ||
  (cv == NF && (l.pc == .closeUnlock || l.pc == .closeNotifyNE || l.pc == .closeNotifyNF))

def predClosed (cv : CvId) (d : Data) : Bool := (cv == NE || cv == NF) && d.closed

theorem wfT_wfL {ts : TState Loc} (h : wfT ts) : wfL ts.loc := ⟨h.2.2.2.2, h.2.1, h.2.2.1⟩

/-- what the acquiring steps (method entry, return from a wait) do, in the vocabulary of the generic theorem -/
theorem acq_summary (l : Loc) (d : Data) (late : Bool) (hw : wfL l) (hpc : l.pc = .enter ∨ l.pc = .sleepNE ∨ l.pc = .sleepNF) :
    wfL (after true l d late).1 ∧ isHoldingPc (after true l d late).1.pc = true ∧
    (∀ cv m' timed, op (after true l d late).1 = .wait cv m' timed → (after true l d late).2.closed = false) ∧
    ((after true l d late).2.closed = true → d.closed = true ∨
        ((after true l d late).1.pc = .closeUnlock)) := by
  have key : ∀ cE cF l' d', AcqOk d cE cF 0 l' d' → wfL l' ∧ isHoldingPc l'.pc = true ∧
      (∀ cv m' timed, op l' = .wait cv m' timed → d'.closed = false) ∧ (d'.closed = true → d.closed = true ∨ l'.pc = .closeUnlock) := by
    intro cE cF l' d' hA
    refine ⟨wfT_wfL hA.lok.wf, by simpa [holding] using hA.hold, ?_, ?_⟩
    · intro cv m' timed hop
      rcases (op_wait hop).2 with ⟨_, hp⟩ | ⟨_, hp⟩
      · exact (hA.lok.aboutNE rfl hp).2
      · exact (hA.lok.aboutNF rfl hp).2
    · intro hc
      rcases hA.clo hc with h0 | ⟨h1, _⟩
      · exact Or.inl h0
      · right
        simp only [closerFor, Bool.or_eq_true, beq_iff_eq] at h1
        rcases h1 with (h1 | h1) | h1
        · exact h1
        · have := hA.hold; simp [holding, h1, isHoldingPc] at this
        · simp [NE, NF] at h1
  rcases hpc with hp | hp | hp
  · have := key _ _ _ _ (entered_ok l d 0 (hw.1 hp))
    simpa [after, hp] using this
  · have := key _ _ _ _ (rewokenNE_ok l d 0 late hp (hw.2.1 hp))
    simpa [after, hp] using this
  · have := key _ _ _ _ (rewokenNF_ok l d 0 late hp (hw.2.2 hp))
    simpa [after, hp] using this

theorem wfL_idle (l : Loc) (h : (l.pc = .enter ∧ l.todo ≠ []) ∨ l.pc = .finished) : wfL l := by
  rcases h with ⟨h, h2⟩ | h
  · exact ⟨fun _ => h2, by simp [h], by simp [h]⟩
  · exact ⟨by simp [h], by simp [h], by simp [h]⟩

/-- what the other steps do: data untouched, the thread ends in a non-holding, non-waiting state -/
theorem other_summary (l : Loc) (d : Data) (late : Bool) (hpc : l.pc ≠ .enter ∧ l.pc ≠ .sleepNE ∧ l.pc ≠ .sleepNF) :
    (after true l d late).2 = d ∧ (l.pc ≠ .finished → wfL (after true l d late).1 ∧ isHoldingPc (after true l d late).1.pc = false ∧
      ∀ cv m' timed, op (after true l d late).1 ≠ .wait cv m' timed) := by
  obtain ⟨h1, h2, h3⟩ := hpc
  have idle : ∀ l' : Loc, ((l'.pc = .enter ∧ l'.todo ≠ []) ∨ l'.pc = .finished) →
      wfL l' ∧ isHoldingPc l'.pc = false ∧ ∀ cv m' timed, op l' ≠ .wait cv m' timed := by
    intro l' h
    refine ⟨wfL_idle l' h, ?_, ?_⟩
    · rcases h with ⟨h, _⟩ | h <;> simp [h, isHoldingPc]
    · intro cv m' timed hop
      rcases (op_wait hop).2 with ⟨_, hp⟩ | ⟨_, hp⟩ <;> rcases h with ⟨h, _⟩ | h <;> rw [h] at hp <;> cases hp
  have simple : ∀ pc', pc' = Pc.closeNotifyNE ∨ pc' = Pc.closeNotifyNF ∨ (∃ cv r, pc' = Pc.notify cv r) →
      wfL { l with pc := pc' } ∧ isHoldingPc pc' = false ∧ ∀ cv m' timed, op { l with pc := pc' } ≠ .wait cv m' timed := by
    intro pc' h
    rcases h with rfl | rfl | ⟨cv, r, rfl⟩ <;>
      exact ⟨⟨by simp, by simp, by simp⟩, rfl, by intro cv m' timed hop; simp [op] at hop⟩
  unfold after
  cases hp : l.pc with
  | start => exact ⟨begin_fixed_data _ _ _, fun _ => idle _ (begin_fixed_pc _ _ _)⟩
  | enter => exact absurd hp h1
  | sleepNE => exact absurd hp h2
  | sleepNF => exact absurd hp h3
  | unlockRet r => exact ⟨ret_fixed_data _ _ _, fun _ => idle _ (ret_fixed_pc _ _ _)⟩
  | notify cv r => exact ⟨ret_fixed_data _ _ _, fun _ => idle _ (ret_fixed_pc _ _ _)⟩
  | closeNotifyNF => exact ⟨ret_fixed_data _ _ _, fun _ => idle _ (ret_fixed_pc _ _ _)⟩
  | unlockNotify cv r => exact ⟨rfl, fun _ => simple _ (Or.inr (Or.inr ⟨cv, r, rfl⟩))⟩
  | closeUnlock => exact ⟨rfl, fun _ => simple _ (Or.inl rfl)⟩
  | closeNotifyNE => exact ⟨rfl, fun _ => simple _ (Or.inr (Or.inl rfl))⟩
  | finished => exact ⟨rfl, fun h => absurd rfl h⟩

theorem pc_split (l : Loc) : (l.pc = .enter ∨ l.pc = .sleepNE ∨ l.pc = .sleepNF) ∨ (l.pc ≠ .enter ∧ l.pc ≠ .sleepNE ∧ l.pc ≠ .sleepNF) := by
  cases l.pc <;> simp

theorem hao_acq (l : Loc) (h : l.pc = .enter ∨ l.pc = .sleepNE ∨ l.pc = .sleepNF) :
    holdsAfterOp (prog true) (fun l => isHoldingPc l.pc) l = true := by
  rcases h with h | h | h <;> simp [holdsAfterOp, prog, op, h]

theorem hao_other (l : Loc) (h : l.pc ≠ .enter ∧ l.pc ≠ .sleepNE ∧ l.pc ≠ .sleepNF) :
    holdsAfterOp (prog true) (fun l => isHoldingPc l.pc) l = false := by
  obtain ⟨h1, h2, h3⟩ := h
  cases hp : l.pc <;> simp_all [holdsAfterOp, prog, op, isHoldingPc]

/-- the `close()` path of the repaired blocking queue satisfies the broadcast discipline -/
def closeBroadcast : Broadcast (prog true) M where
  pred := predClosed
  holds := fun l => isHoldingPc l.pc
  owes := owesClose
  wfL := wfL
  wf_after := by
    intro l d late hw
    rcases pc_split l with h | h
    · exact (acq_summary l d late hw h).1
    · by_cases hf : l.pc = .finished
      · simpa [prog, after, hf] using hw
      · exact ((other_summary l d late h).2 hf).1
  lock_m := by intro l m' _ hop; obtain ⟨hp, hm⟩ := op_lock hop; exact ⟨hm, by simp [hp, isHoldingPc]⟩
  unlock_m := by
    intro l m' _ hop
    obtain ⟨hm, hp⟩ := op_unlock hop
    refine ⟨hm, ?_⟩
    rcases hp with ⟨r, hp⟩ | ⟨cv, r, hp⟩ | hp <;> simp [hp, isHoldingPc]
  wait_m := by
    intro l cv m' timed _ hop
    obtain ⟨hm, hp⟩ := op_wait hop
    refine ⟨hm, ?_⟩
    rcases hp with ⟨_, hp⟩ | ⟨_, hp⟩ <;> simp [hp, isHoldingPc]
  done_free := by
    intro l _ hop
    simp only [prog, op] at hop
    cases hp : l.pc <;> rw [hp] at hop <;> simp at hop
    simp [isHoldingPc]
  holds_after := by
    intro l d late hw
    rcases pc_split l with h | h
    · rw [hao_acq l h]; exact (acq_summary l d late hw h).2.1
    · rw [hao_other l h]
      by_cases hf : l.pc = .finished
      · simp [prog, after, hf, isHoldingPc]
      · exact ((other_summary l d late h).2 hf).2.1
  frame := by
    intro l d late _ hH
    rcases pc_split l with h | h
    · rw [hao_acq l h] at hH; cases hH
    · exact (other_summary l d late h).1
  wait_pred := by
    intro l d late cv m' timed hw hop
    rcases pc_split l with h | h
    · have := (acq_summary l d late hw h).2.2.1 cv m' timed hop
      simp [predClosed, prog, this]
    · by_cases hf : l.pc = .finished
      · exfalso
        have : (prog true).after l d late = (l, d) := by simp [prog, after, hf]
        rw [this] at hop
        simp [prog, op, hf] at hop
      · exact absurd hop (((other_summary l d late h).2 hf).2.2 cv m' timed)
  owe_new := by
    intro l d late cv hw hp hp'
    rcases pc_split l with h | h
    · have hc := (acq_summary l d late hw h).2.2.2
      simp only [predClosed, Bool.and_eq_true, Bool.or_eq_true, beq_iff_eq] at hp'
      obtain ⟨hcv, hcl⟩ := hp'
      rcases hc hcl with h0 | h1
      · rcases hcv with rfl | rfl <;> simp [predClosed, h0] at hp
      · show owesClose cv _ = true
        rcases hcv with rfl | rfl <;> simp [owesClose, prog, h1]
    · have := (other_summary l d late h).1
      rw [show ((prog true).after l d late).2 = d from this] at hp'
      rw [hp] at hp'; cases hp'
  owe_keep := by
    intro l d late cv _ ho hna
    simp only [owesClose, Bool.or_eq_true, Bool.and_eq_true, beq_iff_eq] at ho
    show owesClose cv (after true l d late).1 = true
    rcases ho with ⟨rfl, hp | hp⟩ | ⟨rfl, (hp | hp) | hp⟩
    · simp [after, hp, owesClose]
    · exact absurd (by simp [prog, op, hp]) hna
    · simp [after, hp, owesClose]
    · simp [after, hp, owesClose]
    · exact absurd (by simp [prog, op, hp]) hna
  owe_active := by
    intro l cv _ ho
    simp only [owesClose, Bool.or_eq_true, Bool.and_eq_true, beq_iff_eq] at ho
    have hp : l.pc = .closeUnlock ∨ l.pc = .closeNotifyNE ∨ l.pc = .closeNotifyNF := by
      rcases ho with ⟨_, hp | hp⟩ | ⟨_, (hp | hp) | hp⟩ <;> simp [hp]
    rcases hp with hp | hp | hp <;> exact ⟨by intro c m' t; simp [prog, op, hp], by simp [prog, op, hp]⟩

theorem closeBroadcast_init (cap : Nat) (ps : List (List Call)) : closeBroadcast.Inv (init cap ps) := by
  apply Broadcast.inv_init
  · intro t _
    exact ⟨rfl, ⟨by simp [init], by simp [init], by simp [init]⟩, by simp [closeBroadcast, init, isHoldingPc]⟩
  · intro t cv m' timed _; simp [prog, op, init]
  · rfl

/-- instance of the generic theorem: in every reachable state of every schedule, a thread asleep on either condition
variable sees `_closed = false`, or some ready thread is still inside `close()` before the corresponding `notify_all` -/
theorem close_broadcast_run (cap : Nat) (ps : List (List Call)) (sched : List Choice) :
    closeBroadcast.Inv (run (prog true) (init cap ps) sched) :=
  closeBroadcast.inv_run _ (closeBroadcast_init cap ps) sched

/-- instance of the generic no-lost-wake-up theorem -/
theorem close_deadlocked (cap : Nat) (ps : List (List Call)) (sched : List Choice)
    (hd : Deadlocked (prog true) (run (prog true) (init cap ps) sched)) (t : Tid) (cv : CvId)
    (ht : t < (run (prog true) (init cap ps) sched).n) (hcv : cv = NE ∨ cv = NF)
    (ha : isAsleepOn cv ((run (prog true) (init cap ps) sched).thr t) = true) :
    (run (prog true) (init cap ps) sched).data.closed = false := by
  have := closeBroadcast.deadlocked_sleepers _ (close_broadcast_run cap ps sched) hd t cv ht ha
  rcases hcv with rfl | rfl <;> simpa [closeBroadcast, predClosed] using this

end Iora.BQ
