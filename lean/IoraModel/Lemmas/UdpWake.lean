import IoraModel.Model.UdpWake
import IoraModel.Lemmas.UdpArm
/-! Lemmas about the wake-up layer (`Model/UdpWake.lean`): a loop that drains leaves nothing queued, and then the wake-up layer IS the
engine model run on "every receive loop returns exactly what arrived". -/
namespace Iora.Udp

theorem takeLoop_drains {α : Type} (isZero : α → Bool) : ∀ (q : List α), takeLoop isZero false none q = (q, [])
  | [] => rfl
  | d :: ds => by
    simp only [takeLoop, Option.map_none, Bool.false_and, Bool.false_eq_true, if_false, takeLoop_drains isZero ds]
    simp

/-- taken ++ left = what was queued: a receive loop neither invents, drops nor reorders datagrams -/
theorem takeLoop_partition {α : Type} (isZero : α → Bool) (z : Bool) : ∀ (q : List α) (b : Option Nat),
    (takeLoop isZero z b q).1 ++ (takeLoop isZero z b q).2 = q
  | [], _ => rfl
  | d :: ds, b => by
    simp only [takeLoop]
    split
    · rfl
    · split
      · rfl
      · simp [takeLoop_partition isZero z ds]

/-- a loop with a budget of at least one takes at least one datagram: level-triggered re-reporting makes progress -/
theorem takeLoop_progress {α : Type} (isZero : α → Bool) (z : Bool) (b : Option Nat) (hb : b ≠ some 0) (d : α) (ds : List α) :
    (takeLoop isZero z b (d :: ds)).2.length < (d :: ds).length := by
  simp only [takeLoop, hb, if_false]
  split
  · simp
  · have h := takeLoop_partition isZero z ds (b.map Nat.pred)
    have : ((takeLoop isZero z (b.map Nat.pred) ds).1 ++ (takeLoop isZero z (b.map Nat.pred) ds).2).length = ds.length := by rw [h]
    simp only [List.length_append] at this
    simp only [List.length_cons]
    omega

/-- no datagram is waiting in any kernel receive queue -/
def QEmpty (ws : WState) : Prop := (∀ lid, ws.lq lid = []) ∧ (∀ sid, ws.cq sid = [])

theorem qempty_init : QEmpty {} := ⟨fun _ => rfl, fun _ => rfl⟩

theorem setQ_nil_of_empty {α : Type} (m : Nat → List α) (k : Nat) (h : ∀ x, m x = []) : ∀ x, setQ m k [] x = [] := by
  intro x; unfold setQ; split
  · rfl
  · exact h x

/-- **one step.** With both loops draining and `EPOLLIN` armed on every socket, a wake-up-layer step from empty queues is exactly the
engine-model step on "the loop returns what arrived", and leaves the queues empty — under EPOLLET and under level-triggering alike. -/
theorem wstep_refines (w : WCfg) (hl : w.lloop.drains) (hc : w.cloop.drains) (tok : Nat) (ws : WState) (i : WIn)
    (ha : ArmInv ws.st) (hq : QEmpty ws) :
    (wstep w tok ws i).1.st = (step w.cfg tok ws.st i.toIn).1 ∧ (wstep w tok ws i).2 = (step w.cfg tok ws.st i.toIn).2 ∧
      QEmpty (wstep w tok ws i).1 := by
  cases i with
  | io i => exact ⟨rfl, rfl, hq⟩
  | arriveL lid dgs =>
    simp only [wstep, WIn.toIn]
    cases hls : ws.st.listeners lid with
    | none => simp only [step, hls]; exact ⟨by first | rfl | trivial, by first | rfl | trivial, hq⟩
    | some l =>
      have harm : l.armIn = true := (ha.lst lid l hls).1
      have hq0 : ws.lq lid = [] := hq.1 lid
      cases dgs with
      | nil =>
        simp only [hq0, List.append_nil, reports, List.isEmpty_nil, Bool.not_true, Bool.and_false, Bool.or_false, Bool.false_eq_true,
          if_false, step, hls, harm, if_true, recvMany]
        exact ⟨by first | rfl | trivial, by first | rfl | trivial, setQ_nil_of_empty _ _ hq.1, hq.2⟩
      | cons d ds =>
        simp only [hq0, List.nil_append, reports, List.isEmpty_cons, Bool.not_false, Bool.true_or, Bool.and_true, harm, if_true, hl.1, hl.2,
          takeLoop_drains]
        exact ⟨by first | rfl | trivial, by first | rfl | trivial, setQ_nil_of_empty _ _ hq.1, hq.2⟩
  | arriveC sid dgs =>
    simp only [wstep, WIn.toIn]
    cases hss : ws.st.sessions sid with
    | none => simp only [step, hss]; exact ⟨by first | rfl | trivial, by first | rfl | trivial, hq⟩
    | some s =>
      cases hr : s.role with
      | serverPeer => simp only [step, hss, hr]; exact ⟨by first | rfl | trivial, by first | rfl | trivial, hq⟩
      | client =>
        have harm : s.armIn = true := (ha.cli sid s hss hr).1
        have hq0 : ws.cq sid = [] := hq.2 sid
        cases dgs with
        | nil =>
          simp only [hq0, List.append_nil, reports, List.isEmpty_nil, Bool.not_true, Bool.and_false, Bool.or_false, Bool.false_eq_true,
            if_false, step, hss, hr, harm, if_true, clientRecvMany]
          exact ⟨by first | rfl | trivial, by first | rfl | trivial, hq.1, setQ_nil_of_empty _ _ hq.2⟩
        | cons d ds =>
          simp only [hq0, List.nil_append, reports, List.isEmpty_cons, Bool.not_false, Bool.true_or, Bool.and_true, harm, if_true, hr, hc.1, hc.2,
            takeLoop_drains]
          exact ⟨by first | rfl | trivial, by first | rfl | trivial, hq.1, setQ_nil_of_empty _ _ hq.2⟩

/-- **histories.** The same along any history: outputs and engine state are those of the engine model on the abstracted history, and
no datagram is left in any kernel queue at the end. -/
theorem wrunFrom_refines (w : WCfg) (hf : ArmFacts w.cfg) (hl : w.lloop.drains) (hc : w.cloop.drains) :
    ∀ (h : List WIn) (n : Nat) (ws : WState), ArmInv ws.st → QEmpty ws →
      (wrunFrom w n ws h).1.st = (runFrom w.cfg n ws.st (h.map WIn.toIn)).1 ∧
      (wrunFrom w n ws h).2 = (runFrom w.cfg n ws.st (h.map WIn.toIn)).2 ∧ QEmpty (wrunFrom w n ws h).1
  | [], _, _, _, hq => ⟨rfl, rfl, hq⟩
  | i :: is, n, ws, ha, hq => by
    obtain ⟨h1, h2, h3⟩ := wstep_refines w hl hc n ws i ha hq
    have ha' : ArmInv (wstep w n ws i).1.st := by rw [h1]; exact step_arm w.cfg hf n ws.st _ ha
    obtain ⟨g1, g2, g3⟩ := wrunFrom_refines w hf hl hc is (n + 1) (wstep w n ws i).1 ha' h3
    simp only [wrunFrom, runFrom, List.map_cons]
    rw [h1] at g1 g2
    exact ⟨g1, by rw [h2, g2], g3⟩

end Iora.Udp
