import IoraModel.Model.HttpRespondConn
import IoraModel.Lemmas.HttpRespond
/-
O5: the reference HTTP/1.1 response framer recovers, from the concatenated wire bytes, exactly the responses that were
serialised (`toWire`), for every list of wire-safe responses; and what `processHttpRequest` sends is wire-safe.
-/
namespace Iora.HttpRespond
open Iora

/-! ### the key order of `HttpHeaders` is a strict total order on lower-cased names -/

/-- lexicographic `<` on the byte keys -/
def lexLt : List Nat → List Nat → Bool
  | _, [] => false
  | [], _ :: _ => true
  | a :: as, b :: bs => if a < b then true else if b < a then false else lexLt as bs

theorem ciLess_eq_lexLt (a b : Bytes) : ciLess a b = lexLt (a.map ck) (b.map ck) := by
  induction a generalizing b with
  | nil => cases b <;> rfl
  | cons x xs ih =>
    cases b with
    | nil => rfl
    | cons y ys => simp [ciLess, lexLt, ih]

theorem lexLt_irrefl (a : List Nat) : lexLt a a = false := by
  induction a with
  | nil => rfl
  | cons x xs ih => simp [lexLt, ih]

theorem lexLt_trans {a b c : List Nat} (h1 : lexLt a b = true) (h2 : lexLt b c = true) : lexLt a c = true := by
  induction a generalizing b c with
  | nil =>
    cases c with
    | nil => cases b <;> simp [lexLt] at h2
    | cons z zs => rfl
  | cons x xs ih =>
    cases b with
    | nil => simp [lexLt] at h1
    | cons y ys =>
      cases c with
      | nil => simp [lexLt] at h2
      | cons z zs =>
        simp only [lexLt] at h1 h2 ⊢
        by_cases hxy : x < y
        · by_cases hyz : y < z
          · have : x < z := by omega
            simp [this]
          · by_cases hzy : z < y
            · simp [hyz, hzy] at h2
            · have : y = z := by omega
              subst this; simp [hxy]
        · by_cases hyx : y < x
          · simp [hxy, hyx] at h1
          · have : x = y := by omega
            subst this
            simp only [hxy, if_false] at h1
            by_cases hyz : x < z
            · simp [hyz]
            · by_cases hzy : z < x
              · simp [hyz, hzy] at h2
              · simp only [hyz, hzy, if_false] at h2 ⊢
                exact ih h1 h2

/-- the sequence of order keys of a header map -/
def keysOf (h : Headers) : List (List Nat) := h.map (fun e => e.1.map ck)

/-- `std::map` invariant: strictly increasing keys -/
def Sorted (h : Headers) : Prop := (keysOf h).Pairwise (fun a b => lexLt a b = true)

theorem hSet_mem (h : Headers) (k v : Bytes) (e : Bytes × Bytes) (he : e ∈ hSet h k v) :
    e = (k, v) ∨ e ∈ h ∨ (e.2 = v ∧ ciEq k e.1 = true ∧ ∃ v', (e.1, v') ∈ h) := by
  induction h with
  | nil => simp [hSet] at he; exact Or.inl he
  | cons x t ih =>
    obtain ⟨k', v'⟩ := x
    unfold hSet at he
    by_cases h1 : ciLess k k' = true
    · simp only [h1, if_true, List.mem_cons] at he
      rcases he with he | he | he
      · exact Or.inl he
      · exact Or.inr (Or.inl (by simp [he]))
      · exact Or.inr (Or.inl (by simp [he]))
    · by_cases h2 : ciLess k' k = true
      · simp only [h1, h2, if_true, if_false, List.mem_cons, Bool.false_eq_true] at he
        rcases he with he | he
        · exact Or.inr (Or.inl (by simp [he]))
        · rcases ih he with r | r | ⟨r1, r2, v'', r3⟩
          · exact Or.inl r
          · exact Or.inr (Or.inl (by simp [r]))
          · exact Or.inr (Or.inr ⟨r1, r2, v'', by simp [r3]⟩)
      · simp only [h1, h2, if_false, List.mem_cons, Bool.false_eq_true] at he
        rcases he with he | he
        · refine Or.inr (Or.inr ⟨by simp [he], ?_, v', by simp [he]⟩)
          subst he
          exact ciEq_of_not_less (by simpa using h1) (by simpa using h2)
        · exact Or.inr (Or.inl (by simp [he]))

theorem hSet_sorted (h : Headers) (k v : Bytes) (hs : Sorted h) : Sorted (hSet h k v) := by
  induction h with
  | nil => simp [hSet, Sorted, keysOf]
  | cons x t ih =>
    obtain ⟨k', v'⟩ := x
    have hs' : Sorted t := (List.pairwise_cons.1 hs).2
    have hlt : ∀ a ∈ keysOf t, lexLt (k'.map ck) a = true := (List.pairwise_cons.1 hs).1
    unfold hSet
    by_cases h1 : ciLess k k' = true
    · simp only [h1, if_true]
      have h1' : lexLt (k.map ck) (k'.map ck) = true := by rw [← ciLess_eq_lexLt]; exact h1
      refine List.pairwise_cons.2 ⟨?_, hs⟩
      intro a ha
      simp only [keysOf, List.map_cons, List.mem_cons] at ha
      rcases ha with ha | ha
      · subst ha; exact h1'
      · exact lexLt_trans h1' (hlt a ha)
    · by_cases h2 : ciLess k' k = true
      · simp only [h1, h2, if_true, if_false, Bool.false_eq_true]
        have h2' : lexLt (k'.map ck) (k.map ck) = true := by rw [← ciLess_eq_lexLt]; exact h2
        refine List.pairwise_cons.2 ⟨?_, ih hs'⟩
        intro a ha
        simp only [keysOf, List.mem_map] at ha
        obtain ⟨e, he, rfl⟩ := ha
        rcases hSet_mem t k v e he with r | r | ⟨_, r2, v'', r3⟩
        · subst r; exact h2'
        · exact hlt _ (by simp only [keysOf, List.mem_map]; exact ⟨e, r, rfl⟩)
        · exact hlt _ (by simp only [keysOf, List.mem_map]; exact ⟨(e.1, v''), r3, rfl⟩)
      · simp only [h1, h2, if_false, Bool.false_eq_true]
        exact hs

theorem hErase_sorted (h : Headers) (k : Bytes) (hs : Sorted h) : Sorted (hErase h k) := by
  unfold Sorted keysOf hErase at *
  exact hs.sublist ((List.filter_sublist).map _)

/-- in a sorted map the entries equivalent to a key are exactly what `find` returns -/
theorem sorted_filter_find (h : Headers) (j : Bytes) (hs : Sorted h) :
    (h.filter (fun e => ciEq e.1 j)).map (·.2) = (hFind h j).toList := by
  induction h with
  | nil => rfl
  | cons x t ih =>
    obtain ⟨k', v'⟩ := x
    have hs' : Sorted t := (List.pairwise_cons.1 hs).2
    have hlt : ∀ a ∈ keysOf t, lexLt (k'.map ck) a = true := (List.pairwise_cons.1 hs).1
    by_cases hc : ciEq k' j = true
    · have hnone : t.filter (fun e => ciEq e.1 j) = [] := by
        rw [List.filter_eq_nil_iff]
        intro e he hej
        have hej' : ciEq e.1 j = true := by simpa using hej
        have hk : k'.map ck = e.1.map ck := (ciEq_iff _ _).1 (ciEq_trans hc (ciEq_symm hej'))
        have := hlt (e.1.map ck) (by simp only [keysOf, List.mem_map]; exact ⟨e, he, rfl⟩)
        rw [hk, lexLt_irrefl] at this
        cases this
      simp [List.filter, hc, hFind, hnone]
    · simp [List.filter, hc, hFind, ih hs']

/-- the framer's name comparison (`lower name == "content-length"`) is the map's key equivalence -/
theorem ck_inj (a b : UInt8) : ck a = ck b ↔ asciiLower a = asciiLower b := by
  unfold ck
  constructor
  · intro h
    have h1 : (asciiLower a).toNat < 256 := (asciiLower a).toNat_lt
    have h2 : (asciiLower b).toNat < 256 := (asciiLower b).toNat_lt
    apply UInt8.toNat_inj.1
    simp only at h
    split at h <;> split at h <;> omega
  · intro h; rw [h]

theorem map_ck_eq_iff (a b : Bytes) : a.map ck = b.map ck ↔ lower a = lower b := by
  unfold lower
  induction a generalizing b with
  | nil => cases b <;> simp
  | cons x xs ih =>
    cases b with
    | nil => simp
    | cons y ys => simp [ih, ck_inj]

theorem ciEq_iff_lower (a b : Bytes) : ciEq a b = true ↔ lower a = lower b := by
  rw [ciEq_iff, map_ck_eq_iff]

/-! ### decimal round trip -/

theorem b8_digit_toNat (d : Nat) (h : d < 10) : (b8 (48 + d)).toNat = 48 + d := by
  simp [b8_toNat]; omega

theorem decF_spec (f n : Nat) (h : n < f) :
    decF f n ≠ [] ∧ (decF f n).all isDigit = true ∧ (decF f n).foldl (fun a c => a * 10 + (c.toNat - 48)) 0 = n := by
  induction f generalizing n with
  | zero => omega
  | succ f ih =>
    unfold decF
    by_cases hn : n < 10
    · simp only [hn, if_true]
      refine ⟨by simp, ?_, ?_⟩
      · simp [isDigit, b8_digit_toNat n hn]; omega
      · simp [b8_digit_toNat n hn]
    · simp only [hn, if_false]
      have hlt : n / 10 < f := by omega
      obtain ⟨h1, h2, h3⟩ := ih (n / 10) hlt
      have hd : n % 10 < 10 := Nat.mod_lt _ (by omega)
      refine ⟨by simp, ?_, ?_⟩
      · simp [h2, isDigit, b8_digit_toNat _ hd]; omega
      · rw [List.foldl_append, h3]
        simp [b8_digit_toNat _ hd]
        omega

theorem dec_ne_nil (n : Nat) : dec n ≠ [] := (decF_spec (n + 1) n (by omega)).1
theorem dec_digits (n : Nat) : (dec n).all isDigit = true := (decF_spec (n + 1) n (by omega)).2.1
theorem parseDec_dec (n : Nat) : parseDec (dec n) = some n := by
  have h := decF_spec (n + 1) n (by omega)
  unfold parseDec
  have h1 : (dec n).isEmpty = false := by
    cases hd : dec n with
    | nil => exact absurd hd (dec_ne_nil n)
    | cons _ _ => rfl
  simp only [h1, dec_digits, Bool.not_true, Bool.or_self, Bool.false_eq_true, if_false]
  exact congrArg some h.2.2

theorem isDigit_not_ows (c : UInt8) (h : isDigit c = true) : isOWS c = false := by
  simp only [isDigit, decide_eq_true_eq] at h
  simp only [isOWS, Bool.or_eq_false_iff, beq_eq_false_iff_ne, ne_eq]
  constructor <;> (intro hc; subst hc; simp at h)

theorem dropWhile_ows_digits (l : Bytes) (h : l.all isDigit = true) : l.dropWhile isOWS = l := by
  cases l with
  | nil => rfl
  | cons x xs =>
    have : isOWS x = false := isDigit_not_ows x (by simp at h; exact h.1)
    simp [List.dropWhile, this]

theorem trim_digits (l : Bytes) (h : l.all isDigit = true) : trim l = l := by
  unfold trim trimLeft trimRight
  rw [dropWhile_ows_digits l h, dropWhile_ows_digits l.reverse (by simpa using h), List.reverse_reverse]

theorem digits_no_lf (l : Bytes) (h : l.all isDigit = true) : (10 : UInt8) ∉ l := by
  intro hm
  have := List.all_eq_true.1 h 10 hm
  simp [isDigit] at this

/-- a three-digit status prints as its three digits -/
theorem dec_three (n : Nat) (h1 : 100 ≤ n) (h2 : n ≤ 999) :
    dec n = [b8 (48 + n / 100), b8 (48 + n / 10 % 10), b8 (48 + n % 10)] := by
  unfold dec
  have f1 : n + 1 = (n - 2) + 1 + 1 + 1 := by omega
  rw [f1]
  have a1 : ¬ n < 10 := by omega
  have a2 : ¬ n / 10 < 10 := by omega
  have a3 : n / 10 / 10 < 10 := by omega
  have a4 : n / 10 / 10 = n / 100 := by omega
  have a5 : n / 100 < 10 := by omega
  simp [decF, a1, a2, a4, a5]

/-! ### lines -/

theorem takeLine_line (l rest : Bytes) (h : (10 : UInt8) ∉ l) : takeLine (l ++ crlf ++ rest) = some (l, rest) := by
  induction l with
  | nil => simp [takeLine, splitAtSub, crlf, List.isPrefixOf]
  | cons c cs ih =>
    have hc : (10 : UInt8) ∉ cs := fun hm => h (by simp [hm])
    have ih' := ih hc
    unfold takeLine at ih' ⊢
    have hnp : crlf.isPrefixOf (c :: (cs ++ crlf ++ rest)) = false := by
      cases cs with
      | nil => simp [crlf, List.isPrefixOf]
      | cons d ds =>
        have : d ≠ 10 := fun hd => h (by simp [hd])
        simp [crlf, List.isPrefixOf, Ne.symm this]
    simp only [List.cons_append, List.append_assoc] at hnp ih' ⊢
    simp only [splitAtSub, hnp, Bool.false_eq_true, if_false, ih']

theorem splitFirst_append (sep : UInt8) (k t : Bytes) (h : sep ∉ k) : splitFirst sep (k ++ sep :: t) = some (k, t) := by
  induction k with
  | nil => simp [splitFirst]
  | cons c cs ih =>
    have hc : c ≠ sep := fun hd => h (by simp [hd])
    have hcs : sep ∉ cs := fun hm => h (by simp [hm])
    simp [splitFirst, hc, ih hcs]

theorem trim_of_no_ows (l : Bytes) (h : ∀ c ∈ l, isOWS c = false) : trim l = l := by
  have hd : ∀ m : Bytes, (∀ c ∈ m, isOWS c = false) → m.dropWhile isOWS = m := by
    intro m hm
    cases m with
    | nil => rfl
    | cons x xs => simp [List.dropWhile, hm x (by simp)]
  unfold trim trimLeft trimRight
  rw [hd l h, hd l.reverse (by intro c hc; exact h c (by simpa using hc)), List.reverse_reverse]

theorem trim_space_cons (v : Bytes) : trim (32 :: v) = trim v := by
  simp [trim, trimLeft, List.dropWhile, isOWS]

/-! ### tokens -/

theorem tchar_facts (c : UInt8) (h : isTchar c = true) : c ≠ 58 ∧ c ≠ 10 ∧ isOWS c = false := by
  refine ⟨?_, ?_, ?_⟩
  · intro hc; subst hc; revert h; decide
  · intro hc; subst hc; revert h; decide
  · cases ho : isOWS c with
    | false => rfl
    | true =>
      simp only [isOWS, Bool.or_eq_true, beq_iff_eq] at ho
      rcases ho with ho | ho <;> (subst ho; revert h; decide)

theorem token_facts (k : Bytes) (h : isHttpToken k = true) :
    k ≠ [] ∧ (58 : UInt8) ∉ k ∧ (10 : UInt8) ∉ k ∧ (∀ c ∈ k, isOWS c = false) := by
  simp only [isHttpToken, Bool.and_eq_true, Bool.not_eq_true', List.all_eq_true] at h
  obtain ⟨hne, hall⟩ := h
  refine ⟨?_, ?_, ?_, ?_⟩
  · intro hk; subst hk; simp at hne
  · intro hm; exact (tchar_facts _ (hall _ hm)).1 rfl
  · intro hm; exact (tchar_facts _ (hall _ hm)).2.1 rfl
  · intro c hc; exact (tchar_facts _ (hall _ hc)).2.2

/-- a field line without its CRLF -/
def fieldLine (e : Bytes × Bytes) : Bytes := e.1 ++ ascii ": " ++ e.2

theorem headerLine_eq (e : Bytes × Bytes) : headerLine e = fieldLine e ++ crlf := rfl

theorem fieldLine_shape (e : Bytes × Bytes) : fieldLine e = e.1 ++ 58 :: 32 :: e.2 := by
  have : ascii ": " = [58, 32] := by decide
  simp [fieldLine, this]

theorem fieldName_fieldLine (e : Bytes × Bytes) (h : isHttpToken e.1 = true) : fieldName (fieldLine e) = lower e.1 := by
  obtain ⟨_, h58, _, hows⟩ := token_facts e.1 h
  rw [fieldLine_shape, fieldName, splitFirst_append 58 e.1 _ h58]
  simp [trim_of_no_ows e.1 hows]

theorem fieldValue_fieldLine (e : Bytes × Bytes) (h : isHttpToken e.1 = true) : fieldValue (fieldLine e) = trim e.2 := by
  obtain ⟨_, h58, _, _⟩ := token_facts e.1 h
  rw [fieldLine_shape, fieldValue, splitFirst_append 58 e.1 _ h58]
  simp [trim_space_cons]

theorem fieldLine_safe (e : Bytes × Bytes) (h : isHttpToken e.1 = true) (hv : (10 : UInt8) ∉ e.2) :
    fieldLine e ≠ [] ∧ (10 : UInt8) ∉ fieldLine e := by
  obtain ⟨hne, _, h10, _⟩ := token_facts e.1 h
  rw [fieldLine_shape]
  refine ⟨by cases hk : e.1 <;> simp_all, ?_⟩
  intro hm
  simp only [List.mem_append, List.mem_cons] at hm
  rcases hm with hm | hm | hm | hm
  · exact h10 hm
  · cases hm
  · cases hm
  · exact hv hm

def TokenFields (fields : Headers) : Prop := ∀ e ∈ fields, isHttpToken e.1 = true ∧ (10 : UInt8) ∉ e.2

theorem readFieldLines_fields (fields : Headers) (rest : Bytes) (f : Nat) (hf : fields.length < f)
    (hs : TokenFields fields) :
    readFieldLines f (fields.flatMap headerLine ++ crlf ++ rest) = some (fields.map fieldLine, rest) := by
  induction fields generalizing f with
  | nil =>
    cases f with
    | zero => omega
    | succ f =>
      have := takeLine_line [] rest (by simp)
      simp only [List.nil_append] at this
      simp [readFieldLines, this]
  | cons e es ih =>
    cases f with
    | zero => omega
    | succ f =>
      obtain ⟨ht, hv⟩ := hs e (by simp)
      obtain ⟨hne, hlf⟩ := fieldLine_safe e ht hv
      have hl := takeLine_line (fieldLine e) (es.flatMap headerLine ++ crlf ++ rest) hlf
      have hin : (e :: es).flatMap headerLine ++ crlf ++ rest = fieldLine e ++ crlf ++ (es.flatMap headerLine ++ crlf ++ rest) := by
        simp [List.flatMap_cons, headerLine_eq, List.append_assoc]
      have hemp : (fieldLine e).isEmpty = false := by cases hk : fieldLine e <;> simp_all
      rw [hin]
      simp only [readFieldLines, hl, hemp, Bool.false_eq_true, if_false]
      rw [ih f (by simp at hf; omega) (fun x hx => hs x (by simp [hx]))]
      simp

theorem flatMap_headerLine_length (fields : Headers) : fields.length ≤ (fields.flatMap headerLine).length := by
  induction fields with
  | nil => simp
  | cons e es ih =>
    simp only [List.flatMap_cons, List.length_append, List.length_cons, headerLine_eq, crlf]
    omega

/-- the Content-Length values a framer sees -/
def clVals (fields : Headers) : List Bytes :=
  (fields.filter (fun e => lower e.1 == ascii "content-length")).map (fun e => trim e.2)

theorem lines_filter (fields : Headers) (hs : TokenFields fields) (x : Bytes) :
    ((fields.map fieldLine).filter (fun l => fieldName l == x)).map fieldValue =
      (fields.filter (fun e => lower e.1 == x)).map (fun e => trim e.2) := by
  induction fields with
  | nil => rfl
  | cons e es ih =>
    have ht := (hs e (by simp)).1
    have ih' := ih (fun y hy => hs y (by simp [hy]))
    simp only [List.map_cons, List.filter_cons, fieldName_fieldLine e ht]
    split
    · simp [fieldValue_fieldLine e ht, ih']
    · exact ih'

theorem lines_any (fields : Headers) (hs : TokenFields fields) (x : Bytes) :
    (fields.map fieldLine).any (fun l => fieldName l == x) = fields.any (fun e => lower e.1 == x) := by
  induction fields with
  | nil => rfl
  | cons e es ih =>
    have ht := (hs e (by simp)).1
    simp [fieldName_fieldLine e ht, ih (fun y hy => hs y (by simp [hy]))]

theorem declaredLength_fields (fields : Headers) (hs : TokenFields fields)
    (hte : fields.any (fun e => lower e.1 == ascii "transfer-encoding") = false) :
    declaredLength (fields.map fieldLine) =
      match clVals fields with
      | [] => some none
      | [v] => (parseDec v).map some
      | _ => none := by
  unfold declaredLength
  rw [lines_any fields hs, hte, lines_filter fields hs]
  rfl

/-! ### status line -/

def statusPrefix : Bytes := [72, 84, 84, 80, 47, 49, 46, 49, 32]

theorem parseStatusLine_ok (n : Nat) (text : Bytes) (h1 : 100 ≤ n) (h2 : n ≤ 999) :
    parseStatusLine (statusPrefix ++ dec n ++ [32] ++ text) = some n := by
  rw [dec_three n h1 h2]
  have d1 : n / 100 < 10 := by omega
  have d2 : n / 10 % 10 < 10 := by omega
  have d3 : n % 10 < 10 := by omega
  have e1 := b8_digit_toNat _ d1
  have e2 := b8_digit_toNat _ d2
  have e3 := b8_digit_toNat _ d3
  have hv : (ascii "HTTP/1.1" == ascii "HTTP/1.1") = true := by decide
  have hsp : splitFirst 32 (statusPrefix ++ [b8 (48 + n / 100), b8 (48 + n / 10 % 10), b8 (48 + n % 10)] ++ [32] ++ text) =
      some (ascii "HTTP/1.1", [b8 (48 + n / 100), b8 (48 + n / 10 % 10), b8 (48 + n % 10)] ++ [32] ++ text) := by
    have : statusPrefix = ascii "HTTP/1.1" ++ [32] := by decide
    rw [this]
    have h32 : (32 : UInt8) ∉ ascii "HTTP/1.1" := by decide
    have := splitFirst_append 32 (ascii "HTTP/1.1") ([b8 (48 + n / 100), b8 (48 + n / 10 % 10), b8 (48 + n % 10)] ++ [32] ++ text) h32
    simpa [List.append_assoc] using this
  unfold parseStatusLine
  rw [hsp]
  simp only [hv, Bool.true_or, if_true, List.cons_append, List.nil_append]
  have g1 : isDigit (b8 (48 + n / 100)) = true := by simp [isDigit, e1]; omega
  have g2 : isDigit (b8 (48 + n / 10 % 10)) = true := by simp [isDigit, e2]; omega
  have g3 : isDigit (b8 (48 + n % 10)) = true := by simp [isDigit, e3]; omega
  simp only [g1, g2, g3, Bool.and_self, List.head?_cons, beq_self_eq_true, Bool.or_true, if_true, e1, e2, e3]
  congr 1
  omega

theorem statusLine_no_lf (n : Nat) (text : Bytes) (ht : (10 : UInt8) ∉ text) :
    (10 : UInt8) ∉ statusPrefix ++ dec n ++ [32] ++ text := by
  intro hm
  simp only [List.mem_append, List.mem_singleton] at hm
  rcases hm with ((hm | hm) | hm) | hm
  · revert hm; decide
  · exact digits_no_lf _ (dec_digits n) hm
  · cases hm
  · exact ht hm

/-! ### one response, then all of them -/

/-- a response as it goes onto the wire -/
structure WireResp where
  status : Nat
  text : Bytes
  fields : Headers
  body : Bytes
  /-- it answers a HEAD request -/
  isHead : Bool

def WireResp.wire (r : WireResp) : Bytes := toWire r.status r.text r.fields r.body
def WireResp.frame (r : WireResp) : Frame := { status := r.status, lines := r.fields.map fieldLine, body := r.body }

/-- what the serialised response must satisfy for ANY conforming framer to read it back: a 3-digit status, no LF in the
    reason phrase, token field names, no LF in field values, no Transfer-Encoding, and a Content-Length that says how many
    body bytes follow — or no body at all where RFC 9112 §6.3 forbids one (HEAD, 1xx, 204, 304) -/
structure WireResp.Safe (r : WireResp) : Prop where
  status_lo : 100 ≤ r.status
  status_hi : r.status ≤ 999
  text : (10 : UInt8) ∉ r.text
  fields : TokenFields r.fields
  noTE : r.fields.any (fun e => lower e.1 == ascii "transfer-encoding") = false
  length : if bodyForbidden r.isHead r.status = true
           then r.body = [] ∧ (clVals r.fields = [] ∨ ∃ v n, clVals r.fields = [v] ∧ parseDec v = some n)
           else ∃ v, clVals r.fields = [v] ∧ parseDec v = some r.body.length

theorem wire_shape (r : WireResp) (rest : Bytes) :
    r.wire ++ rest = (statusPrefix ++ dec r.status ++ [32] ++ r.text) ++ crlf ++
      (r.fields.flatMap headerLine ++ crlf ++ (r.body ++ rest)) := by
  have hp : ascii "HTTP/1.1 " = statusPrefix := by decide
  have hd : decInt (r.status : Int) = dec r.status := by
    simp [decInt]
  simp [WireResp.wire, toWire, hp, hd, List.append_assoc]

theorem frameOne_recovers (r : WireResp) (hs : r.Safe) (rest : Bytes) :
    frameOne r.isHead (r.wire ++ rest) = some (r.frame, rest) := by
  rw [wire_shape]
  unfold frameOne
  rw [takeLine_line _ _ (statusLine_no_lf r.status r.text hs.text)]
  simp only [parseStatusLine_ok r.status r.text hs.status_lo hs.status_hi]
  have hfuel : r.fields.length < (r.fields.flatMap headerLine ++ crlf ++ (r.body ++ rest)).length + 1 := by
    have := flatMap_headerLine_length r.fields
    simp only [List.length_append]; omega
  rw [readFieldLines_fields r.fields (r.body ++ rest) _ hfuel hs.fields]
  simp only [declaredLength_fields r.fields hs.fields hs.noTE]
  have hl := hs.length
  by_cases hb : bodyForbidden r.isHead r.status = true
  · simp only [hb, if_true] at hl
    obtain ⟨hbody, hcl⟩ := hl
    rcases hcl with hcl | ⟨v, n, hcl, hp⟩
    · simp [hcl, hb, WireResp.frame, hbody]
    · simp [hcl, hp, hb, WireResp.frame, hbody]
  · simp only [hb, if_false, Bool.false_eq_true] at hl
    obtain ⟨v, hcl, hp⟩ := hl
    have hb' : bodyForbidden r.isHead r.status = false := by simpa using hb
    simp [hcl, hp, hb', WireResp.frame]

/-- O5: the concatenation of any list of wire-safe responses splits back into exactly those responses -/
theorem frameAll_recovers (rs : List WireResp) (h : ∀ r ∈ rs, r.Safe) :
    frameAll (rs.map (·.isHead)) (rs.flatMap WireResp.wire) = some (rs.map WireResp.frame) := by
  induction rs with
  | nil => simp [frameAll]
  | cons r rs ih =>
    simp only [List.map_cons, List.flatMap_cons, frameAll]
    rw [frameOne_recovers r (h r (by simp)) _]
    simp only [ih (fun x hx => h x (by simp [hx]))]

/-! ### what `processHttpRequest` sends is wire-safe -/

/-- what the handler must leave behind in `res.headers` (it is a `std::map`, so sortedness is free in C++) -/
structure FieldsSafe (h : Headers) : Prop where
  sorted : Sorted h
  tokens : TokenFields h
  noTE : ∀ e ∈ h, ciEq e.1 (ascii "Transfer-Encoding") = false

theorem statusText_no_lf (code : Int) : (10 : UInt8) ∉ statusText code := by
  unfold statusText
  split
  · rename_i e he
    have hm : e ∈ Gen.HttpRespond.statusTexts := List.mem_of_find?_eq_some he
    have hall : ∀ x ∈ Gen.HttpRespond.statusTexts, (10 : UInt8) ∉ ascii x.2 := by decide
    exact hall e hm
  · decide

theorem clVals_eq (h : Headers) (hs : Sorted h) : clVals h = ((hFind h kCL).toList).map trim := by
  have hp : (fun e : Bytes × Bytes => lower e.1 == ascii "content-length") = (fun e => ciEq e.1 kCL) := by
    funext e
    have hl : lower kCL = ascii "content-length" := by decide
    rw [Bool.eq_iff_iff, ciEq_iff_lower, hl]
    simp
  unfold clVals
  rw [hp, ← sorted_filter_find h kCL hs, List.map_map]
  rfl

theorem te_any_false (h : Headers) (hte : ∀ e ∈ h, ciEq e.1 (ascii "Transfer-Encoding") = false) :
    h.any (fun e => lower e.1 == ascii "transfer-encoding") = false := by
  rw [List.any_eq_false]
  intro e he
  have := hte e he
  have hl : lower (ascii "Transfer-Encoding") = ascii "transfer-encoding" := by decide
  intro hc
  have : ciEq e.1 (ascii "Transfer-Encoding") = true := by
    rw [ciEq_iff_lower, hl]; simpa using hc
  simp_all

theorem hSet_fieldsSafe (h : Headers) (k v : Bytes) (hs : FieldsSafe h) (hk : isHttpToken k = true)
    (hv : (10 : UInt8) ∉ v) (hte : ciEq k (ascii "Transfer-Encoding") = false) : FieldsSafe (hSet h k v) := by
  refine ⟨hSet_sorted h k v hs.sorted, ?_, ?_⟩
  · intro e he
    rcases hSet_mem h k v e he with r | r | ⟨r1, _, v', r3⟩
    · subst r; exact ⟨hk, hv⟩
    · exact hs.tokens e r
    · exact ⟨(hs.tokens _ r3).1, by rw [r1]; exact hv⟩
  · intro e he
    rcases hSet_mem h k v e he with r | r | ⟨_, _, v', r3⟩
    · subst r; exact hte
    · exact hs.noTE e r
    · exact hs.noTE (e.1, v') r3

theorem hErase_fieldsSafe (h : Headers) (k : Bytes) (hs : FieldsSafe h) : FieldsSafe (hErase h k) := by
  refine ⟨hErase_sorted h k hs.sorted, ?_, ?_⟩
  · intro e he; exact hs.tokens e (List.mem_filter.1 he).1
  · intro e he; exact hs.noTE e (List.mem_filter.1 he).1

theorem finalHeaders_fieldsSafe (h : Headers) (c : Bytes) (hs : FieldsSafe h) (hc : (10 : UInt8) ∉ c) :
    FieldsSafe (finalHeaders h c) := by
  unfold finalHeaders
  exact hSet_fieldsSafe _ _ _ (hSet_fieldsSafe _ _ _ hs (by decide) (by decide) (by decide)) (by decide) hc (by decide)

theorem headStrip_fieldsSafe (m : Method) (r : Resp) (hs : FieldsSafe r.headers) : FieldsSafe (headStrip m r).headers := by
  unfold headStrip
  split
  · simp only
    split
    · exact hErase_fieldsSafe _ _ hs
    · exact hs
  · exact hs

theorem ite_pair_snd {c : Prop} [Decidable c] (a b : Bytes) :
    (if c then (true, a) else (false, b)).2 = a ∨ (if c then (true, a) else (false, b)).2 = b := by
  split <;> simp

theorem connectionDecision_snd (sess : Option SessionInfo) (h : Headers) :
    (connectionDecision sess h).2 = ascii Gen.HttpRespond.connClose ∨
    (connectionDecision sess h).2 = ascii Gen.HttpRespond.connKeepAlive := by
  unfold connectionDecision
  exact ite_pair_snd _ _

theorem connectionDecision_no_lf (sess : Option SessionInfo) (h : Headers) : (10 : UInt8) ∉ (connectionDecision sess h).2 := by
  rcases connectionDecision_snd sess h with hc | hc <;> (rw [hc]; decide)

theorem bodylessStatus_cases (s : Int) (h : bodylessStatus s = true) : s = 204 ∨ s = 304 := by
  have hg : Gen.HttpRespond.headBodylessStatuses = [204, 304] := by decide
  simp only [bodylessStatus, hg, List.any_cons, List.any_nil, Bool.or_false, Bool.or_eq_true, beq_iff_eq] at h
  rcases h with h | h
  · left; exact h.symm
  · right; exact h.symm

theorem buildWire_wire_safe (env : Env) (req : Req) (res : Resp)
    (hst : 200 ≤ res.status ∧ res.status ≤ 999) (hf : FieldsSafe res.headers)
    (hc : ApiConsistent res ∨ bodylessStatus res.status = true) :
    ∃ r : WireResp, r.Safe ∧ r.wire = (buildWire env req res).1 ∧ r.isHead = (req.method == .HEAD) ∧
      (r.status : Int) = res.status := by
  have hnn : ((res.status.toNat : Nat) : Int) = res.status := Int.toNat_of_nonneg (by omega)
  let hdrs := finalHeaders (headStrip req.method res).headers (connectionDecision env.sess req.headers).2
  have hsafe : FieldsSafe hdrs :=
    finalHeaders_fieldsSafe _ _ (headStrip_fieldsSafe _ _ hf) (connectionDecision_no_lf _ _)
  have hcl : clVals hdrs = ((hFind (headStrip req.method res).headers kCL).toList).map trim := by
    rw [clVals_eq hdrs hsafe.sorted]
    show ((hFind (finalHeaders _ _) kCL).toList).map trim = _
    rw [finalHeaders_cl]
  refine ⟨{ status := res.status.toNat, text := statusText res.status, fields := hdrs,
            body := (headStrip req.method res).body, isHead := req.method == .HEAD }, ?_, ?_, rfl, hnn⟩
  · refine ⟨by show 100 ≤ res.status.toNat; omega, by show res.status.toNat ≤ 999; omega, statusText_no_lf _,
      hsafe.tokens, te_any_false _ hsafe.noTE, ?_⟩
    show (if bodyForbidden (req.method == .HEAD) res.status.toNat = true then _ else _)
    by_cases hb : bodylessStatus res.status = true
    · -- 204 / 304: no body, no Content-Length, whatever the method
      obtain ⟨h1, h2⟩ := headStrip_bodyless req.method res hb
      have hbf : bodyForbidden (req.method == .HEAD) res.status.toNat = true := by
        rcases bodylessStatus_cases _ hb with h | h <;> simp [bodyForbidden, h]
      rw [if_pos hbf]
      exact ⟨h1, Or.inl (by rw [hcl, h2]; rfl)⟩
    · have hb' : bodylessStatus res.status = false := by simpa using hb
      have hapi : ApiConsistent res := by
        rcases hc with hc | hc
        · exact hc
        · exact absurd hc hb
      by_cases hm : req.method = .HEAD
      · -- HEAD: body stripped, the handler's Content-Length stays
        have hbf : bodyForbidden (req.method == .HEAD) res.status.toNat = true := by simp [bodyForbidden, hm]
        rw [if_pos hbf]
        refine ⟨by rw [hm]; exact headStrip_head res, Or.inr ⟨dec res.body.length, res.body.length, ?_, parseDec_dec _⟩⟩
        rw [hcl, hm, headStrip_head_cl res hb', hapi]
        simp [trim_digits _ (dec_digits _)]
      · have hid := headStrip_id req.method res hm hb'
        have hbf : bodyForbidden (req.method == .HEAD) res.status.toNat = false := by
          have h204 : res.status ≠ 204 := fun h => by rw [h] at hb'; revert hb'; decide
          have h304 : res.status ≠ 304 := fun h => by rw [h] at hb'; revert hb'; decide
          have hne : (req.method == Method.HEAD) = false := by simpa using hm
          have hn : 200 ≤ res.status.toNat := by omega
          have g1 : ¬ res.status.toNat = 204 := by omega
          have g2 : ¬ res.status.toNat = 304 := by omega
          have g3 : ¬ res.status.toNat < 200 := by omega
          simp [bodyForbidden, hne, g1, g2, g3]
        rw [if_neg (by simp [hbf])]
        refine ⟨dec res.body.length, ?_, by rw [hid]; exact parseDec_dec _⟩
        rw [hcl, hid, hapi]
        simp [trim_digits _ (dec_digits _)]
  · show toWire (res.status.toNat : Int) (statusText res.status) hdrs (headStrip req.method res).body = _
    rw [hnn, buildWire_eq, headStrip_status]

end Iora.HttpRespond
