import IoraModel.Lemmas.BlockingQueue
/-!
The ghost logs of the blocking-queue model are what the calls return: for every thread, the values it pushed (in the
global push order) are exactly the arguments of its put calls that returned / are about to return `true`, in program
order; the values it popped are exactly the items its take calls returned, in program order.  Together with
`puts = takes ++ queue` (Q1) this is "per-producer order is kept" stated on return values.
-/
namespace Iora.BQ
open Iora.Monitor

def putVal : Call → Option Val
  | .queue v => some v
  | .tryQueueFor v => some v
  | .tryQueue v => some v
  | _ => none

/-- what a completed call `c` returning `r` contributed to the push log -/
def putContrib (c : Call) (r : Ret) : List Val :=
  match putVal c, r with
  | some v, .bool true => [v]
  | _, _ => []

/-- what a call returning `r` contributed to the pop log -/
def takeContrib (r : Ret) : List Val :=
  match r with
  | .item (some x) => [x]
  | _ => []

/-- the result the call in progress is going to return, once it is determined -/
def retOf : Pc → Option Ret
  | .unlockRet r => some r
  | .unlockNotify _ r => some r
  | .notify _ r => some r
  | _ => none

def pendP (l : Loc) : List Val :=
  match retOf l.pc, l.todo with
  | some r, c :: _ => putContrib c r
  | _, _ => []

def pendT (l : Loc) : List Val :=
  match retOf l.pc with
  | some r => takeContrib r
  | none => []

/-- successful puts of the completed calls, in program order -/
def logP (done : List Call) (rets : List Ret) : List Val := ((done.zip rets).map (fun x => putContrib x.1 x.2)).flatten
/-- items returned by the completed calls, in program order -/
def logT (rets : List Ret) : List Val := (rets.map takeContrib).flatten

def mine (t : Tid) (log : List (Tid × Val)) : List Val := (log.filter (fun x => x.1 == t)).map (·.2)

structure TLog (ps : List (List Call)) (d : Data) (t : Tid) (l : Loc) : Prop where
  me : l.me = t
  act : l.pc ≠ .start → l.pc ≠ .finished → l.todo ≠ []
  done : ∃ done, progOf ps t = done ++ l.todo ∧ done.length = l.rets.length ∧
          mine t d.puts = logP done l.rets ++ pendP l ∧ mine t d.takes = logT l.rets ++ pendT l

/-- the data change made by one thread: it appends its own entries to the logs -/
structure Grows (t : Tid) (d d' : Data) : Prop where
  p : ∃ xs, d'.puts = d.puts ++ xs ∧ ∀ x, x ∈ xs → x.1 = t
  k : ∃ xs, d'.takes = d.takes ++ xs ∧ ∀ x, x ∈ xs → x.1 = t

theorem grows_refl (t : Tid) (d : Data) : Grows t d d := ⟨⟨[], by simp, by simp⟩, ⟨[], by simp, by simp⟩⟩

theorem mine_append_other (t u : Tid) (log xs : List (Tid × Val)) (h : ∀ x, x ∈ xs → x.1 = t) (hu : u ≠ t) :
    mine u (log ++ xs) = mine u log := by
  unfold mine
  rw [List.filter_append]
  have : xs.filter (fun x => x.1 == u) = [] := by
    apply List.filter_eq_nil_iff.mpr
    intro x hx
    have := h x hx
    simp [this, Ne.symm hu]
  rw [this]; simp

theorem tlog_other {ps : List (List Call)} {d d' : Data} {t u : Tid} {l : Loc} (hu : u ≠ t) (g : Grows t d d')
    (h : TLog ps d u l) : TLog ps d' u l := by
  obtain ⟨⟨xs, e1, h1⟩, ⟨ys, e2, h2⟩⟩ := g
  obtain ⟨hm, ha, dn, p1, p2, p3, p4⟩ := h
  refine ⟨hm, ha, dn, p1, p2, ?_, ?_⟩
  · rw [e1, mine_append_other t u _ _ h1 hu]; exact p3
  · rw [e2, mine_append_other t u _ _ h2 hu]; exact p4

theorem mine_snoc (t : Tid) (log : List (Tid × Val)) (v : Val) : mine t (log ++ [(t, v)]) = mine t log ++ [v] := by
  simp [mine, List.filter_append]

theorem logP_snoc (done : List Call) (rets : List Ret) (c : Call) (r : Ret) (h : done.length = rets.length) :
    logP (done ++ [c]) (rets ++ [r]) = logP done rets ++ putContrib c r := by
  simp [logP, List.zip_append h]

theorem logT_snoc (rets : List Ret) (r : Ret) : logT (rets ++ [r]) = logT rets ++ takeContrib r := by
  simp [logT]

/-- the call in progress returns `r` (its contribution was pending, now it is logged) -/
theorem tlog_ret (ps : List (List Call)) (d : Data) (t : Tid) (l : Loc) (r : Ret) (h : TLog ps d t l)
    (hp : pendP l = (match l.todo with | c :: _ => putContrib c r | [] => [])) (hk : pendT l = takeContrib r)
    (hpc : l.pc ≠ .start ∧ l.pc ≠ .finished) :
    TLog ps d t (ret true l d r).1 := by
  obtain ⟨hm, ha, dn, p1, p2, p3, p4⟩ := h
  have hne := ha hpc.1 hpc.2
  cases htodo : l.todo with
  | nil => exact absurd htodo hne
  | cons c rest =>
    rw [htodo] at hp p1
    have hb : ∀ (l0 : Loc) (todo : List Call), (begin true l0 d todo).1.me = l0.me ∧ (begin true l0 d todo).1.rets = l0.rets ∧
        (begin true l0 d todo).1.todo = todo ∧ ((begin true l0 d todo).1.pc = .enter ∨ (begin true l0 d todo).1.pc = .finished) ∧
        ((begin true l0 d todo).1.pc = .enter → todo ≠ []) := by
      intro l0 todo
      cases todo with
      | nil => exact ⟨rfl, rfl, rfl, Or.inr rfl, by intro h; cases h⟩
      | cons c' r' => cases c' <;> exact ⟨rfl, rfl, rfl, Or.inl rfl, by intro _; simp⟩
    unfold ret
    rw [htodo]
    simp only [List.tail_cons]
    obtain ⟨b1, b2, b3, b4, b5⟩ := hb ⟨l.me, c :: rest, l.pc, l.rets ++ [r]⟩ rest
    refine ⟨by rw [b1]; exact hm, ?_, dn ++ [c], ?_, ?_, ?_, ?_⟩
    · intro h1 h2
      rcases b4 with e | e
      · rw [b3]; exact b5 e
      · exact absurd e h2
    · rw [b3, p1]; simp
    · rw [b2]; simp [p2]
    · have hpn : pendP (begin true ⟨l.me, c :: rest, l.pc, l.rets ++ [r]⟩ d rest).1 = [] := by
        unfold pendP; rcases b4 with e | e <;> rw [e] <;> rfl
      rw [hpn, b2, logP_snoc _ _ _ _ p2, p3, hp]; simp
    · have hpn : pendT (begin true ⟨l.me, c :: rest, l.pc, l.rets ++ [r]⟩ d rest).1 = [] := by
        unfold pendT; rcases b4 with e | e <;> rw [e] <;> rfl
      rw [hpn, b2, logT_snoc, p4, hk]; simp

theorem pend_none (l : Loc) (h : retOf l.pc = none) : pendP l = [] ∧ pendT l = [] := by
  simp [pendP, pendT, h]

/-- the thread moves to `pc'` inside the same call; what it logged is exactly what is now pending -/
theorem tlog_step (ps : List (List Call)) (d d' : Data) (t : Tid) (l : Loc) (pc' : Pc) (h : TLog ps d t l)
    (hnone : retOf l.pc = none) (hact : pc' ≠ .start → pc' ≠ .finished → l.todo ≠ [])
    (hP : mine t d'.puts = mine t d.puts ++ pendP { l with pc := pc' })
    (hT : mine t d'.takes = mine t d.takes ++ pendT { l with pc := pc' }) : TLog ps d' t { l with pc := pc' } := by
  obtain ⟨hm, ha, dn, p1, p2, p3, p4⟩ := h
  obtain ⟨e1, e2⟩ := pend_none l hnone
  rw [e1] at p3; rw [e2] at p4
  simp only [List.append_nil] at p3 p4
  exact ⟨hm, hact, dn, p1, p2, by rw [hP, p3], by rw [hT, p4]⟩

theorem putContrib_nonbool (c : Call) (r : Ret) (h : ∀ b, r ≠ .bool b) : putContrib c r = [] := by
  unfold putContrib
  cases r with
  | bool b => exact absurd rfl (h b)
  | item o => cases putVal c <;> rfl
  | unit => cases putVal c <;> rfl
  | nat n => cases putVal c <;> rfl

theorem putContrib_false (c : Call) : putContrib c (.bool false) = [] := by
  unfold putContrib; cases putVal c <;> rfl

theorem putContrib_nonput (c : Call) (r : Ret) (h : putVal c = none) : putContrib c r = [] := by
  unfold putContrib; rw [h]

/-- stay in the same call without logging anything and with nothing pending -/
theorem tlog_quiet (ps : List (List Call)) (d : Data) (t : Tid) (l : Loc) (pc' : Pc) (h : TLog ps d t l)
    (hnone : retOf l.pc = none) (hne : l.todo ≠ [])
    (hq : pendP { l with pc := pc' } = [] ∧ pendT { l with pc := pc' } = []) : TLog ps d t { l with pc := pc' } :=
  tlog_step ps d d t l pc' h hnone (fun _ _ => hne) (by rw [hq.1]; simp) (by rw [hq.2]; simp)

theorem putBody_log (ps : List (List Call)) (d : Data) (t : Tid) (l : Loc) (v : Val) (rest : List Call) (c : Call)
    (h : TLog ps d t l) (hnone : retOf l.pc = none) (ht : l.todo = c :: rest) (hv : putVal c = some v) :
    TLog ps (putBody l d v).2 t (putBody l d v).1 ∧ Grows t d (putBody l d v).2 := by
  have hne : l.todo ≠ [] := by rw [ht]; simp
  unfold putBody
  by_cases hc : d.closed = true
  · simp only [hc, if_true]
    exact ⟨tlog_quiet ps d t l _ h hnone hne ⟨by simp [pendP, retOf, ht, putContrib_false], by simp [pendT, retOf, takeContrib]⟩,
      grows_refl t d⟩
  · simp only [hc, if_false]
    refine ⟨tlog_step ps d _ t l _ h hnone (fun _ _ => hne) ?_ ?_, ⟨⟨[(l.me, v)], rfl, by simp [h.me]⟩, ⟨[], by simp, by simp⟩⟩⟩
    · simp only [pendP, retOf, ht, putContrib, hv]
      rw [h.me]; exact mine_snoc t d.puts v
    · simp [pendT, retOf, takeContrib]

theorem takeBody_log (ps : List (List Call)) (d : Data) (t : Tid) (l : Loc) (h : TLog ps d t l)
    (hnone : retOf l.pc = none) (hne : l.todo ≠ []) :
    TLog ps (takeBody l d).2 t (takeBody l d).1 ∧ Grows t d (takeBody l d).2 := by
  unfold takeBody
  cases hq : d.q with
  | nil =>
    simp only
    refine ⟨tlog_quiet ps d t l _ h hnone hne ⟨?_, by simp [pendT, retOf, takeContrib]⟩, grows_refl t d⟩
    simp only [pendP, retOf]
    cases l.todo with
    | nil => rfl
    | cons c rest => exact putContrib_nonbool c _ (by intro b; simp)
  | cons x xs =>
    simp only
    refine ⟨tlog_step ps d _ t l _ h hnone (fun _ _ => hne) ?_ ?_, ⟨⟨[], by simp, by simp⟩, ⟨[(l.me, x)], rfl, by simp [h.me]⟩⟩⟩
    · simp only [pendP, retOf]
      cases l.todo with
      | nil => simp
      | cons c rest =>
        show mine t d.puts = mine t d.puts ++ putContrib c (.item (some x))
        rw [putContrib_nonbool c (.item (some x)) (by intro b; simp)]; simp
    · simp only [pendT, retOf, takeContrib]
      rw [h.me]; exact mine_snoc t d.takes x

theorem entered_log (ps : List (List Call)) (d : Data) (t : Tid) (l : Loc) (h : TLog ps d t l) (hpc : l.pc = .enter) :
    TLog ps (entered l d).2 t (entered l d).1 ∧ Grows t d (entered l d).2 := by
  have hnone : retOf l.pc = none := by rw [hpc]; rfl
  have hne : l.todo ≠ [] := h.act (by rw [hpc]; simp) (by rw [hpc]; simp)
  have quiet : ∀ pc', (pendP { l with pc := pc' } = [] ∧ pendT { l with pc := pc' } = []) →
      TLog ps d t { l with pc := pc' } ∧ Grows t d d := fun pc' hq => ⟨tlog_quiet ps d t l pc' h hnone hne hq, grows_refl t d⟩
  unfold entered
  cases htodo : l.todo with
  | nil => exact absurd htodo hne
  | cons c rest =>
    have hl : ({ l with todo := c :: rest } : Loc) = l := by cases l; simp_all
    cases c with
    | queue v =>
      simp only
      split
      · exact putBody_log ps d t l v rest _ h hnone htodo rfl
      · have := quiet .sleepNF ⟨by simp [pendP, retOf], by simp [pendT, retOf]⟩
        simpa [htodo] using this
    | tryQueueFor v =>
      simp only
      split
      · exact putBody_log ps d t l v rest _ h hnone htodo rfl
      · have := quiet .sleepNF ⟨by simp [pendP, retOf], by simp [pendT, retOf]⟩
        simpa [htodo] using this
    | tryQueue v =>
      simp only
      split
      · have := quiet (.unlockRet (.bool false)) ⟨by simp [pendP, retOf, htodo, putContrib_false], by simp [pendT, retOf, takeContrib]⟩
        simpa [htodo] using this
      · rename_i hcond
        simp only [Bool.or_eq_true, decide_eq_true_eq, not_or] at hcond
        have hcf : d.closed = false := by simpa using hcond.1
        have := putBody_log ps d t l v rest (.tryQueue v) h hnone htodo rfl
        simpa [putBody, hcf, htodo] using this
    | dequeue =>
      simp only
      split
      · exact takeBody_log ps d t l h hnone hne
      · have := quiet .sleepNE ⟨by simp [pendP, retOf], by simp [pendT, retOf]⟩
        simpa [htodo] using this
    | dequeueFor =>
      simp only
      split
      · exact takeBody_log ps d t l h hnone hne
      · have := quiet .sleepNE ⟨by simp [pendP, retOf], by simp [pendT, retOf]⟩
        simpa [htodo] using this
    | tryDequeue => exact takeBody_log ps d t l h hnone hne
    | close =>
      simp only
      split
      · have := quiet (.unlockRet .unit) ⟨by simp [pendP, retOf, htodo, putContrib, putVal], by simp [pendT, retOf, takeContrib]⟩
        simpa [htodo] using this
      · refine ⟨?_, ⟨⟨[], by simp, by simp⟩, ⟨[], by simp, by simp⟩⟩⟩
        have := tlog_step ps d { d with closed := true } t l .closeUnlock h hnone (fun _ _ => hne)
          (by simp [pendP, retOf]) (by simp [pendT, retOf])
        simpa [htodo] using this
    | size =>
      have := quiet (.unlockRet (.nat d.q.length)) ⟨by simp [pendP, retOf, htodo, putContrib, putVal], by simp [pendT, retOf, takeContrib]⟩
      simpa [htodo] using this
    | empty =>
      have := quiet (.unlockRet (.bool d.q.isEmpty)) ⟨by simp [pendP, retOf, htodo, putContrib, putVal], by simp [pendT, retOf, takeContrib]⟩
      simpa [htodo] using this
    | full =>
      have := quiet (.unlockRet (.bool (decide (d.q.length ≥ d.cap)))) ⟨by simp [pendP, retOf, htodo, putContrib, putVal], by simp [pendT, retOf, takeContrib]⟩
      simpa [htodo] using this

theorem rewoken_log (ps : List (List Call)) (d : Data) (t : Tid) (l : Loc) (late : Bool) (h : TLog ps d t l)
    (hpc : l.pc = .sleepNE ∨ l.pc = .sleepNF) :
    TLog ps (rewoken l d late).2 t (rewoken l d late).1 ∧ Grows t d (rewoken l d late).2 := by
  have hnone : retOf l.pc = none := by rcases hpc with e | e <;> rw [e] <;> rfl
  have hne : l.todo ≠ [] := h.act (by rcases hpc with e | e <;> rw [e] <;> simp) (by rcases hpc with e | e <;> rw [e] <;> simp)
  have same : TLog ps d t l ∧ Grows t d d := ⟨h, grows_refl t d⟩
  unfold rewoken
  cases htodo : l.todo with
  | nil => exact absurd htodo hne
  | cons c rest =>
    cases c with
    | queue v =>
      simp only
      split
      · exact putBody_log ps d t l v rest _ h hnone htodo rfl
      · exact same
    | tryQueueFor v =>
      simp only
      split
      · exact putBody_log ps d t l v rest _ h hnone htodo rfl
      · split
        · have := tlog_quiet ps d t l (.unlockRet (.bool false)) h hnone hne
            ⟨by simp [pendP, retOf, htodo, putContrib_false], by simp [pendT, retOf, takeContrib]⟩
          exact ⟨by simpa [htodo] using this, grows_refl t d⟩
        · exact same
    | dequeue =>
      simp only
      split
      · exact takeBody_log ps d t l h hnone hne
      · exact same
    | dequeueFor =>
      simp only
      split
      · exact takeBody_log ps d t l h hnone hne
      · split
        · have := tlog_quiet ps d t l (.unlockRet (.item none)) h hnone hne
            ⟨by simp [pendP, retOf, htodo, putContrib, putVal], by simp [pendT, retOf, takeContrib]⟩
          exact ⟨by simpa [htodo] using this, grows_refl t d⟩
        · exact same
    | tryQueue v => exact same
    | tryDequeue => exact same
    | close => exact same
    | size => exact same
    | empty => exact same
    | full => exact same

/-- the user code of one step of thread `t` keeps its log invariant and only appends `t`'s own entries -/
theorem after_log (ps : List (List Call)) (d : Data) (t : Tid) (l : Loc) (late : Bool) (h : TLog ps d t l) :
    TLog ps (after true l d late).2 t (after true l d late).1 ∧ Grows t d (after true l d late).2 := by
  unfold after
  cases hpc : l.pc with
  | start =>
    simp only [begin_fixed_data]
    refine ⟨?_, grows_refl t d⟩
    obtain ⟨hm, ha, dn, p1, p2, p3, p4⟩ := h
    have hp := pend_none l (by rw [hpc]; rfl)
    rw [hp.1] at p3; rw [hp.2] at p4
    cases htodo : l.todo with
    | nil =>
      refine ⟨hm, by intro _ h2; exact absurd rfl h2, dn, by simpa [begin, htodo] using p1, p2, ?_, ?_⟩
      · simpa [begin, pendP, retOf] using p3
      · simpa [begin, pendT, retOf] using p4
    | cons c rest =>
      have : (begin true l d (c :: rest)).1 = { l with todo := c :: rest, pc := .enter } := by cases c <;> rfl
      rw [this]
      refine ⟨hm, by intro _ _; simp, dn, by simpa [htodo] using p1, p2, ?_, ?_⟩
      · simpa [pendP, retOf] using p3
      · simpa [pendT, retOf] using p4
  | enter => exact entered_log ps d t l h hpc
  | sleepNF => exact rewoken_log ps d t l late h (Or.inr hpc)
  | sleepNE => exact rewoken_log ps d t l late h (Or.inl hpc)
  | unlockRet r =>
    simp only [ret_fixed_data]
    refine ⟨tlog_ret ps d t l r h ?_ ?_ ⟨by rw [hpc]; simp, by rw [hpc]; simp⟩, grows_refl t d⟩
    · simp only [pendP, hpc, retOf]; cases l.todo <;> rfl
    · simp [pendT, hpc, retOf]
  | notify cv r =>
    simp only [ret_fixed_data]
    refine ⟨tlog_ret ps d t l r h ?_ ?_ ⟨by rw [hpc]; simp, by rw [hpc]; simp⟩, grows_refl t d⟩
    · simp only [pendP, hpc, retOf]; cases l.todo <;> rfl
    · simp [pendT, hpc, retOf]
  | closeNotifyNF =>
    simp only [ret_fixed_data]
    refine ⟨tlog_ret ps d t l .unit h ?_ ?_ ⟨by rw [hpc]; simp, by rw [hpc]; simp⟩, grows_refl t d⟩
    · simp only [pendP, hpc, retOf]
      cases l.todo with
      | nil => rfl
      | cons c rest => exact (putContrib_nonbool c .unit (by intro b; simp)).symm
    · simp [pendT, hpc, retOf, takeContrib]
  | unlockNotify cv r =>
    refine ⟨?_, grows_refl t d⟩
    obtain ⟨hm, ha, dn, p1, p2, p3, p4⟩ := h
    have hne := ha (by rw [hpc]; simp) (by rw [hpc]; simp)
    exact ⟨hm, fun _ _ => hne, dn, p1, p2, by simpa [pendP, hpc, retOf] using p3, by simpa [pendT, hpc, retOf] using p4⟩
  | closeUnlock =>
    refine ⟨?_, grows_refl t d⟩
    obtain ⟨hm, ha, dn, p1, p2, p3, p4⟩ := h
    have hne := ha (by rw [hpc]; simp) (by rw [hpc]; simp)
    exact ⟨hm, fun _ _ => hne, dn, p1, p2, by simpa [pendP, hpc, retOf] using p3, by simpa [pendT, hpc, retOf] using p4⟩
  | closeNotifyNE =>
    refine ⟨?_, grows_refl t d⟩
    obtain ⟨hm, ha, dn, p1, p2, p3, p4⟩ := h
    have hne := ha (by rw [hpc]; simp) (by rw [hpc]; simp)
    exact ⟨hm, fun _ _ => hne, dn, p1, p2, by simpa [pendP, hpc, retOf] using p3, by simpa [pendT, hpc, retOf] using p4⟩
  | finished => exact ⟨h, grows_refl t d⟩

/-! ## every schedule -/

def LogsInv (ps : List (List Call)) (s : State Data Loc) : Prop := ∀ t, t < s.n → TLog ps s.data t (s.thr t).loc

theorem wakeT_loc (ts : TState Loc) (to : Bool) : (wakeT ts to).loc = ts.loc := by
  unfold wakeT; split <;> rfl

theorem wakeAll_loc (cv : CvId) (thr : Tid → TState Loc) (u : Tid) : (wakeAll cv thr u).loc = (thr u).loc := by
  unfold wakeAll; split
  · exact wakeT_loc _ _
  · rfl

theorem logs_runAfter (ps : List (List Call)) (s s0 : State Data Loc) (t : Tid) (late : Bool) (ht : t < s.n)
    (h : LogsInv ps s) (hn : s0.n = s.n) (hd : s0.data = s.data) (hl : ∀ u, (s0.thr u).loc = (s.thr u).loc) :
    LogsInv ps (runAfter (prog true) s0 t late) := by
  rw [runAfter_eq]
  have key := after_log ps s.data t (s.thr t).loc late (h t ht)
  rw [hd, hl t]
  intro u hu
  have hu' : u < s.n := by rw [← hn]; exact hu
  by_cases e : u = t
  · subst e; simpa using key.1
  · simp only [updT_other _ _ _ _ e, hl u]
    exact tlog_other e key.2 (h u hu')

theorem logs_tr (ps : List (List Call)) (s s' : State Data Loc) (h : LogsInv ps s) (tr : Tr (prog true) s s') : LogsInv ps s' := by
  cases tr with
  | wake t cv m timed to ht hs =>
    intro u hu
    by_cases e : u = t
    · subst e; simpa using h u hu
    · simpa [updT_other _ _ _ _ e] using h u hu
  | sleep t cv m timed ht hs hop =>
    intro u hu
    by_cases e : u = t
    · subst e; simpa using h u hu
    · simpa [updT_other _ _ _ _ e] using h u hu
  | reacquire t m timed to late ht hs hfree => exact logs_runAfter ps s _ t late ht h rfl rfl (fun _ => rfl)
  | lock t m ht hs hop hfree => exact logs_runAfter ps s _ t false ht h rfl rfl (fun _ => rfl)
  | unlock t m ht hs hop => exact logs_runAfter ps s _ t false ht h rfl rfl (fun _ => rfl)
  | plain t ht hs hop => exact logs_runAfter ps s _ t false ht h rfl rfl (fun _ => rfl)
  | notifyNone t cv ht hs hop hno => exact logs_runAfter ps s _ t false ht h rfl rfl (fun _ => rfl)
  | notifyWake t cv u ht hs hop hu hsl =>
    refine logs_runAfter ps s _ t false ht h rfl rfl ?_
    intro w
    by_cases e : w = u
    · subst e; simp [wakeT_loc]
    · simp [updT_other _ _ _ _ e]
  | notifyAll t cv ht hs hop => exact logs_runAfter ps s _ t false ht h rfl rfl (fun u => wakeAll_loc cv s.thr u)

theorem logs_init (cap : Nat) (ps : List (List Call)) : LogsInv ps (init cap ps) := by
  intro t _
  exact ⟨rfl, by intro h; exact absurd rfl h, [], by simp [init], by simp [init],
    by simp [init, mine, logP, pendP, retOf], by simp [init, mine, logT, pendT, retOf]⟩

theorem logs_run (cap : Nat) (ps : List (List Call)) (sched : List Choice) : LogsInv ps (run (prog true) (init cap ps) sched) :=
  inv_of_tr (prog true) (LogsInv ps) (logs_tr ps) sched _ (logs_init cap ps)

end Iora.BQ
