import IoraModel.Lemmas.TpSize
/-!
# C09 — until shutdown, at most `_maxSize` worker threads can take a task

One statement combining "every worker that has not returned is registered" (`WInv.reg`) with the bound on `_threads`
(`SizeInv.size`): the number of THREADS (not map entries) that are workers and have neither removed themselves from
`_threads` nor returned is at most the effective maximum.  (A worker that has removed itself after an idle time-out
still holds `_mutex` and can only unlock and return; it is not counted.)
-/
namespace Iora.ThreadPool

/-- a worker thread that can still take a task -/
def liveWorker (th : Thread) : Bool := isWorker th && !goneW th

theorem countP_ge_split (T : List Nat) (k : Nat) :
    T.countP (fun j => decide (k ≤ j)) = T.countP (fun j => decide (k + 1 ≤ j)) + T.countP (fun j => decide (j = k)) := by
  induction T with
  | nil => rfl
  | cons a T ih =>
    simp only [List.countP_cons, ih]
    by_cases h3 : a = k
    · subst h3
      have h2 : ¬ a + 1 ≤ a := by omega
      simp [h2]; omega
    · by_cases h1 : k ≤ a
      · have h2 : k + 1 ≤ a := by omega
        simp [h1, h2, h3]; omega
      · have h2 : ¬ k + 1 ≤ a := by omega
        simp [h1, h2, h3]

/-- if the index of every element satisfying `p` occurs in `T`, there are at most `T.length` such elements -/
theorem countP_index_le (p : Thread → Bool) (T : List Nat) : ∀ (L : List Thread) (k : Nat),
    (∀ (i : Nat) (th : Thread), L[i]? = some th → p th = true → (i + k) ∈ T) →
    L.countP p ≤ T.countP (fun j => decide (k ≤ j)) := by
  intro L
  induction L with
  | nil => intro k _; simp
  | cons x xs ih =>
    intro k H
    have h1 := ih (k + 1) (by
      intro i th hi hp
      have := H (i + 1) th (by simpa using hi) hp
      have e : i + 1 + k = i + (k + 1) := by omega
      rw [← e]; exact this)
    rw [countP_ge_split T k, List.countP_cons]
    by_cases hp : p x = true
    · have hk : k ∈ T := by have := H 0 x (by simp) hp; simpa using this
      have : 0 < T.countP (fun j => decide (j = k)) := List.countP_pos_iff.mpr ⟨k, hk, by simp⟩
      simp [hp]; omega
    · simp [hp]; omega

theorem live_workers_le_max (cfg : Cfg) (hdet : cfg.detached = false) (hr : cfg.allowRestart = false) (sched : List Choice)
    (hs : (run cfg sched).sh.shutdown = false) : (run cfg sched).thr.countP liveWorker ≤ cfg.effMax := by
  have hall := allInv_run cfg hdet hr sched
  obtain ⟨pc0, r0, h0⟩ := hall.c.main0
  have hsz := (sizeInv_run cfg hdet hr sched).size _ h0
  have hmem : ∀ (i : Nat) (th : Thread), (run cfg sched).thr[i]? = some th → liveWorker th = true → (i + 0) ∈ (run cfg sched).sh.threads := by
    intro i th hget hl
    simp only [liveWorker, Bool.and_eq_true, Bool.not_eq_true'] at hl
    have hnd : th ≠ .worker .done := by intro e; rw [e] at hl; simp [goneW] at hl
    rcases hall.w.reg i th hget hl.1 hnd with h | ⟨t, th', hget', htgt⟩ | h
    · exact h
    · exfalso
      cases th' with
      | main pc r =>
        have hown : ownsPc pc = true := by cases pc <;> simp [targetOf] at htgt <;> rfl
        have := (hall.c.cok t pc r hget').own hown
        rw [hs] at this; cases this
      | sub x => simp [targetOf] at htgt
      | worker x => simp [targetOf] at htgt
    · rw [h] at hl; simp [goneW] at hl
  have h1 := countP_index_le liveWorker _ _ 0 hmem
  have h2 := Nat.le_trans h1 List.countP_le_length
  omega

end Iora.ThreadPool
