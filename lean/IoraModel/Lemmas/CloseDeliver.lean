import IoraModel.Model.CloseDeliver
/-! Invariant and trace lemmas for `Model/CloseDeliver.lean` (C02, T3 at the Transport level). -/
namespace Iora.Deliver

/-- the two source variants about the STATE the theorems need (both are Gen facts of the translator) -/
def SoundState (c : Cfg) : Prop := c.eraseAlways = true ∧ c.tombGuard = true

/-- the three source variants the theorems about the repaired code need (all Gen facts of the translator): the two about the state
and the order of the close handler - marked closed BEFORE the close callbacks run (FC03c) -/
def Sound (c : Cfg) : Prop := c.eraseAlways = true ∧ c.tombGuard = true ∧ c.markFirst = true

theorem Sound.state {c : Cfg} (h : Sound c) : SoundState c := ⟨h.1, h.2.1⟩

/-- the engine contract (T3a of the engine model): no accept / connect / data from the engine for an id whose close handler it has
entered (either half has run) -/
def engOk (t : T) : Op → Prop
  | .engAccept sid => t.closedH sid = false ∧ t.marked sid = false
  | .engConnect sid => t.closedH sid = false ∧ t.marked sid = false
  | .engData sid _ => t.closedH sid = false ∧ t.marked sid = false
  | _ => True

/-- ... and nothing happens INSIDE the window of a handler that runs its callbacks first: while the close callbacks of an id have
been started and its buffer is not yet marked closed, the only op is that mark.  (Histories of the mark-first order have no such
window at all: `valid_of_markFirst`.) -/
def okOp (t : T) (op : Op) : Prop :=
  engOk t op ∧ ∀ s, t.closedH s = true → t.marked s = true ∨ op = .closeMark s

def Valid : T → List Op → Prop
  | _, [] => True
  | t, op :: r => okOp t op ∧ Valid (step t op).1 r

/-- a closed id can no longer be flushed: either it has no mode and its buffer is a closed tombstone (setReadMode leaves it alone),
or nothing is buffered for it -/
def Safe (t : T) (s : Sid) : Prop := (t.modes s = none ∧ tomb t s = true) ∨ bufData t s = []

def Inv (t : T) : Prop := ∀ s, t.marked s = true → Safe t s

/-- an event that hands something of session `s` to the application's accept / connect / data callback -/
def delFor (s : Sid) : Out → Prop
  | .acceptCb x => x = s
  | .connectCb x => x = s
  | .dataCb x _ => x = s
  | _ => False

def NoDel (s : Sid) (tr : List Out) : Prop := ∀ e ∈ tr, ¬ delFor s e

/-- nothing is delivered for an id after the event that marks its close handler -/
def TraceOk : List Out → Prop
  | [] => True
  | e :: r => (∀ s, e = .closeH s → NoDel s r) ∧ TraceOk r

@[simp] theorem upd_same {β : Type} (f : Nat → β) (k : Nat) (v : β) : upd f k v k = v := by simp [upd]
@[simp] theorem upd_other {β : Type} (f : Nat → β) (k x : Nat) (v : β) (h : x ≠ k) : upd f k v x = f x := by simp [upd, h]

/-! ### configuration and ghost -/

@[simp] theorem markClosed_cfg (sid : Sid) (t : T) : (markClosed sid t).cfg = t.cfg := by
  unfold markClosed; split <;> rfl
@[simp] theorem eraseMode_cfg (sid : Sid) (t : T) : (eraseMode sid t).cfg = t.cfg := by
  unfold eraseMode; split <;> rfl
@[simp] theorem sweep_cfg (sid : Sid) (t : T) : (sweep sid t).cfg = t.cfg := by
  unfold sweep; split <;> rfl
@[simp] theorem markClosed_closedH (sid : Sid) (t : T) : (markClosed sid t).closedH = t.closedH := by
  unfold markClosed; split <;> rfl
@[simp] theorem eraseMode_closedH (sid : Sid) (t : T) : (eraseMode sid t).closedH = t.closedH := by
  unfold eraseMode; split <;> rfl
@[simp] theorem sweep_closedH (sid : Sid) (t : T) : (sweep sid t).closedH = t.closedH := by
  unfold sweep; split <;> rfl
@[simp] theorem markClosed_marked (sid : Sid) (t : T) : (markClosed sid t).marked = t.marked := by
  unfold markClosed; split <;> rfl
@[simp] theorem eraseMode_marked (sid : Sid) (t : T) : (eraseMode sid t).marked = t.marked := by
  unfold eraseMode; split <;> rfl
@[simp] theorem sweep_marked (sid : Sid) (t : T) : (sweep sid t).marked = t.marked := by
  unfold sweep; split <;> rfl

theorem step_cfg (t : T) (op : Op) : (step t op).1.cfg = t.cfg := by
  cases op with
  | engAccept sid => rfl
  | engConnect sid => rfl
  | engData sid b =>
    simp only [step, onData]
    split
    · split
      · rfl
      · split
        · rfl
        · split <;> rfl
    · rfl
    · rfl
  | closeMark sid =>
    simp only [step, closeMark, sweep_cfg, eraseMode_cfg, markClosed_cfg]
  | closeCbs sid => rfl
  | setMode sid m =>
    simp only [step, setMode]
    split
    · rfl
    · split
      · rfl
      · split
        · cases m <;> simp [setBuf] <;> split <;> rfl
        · split <;> rfl
  | recv sid len =>
    simp only [step, recv]
    split
    · rfl
    · split
      · rfl
      · split
        · rfl
        · split <;> rfl

/-- the ghost is set by the callback half of the close handler and by nothing else -/
theorem step_closedH (t : T) (op : Op) (s : Sid) :
    (step t op).1.closedH s = (t.closedH s || (match op with | .closeCbs x => x == s | _ => false)) := by
  cases op with
  | engAccept sid => simp [step]
  | engConnect sid => simp [step]
  | engData sid b =>
    simp only [step, onData]
    split
    · split
      · simp
      · split
        · simp
        · split <;> simp [setBuf]
    · simp
    · simp
  | closeMark sid =>
    simp only [step, closeMark, sweep_closedH, eraseMode_closedH, markClosed_closedH, Bool.or_false]
  | closeCbs sid =>
    simp only [step, closeCbs]
    by_cases h : s = sid
    · subst h; simp
    · have h' : (sid == s) = false := by simp; exact fun e => h e.symm
      simp only [upd_other _ _ _ _ h, h', Bool.or_false]
  | setMode sid m =>
    simp only [step, setMode]
    split
    · simp
    · split
      · simp
      · split
        · cases m <;> simp [setBuf] <;> split <;> simp
        · split <;> simp [setBuf]
  | recv sid len =>
    simp only [step, recv]
    split
    · simp [setBuf]
    · split
      · simp [setBuf]
      · split
        · simp [setBuf]
        · split <;> simp [eraseBuf]

/-- the ghost is set by the syncMutex half of the close handler and by nothing else -/
theorem step_marked (t : T) (op : Op) (s : Sid) :
    (step t op).1.marked s = (t.marked s || (match op with | .closeMark x => x == s | _ => false)) := by
  cases op with
  | engAccept sid => simp [step]
  | engConnect sid => simp [step]
  | engData sid b =>
    simp only [step, onData]
    split
    · split
      · simp
      · split
        · simp
        · split <;> simp [setBuf]
    · simp
    · simp
  | closeCbs sid => simp [step, closeCbs]
  | closeMark sid =>
    simp only [step, closeMark]
    by_cases h : s = sid
    · subst h; simp
    · have h' : (sid == s) = false := by simp; exact fun e => h e.symm
      simp only [upd_other _ _ _ _ h, h', Bool.or_false, sweep_marked, eraseMode_marked, markClosed_marked]
  | setMode sid m =>
    simp only [step, setMode]
    split
    · simp
    · split
      · simp
      · split
        · cases m <;> simp [setBuf] <;> split <;> simp
        · split <;> simp [setBuf]
  | recv sid len =>
    simp only [step, recv]
    split
    · simp [setBuf]
    · split
      · simp [setBuf]
      · split
        · simp [setBuf]
        · split <;> simp [eraseBuf]

/-! ### what an op does to ANOTHER session's mode and buffer -/

theorem safe_congr {t t' : T} {s : Sid} (hm : t'.modes s = t.modes s) (hb : t'.bufs s = t.bufs s) (h : Safe t s) : Safe t' s := by
  unfold Safe tomb bufData at *
  rw [hm, hb]; exact h

theorem safe_none {t' : T} {s : Sid} (hb : t'.bufs s = none) : Safe t' s := by
  right; simp [bufData, hb]

theorem onData_other (sid : Sid) (b : Bytes) (t : T) (s : Sid) (h : s ≠ sid) :
    (onData sid b t).1.modes s = t.modes s ∧ (onData sid b t).1.bufs s = t.bufs s := by
  simp only [onData]
  split
  · split
    · simp
    · split
      · simp
      · split <;> simp [setBuf, h]
  · simp
  · simp

theorem setMode_other (sid : Sid) (m : Mode) (t : T) (s : Sid) (h : s ≠ sid) :
    (setMode sid m t).1.modes s = t.modes s ∧ (setMode sid m t).1.bufs s = t.bufs s := by
  simp only [setMode]
  split
  · simp
  · split
    · simp
    · split
      · cases m <;> simp [setBuf, h] <;> split <;> simp [h]
      · split <;> simp [setBuf, h]

theorem recv_other (sid : Sid) (len : Nat) (t : T) (s : Sid) (h : s ≠ sid) :
    (recv sid len t).1.modes s = t.modes s ∧ (recv sid len t).1.bufs s = t.bufs s := by
  simp only [recv]
  split
  · simp [setBuf, h]
  · split
    · simp [setBuf, h]
    · split
      · simp [setBuf, h]
      · split <;> simp [eraseBuf, h]

theorem markClosed_modes (sid : Sid) (t : T) : (markClosed sid t).modes = t.modes := by
  unfold markClosed; split <;> rfl
theorem markClosed_bufs_other (sid : Sid) (t : T) (s : Sid) (h : s ≠ sid) : (markClosed sid t).bufs s = t.bufs s := by
  unfold markClosed; split <;> simp [setBuf, h]
theorem markClosed_tomb (sid : Sid) (t : T) : tomb (markClosed sid t) sid = true := by
  unfold markClosed
  cases t.bufs sid <;> simp [tomb, setBuf]
theorem eraseMode_bufs (sid : Sid) (t : T) : (eraseMode sid t).bufs = t.bufs := by
  unfold eraseMode; split <;> rfl
theorem eraseMode_modes_other (sid : Sid) (t : T) (s : Sid) (h : s ≠ sid) : (eraseMode sid t).modes s = t.modes s := by
  unfold eraseMode; split <;> simp [h]
theorem eraseMode_modes_same (sid : Sid) (t : T) (he : t.cfg.eraseAlways = true) : (eraseMode sid t).modes sid = none := by
  unfold eraseMode; simp [he]
theorem sweep_modes (sid : Sid) (t : T) : (sweep sid t).modes = t.modes := by
  unfold sweep gc; split <;> rfl
theorem sweep_bufs_same (sid : Sid) (t : T) : (sweep sid t).bufs sid = t.bufs sid := by
  unfold sweep gc; split <;> simp [dead]
theorem sweep_bufs (sid : Sid) (t : T) (s : Sid) : (sweep sid t).bufs s = t.bufs s ∨ (sweep sid t).bufs s = none := by
  unfold sweep gc; split
  · simp only []; split
    · right; rfl
    · left; rfl
  · left; rfl

theorem closeMark_other (sid : Sid) (t : T) (s : Sid) (h : s ≠ sid) :
    (closeMark sid t).1.modes s = t.modes s ∧ ((closeMark sid t).1.bufs s = t.bufs s ∨ (closeMark sid t).1.bufs s = none) := by
  simp only [closeMark, sweep_modes, eraseMode_modes_other _ _ _ h, markClosed_modes, true_and]
  rcases sweep_bufs sid (eraseMode sid (markClosed sid t)) s with h1 | h1
  · left; rw [h1, eraseMode_bufs, markClosed_bufs_other _ _ _ h]
  · right; exact h1

/-- after the syncMutex block of its close handler (unconditional erase) the session has no mode and its buffer is a closed tombstone -/
theorem closeMark_same (sid : Sid) (t : T) (he : t.cfg.eraseAlways = true) :
    (closeMark sid t).1.modes sid = none ∧ tomb (closeMark sid t).1 sid = true := by
  constructor
  · simp only [closeMark, sweep_modes]
    exact eraseMode_modes_same sid _ (by simpa using he)
  · have h := markClosed_tomb sid t
    unfold tomb at *
    simp only [closeMark, sweep_bufs_same, eraseMode_bufs]
    exact h

/-! ### the same session -/

/-- setReadMode on a session that is Safe leaves it Safe (the tombstone guard makes the call vacuous; otherwise nothing is buffered) -/
theorem setMode_safe (sid : Sid) (m : Mode) (t : T) (hg : t.cfg.tombGuard = true) (h : Safe t sid) : Safe (setMode sid m t).1 sid := by
  rcases h with ⟨hm, ht⟩ | hd
  · have : (setMode sid m t).1 = t := by
      simp only [setMode]
      split
      · rfl
      · simp [hg, ht]
    rw [this]; exact Or.inl ⟨hm, ht⟩
  · right
    simp only [setMode]
    split
    · exact hd
    · split
      · exact hd
      · split
        · cases m <;> simp only [] <;> (try exact hd)
          all_goals (
            unfold bufData at hd ⊢
            cases hb : t.bufs sid <;> simp_all [setBuf])
        · cases hb : t.bufs sid
          · simp [bufData, hb]
          · simp [bufData, setBuf]

theorem recv_safe (sid : Sid) (len : Nat) (t : T) (h : Safe t sid) : Safe (recv sid len t).1 sid := by
  unfold recv
  cases hb : t.bufs sid with
  | none => right; simp [bufData, setBuf]
  | some b =>
    simp only []
    split
    · rcases h with ⟨hm, ht⟩ | hd
      · left
        refine ⟨by simpa [setBuf] using hm, ?_⟩
        simp [tomb, hb] at ht
        simp [tomb, setBuf, ht]
      · simp [bufData, hb] at hd
        simp_all
    · rename_i hne
      split
      · right
        simp [bufData, setBuf]
        simpa using hne
      · split
        · right; simp [bufData, eraseBuf]
        · exact h

/-- one step keeps every marked id Safe -/
theorem step_inv (t : T) (op : Op) (hs : SoundState t.cfg) (hok : okOp t op) (hi : Inv t) : Inv (step t op).1 := by
  intro s hc
  rw [step_marked] at hc
  cases op with
  | engAccept sid => exact hi s (by simpa using hc)
  | engConnect sid => exact hi s (by simpa using hc)
  | engData sid b =>
    have hc' : t.marked s = true := by simpa using hc
    have hne : s ≠ sid := by
      intro e; subst e; have h0 := hok.1; simp [engOk] at h0; rw [h0.2] at hc'; cases hc'
    have h := onData_other sid b t s hne
    exact safe_congr h.1 h.2 (hi s hc')
  | closeMark sid =>
    by_cases e : s = sid
    · subst e
      exact Or.inl (closeMark_same s t hs.1)
    · have hc' : t.marked s = true := by
        have : (sid == s) = false := by simp; exact fun x => e x.symm
        simpa [this] using hc
      have h := closeMark_other sid t s e
      rcases h.2 with h2 | h2
      · exact safe_congr h.1 h2 (hi s hc')
      · exact safe_none h2
  | closeCbs sid =>
    have hc' : t.marked s = true := by simpa using hc
    exact safe_congr (t := t) rfl rfl (hi s hc')
  | setMode sid m =>
    have hc' : t.marked s = true := by simpa using hc
    by_cases e : s = sid
    · subst e; exact setMode_safe s m t hs.2 (hi s hc')
    · have h := setMode_other sid m t s e
      exact safe_congr h.1 h.2 (hi s hc')
  | recv sid len =>
    have hc' : t.marked s = true := by simpa using hc
    by_cases e : s = sid
    · subst e; exact recv_safe s len t (hi s hc')
    · have h := recv_other sid len t s e
      exact safe_congr h.1 h.2 (hi s hc')

/-- one step delivers nothing for an id whose close handler has run -/
theorem step_nodel (t : T) (op : Op) (hs : SoundState t.cfg) (hok : okOp t op) (s : Sid) (hc : t.closedH s = true) (hi : Inv t) :
    NoDel s (step t op).2 := by
  intro e he
  rcases hok.2 s hc with hm | hcm
  case inr => subst hcm; simp [step, closeMark] at he
  have hsafe : Safe t s := hi s hm
  have hok := hok.1
  cases op with
  | engAccept sid =>
    simp [step] at he; subst he
    simp [engOk] at hok
    intro h; simp [delFor] at h; subst h; rw [hok.1] at hc; cases hc
  | engConnect sid =>
    simp [step] at he; subst he
    simp [engOk] at hok
    intro h; simp [delFor] at h; subst h; rw [hok.1] at hc; cases hc
  | engData sid b =>
    simp [engOk] at hok
    have hne : sid ≠ s := by intro x; subst x; rw [hok.1] at hc; cases hc
    simp only [step, onData] at he
    split at he
    · split at he
      · cases he
      · split at he
        · cases he
        · split at he <;> cases he
    · cases he
    · simp only [dataCb] at he
      split at he
      · simp at he; subst he; simpa [delFor] using hne
      · cases he
  | closeMark sid => simp [step, closeMark] at he
  | closeCbs sid =>
    simp [step, closeCbs] at he; subst he; simp [delFor]
  | recv sid len =>
    simp only [step, recv] at he
    split at he
    · simp at he; subst he; simp [delFor]
    · split at he
      · simp at he; subst he; simp [delFor]
      · split at he
        · simp at he; subst he; simp [delFor]
        · split at he <;> (simp at he; subst he; simp [delFor])
  | setMode sid m =>
    simp only [step, setMode] at he
    split at he
    · simp at he; subst he; simp [delFor]
    · split at he
      · simp at he; subst he; simp [delFor]
      · rename_i hguard
        split at he
        · simp at he; subst he; simp [delFor]
        · split at he
          · simp at he; subst he; simp [delFor]
          · rename_i b hb
            by_cases x : sid = s
            · subst x
              -- the flush of a closed id: not a tombstone (the guard let it through), so nothing is buffered
              have hd : b.data = [] := by
                rcases hsafe with ⟨_, ht⟩ | hd
                · simp [hs.2, ht] at hguard
                · simpa [bufData, hb] using hd
              simp [hd] at he; subst he; simp [delFor]
            · simp only [dataCb, List.mem_append] at he
              rcases he with he | he
              · split at he
                · cases he
                · split at he
                  · simp at he; subst he; simpa [delFor] using x
                  · cases he
              · simp at he; subst he; simp [delFor]

/-! ### histories -/

theorem inv_init (cfg : Cfg) : Inv (init cfg) := by
  intro s h; simp [init] at h

theorem closedH_mono (t : T) (op : Op) (s : Sid) (h : t.closedH s = true) : (step t op).1.closedH s = true := by
  rw [step_closedH, h]; rfl

theorem noDel_append {s : Sid} {a b : List Out} (ha : NoDel s a) (hb : NoDel s b) : NoDel s (a ++ b) := by
  intro e he
  rcases List.mem_append.mp he with h | h
  · exact ha e h
  · exact hb e h

theorem traceOk_append {a b : List Out} (ha : TraceOk a) (hb : TraceOk b)
    (hab : ∀ s, Out.closeH s ∈ a → NoDel s b) : TraceOk (a ++ b) := by
  induction a with
  | nil => simpa using hb
  | cons e r ih =>
    simp only [List.cons_append, TraceOk]
    refine ⟨?_, ih ha.2 (fun s hs => hab s (List.mem_cons_of_mem _ hs))⟩
    intro s he
    exact noDel_append (ha.1 s he) (hab s (by simp [he]))

/-- split form of `TraceOk` -/
theorem traceOk_split {tr : List Out} (h : TraceOk tr) (pre : List Out) (s : Sid) (post : List Out)
    (hsplit : tr = pre ++ Out.closeH s :: post) : NoDel s post := by
  induction pre generalizing tr with
  | nil => subst hsplit; exact h.1 s rfl
  | cons e r ih => subst hsplit; exact ih h.2 rfl

/-- the only step that emits a close marker is the close handler, it emits exactly that marker, and afterwards the ghost is set -/
theorem step_closeH (t : T) (op : Op) (s : Sid) (h : Out.closeH s ∈ (step t op).2) :
    (step t op).2 = [Out.closeH s] ∧ (step t op).1.closedH s = true := by
  cases op with
  | engAccept sid => simp [step] at h
  | engConnect sid => simp [step] at h
  | engData sid b =>
    simp only [step, onData] at h
    split at h
    · split at h
      · cases h
      · split at h
        · cases h
        · split at h <;> cases h
    · cases h
    · simp only [dataCb] at h; split at h <;> simp at h
  | closeMark sid => simp [step, closeMark] at h
  | closeCbs sid =>
    have e : sid = s := by
      have : s = sid := by simpa [step, closeCbs] using h
      exact this.symm
    subst e
    exact ⟨by simp [step, closeCbs], by rw [step_closedH]; simp⟩
  | setMode sid m =>
    simp only [step, setMode] at h
    split at h
    · simp at h
    · split at h
      · simp at h
      · split at h
        · simp at h
        · split at h
          · simp at h
          · simp only [dataCb, List.mem_append] at h
            rcases h with h | h
            · split at h
              · cases h
              · split at h <;> simp at h
            · simp at h
  | recv sid len =>
    simp only [step, recv] at h
    split at h
    · simp at h
    · split at h
      · simp at h
      · split at h
        · simp at h
        · split at h <;> simp at h

theorem run_nodel (ops : List Op) : ∀ (t : T), SoundState t.cfg → Valid t ops → Inv t → ∀ s, t.closedH s = true → NoDel s (run t ops) := by
  induction ops with
  | nil => intro t _ _ _ s _ e he; cases he
  | cons op r ih =>
    intro t hs hv hi s hc
    simp only [run]
    refine noDel_append (step_nodel t op hs hv.1 s hc hi) ?_
    exact ih _ (by rw [step_cfg]; exact hs) hv.2 (step_inv t op hs hv.1 hi) s (closedH_mono t op s hc)

theorem run_traceOk (ops : List Op) : ∀ (t : T), SoundState t.cfg → Valid t ops → Inv t → TraceOk (run t ops) := by
  induction ops with
  | nil => intro t _ _ _; trivial
  | cons op r ih =>
    intro t hs hv hi
    simp only [run]
    have hs' : SoundState (step t op).1.cfg := by rw [step_cfg]; exact hs
    have hi' := step_inv t op hs hv.1 hi
    refine traceOk_append ?_ (ih _ hs' hv.2 hi') ?_
    · -- one step's outputs: a lone close marker, or no marker at all
      by_cases hm : ∃ s, Out.closeH s ∈ (step t op).2
      · obtain ⟨s, h⟩ := hm
        rw [(step_closeH t op s h).1]
        show (∀ s', Out.closeH s = Out.closeH s' → NoDel s' []) ∧ TraceOk []
        exact ⟨fun _ _ e he => (nomatch he), trivial⟩
      · have : ∀ l : List Out, (∀ s, Out.closeH s ∉ l) → TraceOk l := by
          intro l; induction l with
          | nil => intro _; trivial
          | cons e r ih2 =>
            intro hl
            refine ⟨fun s he => absurd (by simp [he]) (hl s), ih2 (fun s hs2 => hl s (List.mem_cons_of_mem _ hs2))⟩
        exact this _ (fun s h => hm ⟨s, h⟩)
    · intro s h
      exact run_nodel r _ hs' hv.2 hi' s (step_closeH t op s h).2

/-! ### the engine contract and the handler order, stated on the op list alone -/

theorem step_closedH_iff (t : T) (op : Op) (s : Sid) : (step t op).1.closedH s = true ↔ t.closedH s = true ∨ op = .closeCbs s := by
  rw [step_closedH]; cases op <;> simp

theorem step_marked_iff (t : T) (op : Op) (s : Sid) : (step t op).1.marked s = true ↔ t.marked s = true ∨ op = .closeMark s := by
  rw [step_marked]; cases op <;> simp

/-- the id an engine-originated accept / connect / data op is for -/
def engSid : Op → Option Sid
  | .engAccept s => some s
  | .engConnect s => some s
  | .engData s _ => some s
  | _ => none

/-- "nothing for an id after its close" on the engine side (what T3_nothing_after_close proves of both engines): the engine reports
no accept / connect / data for an id once it has entered the close handler of that id (either half of the handler has run) -/
def EngineContract (ops : List Op) : Prop :=
  ∀ pre o post, ops = pre ++ o :: post → ∀ s, engSid o = some s → Op.closeMark s ∉ pre ∧ Op.closeCbs s ∉ pre

/-- nothing happens inside the window of a callbacks-first handler run: at every op, an id whose close callbacks have been started
has been marked closed too - unless the op is that very mark -/
def WindowEmpty (ops : List Op) : Prop :=
  ∀ pre o post, ops = pre ++ o :: post → ∀ s, Op.closeCbs s ∈ pre → Op.closeMark s ∈ pre ∨ o = Op.closeMark s

/-- the mark-first order, as a property of splits: the callbacks of an id start only after its mark -/
def MarkBeforeCbs (ops : List Op) : Prop :=
  ∀ pre o post, ops = pre ++ o :: post → ∀ s, o = Op.closeCbs s → Op.closeMark s ∈ pre

theorem valid_of_contract (ops : List Op) : ∀ (t : T),
    (∀ pre o post, ops = pre ++ o :: post → ∀ s, engSid o = some s →
      (t.closedH s = false ∧ t.marked s = false) ∧ Op.closeMark s ∉ pre ∧ Op.closeCbs s ∉ pre) →
    (∀ pre o post, ops = pre ++ o :: post → ∀ s, (t.closedH s = true ∨ Op.closeCbs s ∈ pre) →
      (t.marked s = true ∨ Op.closeMark s ∈ pre) ∨ o = Op.closeMark s) → Valid t ops := by
  induction ops with
  | nil => intro _ _ _; trivial
  | cons op r ih =>
    intro t h1 h2
    refine ⟨⟨?_, ?_⟩, ih _ ?_ ?_⟩
    · have h0 := h1 [] op r rfl
      cases op <;> simp [engOk] <;> first | exact (h0 _ rfl).1 | skip
    · intro s hc
      rcases h2 [] op r rfl s (Or.inl hc) with (h | h) | h
      · exact Or.inl h
      · cases h
      · exact Or.inr h
    · intro pre o post hr s hs
      have h := h1 (op :: pre) o post (by rw [hr]; rfl) s hs
      have hnm : op ≠ Op.closeMark s := fun e => h.2.1 (by simp [e])
      have hnc : op ≠ Op.closeCbs s := fun e => h.2.2 (by simp [e])
      refine ⟨⟨?_, ?_⟩, fun hm => h.2.1 (List.mem_cons_of_mem _ hm), fun hm => h.2.2 (List.mem_cons_of_mem _ hm)⟩
      · cases hx : (step t op).1.closedH s with
        | false => rfl
        | true =>
          rcases (step_closedH_iff t op s).mp hx with h' | h'
          · rw [h.1.1] at h'; cases h'
          · exact absurd h' hnc
      · cases hx : (step t op).1.marked s with
        | false => rfl
        | true =>
          rcases (step_marked_iff t op s).mp hx with h' | h'
          · rw [h.1.2] at h'; cases h'
          · exact absurd h' hnm
    · intro pre o post hr s hc
      have hc' : t.closedH s = true ∨ Op.closeCbs s ∈ op :: pre := by
        rcases hc with hc | hc
        · rcases (step_closedH_iff t op s).mp hc with h | h
          · exact Or.inl h
          · exact Or.inr (by simp [h])
        · exact Or.inr (List.mem_cons_of_mem _ hc)
      rcases h2 (op :: pre) o post (by rw [hr]; rfl) s hc' with (h | h) | h
      · exact Or.inl (Or.inl ((step_marked_iff t op s).mpr (Or.inl h)))
      · rcases List.mem_cons.mp h with h | h
        · exact Or.inl (Or.inl ((step_marked_iff t op s).mpr (Or.inr h.symm)))
        · exact Or.inl (Or.inr h)
      · exact Or.inr h

theorem valid_init_of_contract (cfg : Cfg) (ops : List Op) (h : EngineContract ops) (hw : WindowEmpty ops) : Valid (init cfg) ops :=
  valid_of_contract ops (init cfg) (fun pre o post hsplit s hs => ⟨⟨rfl, rfl⟩, h pre o post hsplit s hs⟩)
    (fun pre o post hsplit s hc => by
      rcases hc with hc | hc
      · simp [init] at hc
      · rcases hw pre o post hsplit s hc with h | h
        · exact Or.inl (Or.inr h)
        · exact Or.inr h)

/-- a history of the mark-first order has no window -/
theorem windowEmpty_of_markBefore (ops : List Op) (h : MarkBeforeCbs ops) : WindowEmpty ops := by
  intro pre o post hsplit s hc
  obtain ⟨p1, p2, hp⟩ := List.append_of_mem hc
  left
  have := h p1 (Op.closeCbs s) (p2 ++ o :: post) (by rw [hsplit, hp]; simp) s rfl
  rw [hp]; exact List.mem_append_left _ this

theorem markBefore_of_orderB (ops : List Op) : ∀ seen, orderB true seen ops = true →
    ∀ pre o post, ops = pre ++ o :: post → ∀ s, o = Op.closeCbs s → s ∈ seen ∨ Op.closeMark s ∈ pre := by
  induction ops with
  | nil => intro _ _ pre o post h; cases pre <;> cases h
  | cons op r ih =>
    intro seen hb pre o post h s ho
    cases pre with
    | nil =>
      simp only [List.nil_append, List.cons.injEq] at h
      obtain ⟨rfl, _⟩ := h
      subst ho
      simp [orderB] at hb
      exact Or.inl hb.1
    | cons p pre' =>
      simp only [List.cons_append, List.cons.injEq] at h
      obtain ⟨rfl, h2⟩ := h
      cases op with
      | closeMark x =>
        simp [orderB] at hb
        rcases ih _ hb pre' o post h2 s ho with h3 | h3
        · rcases List.mem_cons.mp h3 with e | e
          · right; simp [e]
          · left; exact e
        · right; exact List.mem_cons_of_mem _ h3
      | closeCbs x =>
        simp [orderB] at hb
        rcases ih _ hb.2 pre' o post h2 s ho with h3 | h3
        · left; exact h3
        · right; exact List.mem_cons_of_mem _ h3
      | engAccept x =>
        simp [orderB] at hb
        rcases ih _ hb pre' o post h2 s ho with h3 | h3
        · left; exact h3
        · right; exact List.mem_cons_of_mem _ h3
      | engConnect x =>
        simp [orderB] at hb
        rcases ih _ hb pre' o post h2 s ho with h3 | h3
        · left; exact h3
        · right; exact List.mem_cons_of_mem _ h3
      | engData x b =>
        simp [orderB] at hb
        rcases ih _ hb pre' o post h2 s ho with h3 | h3
        · left; exact h3
        · right; exact List.mem_cons_of_mem _ h3
      | setMode x m =>
        simp [orderB] at hb
        rcases ih _ hb pre' o post h2 s ho with h3 | h3
        · left; exact h3
        · right; exact List.mem_cons_of_mem _ h3
      | recv x n =>
        simp [orderB] at hb
        rcases ih _ hb pre' o post h2 s ho with h3 | h3
        · left; exact h3
        · right; exact List.mem_cons_of_mem _ h3

theorem markBefore_of_order (ops : List Op) (h : HandlerOrder true ops) : MarkBeforeCbs ops :=
  fun pre o post hsplit s ho => (markBefore_of_orderB ops [] h pre o post hsplit s ho).resolve_left (by simp)

theorem windowEmpty_of_order (ops : List Op) (h : HandlerOrder true ops) : WindowEmpty ops :=
  windowEmpty_of_markBefore ops (markBefore_of_order ops h)

theorem runState_inv (ops : List Op) : ∀ (t : T), SoundState t.cfg → Valid t ops → Inv t → Inv (runState t ops) := by
  induction ops with
  | nil => intro t _ _ hi; exact hi
  | cons op r ih =>
    intro t hs hv hi
    exact ih _ (by rw [step_cfg]; exact hs) hv.2 (step_inv t op hs hv.1 hi)

theorem runState_safe (ops : List Op) (t : T) (hs : SoundState t.cfg) (hv : Valid t ops) (hi : Inv t) (s : Sid)
    (hc : (runState t ops).marked s = true) : Safe (runState t ops) s :=
  runState_inv ops t hs hv hi s hc

/-- the ghosts after a history: set exactly for the ids whose close callbacks have been started / whose buffer has been marked -/
theorem runState_closedH (ops : List Op) : ∀ (t : T) (s : Sid),
    (runState t ops).closedH s = true ↔ (t.closedH s = true ∨ Op.closeCbs s ∈ ops) := by
  induction ops with
  | nil => intro t s; simp [runState]
  | cons op r ih =>
    intro t s
    simp only [runState]
    rw [ih, step_closedH_iff]
    constructor
    · rintro ((h | h) | h)
      · exact Or.inl h
      · exact Or.inr (by simp [h])
      · exact Or.inr (List.mem_cons_of_mem _ h)
    · rintro (h | h)
      · exact Or.inl (Or.inl h)
      · rcases List.mem_cons.mp h with e | e
        · exact Or.inl (Or.inr e.symm)
        · exact Or.inr e

theorem runState_marked (ops : List Op) : ∀ (t : T) (s : Sid),
    (runState t ops).marked s = true ↔ (t.marked s = true ∨ Op.closeMark s ∈ ops) := by
  induction ops with
  | nil => intro t s; simp [runState]
  | cons op r ih =>
    intro t s
    simp only [runState]
    rw [ih, step_marked_iff]
    constructor
    · rintro ((h | h) | h)
      · exact Or.inl h
      · exact Or.inr (by simp [h])
      · exact Or.inr (List.mem_cons_of_mem _ h)
    · rintro (h | h)
      · exact Or.inl (Or.inl h)
      · rcases List.mem_cons.mp h with e | e
        · exact Or.inl (Or.inr e.symm)
        · exact Or.inr e

/-- in a mark-first history an id whose close callbacks have run has been marked -/
theorem mark_mem_of_cbs_mem (ops : List Op) (h : MarkBeforeCbs ops) (s : Sid) (hc : Op.closeCbs s ∈ ops) : Op.closeMark s ∈ ops := by
  obtain ⟨p1, p2, hp⟩ := List.append_of_mem hc
  have := h p1 _ p2 hp s rfl
  rw [hp]; exact List.mem_append_left _ this

/-- a decision procedure for the contract: `cl` = ids whose close handler the engine has entered so far -/
def contractB : List Sid → List Op → Bool
  | _, [] => true
  | cl, op :: r =>
    (match engSid op with | some s => !cl.contains s | none => true) &&
      contractB (match op with | .closeMark s => s :: cl | .closeCbs s => s :: cl | _ => cl) r

theorem contract_of_contractB (ops : List Op) : ∀ cl, contractB cl ops = true →
    ∀ pre o post, ops = pre ++ o :: post → ∀ s, engSid o = some s → s ∉ cl ∧ Op.closeMark s ∉ pre ∧ Op.closeCbs s ∉ pre := by
  induction ops with
  | nil => intro cl _ pre o post h; cases pre <;> cases h
  | cons op r ih =>
    intro cl hb pre o post h s hs
    simp only [contractB, Bool.and_eq_true] at hb
    cases pre with
    | nil =>
      simp only [List.nil_append, List.cons.injEq] at h
      obtain ⟨rfl, _⟩ := h
      rw [hs] at hb
      exact ⟨by simpa using hb.1, by simp, by simp⟩
    | cons p pre' =>
      simp only [List.cons_append, List.cons.injEq] at h
      obtain ⟨rfl, h2⟩ := h
      have h3 := ih _ hb.2 pre' o post h2 s hs
      cases op with
      | closeMark x =>
        simp only [List.mem_cons, not_or] at h3
        exact ⟨h3.1.2, by simp only [List.mem_cons, Op.closeMark.injEq, not_or]; exact ⟨h3.1.1, h3.2.1⟩, by simpa using h3.2.2⟩
      | closeCbs x =>
        simp only [List.mem_cons, not_or] at h3
        exact ⟨h3.1.2, by simpa using h3.2.1, by simp only [List.mem_cons, Op.closeCbs.injEq, not_or]; exact ⟨h3.1.1, h3.2.2⟩⟩
      | engAccept x => exact ⟨h3.1, by simpa using h3.2.1, by simpa using h3.2.2⟩
      | engConnect x => exact ⟨h3.1, by simpa using h3.2.1, by simpa using h3.2.2⟩
      | engData x b => exact ⟨h3.1, by simpa using h3.2.1, by simpa using h3.2.2⟩
      | setMode x m => exact ⟨h3.1, by simpa using h3.2.1, by simpa using h3.2.2⟩
      | recv x n => exact ⟨h3.1, by simpa using h3.2.1, by simpa using h3.2.2⟩

theorem contract_of_check (ops : List Op) (h : contractB [] ops = true) : EngineContract ops :=
  fun pre o post hsplit s hs => (contract_of_contractB ops [] h pre o post hsplit s hs).2

end Iora.Deliver
