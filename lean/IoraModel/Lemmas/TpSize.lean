import IoraModel.Lemmas.TpAll
/-!
# C09 — P6: the pool never registers more workers than `_maxSize` (the clamped value `Cfg.effMax`)

The constructor spawns `initialSize` workers unconditionally; afterwards a worker is created only by a submitter that saw
`_threads.size() < _maxSize` in the same critical section.  While the constructor runs nobody else can submit (no other
thread has the pool yet): all other threads are idle workers.
-/
namespace Iora.ThreadPool

/-- constructor spawns still to come -/
def ctorRem : Thread → Nat
  | .main .start r => r.ctor
  | .main .cL r => r.ctor
  | .main .cC r => r.ctor
  | .main .cU r => r.ctor - 1
  | _ => 0

def ctorOk : Thread → Prop
  | .main .cL r => 1 ≤ r.ctor
  | .main .cC r => 1 ≤ r.ctor
  | .main .cU r => 1 ≤ r.ctor
  | _ => True

def inCtor : Thread → Bool
  | .main pc _ => ctorPc pc
  | _ => false

/-- a worker with nothing in hand and not inside a task -/
def idleW : Thread → Bool
  | .worker .start | .worker .lock | .worker .waitReady | .worker .asleep | .worker (.woken _) | .worker .unlockCont
  | .worker .detach | .worker .unlockExit | .worker .done => true
  | _ => false

def isCC : MPc → Nat
  | .cC => 1
  | _ => 0

theorem nctor_rem (pc : MPc) (r : MRegs) (h : ctorPc pc = false) : ctorRem (.main pc r) = 0 ∧ ctorOk (.main pc r) := by
  cases pc <;> simp [ctorPc] at h <;> simp [ctorRem, ctorOk]

theorem inCtor_false_rem (th : Thread) (h : inCtor th = false) : ctorRem th = 0 := by
  cases th with
  | main pc r => exact (nctor_rem pc r h).1
  | sub x => rfl
  | worker x => rfl

/-- the controller's step and the constructor bookkeeping -/
theorem transM_ctor (cfg : Cfg) (sh : Shared) (n t : Nat) (pc : MPc) (r : MRegs) (alt : Nat) (hok : ctorOk (.main pc r)) :
    ctorOk (.main (transM cfg sh n t pc r alt).2.1.1 (transM cfg sh n t pc r alt).2.1.2) ∧
    ctorRem (.main (transM cfg sh n t pc r alt).2.1.1 (transM cfg sh n t pc r alt).2.1.2) + isCC pc ≤ ctorRem (.main pc r) ∧
    (ctorPc (transM cfg sh n t pc r alt).2.1.1 = true → ctorPc pc = true) := by
  have plain : ∀ (pc' : MPc) (r' : MRegs), ctorPc pc' = false → isCC pc = 0 →
      ctorOk (.main pc' r') ∧ ctorRem (.main pc' r') + isCC pc ≤ ctorRem (.main pc r) ∧ (ctorPc pc' = true → ctorPc pc = true) := by
    intro pc' r' h hne
    have := nctor_rem pc' r' h
    refine ⟨this.2, by rw [this.1, hne]; simp, by rw [h]; intro e; cases e⟩
  cases pc with
  | start =>
    simp only [transM]
    split
    · next h0 => simp [ctorOk, ctorRem, ctorPc, isCC]
    · next h0 => simp [ctorOk, ctorRem, ctorPc, isCC]; omega
  | cL => simp only [transM]; simp [ctorOk, ctorRem, ctorPc, isCC] at hok ⊢; exact hok
  | cC => simp only [transM]; simp [ctorOk, ctorRem, ctorPc, isCC] at hok ⊢; omega
  | cU =>
    simp only [transM]
    simp [ctorOk] at hok
    split
    · simp [ctorOk, ctorRem, ctorPc, isCC]
    · simp [ctorOk, ctorRem, ctorPc, isCC]; omega
  | inCall c =>
    simp only [transM]
    cases hx : (callStep cfg sh n t c).2.1 <;> exact plain _ _ (by simp [ctorPc]) (by rfl)
  | mYield => simp only [transM]; exact plain _ _ (stepMYield_nctor cfg sh r) (by rfl)
  | dInfU => simp only [transM]; exact plain _ _ (pollHead_nctor _ _ _) (by rfl)
  | pollZ k => simp only [transM]; exact plain _ _ (pollHead_nctor _ _ _) (by rfl)
  | p2Grace => simp only [transM]; exact plain _ _ (pollHead_nctor _ _ _) (by rfl)
  | p5U => simp only [transM]; exact plain _ _ (dtorReturn_nctor { sh with owner := none } r) (by rfl)
  | pollU k =>
    simp only [transM]; split
    · exact plain _ _ (pollExit_nctor _ _ _ _) (by rfl)
    · exact plain _ _ (by simp [ctorPc]) (by rfl)
  | finU k =>
    cases k <;> simp only [transM]
    · exact plain _ _ (drainReturn_nctor { sh with owner := none } r false) (by rfl)
    all_goals exact plain _ _ (by simp [ctorPc]) (by rfl)
  | sFlagUA ep =>
    simp only [transM]; split
    · exact plain _ _ (dtorEarly_nctor { sh with owner := none } r) (by rfl)
    · split
      · exact plain _ _ (shutdownReturn_nctor { sh with owner := none } r) (by rfl)
      · exact plain _ _ (by simp [ctorPc]) (by rfl)
  | sDoneZ ep =>
    simp only [transM]; split
    · exact plain _ _ (shutdownReturn_nctor sh r) (by rfl)
    · exact plain _ _ (by simp [ctorPc]) (by rfl)
  | sBcast =>
    simp only [transM]; split
    · exact plain _ _ (by simp [ctorPc]) (by rfl)
    · exact plain _ _ (pollHead_nctor _ _ _) (by rfl)
  | sChkU =>
    simp only [transM]; split
    · exact plain _ _ (pollHead_nctor _ _ _) (by rfl)
    · exact plain _ _ (by simp [ctorPc]) (by rfl)
  | jUnone =>
    simp only [transM]; split
    · exact plain _ _ (by simp [ctorPc]) (by rfl)
    · exact plain _ _ (shutdownReturn_nctor _ r) (by rfl)
  | p2Z =>
    simp only [transM]; split
    · exact plain _ _ (by simp [ctorPc]) (by rfl)
    · split
      · exact plain _ _ (by simp [ctorPc]) (by rfl)
      · exact plain _ _ (pollHead_nctor _ _ _) (by rfl)
  | _ => simp only [transM] <;> (repeat' split) <;> exact plain _ _ (by simp [ctorPc]) (by rfl)

/-- constructor steps do not touch the queue or the shutdown flag, and spawn only idle workers -/
theorem transM_ctor_quiet (cfg : Cfg) (sh : Shared) (n t : Nat) (pc : MPc) (r : MRegs) (alt : Nat) (h : ctorPc pc = true) :
    (transM cfg sh n t pc r alt).1.tasks = sh.tasks ∧ (transM cfg sh n t pc r alt).1.shutdown = sh.shutdown ∧
    (∀ nt, (transM cfg sh n t pc r alt).2.2 = .spawn nt → idleW nt = true) := by
  cases pc <;> simp [ctorPc] at h <;> simp only [transM] <;> (try split) <;> simp [idleW, newWorker]

theorem afterWait_idle (cfg : Cfg) (sh : Shared) (t : Tid) (res : Bool) (he : sh.tasks = []) (hs : sh.shutdown = false) :
    (afterWait cfg sh t res).1.tasks = [] ∧ (afterWait cfg sh t res).1.shutdown = false ∧ idleW (.worker (afterWait cfg sh t res).2) = true := by
  unfold afterWait
  split
  · (repeat' split) <;> exact ⟨he, hs, rfl⟩
  · split
    · next h => simp [hs] at h
    · split
      · exact ⟨he, hs, rfl⟩
      · next id rest heq => rw [he] at heq; cases heq

/-- an idle worker facing an empty queue of a pool that is not shut down stays idle -/
theorem transW_idle (cfg : Cfg) (sh : Shared) (n t : Nat) (w : WSt) (hi : idleW (.worker w) = true) (he : sh.tasks = []) (hs : sh.shutdown = false) :
    (transW cfg sh n t w).1.tasks = [] ∧ (transW cfg sh n t w).1.shutdown = false ∧ idleW (.worker (transW cfg sh n t w).2.1) = true ∧
    (transW cfg sh n t w).2.2 = .none := by
  cases w <;> simp [idleW] at hi <;> simp only [transW] <;> (try split) <;> simp_all [waitPred, idleW]

theorem reacq_idle (cfg : Cfg) (sh : Shared) (t : Tid) (late : Bool) (he : sh.tasks = []) (hs : sh.shutdown = false) :
    (reacq cfg sh t late).1.tasks = [] ∧ (reacq cfg sh t late).1.shutdown = false ∧ idleW (.worker (reacq cfg sh t late).2) = true := by
  unfold reacq
  split
  · exact afterWait_idle cfg _ t _ he hs
  · split
    · next hp => simp [waitPred, he, hs] at hp
    · exact ⟨he, hs, rfl⟩

@[simp] theorem idleW_wake (x : Thread) (b : Bool) : idleW (wake x b) = idleW x := by
  unfold wake; split <;> simp [idleW]

theorem idle_not_atCreate (th : Thread) (h : idleW th = true) : atCreate th = false := by
  cases th with
  | worker w => cases w <;> simp [idleW] at h <;> rfl
  | main pc r => simp [idleW] at h
  | sub x => simp [idleW] at h

structure SizeInv (cfg : Cfg) (s : St) : Prop where
  size : ∀ th0, s.thr[0]? = some th0 → s.sh.threads.length + ctorRem th0 ≤ cfg.effMax
  cok : ∀ th0, s.thr[0]? = some th0 → ctorOk th0
  room : ∀ (t : Nat) (th : Thread), s.thr[t]? = some th → atCreate th = true → s.sh.threads.length < cfg.effMax
  quietCtor : ∀ th0, s.thr[0]? = some th0 → inCtor th0 = true →
      s.sh.tasks = [] ∧ s.sh.shutdown = false ∧ ∀ (t : Nat) (th : Thread), t ≠ 0 → s.thr[t]? = some th → idleW th = true

theorem sizeInv_init (cfg : Cfg) : SizeInv cfg (init cfg) := by
  have h := effMax_init cfg
  refine ⟨?_, ?_, ?_, ?_⟩
  · intro th0 h0; simp [init] at h0; rw [← h0]; simpa [ctorRem, init] using h
  · intro th0 h0; simp [init] at h0; rw [← h0]; trivial
  · intro t th hget hc
    simp [init] at hget
    cases t with
    | zero => simp at hget; rw [← hget] at hc; simp [atCreate] at hc
    | succ k => simp at hget
  · intro th0 _ _
    refine ⟨rfl, rfl, ?_⟩
    intro t th ne hget
    simp [init] at hget
    cases t with
    | zero => exact absurd rfl ne
    | succ k => simp at hget

theorem holdsM_cC (r : MRegs) : holdsM (.main .cC r) = true := rfl

/-- how a step changes the length of `_threads` -/
theorem stepEff_len (cfg : Cfg) (sh : Shared) (n t : Nat) (th : Thread) (alt : Nat) (sh' : Shared) (th' : Thread) (post : Post)
    (h : StepEff cfg sh n t th alt sh' th' post) (hnr : restartTh th = false) :
    sh'.threads.length ≤ sh.threads.length ∨
    (sh'.threads.length = sh.threads.length + 1 ∧ (atCreate th = true ∨ ∃ r, th = .main .cC r)) := by
  cases h with
  | quiet h => left; rw [h.threads]; exact Nat.le_refl _
  | push _ _ _ h2 => left; rw [h2]; exact Nat.le_refl _
  | create hc _ _ ht => right; rw [ht]; simp; exact hc
  | exitIdle h => left; rw [h.threads]; exact Nat.le_refl _
  | exitShutdown h => left; rw [h.threads]; exact Nat.le_refl _
  | pop _ _ h2 => left; rw [h2]; exact Nat.le_refl _
  | selfErase _ _ _ ht => left; rw [ht]; exact List.length_erase_le
  | finishW _ _ h => left; rw [h.threads]; exact Nat.le_refl _
  | pick _ _ _ _ _ ht => left; rw [ht]; exact List.length_erase_le
  | quiesce _ _ _ _ _ ht => left; rw [ht]; exact Nat.le_refl _
  | joined _ _ _ _ h => left; rw [h.threads]; exact Nat.le_refl _
  | setShut _ _ _ _ _ _ ht => left; rw [ht]; exact Nat.le_refl _
  | restart hth => rw [hth] at hnr; cases hnr

/-- a thread is about to create a worker after the step only if it was before, or it has just pushed with room left -/
theorem stepEff_atCreate (cfg : Cfg) (sh : Shared) (n t : Nat) (th : Thread) (alt : Nat) (sh' : Shared) (th' : Thread) (post : Post)
    (h : StepEff cfg sh n t th alt sh' th' post) (hnr : restartTh th = false) (hc : atCreate th' = true) :
    sh'.threads = sh.threads ∧ sh.threads.length < cfg.effMax := by
  cases h with
  | quiet _ _ _ hc' => rw [hc'] at hc; cases hc
  | push _ _ _ h2 _ _ _ _ hc' =>
    rcases hc' with ⟨_, hl⟩ | ⟨e, _⟩
    · exact ⟨h2, hl⟩
    · rw [e] at hc; cases hc
  | create _ hc' => rw [hc'] at hc; cases hc
  | exitIdle _ _ _ _ _ hw => rcases hw with ⟨e, _⟩ | ⟨e, _⟩ <;> rw [e] at hc <;> simp [atCreate] at hc
  | exitShutdown _ _ _ _ _ hw => rw [hw] at hc; simp [atCreate] at hc
  | pop _ _ _ _ _ _ _ hw => rw [hw] at hc; simp [atCreate] at hc
  | selfErase _ hw => rw [hw] at hc; simp [atCreate] at hc
  | finishW _ hw => rw [hw] at hc; simp [atCreate] at hc
  | pick _ _ hw => rw [hw] at hc; simp [atCreate] at hc
  | quiesce _ _ hw => rw [hw] at hc; simp [atCreate] at hc
  | joined _ _ _ hw => rw [hw] at hc; simp [atCreate] at hc
  | setShut _ _ _ hw => rw [hw] at hc; simp [atCreate] at hc
  | restart hth => rw [hth] at hnr; cases hnr

def isCCth : Thread → Nat
  | .main pc _ => isCC pc
  | _ => 0

theorem isCCth_zero_of_not (th : Thread) (h : ∀ r, th ≠ .main .cC r) : isCCth th = 0 := by
  cases th with
  | main pc r => cases pc <;> simp [isCCth, isCC]; exact absurd rfl (h r)
  | sub x => rfl
  | worker x => rfl

theorem atCreate_not_cC (th : Thread) (h : atCreate th = true) : isCCth th = 0 := by
  apply isCCth_zero_of_not; intro r e; rw [e] at h; simp [atCreate] at h

/-- P6 invariants are preserved by a step described by `StepEff` + `ThreadsStep`, given what the step does to thread 0's
constructor bookkeeping (`hctor`) and to the "quiet during construction" clause (`hquiet`, proved from the concrete step) -/
theorem sizeInv_of_eff (cfg : Cfg) (s : St) (sh' : Shared) (t : Tid) (th th' : Thread) (post : Post) (alt : Nat) (l : List Thread)
    (hI : SizeInv cfg s) (hmx : MutexOk s) (th0 : Thread) (h0 : s.thr[0]? = some th0) (hm0 : isMain th0 = true)
    (hget : s.thr[t]? = some th) (hnr : restartTh th = false)
    (hctor : t = 0 → ctorOk th' ∧ ctorRem th' + isCCth th ≤ ctorRem th)
    (hnm : t ≠ 0 → isCCth th = 0)
    (hquiet : ∀ th0', l[0]? = some th0' → inCtor th0' = true →
        sh'.tasks = [] ∧ sh'.shutdown = false ∧ ∀ (j : Nat) (y : Thread), j ≠ 0 → l[j]? = some y → idleW y = true)
    (heff : StepEff cfg s.sh s.thr.length t th alt sh' th' post)
    (hts : ThreadsStep s.thr l t th' post)
    (hfresh : ∀ nt, post = .spawn nt → isFresh nt = true) :
    SizeInv cfg { sh := sh', thr := l } := by
  -- thread 0 after the step
  have t0 : ∀ th0', l[0]? = some th0' → (t = 0 ∧ th0' = th' ∧ th = th0) ∨ (t ≠ 0 ∧ th0' = th0) := by
    intro th0' h0'
    rcases hts.new 0 th0' h0' with ⟨e1, e2⟩ | ⟨ne, x, hx, hwf⟩ | ⟨nt, _, e1, _⟩
    · left; refine ⟨e1.symm, e2, ?_⟩
      rw [← e1, h0] at hget; exact (Option.some.inj hget).symm
    · right; rw [h0] at hx
      have e := Option.some.inj hx
      rw [← e] at hwf
      exact ⟨fun e2 => ne e2.symm, main_not_asleep th0 th0' hm0 hwf⟩
    · have := lt_length_of_getElem? h0; rw [← e1] at this; exact absurd this (Nat.lt_irrefl _)
  -- when somebody is about to create a worker, the constructor has finished
  have create_not_ctor : atCreate th = true → ctorRem th0 = 0 := by
    intro hc
    apply inCtor_false_rem
    cases hic : inCtor th0 with
    | false => rfl
    | true =>
      exfalso
      obtain ⟨_, _, hidle⟩ := hI.quietCtor th0 h0 hic
      by_cases e : t = 0
      · rw [e, h0] at hget
        have e2 := Option.some.inj hget
        rw [← e2] at hc
        cases th0 with
        | main pc r => cases pc <;> simp [inCtor, ctorPc] at hic <;> simp [atCreate] at hc
        | sub x => simp [inCtor] at hic
        | worker x => simp [inCtor] at hic
      · have := idle_not_atCreate th (hidle t th e hget)
        rw [this] at hc; cases hc
  have hlen := stepEff_len cfg s.sh s.thr.length t th alt sh' th' post heff hnr
  refine ⟨?_, ?_, ?_, hquiet⟩
  · -- size
    intro th0' h0'
    show sh'.threads.length + ctorRem th0' ≤ cfg.effMax
    have hs := hI.size th0 h0
    rcases t0 th0' h0' with ⟨e, e2, e3⟩ | ⟨ne, e2⟩
    · -- the controller itself steps
      have hc := (hctor e).2
      rw [e2]; rw [e3] at hc
      rcases hlen with hl | ⟨hl, hcr⟩
      · omega
      · rcases hcr with hcr | ⟨r, hcr⟩
        · have h1 := hI.room t th hget hcr
          have h2 := create_not_ctor hcr
          have h3 := atCreate_not_cC th hcr
          rw [e3] at h3
          omega
        · have : isCCth th0 = 1 := by rw [← e3, hcr]; rfl
          omega
    · rw [e2]
      rcases hlen with hl | ⟨hl, hcr⟩
      · omega
      · rcases hcr with hcr | ⟨r, hcr⟩
        · have h1 := hI.room t th hget hcr
          have h2 := create_not_ctor hcr
          omega
        · have := hnm ne; rw [hcr] at this; simp [isCCth, isCC] at this
  · -- ctorOk
    intro th0' h0'
    rcases t0 th0' h0' with ⟨e, e2, _⟩ | ⟨_, e2⟩
    · rw [e2]; exact (hctor e).1
    · rw [e2]; exact hI.cok th0 h0
  · -- room
    intro j y hy hcy
    rcases hts.new j y hy with ⟨_, e2⟩ | ⟨ne, x, hx, hwf⟩ | ⟨nt, hnt, _, e2⟩
    · rw [e2] at hcy
      have := stepEff_atCreate cfg s.sh s.thr.length t th alt sh' th' post heff hnr hcy
      show sh'.threads.length < cfg.effMax
      rw [this.1]; exact this.2
    · have hx' : atCreate x = true := by rw [← (wokeFrom_class hwf).2.2.2.1]; exact hcy
      have hr := hI.room j x hx hx'
      rcases hlen with hl | ⟨_, hcr⟩
      · show sh'.threads.length < cfg.effMax; omega
      · -- the creator holds the mutex, and so does `x`
        exfalso
        have hhx := hmx j x hx (atCreate_holds x hx')
        have hht : holdsM th = true := by
          rcases hcr with hcr | ⟨r, hcr⟩
          · exact atCreate_holds th hcr
          · rw [hcr]; rfl
        have := hmx t th hget hht
        rw [this] at hhx
        exact ne (Option.some.inj hhx).symm
    · rw [e2, (fresh_class nt (hfresh nt hnt)).2.2.1] at hcy; cases hcy

theorem idle_of_wokeFrom {x y : Thread} (h : WokeFrom x y) (hx : idleW x = true) : idleW y = true := by
  rcases h with e | ⟨_, e⟩
  · rw [e]; exact hx
  · rw [e, idleW_wake]; exact hx

theorem sizeInv_step (cfg : Cfg) (s : St) (c : Choice) (hA : AllInv s) (hI : SizeInv cfg s) : SizeInv cfg (step cfg s c) := by
  obtain ⟨pc0, r0, h0⟩ := hA.c.main0
  have hm0 : isMain (.main pc0 r0) = true := rfl
  -- the other threads of the list after a step, when the pool is quiet during construction
  have others_idle : ∀ (l : List Thread) (t : Tid) (th' : Thread) (post : Post), ThreadsStep s.thr l t th' post →
      (∀ (j : Nat) (x : Thread), j ≠ 0 → s.thr[j]? = some x → idleW x = true) →
      (t ≠ 0 → idleW th' = true) → (∀ nt, post = .spawn nt → idleW nt = true) →
      ∀ (j : Nat) (y : Thread), j ≠ 0 → l[j]? = some y → idleW y = true := by
    intro l t th' post hts hold hself hsp j y hj hy
    rcases hts.new j y hy with ⟨e1, e2⟩ | ⟨_, x, hx, hwf⟩ | ⟨nt, hnt, _, e2⟩
    · rw [e2]; exact hself (by rw [← e1]; exact hj)
    · exact idle_of_wokeFrom hwf (hold j x hj hx)
    · rw [e2]; exact hsp nt hnt
  have thread0_after : ∀ (l : List Thread) (t : Tid) (th' : Thread) (post : Post), ThreadsStep s.thr l t th' post → t ≠ 0 →
      ∀ th0', l[0]? = some th0' → th0' = .main pc0 r0 := by
    intro l t th' post hts ne th0' h0'
    rcases hts.new 0 th0' h0' with ⟨e1, _⟩ | ⟨_, x, hx, hwf⟩ | ⟨nt, _, e1, _⟩
    · exact absurd e1.symm ne
    · rw [h0] at hx
      have e := Option.some.inj hx
      rw [← e] at hwf
      exact main_not_asleep _ th0' hm0 hwf
    · have := lt_length_of_getElem? h0; rw [← e1] at this; exact absurd this (Nat.lt_irrefl _)
  apply step_cases cfg s c (SizeInv cfg)
  · exact hI
  · -- wake-up
    intro t th b hget ha
    have hth : th = .worker .asleep := by
      cases th with
      | worker w => cases w <;> simp [isAsleep] at ha; rfl
      | main pc r => simp [isAsleep] at ha
      | sub x => simp [isAsleep] at ha
    have ne : t ≠ 0 := by intro e; rw [e, h0] at hget; have := Option.some.inj hget; rw [hth] at this; cases this
    have hts := threadsStep_of_set s.thr t th (wake th b) hget
    refine sizeInv_of_eff cfg s s.sh t th (wake th b) .none 0 _ hI hA.mutex _ h0 hm0 hget (by rw [hth]; rfl) (fun e => absurd e ne)
      (fun _ => by rw [hth]; rfl) ?_
      (.quiet (SameQ.rfl' _) (fun nt e => by cases e) (by rw [hth]; rfl) (by rw [hth]; rfl) (by simp) (by simp) (by simp) (by simp)
        (by rw [hth]; intro e; simp [wake] at e)) hts (fun nt e => by cases e)
    intro th0' h0' hic
    rw [thread0_after _ t _ _ hts ne th0' h0'] at hic
    obtain ⟨q1, q2, q3⟩ := hI.quietCtor _ h0 hic
    exact ⟨q1, q2, others_idle _ t _ _ hts q3 (fun _ => by rw [hth]; rfl) (fun nt e => by cases e)⟩
  · -- re-acquisition
    intro t th to late hget hw ho
    have hth : th = .worker (.woken to) := by
      cases th with
      | worker w => cases w <;> simp [wokenBy] at hw; rw [hw]
      | main pc r => simp [wokenBy] at hw
      | sub x => simp [wokenBy] at hw
    have ne : t ≠ 0 := by intro e; rw [e, h0] at hget; have := Option.some.inj hget; rw [hth] at this; cases this
    have hts := threadsStep_of_set s.thr t th (.worker (reacq cfg s.sh t late).2) hget
    have heff : StepEff cfg s.sh s.thr.length t th 0 (reacq cfg s.sh t late).1 (.worker (reacq cfg s.sh t late).2) .none := by
      rcases reacq_eff cfg s.sh t late with he | ⟨hq, hwr⟩
      · exact waitEff_lift cfg s.sh s.sh s.thr.length t 0 th _ _ (SameQ.rfl' _) he (by rw [hth]; exact ⟨rfl, rfl, rfl⟩)
          (by rw [hth]; rfl) (by rw [hth]; rfl)
      · rw [hwr]
        exact .quiet hq (fun nt e => by cases e) (by rw [hth]; rfl) rfl (by rw [hth]; rfl) (by rw [hth]; rfl) (by rw [hth]; rfl)
          (by rw [hth]; rfl) (by intro e; cases e)
    refine sizeInv_of_eff cfg s _ t th _ .none 0 _ hI hA.mutex _ h0 hm0 hget (by rw [hth]; rfl) (fun e => absurd e ne)
      (fun _ => by rw [hth]; rfl) ?_ heff hts (fun nt e => by cases e)
    intro th0' h0' hic
    rw [thread0_after _ t _ _ hts ne th0' h0'] at hic
    obtain ⟨q1, q2, q3⟩ := hI.quietCtor _ h0 hic
    have hr := reacq_idle cfg s.sh t late q1 q2
    exact ⟨hr.1, hr.2.1, others_idle _ t _ _ hts q3 (fun _ => hr.2.2) (fun nt e => by cases e)⟩
  · -- the pending operation of a runnable thread
    intro t th alt l hget _ _ _ _ hp
    have hts := threadsStep_of_run cfg s t th alt l hget hp
    by_cases e : t = 0
    · -- the controller
      have hth : th = .main pc0 r0 := by rw [e, h0] at hget; exact (Option.some.inj hget).symm
      have hc := transM_ctor cfg s.sh s.thr.length t pc0 r0 alt (by have := hI.cok _ h0; exact this)
      refine sizeInv_of_eff cfg s _ t th _ _ alt l hI hA.mutex _ h0 hm0 hget (hA.c.nors t th hget) ?_ (fun ne => absurd e ne) ?_
        (trans_eff cfg s.sh s.thr.length t th alt) hts (fun nt e => trans_spawn cfg s.sh s.thr.length t th alt nt e)
      · intro _; rw [hth]; exact ⟨hc.1, hc.2.1⟩
      · intro th0' h0' hic
        have e0 : th0' = (trans cfg s.sh s.thr.length t th alt).2.1 := by
          have h1 := hts.self
          have h2 : l[0]? = some (trans cfg s.sh s.thr.length t th alt).2.1 := by rw [← e]; exact h1
          rw [h2] at h0'; exact (Option.some.inj h0').symm
        rw [e0, hth] at hic
        have hpre : ctorPc pc0 = true := hc.2.2 hic
        obtain ⟨q1, q2, q3⟩ := hI.quietCtor _ h0 hpre
        have hq := transM_ctor_quiet cfg s.sh s.thr.length t pc0 r0 alt hpre
        rw [hth]
        refine ⟨by simp only [trans]; rw [hq.1]; exact q1, by simp only [trans]; rw [hq.2.1]; exact q2, ?_⟩
        apply others_idle l t _ _ hts q3 (fun ne => absurd e ne)
        intro nt hnt; rw [hth] at hnt; exact hq.2.2 nt hnt
    · -- another thread
      refine sizeInv_of_eff cfg s _ t th _ _ alt l hI hA.mutex _ h0 hm0 hget (hA.c.nors t th hget) (fun e0 => absurd e0 e) ?_ ?_
        (trans_eff cfg s.sh s.thr.length t th alt) hts (fun nt e => trans_spawn cfg s.sh s.thr.length t th alt nt e)
      · intro _
        cases th with
        | main pc r =>
          cases hcp : ctorPc pc with
          | true => exact absurd (hA.c.ctorZero t pc r hget hcp) e
          | false => cases pc <;> simp [ctorPc] at hcp <;> rfl
        | sub x => rfl
        | worker x => rfl
      · intro th0' h0' hic
        rw [thread0_after _ t _ _ hts e th0' h0'] at hic
        obtain ⟨q1, q2, q3⟩ := hI.quietCtor _ h0 hic
        have hidle := q3 t th e hget
        cases th with
        | main pc r => simp [idleW] at hidle
        | sub x => simp [idleW] at hidle
        | worker w =>
          have hw := transW_idle cfg s.sh s.thr.length t w hidle q1 q2
          refine ⟨by simp only [trans]; exact hw.1, by simp only [trans]; exact hw.2.1, ?_⟩
          apply others_idle l t _ _ hts q3
          · intro _; simp only [trans]; exact hw.2.2.1
          · intro nt hnt; simp only [trans] at hnt; rw [hw.2.2.2] at hnt; cases hnt

theorem sizeInv_run (cfg : Cfg) (hdet : cfg.detached = false) (hr : cfg.allowRestart = false)
    (sched : List Choice) : SizeInv cfg (run cfg sched) := by
  have : AllInv (run cfg sched) ∧ SizeInv cfg (run cfg sched) := by
    apply inv_run cfg (fun s => AllInv s ∧ SizeInv cfg s) ⟨allInv_init cfg, sizeInv_init cfg⟩
    intro s c ⟨h1, h2⟩
    exact ⟨allInv_step cfg hdet hr s c h1, sizeInv_step cfg s c h1 h2⟩
  exact this.2

end Iora.ThreadPool
