import IoraModel.Model.TimerSys
import IoraModel.Lemmas.TimerService
import IoraModel.Lemmas.TimerHeap
/-! Lemmas for `Model/TimerSys.lean`: every epoch of the restartable service is a run of the first-layer model (`refines`), and the
wake-up invariant of the loop thread (`winv_run`). -/
namespace Iora.Tsys
open Iora.Tsvc

/-! ### refinement: an epoch is a fresh first-layer service -/

theorem run_snoc (L : Limits) (sops : List Tsvc.Op) (op : Tsvc.Op) :
    Tsvc.run L (sops ++ [op]) =
      ((Tsvc.step L (Tsvc.run L sops).1 op).1, (Tsvc.run L sops).2 ++ [(op, (Tsvc.step L (Tsvc.run L sops).1 op).2)]) := by
  unfold Tsvc.run
  rw [runFrom_append]
  rfl

/-- the state of the current epoch is a first-layer run; between `reset()` and `start()` it is one `start()` away from the initial state -/
def Ref (L : Limits) (y : Sys) : Prop :=
  (y.isReset = false ∧ ∃ sops, Tsvc.run L sops = (y.s, y.hist)) ∨ (y.isReset = true ∧ startSvc y.s = {})

theorem Ref.congr {L : Limits} {y y' : Sys} (r : Ref L y) (h1 : y'.isReset = y.isReset) (h2 : y'.s = y.s) (h3 : y'.hist = y.hist) : Ref L y' := by
  unfold Ref at *
  rw [h1, h2, h3]
  exact r

theorem clears_all : Gen.Timer.svcResetClears.contains "records" = true ∧ Gen.Timer.svcResetClears.contains "periodic" = true ∧
    Gen.Timer.svcResetClears.contains "heap" = true ∧ Gen.Timer.svcResetClears.contains "nextId" = true := by decide

/-- `reset()` then `start()` on a stopped service with no `drain()` in progress gives exactly the state the constructor leaves -/
theorem reset_start_fresh (s : Svc) (w : Wf s) (hl : s.life = .stopped) (hd : s.dpc = .idle) : startSvc (resetSvc s) = {} := by
  obtain ⟨_, hex⟩ := w.st1 hl
  obtain ⟨_, hr, hi⟩ := w.ex1 hex
  have hacct := w.acct
  rw [hr, hi] at hacct
  simp at hacct
  have m1 : "records" ∈ Gen.Timer.svcResetClears := by decide
  have m2 : "periodic" ∈ Gen.Timer.svcResetClears := by decide
  have m3 : "heap" ∈ Gen.Timer.svcResetClears := by decide
  have m4 : "nextId" ∈ Gen.Timer.svcResetClears := by decide
  simp [startSvc, resetSvc, resetSvcWith, m1, m2, m3, m4, hr, hi, hacct, hd]

theorem ref_step (L : Limits) (y : Sys) (op : Op) (r : Ref L y) : Ref L (step L y op).1 := by
  cases op with
  | svc sop =>
    simp only [step, svcStep]
    split
    · exact r
    · rename_i hg
      simp only [Bool.or_eq_true, not_or, Bool.not_eq_true] at hg
      rcases r with ⟨_, sops, hs⟩ | ⟨h1, _⟩
      · refine Or.inl ⟨by simpa using hg.1, sops ++ [sop], ?_⟩
        rw [run_snoc, hs]
      · rw [h1] at hg; exact absurd hg.1 (by simp)
  | poke =>
    simp only [step]
    split
    · exact r
    · exact r.congr rfl rfl rfl
  | arm now =>
    simp only [step]
    split
    · exact r
    · exact r.congr rfl rfl rfl
  | wake now =>
    simp only [step]
    split
    · exact r
    · exact r.congr rfl rfl rfl
  | spurious b =>
    simp only [step]
    split
    · exact r
    · exact r.congr rfl rfl rfl
  | reset =>
    simp only [step]
    split
    · exact r
    · rename_i hg
      simp only [Bool.or_eq_true, not_or, Bool.not_eq_true, bne_iff_ne, ne_eq, Decidable.not_not] at hg
      rcases r with ⟨_, sops, hs⟩ | ⟨h1, _⟩
      · refine Or.inr ⟨rfl, ?_⟩
        have w := (inv_run L sops).1
        rw [hs] at w
        exact reset_start_fresh y.s w hg.1.2 hg.2
      · rw [h1] at hg; exact absurd hg.1.1 (by simp)
  | start =>
    simp only [step]
    split
    · exact r
    · rename_i hg
      rcases r with ⟨h1, _⟩ | ⟨_, h2⟩
      · rw [h1] at hg; exact absurd hg (by simp)
      · exact Or.inl ⟨rfl, [], by simp only [h2]; rfl⟩

theorem ref_runFrom (L : Limits) : ∀ (ops : List Op) (y : Sys), Ref L y → Ref L (runFrom L y ops)
  | [], _, r => r
  | op :: ops, y, r => ref_runFrom L ops _ (ref_step L y op r)

/-- **refinement.** Every history of the restartable service: outside the Reset state, state and history of the current epoch are a
run of the first-layer model from the constructor's state -/
theorem refines (L : Limits) (ops : List Op) : Ref L (run L ops) :=
  ref_runFrom L ops _ (Or.inl ⟨rfl, [], rfl⟩)

/-! ### the wake-up invariant -/

structure WInv (y : Sys) : Prop where
  /-- the eventfd is closed only after the loop thread has been joined -/
  fd : y.fdOpen = false → y.lpc = .gone
  /-- while the loop thread sleeps in `epoll_wait`: a wake-up is pending or owed, or the timerfd is armed no later than the heap top
  (or 1 ns after it was programmed, when the top was already due then) -/
  wk : y.lpc = .parked → ∀ t, y.s.heap.head? = some t →
        y.poked = true ∨ 0 < y.owed ∨ ∃ a, y.armed = some a ∧ (a ≤ t.tp ∨ a ≤ y.armNow + 1)

theorem WInv.init : WInv {} := ⟨by simp, by simp⟩

theorem poke_sites : pokes "scheduleAt" = true ∧ pokes "schedulePeriodic" = true ∧ pokes "cancel" = true ∧ pokes "drain" = true ∧
    pokes "stop" = true := by decide

/-- a first-layer step other than `collect` leaves the heap alone, or it is a successful `schedule*` — which owes a `poke()` -/
theorem heap_kept (L : Limits) (s : Svc) (op : Tsvc.Op) (hc : ∀ now ax, op ≠ .collect now ax) :
    (Tsvc.step L s op).1.heap = s.heap ∨ 0 < owes s op (Tsvc.step L s op).2 := by
  obtain ⟨p1, p2, _, _, _⟩ := poke_sites
  cases op with
  | collect now ax => exact absurd rfl (hc now ax)
  | schedAt now tp =>
    simp only [Tsvc.step, scheduleAt]
    repeat' split
    all_goals first | exact Or.inl rfl | (right; simp [owes, p1])
  | schedPer now iv =>
    simp only [Tsvc.step, schedulePeriodic]
    repeat' split
    all_goals first | exact Or.inl rfl | (right; simp [owes, p2])
  | cancel id =>
    left
    simp only [Tsvc.step, Tsvc.cancel, cancelWith]
    split <;> rfl
  | hstart =>
    left
    simp only [Tsvc.step, hstart]
    repeat' split
    all_goals rfl
  | hend =>
    left
    simp only [Tsvc.step, hend]
    split <;> rfl
  | loopExit =>
    left
    simp only [Tsvc.step, loopExit]
    split <;> rfl
  | drainGate =>
    left
    simp only [Tsvc.step, drainGate]
    split <;> rfl
  | drainSweep now t =>
    left
    simp only [Tsvc.step, drainSweep]
    repeat' split
    all_goals rfl
  | drainDone =>
    left
    simp only [Tsvc.step, drainDone]
    split <;> rfl
  | drainTimeout =>
    left
    simp only [Tsvc.step, drainTimeout]
    split <;> rfl
  | drainRestore =>
    left
    simp only [Tsvc.step, drainRestore]
    repeat' split
    all_goals rfl
  | stopFlag =>
    left
    simp only [Tsvc.step, stopFlag]
    split <;> rfl
  | stopHalt =>
    left
    simp only [Tsvc.step, stopHalt]
    split <;> rfl
  | stopFinish =>
    left
    simp only [Tsvc.step, stopFinish]
    split <;> rfl

/-- the zero guard: a heap top always arms the timerfd, at the top's time point or 1 ns after `now` -/
theorem armValue_some (now : Int) (t : HeapItem) : ∃ a, armValue now (some t) = some a ∧ (a ≤ t.tp ∨ a ≤ now + 1) := by
  have g : Gen.Timer.svcTimerfdZeroGuard = true := by decide
  have z : Gen.Timer.svcTimerfdZeroNs = 1 := by decide
  unfold armValue armValueWith
  rw [g, z]
  by_cases h : t.tp > now
  · exact ⟨t.tp, by simp [h], Or.inl (Int.le_refl _)⟩
  · exact ⟨now + 1, by simp [h], Or.inr (by simp)⟩

theorem winv_svc (L : Limits) (y : Sys) (op : Tsvc.Op) (w : WInv y) : WInv (svcStep L y op).1 := by
  unfold svcStep
  split
  · exact w
  · rename_i hg
    simp only [Bool.or_eq_true, not_or, Bool.not_eq_true] at hg
    by_cases hc : ∃ now ax, op = .collect now ax
    · obtain ⟨now, ax, rfl⟩ := hc
      have hgate := hg.2
      have hcf : ∀ o, closesFd (.collect now ax) o = false := fun _ => rfl
      cases ax with
      | false =>
        simp only [loopGate, Bool.not_eq_false', beq_iff_eq] at hgate
        constructor
        · intro hf
          simp only [hcf, Bool.false_eq_true, if_false] at hf
          have := w.fd hf
          rw [hgate] at this; cases this
        · intro hp; simp [hcf, lpcAfter] at hp
      | true =>
        simp only [loopGate, Bool.not_eq_false', beq_iff_eq] at hgate
        constructor
        · intro hf
          simp only [hcf, Bool.false_eq_true, if_false] at hf
          have := w.fd hf
          rw [hgate] at this; cases this
        · intro hp; simp [hcf, lpcAfter, hgate] at hp
    · have hc' : ∀ now ax, op ≠ .collect now ax := fun now ax h => hc ⟨now, ax, h⟩
      have hk := heap_kept L y.s op hc'
      have hdis : disarms y (Tsvc.step L y.s op).1 op = false := by
        cases op
        case collect now ax => exact absurd rfl (hc' now ax)
        all_goals rfl
      have hlp : lpcAfter y (Tsvc.step L y.s op).1 op = y.lpc ∨ lpcAfter y (Tsvc.step L y.s op).1 op = .gone := by
        cases op
        case collect now ax => exact absurd rfl (hc' now ax)
        case loopExit => simp only [lpcAfter]; split <;> simp
        all_goals exact Or.inl rfl
      constructor
      · intro hf
        simp only at hf ⊢
        by_cases hcl : closesFd op (Tsvc.step L y.s op).2 = true
        · simp [hcl]
        · simp only [hcl, Bool.false_eq_true, if_false] at hf ⊢
          rcases hlp with h | h <;> rw [h]
          exact w.fd hf
      · intro hp t ht
        simp only at hp ht ⊢
        rw [hdis]
        simp only [Bool.false_eq_true, if_false]
        by_cases hcl : closesFd op (Tsvc.step L y.s op).2 = true
        · simp [hcl] at hp
        · simp only [hcl, Bool.false_eq_true, if_false] at hp
          rcases hlp with h | h
          · rw [h] at hp
            rcases hk with hk | hk
            · rw [hk] at ht
              rcases w.wk hp t ht with h1 | h1 | h1
              · exact Or.inl h1
              · exact Or.inr (Or.inl (by omega))
              · exact Or.inr (Or.inr h1)
            · exact Or.inr (Or.inl (by omega))
          · rw [h] at hp; cases hp

theorem winv_step (L : Limits) (y : Sys) (op : Op) (w : WInv y) : WInv (step L y op).1 := by
  cases op with
  | svc sop => exact winv_svc L y sop w
  | poke =>
    simp only [step]
    split
    · exact w
    · constructor
      · intro hf; exact w.fd hf
      · intro hp t ht
        simp only at hp ht ⊢
        by_cases ho : y.fdOpen = true
        · simp [ho]
        · have := w.fd (by simpa using ho)
          rw [this] at hp; cases hp
  | arm now =>
    simp only [step]
    split
    · exact w
    · rename_i hg
      simp only [Bool.or_eq_true, not_or, Bool.not_eq_true, bne_iff_ne, ne_eq, Decidable.not_not] at hg
      constructor
      · intro hf
        have := w.fd hf
        rw [hg.1.1.1.1.1.2] at this; cases this
      · intro _ t ht
        simp only at ht ⊢
        rw [ht]
        exact Or.inr (Or.inr (armValue_some now t))
  | wake now =>
    simp only [step]
    split
    · exact w
    · constructor
      · intro hf
        rename_i hg
        simp only [Bool.or_eq_true, not_or, bne_iff_ne, ne_eq, Decidable.not_not] at hg
        have := w.fd hf
        rw [hg.1] at this; cases this
      · intro hp; cases hp
  | spurious b =>
    simp only [step]
    split
    · exact w
    · rename_i hg
      simp only [bne_iff_ne, ne_eq, Decidable.not_not] at hg
      constructor
      · intro hf
        have := w.fd hf
        rw [hg] at this; cases this
      · intro hp
        simp only at hp
        split at hp <;> cases hp
  | reset =>
    simp only [step]
    split
    · exact w
    · constructor
      · intro _; rfl
      · intro hp; simp at hp
  | start =>
    simp only [step]
    split
    · exact w
    · constructor
      · intro hf; simp at hf
      · intro hp; simp at hp

theorem winv_runFrom (L : Limits) : ∀ (ops : List Op) (y : Sys), WInv y → WInv (runFrom L y ops)
  | [], _, w => w
  | op :: ops, y, w => winv_runFrom L ops _ (winv_step L y op w)

theorem winv_run (L : Limits) (ops : List Op) : WInv (run L ops) := winv_runFrom L ops _ WInv.init

/-- the heap top is no later than any record (heap order + heap items and records correspond one to one) -/
theorem top_le_record {s : Svc} (w : Wf s) (ok : HeapOk s.heap) {r : Rec} (hr : r ∈ s.records) :
    ∃ t, s.heap.head? = some t ∧ t.tp ≤ r.tp := by
  have hm : rkey r ∈ s.records.map rkey := List.mem_map_of_mem hr
  have hm2 : rkey r ∈ s.heap.map hkey := (w.core.hk.mem_iff).mpr hm
  obtain ⟨x, hx, hxe⟩ := List.mem_map.mp hm2
  obtain ⟨i, hi⟩ := List.getElem?_of_mem hx
  have hne : s.heap ≠ [] := List.ne_nil_of_mem hx
  obtain ⟨t, tl, hh⟩ := List.exists_cons_of_ne_nil hne
  have ht0 : s.heap[0]? = some t := by rw [hh]; rfl
  have hmin := ok.root_min ht0 i i x (Nat.le_refl _) hi
  have htp := not_less_tp hmin
  refine ⟨t, by rw [hh]; rfl, ?_⟩
  have : x.tp = r.tp := by
    have := congrArg Prod.fst hxe
    simpa [hkey, rkey] using this
  omega

end Iora.Tsys
