import IoraModel.Model.AssetsServe
import IoraModel.Lemmas.AssetsPath
/-! Lemmas about the serve layer of C20 (`Model/AssetsServe.lean`): the percent decoder, the pre-check, the handler. -/
namespace Iora.Assets
open Iora

/-! ## hexNibble -/

/-- the three ranges, spelled out: `0-9 ↦ c-48`, `a-f ↦ c-87`, `A-F ↦ c-55` -/
theorem hexNibble_eq (c : UInt8) :
    hexNibble c =
      if 48 ≤ c.toNat ∧ c.toNat ≤ 57 then some (c.toNat - 48)
      else if 97 ≤ c.toNat ∧ c.toNat ≤ 102 then some (c.toNat - 97 + 10)
      else if 65 ≤ c.toNat ∧ c.toNat ≤ 70 then some (c.toNat - 65 + 10)
      else none := by
  simp [hexNibble, hexNibbleIn, Gen.AssetsServe.hexRanges]

theorem hexNibble_lt (c : UInt8) (v : Nat) (h : hexNibble c = some v) : v < 16 := by
  rw [hexNibble_eq] at h
  split at h
  · injection h with h; omega
  · split at h
    · injection h with h; omega
    · split at h
      · injection h with h; omega
      · cases h

theorem lookAheadOk_eq (n : Nat) : lookAheadOk (n + 3) = true := by
  simp [lookAheadOk, Gen.AssetsServe.lookCmp, Gen.AssetsServe.lookAhead]

/-! ## urlDecode, one step at a time -/

/-- "`rest` starts with two hex digits" -/
def TwoHex (rest : Bytes) : Prop := ∃ h l rest' a b, rest = h :: l :: rest' ∧ hexNibble h = some a ∧ hexNibble l = some b

theorem urlDecode_nil : urlDecode [] = [] := by simp [urlDecode, percentDecode]

theorem urlDecode_cons_ne (c : UInt8) (rest : Bytes) (h : c ≠ 37) : urlDecode (c :: rest) = c :: urlDecode rest := by
  simp only [urlDecode]; rw [percentDecode.eq_def]; simp [ Gen.AssetsServe.escapeByte, Gen.AssetsServe.urlDecodePlusIsSpace, h]

theorem urlDecode_hex (h l : UInt8) (rest : Bytes) (a b : Nat) (ha : hexNibble h = some a) (hb : hexNibble l = some b) :
    urlDecode (37 :: h :: l :: rest) = b8 (16 * a + b) :: urlDecode rest := by
  simp only [urlDecode]; rw [percentDecode.eq_def]; simp [ Gen.AssetsServe.escapeByte, lookAheadOk_eq, ha, hb, Gen.AssetsServe.hiShift, Nat.mul_comm]

theorem urlDecode_literal (rest : Bytes) (h : ¬ TwoHex rest) : urlDecode (37 :: rest) = 37 :: urlDecode rest := by
  match rest, h with
  | [], _ => simp only [urlDecode]; rw [percentDecode.eq_def]; simp [ Gen.AssetsServe.escapeByte, Gen.AssetsServe.literalByte]
  | [x], _ => simp only [urlDecode]; rw [percentDecode.eq_def]; simp [ Gen.AssetsServe.escapeByte, Gen.AssetsServe.literalByte]
  | x :: y :: rest', h =>
    cases hx : hexNibble x with
    | none => simp only [urlDecode]; rw [percentDecode.eq_def]; simp [ Gen.AssetsServe.escapeByte, Gen.AssetsServe.literalByte, hx]
    | some a =>
      cases hy : hexNibble y with
      | none => simp only [urlDecode]; rw [percentDecode.eq_def]; simp [ Gen.AssetsServe.escapeByte, Gen.AssetsServe.literalByte, hx, hy]
      | some b => exact absurd ⟨x, y, rest', a, b, rfl, hx, hy⟩ h

/-- induction along the decoder's own recursion (it continues after one byte or after three) -/
theorem pd_induct {P : Bytes → Prop} (h0 : P [])
    (h1 : ∀ c rest, P rest → (∀ h l rest', rest = h :: l :: rest' → P rest') → P (c :: rest)) (p : Bytes) : P p := by
  suffices ∀ n (p : Bytes), p.length ≤ n → P p from this _ p (Nat.le_refl _)
  intro n
  induction n with
  | zero =>
    intro p hp
    cases p with
    | nil => exact h0
    | cons _ _ => simp at hp
  | succ n ih =>
    intro p hp
    cases p with
    | nil => exact h0
    | cons c rest =>
      refine h1 c rest (ih rest (by simp at hp; omega)) ?_
      intro h l rest' e
      subst e
      exact ih rest' (by simp at hp; omega)

theorem urlDecode_length_le (p : Bytes) : (urlDecode p).length ≤ p.length := by
  induction p using pd_induct with
  | h0 => simp [urlDecode_nil]
  | h1 c rest ih1 ih3 =>
    by_cases hc : c = 37
    · subst hc
      by_cases ht : TwoHex rest
      · obtain ⟨h, l, rest', a, b, e, ha, hb⟩ := ht
        subst e
        rw [urlDecode_hex h l rest' a b ha hb]
        have := ih3 h l rest' rfl
        simp; omega
      · rw [urlDecode_literal rest ht]; simp; omega
    · rw [urlDecode_cons_ne c rest hc]; simp; omega

theorem urlDecode_no_escape (p : Bytes) (h : (37 : UInt8) ∉ p) : urlDecode p = p := by
  induction p with
  | nil => exact urlDecode_nil
  | cons c cs ih =>
    have hc : c ≠ 37 := fun e => h (by simp [e])
    rw [urlDecode_cons_ne c cs hc, ih (fun hm => h (by simp [hm]))]

/-- the decoder is a homomorphism over a prefix without escape byte -/
theorem urlDecode_append_plain (pre p : Bytes) (h : (37 : UInt8) ∉ pre) : urlDecode (pre ++ p) = pre ++ urlDecode p := by
  induction pre with
  | nil => rfl
  | cons c cs ih =>
    have hc : c ≠ 37 := fun e => h (by simp [e])
    simp only [List.cons_append]
    rw [urlDecode_cons_ne c _ hc, ih (fun hm => h (by simp [hm]))]

/-! ## the pre-check is weaker than the lexical filter -/

theorem ddLoop_eq_segLoop (seg p : Bytes) : ddLoop seg p = segLoop seg p := by
  induction p generalizing seg with
  | nil =>
    by_cases h : seg = [46, 46] <;> simp [ddLoop, segLoop, Gen.AssetsServe.ddRefused, Gen.Assets.forbiddenSegments, h]
  | cons c cs ih =>
    by_cases hc : c = 47 <;> by_cases h : seg = [46, 46] <;>
      simp [ddLoop, segLoop, Gen.AssetsServe.ddSeparator, Gen.Assets.segmentSeparator, ih,
        Gen.AssetsServe.ddRefused, Gen.Assets.forbiddenSegments, hc, h]

theorem precheck_imp_rejected (d : Bytes) (h : precheck d = true) : lexicallyRejected d = true := by
  cases d with
  | nil => simp [precheck, hasDotDotSegment, ddLoop, Gen.AssetsServe.ddRefused] at h
  | cons c cs =>
    simp only [precheck, hasDotDotSegment, ddLoop_eq_segLoop, Bool.or_eq_true] at h
    simp only [lexicallyRejected, Bool.or_eq_true]
    rcases h with h | h
    · exact Or.inr h
    · refine Or.inl (Or.inl ?_)
      simp [Gen.AssetsServe.precheckLeading] at h
      simp [Gen.Assets.forbiddenLeading, h]

/-! ## the handler -/

theorem getStaticAt_found_not_rejected (sn : Snaps) (a : Assets) (p : Bytes) (b : Blob)
    (h : (getStaticAt sn a p).1 = .found b) : lexicallyRejected p = false := by
  unfold getStaticAt at h
  by_cases hn : lexicallyRejected p = true
  · simp [hn] at h
  · simpa using hn

theorem decodedPathOf_eq (raw : Bytes) : decodedPathOf raw = urlDecode raw := by
  simp [decodedPathOf, decodeTimes, Gen.AssetsServe.decodeDepth]

/-- the body the handler selects from a blob -/
def selectBody (b : Blob) (acceptGzip : Bool) : Bytes :=
  match b.gz with
  | some g => if acceptGzip then g else b.bytes
  | none => b.bytes

/-- the handler, with the generated operands / codes substituted: four cases -/
theorem serveStaticAt_cases (sn : Snaps) (a : Assets) (raw : Bytes) (acc : Bool) :
    (precheck (urlDecode raw) = true ∧
      serveStaticAt sn a raw acc = (⟨400, Gen.AssetsServe.precheckBody, false, Gen.AssetsServe.precheckType⟩, a)) ∨
    (precheck (urlDecode raw) = false ∧ ∃ a', getStaticAt sn a (urlDecode raw) = (.rejected, a') ∧
      serveStaticAt sn a raw acc = (⟨400, Gen.AssetsServe.rejectedBody, false, Gen.AssetsServe.rejectedType⟩, a')) ∨
    (precheck (urlDecode raw) = false ∧ ∃ a', getStaticAt sn a (urlDecode raw) = (.notFound, a') ∧
      serveStaticAt sn a raw acc = (⟨404, Gen.AssetsServe.notFoundBody, false, Gen.AssetsServe.notFoundType⟩, a')) ∨
    (precheck (urlDecode raw) = false ∧ ∃ b a', getStaticAt sn a (urlDecode raw) = (.found b, a') ∧
      serveStaticAt sn a raw acc = (⟨200, selectBody b acc, b.gz.isSome && acc, b.mime⟩, a')) := by
  unfold serveStaticAt
  simp only [decodedPathOf_eq, Gen.AssetsServe.precheckOnDecoded, Gen.AssetsServe.getStaticOnDecoded, ↓reduceIte,
    Gen.AssetsServe.precheckStatus, Gen.AssetsServe.rejectedStatus, Gen.AssetsServe.notFoundStatus, Gen.AssetsServe.okStatus,
    Gen.AssetsServe.gzipBytesWhenServeGzip]
  by_cases hp : precheck (urlDecode raw) = true
  · exact Or.inl ⟨hp, by simp [hp]⟩
  · have hp' : precheck (urlDecode raw) = false := by simpa using hp
    refine Or.inr ?_
    simp only [hp', Bool.false_eq_true, ↓reduceIte]
    rcases hg : getStaticAt sn a (urlDecode raw) with ⟨r, a'⟩
    cases r with
    | rejected => exact Or.inl ⟨trivial, a', rfl, rfl⟩
    | notFound => exact Or.inr (Or.inl ⟨trivial, a', rfl, rfl⟩)
    | found b =>
      refine Or.inr (Or.inr ⟨trivial, b, a', rfl, ?_⟩)
      cases hz : b.gz with
      | none => simp [selectBody, hz]
      | some g => cases acc <;> simp [selectBody, hz]

end Iora.Assets
