import IoraModel.Lemmas.TpDefs
/-! # C09 — the outcome of a submission is decided only inside the enqueue call, and only for the stated reasons -/
namespace Iora.ThreadPool

/-- the enqueue call a thread is executing -/
def callOf : Thread → Option CallSt
  | .worker (.body _ c) => some c
  | .sub (.run c) => some c
  | .main (.inCall c) _ => some c
  | _ => none

/-- why a submission got outcome `r` in a step from `sh` -/
def Reason (cfg : Cfg) (sh : Shared) : Res → Prop
  | .refDraining => sh.accepting = false
  | .refShutdown => sh.shutdown = true
  | .refFull => sh.shutdown = false ∧ cfg.maxQueue ≤ sh.tasks.length
  | .accepted => sh.shutdown = false ∧ sh.tasks.length < cfg.maxQueue
  | .pending => False

theorem setF_ne {α : Type} (f : Nat → α) (k i : Nat) (x : α) (h : setF f k x i ≠ f i) : i = k ∧ setF f k x i = x := by
  unfold setF at h ⊢
  by_cases e : i = k
  · simp [e]
  · simp [e] at h

theorem callStep_result (cfg : Cfg) (sh : Shared) (n t : Nat) (c : CallSt) (id : Nat)
    (h : (callStep cfg sh n t c).1.result id ≠ sh.result id) :
    Reason cfg sh ((callStep cfg sh n t c).1.result id) := by
  cases c with
  | yield_ sc =>
    cases sc with
    | nil => simp [callStep] at h
    | cons a rest =>
      simp only [callStep] at h ⊢
      split at h
      · exact absurd rfl h
      · next hacc =>
        rw [if_neg hacc]
        simp only [] at h ⊢
        obtain ⟨_, e⟩ := setF_ne _ _ _ _ h
        rw [e]; simpa [Reason] using hacc
  | inCall rest cid e =>
    cases e <;> simp only [callStep] at h ⊢
    · split at h
      · next hs =>
        rw [if_pos hs]; simp only [] at h ⊢
        obtain ⟨_, e⟩ := setF_ne _ _ _ _ h
        rw [e]; exact hs
      · next hs =>
        rw [if_neg hs]
        split at h
        · next hf =>
          rw [if_pos hf]; simp only [] at h ⊢
          obtain ⟨_, e⟩ := setF_ne _ _ _ _ h
          rw [e]; exact ⟨by simpa using hs, hf⟩
        · next hf =>
          rw [if_neg hf]
          split at h
          · next hr =>
            rw [if_pos hr]; simp only [] at h ⊢
            obtain ⟨e0, e⟩ := setF_ne _ _ _ _ h
            rw [e]; exact ⟨by simpa using hs, by omega⟩
          · next hr =>
            rw [if_neg hr]; simp only [] at h ⊢
            obtain ⟨e0, e⟩ := setF_ne _ _ _ _ h
            rw [e]; exact ⟨by simpa using hs, by omega⟩
    all_goals exact absurd rfl h

theorem bodyEnd_result (cfg : Cfg) (sh : Shared) (id : Nat) : (bodyEnd cfg sh id).1.result = sh.result ∧ (bodyEnd cfg sh id).1.tasks = sh.tasks := by
  unfold bodyEnd; split <;> exact ⟨rfl, rfl⟩
theorem afterWait_result (cfg : Cfg) (sh : Shared) (t : Tid) (res : Bool) : (afterWait cfg sh t res).1.result = sh.result := by
  unfold afterWait; (repeat' split) <;> rfl
theorem reacq_result (cfg : Cfg) (sh : Shared) (t : Tid) (late : Bool) : (reacq cfg sh t late).1.result = sh.result := by
  unfold reacq; (repeat' split) <;> simp [afterWait_result]
theorem pollExit_result (sh : Shared) (r : MRegs) (k : Poll) (d : Bool) : (pollExit sh r k d).1.result = sh.result := by
  unfold pollExit drainReturn; (repeat' split) <;> rfl
theorem pollHead_result (sh : Shared) (r : MRegs) (k : Poll) : (pollHead sh r k).1.result = sh.result := by
  unfold pollHead; split
  · rfl
  · exact pollExit_result sh r k false
theorem stepMYield_result (cfg : Cfg) (sh : Shared) (r : MRegs) : (stepMYield cfg sh r).1.result = sh.result := by
  unfold stepMYield drainEnter; (repeat' split) <;> rfl
theorem drainReturn_result (sh : Shared) (r : MRegs) (b : Bool) : (drainReturn sh r b).1.result = sh.result := by
  unfold drainReturn; (repeat' split) <;> rfl
theorem shutdownReturn_result (sh : Shared) (r : MRegs) : (shutdownReturn sh r).1.result = sh.result := by
  unfold shutdownReturn; (repeat' split) <;> rfl
theorem dtorReturn_result (sh : Shared) (r : MRegs) : (dtorReturn sh r).1.result = sh.result := by
  unfold dtorReturn; rfl
theorem dtorEarly_result (sh : Shared) (r : MRegs) : (dtorEarly sh r).1.result = sh.result := by
  unfold dtorEarly; split <;> simp [dtorReturn_result]

/-- a step that changes the outcome of submission `id` is a step of an enqueue call, for one of the stated reasons -/
theorem trans_result (cfg : Cfg) (sh : Shared) (n t : Nat) (th : Thread) (alt : Nat) (id : Nat)
    (h : (trans cfg sh n t th alt).1.result id ≠ sh.result id) :
    (∃ c, callOf th = some c) ∧ Reason cfg sh ((trans cfg sh n t th alt).1.result id) := by
  cases th with
  | main pc r =>
    simp only [trans] at h ⊢
    cases pc with
    | inCall c =>
      simp only [transM] at h ⊢
      refine ⟨⟨c, rfl⟩, ?_⟩
      cases hx : (callStep cfg sh n t c).2.1 <;> simp only [hx] at h ⊢ <;> exact callStep_result cfg sh n t c id h
    | _ =>
      exfalso; apply h
      simp only [transM] <;> (repeat' split) <;>
      simp [pollExit_result, pollHead_result, stepMYield_result, drainReturn_result, shutdownReturn_result, dtorReturn_result, dtorEarly_result]
  | sub x =>
    simp only [trans] at h ⊢
    cases x with
    | run c =>
      simp only [transS] at h ⊢
      refine ⟨⟨c, rfl⟩, ?_⟩
      cases hx : (callStep cfg sh n t c).2.1 <;> simp only [hx] at h ⊢ <;> exact callStep_result cfg sh n t c id h
    | start sc => exfalso; apply h; simp only [transS]; split <;> rfl
    | done => exact absurd rfl h
  | worker w =>
    simp only [trans] at h ⊢
    cases w with
    | body tid c =>
      simp only [transW] at h ⊢
      refine ⟨⟨c, rfl⟩, ?_⟩
      cases hx : (callStep cfg sh n t c).2.1 with
      | more c' => simp only [hx] at h ⊢; exact callStep_result cfg sh n t c id h
      | done =>
        simp only [hx] at h ⊢
        rw [(bodyEnd_result cfg _ tid).1] at h ⊢
        exact callStep_result cfg sh n t c id h
    | lock => exfalso; apply h; simp only [transW]; split <;> simp [afterWait_result]
    | unlockTask tid => exfalso; apply h; simp only [transW, beginTask]; split <;> rfl
    | bYield tid sc => exfalso; apply h; simp only [transW]; split <;> simp [(bodyEnd_result cfg sh tid).1]
    | cfgUnlock tid again => exfalso; apply h; simp only [transW, taskDone]; split <;> rfl
    | _ => exfalso; apply h; simp [transW, beginTask, taskDone]

end Iora.ThreadPool
