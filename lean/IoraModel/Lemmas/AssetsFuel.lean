import IoraModel.Lemmas.AssetsWalk
/-!
C20: the fuel `kwalk` gives the path walk is always enough — the model never answers "out of fuel", i.e. the model of the
system calls is total in the intended sense.
-/
namespace Iora.Assets
open Iora

theorem foldl_max_ge_init (l : List (Loc × Entry)) (m : Nat) :
    m ≤ l.foldl (fun m e => match e.2 with | .link t => max m t.length | _ => m) m := by
  induction l generalizing m with
  | nil => simp
  | cons x xs ih =>
    simp only [List.foldl_cons]
    split
    · exact Nat.le_trans (Nat.le_max_left _ _) (ih _)
    · exact ih _

theorem foldl_max_ge_mem (l : List (Loc × Entry)) (m : Nat) (k : Loc) (t : Bytes) (h : (k, Entry.link t) ∈ l) :
    t.length ≤ l.foldl (fun m e => match e.2 with | .link t => max m t.length | _ => m) m := by
  induction l generalizing m with
  | nil => simp at h
  | cons x xs ih =>
    simp only [List.foldl_cons]
    simp only [List.mem_cons] at h
    rcases h with h | h
    · subst h
      simp only
      exact Nat.le_trans (Nat.le_max_right _ _) (foldl_max_ge_init xs _)
    · exact ih _ h

theorem lookup_mem' {β} (l : List (Loc × β)) (k : Loc) (v : β) (h : l.lookup k = some v) : (k, v) ∈ l := by
  induction l with
  | nil => simp at h
  | cons x xs ih =>
    obtain ⟨k', v'⟩ := x
    simp only [List.lookup] at h
    split at h
    · rename_i heq
      simp at heq; injection h with h; subst h; subst heq; simp
    · exact List.mem_cons_of_mem _ (ih h)

theorem get_link_le (fs : Fs) (l : Loc) (t : Bytes) (h : fs.get l = some (.link t)) : t.length ≤ fs.maxTarget := by
  cases l with
  | nil => simp [Fs.get] at h
  | cons n up =>
    simp only [Fs.get] at h
    split at h
    · exact foldl_max_ge_mem fs.entries 0 _ t (lookup_mem' _ _ _ h)
    · cases h

theorem filter_consHead_le (c : UInt8) (l : List Bytes) :
    ((consHead c l).filter (fun s => !s.isEmpty)).length ≤ (l.filter (fun s => !s.isEmpty)).length + 1 := by
  cases l with
  | nil => simp [consHead]
  | cons x xs =>
    simp only [consHead, List.filter_cons, List.isEmpty_cons, Bool.not_false, ↓reduceIte, List.length_cons]
    split <;> simp

theorem comps_length_le (p : Bytes) : (comps p).length ≤ p.length := by
  induction p with
  | nil => simp [comps, splitSlash]
  | cons c cs ih =>
    simp only [comps, splitSlash] at ih ⊢
    split
    · simp only [List.filter_cons, List.isEmpty_nil, Bool.not_true, Bool.false_eq_true, ↓reduceIte, List.length_cons]
      omega
    · have h1 := filter_consHead_le c (splitSlash cs)
      simp only [List.length_cons]
      exact Nat.le_trans h1 (Nat.succ_le_succ ih)

theorem cstr_length_le (p : Bytes) : (cstr p).length ≤ p.length := by
  unfold cstr
  exact (List.takeWhile_sublist _).length_le

/-- one step never runs out of anything, and decreases the measure `|todo| + b·(M+1)` -/
theorem step_measure (fs : Fs) (b : Nat) (cur : Loc) (todo : List Name) (fol tr : Bool) :
    (∀ r, walkStep fs b cur todo fol tr = .done r → r ≠ .error .EFUEL) ∧
    (∀ b' cur' todo' tr', walkStep fs b cur todo fol tr = .next b' cur' todo' tr' →
      todo'.length + b' * (fs.maxTarget + 1) + 1 ≤ todo.length + b * (fs.maxTarget + 1)) := by
  unfold walkStep
  cases todo with
  | nil => simp
  | cons c rest =>
    simp only
    split
    · constructor
      · intro r h; cases h
      · intro b' cur' todo' tr' h; injection h with h1 h2 h3 h4; subst h1 h3; simp only [List.length_cons]; omega
    split
    · constructor
      · intro r h; cases h
      · intro b' cur' todo' tr' h; injection h with h1 h2 h3 h4; subst h1 h3; simp only [List.length_cons]; omega
    split
    · constructor
      · intro r h; injection h with h; subst h; simp
      · intro b' cur' todo' tr' h; cases h
    split
    · constructor
      · intro r h; injection h with h; subst h; simp
      · intro b' cur' todo' tr' h; cases h
    · constructor
      · intro r h; split at h <;> (injection h with h; subst h; simp)
      · intro b' cur' todo' tr' h; split at h <;> cases h
    · constructor
      · intro r h; cases h
      · intro b' cur' todo' tr' h; injection h with h1 h2 h3 h4; subst h1 h3; simp only [List.length_cons]; omega
    · rename_i t0 hget
      have hle : (comps (cstr t0)).length ≤ fs.maxTarget :=
        Nat.le_trans (comps_length_le _) (Nat.le_trans (cstr_length_le _) (get_link_le fs _ t0 hget))
      constructor
      · intro r h
        split at h
        · injection h with h; subst h; simp
        split at h
        · injection h with h; subst h; simp
        split at h
        · injection h with h; subst h; simp
        · cases h
      · intro b' cur' todo' tr' h
        split at h
        · cases h
        split at h
        · cases h
        rename_i hb
        split at h
        · cases h
        injection h with h1 h2 h3 h4
        subst h1 h3
        simp only [List.length_append, List.length_cons]
        have : b - 1 + 1 = b := by omega
        have h2 : (b - 1) * (fs.maxTarget + 1) + (fs.maxTarget + 1) = b * (fs.maxTarget + 1) := by
          rw [← Nat.succ_mul]; simp [this]
        omega

theorem walk_enough_fuel (fs : Fs) : ∀ (f b : Nat) (cur : Loc) (todo : List Name) (fol tr : Bool),
    todo.length + b * (fs.maxTarget + 1) + 1 ≤ f → walk fs f b cur todo fol tr ≠ .error .EFUEL := by
  intro f
  induction f with
  | zero => intro b cur todo fol tr h; omega
  | succ f ih =>
    intro b cur todo fol tr h
    rw [walk_succ]
    have hs := step_measure fs b cur todo fol tr
    cases hst : walkStep fs b cur todo fol tr with
    | done r => exact hs.1 r hst
    | next b' cur' todo' tr' =>
      have := hs.2 _ _ _ _ hst
      exact ih _ _ _ _ _ (by omega)

/-- **The model of the path-taking system calls never runs out of fuel.** -/
theorem kwalk_never_efuel (fs : Fs) (fol : Bool) (p : Bytes) : kwalk fs fol p ≠ .error .EFUEL := by
  unfold kwalk
  simp only
  split
  · simp
  split
  · simp
  · apply walk_enough_fuel
    simp only [walkFuel, SYMLOOP]
    have : 40 * (fs.maxTarget + 1) ≤ (40 + 1) * (fs.maxTarget + 1) := Nat.mul_le_mul_right _ (by omega)
    omega

end Iora.Assets
