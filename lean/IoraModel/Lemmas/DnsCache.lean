import IoraModel.Model.DnsCache
/-! N5 for C19: every entry of the cache is justified by the latest store under its key, with the TTL computed by the code. -/
namespace Iora.DnsCache
open Iora Iora.Dns

variable {K V : Type} [DecidableEq K]

theorem mem_eraseKey {k : K} {l : List (K × Entry V)} {p : K × Entry V} (h : p ∈ eraseKey k l) : p ∈ l ∧ p.1 ≠ k := by
  induction l with
  | nil => cases h
  | cons x xs ih =>
    obtain ⟨k', e⟩ := x
    simp only [eraseKey] at h
    split at h
    · obtain ⟨h1, h2⟩ := ih h
      exact ⟨List.mem_cons_of_mem _ h1, h2⟩
    · rename_i hne
      cases h with
      | head => exact ⟨List.mem_cons_self, hne⟩
      | tail _ hm =>
        obtain ⟨h1, h2⟩ := ih hm
        exact ⟨List.mem_cons_of_mem _ h1, h2⟩

theorem findKey_some {k : K} {l : List (K × Entry V)} {e : Entry V} (h : findKey k l = some e) : (k, e) ∈ l := by
  induction l with
  | nil => cases h
  | cons x xs ih =>
    obtain ⟨k', e'⟩ := x
    simp only [findKey] at h
    split at h
    · rename_i hk; cases h; subst hk; exact List.mem_cons_self
    · exact List.mem_cons_of_mem _ (ih h)

/-- spec-level reading of an operation: (key, result, negative?, time of the store, TTL in seconds) it stores, given the
default TTL in force -/
def Op.stores (dflt : Nat) : Op → Option (Key × Result × Bool × Nat × Nat)
  | .put now q r => some (Key.fromQuestion q, r, false, now, resultTtl r dflt)
  | .putNeg now q r ttl _ => some (Key.fromQuestion q, r, true, now, ttl)
  | .putNegAuto now q r _ => some (Key.fromQuestion q, r, true, now, negativeTtl r dflt)
  | _ => none

/-- operations that replace or drop whatever is stored under `k` -/
def Op.touches (k : Key) : Op → Bool
  | .put _ q _ => decide (Key.fromQuestion q = k)
  | .putNeg _ q _ _ _ => decide (Key.fromQuestion q = k)
  | .putNegAuto _ q _ _ => decide (Key.fromQuestion q = k)
  | .remove q => decide (Key.fromQuestion q = k)
  | .clear _ => true
  | _ => false

/-- the entry `(k, e)` was written by an operation of the history `ops` that stores exactly this result under `k`, with a
positive TTL from which the expiration instant was computed, and nothing later touched `k` -/
def Justified (d0 : DC) (ops : List Op) (p : Key × Entry Cached) : Prop :=
  ∃ pre op post t ttl, ops = pre ++ op :: post ∧
    op.stores (d0.run pre).defaultTtl = some (p.1, p.2.value.result, p.2.value.isNegative, t, ttl) ∧
    0 < ttl ∧ p.2.expiration = t + ttl * nsPerSec ∧ ∀ o ∈ post, o.touches p.1 = false

theorem Justified.snoc {d0 : DC} {ops : List Op} {p : Key × Entry Cached} (h : Justified d0 ops p) (o : Op)
    (ho : o.touches p.1 = false) : Justified d0 (ops ++ [o]) p := by
  obtain ⟨pre, op, post, t, ttl, e, hs, hpos, hexp, hpost⟩ := h
  refine ⟨pre, op, post ++ [o], t, ttl, by rw [e]; simp, hs, hpos, hexp, ?_⟩
  intro x hx
  rcases List.mem_append.mp hx with h1 | h1
  · exact hpost x h1
  · cases h1 with
    | head => exact ho
    | tail _ h2 => cases h2

theorem run_snoc (d : DC) (ops : List Op) (o : Op) : d.run (ops ++ [o]) = (d.run ops).step o := by
  simp [DC.run, List.foldl_append]

theorem findKey_none {k : K} {l : List (K × Entry V)} (h : findKey k l = none) : ∀ p ∈ l, p.1 ≠ k := by
  induction l with
  | nil => intro p hp; cases hp
  | cons x xs ih =>
    obtain ⟨k', e'⟩ := x
    simp only [findKey] at h
    split at h
    · cases h
    · rename_i hne
      intro p hp
      cases hp with
      | head => exact hne
      | tail _ hm => exact ih h p hm

theorem EC.get_entries (c : EC K V) (k : K) (now : Nat) : ∀ p ∈ (c.get k now).2.1.entries, p ∈ c.entries := by
  intro p hp
  unfold EC.get at hp
  split at hp
  · exact hp
  · split at hp
    · exact hp
    · exact (mem_eraseKey hp).1

theorem EC.remove_entries (c : EC K V) (k : K) : ∀ p ∈ (c.remove k).1.entries, p ∈ c.entries ∧ p.1 ≠ k := by
  intro p hp
  unfold EC.remove at hp
  split at hp
  · rename_i hn
    exact ⟨hp, findKey_none hn p hp⟩
  · exact mem_eraseKey hp

theorem EC.set_entries (c : EC K V) (k : K) (v : V) (ttl now : Nat) : ∀ p ∈ (c.set k v ttl now).entries,
    p = (k, { value := v, expiration := now + (if ttl > 0 then ttl else c.ttl) * nsPerSec }) ∨ (p ∈ c.entries ∧ p.1 ≠ k) := by
  intro p hp
  unfold EC.set at hp
  cases hp with
  | head => left; rfl
  | tail _ hm => right; exact mem_eraseKey hm

omit [DecidableEq K] in
theorem EC.purge_entries (c : EC K V) (now : Nat) : ∀ p ∈ (c.purge now).1.entries, p ∈ c.entries := by
  intro p hp
  unfold EC.purge at hp
  exact (List.mem_filter.mp hp).1

/-- entries of the underlying cache after `store` (with the zero-TTL guard) are old entries under other keys, plus
(unless the TTL is 0) the new one -/
theorem store_entries (d : DC) (q : Question) (v : Cached) (ttl : Nat) (now : Nat) :
    ∀ p ∈ (d.store q v ttl true now).cache.entries,
      (p ∈ d.cache.entries ∧ p.1 ≠ Key.fromQuestion q) ∨
      (0 < ttl ∧ p = (Key.fromQuestion q, { value := v, expiration := now + ttl * nsPerSec })) := by
  intro p hp
  unfold DC.store at hp
  have hsub := EC.get_entries d.cache (Key.fromQuestion q) now
  by_cases h0 : ttl = 0
  · simp only [h0, Bool.true_and, decide_true, ↓reduceIte] at hp
    obtain ⟨h1, h2⟩ := EC.remove_entries _ _ p hp
    exact Or.inl ⟨hsub p h1, h2⟩
  · have hpos : 0 < ttl := by omega
    simp only [h0, Bool.true_and, decide_false, Bool.false_eq_true, ↓reduceIte] at hp
    rcases EC.set_entries _ _ _ _ _ p hp with h1 | ⟨h1, h2⟩
    · right
      refine ⟨hpos, ?_⟩
      rw [h1]
      simp only [gt_iff_lt, hpos, ↓reduceIte]
    · exact Or.inl ⟨hsub p h1, h2⟩

theorem DC.get_cache (d : DC) (q : Question) (now : Nat) :
    (d.get q now).2.cache = (d.cache.get (Key.fromQuestion q) now).2.1 := by
  unfold DC.get
  split
  rename_i existing c1 ev heq
  rw [heq]
  dsimp only
  split <;> rfl

theorem DC.get_some {d : DC} {q : Question} {now : Nat} {v : Cached} (h : (d.get q now).1 = some v) :
    ∃ e, findKey (Key.fromQuestion q) d.cache.entries = some e ∧ e.value = v ∧ live e.expiration now = true := by
  unfold DC.get at h
  split at h
  rename_i existing c1 ev heq
  dsimp only at h
  split at h
  · cases h
  · rename_i e
    cases h
    unfold EC.get at heq
    split at heq
    · cases heq
    · rename_i e' hf
      split at heq
      · rename_i hl
        cases heq
        exact ⟨e', hf, rfl, hl⟩
      · cases heq

/-- one operation preserves "every entry is justified by the history" -/
theorem step_justified (d0 : DC) (ops : List Op) (o : Op)
    (h : ∀ p ∈ (d0.run ops).cache.entries, Justified d0 ops p) :
    ∀ p ∈ (d0.run (ops ++ [o])).cache.entries, Justified d0 (ops ++ [o]) p := by
  intro p hp
  rw [run_snoc] at hp
  have hstore : ∀ (q : Question) (v : Cached) (ttl now : Nat),
      p ∈ ((d0.run ops).store q v ttl true now).cache.entries →
      o.stores (d0.run ops).defaultTtl = some (Key.fromQuestion q, v.result, v.isNegative, now, ttl) →
      o.touches (Key.fromQuestion q) = true → (∀ k, k ≠ Key.fromQuestion q → o.touches k = false) →
      Justified d0 (ops ++ [o]) p := by
    intro q v ttl now hp hs _ hother
    rcases store_entries _ q v ttl now p hp with ⟨h1, h2⟩ | ⟨hpos, h2⟩
    · exact (h p h1).snoc o (hother _ h2)
    · subst h2
      exact ⟨ops, o, [], now, ttl, rfl, hs, hpos, rfl, by intro x hx; cases hx⟩
  cases o with
  | put now q r =>
    refine hstore q _ _ now hp rfl (by simp [Op.touches]) ?_
    intro k hk; simp only [Op.touches, decide_eq_false_iff_not]; exact fun e => hk e.symm
  | putNeg now q r ttl msg =>
    refine hstore q _ _ now hp rfl (by simp [Op.touches]) ?_
    intro k hk; simp only [Op.touches, decide_eq_false_iff_not]; exact fun e => hk e.symm
  | putNegAuto now q r msg =>
    refine hstore q _ _ now hp rfl (by simp [Op.touches]) ?_
    intro k hk; simp only [Op.touches, decide_eq_false_iff_not]; exact fun e => hk e.symm
  | get now q =>
    simp only [DC.step] at hp
    rw [DC.get_cache] at hp
    exact (h p (EC.get_entries _ _ _ p hp)).snoc _ rfl
  | remove q =>
    simp only [DC.step, DC.remove] at hp
    obtain ⟨h1, h2⟩ := EC.remove_entries _ _ p hp
    refine (h p h1).snoc _ ?_
    simp only [Op.touches, decide_eq_false_iff_not]; exact fun e => h2 e.symm
  | clear reset =>
    simp only [DC.step, DC.clear] at hp
    cases hp
  | setDefault ttl =>
    simp only [DC.step, DC.setDefaultTtl] at hp
    exact (h p hp).snoc _ rfl
  | purge now =>
    simp only [DC.step, DC.purge] at hp
    exact (h p (EC.purge_entries _ _ p hp)).snoc _ rfl

theorem run_justified (ttl0 : Nat) : ∀ (rest done : List Op),
    (∀ p ∈ ((DC.new ttl0).run done).cache.entries, Justified (DC.new ttl0) done p) →
    ∀ p ∈ ((DC.new ttl0).run (done ++ rest)).cache.entries, Justified (DC.new ttl0) (done ++ rest) p := by
  intro rest
  induction rest with
  | nil => intro done h; simpa using h
  | cons o rest ih =>
    intro done h
    have := ih (done ++ [o]) (step_justified _ done o h)
    simpa [List.append_assoc] using this

/-- every entry of the cache, after any history, is justified by the latest store under its key -/
theorem all_justified (ttl0 : Nat) (ops : List Op) :
    ∀ p ∈ ((DC.new ttl0).run ops).cache.entries, Justified (DC.new ttl0) ops p := by
  have := run_justified ttl0 ops [] (by intro p hp; cases hp)
  simpa using this

/-- **N5.** An answer is served only if the history contains a store of exactly that result under the same normalised key,
with a positive TTL (as computed by the code at that moment) that has not elapsed, and no later put/remove/clear touched the key. -/
theorem served_only_fresh (ttl0 : Nat) (ops : List Op) (q : Question) (now : Nat) (v : Cached)
    (h : (((DC.new ttl0).run ops).get q now).1 = some v) :
    ∃ pre op post t ttl, ops = pre ++ op :: post ∧
      op.stores ((DC.new ttl0).run pre).defaultTtl = some (Key.fromQuestion q, v.result, v.isNegative, t, ttl) ∧
      0 < ttl ∧ now < t + ttl * nsPerSec ∧ ∀ o ∈ post, o.touches (Key.fromQuestion q) = false := by
  obtain ⟨e, hf, hv, hl⟩ := DC.get_some h
  obtain ⟨pre, op, post, t, ttl, e1, hs, hpos, hexp, hpost⟩ := all_justified ttl0 ops _ (findKey_some hf)
  subst hv
  refine ⟨pre, op, post, t, ttl, e1, hs, hpos, ?_, hpost⟩
  dsimp only at hexp
  rw [← hexp]
  simpa [live, Gen.Dns.getStrict] using hl

/-- the TTL `put` uses is no larger than the TTL of any record of the stored result (raw sections and typed records) -/
theorem foldl_min_le (l : List Nat) (a : Nat) : l.foldl min a ≤ a ∧ ∀ x ∈ l, l.foldl min a ≤ x := by
  induction l generalizing a with
  | nil => exact ⟨Nat.le_refl _, by intro x hx; cases hx⟩
  | cons y ys ih =>
    simp only [List.foldl]
    obtain ⟨h1, h2⟩ := ih (min a y)
    refine ⟨Nat.le_trans h1 (Nat.min_le_left _ _), ?_⟩
    intro x hx
    cases hx with
    | head => exact Nat.le_trans h1 (Nat.min_le_right _ _)
    | tail _ hm => exact h2 x hm

theorem resultTtl_le (r : Result) (dflt : Nat) (x : Nat)
    (hx : x ∈ r.answers.map (·.ttl) ++ r.authority.map (·.ttl) ++ r.additional.map (·.ttl) ++ r.typed.map (·.ttl)) :
    resultTtl r dflt ≤ x := by
  unfold resultTtl
  dsimp only
  obtain ⟨h1, h2⟩ := foldl_min_le (r.answers.map (·.ttl) ++ r.authority.map (·.ttl) ++ r.additional.map (·.ttl) ++ r.typed.map (·.ttl)) u32max
  split
  · rename_i he
    have := h2 x hx
    rw [he] at this
    have : dflt % 4294967296 < 4294967296 := Nat.mod_lt _ (by decide)
    simp only [u32max] at *
    omega
  · exact h2 x hx

end Iora.DnsCache
