import IoraModel.Lemmas.TpNoRestart
/-!
# C09 — effect of every transition on the queue, the worker map `_threads`, and the flags `_shutdown` / "quiesced"
-/
namespace Iora.ThreadPool

/-- the step leaves the queue, the worker map and the flags alone -/
structure SameQ (sh sh' : Shared) : Prop where
  tasks : sh'.tasks = sh.tasks
  threads : sh'.threads = sh.threads
  shutdown : sh'.shutdown = sh.shutdown
  quiesced : sh'.quiesced = sh.quiesced

theorem SameQ.rfl' (sh : Shared) : SameQ sh sh := ⟨rfl, rfl, rfl, rfl⟩

theorem SameQ.trans {a b c : Shared} (h1 : SameQ a b) (h2 : SameQ b c) : SameQ a c :=
  ⟨h2.tasks.trans h1.tasks, h2.threads.trans h1.threads, h2.shutdown.trans h1.shutdown, h2.quiesced.trans h1.quiesced⟩

theorem bodyEnd_sameQ (cfg : Cfg) (sh : Shared) (id : Nat) : SameQ sh (bodyEnd cfg sh id).1 := by
  unfold bodyEnd; split <;> exact ⟨rfl, rfl, rfl, rfl⟩
theorem pollExit_sameQ (sh : Shared) (r : MRegs) (k : Poll) (d : Bool) : SameQ sh (pollExit sh r k d).1 := by
  unfold pollExit drainReturn; (repeat' split) <;> exact ⟨rfl, rfl, rfl, rfl⟩
theorem pollHead_sameQ (sh : Shared) (r : MRegs) (k : Poll) : SameQ sh (pollHead sh r k).1 := by
  unfold pollHead; split
  · exact ⟨rfl, rfl, rfl, rfl⟩
  · exact pollExit_sameQ sh r k false
theorem stepMYield_sameQ (cfg : Cfg) (sh : Shared) (r : MRegs) : SameQ sh (stepMYield cfg sh r).1 := by
  unfold stepMYield drainEnter; (repeat' split) <;> exact ⟨rfl, rfl, rfl, rfl⟩
theorem drainReturn_sameQ (sh : Shared) (r : MRegs) (b : Bool) : SameQ sh (drainReturn sh r b).1 := by
  unfold drainReturn; (repeat' split) <;> exact ⟨rfl, rfl, rfl, rfl⟩
theorem shutdownReturn_sameQ (sh : Shared) (r : MRegs) : SameQ sh (shutdownReturn sh r).1 := by
  unfold shutdownReturn; (repeat' split) <;> exact ⟨rfl, rfl, rfl, rfl⟩
theorem dtorReturn_sameQ (sh : Shared) (r : MRegs) : SameQ sh (dtorReturn sh r).1 := by
  unfold dtorReturn; exact ⟨rfl, rfl, rfl, rfl⟩
theorem dtorEarly_sameQ (sh : Shared) (r : MRegs) : SameQ sh (dtorEarly sh r).1 := by
  unfold dtorEarly; split
  · exact dtorReturn_sameQ sh r
  · exact ⟨rfl, rfl, rfl, rfl⟩

/-- the enqueue call: nothing, push (only while not shut down; the caller then either is about to create a worker or
saw `_threads.size() >= _maxSize`), or creation + registration of a worker -/
inductive CallEff (cfg : Cfg) (sh : Shared) (n : Nat) (c : CallSt) (sh' : Shared) (out : CallOut) (post : Post) : Prop
  | same (h : SameQ sh sh') (hp : post = .none ∨ post = .wakeOne) (hc : ∀ rest cid, c ≠ .inCall rest cid .create)
      (ho : ∀ rest cid, out ≠ .more (.inCall rest cid .create))
  | push (rest : List Act) (cid : Nat) (hc : c = .inCall rest cid .lock) (hs : sh.shutdown = false)
      (ht : sh'.tasks = sh.tasks ++ [cid]) (h2 : sh'.threads = sh.threads) (h3 : sh'.shutdown = sh.shutdown)
      (h4 : sh'.quiesced = sh.quiesced) (hp : post = .none)
      (ho : (out = .more (.inCall rest cid .create) ∧ sh.threads.length < cfg.effMax) ∨
            (out = .more (.inCall rest cid .unlock) ∧ cfg.effMax ≤ sh.threads.length))
  | create (rest : List Act) (cid : Nat) (hc : c = .inCall rest cid .create) (h1 : sh'.tasks = sh.tasks)
      (ht : sh'.threads = sh.threads ++ [n]) (h3 : sh'.shutdown = sh.shutdown) (h4 : sh'.quiesced = sh.quiesced)
      (hp : post = .spawn newWorker) (ho : out = .more (.inCall rest cid .unlock))

theorem nextCall_not_create (rest : List Act) (r' : List Act) (cid : Nat) : nextCall rest ≠ .more (.inCall r' cid .create) := by
  unfold nextCall; split <;> simp

theorem callStep_eff (cfg : Cfg) (sh : Shared) (n : Nat) (t : Tid) (c : CallSt) :
    CallEff cfg sh n c (callStep cfg sh n t c).1 (callStep cfg sh n t c).2.1 (callStep cfg sh n t c).2.2 := by
  cases c with
  | yield_ sc =>
    cases sc with
    | nil => exact .same ⟨rfl, rfl, rfl, rfl⟩ (Or.inl rfl) (by simp) (by simp [callStep])
    | cons a rest =>
      simp only [callStep]; split
      · exact .same ⟨rfl, rfl, rfl, rfl⟩ (Or.inl rfl) (by simp) (by simp)
      · exact .same ⟨rfl, rfl, rfl, rfl⟩ (Or.inl rfl) (by simp) (fun r c => nextCall_not_create rest r c)
  | inCall rest cid e =>
    cases e <;> simp only [callStep]
    · split
      · exact .same ⟨rfl, rfl, rfl, rfl⟩ (Or.inl rfl) (by simp) (by simp)
      · split
        · exact .same ⟨rfl, rfl, rfl, rfl⟩ (Or.inl rfl) (by simp) (by simp)
        · next hs _ =>
          split
          · next hlt => exact .push rest cid rfl (by simpa using hs) rfl rfl rfl rfl rfl (Or.inl ⟨rfl, hlt⟩)
          · next hge => exact .push rest cid rfl (by simpa using hs) rfl rfl rfl rfl rfl (Or.inr ⟨rfl, by omega⟩)
    · exact .create rest cid rfl rfl rfl rfl rfl rfl rfl
    · exact .same ⟨rfl, rfl, rfl, rfl⟩ (Or.inl rfl) (by simp) (by simp)
    · exact .same ⟨rfl, rfl, rfl, rfl⟩ (Or.inr rfl) (by simp) (fun r c => nextCall_not_create rest r c)
    · exact .same ⟨rfl, rfl, rfl, rfl⟩ (Or.inl rfl) (by simp) (fun r c => nextCall_not_create rest r c)

/-- the code after `wait_for`: the worker stays, decides to exit (only with an EMPTY queue — P5), or pops the front task -/
inductive WaitEff (sh : Shared) (t : Tid) (sh' : Shared) (w' : WSt) : Prop
  | cont (h : SameQ sh sh') (hw : w' = .unlockCont)
  | exitIdle (h : SameQ sh sh') (he : sh.tasks = []) (hs : sh.shutdown = false)
      (hw : (w' = .detach ∧ t ∈ sh.threads) ∨ (w' = .unlockExit ∧ t ∉ sh.threads))
  | exitShutdown (h : SameQ sh sh') (he : sh.tasks = []) (hs : sh.shutdown = true) (hw : w' = .unlockExit)
  | pop (id : Nat) (ht : sh.tasks = id :: sh'.tasks) (h2 : sh'.threads = sh.threads) (h3 : sh'.shutdown = sh.shutdown)
      (h4 : sh'.quiesced = sh.quiesced) (hw : w' = .unlockTask id)

theorem afterWait_eff (cfg : Cfg) (sh : Shared) (t : Tid) (res : Bool) (hres : res = false → waitPred sh = false) :
    WaitEff sh t (afterWait cfg sh t res).1 (afterWait cfg sh t res).2 := by
  unfold afterWait
  split
  · next hr =>
    have hr' : res = false := by simpa using hr
    have hp := hres hr'
    simp [waitPred] at hp
    split
    · exact .cont ⟨rfl, rfl, rfl, rfl⟩ rfl
    · split
      · next hm => exact .exitIdle ⟨rfl, rfl, rfl, rfl⟩ (by simpa using hp.2) hp.1 (Or.inl ⟨rfl, hm⟩)
      · next hm => exact .exitIdle ⟨rfl, rfl, rfl, rfl⟩ (by simpa using hp.2) hp.1 (Or.inr ⟨rfl, hm⟩)
  · split
    · next hc =>
      simp at hc
      exact .exitShutdown ⟨rfl, rfl, rfl, rfl⟩ (by simpa using hc.2) hc.1 rfl
    · split
      · exact .cont ⟨rfl, rfl, rfl, rfl⟩ rfl
      · next id rest heq => exact .pop id heq rfl rfl rfl rfl

theorem reacq_eff (cfg : Cfg) (sh : Shared) (t : Tid) (late : Bool) :
    WaitEff sh t (reacq cfg sh t late).1 (reacq cfg sh t late).2 ∨
    (SameQ sh (reacq cfg sh t late).1 ∧ (reacq cfg sh t late).2 = .waitReady) := by
  unfold reacq
  split
  · left
    have := afterWait_eff cfg { sh with owner := some t, waiting := sh.waiting - 1 } t (waitPred sh) (by intro h; simpa [waitPred] using h)
    cases this with
    | cont h hw => exact .cont ⟨h.tasks, h.threads, h.shutdown, h.quiesced⟩ hw
    | exitIdle h he hs hw => exact .exitIdle ⟨h.tasks, h.threads, h.shutdown, h.quiesced⟩ he hs hw
    | exitShutdown h he hs hw => exact .exitShutdown ⟨h.tasks, h.threads, h.shutdown, h.quiesced⟩ he hs hw
    | pop id ht h2 h3 h4 hw => exact .pop id ht h2 h3 h4 hw
  · split
    · left
      have := afterWait_eff cfg { sh with owner := some t, waiting := sh.waiting - 1 } t true (by simp)
      cases this with
      | cont h hw => exact .cont ⟨h.tasks, h.threads, h.shutdown, h.quiesced⟩ hw
      | exitIdle h he hs hw => exact .exitIdle ⟨h.tasks, h.threads, h.shutdown, h.quiesced⟩ he hs hw
      | exitShutdown h he hs hw => exact .exitShutdown ⟨h.tasks, h.threads, h.shutdown, h.quiesced⟩ he hs hw
      | pop id ht h2 h3 h4 hw => exact .pop id ht h2 h3 h4 hw
    · right; exact ⟨⟨rfl, rfl, rfl, rfl⟩, rfl⟩

/-- controller pcs at which the controller neither is about to create a worker nor has a join target -/
def calmPc : MPc → Bool
  | .inCall (.inCall _ _ .create) => false
  | .jU _ | .jJoin _ | .jDetach _ => false
  | _ => true

theorem calm_atCreate (pc : MPc) (r : MRegs) (h : calmPc pc = true) : atCreate (.main pc r) = false ∧ targetOf (.main pc r) = none := by
  cases pc <;> simp [calmPc] at h <;> simp [atCreate, targetOf]
  next c => cases c with
    | yield_ sc => simp [atCreate]
    | inCall rest cid e => cases e <;> simp [calmPc] at h <;> simp [atCreate]

theorem pollExit_calm (sh : Shared) (r : MRegs) (k : Poll) (d : Bool) : calmPc (pollExit sh r k d).2.1 = true := by
  unfold pollExit drainReturn; (repeat' split) <;> simp [calmPc]
theorem pollHead_calm (sh : Shared) (r : MRegs) (k : Poll) : calmPc (pollHead sh r k).2.1 = true := by
  unfold pollHead; split
  · simp [calmPc]
  · exact pollExit_calm sh r k false
theorem stepMYield_calm (cfg : Cfg) (sh : Shared) (r : MRegs) : calmPc (stepMYield cfg sh r).2.1 = true := by
  unfold stepMYield drainEnter; (repeat' split) <;> simp [calmPc]
theorem drainReturn_calm (sh : Shared) (r : MRegs) (b : Bool) : calmPc (drainReturn sh r b).2.1 = true := by
  unfold drainReturn; (repeat' split) <;> simp [calmPc]
theorem shutdownReturn_calm (sh : Shared) (r : MRegs) : calmPc (shutdownReturn sh r).2.1 = true := by
  unfold shutdownReturn; (repeat' split) <;> simp [calmPc]
theorem dtorReturn_calm (sh : Shared) (r : MRegs) : calmPc (dtorReturn sh r).2.1 = true := by
  unfold dtorReturn; simp [calmPc]
theorem dtorEarly_calm (sh : Shared) (r : MRegs) : calmPc (dtorEarly sh r).2.1 = true := by
  unfold dtorEarly; split
  · exact dtorReturn_calm sh r
  · simp [calmPc]

/-- what one step of a runnable thread does, as far as the queue / worker-map invariants are concerned -/
inductive StepEff (cfg : Cfg) (sh : Shared) (n t : Nat) (th : Thread) (alt : Nat) (sh' : Shared) (th' : Thread) (post : Post) : Prop
  /-- nothing relevant happens -/
  | quiet (h : SameQ sh sh') (hp : ∀ nt, post = .spawn nt → isWorker nt = false ∧ isMain th = true)
      (hc : atCreate th = false) (hc' : atCreate th' = false) (hw : isWorker th' = isWorker th)
      (htail : tailW th' = tailW th) (hgone : goneW th' = goneW th) (htgt : targetOf th' = targetOf th)
      (hdone : th' = .worker .done → th = .worker .done)
  /-- `_tasks.emplace(f)` -/
  | push (cid : Nat) (hs : sh.shutdown = false) (ht : sh'.tasks = sh.tasks ++ [cid]) (h2 : sh'.threads = sh.threads)
      (h3 : sh'.shutdown = sh.shutdown) (h4 : sh'.quiesced = sh.quiesced) (hp : post = .none)
      (hc : atCreate th = false) (hc' : (atCreate th' = true ∧ sh.threads.length < cfg.effMax) ∨ (atCreate th' = false ∧ cfg.effMax ≤ sh.threads.length))
      (hw : isWorker th' = isWorker th) (htail : tailW th' = tailW th) (hgone : goneW th' = goneW th)
      (htgt : targetOf th' = targetOf th) (hdone : th' ≠ .worker .done) (hl : locksM th = true)
  /-- `std::thread t(...)` + `_threads.emplace` (inside the critical section) -/
  | create (hc : atCreate th = true ∨ ∃ r, th = .main .cC r) (hc' : atCreate th' = false) (h1 : sh'.tasks = sh.tasks)
      (ht : sh'.threads = sh.threads ++ [n]) (h3 : sh'.shutdown = sh.shutdown) (h4 : sh'.quiesced = sh.quiesced)
      (hp : post = .spawn newWorker) (hw : isWorker th' = isWorker th) (htail : tailW th' = tailW th)
      (hgone : goneW th' = goneW th) (htgt : targetOf th' = targetOf th) (hdone : th' ≠ .worker .done)
  /-- idle time-out above the minimum: the worker decides to exit; the queue is empty in the same critical section -/
  | exitIdle (h : SameQ sh sh') (hp : post = .none) (hth : isWorker th = true ∧ tailW th = false ∧ atCreate th = false)
      (he : sh.tasks = []) (hs : sh.shutdown = false)
      (hw : (th' = .worker .detach ∧ t ∈ sh.threads) ∨ (th' = .worker .unlockExit ∧ t ∉ sh.threads))
  /-- `_shutdown && _tasks.empty()`: the worker decides to exit -/
  | exitShutdown (h : SameQ sh sh') (hp : post = .none) (hth : isWorker th = true ∧ tailW th = false ∧ atCreate th = false)
      (he : sh.tasks = []) (hs : sh.shutdown = true) (hw : th' = .worker .unlockExit)
  /-- the worker takes the front task -/
  | pop (id : Nat) (ht : sh.tasks = id :: sh'.tasks) (h2 : sh'.threads = sh.threads) (h3 : sh'.shutdown = sh.shutdown)
      (h4 : sh'.quiesced = sh.quiesced) (hp : post = .none) (hth : isWorker th = true ∧ tailW th = false ∧ atCreate th = false)
      (hw : th' = .worker (.unlockTask id))
  /-- idle exit: `_threads.erase(it)` -/
  | selfErase (hth : th = .worker .detach) (hw : th' = .worker .unlockExit) (h1 : sh'.tasks = sh.tasks)
      (ht : sh'.threads = sh.threads.erase t) (h3 : sh'.shutdown = sh.shutdown) (h4 : sh'.quiesced = sh.quiesced) (hp : post = .none)
  /-- the worker lambda returns -/
  | finishW (hth : th = .worker .unlockExit) (hw : th' = .worker .done) (h : SameQ sh sh') (hp : post = .none)
  /-- join loop: take one entry out of `_threads` -/
  | pick (r : MRegs) (hth : th = .main .jL r) (hw : th' = .main (.jU alt) r) (ha : alt ∈ sh.threads) (h1 : sh'.tasks = sh.tasks)
      (ht : sh'.threads = sh.threads.erase alt) (h3 : sh'.shutdown = sh.shutdown) (h4 : sh'.quiesced = sh.quiesced) (hp : post = .none)
  /-- join loop: `_threads` is empty -/
  | quiesce (r : MRegs) (hth : th = .main .jL r) (hw : th' = .main .jUnone r) (he : sh.threads = []) (h1 : sh'.tasks = sh.tasks)
      (ht : sh'.threads = sh.threads) (h3 : sh'.shutdown = sh.shutdown) (h4 : sh'.quiesced = true) (hp : post = .none)
  /-- join loop: `join()` (or, in DETACHED mode, `detach()`) has returned -/
  | joined (w : Tid) (r : MRegs) (hth : th = .main (.jJoin w) r ∨ th = .main (.jDetach w) r) (hw : th' = .main .jL r)
      (h : SameQ sh sh') (hp : post = .none)
  /-- `_shutdown = true` under the mutex -/
  | setShut (r r' : MRegs) (hth : th = .main .sFlagL r) (hw : th' = .main .sFlagU r') (hs : sh.shutdown = false) (h1 : sh'.tasks = sh.tasks)
      (ht : sh'.threads = sh.threads) (h3 : sh'.shutdown = true) (h4 : sh'.quiesced = sh.quiesced) (hp : post = .none)
  /-- inside `reset()` / `start()` (only with `Cfg.allowRestart`) -/
  | restart (hth : restartTh th = true)

theorem post_none_sub (nt : Thread) (h : Post.none = Post.spawn nt) : ∃ sc, nt = .sub (.start sc) := by cases h
theorem post_wakeOne_sub (nt : Thread) (h : Post.wakeOne = Post.spawn nt) : ∃ sc, nt = .sub (.start sc) := by cases h
theorem post_wakeAll_sub (nt : Thread) (h : Post.wakeAll = Post.spawn nt) : ∃ sc, nt = .sub (.start sc) := by cases h

theorem bodyEnd_class (cfg : Cfg) (sh : Shared) (id : Nat) :
    atCreate (.worker (bodyEnd cfg sh id).2) = false ∧ tailW (.worker (bodyEnd cfg sh id).2) = false ∧
    goneW (.worker (bodyEnd cfg sh id).2) = false ∧ (.worker (bodyEnd cfg sh id).2 : Thread) ≠ .worker .done := by
  unfold bodyEnd; split <;> simp [atCreate, tailW, goneW]

theorem atCreate_body (id : Nat) (c : CallSt) :
    atCreate (.worker (.body id c)) = true ↔ ∃ rest cid, c = .inCall rest cid .create := by
  cases c with
  | yield_ sc => simp [atCreate]
  | inCall rest cid e => cases e <;> simp [atCreate]
theorem atCreate_run (c : CallSt) : atCreate (.sub (.run c)) = true ↔ ∃ rest cid, c = .inCall rest cid .create := by
  cases c with
  | yield_ sc => simp [atCreate]
  | inCall rest cid e => cases e <;> simp [atCreate]
theorem atCreate_inCall (c : CallSt) (r : MRegs) : atCreate (.main (.inCall c) r) = true ↔ ∃ rest cid, c = .inCall rest cid .create := by
  cases c with
  | yield_ sc => simp [atCreate]
  | inCall rest cid e => cases e <;> simp [atCreate]

theorem bool_false_of_not_true {b : Bool} (h : ¬ b = true) : b = false := by simpa using h

/-- generic: a caller wrapped in `wrap` performs one step of its call -/
theorem callEff_lift (cfg : Cfg) (sh : Shared) (n t : Nat) (alt : Nat) (c : CallSt) (th th' : Thread) (sh' : Shared) (post : Post)
    (out : CallOut)
    (he : CallEff cfg sh n c sh' out post)
    (hat : atCreate th = true ↔ ∃ rest cid, c = .inCall rest cid .create)
    (hat' : ∀ c', out = .more c' → (atCreate th' = true ↔ ∃ rest cid, c' = .inCall rest cid .create))
    (hdone : out = .done → atCreate th' = false)
    (hw : isWorker th' = isWorker th) (htail : tailW th' = tailW th) (hgone : goneW th' = goneW th)
    (htgt : targetOf th' = targetOf th) (hnd : th' ≠ .worker .done) (hlk : locksM th = c.locks) :
    StepEff cfg sh n t th alt sh' th' post := by
  cases he with
  | same h hp hc ho =>
    refine .quiet h ?_ ?_ ?_ hw htail hgone htgt (fun e => absurd e hnd)
    · intro nt e; rcases hp with hp | hp <;> rw [hp] at e <;> cases e
    · apply bool_false_of_not_true; intro e; obtain ⟨r, c', e'⟩ := hat.mp e; exact hc r c' e'
    · cases hout : out with
      | done => exact hdone hout
      | more c' =>
        apply bool_false_of_not_true; intro e
        obtain ⟨r, cid, e'⟩ := (hat' c' hout).mp e
        exact ho r cid (by rw [hout, e'])
  | push rest cid hc hs ht h2 h3 h4 hp ho =>
    refine .push cid hs ht h2 h3 h4 hp ?_ ?_ hw htail hgone htgt hnd (by rw [hlk, hc]; rfl)
    · apply bool_false_of_not_true; intro e; obtain ⟨r, c', e'⟩ := hat.mp e; rw [hc] at e'; cases e'
    · rcases ho with ⟨ho, hl⟩ | ⟨ho, hl⟩
      · left; exact ⟨(hat' _ ho).mpr ⟨rest, cid, rfl⟩, hl⟩
      · right; refine ⟨?_, hl⟩
        apply bool_false_of_not_true; intro e
        obtain ⟨r, c', e'⟩ := (hat' _ ho).mp e; cases e'
  | create rest cid hc h1 ht h3 h4 hp ho =>
    refine .create (Or.inl (hat.mpr ⟨rest, cid, hc⟩)) ?_ h1 ht h3 h4 hp hw htail hgone htgt hnd
    apply bool_false_of_not_true; intro e
    obtain ⟨r, c', e'⟩ := (hat' _ ho).mp e; cases e'

theorem waitEff_lift (cfg : Cfg) (sh0 sh : Shared) (n t : Nat) (alt : Nat) (th : Thread) (sh' : Shared) (w' : WSt)
    (hq : SameQ sh0 sh) (he : WaitEff sh t sh' w') (hth : isWorker th = true ∧ tailW th = false ∧ atCreate th = false)
    (hg : goneW th = false) (ht : targetOf th = none) :
    StepEff cfg sh0 n t th alt sh' (.worker w') .none := by
  cases he with
  | cont h hw =>
    subst hw
    exact .quiet (hq.trans h) (fun nt e => by cases e) hth.2.2 (by simp [atCreate]) (by rw [hth.1]; rfl) (by rw [hth.2.1]; rfl)
      (by rw [hg]; rfl) (by rw [ht]; rfl) (by intro e; cases e)
  | exitIdle h he hs hw =>
    rw [hq.tasks] at he; rw [hq.shutdown] at hs; rw [hq.threads] at hw
    rcases hw with ⟨hw, hm⟩ | ⟨hw, hm⟩ <;> subst hw
    · exact .exitIdle (hq.trans h) rfl hth he hs (Or.inl ⟨rfl, hm⟩)
    · exact .exitIdle (hq.trans h) rfl hth he hs (Or.inr ⟨rfl, hm⟩)
  | exitShutdown h he hs hw =>
    rw [hq.tasks] at he; rw [hq.shutdown] at hs
    subst hw; exact .exitShutdown (hq.trans h) rfl hth he hs rfl
  | pop id ht' h2 h3 h4 hw =>
    rw [hq.tasks] at ht'
    subst hw; exact .pop id ht' (h2.trans hq.threads) (h3.trans hq.shutdown) (h4.trans hq.quiesced) rfl hth rfl

theorem transW_eff (cfg : Cfg) (sh : Shared) (n t : Nat) (w : WSt) (alt : Nat) :
    StepEff cfg sh n t (.worker w) alt (transW cfg sh n t w).1 (.worker (transW cfg sh n t w).2.1) (transW cfg sh n t w).2.2 := by
  cases w with
  | body id c =>
    simp only [transW]
    have he := callStep_eff cfg sh n t c
    cases hx : (callStep cfg sh n t c).2.1 with
    | more c' =>
      simp only []
      refine callEff_lift cfg sh n t alt c _ _ _ _ _ he (atCreate_body id c) ?_ ?_ rfl rfl rfl rfl (by simp) rfl
      · intro c'' e; rw [hx] at e; cases e; exact atCreate_body id c'
      · intro e; rw [hx] at e; cases e
    | done =>
      simp only []
      have hb := bodyEnd_class cfg (callStep cfg sh n t c).1 id
      have hq := bodyEnd_sameQ cfg (callStep cfg sh n t c).1 id
      rw [hx] at he
      cases he with
      | same h hp hc ho =>
        refine .quiet (h.trans hq) ?_ ?_ hb.1 rfl ?_ ?_ rfl (fun e => absurd e hb.2.2.2)
        · intro nt e; rcases hp with hp | hp <;> rw [hp] at e <;> cases e
        · apply bool_false_of_not_true; intro e; obtain ⟨r, c', e'⟩ := (atCreate_body id c).mp e; exact hc r c' e'
        · rw [hb.2.1]; simp [tailW]
        · rw [hb.2.2.1]; simp [goneW]
      | push rest cid hc hs ht h2 h3 h4 hp ho => rcases ho with ⟨ho, _⟩ | ⟨ho, _⟩ <;> cases ho
      | create rest cid hc h1 ht h3 h4 hp ho => cases ho
  | lock =>
    simp only [transW]
    split
    · have := afterWait_eff cfg { sh with owner := some t } t true (by simp)
      exact waitEff_lift cfg sh { sh with owner := some t } n t alt (.worker .lock) _ _ ⟨rfl, rfl, rfl, rfl⟩ this
        (by simp [isWorker, tailW, atCreate]) (by simp [goneW]) (by simp [targetOf])
    · exact .quiet ⟨rfl, rfl, rfl, rfl⟩ (fun nt e => by cases e) (by simp [atCreate]) (by simp [atCreate]) rfl
        (by simp [tailW]) (by simp [goneW]) (by simp [targetOf]) (by intro e; cases e)
  | detach => exact .selfErase rfl rfl rfl rfl rfl rfl rfl
  | unlockExit => exact .finishW rfl rfl ⟨rfl, rfl, rfl, rfl⟩ rfl
  | unlockTask id =>
    simp only [transW, beginTask]
    split <;> exact .quiet ⟨rfl, rfl, rfl, rfl⟩ (fun nt e => by cases e) (by simp [atCreate]) (by simp [atCreate]) rfl
        (by simp [tailW]) (by simp [goneW]) (by simp [targetOf]) (by intro e; cases e)
  | bYield id sc =>
    simp only [transW]
    split
    · have hb := bodyEnd_class cfg sh id
      exact .quiet (bodyEnd_sameQ cfg sh id) (fun nt e => by cases e) (by simp [atCreate]) hb.1 rfl
        (by rw [hb.2.1]; simp [tailW]) (by rw [hb.2.2.1]; simp [goneW]) rfl (fun e => absurd e hb.2.2.2)
    · exact .quiet ⟨rfl, rfl, rfl, rfl⟩ (fun nt e => by cases e) (by simp [atCreate]) (by simp [atCreate]) rfl
        (by simp [tailW]) (by simp [goneW]) (by simp [targetOf]) (by intro e; cases e)
  | cfgUnlock id again =>
    simp only [transW, taskDone]
    split <;> exact .quiet ⟨rfl, rfl, rfl, rfl⟩ (fun nt e => by cases e) (by simp [atCreate]) (by simp [atCreate]) rfl
        (by simp [tailW]) (by simp [goneW]) (by simp [targetOf]) (by intro e; cases e)
  | _ =>
    simp only [transW, beginTask, taskDone]
    exact .quiet ⟨rfl, rfl, rfl, rfl⟩ (fun nt e => by cases e) (by simp [atCreate]) (by simp [atCreate]) rfl
        (by simp [tailW]) (by simp [goneW]) (by simp [targetOf]) (by intro e; first | exact e | cases e)

theorem transS_eff (cfg : Cfg) (sh : Shared) (n t : Nat) (x : SSt) (alt : Nat) :
    StepEff cfg sh n t (.sub x) alt (transS cfg sh n t x).1 (.sub (transS cfg sh n t x).2.1) (transS cfg sh n t x).2.2 := by
  cases x with
  | run c =>
    simp only [transS]
    have he := callStep_eff cfg sh n t c
    cases hx : (callStep cfg sh n t c).2.1 with
    | more c' =>
      simp only []
      refine callEff_lift cfg sh n t alt c _ _ _ _ _ he (atCreate_run c) ?_ ?_ rfl rfl rfl rfl (by simp) rfl
      · intro c'' e; rw [hx] at e; cases e; exact atCreate_run c'
      · intro e; rw [hx] at e; cases e
    | done =>
      simp only []
      refine callEff_lift cfg sh n t alt c _ _ _ _ _ he (atCreate_run c) ?_ ?_ rfl rfl rfl rfl (by simp) rfl
      · intro c'' e; rw [hx] at e; cases e
      · intro _; simp [atCreate]
  | start sc =>
    simp only [transS]
    split <;> exact .quiet ⟨rfl, rfl, rfl, rfl⟩ (fun nt e => by cases e) (by simp [atCreate]) (by simp [atCreate]) rfl
        (by simp [tailW]) (by simp [goneW]) (by simp [targetOf]) (by intro e; cases e)
  | done =>
    simp only [transS]
    exact .quiet ⟨rfl, rfl, rfl, rfl⟩ (fun nt e => by cases e) (by simp [atCreate]) (by simp [atCreate]) rfl
        (by simp [tailW]) (by simp [goneW]) (by simp [targetOf]) (by intro e; cases e)

/-- a controller step that leaves the queue etc. alone and ends at a calm pc -/
theorem quiet_main (cfg : Cfg) (sh sh' : Shared) (n t alt : Nat) (pc pc' : MPc) (r r' : MRegs) (post : Post)
    (h : SameQ sh sh') (hp : ∀ nt, post = .spawn nt → isWorker nt = false)
    (hc : calmPc pc = true) (hc' : calmPc pc' = true) :
    StepEff cfg sh n t (.main pc r) alt sh' (.main pc' r') post :=
  .quiet h (fun nt e => ⟨hp nt e, rfl⟩) (calm_atCreate pc r hc).1 (calm_atCreate pc' r' hc').1 rfl rfl rfl
    (by rw [(calm_atCreate pc r hc).2, (calm_atCreate pc' r' hc').2]) (by intro e; cases e)

theorem transM_eff (cfg : Cfg) (sh : Shared) (n t : Nat) (pc : MPc) (r : MRegs) (alt : Nat) :
    StepEff cfg sh n t (.main pc r) alt (transM cfg sh n t pc r alt).1
      (.main (transM cfg sh n t pc r alt).2.1.1 (transM cfg sh n t pc r alt).2.1.2) (transM cfg sh n t pc r alt).2.2 := by
  cases pc with
  | inCall c =>
    simp only [transM]
    have he := callStep_eff cfg sh n t c
    cases hx : (callStep cfg sh n t c).2.1 with
    | more c' =>
      simp only []
      refine callEff_lift cfg sh n t alt c _ _ _ _ _ he (atCreate_inCall c r) ?_ ?_ rfl rfl rfl ?_ (by simp) rfl
      · intro c'' e; rw [hx] at e; cases e; exact atCreate_inCall c' r
      · intro e; rw [hx] at e; cases e
      · simp [targetOf]
    | done =>
      simp only []
      refine callEff_lift cfg sh n t alt c _ _ _ _ _ he (atCreate_inCall c r) ?_ ?_ rfl rfl rfl ?_ (by simp) rfl
      · intro c'' e; rw [hx] at e; cases e
      · intro _; simp [atCreate]
      · simp [targetOf]
  | cC =>
    simp only [transM]
    exact .create (Or.inr ⟨r, rfl⟩) (by simp [atCreate]) rfl rfl rfl rfl rfl rfl rfl rfl rfl (by simp)
  | jL =>
    simp only [transM]
    split
    · next he => exact .quiesce r rfl rfl he rfl rfl rfl rfl rfl
    · split
      · next hm => exact .pick r rfl rfl hm rfl rfl rfl rfl rfl
      · exact quiet_main cfg _ _ n t alt _ _ _ _ _ ⟨rfl, rfl, rfl, rfl⟩ (fun nt e => by cases e) (by simp [calmPc]) (by simp [calmPc])
  | jJoin w => simp only [transM]; exact .joined w r (Or.inl rfl) rfl ⟨rfl, rfl, rfl, rfl⟩ rfl
  | jDetach w => simp only [transM]; exact .joined w r (Or.inr rfl) rfl ⟨rfl, rfl, rfl, rfl⟩ rfl
  | jU w =>
    simp only [transM]
    split <;> exact .quiet ⟨rfl, rfl, rfl, rfl⟩ (fun nt e => by cases e) (by simp [atCreate]) (by simp [atCreate]) rfl rfl rfl
      (by simp [targetOf]) (by intro e; cases e)
  | sFlagL =>
    simp only [transM]
    split
    · exact quiet_main cfg _ _ n t alt _ _ _ _ _ ⟨rfl, rfl, rfl, rfl⟩ (fun nt e => by cases e) (by simp [calmPc]) (by simp [calmPc])
    · next hs => exact .setShut r _ rfl rfl (by simpa using hs) rfl rfl rfl rfl rfl
  | mSpawn sc =>
    simp only [transM]
    exact quiet_main cfg _ _ n t alt _ _ _ _ _ ⟨rfl, rfl, rfl, rfl⟩ (fun nt e => by cases e; rfl) (by simp [calmPc]) (by simp [calmPc])
  | mYield =>
    simp only [transM]
    exact quiet_main cfg _ _ n t alt _ _ _ _ _ (stepMYield_sameQ cfg sh r) (fun nt e => by cases e) (by simp [calmPc]) (stepMYield_calm cfg sh r)
  | dInfU =>
    simp only [transM]
    exact quiet_main cfg _ _ n t alt _ _ _ _ _
      (SameQ.trans (⟨rfl, rfl, rfl, rfl⟩ : SameQ sh { sh with owner := none }) (pollHead_sameQ _ _ _))
      (fun nt e => by cases e) (by simp [calmPc]) (pollHead_calm _ _ _)
  | pollU k =>
    simp only [transM]
    split
    · exact quiet_main cfg _ _ n t alt _ _ _ _ _
        (SameQ.trans (⟨rfl, rfl, rfl, rfl⟩ : SameQ sh { sh with owner := none }) (pollExit_sameQ _ _ _ _))
        (fun nt e => by cases e) (by simp [calmPc]) (pollExit_calm _ _ _ _)
    · exact quiet_main cfg _ _ n t alt _ _ _ _ _ ⟨rfl, rfl, rfl, rfl⟩ (fun nt e => by cases e) (by simp [calmPc]) (by simp [calmPc])
  | pollZ k =>
    simp only [transM]
    exact quiet_main cfg _ _ n t alt _ _ _ _ _ (pollHead_sameQ _ _ _) (fun nt e => by cases e) (by simp [calmPc]) (pollHead_calm _ _ _)
  | finU k =>
    cases k <;> simp only [transM]
    · exact quiet_main cfg _ _ n t alt _ _ _ _ _
        (SameQ.trans (⟨rfl, rfl, rfl, rfl⟩ : SameQ sh { sh with owner := none }) (drainReturn_sameQ { sh with owner := none } r false))
        (fun nt e => by cases e) (by simp [calmPc]) (drainReturn_calm { sh with owner := none } r false)
    all_goals exact quiet_main cfg _ _ n t alt _ _ _ _ _ ⟨rfl, rfl, rfl, rfl⟩ (fun nt e => by cases e) (by simp [calmPc]) (by simp [calmPc])
  | sFlagUA ep =>
    simp only [transM]
    split
    · exact quiet_main cfg _ _ n t alt _ _ _ _ _
        (SameQ.trans (⟨rfl, rfl, rfl, rfl⟩ : SameQ sh { sh with owner := none }) (dtorEarly_sameQ { sh with owner := none } r))
        (fun nt e => by cases e) (by simp [calmPc]) (dtorEarly_calm { sh with owner := none } r)
    · split
      · exact quiet_main cfg _ _ n t alt _ _ _ _ _
          (SameQ.trans (⟨rfl, rfl, rfl, rfl⟩ : SameQ sh { sh with owner := none }) (shutdownReturn_sameQ { sh with owner := none } r))
          (fun nt e => by cases e) (by simp [calmPc]) (shutdownReturn_calm { sh with owner := none } r)
      · exact quiet_main cfg _ _ n t alt _ _ _ _ _ ⟨rfl, rfl, rfl, rfl⟩ (fun nt e => by cases e) (by simp [calmPc]) (by simp [calmPc])
  | sDoneZ ep =>
    simp only [transM]
    split
    · exact quiet_main cfg _ _ n t alt _ _ _ _ _ (shutdownReturn_sameQ sh r) (fun nt e => by cases e) (by simp [calmPc]) (shutdownReturn_calm sh r)
    · exact quiet_main cfg _ _ n t alt _ _ _ _ _ ⟨rfl, rfl, rfl, rfl⟩ (fun nt e => by cases e) (by simp [calmPc]) (by simp [calmPc])
  | mSpawnCtl ix =>
    simp only [transM]
    exact quiet_main cfg _ _ n t alt _ _ _ _ _ ⟨rfl, rfl, rfl, rfl⟩ (fun nt e => by cases e; rfl) (by simp [calmPc]) (by simp [calmPc])
  | rsL => exact .restart rfl
  | rsU => exact .restart rfl
  | stL => exact .restart rfl
  | stU => exact .restart rfl
  | kL => exact .restart rfl
  | kC => exact .restart rfl
  | kU => exact .restart rfl
  | sBcast =>
    simp only [transM]
    split
    · exact quiet_main cfg _ _ n t alt _ _ _ _ _ ⟨rfl, rfl, rfl, rfl⟩ (fun nt e => by cases e) (by simp [calmPc]) (by simp [calmPc])
    · exact quiet_main cfg _ _ n t alt _ _ _ _ _ (pollHead_sameQ _ _ _) (fun nt e => by cases e) (by simp [calmPc]) (pollHead_calm _ _ _)
  | sChkU =>
    simp only [transM]
    split
    · exact quiet_main cfg _ _ n t alt _ _ _ _ _
        (SameQ.trans (⟨rfl, rfl, rfl, rfl⟩ : SameQ sh { sh with owner := none }) (pollHead_sameQ _ _ _))
        (fun nt e => by cases e) (by simp [calmPc]) (pollHead_calm _ _ _)
    · exact quiet_main cfg _ _ n t alt _ _ _ _ _ ⟨rfl, rfl, rfl, rfl⟩ (fun nt e => by cases e) (by simp [calmPc]) (by simp [calmPc])
  | jUnone =>
    simp only [transM]
    split
    · exact quiet_main cfg _ _ n t alt _ _ _ _ _ ⟨rfl, rfl, rfl, rfl⟩ (fun nt e => by cases e) (by simp [calmPc]) (by simp [calmPc])
    · exact quiet_main cfg _ _ n t alt _ _ _ _ _
        (SameQ.trans (⟨rfl, rfl, rfl, rfl⟩ : SameQ sh { sh with owner := none, complete := r.ep }) (shutdownReturn_sameQ { sh with owner := none, complete := r.ep } r))
        (fun nt e => by cases e) (by simp [calmPc]) (shutdownReturn_calm { sh with owner := none, complete := r.ep } r)
  | p2Z =>
    simp only [transM]
    split
    · exact quiet_main cfg _ _ n t alt _ _ _ _ _ ⟨rfl, rfl, rfl, rfl⟩ (fun nt e => by cases e) (by simp [calmPc]) (by simp [calmPc])
    · split
      · exact quiet_main cfg _ _ n t alt _ _ _ _ _ ⟨rfl, rfl, rfl, rfl⟩ (fun nt e => by cases e) (by simp [calmPc]) (by simp [calmPc])
      · exact quiet_main cfg _ _ n t alt _ _ _ _ _ (pollHead_sameQ _ _ _) (fun nt e => by cases e) (by simp [calmPc]) (pollHead_calm _ _ _)
  | p2Grace =>
    simp only [transM]
    exact quiet_main cfg _ _ n t alt _ _ _ _ _ (pollHead_sameQ _ _ _) (fun nt e => by cases e) (by simp [calmPc]) (pollHead_calm _ _ _)
  | p5U =>
    simp only [transM]
    exact quiet_main cfg _ _ n t alt _ _ _ _ _
      (SameQ.trans (⟨rfl, rfl, rfl, rfl⟩ : SameQ sh { sh with owner := none }) (dtorReturn_sameQ { sh with owner := none } r))
      (fun nt e => by cases e) (by simp [calmPc]) (dtorReturn_calm { sh with owner := none } r)
  | _ =>
    simp only [transM] <;> (repeat' split) <;>
    exact quiet_main cfg _ _ n t alt _ _ _ _ _ ⟨rfl, rfl, rfl, rfl⟩ (fun nt e => by cases e) (by simp [calmPc]) (by simp [calmPc])

theorem trans_eff (cfg : Cfg) (sh : Shared) (n t : Nat) (th : Thread) (alt : Nat) :
    StepEff cfg sh n t th alt (trans cfg sh n t th alt).1 (trans cfg sh n t th alt).2.1 (trans cfg sh n t th alt).2.2 := by
  cases th with
  | main pc r => exact transM_eff cfg sh n t pc r alt
  | sub x => exact transS_eff cfg sh n t x alt
  | worker w => exact transW_eff cfg sh n t w alt

end Iora.ThreadPool
