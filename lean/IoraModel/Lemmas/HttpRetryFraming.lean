import IoraModel.Model.HttpClientFraming
import IoraModel.Model.HttpRetry
import IoraModel.Lemmas.HttpClose
import IoraModel.Lemmas.HttpRetryCache
/-!
# Link between the byte-level framing model (C15) and the abstract retry/cache model (C17)

`Model/HttpClientFraming.lean` (C15, namespace `Iora.Http`) computes the reuse decision of `executeRequest` FROM THE BYTES
(`executeReceive … : LoopOut × Bool`, the `Bool` = "connection dropped").  `Model/HttpRetry.lean` (C17, namespace
`Iora.HttpRetry`) takes what the framer found as a free input (`Attempt.recvs`, `Attempt.residue`, `RespInfo`) and says what
happens to the connection cache.  Here the inputs of C17 are COMPUTED from C15's run (`absAttempt`), the two models of
`responseRequestsClose` are shown equal (`rrc_agree`), and the two reuse decisions are shown to be the same decision
(`reuse_decision_agrees`).  Consequence at byte level (`received_byte_beyond_message_not_cached`): whenever any received byte lies
beyond the framed message, the connection is not in the cache afterwards.
-/
namespace Iora.HttpRetry.Link
open Iora Iora.HttpRetry

/-! ## 1. the abstraction: C17's inputs computed from C15's run -/

/-- what C17 needs to know of a complete response, read off C15's parsed response (`forceEvict` = surplus was handed to the framer) -/
def absInfo (r : Http.Resp) (forceEvict : Bool) : RespInfo :=
  { status := r.status, conn := Http.hdrFind r.headers (Http.ascii "Connection"), version := r.version, surplus := forceEvict }

/-- the C17 event of a `receiveSync` that returned data, from C15's outcome of that loop turn (`failed` cannot come out of a data
turn; it is mapped to `otherErr`, which has the same result class, so that no theorem needs the unreachability) -/
def absDataOut : Http.LoopOut → RecvEv
  | .more => .more
  | .response r fe => .complete (absInfo r fe)
  | .framingError .cap => .capExceeded
  | .framingError _ => .malformed
  | .failed _ => .otherErr

/-- the C17 event of ONE `receiveSync` call answered by `r` when the loop is in state `st` -/
def absEv (method : Bytes) (cap : Nat) (st : Http.St) : Http.Recv → RecvEv
  | .data seg => absDataOut (Http.recvStep method cap st (.data seg)).2
  | .timeout => .timeout
  | .overflow => .overflow
  | .shuttingDown => .shuttingDown
  | .peerClosed =>
    if st.headersDone ∧ st.framing.mode = .closeDelimited then
      .peerClosed (some (absInfo { st.resp with body := st.data.drop st.bodyStart } true))
    else .peerClosed none
  | .otherError => .otherErr

/-- events of the reads of one delivery (mirrors `Http.runPieces`) -/
def absPieces (method : Bytes) (cap : Nat) : Http.St → List Bytes → List RecvEv
  | _, [] => []
  | st, p :: ps =>
    match Http.recvStep method cap st (.data p) with
    | (st', .more) => .more :: absPieces method cap st' ps
    | (_, o) => [absDataOut o]

/-- events of a whole script, one per `receiveSync` call the C15 loop makes (mirrors `Http.runScript`) -/
def absScript (method : Bytes) (cap : Nat) : Http.St → List Http.Recv → List RecvEv
  | _, [] => []
  | st, .data seg :: rs =>
    match Http.runPieces method cap st (Http.splitReads Gen.Http.clientReadSize seg) with
    | (st', .more, _) => absPieces method cap st (Http.splitReads Gen.Http.clientReadSize seg) ++ absScript method cap st' rs
    | _ => absPieces method cap st (Http.splitReads Gen.Http.clientReadSize seg)
  | st, r :: rs =>
    match Http.recvStep method cap st r with
    | (st', .more) => absEv method cap st r :: absScript method cap st' rs
    | _ => [absEv method cap st r]

/-- the C17 attempt of a C15 script: lease granted, connect/setSync/send/setAsync succeed (defaults); the receive events and the
answer of the residual-data probe are those C15 computes from the bytes -/
def absAttempt (method : Bytes) (cap : Nat) (script : List Http.Recv) : Attempt :=
  { recvs := absScript method cap {} script, residue := (Http.runScript method cap {} script).2.2 }

/-- result class of C15's loop outcome in C17's vocabulary; a script that runs out (`more`) is C17's silent peer: the next
`receiveSync` times out (`std::runtime_error`) -/
def absResult : Http.LoopOut → Except Exn RespInfo
  | .more => .error .runtime
  | .response r fe => .ok (absInfo r fe)
  | .framingError _ => .error .framing
  | .failed _ => .error .runtime

/-- C17's receive-loop result for C15's final state and outcome -/
def absRes (st : Http.St) : Http.LoopOut → RecvRes
  | .more => .fail .runtime
  | .response r fe => .done (absInfo r fe) fe (decide (st.framing.mode = .closeDelimited))
  | .framingError _ => .fail .framing
  | .failed _ => .fail .runtime

/-! ## 2. C15 facts needed (proved here; the C15 lemma files are not touched) -/

theorem bodyPhase_complete_mode (cap : Nat) (st st2 : Http.St) (h : Http.bodyPhase cap st = (st2, .complete)) :
    st2.framing.mode ≠ .closeDelimited := by
  unfold Http.bodyPhase at h
  split at h
  · rename_i hm
    cases h
    simp [hm]
  · rename_i hm
    split at h
    · cases h
    · cases h
      simp [hm]
  · rename_i hm
    split at h
    · cases h
    · cases h
    · cases h
      simp [hm]
  · cases h

/-- a response completed by a data read is never close-delimited -/
theorem frameResponse_complete_mode (m : Bytes) (cap : Nat) (st st2 : Http.St)
    (h : Http.frameResponse m cap st = (st2, .complete)) : st2.framing.mode ≠ .closeDelimited := by
  fun_induction Http.frameResponse m cap st
  all_goals first
    | exact bodyPhase_complete_mode _ _ _ h
    | (cases h; done)
    | (rename_i ih; exact ih h)
    | trace_state

/-- faithfulness of `absScript`: an answer of `receiveSync` other than data always ends C15's loop (the `more` arm of the last
clause of `runScript` / `absScript` is dead) -/
theorem recvStep_nondata_terminal (m : Bytes) (cap : Nat) (st : Http.St) (rv : Http.Recv) (h : ∀ seg, rv ≠ .data seg) :
    (Http.recvStep m cap st rv).2 ≠ .more := by
  cases rv with
  | data seg => exact absurd rfl (h seg)
  | peerClosed =>
    simp only [Http.recvStep]
    split <;> simp
  | timeout => simp [Http.recvStep]
  | overflow => simp [Http.recvStep]
  | shuttingDown => simp [Http.recvStep]
  | otherError => simp [Http.recvStep]

/-- faithfulness of `absDataOut`: a data turn never yields `failed` (its `otherErr` arm is dead) -/
theorem recvStep_data_not_failed (m : Bytes) (cap : Nat) (st : Http.St) (seg : Bytes) (f : Http.Fail) :
    (Http.recvStep m cap st (.data seg)).2 ≠ .failed f := by
  simp only [Http.recvStep]
  split
  · simp
  · split
    · simp
    · split <;> simp

/-- one data turn that ends the loop: the C17 event is terminal and yields the C17 result of C15's outcome -/
theorem data_step_link (m : Bytes) (cap : Nat) (st st' : Http.St) (p : Bytes) (o : Http.LoopOut)
    (h : Http.recvStep m cap st (.data p) = (st', o)) (ho : o ≠ .more) :
    isMore (absDataOut o) = false ∧ terminalRes (absDataOut o) = absRes st' o := by
  cases o with
  | more => exact absurd rfl ho
  | framingError k => cases k <;> simp [absDataOut, isMore, terminalRes, absRes]
  | failed f => simp [absDataOut, isMore, terminalRes, absRes]
  | response r fe =>
    have hmode : st'.framing.mode ≠ .closeDelimited := by
      unfold Http.recvStep at h
      simp only at h
      split at h
      · cases h
      · split at h
        · cases h
        · split at h
          · cases h
          · rename_i st2 hfr
            cases h
            exact frameResponse_complete_mode _ _ _ _ hfr
          · cases h
    simp [absDataOut, isMore, terminalRes, absRes, absInfo, hmode]

theorem loopRes_more (rs : List RecvEv) : loopRes (.more :: rs) = loopRes rs := by
  simp [loopRes, isMore, List.dropWhile]

theorem loopRes_term (e : RecvEv) (rs : List RecvEv) (he : isMore e = false) : loopRes (e :: rs) = terminalRes e := by
  simp [loopRes, List.dropWhile, he]

/-- the reads of one delivery: C17's loop over the abstracted events does what C15's `runPieces` does -/
theorem pieces_link (m : Bytes) (cap : Nat) : ∀ (ps : List Bytes) (st : Http.St) (rest : List RecvEv),
    loopRes (absPieces m cap st ps ++ rest) =
      (match (Http.runPieces m cap st ps).2.1 with
       | .more => loopRes rest
       | o => absRes (Http.runPieces m cap st ps).1 o) := by
  intro ps
  induction ps with
  | nil => intro st rest; simp [absPieces, Http.runPieces]
  | cons p ps ih =>
    intro st rest
    cases hstep : Http.recvStep m cap st (.data p) with
    | mk st' o =>
      by_cases ho : o = .more
      · subst ho
        simp only [absPieces, Http.runPieces, hstep, List.cons_append, loopRes_more]
        exact ih st' rest
      · have hl := data_step_link m cap st st' p o hstep ho
        cases o with
        | more => exact absurd rfl ho
        | response r fe => simp only [absPieces, Http.runPieces, hstep, List.cons_append, loopRes_term _ _ hl.1, hl.2]
        | framingError k => simp only [absPieces, Http.runPieces, hstep, List.cons_append, loopRes_term _ _ hl.1, hl.2]
        | failed f => simp only [absPieces, Http.runPieces, hstep, List.cons_append, loopRes_term _ _ hl.1, hl.2]

/-- **the loops agree**: C17's receive loop, run over the events abstracted from the C15 run, ends in the C17 image of C15's
final state and outcome (`more` = script ran out = silent peer = time-out) -/
theorem script_link (m : Bytes) (cap : Nat) : ∀ (script : List Http.Recv) (st : Http.St),
    loopRes (absScript m cap st script) =
      absRes (Http.runScript m cap st script).1 (Http.runScript m cap st script).2.1 := by
  intro script
  induction script with
  | nil => intro st; simp [absScript, Http.runScript, loopRes, absRes]
  | cons r rs ih =>
    intro st
    cases r with
    | data seg =>
      have hp := pieces_link m cap (Http.splitReads Gen.Http.clientReadSize seg) st
      cases hrun : Http.runPieces m cap st (Http.splitReads Gen.Http.clientReadSize seg) with
      | mk st' or =>
        obtain ⟨o, res⟩ := or
        rw [hrun] at hp
        cases o with
        | more =>
          simp only [absScript, Http.runScript, hrun]
          rw [hp]
          exact ih st'
        | response r fe =>
          have := hp []
          simp only [List.append_nil] at this
          simp only [absScript, Http.runScript, hrun, this]
        | framingError k =>
          have := hp []
          simp only [List.append_nil] at this
          simp only [absScript, Http.runScript, hrun, this]
        | failed f =>
          have := hp []
          simp only [List.append_nil] at this
          simp only [absScript, Http.runScript, hrun, this]
    | timeout => simp [absScript, Http.runScript, Http.recvStep, absEv, loopRes, isMore, terminalRes, absRes]
    | overflow => simp [absScript, Http.runScript, Http.recvStep, absEv, loopRes, isMore, terminalRes, absRes]
    | shuttingDown => simp [absScript, Http.runScript, Http.recvStep, absEv, loopRes, isMore, terminalRes, absRes]
    | otherError => simp [absScript, Http.runScript, Http.recvStep, absEv, loopRes, isMore, terminalRes, absRes]
    | peerClosed =>
      by_cases hc : st.headersDone = true ∧ st.framing.mode = .closeDelimited
      · simp [absScript, Http.runScript, Http.recvStep, absEv, loopRes, isMore, terminalRes, absRes, hc, absInfo]
      · simp [absScript, Http.runScript, Http.recvStep, absEv, loopRes, isMore, terminalRes, absRes, hc]

/-! ## 3. C17 side: what `underLease` does with the cache when connect / setSync / send / setAsync succeed -/

/-- whatever was cached before: after a successful pre-send region the session in use IS the cached entry of `h` -/
theorem preSend_ok (c : Client) (h : Host) (a : Attempt) (hc : a.connect = .ok) (hs : a.setSync = true) :
    ∃ c1 sid ev, preSend c h a = (c1, .ok sid, ev) ∧ c1.conns.lookup h = some sid := by
  unfold preSend acquireConnection
  cases hl : c.conns.lookup h with
  | none =>
    simp only [connectNew, hc, hs, if_true]
    exact ⟨_, _, _, rfl, by simp [List.lookup]⟩
  | some sid =>
    by_cases hu : entryUsable c sid a = true
    · simp only [hu, hs, if_true]
      exact ⟨_, _, _, rfl, hl⟩
    · simp only [hu, connectNew, hc, hs, if_true, Bool.false_eq_true, if_false]
      exact ⟨_, _, _, rfl, by simp [List.lookup]⟩

/-- for ANY client state: with connect / setSync / send / setAsync succeeding, `h` has no cached connection after `underLease`
iff the receive loop failed or the response was not `reusable`; and the logged result is the loop's result -/
theorem underLease_ok (cfg : Cfg) (c : Client) (h : Host) (a : Attempt) (hc : a.connect = .ok) (hs : a.setSync = true)
    (hsend : a.send = true) (hasync : a.setAsync = true) :
    (((underLease cfg c h a).1.conns.lookup h = none) ↔
      (match loopRes a.recvs with
       | .fail _ => True
       | .done r fe cd => reusable cfg r fe cd a.residue = false)) ∧
    (underLease cfg c h a).2.1.result =
      (match loopRes a.recvs with
       | .fail e => .error e
       | .done r _ _ => .ok r) := by
  obtain ⟨c1, sid, ev, hpre, hlk⟩ := preSend_ok c h a hc hs
  unfold underLease
  rw [hpre]
  simp only [hsend, Bool.not_true, Bool.false_eq_true, if_false, recvLoop_eq]
  cases hres : loopRes a.recvs with
  | fail e =>
    simp only [dropConnection, hlk, if_true, lookup_eraseHost]
    simp
  | done r fe cd =>
    simp only [hasync, Bool.and_true]
    by_cases hr : reusable cfg r fe cd a.residue = true
    · simp [hr, hlk]
    · have hr' : reusable cfg r fe cd a.residue = false := by simpa using hr
      simp [hr', dropConnection, hlk, lookup_eraseHost]

/-! ## 4. the two models of `responseRequestsClose` agree -/

theorem splitOn_eq_splitComma : ∀ v : Bytes, Http.splitOn 44 v = splitComma v := by
  intro v
  induction v with
  | nil => rfl
  | cons x xs ih =>
    by_cases hx : x = 44
    · simp [Http.splitOn, splitComma, isComma, hx, ih]
    · simp only [Http.splitOn, splitComma, isComma, hx, ih, if_false, decide_false, Bool.false_eq_true]
      cases splitComma xs <;> rfl

theorem isOWS_eq : Http.isOWS = isOws := by
  funext c
  rw [Bool.eq_iff_iff]
  simp [Http.isOWS, isOws]

theorem trim_eq_trimOws (s : Bytes) : Http.trim s = trimOws s := by
  simp [Http.trim, Http.trimRight, Http.trimLeft, trimOws, isOWS_eq]

theorem asciiLower_eq : Http.asciiLower = HttpRetry.asciiLower := by
  funext c
  simp [Http.asciiLower, HttpRetry.asciiLower, UInt8.le_iff_toNat_le]

/-- C15's token list of a `Connection` value (split at `,`, trim, fold case, drop empty elements) IS C17's specification list -/
theorem connTokens_eq (v : Bytes) : Http.connTokens v = HttpRetry.connTokens v := by
  unfold Http.connTokens HttpRetry.connTokens
  rw [splitOn_eq_splitComma]
  induction splitComma v with
  | nil => rfl
  | cons e es ih =>
    simp only [List.map_cons, List.filter_cons, List.filterMap_cons, segTok]
    rw [ih]
    by_cases he : trimOws e = []
    · simp [he, trim_eq_trimOws, Http.lower]
    · simp [he, trim_eq_trimOws, Http.lower, asciiLower_eq]

theorem ascii_close : Http.ascii "close" = tokClose := by decide
theorem ascii_keepAlive : Http.ascii "keep-alive" = tokKeepAlive := by decide
theorem ascii_10 : Http.ascii "1.0" = [49, 46, 48] := by decide

/-- **the two models of the C++ function `responseRequestsClose` agree** on every parsed response: C15's (split at commas, trim,
lower, filter non-empty, `contains`) and C17's (the index loop `find(',')` / `find_first_not_of` / `find_last_not_of` / `substr`) -/
theorem rrc_agree (r : Http.Resp) :
    Http.responseRequestsClose r =
      HttpRetry.responseRequestsClose (Http.hdrFind r.headers (Http.ascii "Connection")) r.version := by
  unfold Http.responseRequestsClose
  cases hf : Http.hdrFind r.headers (Http.ascii "Connection") with
  | none =>
    simp only [responseRequestsClose_absent, ascii_10]
    by_cases hv : r.version = [49, 46, 48] <;> simp [hv]
  | some v =>
    simp only [responseRequestsClose_spec, connTokens_eq, ascii_close, ascii_keepAlive, ascii_10, List.contains_iff_mem]
    by_cases h1 : tokClose ∈ HttpRetry.connTokens v <;> by_cases h2 : tokKeepAlive ∈ HttpRetry.connTokens v <;>
      by_cases hv : r.version = [49, 46, 48] <;> simp [h1, h2, hv]

/-! ## 5. the main link theorem -/

/-- **The reuse decision of the byte-level model IS the reuse decision of the cache model.**  For every method, caps,
`reuseConnections`, every script of `receiveSync` answers (terminal or not), and ANY client state `c` and host `h`
(cached entry or not — a successful pre-send region always leaves the session in use as the cached entry of `h`):
run C15's `executeReceive` on the script, and C17's `underLease` on the attempt ABSTRACTED from the same script
(`absAttempt`: events and residual-probe answer computed from the bytes by C15's own loop). Then
* C15 says "connection dropped" iff C17 has nothing cached for `h` afterwards, and
* the result classes agree (`absResult`: response ↦ `ok` with the abstracted info, framing error ↦ `HttpFramingError`,
  failed ↦ `std::runtime_error`; a script that runs out with `more` is C17's silent peer: time-out, `std::runtime_error`,
  dropped on both sides). -/
theorem reuse_decision_agrees (method : Bytes) (mrb jmp : Nat) (reuse : Bool) (script : List Http.Recv)
    (c : Client) (h : Host) :
    (((Http.executeReceive method mrb jmp reuse script).2 = true) ↔
      ((underLease { reuse := reuse } c h (absAttempt method (Http.effectiveCap mrb jmp) script)).1.conns.lookup h = none)) ∧
    (underLease { reuse := reuse } c h (absAttempt method (Http.effectiveCap mrb jmp) script)).2.1.result =
      absResult (Http.executeReceive method mrb jmp reuse script).1 := by
  have hul := underLease_ok { reuse := reuse } c h (absAttempt method (Http.effectiveCap mrb jmp) script) rfl rfl rfl rfl
  have hlink := script_link method (Http.effectiveCap mrb jmp) script {}
  have hrecvs : (absAttempt method (Http.effectiveCap mrb jmp) script).recvs =
      absScript method (Http.effectiveCap mrb jmp) {} script := rfl
  have hresid : (absAttempt method (Http.effectiveCap mrb jmp) script).residue =
      (Http.runScript method (Http.effectiveCap mrb jmp) {} script).2.2 := rfl
  rw [hrecvs, hlink, hresid] at hul
  unfold Http.executeReceive
  simp only
  cases hrun : Http.runScript method (Http.effectiveCap mrb jmp) {} script with
  | mk st or =>
    obtain ⟨o, residual⟩ := or
    rw [hrun] at hul
    cases o with
    | more => simpa [absRes, absResult] using hul
    | framingError k => simpa [absRes, absResult] using hul
    | failed f => simpa [absRes, absResult] using hul
    | response r fe =>
      simp only [absRes, reusable_eq] at hul
      refine ⟨?_, by simpa [absResult] using hul.2⟩
      rw [hul.1]
      simp only [absInfo, ← rrc_agree]
      generalize (reuse && !Http.responseRequestsClose r && !fe && !decide (st.framing.mode = Http.Mode.closeDelimited) &&
        !residual) = b
      cases b <;> simp

/-- the same at the level of C17's whole `executeRequest` (URL accepted, lease granted — the defaults of `absAttempt`): the lease
bookkeeping around `underLease` does not touch the cache -/
theorem reuse_decision_agrees_executeRequest (method : Bytes) (mrb jmp : Nat) (reuse : Bool) (script : List Http.Recv)
    (c : Client) (h : Host) :
    (((Http.executeReceive method mrb jmp reuse script).2 = true) ↔
      ((executeRequest { reuse := reuse } c true h
        (absAttempt method (Http.effectiveCap mrb jmp) script)).1.conns.lookup h = none)) ∧
    (executeRequest { reuse := reuse } c true h (absAttempt method (Http.effectiveCap mrb jmp) script)).2.1.result =
      absResult (Http.executeReceive method mrb jmp reuse script).1 := by
  have hl : (absAttempt method (Http.effectiveCap mrb jmp) script).lease = .granted := rfl
  have := reuse_decision_agrees method mrb jmp reuse script { c with leased := h :: c.leased } h
  simpa [executeRequest, hl] using this

/-- a received byte beyond the message, handed to the framer, is reported in the outcome: `forceEvict` of the final state
implies the `forceEvict` the loop returns -/
theorem recvStep_response_evict (m : Bytes) (cap : Nat) (st st' : Http.St) (rv : Http.Recv) (r : Http.Resp) (fe : Bool)
    (h : Http.recvStep m cap st rv = (st', .response r fe)) : fe = true ∨ fe = st'.forceEvict := by
  cases rv with
  | data seg =>
    simp only [Http.recvStep] at h
    split at h
    · cases h
    · split at h
      · cases h
      · split at h
        · cases h
        · cases h; exact .inr rfl
        · cases h
  | peerClosed =>
    simp only [Http.recvStep] at h
    split at h
    · cases h; exact .inl rfl
    · cases h
  | timeout => simp [Http.recvStep] at h
  | overflow => simp [Http.recvStep] at h
  | shuttingDown => simp [Http.recvStep] at h
  | otherError => simp [Http.recvStep] at h

theorem runPieces_response_evict (m : Bytes) (cap : Nat) : ∀ (ps : List Bytes) (st st' : Http.St) (r : Http.Resp)
    (fe res : Bool), Http.runPieces m cap st ps = (st', .response r fe, res) → fe = true ∨ fe = st'.forceEvict := by
  intro ps
  induction ps with
  | nil => intro st st' r fe res h; simp [Http.runPieces] at h
  | cons p ps ih =>
    intro st st' r fe res h
    cases hstep : Http.recvStep m cap st (.data p) with
    | mk s1 o =>
      cases o with
      | more => simp only [Http.runPieces, hstep] at h; exact ih s1 st' r fe res h
      | response r1 f1 =>
        simp only [Http.runPieces, hstep] at h
        cases h
        exact recvStep_response_evict m cap st _ _ _ _ hstep
      | framingError k => simp [Http.runPieces, hstep] at h
      | failed f => simp [Http.runPieces, hstep] at h

theorem runScript_response_evict (m : Bytes) (cap : Nat) : ∀ (script : List Http.Recv) (st st' : Http.St) (r : Http.Resp)
    (fe res : Bool), Http.runScript m cap st script = (st', .response r fe, res) → fe = true ∨ fe = st'.forceEvict := by
  intro script
  induction script with
  | nil => intro st st' r fe res h; simp [Http.runScript] at h
  | cons rv rs ih =>
    intro st st' r fe res h
    cases rv with
    | data seg =>
      cases hrun : Http.runPieces m cap st (Http.splitReads Gen.Http.clientReadSize seg) with
      | mk s1 or =>
        obtain ⟨o, res1⟩ := or
        cases o with
        | more => simp only [Http.runScript, hrun] at h; exact ih s1 st' r fe res h
        | response r1 f1 =>
          simp only [Http.runScript, hrun] at h
          cases h
          exact runPieces_response_evict m cap _ _ _ _ _ _ hrun
        | framingError k => simp [Http.runScript, hrun] at h
        | failed f => simp [Http.runScript, hrun] at h
    | peerClosed =>
      cases hstep : Http.recvStep m cap st .peerClosed with
      | mk s1 o =>
        cases o with
        | more => simp only [Http.runScript, hstep] at h; exact ih s1 st' r fe res h
        | response r1 f1 =>
          simp only [Http.runScript, hstep] at h
          cases h
          exact recvStep_response_evict m cap st _ _ _ _ hstep
        | framingError k => simp [Http.runScript, hstep] at h
        | failed f => simp [Http.runScript, hstep] at h
    | timeout => simp [Http.runScript, Http.recvStep] at h
    | overflow => simp [Http.runScript, Http.recvStep] at h
    | shuttingDown => simp [Http.runScript, Http.recvStep] at h
    | otherError => simp [Http.runScript, Http.recvStep] at h

/-- **R4 at byte level: a received byte beyond the framed message ⇒ the connection is not cached.**  If C15's run over the
script ends in a response and ANY received byte lies beyond the framed message — surplus handed to the framer
(`st.forceEvict = true`, or the returned `forceEvict` flag `fe = true`) or left unread in the transport (`residual = true`) —
then, for every client state, host and `reuseConnections` setting, after C17's `underLease` on the abstracted attempt nothing
is cached for `h`. -/
theorem received_byte_beyond_message_not_cached (method : Bytes) (mrb jmp : Nat) (reuse : Bool) (script : List Http.Recv)
    (c : Client) (h : Host) (st : Http.St) (r : Http.Resp) (fe residual : Bool)
    (hrun : Http.runScript method (Http.effectiveCap mrb jmp) {} script = (st, .response r fe, residual))
    (hbeyond : st.forceEvict = true ∨ fe = true ∨ residual = true) :
    (underLease { reuse := reuse } c h (absAttempt method (Http.effectiveCap mrb jmp) script)).1.conns.lookup h = none := by
  rw [← (reuse_decision_agrees method mrb jmp reuse script c h).1]
  have hfe := runScript_response_evict method _ script {} st r fe residual hrun
  unfold Http.executeReceive
  simp only [hrun]
  rcases hbeyond with hb | hb | hb
  · rcases hfe with hfe | hfe
    · simp [hfe]
    · simp [hfe, hb]
  · simp [hb]
  · simp [hb]

/-! ## 6. non-vacuity: concrete bytes -/

/-- a script of ONE delivery that fits into one `receiveSync` and below the cap: the run is one `frameResponse` call -/
theorem runScript_single (m : Bytes) (cap : Nat) (seg : Bytes) (h1 : seg.isEmpty = false)
    (h2 : seg.length ≤ Gen.Http.clientReadSize) (h3 : seg.length ≤ cap) :
    Http.runScript m cap {} [.data seg] =
      (match Http.frameResponse m cap { data := seg } with
       | (st2, .needMore) => (st2, .more, false)
       | (st2, .complete) => (st2, .response st2.resp st2.forceEvict, false)
       | (st2, .malformed k) => (st2, .framingError k, false)) := by
  have hs : Http.splitReads Gen.Http.clientReadSize seg = [seg] := by
    rw [Http.splitReads]; simp [h2]
  have hcap : ¬ seg.length > cap := by omega
  simp only [Http.runScript, hs, Http.runPieces, Http.recvStep, h1, Bool.false_eq_true, if_false, List.nil_append, hcap]
  cases hfr : Http.frameResponse m cap { data := seg } with
  | mk st2 o => cases o <;> simp

/-- `HTTP/1.1 200 OK`, `Connection: keep-alive`, `Content-Length: 0`: a complete, reusable response of 62 bytes -/
def demoResp : Bytes := Http.ascii "HTTP/1.1 200 OK\r\nConnection: keep-alive\r\nContent-Length: 0\r\n\r\n"

def isResponse : Http.LoopOut → Bool
  | .response _ _ => true
  | _ => false

/-- C15 on the demo response followed by ONE surplus byte in the same delivery: a response, and the connection is dropped -/
theorem demo_surplus_c15 :
    (Http.executeReceive (Http.ascii "GET") 1048576 0 true [.data (demoResp ++ [88])]).2 = true ∧
    isResponse (Http.executeReceive (Http.ascii "GET") 1048576 0 true [.data (demoResp ++ [88])]).1 = true := by
  unfold Http.executeReceive
  simp only
  rw [runScript_single _ _ _ (by decide) (by decide) (by decide), Http.frameResponse]
  decide

/-- C15 on the demo response alone: a response, and the connection is kept -/
theorem demo_exact_c15 :
    (Http.executeReceive (Http.ascii "GET") 1048576 0 true [.data demoResp]).2 = false ∧
    isResponse (Http.executeReceive (Http.ascii "GET") 1048576 0 true [.data demoResp]).1 = true := by
  unfold Http.executeReceive
  simp only
  rw [runScript_single _ _ _ (by decide) (by decide) (by decide), Http.frameResponse]
  decide

/-- **non-vacuity, surplus**: a `Content-Length: 0` keep-alive response followed by one surplus byte in the same delivery is NOT
cached after `underLease` (fresh client, host 0), and the request still succeeds (`ok`) -/
theorem demo_surplus_not_cached :
    (underLease { reuse := true } {} 0
      (absAttempt (Http.ascii "GET") (Http.effectiveCap 1048576 0) [.data (demoResp ++ [88])])).1.conns.lookup 0 = none :=
  (reuse_decision_agrees (Http.ascii "GET") 1048576 0 true [.data (demoResp ++ [88])] {} 0).1.mp demo_surplus_c15.1

/-- **non-vacuity, exact**: the same response without the surplus byte IS cached (session 1 under host 0) -/
theorem demo_exact_cached :
    (underLease { reuse := true } {} 0
      (absAttempt (Http.ascii "GET") (Http.effectiveCap 1048576 0) [.data demoResp])).1.conns.lookup 0 ≠ none := by
  intro hn
  have := (reuse_decision_agrees (Http.ascii "GET") 1048576 0 true [.data demoResp] {} 0).1.mpr hn
  rw [demo_exact_c15.1] at this
  cases this

/-! ## 7. an announced chunk-size above the cap is a framing error AT THE SIZE LINE (seed C17-e) -/

/-- the chunk-size line is accepted only for a size within the cap -/
theorem sizeLine_ok_le_cap (buf : Bytes) (cap pos n ds : Nat) (h : Http.sizeLine buf cap pos = .ok n ds) : n ≤ cap := by
  unfold Http.sizeLine at h
  split at h
  · cases h
  · simp only at h
    repeat' (split at h)
    all_goals first
      | (cases h; done)
      | (cases h; omega)

/-- `advanceChunked` waits for chunk DATA (NeedMore after a complete size line) only for an announced size within the cap: a
size line announcing more is answered `Malformed` in the very iteration that parses it, however many data bytes follow -/
theorem chunkStep_needMore_within_cap (buf : Bytes) (cap : Nat) (st : Http.ChunkState)
    (h : Http.chunkStep buf cap st = .needMore) :
    Http.sizeLine buf cap st.pos = .noLF ∨ ∃ n ds, Http.sizeLine buf cap st.pos = .ok n ds ∧ n ≤ cap := by
  cases hs : Http.sizeLine buf cap st.pos with
  | noLF => exact .inl rfl
  | bad => simp [Http.chunkStep, hs] at h
  | ok n ds => exact .inr ⟨n, ds, rfl, sizeLine_ok_le_cap buf cap st.pos n ds hs⟩

/-- the witness of seed C17-e (the body part): chunk-size `7FFFFFFF`, five data bytes, then nothing -/
def demoChunkOverCap : Bytes := Http.ascii "7FFFFFFF\r\nhello"

/-- byte level, concrete: with the default cap (16 MiB) the size line alone makes the iteration `Malformed`; `FFFFFFFFFFFFFFFF`
and cap + 1 likewise; a size within the cap whose data has not arrived is `NeedMore` (non-vacuity) -/
theorem demo_chunk_over_cap_step :
    Http.chunkStep demoChunkOverCap 16777216 {} = .malformed ∧
    Http.chunkStep (Http.ascii "FFFFFFFFFFFFFFFF\r\nhello") 16777216 {} = .malformed ∧
    Http.chunkStep (Http.ascii "1000001\r\nhello") 16777216 {} = .malformed ∧
    Http.chunkStep (Http.ascii "1000000\r\nhello") 16777216 {} = .needMore := by
  decide

/-- ... and so does `advanceChunked` as a whole -/
theorem demo_chunk_over_cap_advance :
    (Http.advanceChunked demoChunkOverCap 16777216 {}).1 = .malformed := by
  rw [Http.advanceChunked]
  have h : Http.chunkStep demoChunkOverCap 16777216 {} = .malformed := demo_chunk_over_cap_step.1
  have hl : ({} : Http.ChunkState).pos < demoChunkOverCap.length := by decide
  simp only [hl, ↓reduceDIte]
  split <;> simp_all

end Iora.HttpRetry.Link
