import IoraModel.Model.TcpWake
/-! Invariant of the eventfd wake-up protocol (`Model/TcpWake.lean`) as the code has it: eventfd write after `push_back` inside
the lock scope, `drainEvt()` before `process()`. -/
namespace Iora.Tcp.Wake

/-- a non-empty queue is always announced: the counter is non-zero, or the I/O thread stands between `drainEvt()` and
`process()` (it will swap next), or the sender that pushed still holds the lock just before its eventfd write; and every
pushed command is either queued or taken -/
structure WInv (w : W) : Prop where
  announced : w.cmds > 0 → w.evt > 0 ∨ w.io = .mid ∨ w.crit = .pushed
  conserved : w.accepted = w.taken + w.cmds
  pre0 : w.pre = 0

theorem init_inv : WInv {} := ⟨fun h => absurd h (by decide), rfl, rfl⟩

theorem step_inv (w : W) (a : Actor) (h : WInv w) : WInv (step true true true w a) := by
  obtain ⟨ha, hc, hp⟩ := h
  cases a with
  | early => exact ⟨ha, hc, hp⟩
  | sender =>
    unfold step
    cases hcr : w.crit with
    | free =>
      refine ⟨?_, hc, hp⟩
      intro h0
      rcases ha h0 with h1 | h1 | h1
      · exact Or.inl h1
      · exact Or.inr (Or.inl h1)
      · rw [hcr] at h1; cases h1
    | locked =>
      refine ⟨fun _ => Or.inr (Or.inr rfl), ?_, hp⟩
      show w.accepted + 1 = w.taken + (w.cmds + 1)
      omega
    | pushed =>
      refine ⟨fun _ => Or.inl (Nat.succ_pos _), hc, hp⟩
    | wrote =>
      refine ⟨?_, hc, hp⟩
      intro h0
      rcases ha h0 with h1 | h1 | h1
      · exact Or.inl h1
      · exact Or.inr (Or.inl h1)
      · rw [hcr] at h1; cases h1
  | io =>
    unfold step
    cases hio : w.io with
    | waiting =>
      simp only
      split
      · refine ⟨?_, hc, hp⟩
        intro h0
        rcases ha h0 with h1 | h1 | h1
        · exact Or.inl h1
        · rw [hio] at h1; cases h1
        · exact Or.inr (Or.inr h1)
      · exact ⟨ha, hc, hp⟩
    | woken =>
      exact ⟨fun _ => Or.inr (Or.inl rfl), hc, hp⟩
    | mid =>
      simp only [if_true]
      split
      · refine ⟨fun h0 => absurd h0 (by simp), ?_, hp⟩
        show w.accepted = w.taken + w.cmds + 0
        omega
      · exact ⟨ha, hc, hp⟩

theorem run_inv : ∀ (as : List Actor) (w : W), WInv w → WInv (run true true true w as)
  | [], _, h => h
  | a :: as, w, h => run_inv as _ (step_inv w a h)

/-- the I/O thread alone (no sender moves) empties the queue within three of its steps, from every state satisfying the invariant
in which no sender holds the lock -/
theorem io_alone (w : W) (h : WInv w) (hf : w.crit = .free) :
    (run true true true w [.io, .io, .io]).cmds = 0 ∧ (run true true true w [.io, .io, .io]).taken = w.accepted := by
  obtain ⟨ha, hc, _⟩ := h
  cases hio : w.io with
  | waiting =>
    by_cases he : w.evt > 0
    · simp [run, step, hio, he, hf]; omega
    · have hc0 : w.cmds = 0 := by
        by_cases h0 : w.cmds > 0
        · rcases ha h0 with h1 | h1 | h1
          · exact absurd h1 he
          · rw [hio] at h1; cases h1
          · rw [hf] at h1; cases h1
        · omega
      simp [run, step, hio, he, hc0]; omega
  | woken =>
    simp [run, step, hio, hf]; omega
  | mid =>
    by_cases he : w.evt > 0
    · simp [run, step, hio, he, hf]; omega
    · simp [run, step, hio, he, hf]; omega

end Iora.Tcp.Wake
