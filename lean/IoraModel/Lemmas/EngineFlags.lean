import IoraModel.Lemmas.EngineStale
/-!
# No connect callback fires twice, and payload is never delivered before the accept/connect callback (C02, T3)

`G.dupAnn` is raised by the model when `connectCb` fires for a session whose connect callback has already fired; `G.envBad` when
`dataCb` fires for a session that has not been announced.  No history raises `dupAnn`.  `envBad` is never raised on the UDP
engine, and on the TCP engine it is not raised by any step that honours the environment contract `Tcp.envOk`.
-/
namespace Iora.Lifecycle

/-- the two order flags -/
def fl (g : G) : Bool × Bool := (g.dupAnn, g.envBad)

/-- state facts about the connect callback: a session in the TLS handshake, or whose connect is pending, has not had its connect
callback yet; a client whose connect is pending is not in TLS state `opened` -/
def JInv (g : G) : Prop :=
  ∀ sid s, g.table sid = some s →
    (s.tls = .handshake → s.connAnnounced = false) ∧ (s.connectPending = true → s.connAnnounced = false) ∧
    (s.client = true → s.connectPending = true → s.tls ≠ .opened)

theorem JInv.upd {g g' : G} (h : JInv g) (sid : Sid) (v : Option Sess)
    (hv : ∀ s, v = some s → (s.tls = .handshake → s.connAnnounced = false) ∧ (s.connectPending = true → s.connAnnounced = false) ∧
      (s.client = true → s.connectPending = true → s.tls ≠ .opened))
    (ht : g'.table = upd g.table sid v) : JInv g' := by
  intro x s hx
  rw [ht] at hx
  by_cases e : x = sid
  · subst e; rw [upd_same] at hx; exact hv s hx
  · rw [upd_other _ _ _ _ e] at hx; exact h x s hx

instance : Closed0 JInv where
  closeNow := by
    intro sid site g h; unfold closeNow; split <;> (try split) <;> (try exact h)
    exact h.upd sid none (by simp) (by simp [emit])
  failConnect := by intro site g h; unfold failConnect; split <;> exact h
  insertCur := by
    intro t k o g h; unfold insertCur; split
    · exact h
    · rename_i sid _
      exact h.upd sid (some { client := true, connectPending := true, tls := if t then .handshake else .none, pkey := k, owner := o })
        (by intro s hs; cases hs; cases t <;> simp) rfl
  acceptFresh := by
    intro t k o g h
    exact h.upd g.nextId (some { tls := t, pkey := k, owner := o }) (by intro s hs; cases hs; simp) (by simp [acceptFresh, emit])
  burnId := by intro g h; exact h
  announceConnect := by
    intro sid c g h; unfold announceConnect withLive; split <;> (try split) <;> (try exact h)
    rename_i s hs hc
    refine h.upd sid (some { s with connectPending := false, connAnnounced := true, tls := if s.tls = .handshake then .opened else s.tls })
      ?_ (by simp [emit])
    intro s' hs'; cases hs'
    refine ⟨?_, by simp, by simp⟩
    split <;> simp_all
  dataCb := by intro sid g h; unfold dataCb withLive; split <;> (try split) <;> exact h
  setWq := by
    intro sid n g h; unfold setWq withLive; split <;> (try split) <;> (try exact h)
    rename_i s hs hc
    exact h.upd sid (some { s with wq := n }) (by intro s' hs'; cases hs'; exact h sid s hs) rfl
  viaIndex := by intro sid k g h; unfold viaIndex withLive; split <;> (try split) <;> (try simp only []) <;> (try split) <;> exact h
  stale := by intro g h; exact h
  bp := by intro n g h; exact h
  listeners := by intro l g h; exact h
  running := by intro b g h; exact h

instance : Closed JInv where
  pop := by
    intro g h _; unfold popCmd; split
    · exact h
    · rename_i c rest hb; cases c <;> exact h

/-- the connect callback has not fired for `sid` -/
def NotAnn (sid : Sid) (g : G) : Prop := ∀ s, g.table sid = some s → s.connAnnounced = false
/-- `sid`, if it is in the table, has been announced -/
def Ann (sid : Sid) (g : G) : Prop := ∀ s, g.table sid = some s → s.announced = true

/-! ## the primitives -/
@[simp] theorem closeNow_fl (sid : Sid) (site : Site) (g : G) : fl (closeNow sid site g) = fl g := by
  unfold closeNow; split <;> (try split) <;> simp [fl, emit]
@[simp] theorem failConnect_fl (site : Site) (g : G) : fl (failConnect site g) = fl g := by
  unfold failConnect; split <;> simp [fl, emit]
@[simp] theorem insertCur_fl (t : Bool) (k : Option Key) (o : Lid) (g : G) : fl (insertCur t k o g) = fl g := by
  unfold insertCur; split <;> simp [fl]
@[simp] theorem acceptFresh_fl (t : Tls) (k : Option Key) (o : Lid) (g : G) : fl (acceptFresh t k o g).1 = fl g := rfl
@[simp] theorem burnId_fl (g : G) : fl (burnId g) = fl g := rfl
@[simp] theorem bumpBp_fl (g : G) : fl (bumpBp g) = fl g := rfl
@[simp] theorem setWq_fl (sid : Sid) (n : Nat) (g : G) : fl (setWq sid n g) = fl g := by
  unfold setWq withLive; split <;> (try split) <;> simp [fl]
@[simp] theorem viaIndex_fl (sid : Sid) (k : Key) (g : G) : fl (viaIndex sid k g) = fl g := by
  unfold viaIndex withLive; split <;> (try split) <;> (try simp only []) <;> (try split) <;> simp [fl]
@[simp] theorem stale_fl (g : G) : fl { g with stale := true } = fl g := rfl
@[simp] theorem listeners_fl (l : Lid → Option Nat) (g : G) : fl { g with listeners := l } = fl g := rfl
@[simp] theorem running_fl (b : Bool) (g : G) : fl { g with running := b } = fl g := rfl

theorem popCmd_fl (g : G) : fl (popCmd g).2 = fl g := by
  unfold popCmd; split
  · rfl
  · rename_i c rest hb; cases c <;> rfl

theorem announceConnect_fl (sid : Sid) (c : Bool) {g : G} (hna : NotAnn sid g) : fl (announceConnect sid g c) = fl g := by
  unfold announceConnect withLive
  split
  · rfl
  · rename_i s hs
    split
    · rfl
    · simp [fl, emit, hna s hs]

theorem dataCb_fl (sid : Sid) {g : G} (ha : Ann sid g) : fl (dataCb sid g) = fl g ∧ (dataCb sid g).table = g.table := by
  unfold dataCb withLive
  split
  · exact ⟨rfl, rfl⟩
  · rename_i s hs
    split
    · exact ⟨rfl, rfl⟩
    · simp [fl, emit, ha s hs]

theorem ann_of_table_eq {g g' : G} (h : g'.table = g.table) (sid : Sid) : Ann sid g' ↔ Ann sid g := by simp [Ann, h]

theorem closeNow_ann (sid x : Sid) (site : Site) {g : G} (h : Ann x g) : Ann x (closeNow sid site g) := by
  unfold closeNow; split <;> (try split) <;> (try exact h)
  intro s hs
  by_cases e : x = sid
  · subst e; simp [emit, upd] at hs
  · simp [emit, upd, e] at hs; exact h s hs

/-- after its connect callback a live session is announced -/
theorem announceConnect_ann (sid : Sid) (c : Bool) {g : G} (hn : NoFlag g) : Ann sid (announceConnect sid g c) := by
  unfold announceConnect withLive
  split
  · rename_i hs; intro s hs'; simp [hs] at hs'
  · rename_i s hs
    split
    · rename_i hc; exact absurd (hn sid s hs) (by simp [hc])
    · intro s' hs'; simp [emit, upd] at hs'; subst hs'; simp [Sess.announced]

theorem announceConnect_annpres (sid x : Sid) (c : Bool) {g : G} (h : Ann x g) : Ann x (announceConnect sid g c) := by
  unfold announceConnect withLive; split <;> (try split) <;> (try exact h)
  rename_i s hs _
  intro s' hs'
  by_cases e : x = sid
  · subst e; simp [emit, upd] at hs'; subst hs'; simp [Sess.announced]
  · simp [emit, upd, e] at hs'; exact h s' hs'

/-! ## tcp handlers -/
namespace Tcp

theorem readAvail_fl (sid : Sid) (t : Bool) (as : List A) (g : G) (ha : Ann sid g) :
    fl (readAvail sid t as g).1 = fl g ∧ Ann sid (readAvail sid t as g).1 := by
  fun_induction readAvail sid t as g
  all_goals first
    | exact ⟨rfl, ha⟩
    | exact ⟨by simp, closeNow_ann _ _ _ ha⟩
    | (rename_i ih
       have hd := dataCb_fl sid ha
       have := ih ((ann_of_table_eq hd.2 sid).2 ha)
       exact ⟨this.1.trans hd.1, this.2⟩)

/-- a plain read whose first recv does not return data delivers nothing -/
theorem readAvail_fl0 (sid : Sid) (as : List A) (g : G) (h : as.head? ≠ some A.data) : fl (readAvail sid false as g).1 = fl g := by
  unfold readAvail
  cases as with
  | nil => rfl
  | cons a r =>
    simp only [Bool.false_eq_true, if_false]
    cases a <;> simp_all

theorem writePending_fl (sid : Sid) (t : Bool) (as : List A) (g : G) : fl (writePending sid t as g).1 = fl g := by
  fun_induction writePending sid t as g <;> (try simp) <;> (try rfl)
  all_goals
    rename_i ih
    rw [ih]; simp

theorem queueWrite_fl (sid : Sid) (wq : Nat) (g : G) : fl (queueWrite sid wq g) = fl g := by
  unfold queueWrite; dsimp only; split <;> (try split) <;> simp

theorem doSend_fl (sid : Sid) (as : List A) (g : G) : fl (doSend sid as g).1 = fl g := by
  fun_cases doSend sid as g <;> (try simp [queueWrite_fl]) <;> (try rfl)

theorem handshakeStep_fl (sid : Sid) (as : List A) (g : G) (hn : NoFlag g) (hna : NotAnn sid g) :
    fl (handshakeStep sid as g).2.1 = fl g ∧ ((handshakeStep sid as g).1 = true → Ann sid (handshakeStep sid as g).2.1) := by
  fun_cases handshakeStep sid as g <;> (try simp) <;> (try exact ⟨rfl, rfl⟩)
  have h1 := announceConnect_fl sid true hna
  have h2 := readAvail_fl sid true ‹List A› (announceConnect sid g) (announceConnect_ann sid true hn)
  exact ⟨h2.1.trans h1, h2.2⟩

theorem driveHandshake_fl (sid : Sid) (as : List A) (g : G) (hn : NoFlag g) (hna : NotAnn sid g) :
    fl (driveHandshake sid as g).2.1 = fl g ∧ ((driveHandshake sid as g).1 = true → Ann sid (driveHandshake sid as g).2.1) := by
  fun_cases driveHandshake sid as g <;> (try simp) <;> (try exact ⟨rfl, rfl⟩)
  all_goals exact handshakeStep_fl sid _ g hn hna

theorem connectCheck_fl (sid : Sid) (a b c : Site) (as : List A) (g : G) (hna : NotAnn sid g) :
    fl (connectCheck sid a b c as g).2.1 = fl g := by
  fun_cases connectCheck sid a b c as g <;> (try simp) <;> (try rfl)
  exact announceConnect_fl sid true hna

theorem connectCheck_annpres (sid : Sid) (a b c : Site) (as : List A) (g : G) (ha : Ann sid g) :
    Ann sid (connectCheck sid a b c as g).2.1 := by
  fun_cases connectCheck sid a b c as g <;> first | exact ha | exact closeNow_ann _ _ _ ha | exact announceConnect_annpres _ _ _ ha

theorem sessEarly_fl (sid : Sid) (o : Bool) (as : List A) (g : G) : fl (sessEarly sid o as g).2.1 = fl g := by
  fun_cases sessEarly sid o as g <;> simp

theorem sessConnect_fl (sid : Sid) (s : Sess) (o : Bool) (as : List A) (g : G) (hn : NoFlag g) (hj : JInv g)
    (hs : g.table sid = some s) : fl (sessConnect sid s o as g).2.1 = fl g := by
  have hna1 : s.tls = .handshake → NotAnn sid g := by
    intro ht s' hs'; rw [hs] at hs'; cases hs'; exact (hj sid s hs).1 ht
  have hna2 : s.connectPending = true → NotAnn sid g := by
    intro hp s' hs'; rw [hs] at hs'; cases hs'; exact (hj sid s hs).2.1 hp
  unfold sessConnect
  by_cases ht : s.tls = .handshake
  · rw [if_pos ht]
    have := (driveHandshake_fl sid as g hn (hna1 ht)).1
    simp only []
    split
    · exact this
    · split <;> exact this
  · rw [if_neg ht]
    split
    · rename_i hc; exact connectCheck_fl sid _ _ _ as g (hna2 hc.2.1)
    · rfl

/-- unless the session is a plain client whose connect is still pending (the case the environment contract is about), a session
that onSession goes on to read from has been announced -/
theorem sessConnect_ann (sid : Sid) (s : Sess) (o : Bool) (as : List A) (g : G) (hn : NoFlag g) (hj : JInv g)
    (hs : g.table sid = some s) (hcond : ¬(s.client = true ∧ s.connectPending = true ∧ s.tls = .none))
    (hgo : (sessConnect sid s o as g).1 = false) : Ann sid (sessConnect sid s o as g).2.1 := by
  have hna1 : s.tls = .handshake → NotAnn sid g := by
    intro ht s' hs'; rw [hs] at hs'; cases hs'; exact (hj sid s hs).1 ht
  have hag : s.announced = true → Ann sid g := by
    intro ha s' hs'; rw [hs] at hs'; cases hs'; exact ha
  unfold sessConnect at hgo ⊢
  by_cases ht : s.tls = .handshake
  · rw [if_pos ht] at hgo ⊢
    have hd := (driveHandshake_fl sid as g hn (hna1 ht)).2
    simp only [] at hgo ⊢
    by_cases hdone : (driveHandshake sid as g).1 = true
    · simp only [hdone, Bool.not_true, Bool.false_eq_true, if_false] at hgo ⊢
      split
      · rename_i hx; rw [hx] at hgo; simp at hgo
      · exact hd hdone
    · simp [hdone] at hgo
  · rw [if_neg ht] at hgo ⊢
    split
    · rename_i hc
      have hcl : s.client = false := by
        cases e : s.client with
        | false => rfl
        | true => exact absurd ⟨e, hc.2.1, hc.2.2⟩ hcond
      exact connectCheck_annpres sid _ _ _ as g (hag (by simp [Sess.announced, hcl]))
    · apply hag
      cases e1 : s.client with
      | false => simp [Sess.announced, e1]
      | true =>
        cases e2 : s.connectPending with
        | false => simp [Sess.announced, e2]
        | true =>
          exfalso
          have h3 := (hj sid s hs).2.2 e1 e2
          cases e3 : s.tls with
          | none => exact hcond ⟨e1, e2, e3⟩
          | handshake => exact ht e3
          | opened => exact h3 e3

theorem sessRead_fl (sid : Sid) (i : Bool) (as : List A) (g : G) (ha : Ann sid g) : fl (sessRead sid i as g).2.1 = fl g := by
  fun_cases sessRead sid i as g
  · exact (readAvail_fl sid _ as g ha).1
  · exact (readAvail_fl sid _ as g ha).1
  · rfl

theorem sessRead_fl0 (sid : Sid) (i : Bool) (as : List A) (g : G) (ht : tlsOpenOf sid g = false) (hd : as.head? ≠ some A.data) :
    fl (sessRead sid i as g).2.1 = fl g := by
  have h0 := readAvail_fl0 sid as g hd
  rw [← ht] at h0
  fun_cases sessRead sid i as g
  · exact h0
  · exact h0
  · rfl

theorem onSession_tail_fl (sid : Sid) (i o : Bool) (as : List A) (g : G) (hr : fl (sessRead sid i as g).2.1 = fl g) :
    fl (if (sessRead sid i as g).1 = true then ((sessRead sid i as g).2.1, (sessRead sid i as g).2.2)
     else if o = true then writePending sid (tlsOpenOf sid (sessRead sid i as g).2.1) (sessRead sid i as g).2.2 (sessRead sid i as g).2.1
     else ((sessRead sid i as g).2.1, (sessRead sid i as g).2.2)).1 = fl g := by
  split
  · exact hr
  · split
    · rw [writePending_fl]; exact hr
    · exact hr

/-- onSession raises neither flag when the event honours the environment contract -/
theorem onSession_fl (sid : Sid) (i o hup : Bool) (as : List A) (g : G) (hn : NoFlag g) (hj : JInv g)
    (henv : envOkSession sid i o hup as g = true) : fl (onSession sid i o hup as g).1 = fl g := by
  unfold onSession
  unfold envOkSession at henv
  cases hs : g.table sid with
  | none => rfl
  | some s =>
    simp only [hs] at henv
    simp only []
    by_cases hc : s.closed = true
    · rw [if_pos hc]
    · rw [if_neg hc]
      have hcf : s.closed = false := by cases e : s.closed <;> simp_all
      have e1 := sessEarly_ok sid o as g
      by_cases h1 : (sessEarly sid o as g).1 = true
      · rw [if_pos h1]; exact sessEarly_fl sid o as g
      · rw [if_neg h1]
        have eg := e1.2 (by simpa using h1)
        have hn1 : NoFlag (sessEarly sid o as g).2.1 := by rw [eg]; exact hn
        have hj1 : JInv (sessEarly sid o as g).2.1 := by rw [eg]; exact hj
        have hs1 : (sessEarly sid o as g).2.1.table sid = some s := by rw [eg]; exact hs
        have f2 := (sessConnect_fl sid s o (sessEarly sid o as g).2.2 _ hn1 hj1 hs1).trans (sessEarly_fl sid o as g)
        by_cases h2 : (sessConnect sid s o (sessEarly sid o as g).2.2 (sessEarly sid o as g).2.1).1 = true
        · rw [if_pos h2]; exact f2
        · rw [if_neg h2]
          by_cases h3 : hup = true
          · rw [if_pos h3]; simpa using f2
          · rw [if_neg h3]
            refine (onSession_tail_fl sid i o _ _ ?_).trans f2
            have hn2 : NoFlag (sessConnect sid s o (sessEarly sid o as g).2.2 (sessEarly sid o as g).2.1).2.1 :=
              sessConnect_pres (P := NoFlag) _ _ _ _ _ hn1
            have hj2 : JInv (sessConnect sid s o (sessEarly sid o as g).2.2 (sessEarly sid o as g).2.1).2.1 :=
              sessConnect_pres (P := JInv) _ _ _ _ _ hj1
            by_cases hcond : s.client = true ∧ s.connectPending = true ∧ s.tls = .none
            · -- the contract case
              have hup' : hup = false := by cases hup <;> simp_all
              simp only [hcond.1, hcond.2.1, hcond.2.2, hcf, h1, h2, hup'] at henv
              by_cases ha : Ann sid (sessConnect sid s o (sessEarly sid o as g).2.2 (sessEarly sid o as g).2.1).2.1
              · exact sessRead_fl sid i _ _ ha
              · cases i
                · rfl
                · -- not announced: the session is still a pending client, not in TLS `opened`, and the first recv is not data
                  have hx : ∃ s', (sessConnect sid s o (sessEarly sid o as g).2.2 (sessEarly sid o as g).2.1).2.1.table sid = some s' ∧
                      s'.announced = false := by
                    by_cases hx : ∃ s', (sessConnect sid s o (sessEarly sid o as g).2.2 (sessEarly sid o as g).2.1).2.1.table sid = some s' ∧
                        s'.announced = false
                    · exact hx
                    · exfalso; apply ha; intro s' hs'
                      cases e : s'.announced with
                      | true => rfl
                      | false => exact absurd ⟨s', hs', e⟩ hx
                  obtain ⟨s', hs', hna'⟩ := hx
                  have hcl' : s'.client = true ∧ s'.connectPending = true := by
                    simp [Sess.announced] at hna'; exact hna'
                  have hto : tlsOpenOf sid (sessConnect sid s o (sessEarly sid o as g).2.2 (sessEarly sid o as g).2.1).2.1 = false := by
                    simp only [tlsOpenOf, hs']
                    have := (hj2 sid s' hs').2.2 hcl'.1 hcl'.2
                    simp [this]
                  have hd : (sessConnect sid s o (sessEarly sid o as g).2.2 (sessEarly sid o as g).2.1).2.2.head? ≠ some A.data := by
                    simp [hs', hna'] at henv
                    simpa using henv
                  exact sessRead_fl0 sid true _ _ hto hd
            · exact sessRead_fl sid i _ _ (sessConnect_ann sid s o _ _ hn1 hj1 hs1 hcond (by simpa using h2))

theorem resolveStep_fl (named : Bool) (as : List A) (g : G) : fl (resolveStep named as g).2.2.1 = fl g := by
  fun_cases resolveStep named as g <;> simp

theorem tlsSetup_fl (u named : Bool) (as : List A) (g : G) : fl (tlsSetup u named as g).2.1 = fl g := by
  fun_cases tlsSetup u named as g <;> simp

theorem insertCur_notAnn (t : Bool) (k : Option Key) (o : Lid) {g : G} {sid : Sid} (hc : g.cur = some sid) :
    NotAnn sid (insertCur t k o g) := by
  unfold insertCur
  simp only [hc]
  intro s hs
  simp [upd] at hs
  subst hs; rfl

theorem doConnect_fl (tls : TlsReq) (named : Bool) (as : List A) (g : G) (sid : Sid) (hc : g.cur = some sid) :
    fl (doConnect tls named as g).1 = fl g := by
  unfold doConnect
  simp only []
  split
  · simp
  · have e1 := resolveStep_ok named as hc
    by_cases h1 : (resolveStep named as g).1 = true
    · rw [if_pos h1]; exact resolveStep_fl _ _ _
    · rw [if_neg h1]
      have eg := e1.2 (by simpa using h1)
      have hc1 : (resolveStep named as g).2.2.1.cur = some sid := by rw [eg]; exact hc
      split
      · simp [resolveStep_fl]
      · simp [resolveStep_fl]
      · have e2 := tlsSetup_ok (decide (tls = .client) && g.cfg.cliCtx) named (connLoop (resolveStep named as g).2.1 (resolveStep named as g).2.2.2).2 hc1
        by_cases h2 : (tlsSetup (decide (tls = .client) && g.cfg.cliCtx) named (connLoop (resolveStep named as g).2.1 (resolveStep named as g).2.2.2).2
            (resolveStep named as g).2.2.1).1 = true
        · rw [if_pos h2]; rw [tlsSetup_fl, resolveStep_fl]
        · rw [if_neg h2]
          have eg2 := e2.2 (by simpa using h2)
          rw [eg2]
          simp only [hc1]
          split
          · rw [connectCheck_fl sid _ _ _ _ _ (insertCur_notAnn _ _ _ hc1)]; simp [resolveStep_fl]
          · simp [resolveStep_fl]

theorem onListener_fl (t : Bool) (as : List A) (g : G) : fl (onListener t as g).1 = fl g := by
  fun_induction onListener t as g <;> (try simp) <;> (try rfl)
  all_goals
    rename_i ih
    rw [ih]; rfl

end Tcp

theorem closeCmd_fl (sid : Sid) (o : Origin) (g : G) : fl (closeCmd sid o g) = fl g := by
  unfold closeCmd; split
  · rfl
  · split <;> (try split) <;> simp

theorem runGc_fl (picks : List Sid) (g : G) : fl (runGc picks g) = fl g := by
  induction picks generalizing g with
  | nil => rfl
  | cons sid r ih => simp [runGc, ih]

theorem Tcp.dispatch_fl (as : List A) (g : G) : fl (Tcp.dispatch as g).1 = fl g := by
  have hp := popCmd_fl g
  fun_cases Tcp.dispatch as g
  all_goals
    rename_i heq
    rw [heq] at hp
    dsimp only at hp
  · exact hp
  · exact hp
  · dsimp only; split <;> exact hp
  · rw [Tcp.doConnect_fl _ _ _ _ _ (popCmd_cur heq _ rfl)]; exact hp
  · simpa using hp
  · rw [Tcp.doSend_fl]; exact hp
  · dsimp only; rw [closeCmd_fl]; exact hp

/-! ## udp: every session in the table has been announced -/
def AllAnn (g : G) : Prop := ∀ sid s, g.table sid = some s → s.announced = true

instance : ClosedU0 AllAnn where
  closeNow := by
    intro sid site g h; unfold closeNow; split <;> (try split) <;> (try exact h)
    intro x s hx; by_cases e : x = sid
    · subst e; simp [emit, upd] at hx
    · simp [emit, upd, e] at hx; exact h x s hx
  failConnect := by intro site g h; unfold failConnect; split <;> exact h
  connectNow := by
    intro k o c g h
    unfold connectNow
    split
    · exact h
    · rename_i sid hc
      unfold announceConnect withLive insertCur
      simp only [hc, upd_same]
      intro x s hx
      by_cases e : x = sid
      · subst e; simp [emit, upd] at hx; subst hx; simp [Sess.announced]
      · simp [emit, upd, e] at hx; exact h x s hx
  acceptFresh := by
    intro t k o g h x s hx; by_cases e : x = g.nextId
    · subst e; simp [acceptFresh, emit, upd] at hx; subst hx; simp [Sess.announced]
    · simp [acceptFresh, emit, upd, e] at hx; exact h x s hx
  dataCb := by intro sid g h; unfold dataCb withLive; split <;> (try split) <;> exact h
  setWq := by
    intro sid n g h; unfold setWq withLive; split <;> (try split) <;> (try exact h)
    rename_i s hs hc; intro x s' hx; by_cases e : x = sid
    · subst e; simp [upd] at hx; subst hx; exact h x s hs
    · simp [upd, e] at hx; exact h x s' hx
  viaIndex := by intro sid k g h; unfold viaIndex withLive; split <;> (try split) <;> (try simp only []) <;> (try split) <;> exact h
  stale := by intro g h; exact h
  bp := by intro n g h; exact h
  listeners := by intro l g h; exact h
  running := by intro b g h; exact h

instance : ClosedU AllAnn where
  pop := by
    intro g h _; unfold popCmd; split
    · exact h
    · rename_i c rest hb; cases c <;> exact h

theorem connectNow_fl (k : Option Key) (o : Lid) (c : Bool) (g : G) : fl (connectNow k o c g) = fl g := by
  unfold connectNow
  split
  · rfl
  · rename_i sid hc
    rw [announceConnect_fl sid c (Tcp.insertCur_notAnn _ _ _ hc)]; simp

namespace Udp

theorem readFromListener_fl (lid : Lid) (as : List A) (g : G) (ha : AllAnn g) : fl (readFromListener lid as g).1 = fl g := by
  induction as generalizing g with
  | nil => rfl
  | cons a r ih =>
    unfold readFromListener
    cases a <;> (try rfl)
    case eof => exact ih g ha
    case dgramNoKey => exact ih g ha
    case dgram k =>
      simp only []
      cases hk : g.index k with
      | none =>
        simp only []
        split
        · exact ih g ha
        · have ha1 : AllAnn (acceptFresh .none (some k) lid g).1 := ClosedU0.acceptFresh _ _ _ _ ha
          have hd := dataCb_fl (acceptFresh .none (some k) lid g).2 (g := (acceptFresh .none (some k) lid g).1) (fun s hs => ha1 _ s hs)
          rw [ih _ (ClosedU0.dataCb _ _ ha1), hd.1]; rfl
      | some sid =>
        simp only []
        have hd := dataCb_fl sid (g := g) (fun s hs => ha _ s hs)
        rw [ih _ (ClosedU0.dataCb _ _ ha), hd.1]

theorem flushListener_fl (lid : Lid) (as : List A) (g : G) : fl (flushListener lid as g).1 = fl g := by
  fun_induction flushListener lid as g <;> (try rfl)
  rename_i ih; rw [ih]; rfl

theorem writeClient_fl (sid : Sid) (as : List A) (g : G) : fl (writeClient sid as g).1 = fl g := by
  fun_induction writeClient sid as g <;> (try simp) <;> (try rfl)
  all_goals
    rename_i ih
    rw [ih]; simp

theorem clientRead_fl (sid : Sid) (as : List A) (g : G) (ha : AllAnn g) : fl (clientRead sid as g).2.1 = fl g := by
  induction as generalizing g with
  | nil => rfl
  | cons a r ih =>
    unfold clientRead
    have hd := dataCb_fl sid (g := g) (fun s hs => ha _ s hs)
    cases a <;> (try simp) <;> (try rfl)
    · rw [ih _ (ClosedU0.dataCb _ _ ha), hd.1]
    · rw [ih _ (ClosedU0.dataCb _ _ ha), hd.1]

theorem onClient_fl (sid : Sid) (i o : Bool) (as : List A) (g : G) (ha : AllAnn g) : fl (onClient sid i o as g).1 = fl g := by
  unfold onClient
  split
  · rfl
  · simp only []
    split
    · rfl
    · cases i
      · simp only [Bool.false_eq_true, if_false]
        split
        · exact writeClient_fl _ _ _
        · rfl
      · simp only [if_true]
        split
        · rw [writeClient_fl]; exact clientRead_fl sid as g ha
        · exact clientRead_fl sid as g ha

theorem sendDo_fl (sid : Sid) (as : List A) (g : G) : fl (sendDo sid as g).1 = fl g := by
  fun_cases sendDo sid as g <;> (try simp) <;> (try rfl)
  all_goals first
    | (unfold queueClient; dsimp only; split <;> (try split) <;> simp)
    | (unfold queueListener; dsimp only; split <;> (try split) <;> (try rw [closeNow_fl]) <;> rfl)

theorem connectDo_fl (as : List A) (g : G) : fl (connectDo as g).1 = fl g := by
  fun_cases connectDo as g <;> simp [connectNow_fl]

theorem viaDo_fl (lid : Lid) (k : Key) (as : List A) (g : G) : fl (viaDo lid k as g).1 = fl g := by
  fun_cases viaDo lid k as g <;> simp [connectNow_fl]

theorem dispatch_fl (as : List A) (g : G) : fl (dispatch as g).1 = fl g := by
  have hp := popCmd_fl g
  fun_cases dispatch as g
  all_goals
    rename_i heq
    rw [heq] at hp
    dsimp only at hp
  · exact hp
  · exact hp
  · dsimp only; split <;> exact hp
  · rw [connectDo_fl]; exact hp
  · rw [viaDo_fl]; exact hp
  · rw [sendDo_fl]; exact hp
  · dsimp only; rw [closeCmd_fl]; exact hp

end Udp

/-! ## the connect callback never fires twice: no hypothesis on the environment -/
theorem dataCb_dup (sid : Sid) (g : G) : (dataCb sid g).dupAnn = g.dupAnn := by
  unfold dataCb withLive; split <;> (try split) <;> simp [emit]

theorem fl_dup {g g' : G} (h : fl g' = fl g) : g'.dupAnn = g.dupAnn := congrArg Prod.fst h
theorem fl_env {g g' : G} (h : fl g' = fl g) : g'.envBad = g.envBad := congrArg Prod.snd h

namespace Tcp

theorem readAvail_dup (sid : Sid) (t : Bool) (as : List A) (g : G) : (readAvail sid t as g).1.dupAnn = g.dupAnn := by
  fun_induction readAvail sid t as g
  all_goals first
    | rfl
    | exact fl_dup (closeNow_fl _ _ _)
    | (rename_i ih; rw [ih, dataCb_dup])

theorem sessRead_dup (sid : Sid) (i : Bool) (as : List A) (g : G) : (sessRead sid i as g).2.1.dupAnn = g.dupAnn := by
  fun_cases sessRead sid i as g <;> first | exact readAvail_dup _ _ _ _ | rfl

theorem onSession_dup (sid : Sid) (i o hup : Bool) (as : List A) (g : G) (hn : NoFlag g) (hj : JInv g) :
    (onSession sid i o hup as g).1.dupAnn = g.dupAnn := by
  unfold onSession
  cases hs : g.table sid with
  | none => rfl
  | some s =>
    simp only []
    by_cases hc : s.closed = true
    · rw [if_pos hc]
    · rw [if_neg hc]
      have e1 := sessEarly_ok sid o as g
      have f1 := fl_dup (sessEarly_fl sid o as g)
      by_cases h1 : (sessEarly sid o as g).1 = true
      · rw [if_pos h1]; exact f1
      · rw [if_neg h1]
        have eg := e1.2 (by simpa using h1)
        have f2 := (fl_dup (sessConnect_fl sid s o (sessEarly sid o as g).2.2 _ (by rw [eg]; exact hn) (by rw [eg]; exact hj)
          (by rw [eg]; exact hs))).trans f1
        by_cases h2 : (sessConnect sid s o (sessEarly sid o as g).2.2 (sessEarly sid o as g).2.1).1 = true
        · rw [if_pos h2]; exact f2
        · rw [if_neg h2]
          by_cases h3 : hup = true
          · rw [if_pos h3]; exact (fl_dup (closeNow_fl _ _ _)).trans f2
          · rw [if_neg h3]
            have f3 := (sessRead_dup sid i (sessConnect sid s o (sessEarly sid o as g).2.2 (sessEarly sid o as g).2.1).2.2
              (sessConnect sid s o (sessEarly sid o as g).2.2 (sessEarly sid o as g).2.1).2.1).trans f2
            split
            · exact f3
            · split
              · exact (fl_dup (writePending_fl _ _ _ _)).trans f3
              · exact f3

end Tcp

/-! ## every history -/
structure Good2 (g : G) : Prop where
  good : Good g
  jinv : JInv g
  nodup : g.dupAnn = false

theorem JInv.of_table {g g' : G} (h : JInv g) (ht : g'.table = g.table) : JInv g' := by
  intro x s hx; rw [ht] at hx; exact h x s hx

theorem apiPlain_fl (c : Cmd) (g : G) : fl (apiPlain c g) = fl g := by
  unfold apiPlain enqueue; split <;> rfl

theorem drainClose_fl (sid : Sid) (g : G) : fl (drainClose sid g) = fl g := by
  unfold drainClose; split <;> (try split) <;> simp [fl, emit]

theorem drainAll_fl (l : List Sid) (g : G) : fl (drainAll l g) = fl g := by
  induction l generalizing g with
  | nil => rfl
  | cons sid r ih => simp [drainAll, ih, drainClose_fl]

theorem residualLoop_fl (n : Nat) (g : G) : fl (residualLoop n g) = fl g := by
  induction n generalizing g with
  | zero => rfl
  | succ n ih =>
    unfold residualLoop
    have hp := popCmd_fl g
    split
    · rename_i g' he; rw [he] at hp; exact hp
    · rename_i g' _ _ _ he; rw [he] at hp; rw [ih, failConnect_fl]; exact hp
    · rename_i g' _ _ _ he; rw [he] at hp; rw [ih, failConnect_fl]; exact hp
    · rename_i c g' _ _ he; rw [he] at hp; rw [ih]; exact hp

theorem drainFinish_fl (g : G) : fl (drainFinish g) = fl g := by
  rw [drainFinish_eq, residualLoop_fl]
  have := drainAll_fl (List.range g.nextId) g
  simpa [drainMid, fl] using this

theorem drainClose_jinv (sid : Sid) {g : G} (h : JInv g) : JInv (drainClose sid g) := by
  unfold drainClose; split <;> (try split) <;> (try exact h)
  rename_i s hs hc
  exact h.upd sid (some { s with closed := true }) (by intro s' hs'; cases hs'; exact h sid s hs) (by simp [emit])

theorem drainFinish_jinv (g : G) : JInv (drainFinish g) := by
  intro x s hx; rw [(drainFinish_stopped g).2.2.2.2 x] at hx; cases hx

theorem shared_fl {g g' : G} (i : In) (he : stepShared g i = some g') : fl g' = fl g := by
  cases i <;> simp only [stepShared] at he <;> (try cases he)
  case apiConnect tls named => unfold apiConnect; dsimp only; split <;> rfl
  case apiClose sid => exact apiPlain_fl _ _
  case apiSend sid => exact apiPlain_fl _ _
  case apiAddListener lid tls => exact apiPlain_fl _ _
  case apiStop => unfold apiStop; split <;> (try rw [apiPlain_fl]) <;> rfl
  case apiStart => unfold apiStart; split <;> rfl
  case ioSwap => split <;> (try (unfold ioSwap; split)) <;> rfl
  case ioGc picks => split <;> (try rw [runGc_fl]) <;> rfl
  case ioDrainBegin => split <;> rfl
  case ioDrainClose sid => split <;> (try rw [drainClose_fl]) <;> rfl
  case ioDrainFinish => split <;> (try rw [drainFinish_fl]) <;> rfl

theorem shared_jinv {g g' : G} (i : In) (h : JInv g) (he : stepShared g i = some g') : JInv g' := by
  cases i <;> simp only [stepShared] at he <;> (try cases he)
  case apiConnect tls named => exact h.of_table (by unfold apiConnect; dsimp only; split <;> rfl)
  case apiClose sid => exact h.of_table (apiPlain_frame _ g).1
  case apiSend sid => exact h.of_table (apiPlain_frame _ g).1
  case apiAddListener lid tls => exact h.of_table (apiPlain_frame _ g).1
  case apiStop => exact h.of_table (by unfold apiStop; split <;> simp [(apiPlain_frame _ _).1])
  case apiStart => exact h.of_table (by unfold apiStart; split <;> rfl)
  case ioSwap => exact h.of_table (by split <;> (try (unfold ioSwap; split)) <;> rfl)
  case ioGc picks =>
    split
    · exact runGc_pres (P := JInv) picks g h
    · exact h
  case ioDrainBegin => exact h.of_table (by split <;> rfl)
  case ioDrainClose sid =>
    split
    · exact drainClose_jinv sid (h.of_table rfl)
    · exact h
  case ioDrainFinish =>
    split
    · exact drainFinish_jinv g
    · exact h

theorem good2_shared {g g' : G} (i : In) (h : Good2 g) (he : stepShared g i = some g') : Good2 g' :=
  ⟨good_shared i h.good he, shared_jinv i h.jinv he, by rw [fl_dup (shared_fl i he)]; exact h.nodup⟩

theorem Tcp.good2_step (g : G) (i : In) (h : Good2 g) : Good2 (Tcp.step g i) := by
  have hg := Tcp.good_step g i h.good
  unfold Tcp.step at hg ⊢
  split
  · rename_i g' he; exact good2_shared i h he
  · split
    · exact ⟨by simpa [*] using hg, h.jinv.of_table (apiPlain_frame _ g).1, by rw [fl_dup (apiPlain_fl _ _)]; exact h.nodup⟩
    · split
      · rename_i hc
        exact ⟨by simpa [*] using hg, Tcp.dispatch_pres _ g h.jinv hc.2, by rw [fl_dup (Tcp.dispatch_fl _ g)]; exact h.nodup⟩
      · exact h
    · split
      · exact ⟨by simpa [*] using hg, Tcp.onListener_pres _ _ g h.jinv, by rw [fl_dup (Tcp.onListener_fl _ _ g)]; exact h.nodup⟩
      · exact h
    · split
      · rename_i hp
        have hnf : NoFlag g := h.good.noflag (by rw [hp]; simp)
        exact ⟨by simpa [*] using hg, Tcp.onSession_pres _ _ _ _ _ g h.jinv,
               by rw [Tcp.onSession_dup _ _ _ _ _ g hnf h.jinv]; exact h.nodup⟩
      · exact h
    · exact h

/-- a step that honours the environment contract does not deliver payload before the accept/connect callback -/
theorem Tcp.step_env (g : G) (i : In) (h : Good2 g) (henv : Tcp.envOk g i = true) : (Tcp.step g i).envBad = g.envBad := by
  unfold Tcp.step
  split
  · rename_i g' he; exact fl_env (shared_fl i he)
  · split
    · exact fl_env (apiPlain_fl _ _)
    · split
      · exact fl_env (Tcp.dispatch_fl _ g)
      · rfl
    · split
      · exact fl_env (Tcp.onListener_fl _ _ g)
      · rfl
    · split
      · rename_i hp
        have hnf : NoFlag g := h.good.noflag (by rw [hp]; simp)
        exact fl_env (Tcp.onSession_fl _ _ _ _ _ g hnf h.jinv (by simpa [Tcp.envOk] using henv))
      · rfl
    · rfl

theorem good2_init (cfg : Cfg) : Good2 (init cfg) :=
  ⟨good_init cfg, by intro x s hx; simp [init] at hx, rfl⟩

theorem Tcp.good2_run (cfg : Cfg) (is : List In) : Good2 (run Tcp.step (init cfg) is) := by
  unfold run
  generalize hg : init cfg = g
  have h : Good2 g := hg ▸ good2_init cfg
  clear hg
  induction is generalizing g with
  | nil => exact h
  | cons i r ih => exact ih _ (Tcp.good2_step g i h)

theorem Tcp.env_run (g : G) (is : List In) (h : Good2 g) (henv : Tcp.envOkHistory Tcp.step g is = true) :
    (run Tcp.step g is).envBad = g.envBad := by
  unfold run
  induction is generalizing g with
  | nil => rfl
  | cons i r ih =>
    simp only [Tcp.envOkHistory, Bool.and_eq_true] at henv
    simp only [List.foldl]
    rw [ih _ (Tcp.good2_step g i h) henv.2, Tcp.step_env g i h henv.1]

/-- udp -/
structure GoodU (g : G) : Prop where
  good2 : Good2 g
  allAnn : AllAnn g
  noenv : g.envBad = false

theorem AllAnn.of_table {g g' : G} (h : AllAnn g) (ht : g'.table = g.table) : AllAnn g' := by
  intro x s hx; rw [ht] at hx; exact h x s hx

theorem shared_allAnn {g g' : G} (i : In) (h : AllAnn g) (he : stepShared g i = some g') : AllAnn g' := by
  cases i <;> simp only [stepShared] at he <;> (try cases he)
  case apiConnect tls named => exact h.of_table (by unfold apiConnect; dsimp only; split <;> rfl)
  case apiClose sid => exact h.of_table (apiPlain_frame _ g).1
  case apiSend sid => exact h.of_table (apiPlain_frame _ g).1
  case apiAddListener lid tls => exact h.of_table (apiPlain_frame _ g).1
  case apiStop => exact h.of_table (by unfold apiStop; split <;> simp [(apiPlain_frame _ _).1])
  case apiStart => exact h.of_table (by unfold apiStart; split <;> rfl)
  case ioSwap => exact h.of_table (by split <;> (try (unfold ioSwap; split)) <;> rfl)
  case ioGc picks =>
    split
    · exact Udp.runGcU_pres (P := AllAnn) picks g h
    · exact h
  case ioDrainBegin => exact h.of_table (by split <;> rfl)
  case ioDrainClose sid =>
    split
    · intro x s hx
      rw [drainClose_table] at hx
      by_cases e : x = sid
      · simp only [e, if_true] at hx
        cases hs : g.table sid with
        | none => simp [hs] at hx
        | some s0 => simp [hs] at hx; subst hx; simpa [Sess.announced] using h sid s0 hs
      · simp only [e, if_false] at hx; exact h x s hx
    · exact h
  case ioDrainFinish =>
    split
    · intro x s hx; rw [(drainFinish_stopped g).2.2.2.2 x] at hx; cases hx
    · exact h

theorem Udp.listener_fl (lid : Lid) (a b : Bool) (as : List A) (g : G) (ha : AllAnn g) :
    fl (match (if a = true then Udp.readFromListener lid as g else (g, as)) with
     | (g, as) => if b = true then (Udp.flushListener lid as g).1 else g) = fl g := by
  split
  rename_i g1 as1 he
  have h1 : fl g1 = fl g := by
    split at he
    · have := Udp.readFromListener_fl lid as g ha; rw [he] at this; exact this
    · cases he; rfl
  split
  · rw [Udp.flushListener_fl]; exact h1
  · exact h1

theorem GoodU.of_fl {g g' : G} (h : GoodU g) (hg : Good g') (hj : JInv g') (ha : AllAnn g') (hf : fl g' = fl g) : GoodU g' :=
  ⟨⟨hg, hj, by rw [fl_dup hf]; exact h.good2.nodup⟩, ha, by rw [fl_env hf]; exact h.noenv⟩

theorem Udp.goodU_step (g : G) (i : In) (h : GoodU g) : GoodU (Udp.step g i) := by
  have hg := Udp.good_step g i h.good2.good
  unfold Udp.step at hg ⊢
  split
  · rename_i g' he
    have h2 := good2_shared i h.good2 he
    exact ⟨h2, shared_allAnn i h.allAnn he, by rw [fl_env (shared_fl i he)]; exact h.noenv⟩
  · split
    · exact h.of_fl (by simpa [*] using hg) (h.good2.jinv.of_table (by unfold apiVia; dsimp only; split <;> rfl))
        (h.allAnn.of_table (by unfold apiVia; dsimp only; split <;> rfl)) (by unfold apiVia; dsimp only; split <;> rfl)
    · split
      · rename_i hc
        exact h.of_fl (by simpa [*] using hg) (Udp.dispatch_pres _ g h.good2.jinv hc.2) (Udp.dispatch_pres _ g h.allAnn hc.2)
          (Udp.dispatch_fl _ g)
      · exact h
    · split
      · exact h.of_fl (by simpa [*] using hg) (Udp.listener_pres _ _ _ _ g h.good2.jinv) (Udp.listener_pres _ _ _ _ g h.allAnn)
          (Udp.listener_fl _ _ _ _ g h.allAnn)
      · exact h
    · split
      · exact h.of_fl (by simpa [*] using hg) (Udp.onClient_pres _ _ _ _ g h.good2.jinv) (Udp.onClient_pres _ _ _ _ g h.allAnn)
          (Udp.onClient_fl _ _ _ _ g h.allAnn)
      · exact h
    · exact h

theorem goodU_init (cfg : Cfg) : GoodU (init cfg) :=
  ⟨good2_init cfg, by intro x s hx; simp [init] at hx, rfl⟩

theorem Udp.goodU_run (cfg : Cfg) (is : List In) : GoodU (run Udp.step (init cfg) is) := by
  unfold run
  generalize hg : init cfg = g
  have h : GoodU g := hg ▸ goodU_init cfg
  clear hg
  induction is generalizing g with
  | nil => exact h
  | cons i r ih => exact ih _ (Udp.goodU_step g i h)

end Iora.Lifecycle
