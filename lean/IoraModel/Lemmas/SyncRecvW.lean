import IoraModel.Lemmas.SyncRecvG
import IoraModel.Model.SyncRecvW
/-! Lemmas about the `receiveSyncCancellable` layer (`Model/SyncRecvW.lean`): a wrapper run is the core run over its `.base` steps. -/
namespace Iora.SyncRecv
open Iora
set_option linter.unusedSimpArgs false
set_option linter.unusedVariables false

/-! ## events -/

theorem run_append_evs (cfg : Cfg) : ∀ (a b : List Step) (s : State),
    (run cfg s (a ++ b)).2 = (run cfg s a).2 ++ (run cfg (run cfg s a).1 b).2 := by
  intro a
  induction a with
  | nil => intro b s; simp [run_nil]
  | cons st rest ih => intro b s; simp only [List.cons_append, run_cons, ih, List.append_assoc]

theorem coreEvs_append (a b : List WEv) : coreEvs (a ++ b) = coreEvs a ++ coreEvs b := by
  induction a with
  | nil => rfl
  | cons e r ih => cases e <;> simp [coreEvs, ih]

theorem coreEvs_map_base (l : List Ev) : coreEvs (l.map WEv.base) = l := by
  induction l with
  | nil => rfl
  | cons e r ih => simp [coreEvs, ih]

/-- the sub-call result the wrapper reads off the events of a `recvEnter`/`recvWake` step -/
theorem res_evRecv (sid : Nat) (X : Option RecvRes) :
    (match recvOf (evRecv sid X) with | some (_, x) => some x | none => none) = X := by
  cases X <;> simp [evRecv, recvOf]

/-! ## `afterSub` -/

theorem afterSub_core (ws : WState) (sid : Nat) (c : WCall) (X : Option RecvRes) : (afterSub ws sid c X).1.core = ws.core := by
  cases X with
  | none => rfl
  | some r => cases r <;> rfl

theorem coreEvs_afterSub (ws : WState) (sid : Nat) (c : WCall) (X : Option RecvRes) : coreEvs (afterSub ws sid c X).2 = [] := by
  cases X with
  | none => rfl
  | some r => cases r <;> rfl

theorem base_not_mem_afterSub (ws : WState) (sid : Nat) (c : WCall) (X : Option RecvRes) (e : Ev) :
    WEv.base e ∉ (afterSub ws sid c X).2 := by
  cases X with
  | none => simp [afterSub]
  | some r => cases r <;> simp [afterSub]

theorem mem_afterSub {ws : WState} {sid sid' : Nat} {c : WCall} {X : Option RecvRes} {r : RecvRes}
    (h : WEv.wrapRet sid r ∈ (afterSub ws sid' c X).2) : sid = sid' ∧ X = some r ∧ r ≠ .timeout := by
  cases X with
  | none => simp [afterSub] at h
  | some q => cases q <;> simp [afterSub] at h <;> (obtain ⟨h1, h2⟩ := h; subst h1 h2; simp)

theorem afterSub_returns (ws : WState) (sid : Nat) (c : WCall) {r : RecvRes} (hr : r ≠ .timeout) :
    WEv.wrapRet sid r ∈ (afterSub ws sid c (some r)).2 ∧ (afterSub ws sid c (some r)).1.w sid = none := by
  cases r <;> simp_all [afterSub, setW]

/-! ## a `.base` step -/

/-- a `.base` step either only performs the core step, or (a critical section of the running wrapper's sub-call) additionally
feeds the section's answer `X` to `afterSub` -/
theorem wstep_base_cases (cfg : Cfg) (ws : WState) (st : Step) :
    wstep cfg ws (.base st) = ({ ws with core := (step cfg ws.core st).1 }, (step cfg ws.core st).2.map WEv.base) ∨
    ∃ sid c X, recvStepOf st = some sid ∧ ws.w sid = some c ∧ (step cfg ws.core st).2 = evRecv sid X ∧
      wstep cfg ws (.base st) =
        ((afterSub { ws with core := (step cfg ws.core st).1 } sid c X).1,
         (step cfg ws.core st).2.map WEv.base ++ (afterSub { ws with core := (step cfg ws.core st).1 } sid c X).2) := by
  cases st with
  | recvEnter sid len =>
    cases hw : ws.w sid with
    | none => left; simp [wstep, recvStepOf, hw]
    | some c =>
      by_cases ha : c.phase = .entering
      · right
        refine ⟨sid, c, (recvEnterS ws.core.shuttingDown (ws.core.sess sid) len).2, rfl, hw, by simp [step], ?_⟩
        simp only [wstep, recvStepOf, hw, ha, step]
        generalize (recvEnterS ws.core.shuttingDown (ws.core.sess sid) len).2 = X
        cases X <;> simp [evRecv, recvOf]
      · left; simp [wstep, recvStepOf, hw, ha]
  | recvWake sid t =>
    cases hw : ws.w sid with
    | none => left; simp [wstep, recvStepOf, hw]
    | some c =>
      by_cases ha : c.phase = .inCall
      · right
        refine ⟨sid, c, (recvWakeS ws.core.shuttingDown (ws.core.sess sid) t).2, rfl, hw, by simp [step], ?_⟩
        simp only [wstep, recvStepOf, hw, ha, step]
        generalize (recvWakeS ws.core.shuttingDown (ws.core.sess sid) t).2 = X
        cases X <;> simp [evRecv, recvOf]
      · left; simp [wstep, recvStepOf, hw, ha]
  | ioData sid c => left; simp [wstep, recvStepOf]
  | ioDeliver => left; simp [wstep, recvStepOf]
  | ioClose sid => left; simp [wstep, recvStepOf]
  | ioCloseCb sid => left; simp [wstep, recvStepOf]
  | setMode sid m => left; simp [wstep, recvStepOf]
  | flushStep sid => left; simp [wstep, recvStepOf]
  | fence n => left; simp [wstep, recvStepOf]

/-! ## W0 -/

theorem wstep_core (cfg : Cfg) (ws : WState) (st : WStep) :
    (wstep cfg ws st).1.core = (run cfg ws.core (coreSteps [st])).1 ∧
      coreEvs (wstep cfg ws st).2 = (run cfg ws.core (coreSteps [st])).2 := by
  cases st with
  | base st =>
    simp only [coreSteps, run_cons, run_nil, List.append_nil]
    rcases wstep_base_cases cfg ws st with h | ⟨sid, c, X, _, _, _, h⟩
    · rw [h]; exact ⟨rfl, coreEvs_map_base _⟩
    · rw [h]; exact ⟨afterSub_core _ _ _ _, by rw [coreEvs_append, coreEvs_map_base, coreEvs_afterSub, List.append_nil]⟩
  | cancel sid => exact ⟨rfl, rfl⟩
  | reset sid => exact ⟨rfl, rfl⟩
  | wCall sid len =>
    simp only [wstep, coreSteps, run_nil]
    cases hw : ws.w sid with
    | some c => exact ⟨rfl, rfl⟩
    | none => cases ht : ws.tok sid <;> exact ⟨rfl, rfl⟩
  | wLoop sid e =>
    simp only [wstep, coreSteps, run_nil]
    cases hw : ws.w sid with
    | none => exact ⟨rfl, rfl⟩
    | some c =>
      simp only []
      (repeat' split) <;> exact ⟨rfl, rfl⟩

theorem okW_ok {ws : WState} {st : Step} (h : okW ws (.base st) = true) : ok ws.core st = true := by
  cases st <;> simp_all [okW]

theorem coreSteps_cons (st : WStep) (rest : List WStep) : coreSteps (st :: rest) = coreSteps [st] ++ coreSteps rest := by
  cases st <;> simp [coreSteps]

theorem okW_disciplined {cfg : Cfg} {ws : WState} {st : WStep} (h : okW ws st = true) :
    Disciplined cfg ws.core (coreSteps [st]) := by
  cases st with
  | base st => exact ⟨okW_ok h, trivial⟩
  | _ => trivial

theorem wrun_nil (cfg : Cfg) (ws : WState) : wrun cfg ws [] = (ws, []) := rfl
theorem wrun_cons (cfg : Cfg) (ws : WState) (st : WStep) (rest : List WStep) :
    wrun cfg ws (st :: rest) =
      ((wrun cfg (wstep cfg ws st).1 rest).1, (wstep cfg ws st).2 ++ (wrun cfg (wstep cfg ws st).1 rest).2) := rfl

theorem wrun_core (cfg : Cfg) : ∀ (wsteps : List WStep) (ws : WState),
    (wrun cfg ws wsteps).1.core = (run cfg ws.core (coreSteps wsteps)).1 ∧
      coreEvs (wrun cfg ws wsteps).2 = (run cfg ws.core (coreSteps wsteps)).2 ∧
      (DisciplinedW cfg ws wsteps → Disciplined cfg ws.core (coreSteps wsteps)) := by
  intro wsteps
  induction wsteps with
  | nil => intro ws; exact ⟨rfl, rfl, fun _ => trivial⟩
  | cons st rest ih =>
    intro ws
    obtain ⟨h1, h2⟩ := wstep_core cfg ws st
    obtain ⟨i1, i2, i3⟩ := ih (wstep cfg ws st).1
    rw [wrun_cons, coreSteps_cons]
    refine ⟨?_, ?_, ?_⟩
    · rw [run_append, ← h1]; exact i1
    · rw [run_append_evs, coreEvs_append, h2, i2, h1]
    · intro hd
      rw [disciplined_append]
      refine ⟨okW_disciplined hd.1, ?_⟩
      rw [← h1]; exact i3 hd.2

/-! ## W4: the composed stream the callers see -/

theorem userBytes_append (sid : Nat) (h : Bool) (a b : List WEv) : userBytes sid h (a ++ b) = userBytes sid h a ++ userBytes sid h b := by
  induction a with
  | nil => rfl
  | cons e r ih =>
    cases e with
    | base e =>
      cases e with
      | recvRet j q => cases q <;> simp [userBytes, ih]
      | cbData j d => simp [userBytes, ih]
      | modeRet j o => simp [userBytes, ih]
      | closeCb j => simp [userBytes, ih]
    | wrapRet j q => cases q <;> simp [userBytes, ih]

/-- with nothing hidden the application sees exactly the core events' bytes -/
theorem userBytes_map_base (sid : Nat) (l : List Ev) : userBytes sid false (l.map WEv.base) = evBytes sid l := by
  induction l with
  | nil => rfl
  | cons e r ih =>
    cases e with
    | recvRet j q => cases q <;> simp [userBytes, evBytes, ih]
    | cbData j d => simp [userBytes, evBytes, ih]
    | modeRet j o => simp [userBytes, evBytes, ih]
    | closeCb j => simp [userBytes, evBytes, ih]

/-- a sub-call section: the hidden `recvRet` and the wrapper's `wrapRet` carry the same bytes -/
theorem userBytes_sub (sid sid' : Nat) (ws : WState) (c : WCall) (X : Option RecvRes) :
    userBytes sid true ((evRecv sid' X).map WEv.base ++ (afterSub ws sid' c X).2) = evBytes sid (evRecv sid' X) := by
  cases X with
  | none => simp [evRecv, afterSub, userBytes, evBytes]
  | some r => cases r <;> simp [evRecv, afterSub, userBytes, evBytes]

/-- one wrapper step hands the application exactly the bytes its core events carry (ANY state, ANY step: a sub-call's `ok bytes` is
returned by the wrapper in the same step, whatever the token says; nothing else of a sub-call is visible) -/
theorem wstep_user (cfg : Cfg) (ws : WState) (st : WStep) (sid : Nat) :
    userBytes sid (subActive ws st) (wstep cfg ws st).2 = evBytes sid (coreEvs (wstep cfg ws st).2) := by
  cases st with
  | base st =>
    cases st with
    | recvEnter j len =>
      cases hw : ws.w j with
      | none => simp [wstep, recvStepOf, hw, subActive, userBytes_map_base, coreEvs_map_base]
      | some c =>
        by_cases ha : c.phase = .entering
        · simp only [wstep, recvStepOf, hw, ha, subActive, step, beq_self_eq_true, if_true]
          generalize (recvEnterS ws.core.shuttingDown (ws.core.sess j) len).2 = X
          cases X with
          | none => simp [evRecv, recvOf, afterSub, userBytes, evBytes, coreEvs]
          | some r => cases r <;> simp [evRecv, recvOf, afterSub, userBytes, evBytes, coreEvs]
        · have hb : (c.phase == WPhase.entering) = false := by simp [ha]
          simp [wstep, recvStepOf, hw, ha, hb, subActive, userBytes_map_base, coreEvs_map_base]
    | recvWake j t =>
      cases hw : ws.w j with
      | none => simp [wstep, recvStepOf, hw, subActive, userBytes_map_base, coreEvs_map_base]
      | some c =>
        by_cases ha : c.phase = .inCall
        · simp only [wstep, recvStepOf, hw, ha, subActive, step, beq_self_eq_true, if_true]
          generalize (recvWakeS ws.core.shuttingDown (ws.core.sess j) t).2 = X
          cases X with
          | none => simp [evRecv, recvOf, afterSub, userBytes, evBytes, coreEvs]
          | some r => cases r <;> simp [evRecv, recvOf, afterSub, userBytes, evBytes, coreEvs]
        · have hb : (c.phase == WPhase.inCall) = false := by simp [ha]
          simp [wstep, recvStepOf, hw, ha, hb, subActive, userBytes_map_base, coreEvs_map_base]
    | ioData j c => simp [wstep, recvStepOf, subActive, userBytes_map_base, coreEvs_map_base]
    | ioDeliver => simp [wstep, recvStepOf, subActive, userBytes_map_base, coreEvs_map_base]
    | ioClose j => simp [wstep, recvStepOf, subActive, userBytes_map_base, coreEvs_map_base]
    | ioCloseCb j => simp [wstep, recvStepOf, subActive, userBytes_map_base, coreEvs_map_base]
    | setMode j m => simp [wstep, recvStepOf, subActive, userBytes_map_base, coreEvs_map_base]
    | flushStep j => simp [wstep, recvStepOf, subActive, userBytes_map_base, coreEvs_map_base]
    | fence n => simp [wstep, recvStepOf, subActive, userBytes_map_base, coreEvs_map_base]
  | cancel j => simp [wstep, subActive, userBytes, coreEvs, evBytes]
  | reset j => simp [wstep, subActive, userBytes, coreEvs, evBytes]
  | wCall j len =>
    simp only [wstep, subActive]
    cases hw : ws.w j with
    | some c => simp [userBytes, coreEvs, evBytes]
    | none => cases ht : ws.tok j <;> simp [userBytes, coreEvs, evBytes]
  | wLoop j e =>
    simp only [wstep, subActive]
    cases hw : ws.w j with
    | none => simp [userBytes, coreEvs, evBytes]
    | some c =>
      simp only []
      (repeat' split) <;> simp [userBytes, coreEvs, evBytes]

/-- over a whole wrapper execution — any number of `receiveSyncCancellable` calls, plain receives, cancels and token resets in between —
the application is handed exactly the bytes of the core events, in order -/
theorem wrunUser_eq (cfg : Cfg) (sid : Nat) : ∀ (wsteps : List WStep) (ws : WState),
    wrunUser sid cfg ws wsteps = evBytes sid (coreEvs (wrun cfg ws wsteps).2) := by
  intro wsteps
  induction wsteps with
  | nil => intro ws; simp [wrunUser, wrun_nil, coreEvs, evBytes]
  | cons st rest ih =>
    intro ws
    rw [wrun_cons, coreEvs_append, evBytes_append]
    simp only [wrunUser]
    rw [wstep_user, ih]

end Iora.SyncRecv
