import IoraModel.Lemmas.WsServer
import IoraModel.Common.Framing
set_option linter.unusedSimpArgs false
set_option linter.unusedVariables false
/-! The WebSocket frame parser as a stable frame parser on streams of valid frames (DESIGN §6.6). -/
namespace Iora.Ws
open Iora Iora.Framing

/-- frames a peer may validly send under payload limit `max` -/
def ValidFrames (max : Nat) (fs : List Frame) : Prop := ∀ f ∈ fs, f.WF ∧ f.payload.length ≤ max

def stream (fs : List Frame) : Bytes := fs.flatMap serialize

/-- "good" buffers: prefixes of streams of valid frames -/
def Good (max : Nat) (d : Bytes) : Prop := ∃ fs x, ValidFrames max fs ∧ d ++ x = stream fs

def pws (max : Nat) (d : Bytes) : Res PRes :=
  match parse max d with
  | .incomplete => .more
  | .frame f n => .frame (.frame f n) n
  | .protocolError => .fatal .protocolError
  | .tooLarge => .fatal .tooLarge

theorem serialize_ne_nil (f : Frame) : serialize f ≠ [] := by
  obtain ⟨t, ht⟩ := serialize_head f; rw [ht]; simp

theorem good_noRsv (max : Nat) (d : Bytes) (h : Good max d) : NoRsv d := by
  obtain ⟨fs, x, hv, he⟩ := h
  match fs, hv, he with
  | [], _, he =>
    simp [stream] at he
    rw [he.1]; trivial
  | f :: fs', hv, he =>
    simp only [stream, List.flatMap_cons] at he
    have hf := (hv f (List.mem_cons_self ..)).1
    obtain ⟨t, ht⟩ := serialize_head f
    match d, he with
    | [], _ => trivial
    | b0 :: d', he =>
      rw [ht] at he
      simp only [List.cons_append, List.cons.injEq] at he
      obtain ⟨h0, _⟩ := he
      subst h0
      simp only [NoRsv, b8_toNat]
      exact (hdr0 f.opcode f.fin hf.op).2.1

/-- on a good buffer, a parsed frame is the first frame of the stream -/
theorem good_frame (max : Nat) (d : Bytes) (g : Frame) (n : Nat) (hg : Good max d) (hp : parse max d = .frame g n) :
    ∃ y, d = serialize g ++ y ∧ n = (serialize g).length ∧ Good max y := by
  obtain ⟨fs, x, hv, he⟩ := hg
  match fs, hv, he with
  | [], _, he =>
    simp [stream] at he
    rw [he.1] at hp; simp [parse] at hp
  | f :: fs', hv, he =>
    simp only [stream, List.flatMap_cons] at he
    obtain ⟨hf, hfm⟩ := hv f (List.mem_cons_self ..)
    have hv' : ValidFrames max fs' := fun f' h' => hv f' (List.mem_cons_of_mem _ h')
    rcases List.append_eq_append_iff.mp he with ⟨a', h1, h2⟩ | ⟨c', h1, h2⟩
    · -- serialize f = d ++ a'
      by_cases ha : a' = []
      · subst ha
        simp only [List.append_nil] at h1
        have hrt := roundtrip max f [] hf hfm
        rw [List.append_nil, h1] at hrt
        rw [hrt] at hp
        cases hp
        refine ⟨[], by simp [h1], by rw [h1], fs', x, hv', ?_⟩
        simpa [stream] using h2
      · have := prefix_incomplete max f hf hfm d a' ha h1.symm
        rw [this] at hp; cases hp
    · -- d = serialize f ++ c'
      have hrt := roundtrip max f c' hf hfm
      rw [← h1] at hrt
      rw [hrt] at hp
      cases hp
      exact ⟨c', h1, rfl, fs', x, hv', by simpa [stream] using h2.symm⟩

def wsStable (max : Nat) : Stable PRes (Good max) where
  p := pws max
  pos := by
    intro d a n h
    unfold pws at h
    split at h
    · cases h
    · rename_i f n' hp
      cases h
      have := parse_frame_bounds max d f _ hp
      omega
    · cases h
    · cases h
  ext_frame := by
    intro d a n x hg h
    have hgd : Good max d := by
      obtain ⟨fs, y, hv, he⟩ := hg
      exact ⟨fs, x ++ y, hv, by simpa [List.append_assoc] using he⟩
    unfold pws at h ⊢
    have hne : parse max d ≠ .incomplete := by intro hc; simp [hc] at h
    rw [parse_stable max d x (good_noRsv max d hgd) hne]
    exact h
  ext_fatal := by
    intro d e x hg h
    have hgd : Good max d := by
      obtain ⟨fs, y, hv, he⟩ := hg
      exact ⟨fs, x ++ y, hv, by simpa [List.append_assoc] using he⟩
    unfold pws at h ⊢
    have hne : parse max d ≠ .incomplete := by intro hc; simp [hc] at h
    rw [parse_stable max d x (good_noRsv max d hgd) hne]
    exact h
  g_drop := by
    intro d a n hg h
    unfold pws at h
    split at h
    · cases h
    · rename_i f n' hp
      cases h
      obtain ⟨y, h1, h2, h3⟩ := good_frame max d f _ hg hp
      subst h1
      rw [h2, List.drop_left]
      exact h3
    · cases h
    · cases h
  g_prefix := by
    intro d x hg
    obtain ⟨fs, y, hv, he⟩ := hg
    exact ⟨fs, x ++ y, hv, by simpa [List.append_assoc] using he⟩

/-- exactness: draining a stream of valid frames yields exactly those frames and an empty remainder -/
theorem drain_stream (max : Nat) : ∀ fs : List Frame, ValidFrames max fs →
    drain (wsStable max) (stream fs) = (fs.map (fun f => PRes.frame f (serialize f).length), .alive []) := by
  intro fs
  induction fs with
  | nil => intro _; exact drain_more _ _ (by simp [wsStable, pws, parse, stream])
  | cons f fs ih =>
    intro hv
    obtain ⟨hf, hfm⟩ := hv f (List.mem_cons_self ..)
    have hv' : ValidFrames max fs := fun f' h' => hv f' (List.mem_cons_of_mem _ h')
    have hrt := roundtrip max f (stream fs) hf hfm
    have hp : (wsStable max).p (stream (f :: fs)) = .frame (.frame f (serialize f).length) (serialize f).length := by
      simp only [wsStable, pws, stream, List.flatMap_cons]
      simp only [stream] at hrt
      rw [hrt]
    rw [drain_frame _ _ _ _ hp]
    have : (stream (f :: fs)).drop (serialize f).length = stream fs := by
      simp [stream, List.flatMap_cons, List.drop_left]
    rw [this, ih hv']
    simp

theorem good_stream (max : Nat) (fs : List Frame) (hv : ValidFrames max fs) : Good max (stream fs) :=
  ⟨fs, [], hv, by simp⟩

/-- **Frame-level segmentation independence**: however a stream of valid frames is cut into reads, greedy framing
yields exactly the frames that were serialised, in order, each once, with nothing left over. -/
theorem feed_stream (max : Nat) (fs : List Frame) (hv : ValidFrames max fs) (ss : List Bytes)
    (hs : ss.flatten = stream fs) :
    feed (wsStable max) (.alive []) ss = (fs.map (fun f => PRes.frame f (serialize f).length), .alive []) := by
  rw [feed_eq_whole (wsStable max) (by simp [wsStable, pws, parse]) ss (hs ▸ good_stream max fs hv), hs]
  exact drain_stream max fs hv

end Iora.Ws

namespace Iora.Ws
open Iora Iora.Framing

/-- what the server does with one parse outcome (one iteration of the `onUpgradedData` loop) -/
def interp1 (max : Nat) (s : Sess) : PRes → Sess × List Ev
  | .frame f _ => handleFrame max s f
  | .protocolError =>
    let (s2, ev) := sendClose s 1002 (str "Protocol error")
    (erase s2, ev ++ [.onError, .closeSession])
  | .tooLarge =>
    let (s2, ev) := sendClose s 1009 (str "Message Too Big")
    (erase s2, ev ++ [.onError, .closeSession])
  | .incomplete => (s, [])

def interp (max : Nat) : Sess → List PRes → Sess × List Ev
  | s, [] => (s, [])
  | s, r :: rs =>
    let (s1, e1) := interp1 max s r
    let (s2, e2) := interp max s1 rs
    (s2, e1 ++ e2)

def carryOpt : Carry → Option Bytes
  | .alive r => some r
  | .dead => none

/-- the parse loop of `onUpgradedData` is: greedy framing, then the per-frame handler folded over the frames -/
theorem loop_eq_interp (max : Nat) : ∀ (fuel : Nat) (s : Sess) (d : Bytes),
    loop max fuel s d =
      ((interp max s (drainF (wsStable max) fuel d).1).1, (interp max s (drainF (wsStable max) fuel d).1).2,
        carryOpt (drainF (wsStable max) fuel d).2) := by
  intro fuel
  induction fuel with
  | zero => intro s d; simp [loop, drainF, interp, carryOpt]
  | succ fuel ih =>
    intro s d
    unfold loop drainF
    by_cases he : d.isEmpty = true
    · have : d = [] := by simpa using he
      subst this
      simp [wsStable, pws, parse, interp, carryOpt]
    · simp only [he, Bool.false_eq_true, ↓reduceIte]
      simp only [wsStable, pws]
      cases hp : parse max d with
      | incomplete => simp [interp, carryOpt]
      | protocolError => simp [interp, interp1, carryOpt]
      | tooLarge => simp [interp, interp1, carryOpt]
      | frame f n =>
        simp only
        rw [ih]
        simp [interp, interp1, wsStable, pws]

theorem interp_append (max : Nat) : ∀ (a b : List PRes) (s : Sess),
    interp max s (a ++ b) = ((interp max (interp max s a).1 b).1, (interp max s a).2 ++ (interp max (interp max s a).1 b).2) := by
  intro a
  induction a with
  | nil => intro b s; simp [interp]
  | cons r rs ih => intro b s; simp [interp, ih, List.append_assoc]

end Iora.Ws

namespace Iora.Ws
open Iora Iora.Framing

def toP (f : Frame) : PRes := .frame f (serialize f).length

theorem map_toP_inj : ∀ (a b : List Frame), a.map toP = b.map toP → a = b := by
  intro a
  induction a with
  | nil => intro b h; cases b <;> simp_all
  | cons x xs ih =>
    intro b h
    cases b with
    | nil => simp at h
    | cons y ys =>
      simp only [List.map_cons, List.cons.injEq, toP, PRes.frame.injEq] at h
      rw [h.1.1, ih ys h.2]

/-- on good buffers the parser never reports a fatal error -/
theorem good_no_fatal (max : Nat) (d : Bytes) (hg : Good max d) :
    parse max d ≠ .protocolError ∧ parse max d ≠ .tooLarge := by
  obtain ⟨fs, x, hv, he⟩ := hg
  match fs, hv, he with
  | [], _, he =>
    simp [stream] at he
    rw [he.1]; simp [parse]
  | f :: fs', hv, he =>
    obtain ⟨hf, hfm⟩ := hv f (List.mem_cons_self ..)
    have hgd : Good max d := ⟨f :: fs', x, hv, he⟩
    have hrt := roundtrip max f (stream fs') hf hfm
    simp only [stream, List.flatMap_cons] at he hrt
    constructor
    · intro hc
      have := parse_stable max d x (good_noRsv max d hgd) (by rw [hc]; simp)
      rw [he, hrt, hc] at this; cases this
    · intro hc
      have := parse_stable max d x (good_noRsv max d hgd) (by rw [hc]; simp)
      rw [he, hrt, hc] at this; cases this

/-- draining a good buffer: some valid frames, byte-exactly, then an incomplete remainder -/
theorem drainF_good (max : Nat) : ∀ (fuel : Nat) (d : Bytes), d.length < fuel → Good max d →
    ∃ fs1 rest1, drainF (wsStable max) fuel d = (fs1.map toP, .alive rest1) ∧ d = stream fs1 ++ rest1 ∧
      parse max rest1 = .incomplete := by
  intro fuel
  induction fuel with
  | zero => intro d h; omega
  | succ fuel ih =>
    intro d hf hg
    unfold drainF
    simp only [wsStable, pws]
    cases hp : parse max d with
    | incomplete => exact ⟨[], d, by simp, by simp [stream], hp⟩
    | protocolError => exact absurd hp (good_no_fatal max d hg).1
    | tooLarge => exact absurd hp (good_no_fatal max d hg).2
    | frame g n =>
      obtain ⟨y, h1, h2, h3⟩ := good_frame max d g n hg hp
      have hn := parse_frame_bounds max d g n hp
      have hl : (d.drop n).length < fuel := by simp [List.length_drop]; omega
      have hd : d.drop n = y := by rw [h1, h2, List.drop_left]
      obtain ⟨fs1, rest1, e1, e2, e3⟩ := ih (d.drop n) hl (hd ▸ h3)
      refine ⟨g :: fs1, rest1, ?_, ?_, e3⟩
      · simp only
        have : drainF (wsStable max) fuel (List.drop n d) = (List.map toP fs1, Carry.alive rest1) := e1
        simp only [wsStable, pws] at this
        rw [this]
        simp [toP, h2]
      · rw [h1, ← hd, e2]; simp [stream, List.flatMap_cons, hd, h2]

theorem handleFrame_alive (max : Nat) (s : Sess) (f : Frame) (ha : s.alive = true) (h8 : f.opcode ≠ 8) :
    (handleFrame max s f).1.alive = true := by
  unfold handleFrame handleDataFrame sendClose
  simp only
  repeat' split
  all_goals simp_all

theorem interp_alive (max : Nat) : ∀ (fs : List Frame) (s : Sess), s.alive = true → (∀ f ∈ fs, f.opcode ≠ 8) →
    (interp max s (fs.map toP)).1.alive = true := by
  intro fs
  induction fs with
  | nil => intro s h _; simpa [interp] using h
  | cons f fs ih =>
    intro s h h8
    simp only [List.map_cons, interp, toP, interp1]
    exact ih _ (handleFrame_alive max s f h (h8 f (List.mem_cons_self ..))) (fun g hg => h8 g (List.mem_cons_of_mem _ hg))

theorem interp_buffer (max : Nat) : ∀ (fs : List Frame) (s : Sess), s.buffer = [] →
    (interp max s (fs.map toP)).1.buffer = [] := by
  intro fs
  induction fs with
  | nil => intro s h; simpa [interp] using h
  | cons f fs ih =>
    intro s h
    simp only [List.map_cons, interp, toP, interp1]
    exact ih _ (handleFrame_buffer max s f h)

theorem run_dead (max : Nat) : ∀ (ss : List Bytes) (s : Sess), s.alive = false →
    run max s (ss.map AppOp.data) = (s, []) := by
  intro ss
  induction ss with
  | nil => intro s _; rfl
  | cons x xs ih =>
    intro s h
    simp only [List.map_cons, run, step, onData, h, Bool.not_false, ↓reduceIte]
    rw [ih s h]; rfl

/-- the peer sends a CLOSE frame only as its last frame (RFC 6455 §5.5.1) -/
def CloseOnlyLast (fs : List Frame) : Prop := ∀ pre f post, fs = pre ++ f :: post → f.opcode = 8 → post = []

end Iora.Ws

namespace Iora.Ws
open Iora Iora.Framing

theorem onData_eq (max : Nat) (s : Sess) (data : Bytes) (ha : s.alive = true) :
    onData max s data =
      (match carryOpt (drain (wsStable max) (s.buffer ++ data)).2 with
        | some rest =>
          if (interp max { s with buffer := [] } (drain (wsStable max) (s.buffer ++ data)).1).1.alive
          then { (interp max { s with buffer := [] } (drain (wsStable max) (s.buffer ++ data)).1).1 with buffer := rest }
          else (interp max { s with buffer := [] } (drain (wsStable max) (s.buffer ++ data)).1).1
        | none => (interp max { s with buffer := [] } (drain (wsStable max) (s.buffer ++ data)).1).1,
       (interp max { s with buffer := [] } (drain (wsStable max) (s.buffer ++ data)).1).2) := by
  unfold onData
  simp only [ha, Bool.not_true, Bool.false_eq_true, ↓reduceIte]
  rw [loop_eq_interp]
  simp only [drain]
  cases carryOpt (drainF (wsStable max) ((s.buffer ++ data).length + 1) (s.buffer ++ data)).2 <;> rfl

theorem closeOnlyLast_suffix (a b : List Frame) (h : CloseOnlyLast (a ++ b)) : CloseOnlyLast b := by
  intro pre f post he h8
  exact h (a ++ pre) f post (by rw [he, List.append_assoc]) h8

theorem closeOnlyLast_split (a b : List Frame) (h : CloseOnlyLast (a ++ b)) (hc : ∃ f ∈ a, f.opcode = 8) : b = [] := by
  obtain ⟨f, hf, h8⟩ := hc
  obtain ⟨p, q, hpq⟩ := List.append_of_mem hf
  have := h p f (q ++ b) (by rw [hpq]; simp) h8
  simpa using (List.append_eq_nil_iff.mp this).2

/-- **Server-level segmentation independence (generalised to a session with a carried remainder).** -/
theorem run_data_eq (max : Nat) : ∀ (ss : List Bytes) (s : Sess) (fs : List Frame),
    ValidFrames max fs → CloseOnlyLast fs → s.alive = true → s.buffer ++ ss.flatten = stream fs →
    parse max s.buffer = .incomplete →
    (run max s (ss.map AppOp.data)).2 = (interp max { s with buffer := [] } (fs.map toP)).2 := by
  intro ss
  induction ss with
  | nil =>
    intro s fs hv hcl ha hb hinc
    simp only [List.flatten_nil, List.append_nil] at hb
    -- the buffer is a whole stream and is incomplete: the stream is empty
    have : fs = [] := by
      cases fs with
      | nil => rfl
      | cons f fs' =>
        obtain ⟨hf, hfm⟩ := hv f (List.mem_cons_self ..)
        have hrt := roundtrip max f (stream fs') hf hfm
        simp only [stream, List.flatMap_cons] at hb hrt
        rw [hb, hrt] at hinc; cases hinc
    subst this
    simp [run, interp]
  | cons seg ss ih =>
    intro s fs hv hcl ha hb hinc
    simp only [List.flatten_cons, ← List.append_assoc] at hb
    have hgood : Good max (s.buffer ++ seg ++ ss.flatten) := hb ▸ good_stream max fs hv
    have hgd : Good max (s.buffer ++ seg) := (wsStable max).g_prefix _ _ hgood
    -- frames extracted from this read
    obtain ⟨fs1, rest1, e1, e2, e3⟩ := drainF_good max ((s.buffer ++ seg).length + 1) (s.buffer ++ seg) (by omega) hgd
    have hd1 : drain (wsStable max) (s.buffer ++ seg) = (fs1.map toP, .alive rest1) := e1
    -- what remains of the stream
    have hg2 : Good max (rest1 ++ ss.flatten) :=
      drainF_carry_good (wsStable max) ((s.buffer ++ seg).length + 1) (s.buffer ++ seg) ss.flatten (by omega) hgood rest1 (by rw [e1])
    obtain ⟨fs2, rest2, f1, f2, f3⟩ := drainF_good max ((rest1 ++ ss.flatten).length + 1) (rest1 ++ ss.flatten) (by omega) hg2
    have hd2 : drain (wsStable max) (rest1 ++ ss.flatten) = (fs2.map toP, .alive rest2) := f1
    have happ := drainF_append (wsStable max) ((s.buffer ++ seg).length + 1) (s.buffer ++ seg) ss.flatten (by omega) hgood
    rw [e1] at happ
    simp only [resume, hd2] at happ
    rw [hb, drain_stream max fs hv] at happ
    simp only [Prod.mk.injEq, Carry.alive.injEq] at happ
    obtain ⟨hfr, hr2⟩ := happ
    have hfs : fs = fs1 ++ fs2 := map_toP_inj _ _ (by rw [List.map_append]; exact hfr)
    subst hr2
    simp only [List.append_nil] at f2
    -- this read
    simp only [List.map_cons, run, step]
    rw [onData_eq max s seg ha, hd1]
    simp only [carryOpt]
    have hbuf := interp_buffer max fs1 { s with buffer := [] } rfl
    have hv2 : ValidFrames max fs2 := fun f hf => hv f (by rw [hfs]; exact List.mem_append_right _ hf)
    have hcl2 : CloseOnlyLast fs2 := closeOnlyLast_suffix fs1 fs2 (hfs ▸ hcl)
    have hali := interp_alive max fs1 { s with buffer := [] } ha
    rw [hfs, List.map_append, interp_append]
    generalize interp max { s with buffer := [] } (fs1.map toP) = I at hbuf hali ⊢
    obtain ⟨s1, ev1⟩ := I
    obtain ⟨al, bf, fb, fo, cs⟩ := s1
    simp only at hbuf hali ⊢
    subst hbuf
    congr 1
    cases al with
    | true =>
      simp only [↓reduceIte]
      exact ih { alive := true, buffer := rest1, fragBuf := fb, fragOp := fo, closeSent := cs } fs2 hv2 hcl2 rfl f2 e3
    | false =>
      simp only [Bool.false_eq_true, ↓reduceIte]
      rw [run_dead max ss _ rfl]
      have hc : ∃ f ∈ fs1, f.opcode = 8 := by
        apply Classical.byContradiction
        intro hno
        have : ∀ f ∈ fs1, f.opcode ≠ 8 := fun f hf h8 => hno ⟨f, hf, h8⟩
        exact absurd (hali this) (by simp)
      have : fs2 = [] := closeOnlyLast_split fs1 fs2 (hfs ▸ hcl) hc
      subst this
      simp [interp]

end Iora.Ws

namespace Iora.Ws
open Iora Iora.Framing

/-- what the application (or the wire) sees for one complete message -/
def deliverEv (op : Nat) (pl : Bytes) : List Ev :=
  if op = 1 then (if isValidUtf8 pl then [.text pl] else [.sent (serialize (makeClose 1007 (str "Invalid UTF-8")))])
  else [.binary pl]

/-- the pongs owed for the pings among some frames, in order -/
def pongsOf : List Frame → List Ev
  | [] => []
  | c :: cs => (if c.opcode = 9 then [Ev.sent (serialize (mkFrame 10 true c.payload))] else []) ++ pongsOf cs

/-- the frames after the first fragment of a message: continuation fragments (last one with FIN) with ping/pong
control frames anywhere in between; `acc` is the concatenation of the continuation payloads -/
inductive Tail : Bytes → List Frame → Prop where
  | last (f : Frame) : f.opcode = 0 → f.fin = true → Tail f.payload [f]
  | cont (f : Frame) (acc : Bytes) (rest : List Frame) : f.opcode = 0 → f.fin = false → Tail acc rest →
      Tail (f.payload ++ acc) (f :: rest)
  | ctl (c : Frame) (acc : Bytes) (rest : List Frame) : (c.opcode = 9 ∨ c.opcode = 10) → Tail acc rest →
      Tail acc (c :: rest)

/-- **Reassembly.** In a live session that is in the middle of a message (`fragOp = op`, `fragBuf = b`), any tail of
continuation fragments with interleaved pings/pongs yields exactly: one pong per ping (same payload, in order) and then
ONE delivery of the in-order concatenation — as text only if it is valid UTF-8 (else close 1007) — provided the message
fits the limit.  Control frames do not disturb the fragment buffer. -/
theorem reassembly_tail (max : Nat) (op : Nat) (hop : op = 1 ∨ op = 2) :
    ∀ (fs : List Frame) (acc : Bytes), Tail acc fs → ∀ (s : Sess), s.alive = true → s.fragOp = op →
      (s.fragBuf ++ acc).length ≤ max →
      (interp max s (fs.map toP)).2 = pongsOf fs ++ deliverEv op (s.fragBuf ++ acc) := by
  intro fs acc ht
  induction ht with
  | last f h0 hfin =>
    intro s ha hfo hlen
    have hgt : ¬ max < s.fragBuf.length + f.payload.length := by simp at hlen; omega
    rcases hop with hop | hop <;> subst hop
    · by_cases hu : isValidUtf8 (s.fragBuf ++ f.payload) = true
      · simp [interp, interp1, toP, handleFrame, handleDataFrame, h0, hfin, ha, hfo, pongsOf, deliverEv, hgt, hu]
      · simp [interp, interp1, toP, handleFrame, handleDataFrame, h0, hfin, ha, hfo, pongsOf, deliverEv, hgt, hu, sendClose]
    · simp [interp, interp1, toP, handleFrame, handleDataFrame, h0, hfin, ha, hfo, pongsOf, deliverEv, hgt]
  | cont f acc rest h0 hfin _ ih =>
    intro s ha hfo hlen
    have hlen' : (s.fragBuf ++ f.payload).length ≤ max := by simp at hlen ⊢; omega
    have hgt : ¬ max < s.fragBuf.length + f.payload.length := by simp at hlen; omega
    have := ih { s with fragBuf := s.fragBuf ++ f.payload } ha hfo (by simpa [List.append_assoc] using hlen)
    simp [interp, toP, interp1, handleFrame, handleDataFrame, h0, hfin, ha, pongsOf, hgt, List.append_assoc] at this ⊢
    exact this
  | ctl c acc rest hc _ ih =>
    intro s ha hfo hlen
    have := ih s ha hfo hlen
    rcases hc with hc | hc
    · simp only [List.map_cons, interp, toP, interp1, handleFrame, hc, pongsOf]
      simp [this]
    · simp only [List.map_cons, interp, toP, interp1, handleFrame, hc, pongsOf]
      simp [this]

end Iora.Ws
