import IoraModel.Lemmas.WsServer
import IoraModel.Common.Framing
set_option linter.unusedSimpArgs false
set_option linter.unusedVariables false
/-! The WebSocket frame parser as a stable frame parser on streams of valid frames (DESIGN §6.6). -/
namespace Iora.Ws
open Iora Iora.Framing

/-- frames a peer may validly send under payload limit `max` -/
def ValidFrames (max : Nat) (fs : List Frame) : Prop := ∀ f ∈ fs, f.WF ∧ f.payload.length ≤ max

def stream (fs : List Frame) : Bytes := fs.flatMap serialize

/-- "good" buffers: prefixes of streams of valid frames -/
def Good (max : Nat) (d : Bytes) : Prop := ∃ fs x, ValidFrames max fs ∧ d ++ x = stream fs

def pws (max : Nat) (d : Bytes) : Res PRes :=
  match parse max d with
  | .incomplete => .more
  | .frame f n => .frame (.frame f n) n
  | .protocolError => .fatal .protocolError
  | .tooLarge => .fatal .tooLarge

theorem serialize_ne_nil (f : Frame) : serialize f ≠ [] := by
  obtain ⟨t, ht⟩ := serialize_head f; rw [ht]; simp

theorem good_noRsv (max : Nat) (d : Bytes) (h : Good max d) : NoRsv d := by
  obtain ⟨fs, x, hv, he⟩ := h
  match fs, hv, he with
  | [], _, he =>
    simp [stream] at he
    rw [he.1]; trivial
  | f :: fs', hv, he =>
    simp only [stream, List.flatMap_cons] at he
    have hf := (hv f (List.mem_cons_self ..)).1
    obtain ⟨t, ht⟩ := serialize_head f
    match d, he with
    | [], _ => trivial
    | b0 :: d', he =>
      rw [ht] at he
      simp only [List.cons_append, List.cons.injEq] at he
      obtain ⟨h0, _⟩ := he
      subst h0
      simp only [NoRsv, b8_toNat]
      exact (hdr0 f.opcode f.fin hf.op).2.1

/-- on a good buffer, a parsed frame is the first frame of the stream -/
theorem good_frame (max : Nat) (d : Bytes) (g : Frame) (n : Nat) (hg : Good max d) (hp : parse max d = .frame g n) :
    ∃ y, d = serialize g ++ y ∧ n = (serialize g).length ∧ Good max y := by
  obtain ⟨fs, x, hv, he⟩ := hg
  match fs, hv, he with
  | [], _, he =>
    simp [stream] at he
    rw [he.1] at hp; simp [parse] at hp
  | f :: fs', hv, he =>
    simp only [stream, List.flatMap_cons] at he
    obtain ⟨hf, hfm⟩ := hv f (List.mem_cons_self ..)
    have hv' : ValidFrames max fs' := fun f' h' => hv f' (List.mem_cons_of_mem _ h')
    rcases List.append_eq_append_iff.mp he with ⟨a', h1, h2⟩ | ⟨c', h1, h2⟩
    · -- serialize f = d ++ a'
      by_cases ha : a' = []
      · subst ha
        simp only [List.append_nil] at h1
        have hrt := roundtrip max f [] hf hfm
        rw [List.append_nil, h1] at hrt
        rw [hrt] at hp
        cases hp
        refine ⟨[], by simp [h1], by rw [h1], fs', x, hv', ?_⟩
        simpa [stream] using h2
      · have := prefix_incomplete max f hf hfm d a' ha h1.symm
        rw [this] at hp; cases hp
    · -- d = serialize f ++ c'
      have hrt := roundtrip max f c' hf hfm
      rw [← h1] at hrt
      rw [hrt] at hp
      cases hp
      exact ⟨c', h1, rfl, fs', x, hv', by simpa [stream] using h2.symm⟩

def wsStable (max : Nat) : Stable PRes (Good max) where
  p := pws max
  pos := by
    intro d a n h
    unfold pws at h
    split at h
    · cases h
    · rename_i f n' hp
      cases h
      have := parse_frame_bounds max d f _ hp
      omega
    · cases h
    · cases h
  ext_frame := by
    intro d a n x hg h
    have hgd : Good max d := by
      obtain ⟨fs, y, hv, he⟩ := hg
      exact ⟨fs, x ++ y, hv, by simpa [List.append_assoc] using he⟩
    unfold pws at h ⊢
    have hne : parse max d ≠ .incomplete := by intro hc; simp [hc] at h
    rw [parse_stable max d x (good_noRsv max d hgd) hne]
    exact h
  ext_fatal := by
    intro d e x hg h
    have hgd : Good max d := by
      obtain ⟨fs, y, hv, he⟩ := hg
      exact ⟨fs, x ++ y, hv, by simpa [List.append_assoc] using he⟩
    unfold pws at h ⊢
    have hne : parse max d ≠ .incomplete := by intro hc; simp [hc] at h
    rw [parse_stable max d x (good_noRsv max d hgd) hne]
    exact h
  g_drop := by
    intro d a n hg h
    unfold pws at h
    split at h
    · cases h
    · rename_i f n' hp
      cases h
      obtain ⟨y, h1, h2, h3⟩ := good_frame max d f _ hg hp
      subst h1
      rw [h2, List.drop_left]
      exact h3
    · cases h
    · cases h
  g_prefix := by
    intro d x hg
    obtain ⟨fs, y, hv, he⟩ := hg
    exact ⟨fs, x ++ y, hv, by simpa [List.append_assoc] using he⟩

/-- exactness: draining a stream of valid frames yields exactly those frames and an empty remainder -/
theorem drain_stream (max : Nat) : ∀ fs : List Frame, ValidFrames max fs →
    drain (wsStable max) (stream fs) = (fs.map (fun f => PRes.frame f (serialize f).length), .alive []) := by
  intro fs
  induction fs with
  | nil => intro _; exact drain_more _ _ (by simp [wsStable, pws, parse, stream])
  | cons f fs ih =>
    intro hv
    obtain ⟨hf, hfm⟩ := hv f (List.mem_cons_self ..)
    have hv' : ValidFrames max fs := fun f' h' => hv f' (List.mem_cons_of_mem _ h')
    have hrt := roundtrip max f (stream fs) hf hfm
    have hp : (wsStable max).p (stream (f :: fs)) = .frame (.frame f (serialize f).length) (serialize f).length := by
      simp only [wsStable, pws, stream, List.flatMap_cons]
      simp only [stream] at hrt
      rw [hrt]
    rw [drain_frame _ _ _ _ hp]
    have : (stream (f :: fs)).drop (serialize f).length = stream fs := by
      simp [stream, List.flatMap_cons, List.drop_left]
    rw [this, ih hv']
    simp

theorem good_stream (max : Nat) (fs : List Frame) (hv : ValidFrames max fs) : Good max (stream fs) :=
  ⟨fs, [], hv, by simp⟩

/-- **Frame-level segmentation independence**: however a stream of valid frames is cut into reads, greedy framing
yields exactly the frames that were serialised, in order, each once, with nothing left over. -/
theorem feed_stream (max : Nat) (fs : List Frame) (hv : ValidFrames max fs) (ss : List Bytes)
    (hs : ss.flatten = stream fs) :
    feed (wsStable max) (.alive []) ss = (fs.map (fun f => PRes.frame f (serialize f).length), .alive []) := by
  rw [feed_eq_whole (wsStable max) (by simp [wsStable, pws, parse]) ss (hs ▸ good_stream max fs hv), hs]
  exact drain_stream max fs hv

end Iora.Ws

namespace Iora.Ws
open Iora Iora.Framing

/-- what the server does with one parse outcome (one iteration of the `onUpgradedData` loop) -/
def interp1 (max : Nat) (cb : Cbs) (s : Sess) : PRes → Sess × List Ev
  | .frame f _ => handleFrame max cb s f
  | .protocolError => failSession cb s 1002 (str "Protocol error")
  | .tooLarge => failSession cb s 1009 (str "Message Too Big")
  | .incomplete => (s, [])

def interp (max : Nat) (cb : Cbs) : Sess → List PRes → Sess × List Ev
  | s, [] => (s, [])
  | s, r :: rs =>
    let (s1, e1) := interp1 max cb s r
    let (s2, e2) := interp max cb s1 rs
    (s2, e1 ++ e2)

def carryOpt : Carry → Option Bytes
  | .alive r => some r
  | .dead => none

/-- the parse loop of `onUpgradedData` is: greedy framing, then the per-frame handler folded over the frames -/
theorem loop_eq_interp (max : Nat) (cb : Cbs) : ∀ (fuel : Nat) (s : Sess) (d : Bytes),
    loop max cb fuel s d =
      ((interp max cb s (drainF (wsStable max) fuel d).1).1, (interp max cb s (drainF (wsStable max) fuel d).1).2,
        carryOpt (drainF (wsStable max) fuel d).2) := by
  intro fuel
  induction fuel with
  | zero => intro s d; simp [loop, drainF, interp, carryOpt]
  | succ fuel ih =>
    intro s d
    unfold loop drainF
    by_cases he : d.isEmpty = true
    · have : d = [] := by simpa using he
      subst this
      simp [wsStable, pws, parse, interp, carryOpt]
    · simp only [he, Bool.false_eq_true, ↓reduceIte]
      simp only [wsStable, pws]
      cases hp : parse max d with
      | incomplete => simp [interp, carryOpt]
      | protocolError => simp [interp, interp1, carryOpt]
      | tooLarge => simp [interp, interp1, carryOpt]
      | frame f n =>
        simp only
        rw [ih]
        simp [interp, interp1, wsStable, pws]

theorem interp_append (max : Nat) (cb : Cbs) : ∀ (a b : List PRes) (s : Sess),
    interp max cb s (a ++ b) =
      ((interp max cb (interp max cb s a).1 b).1, (interp max cb s a).2 ++ (interp max cb (interp max cb s a).1 b).2) := by
  intro a
  induction a with
  | nil => intro b s; simp [interp]
  | cons r rs ih => intro b s; simp [interp, ih, List.append_assoc]

end Iora.Ws

namespace Iora.Ws
open Iora Iora.Framing

def toP (f : Frame) : PRes := .frame f (serialize f).length

theorem map_toP_inj : ∀ (a b : List Frame), a.map toP = b.map toP → a = b := by
  intro a
  induction a with
  | nil => intro b h; cases b <;> simp_all
  | cons x xs ih =>
    intro b h
    cases b with
    | nil => simp at h
    | cons y ys =>
      simp only [List.map_cons, List.cons.injEq, toP, PRes.frame.injEq] at h
      rw [h.1.1, ih ys h.2]

/-- on good buffers the parser never reports a fatal error -/
theorem good_no_fatal (max : Nat) (d : Bytes) (hg : Good max d) :
    parse max d ≠ .protocolError ∧ parse max d ≠ .tooLarge := by
  obtain ⟨fs, x, hv, he⟩ := hg
  match fs, hv, he with
  | [], _, he =>
    simp [stream] at he
    rw [he.1]; simp [parse]
  | f :: fs', hv, he =>
    obtain ⟨hf, hfm⟩ := hv f (List.mem_cons_self ..)
    have hgd : Good max d := ⟨f :: fs', x, hv, he⟩
    have hrt := roundtrip max f (stream fs') hf hfm
    simp only [stream, List.flatMap_cons] at he hrt
    constructor
    · intro hc
      have := parse_stable max d x (good_noRsv max d hgd) (by rw [hc]; simp)
      rw [he, hrt, hc] at this; cases this
    · intro hc
      have := parse_stable max d x (good_noRsv max d hgd) (by rw [hc]; simp)
      rw [he, hrt, hc] at this; cases this

/-- draining a good buffer: some valid frames, byte-exactly, then an incomplete remainder -/
theorem drainF_good (max : Nat) : ∀ (fuel : Nat) (d : Bytes), d.length < fuel → Good max d →
    ∃ fs1 rest1, drainF (wsStable max) fuel d = (fs1.map toP, .alive rest1) ∧ d = stream fs1 ++ rest1 ∧
      parse max rest1 = .incomplete := by
  intro fuel
  induction fuel with
  | zero => intro d h; omega
  | succ fuel ih =>
    intro d hf hg
    unfold drainF
    simp only [wsStable, pws]
    cases hp : parse max d with
    | incomplete => exact ⟨[], d, by simp, by simp [stream], hp⟩
    | protocolError => exact absurd hp (good_no_fatal max d hg).1
    | tooLarge => exact absurd hp (good_no_fatal max d hg).2
    | frame g n =>
      obtain ⟨y, h1, h2, h3⟩ := good_frame max d g n hg hp
      have hn := parse_frame_bounds max d g n hp
      have hl : (d.drop n).length < fuel := by simp [List.length_drop]; omega
      have hd : d.drop n = y := by rw [h1, h2, List.drop_left]
      obtain ⟨fs1, rest1, e1, e2, e3⟩ := ih (d.drop n) hl (hd ▸ h3)
      refine ⟨g :: fs1, rest1, ?_, ?_, e3⟩
      · simp only
        have : drainF (wsStable max) fuel (List.drop n d) = (List.map toP fs1, Carry.alive rest1) := e1
        simp only [wsStable, pws] at this
        rw [this]
        simp [toP, h2]
      · rw [h1, ← hd, e2]; simp [stream, List.flatMap_cons, hd, h2]

theorem interp_buffer (max : Nat) (cb : Cbs) : ∀ (fs : List Frame) (s : Sess), s.buffer = [] →
    (interp max cb s (fs.map toP)).1.buffer = [] := by
  intro fs
  induction fs with
  | nil => intro s h; simpa [interp] using h
  | cons f fs ih =>
    intro s h
    simp only [List.map_cons, interp, toP, interp1]
    exact ih _ (handleFrame_buffer max cb s f h)

theorem run_dead (max : Nat) (cb : Cbs) : ∀ (ss : List Bytes) (s : Sess), s.alive = false →
    run max cb s (ss.map AppOp.data) = (s, []) := by
  intro ss
  induction ss with
  | nil => intro s _; rfl
  | cons x xs ih =>
    intro s h
    simp only [List.map_cons, run, step, onData, h, Bool.not_false, ↓reduceIte]
    rw [ih s h]; rfl

/-- the peer sends a CLOSE frame only as its last frame (RFC 6455 §5.5.1) -/
def CloseOnlyLast (fs : List Frame) : Prop := ∀ pre f post, fs = pre ++ f :: post → f.opcode = 8 → post = []

/-- only the LAST frame of the stream may end the session (the peer's CLOSE, or the fragment that makes a message
exceed the limit): every frame is handled by a session that still exists -/
def LiveUntilLast (max : Nat) (cb : Cbs) (s : Sess) (fs : List Frame) : Prop :=
  ∀ pre f post, fs = pre ++ f :: post → post ≠ [] → (interp max cb s ((pre ++ [f]).map toP)).1.alive = true

end Iora.Ws

namespace Iora.Ws
open Iora Iora.Framing

theorem onData_eq (max : Nat) (cb : Cbs) (s : Sess) (data : Bytes) (ha : s.alive = true) :
    onData max cb s data =
      (match carryOpt (drain (wsStable max) (s.buffer ++ data)).2 with
        | some rest =>
          if (interp max cb { s with buffer := [] } (drain (wsStable max) (s.buffer ++ data)).1).1.alive
          then { (interp max cb { s with buffer := [] } (drain (wsStable max) (s.buffer ++ data)).1).1 with buffer := rest }
          else (interp max cb { s with buffer := [] } (drain (wsStable max) (s.buffer ++ data)).1).1
        | none => (interp max cb { s with buffer := [] } (drain (wsStable max) (s.buffer ++ data)).1).1,
       (interp max cb { s with buffer := [] } (drain (wsStable max) (s.buffer ++ data)).1).2) := by
  unfold onData
  simp only [ha, Bool.not_true, Bool.false_eq_true, ↓reduceIte]
  rw [loop_eq_interp]
  simp only [drain]
  cases carryOpt (drainF (wsStable max) ((s.buffer ++ data).length + 1) (s.buffer ++ data)).2 <;> rfl

theorem closeOnlyLast_suffix (a b : List Frame) (h : CloseOnlyLast (a ++ b)) : CloseOnlyLast b := by
  intro pre f post he h8
  exact h (a ++ pre) f post (by rw [he, List.append_assoc]) h8

/-- **The receive path as a function of the frames (generalised to a session with a carried remainder).**
Whatever the segmentation, the reads process a PREFIX `fsA` of the frame list exactly as the per-frame handler folded
over it; the rest `fsB` is non-empty only if the session ended inside `fsA` (later reads are then ignored). -/
theorem run_data_split (max : Nat) (cb : Cbs) : ∀ (ss : List Bytes) (s : Sess) (fs : List Frame),
    ValidFrames max fs → s.alive = true → s.buffer ++ ss.flatten = stream fs →
    parse max s.buffer = .incomplete →
    ∃ fsA fsB, fs = fsA ++ fsB ∧
      (run max cb s (ss.map AppOp.data)).2 = (interp max cb { s with buffer := [] } (fsA.map toP)).2 ∧
      (fsB = [] ∨ (interp max cb { s with buffer := [] } (fsA.map toP)).1.alive = false) := by
  intro ss
  induction ss with
  | nil =>
    intro s fs hv ha hb hinc
    simp only [List.flatten_nil, List.append_nil] at hb
    -- the buffer is a whole stream and is incomplete: the stream is empty
    have : fs = [] := by
      cases fs with
      | nil => rfl
      | cons f fs' =>
        obtain ⟨hf, hfm⟩ := hv f (List.mem_cons_self ..)
        have hrt := roundtrip max f (stream fs') hf hfm
        simp only [stream, List.flatMap_cons] at hb hrt
        rw [hb, hrt] at hinc; cases hinc
    subst this
    exact ⟨[], [], rfl, by simp [run, interp], .inl rfl⟩
  | cons seg ss ih =>
    intro s fs hv ha hb hinc
    simp only [List.flatten_cons, ← List.append_assoc] at hb
    have hgood : Good max (s.buffer ++ seg ++ ss.flatten) := hb ▸ good_stream max fs hv
    have hgd : Good max (s.buffer ++ seg) := (wsStable max).g_prefix _ _ hgood
    -- frames extracted from this read
    obtain ⟨fs1, rest1, e1, e2, e3⟩ := drainF_good max ((s.buffer ++ seg).length + 1) (s.buffer ++ seg) (by omega) hgd
    have hd1 : drain (wsStable max) (s.buffer ++ seg) = (fs1.map toP, .alive rest1) := e1
    -- what remains of the stream
    have hg2 : Good max (rest1 ++ ss.flatten) :=
      drainF_carry_good (wsStable max) ((s.buffer ++ seg).length + 1) (s.buffer ++ seg) ss.flatten (by omega) hgood rest1 (by rw [e1])
    obtain ⟨fs2, rest2, f1, f2, f3⟩ := drainF_good max ((rest1 ++ ss.flatten).length + 1) (rest1 ++ ss.flatten) (by omega) hg2
    have hd2 : drain (wsStable max) (rest1 ++ ss.flatten) = (fs2.map toP, .alive rest2) := f1
    have happ := drainF_append (wsStable max) ((s.buffer ++ seg).length + 1) (s.buffer ++ seg) ss.flatten (by omega) hgood
    rw [e1] at happ
    simp only [resume, hd2] at happ
    rw [hb, drain_stream max fs hv] at happ
    simp only [Prod.mk.injEq, Carry.alive.injEq] at happ
    obtain ⟨hfr, hr2⟩ := happ
    have hfs : fs = fs1 ++ fs2 := map_toP_inj _ _ (by rw [List.map_append]; exact hfr)
    subst hr2
    simp only [List.append_nil] at f2
    -- this read
    simp only [List.map_cons, run, step]
    rw [onData_eq max cb s seg ha, hd1]
    simp only [carryOpt]
    have hbuf := interp_buffer max cb fs1 { s with buffer := [] } rfl
    have hv2 : ValidFrames max fs2 := fun f hf => hv f (by rw [hfs]; exact List.mem_append_right _ hf)
    generalize hI : interp max cb { s with buffer := [] } (fs1.map toP) = I at hbuf ⊢
    obtain ⟨s1, ev1⟩ := I
    obtain ⟨al, bf, fb, fo, cs⟩ := s1
    simp only at hbuf ⊢
    subst hbuf
    cases al with
    | true =>
      simp only [↓reduceIte]
      obtain ⟨fsA, fsB, g1, g2, g3⟩ := ih { alive := true, buffer := rest1, fragBuf := fb, fragOp := fo, closeSent := cs } fs2 hv2 rfl f2 e3
      refine ⟨fs1 ++ fsA, fsB, by rw [hfs, g1, List.append_assoc], ?_, ?_⟩
      · rw [List.map_append, interp_append, hI]
        simp only
        rw [g2]
      · rw [List.map_append, interp_append, hI]
        exact g3
    | false =>
      simp only [Bool.false_eq_true, ↓reduceIte]
      rw [run_dead max cb ss _ rfl]
      exact ⟨fs1, fs2, hfs, by simp [hI], .inr (by rw [hI])⟩

/-- **Server-level segmentation independence**: if every frame reaches a session that still exists, the events of
the reads are exactly the per-frame handler folded over the frame list. -/
theorem run_data_eq (max : Nat) (cb : Cbs) (ss : List Bytes) (s : Sess) (fs : List Frame)
    (hv : ValidFrames max fs) (hl : LiveUntilLast max cb { s with buffer := [] } fs) (ha : s.alive = true)
    (hb : s.buffer ++ ss.flatten = stream fs) (hinc : parse max s.buffer = .incomplete) :
    (run max cb s (ss.map AppOp.data)).2 = (interp max cb { s with buffer := [] } (fs.map toP)).2 := by
  obtain ⟨fsA, fsB, g1, g2, g3⟩ := run_data_split max cb ss s fs hv ha hb hinc
  rcases g3 with g3 | g3
  · subst g3; rw [g2, g1]; simp
  · -- the session ended inside `fsA`; by hypothesis that can only be at the very last frame
    by_cases hB : fsB = []
    · subst hB; rw [g2, g1]; simp
    · exfalso
      have hA : fsA ≠ [] := by
        intro h; subst h
        simp [interp, ha] at g3
      obtain ⟨pre, f, rfl⟩ : ∃ pre f, fsA = pre ++ [f] := ⟨fsA.dropLast, fsA.getLast hA, (List.dropLast_concat_getLast hA).symm⟩
      have := hl pre f fsB (by rw [g1]; simp) hB
      rw [this] at g3; cases g3

end Iora.Ws

namespace Iora.Ws
open Iora Iora.Framing

/-! ### when does every frame reach a live session: CLOSE last, and every (partial) message within the limit -/

/-- size of the fragment buffer after the locked part of `handleDataFrame` -/
def accLen (cur : Nat) (f : Frame) : Nat :=
  if f.opcode = 1 || f.opcode = 2 then f.payload.length else if f.opcode = 0 then cur + f.payload.length else cur

def isDataOp (f : Frame) : Bool := f.opcode = 0 || f.opcode = 1 || f.opcode = 2

/-- every message of the stream, complete or not, stays within `max` while it is being reassembled
(`cur` = bytes of the current message already received) -/
def fitsFrom (max : Nat) : Nat → List Frame → Bool
  | _, [] => true
  | cur, f :: r => decide (accLen cur f ≤ max) && fitsFrom max (if isDataOp f && f.fin then 0 else accLen cur f) r

theorem accumulate_len (s : Sess) (f : Frame) : (accumulate s f).fragBuf.length = accLen s.fragBuf.length f := by
  unfold accumulate accLen
  split
  · rfl
  · split <;> simp

theorem accumulate_nondata (s : Sess) (f : Frame) (h : isDataOp f = false) : accumulate s f = s := by
  unfold accumulate
  unfold isDataOp at h
  simp only [Bool.or_eq_false_iff, decide_eq_false_iff_not] at h
  simp [h.1.2, h.2, h.1.1]

theorem handleFrame_live (max : Nat) (cb : Cbs) (s : Sess) (f : Frame) (ha : s.alive = true) (h8 : f.opcode ≠ 8)
    (hfit : accLen s.fragBuf.length f ≤ max) :
    (handleFrame max cb s f).1.alive = true ∧
    (handleFrame max cb s f).1.fragBuf.length = (if isDataOp f && f.fin then 0 else accLen s.fragBuf.length f) := by
  unfold handleFrame
  split
  · rename_i hd
    have hdo : isDataOp f = true := by
      unfold isDataOp
      simp only [Bool.or_eq_true, decide_eq_true_eq] at hd ⊢
      rcases hd with (h | h) | h
      · exact .inl (.inr h)
      · exact .inr h
      · exact .inl (.inl h)
    unfold handleDataFrame
    simp only [ha, Bool.not_true, Bool.false_eq_true, ↓reduceIte, hdo, Bool.true_and]
    have hng : ¬ (accumulate s f).fragBuf.length > max := by rw [accumulate_len]; omega
    simp only [hng, ↓reduceIte]
    split
    · obtain ⟨h1, _, h3, _⟩ := deliver_same cb { accumulate s f with fragBuf := [], fragOp := 0 } (accumulate s f).fragOp (accumulate s f).fragBuf
      exact ⟨by rw [h1]; simpa using ha, by rw [h3]; rfl⟩
    · exact ⟨by simpa using ha, accumulate_len s f⟩
  · rename_i hd
    have hdo : isDataOp f = false := by
      unfold isDataOp
      simp only [Bool.or_eq_true, decide_eq_true_eq, not_or] at hd
      simp [hd.1.1, hd.1.2, hd.2]
    have hacc : accLen s.fragBuf.length f = s.fragBuf.length := by
      rw [← accumulate_len, accumulate_nondata s f hdo]
    simp only [hdo, Bool.false_and, Bool.false_eq_true, ↓reduceIte, hacc]
    split
    · exact ⟨ha, rfl⟩
    · split
      · exact ⟨ha, rfl⟩
      · simp only [h8, ↓reduceIte]
        obtain ⟨h1, _, h3, _⟩ := fire_same (sendClose s 1002 (str "Unsupported opcode")).1 .onError cb.onError
        exact ⟨by rw [h1]; exact ha, by rw [h3]; rfl⟩

theorem closeOnlyLast_tail (f : Frame) (r : List Frame) (h : CloseOnlyLast (f :: r)) : CloseOnlyLast r :=
  closeOnlyLast_suffix [f] r h

/-- a stream whose CLOSE (if any) is last and whose messages all fit keeps the session alive up to its last frame -/
theorem liveUntilLast_of_fits (max : Nat) (cb : Cbs) : ∀ (fs : List Frame) (s : Sess), s.alive = true →
    CloseOnlyLast fs → fitsFrom max s.fragBuf.length fs = true → LiveUntilLast max cb s fs := by
  intro fs
  induction fs with
  | nil => intro s _ _ _ pre f post he; simp at he
  | cons f r ih =>
    intro s ha hcl hfit pre f' post he hpost
    simp only [fitsFrom, Bool.and_eq_true, decide_eq_true_eq] at hfit
    obtain ⟨hfit1, hfit2⟩ := hfit
    have hrne : r ≠ [] := by
      cases pre with
      | nil => simp at he; rw [he.2]; exact hpost
      | cons p pre' => simp at he; rw [he.2]; simp
    have h8 : f.opcode ≠ 8 := fun h => hrne (hcl [] f r rfl h)
    obtain ⟨l1, l2⟩ := handleFrame_live max cb s f ha h8 hfit1
    cases pre with
    | nil =>
      simp only [List.nil_append, List.cons.injEq] at he
      obtain ⟨rfl, _⟩ := he
      simpa [interp, interp1, toP] using l1
    | cons p pre' =>
      simp only [List.cons_append, List.cons.injEq] at he
      obtain ⟨rfl, he2⟩ := he
      have := ih (handleFrame max cb s f).1 l1 (closeOnlyLast_tail f r hcl) (by rw [l2]; simpa [Bool.and_eq_true] using hfit2) pre' f' post he2 hpost
      simpa [interp, interp1, toP] using this

/-! ### what is DELIVERED (messages handed to the application) does not even need the session to survive -/

def isDelivery : Ev → Bool
  | .text _ => true
  | .binary _ => true
  | _ => false

/-- the messages handed to the application, in order -/
def msgs (evs : List Ev) : List Ev := evs.filter isDelivery

@[simp] theorem msgs_nil : msgs [] = [] := rfl
@[simp] theorem msgs_append (a b : List Ev) : msgs (a ++ b) = msgs a ++ msgs b := by simp [msgs]

theorem sendStep_msgs (s : Sess) (a : Send) : msgs (sendStep s a).2 = [] := by
  cases a <;> simp only [sendStep, appSend, sendPing, sendClose] <;> (repeat' split) <;> simp [msgs, isDelivery]

theorem runSends_msgs : ∀ (as : List Send) (s : Sess), msgs (runSends s as).2 = [] := by
  intro as
  induction as with
  | nil => intro s; rfl
  | cons a as ih => intro s; simp [runSends, sendStep_msgs, ih]

theorem fire_msgs (s : Sess) (e : Ev) (sc : List Send) : msgs (fire s e sc).2 = msgs [e] := by
  simp only [fire]
  have : e :: (runSends s sc).2 = [e] ++ (runSends s sc).2 := rfl
  rw [this, msgs_append, runSends_msgs]; simp

@[simp] theorem sendClose_msgs (s : Sess) (c : Nat) (r : Bytes) : msgs (sendClose s c r).2 = [] := by
  simp [sendClose, msgs, isDelivery]

theorem failSession_msgs (cb : Cbs) (s : Sess) (c : Nat) (r : Bytes) : msgs (failSession cb s c r).2 = [] := by
  simp only [failSession, msgs_append, sendClose_msgs, fire_msgs]
  simp [msgs, isDelivery]

theorem handleFrame_dead (max : Nat) (cb : Cbs) (s : Sess) (f : Frame) (ha : s.alive = false) :
    (handleFrame max cb s f).1.alive = false ∧ msgs (handleFrame max cb s f).2 = [] := by
  unfold handleFrame
  split
  · simp [handleDataFrame, ha]
  · split
    · exact ⟨ha, by simp [msgs, isDelivery]⟩
    · split
      · exact ⟨ha, rfl⟩
      · split
        · simp only
          refine ⟨rfl, ?_⟩
          simp only [ha, Bool.false_and, Bool.false_eq_true, ↓reduceIte, msgs_append, fire_msgs]
          simp [msgs, isDelivery]
        · simp only
          refine ⟨?_, ?_⟩
          · rw [(fire_same _ _ _).1]; exact ha
          · simp only [msgs_append, sendClose_msgs, fire_msgs]
            simp [msgs, isDelivery]

theorem interp_dead (max : Nat) (cb : Cbs) : ∀ (fs : List Frame) (s : Sess), s.alive = false →
    msgs (interp max cb s (fs.map toP)).2 = [] := by
  intro fs
  induction fs with
  | nil => intro s _; rfl
  | cons f fs ih =>
    intro s ha
    obtain ⟨h1, h2⟩ := handleFrame_dead max cb s f ha
    simp only [List.map_cons, interp, toP, interp1, msgs_append, h2, List.nil_append]
    exact ih _ h1

/-- **Delivered messages are segmentation independent for EVERY stream of valid frames** — no assumption on where the
peer's CLOSE is or on message sizes: frames that follow the end of the session deliver nothing, in the same read or later. -/
theorem run_msgs_eq (max : Nat) (cb : Cbs) (ss : List Bytes) (s : Sess) (fs : List Frame)
    (hv : ValidFrames max fs) (ha : s.alive = true) (hb : s.buffer ++ ss.flatten = stream fs)
    (hinc : parse max s.buffer = .incomplete) :
    msgs (run max cb s (ss.map AppOp.data)).2 = msgs (interp max cb { s with buffer := [] } (fs.map toP)).2 := by
  obtain ⟨fsA, fsB, g1, g2, g3⟩ := run_data_split max cb ss s fs hv ha hb hinc
  rw [g2, g1, List.map_append, interp_append]
  simp only [msgs_append]
  rcases g3 with g3 | g3
  · subst g3; simp [interp]
  · rw [interp_dead max cb fsB _ g3]; simp

end Iora.Ws

namespace Iora.Ws
open Iora Iora.Framing

/-! ### reassembly -/

/-- the pongs owed for the pings among some frames, in order -/
def pongsOf : List Frame → List Ev
  | [] => []
  | c :: cs => (if c.opcode = 9 then [Ev.sent (serialize (mkFrame 10 true c.payload))] else []) ++ pongsOf cs

/-- the frames after the first fragment of a message: continuation fragments (last one with FIN) with ping/pong
control frames anywhere in between; `acc` is the concatenation of the continuation payloads -/
inductive Tail : Bytes → List Frame → Prop where
  | last (f : Frame) : f.opcode = 0 → f.fin = true → Tail f.payload [f]
  | cont (f : Frame) (acc : Bytes) (rest : List Frame) : f.opcode = 0 → f.fin = false → Tail acc rest →
      Tail (f.payload ++ acc) (f :: rest)
  | ctl (c : Frame) (acc : Bytes) (rest : List Frame) : (c.opcode = 9 ∨ c.opcode = 10) → Tail acc rest →
      Tail acc (c :: rest)

/-- the session once the message has been taken out of the fragment buffer -/
def cleared (s : Sess) : Sess := { s with fragBuf := [], fragOp := 0 }

theorem handleFrame_cont (max : Nat) (cb : Cbs) (s : Sess) (f : Frame) (ha : s.alive = true) (h0 : f.opcode = 0)
    (hl : (s.fragBuf ++ f.payload).length ≤ max) :
    handleFrame max cb s f =
      if f.fin then deliver cb (cleared s) s.fragOp (s.fragBuf ++ f.payload)
      else ({ s with fragBuf := s.fragBuf ++ f.payload }, []) := by
  have hgt : ¬ max < s.fragBuf.length + f.payload.length := by simp at hl; omega
  simp [handleFrame, handleDataFrame, accumulate, h0, ha, hgt, cleared]

theorem handleFrame_start (max : Nat) (cb : Cbs) (s : Sess) (f : Frame) (ha : s.alive = true)
    (hop : f.opcode = 1 ∨ f.opcode = 2) (hl : f.payload.length ≤ max) :
    handleFrame max cb s f =
      if f.fin then deliver cb (cleared s) f.opcode f.payload
      else ({ s with fragOp := f.opcode, fragBuf := f.payload }, []) := by
  have hgt : ¬ max < f.payload.length := by omega
  rcases hop with h | h <;> simp [handleFrame, handleDataFrame, accumulate, h, ha, hgt, cleared]

/-- **Reassembly.** In a live session that is in the middle of a message (`fragOp = op`, `fragBuf = b`), any tail of
continuation fragments with interleaved pings/pongs yields exactly: one pong per ping (same payload, in order) and then
ONE delivery of the in-order concatenation — as text only if it is valid UTF-8 (else close 1007) — provided the message
fits the limit.  Control frames do not disturb the fragment buffer. The session ends up with an empty fragment buffer. -/
theorem reassembly_tail (max : Nat) (cb : Cbs) :
    ∀ (fs : List Frame) (acc : Bytes), Tail acc fs → ∀ (s : Sess), s.alive = true →
      (s.fragBuf ++ acc).length ≤ max →
      interp max cb s (fs.map toP) =
        ((deliver cb (cleared s) s.fragOp (s.fragBuf ++ acc)).1,
         pongsOf fs ++ (deliver cb (cleared s) s.fragOp (s.fragBuf ++ acc)).2) := by
  intro fs acc ht
  induction ht with
  | last f h0 hfin =>
    intro s ha hlen
    simp [interp, interp1, toP, handleFrame_cont max cb s f ha h0 hlen, hfin, pongsOf, h0]
  | cont f acc rest h0 hfin _ ih =>
    intro s ha hlen
    have hlen' : (s.fragBuf ++ f.payload).length ≤ max := by simp at hlen ⊢; omega
    have := ih { s with fragBuf := s.fragBuf ++ f.payload } ha (by simpa [List.append_assoc] using hlen)
    simp only [List.map_cons, interp, toP, interp1, handleFrame_cont max cb s f ha h0 hlen', hfin]
    simp [this, pongsOf, h0, cleared, List.append_assoc]
  | ctl c acc rest hc _ ih =>
    intro s ha hlen
    have := ih s ha hlen
    rcases hc with hc | hc
    · simp only [List.map_cons, interp, toP, interp1, handleFrame, hc, pongsOf]
      simp [this]
    · simp only [List.map_cons, interp, toP, interp1, handleFrame, hc, pongsOf]
      simp [this]

/-! ### message-level exactness -/

/-- the frames of ONE message with opcode `op` (text 1 / binary 2) and payload `pl`: unfragmented, or a first fragment
followed by a `Tail` (continuations, with pings/pongs in between) -/
inductive IsMsg : Nat → Bytes → List Frame → Prop where
  | single (f : Frame) : (f.opcode = 1 ∨ f.opcode = 2) → f.fin = true → IsMsg f.opcode f.payload [f]
  | frag (f : Frame) (acc : Bytes) (rest : List Frame) : (f.opcode = 1 ∨ f.opcode = 2) → f.fin = false → Tail acc rest →
      IsMsg f.opcode (f.payload ++ acc) (f :: rest)

/-- a peer's frame sequence that carries the messages `ms` (in order): messages, pings/pongs between them, and
optionally a final CLOSE -/
inductive Msgs : List (Nat × Bytes) → List Frame → Prop where
  | nil : Msgs [] []
  | close (c : Frame) : c.opcode = 8 → Msgs [] [c]
  | ctl (c : Frame) (ms : List (Nat × Bytes)) (fs : List Frame) : (c.opcode = 9 ∨ c.opcode = 10) → Msgs ms fs →
      Msgs ms (c :: fs)
  | msg (op : Nat) (pl : Bytes) (fsm : List Frame) (ms : List (Nat × Bytes)) (fs : List Frame) :
      IsMsg op pl fsm → Msgs ms fs → Msgs ((op, pl) :: ms) (fsm ++ fs)

/-- what the application must see for a message: a binary message as it is, a text message iff it is valid UTF-8 -/
def deliveryOf : Nat × Bytes → Option Ev
  | (op, pl) => if op = 1 then (if isValidUtf8 pl then some (.text pl) else none) else some (.binary pl)

theorem deliver_msgs (cb : Cbs) (s : Sess) (op : Nat) (pl : Bytes) (hop : op = 1 ∨ op = 2) :
    msgs (deliver cb s op pl).2 = (deliveryOf (op, pl)).toList := by
  unfold deliver deliveryOf
  rcases hop with h | h <;> subst h
  · by_cases hu : isValidUtf8 pl = true
    · simp only [hu, Bool.not_true, Bool.false_eq_true, ↓reduceIte, fire_msgs]
      simp [msgs, isDelivery]
    · simp [hu]
  · simp only [show ¬ (2 : Nat) = 1 by omega, ↓reduceIte, fire_msgs]
    simp [msgs, isDelivery]

theorem deliver_keeps (cb : Cbs) (s : Sess) (op : Nat) (pl : Bytes) (ha : s.alive = true) (hf : s.fragBuf = []) :
    (deliver cb s op pl).1.alive = true ∧ (deliver cb s op pl).1.fragBuf = [] := by
  obtain ⟨h1, _, h3, _⟩ := deliver_same cb s op pl
  exact ⟨by rw [h1]; exact ha, by rw [h3]; exact hf⟩

/-- one whole message from a live session between messages: its deliveries, and the session is between messages again -/
theorem isMsg_exact (max : Nat) (cb : Cbs) (op : Nat) (pl : Bytes) (fsm : List Frame) (hm : IsMsg op pl fsm)
    (hfit : pl.length ≤ max) (s : Sess) (ha : s.alive = true) :
    msgs (interp max cb s (fsm.map toP)).2 = (deliveryOf (op, pl)).toList ∧
    (interp max cb s (fsm.map toP)).1.alive = true ∧ (interp max cb s (fsm.map toP)).1.fragBuf = [] := by
  cases hm with
  | single f hop hfin =>
    have hk := deliver_keeps cb (cleared s) f.opcode f.payload (by simpa [cleared] using ha) rfl
    simp only [List.map_cons, List.map_nil, interp, toP, interp1, handleFrame_start max cb s f ha hop hfit, hfin, ↓reduceIte,
      List.append_nil]
    exact ⟨deliver_msgs cb _ _ _ hop, hk.1, hk.2⟩
  | frag f acc rest hop hfin ht =>
    have hfl : f.payload.length ≤ max := by simp at hfit; omega
    have hr := reassembly_tail max cb rest acc ht { s with fragOp := f.opcode, fragBuf := f.payload } ha hfit
    have hk := deliver_keeps cb (cleared s) f.opcode (f.payload ++ acc) (by simpa [cleared] using ha) rfl
    simp only [List.map_cons, interp, toP, interp1, handleFrame_start max cb s f ha hop hfl, hfin, Bool.false_eq_true,
      ↓reduceIte, List.nil_append]
    rw [hr]
    have hc : cleared { s with fragOp := f.opcode, fragBuf := f.payload } = cleared s := rfl
    simp only [hc]
    refine ⟨?_, hk.1, hk.2⟩
    rw [msgs_append, deliver_msgs cb _ _ _ hop]
    have : msgs (pongsOf rest) = [] := by
      clear hr ht hfit
      induction rest with
      | nil => rfl
      | cons c cs ih => simp only [pongsOf, msgs_append, ih, List.append_nil]; split <;> simp [msgs, isDelivery]
    rw [this]; rfl

theorem handleFrame_ping (max : Nat) (cb : Cbs) (s : Sess) (f : Frame) (h : f.opcode = 9) :
    handleFrame max cb s f = (s, [.sent (serialize (mkFrame 10 true f.payload))]) := by
  simp [handleFrame, h]

theorem handleFrame_pong (max : Nat) (cb : Cbs) (s : Sess) (f : Frame) (h : f.opcode = 10) :
    handleFrame max cb s f = (s, []) := by
  simp [handleFrame, h]

theorem handleFrame_close_msgs (max : Nat) (cb : Cbs) (s : Sess) (f : Frame) (h : f.opcode = 8) :
    msgs (handleFrame max cb s f).2 = [] := by
  unfold handleFrame
  rw [if_neg (by simp [h]), if_neg (by omega), if_neg (by omega), if_pos h]
  simp only [msgs_append, fire_msgs]
  split <;> simp [msgs, isDelivery]

/-- **Message-level exactness.** From a live session between messages, the frames of a list of messages (each within
the limit; unfragmented or fragmented, pings/pongs anywhere, an optional final CLOSE) deliver exactly those messages, in
order, each once — text only if valid UTF-8. -/
theorem msgs_exact (max : Nat) (cb : Cbs) : ∀ (ms : List (Nat × Bytes)) (fs : List Frame), Msgs ms fs →
    (∀ m ∈ ms, m.2.length ≤ max) → ∀ (s : Sess), s.alive = true → s.fragBuf = [] →
    msgs (interp max cb s (fs.map toP)).2 = ms.filterMap deliveryOf := by
  intro ms fs h
  induction h with
  | nil => intro _ s _ _; rfl
  | close c h8 =>
    intro _ s ha _
    simp only [List.map_cons, List.map_nil, interp, toP, interp1, List.append_nil]
    exact handleFrame_close_msgs max cb s c h8
  | ctl c ms fs hc _ ih =>
    intro hfit s ha hf
    have := ih hfit s ha hf
    rcases hc with hc | hc
    · simp only [List.map_cons, interp, toP, interp1, handleFrame_ping max cb s c hc, msgs_append, this]
      simp [msgs, isDelivery]
    · simp only [List.map_cons, interp, toP, interp1, handleFrame_pong max cb s c hc, msgs_append, this]
      simp
  | msg op pl fsm ms fs hm _ ih =>
    intro hfit s ha hf
    obtain ⟨e1, e2, e3⟩ := isMsg_exact max cb op pl fsm hm (hfit (op, pl) (List.mem_cons_self ..)) s ha
    rw [List.map_append, interp_append]
    simp only [msgs_append, e1]
    rw [ih (fun m hm' => hfit m (List.mem_cons_of_mem _ hm')) _ e2 e3]
    simp only [List.filterMap_cons]
    cases deliveryOf (op, pl) <;> simp

end Iora.Ws
