import IoraModel.Lemmas.Dns
/-! N3 for C19: no read of the model is ever out of range (`Err.oob`) and no fuel is ever exhausted, for arbitrary bytes. -/
namespace Iora.Dns
open Iora

/-- the outcome is not one of the two "cannot happen" outcomes -/
def Safe {α : Type} (x : R α) : Prop := x ≠ .error .oob ∧ x ≠ .error .fuel

theorem Safe.ok {α : Type} (a : α) : Safe (Except.ok a : R α) := ⟨(by intro h; cases h), (by intro h; cases h)⟩
theorem Safe.pure {α : Type} (a : α) : Safe (pure a : R α) := Safe.ok a
theorem Safe.err {α : Type} (e : Err) (h1 : e ≠ .oob) (h2 : e ≠ .fuel) : Safe (Except.error e : R α) :=
  ⟨(by intro h; cases h; exact h1 rfl), (by intro h; cases h; exact h2 rfl)⟩

theorem Safe.err_cast {α β : Type} {e : Err} (h : Safe (Except.error e : R α)) : Safe (Except.error e : R β) :=
  Safe.err e (fun he => h.1 (by rw [he])) (fun he => h.2 (by rw [he]))

theorem Safe.bind {α β : Type} {x : R α} {f : α → R β} (hx : Safe x) (hf : ∀ a, x = .ok a → Safe (f a)) :
    Safe (x >>= f) := by
  cases x with
  | error e =>
    constructor
    · intro h; exact hx.1 (by simpa [Bind.bind, Except.bind] using h)
    · intro h; exact hx.2 (by simpa [Bind.bind, Except.bind] using h)
  | ok a => exact hf a rfl

theorem Safe.map {α β : Type} {x : R α} (g : α → β) (hx : Safe x) : Safe (x.map g) := by
  cases x with
  | error e => exact ⟨(by intro h; exact hx.1 (by simpa [Except.map] using h)), (by intro h; exact hx.2 (by simpa [Except.map] using h))⟩
  | ok a => exact Safe.ok _

theorem rd_safe {m : Bytes} {i : Nat} (h : i < m.length) : Safe (rd m i) := by
  rw [rd_ok h]; exact Safe.ok _

theorem rd16_safe {m : Bytes} {i : Nat} (h : i + 1 < m.length) : Safe (rd16 m i) := by
  rw [rd16_ok h]; exact Safe.ok _

theorem rd32_safe {m : Bytes} {i : Nat} (h : i + 3 < m.length) : Safe (rd32 m i) := by
  unfold rd32
  rw [rd16_ok (by omega : i + 1 < m.length), rd16_ok (by omega : i + 2 + 1 < m.length)]
  exact Safe.ok _

theorem copy_safe {m : Bytes} {o n : Nat} (h : o + n ≤ m.length) : Safe (copy m o n) := by
  rw [copy_ok h]; exact Safe.ok _

theorem checkBounds_safe (o n t : Nat) : Safe (checkBounds o n t) := by
  unfold checkBounds; split
  · exact Safe.err _ (by decide) (by decide)
  · exact Safe.ok _

theorem checkBounds_ok {o n t : Nat} {u : Unit} (h : checkBounds o n t = .ok u) : o + n ≤ t := by
  unfold checkBounds at h; split at h
  · cases h
  · omega

/-- no out-of-range read in the name loop -/
theorem decodeGo_no_oob (m : Bytes) : ∀ (f : Nat) (s : NSt), decodeGo m f s ≠ .error .oob := by
  intro f
  induction f with
  | zero => intro s h; simp [decodeGo] at h
  | succ f ih =>
    intro s
    simp only [decodeGo]
    split
    · rename_i hlt
      rw [rd_ok hlt]
      dsimp only
      split
      · split
        · simp
        · rename_i hb
          rw [rd16_ok (by omega)]
          dsimp only
          split
          · simp
          · split
            · simp
            · split
              · simp
              · exact ih _
      · split
        · simp
        · split
          · simp
          · split
            · simp
            · rename_i hb
              rw [copy_ok (by omega)]
              dsimp only
              split
              · simp
              · exact ih _
    · split <;> simp

theorem decodeName_safe (m : Bytes) (off : Nat) : Safe (decodeName m off) :=
  ⟨decodeGo_no_oob m _ _, decodeName_no_fuel m off⟩

/-- mirrors the structure of `parseQuestion` -/
theorem parseQuestion_safe (m : Bytes) (off : Nat) : Safe (parseQuestion m off) := by
  unfold parseQuestion
  refine Safe.bind (decodeName_safe m off) ?_
  rintro ⟨n, o⟩ _
  refine Safe.bind (checkBounds_safe _ _ _) ?_
  intro u h1
  have := checkBounds_ok h1
  refine Safe.bind (rd16_safe (by omega)) ?_
  intro t _
  refine Safe.bind (checkBounds_safe _ _ _) ?_
  intro u h2
  have := checkBounds_ok h2
  refine Safe.bind (rd16_safe (by omega)) ?_
  intro c _
  exact Safe.pure _

theorem parseHeader_safe (m : Bytes) (off : Nat) : Safe (parseHeader m off) := by
  unfold parseHeader
  refine Safe.bind (checkBounds_safe _ _ _) ?_
  intro u h1
  have := checkBounds_ok h1
  have hh : Gen.Dns.headerSize = 12 := rfl
  rw [hh] at this
  refine Safe.bind (rd16_safe (by omega)) ?_; intro _ _
  refine Safe.bind (rd16_safe (by omega)) ?_; intro _ _
  refine Safe.bind (rd16_safe (by omega)) ?_; intro _ _
  refine Safe.bind (rd16_safe (by omega)) ?_; intro _ _
  refine Safe.bind (rd16_safe (by omega)) ?_; intro _ _
  refine Safe.bind (rd16_safe (by omega)) ?_; intro _ _
  exact Safe.pure _

theorem firstIsPtr_safe {r : Bytes} (h : 0 < r.length) : Safe (firstIsPtr r) := by
  unfold firstIsPtr
  refine Safe.bind (rd_safe h) ?_; intro _ _
  exact Safe.pure _

theorem validateRdata_safe (rr : RR) : Safe (validateRdata rr) := by
  unfold validateRdata
  have h4 : Gen.Dns.aLen = 4 := rfl
  have h2 : Gen.Dns.aWrongMin = 2 := rfl
  split
  · split
    · split
      · rename_i hge
        rw [h2] at hge
        refine Safe.bind (firstIsPtr_safe (by omega)) ?_
        intro p _
        split
        · exact Safe.err _ (by decide) (by decide)
        · exact Safe.pure _
      · exact Safe.pure _
    · rename_i hlen
      have hlen' : rr.rdata.length = 4 := by
        rw [h4] at hlen; omega
      refine Safe.bind (rd_safe (by omega)) ?_; intro b0 _
      split
      · refine Safe.bind (rd_safe (by omega)) ?_; intro b1 _
        refine Safe.bind (rd_safe (by omega)) ?_; intro b2 _
        refine Safe.bind (rd_safe (by omega)) ?_; intro b3 _
        dsimp only
        split
        · exact Safe.err _ (by decide) (by decide)
        · exact Safe.pure _
      · exact Safe.pure _
  · exact Safe.pure _

theorem parseRR_safe (m : Bytes) (off : Nat) : Safe (parseRR m off) := by
  unfold parseRR
  refine Safe.bind (decodeName_safe m off) ?_
  rintro ⟨n, o⟩ _
  refine Safe.bind (checkBounds_safe _ _ _) ?_; intro u h1
  have := checkBounds_ok h1
  refine Safe.bind (rd16_safe (by omega)) ?_; intro t _
  refine Safe.bind (checkBounds_safe _ _ _) ?_; intro u h2
  have := checkBounds_ok h2
  refine Safe.bind (rd16_safe (by omega)) ?_; intro c _
  refine Safe.bind (checkBounds_safe _ _ _) ?_; intro u h3
  have := checkBounds_ok h3
  refine Safe.bind (rd32_safe (by omega)) ?_; intro ttl _
  refine Safe.bind (checkBounds_safe _ _ _) ?_; intro u h4
  have := checkBounds_ok h4
  refine Safe.bind (rd16_safe (by omega)) ?_; intro rdl _
  refine Safe.bind (checkBounds_safe _ _ _) ?_; intro u h5
  have := checkBounds_ok h5
  refine Safe.bind (copy_safe (by omega)) ?_; intro rdata _
  refine Safe.bind (validateRdata_safe _) ?_; intro u _
  exact Safe.pure _

/-! ### RDATA names -/

theorem scanRdata_safe (r : Bytes) : ∀ (n c : Nat), r.length - c ≤ n → Safe (scanRdata r c) := by
  intro n
  induction n with
  | zero =>
    intro c h
    unfold scanRdata
    split
    · omega
    · exact Safe.ok _
  | succ n ih =>
    intro c h
    unfold scanRdata
    split
    · rename_i hlt
      rw [rd_ok hlt]
      dsimp only
      split
      · exact Safe.ok _
      · split
        · exact Safe.err _ (by decide) (by decide)
        · split
          · exact Safe.err _ (by decide) (by decide)
          · apply ih; omega
    · exact Safe.ok _

theorem scanRdata_safe' (r : Bytes) (c : Nat) : Safe (scanRdata r c) := scanRdata_safe r _ c (Nat.le_refl _)

theorem rdataName_safe (m : Bytes) (rdStart rdOff : Nat) (r : Bytes) : Safe (rdataName m rdStart rdOff r) := by
  unfold rdataName
  split
  · exact Safe.ok _
  · rename_i hne
    have hlt : rdOff < r.length := by omega
    refine Safe.bind ?_ ?_
    · split
      · rename_i h1
        refine Safe.bind (rd_safe hlt) ?_; intro fb _
        split
        · split
          · exact Safe.err _ (by decide) (by decide)
          · refine Safe.bind (rd16_safe h1) ?_; intro w _
            exact Safe.pure _
        · exact Safe.pure _
      · exact Safe.pure _
    · intro direct _
      split
      · split
        · refine Safe.bind (decodeName_safe _ _) ?_
          rintro ⟨n, _⟩ _
          exact Safe.pure _
        · exact Safe.err _ (by decide) (by decide)
      · dsimp only
        split
        · exact Safe.err _ (by decide) (by decide)
        · refine Safe.bind (decodeName_safe _ _) ?_
          rintro ⟨n, newOff⟩ _
          dsimp only
          split
          · exact Safe.pure _
          · refine Safe.bind (scanRdata_safe' _ _) ?_
            intro c _
            split
            · rename_i hc
              refine Safe.bind (rd_safe hc) ?_; intro b _
              split
              · exact Safe.pure _
              · split <;> exact Safe.pure _
            · exact Safe.pure _

/-! ### typed RDATA parsers -/

theorem parseA_safe (rr : RR) : Safe (parseA rr) := by
  unfold parseA
  have h4 : Gen.Dns.lenA = 4 := rfl
  split
  · exact Safe.err _ (by decide) (by decide)
  · rename_i hlen
    rw [h4] at hlen
    refine Safe.bind (rd_safe (by omega)) ?_; intro _ _
    refine Safe.bind (rd_safe (by omega)) ?_; intro _ _
    refine Safe.bind (rd_safe (by omega)) ?_; intro _ _
    refine Safe.bind (rd_safe (by omega)) ?_; intro _ _
    exact Safe.pure _

theorem parseAAAA_safe (rr : RR) : Safe (parseAAAA rr) := by
  unfold parseAAAA
  have h16 : Gen.Dns.lenAAAA = 16 := rfl
  split
  · exact Safe.err _ (by decide) (by decide)
  · rename_i hlen
    rw [h16] at hlen
    refine Safe.bind (copy_safe (by omega)) ?_; intro _ _
    exact Safe.pure _

theorem rdataNameFst_safe (m : Bytes) (rdStart rdOff : Nat) (r : Bytes) :
    Safe (do let (n, _) ← rdataName m rdStart rdOff r; pure n : R Bytes) := by
  refine Safe.bind (rdataName_safe _ _ _ _) ?_
  rintro ⟨n, _⟩ _
  exact Safe.pure _

theorem parseSrv_safe (rr : RR) (m : Bytes) (rdStart : Nat) : Safe (parseSrv rr m rdStart) := by
  unfold parseSrv
  have h6 : Gen.Dns.minSrv = 6 := rfl
  split
  · exact Safe.err _ (by decide) (by decide)
  · rename_i hlen
    rw [h6] at hlen
    refine Safe.bind (rd16_safe (by omega)) ?_; intro _ _
    refine Safe.bind (rd16_safe (by omega)) ?_; intro _ _
    refine Safe.bind (rd16_safe (by omega)) ?_; intro _ _
    refine Safe.bind ?_ ?_
    · split
      · exact rdataNameFst_safe _ _ _ _
      · exact Safe.pure _
    · intro _ _; exact Safe.pure _

theorem naptrString_safe (r : Bytes) (off : Nat) : Safe (naptrString r off) := by
  unfold naptrString
  split
  · exact Safe.pure _
  · refine Safe.bind (rd_safe (by omega)) ?_; intro l _
    split
    · exact Safe.pure _
    · refine Safe.bind (copy_safe (by omega)) ?_; intro _ _
      exact Safe.pure _

theorem parseNaptr_safe (rr : RR) (m : Bytes) (rdStart : Nat) : Safe (parseNaptr rr m rdStart) := by
  unfold parseNaptr
  have h4 : Gen.Dns.minNaptr = 4 := rfl
  split
  · exact Safe.err _ (by decide) (by decide)
  · rename_i hlen
    rw [h4] at hlen
    refine Safe.bind (rd16_safe (by omega)) ?_; intro _ _
    refine Safe.bind (rd16_safe (by omega)) ?_; intro _ _
    refine Safe.bind (naptrString_safe _ _) ?_; rintro ⟨_, o1⟩ _
    refine Safe.bind (naptrString_safe _ _) ?_; rintro ⟨_, o2⟩ _
    refine Safe.bind (naptrString_safe _ _) ?_; rintro ⟨_, o3⟩ _
    refine Safe.bind ?_ ?_
    · split
      · exact rdataNameFst_safe _ _ _ _
      · exact Safe.pure _
    · intro _ _; exact Safe.pure _

theorem parseCname_safe (rr : RR) (m : Bytes) (rdStart : Nat) : Safe (parseCname rr m rdStart) := by
  unfold parseCname
  split
  · refine Safe.bind (rdataName_safe _ _ _ _) ?_
    rintro ⟨n, _⟩ _
    exact Safe.pure _
  · exact Safe.pure _

theorem parsePtr_safe (rr : RR) (m : Bytes) (rdStart : Nat) : Safe (parsePtr rr m rdStart) := by
  unfold parsePtr
  split
  · refine Safe.bind (rdataName_safe _ _ _ _) ?_
    rintro ⟨n, _⟩ _
    exact Safe.pure _
  · exact Safe.pure _

theorem parseMx_safe (rr : RR) (m : Bytes) (rdStart : Nat) : Safe (parseMx rr m rdStart) := by
  unfold parseMx
  have h2 : Gen.Dns.minMx = 2 := rfl
  split
  · exact Safe.err _ (by decide) (by decide)
  · rename_i hlen
    rw [h2] at hlen
    refine Safe.bind (rd16_safe (by omega)) ?_; intro _ _
    refine Safe.bind ?_ ?_
    · split
      · exact rdataNameFst_safe _ _ _ _
      · exact Safe.pure _
    · intro _ _; exact Safe.pure _

theorem txtGo_safe (r : Bytes) : ∀ (n off : Nat) (acc : List Bytes), r.length - off ≤ n → Safe (txtGo r off acc) := by
  intro n
  induction n with
  | zero =>
    intro off acc h
    unfold txtGo
    split
    · omega
    · exact Safe.ok _
  | succ n ih =>
    intro off acc h
    unfold txtGo
    split
    · rename_i hlt
      rw [rd_ok hlt]
      dsimp only
      split
      · exact Safe.ok _
      · rw [copy_ok (by omega)]
        dsimp only
        apply ih; omega
    · exact Safe.ok _

theorem parseTxt_safe (rr : RR) : Safe (parseTxt rr) := by
  unfold parseTxt
  refine Safe.bind (txtGo_safe _ _ _ _ (Nat.le_refl _)) ?_
  intro _ _; exact Safe.pure _

theorem parseSoa_safe (rr : RR) (m : Bytes) (rdStart : Nat) : Safe (parseSoa rr m rdStart) := by
  unfold parseSoa
  have h20 : Gen.Dns.soaTail = 20 := rfl
  split
  · exact Safe.err _ (by decide) (by decide)
  · refine Safe.bind (rdataName_safe _ _ _ _) ?_
    rintro ⟨mname, o1⟩ _
    refine Safe.bind ?_ ?_
    · split
      · exact rdataName_safe _ _ _ _
      · exact Safe.pure _
    · rintro ⟨rname, o2⟩ _
      dsimp only
      split
      · exact Safe.err _ (by decide) (by decide)
      · rename_i hle
        rw [h20] at hle
        refine Safe.bind (rd32_safe (by omega)) ?_; intro _ _
        refine Safe.bind (rd32_safe (by omega)) ?_; intro _ _
        refine Safe.bind (rd32_safe (by omega)) ?_; intro _ _
        refine Safe.bind (rd32_safe (by omega)) ?_; intro _ _
        refine Safe.bind (rd32_safe (by omega)) ?_; intro _ _
        exact Safe.pure _

theorem typedOf_safe (rr : RR) (m : Bytes) (rdStart : Nat) : Safe (typedOf rr m rdStart) := by
  unfold typedOf
  split
  · exact Safe.pure _
  · split; · exact Safe.map _ (parseA_safe _)
    split; · exact Safe.map _ (parseAAAA_safe _)
    split; · exact Safe.map _ (parseSrv_safe _ _ _)
    split; · exact Safe.map _ (parseNaptr_safe _ _ _)
    split; · exact Safe.map _ (parseCname_safe _ _ _)
    split; · exact Safe.map _ (parseMx_safe _ _ _)
    split; · exact Safe.map _ (parseTxt_safe _)
    split; · exact Safe.map _ (parsePtr_safe _ _ _)
    split; · exact Safe.map _ (parseSoa_safe _ _ _)
    exact Safe.pure _

theorem parseTypedRecord_safe (rr : RR) (m : Bytes) (rdStart : Nat) : Safe (parseTypedRecord rr m rdStart) := by
  have h := typedOf_safe rr m rdStart
  unfold parseTypedRecord
  split
  · exact Safe.ok _
  · rename_i he; exact absurd he h.1
  · rename_i he; exact absurd he h.2
  · exact Safe.ok _

/-! ### whole message -/

theorem parseQuestions_safe (m : Bytes) : ∀ (n off : Nat) (acc : List Question), Safe (parseQuestions m n off acc) := by
  intro n
  induction n with
  | zero => intro off acc; exact Safe.ok _
  | succ n ih =>
    intro off acc
    simp only [parseQuestions]
    have h := parseQuestion_safe m off
    split
    · rename_i e he
      rw [he] at h; exact h.err_cast
    · exact ih _ _

theorem parseSection_safe (m : Bytes) : ∀ (n off : Nat) (rs : List RR) (ts : List Typed), Safe (parseSection m n off rs ts) := by
  intro n
  induction n with
  | zero => intro off rs ts; exact Safe.ok _
  | succ n ih =>
    intro off rs ts
    simp only [parseSection]
    have h := parseRR_safe m off
    split
    · rename_i e he
      rw [he] at h; exact h.err_cast
    · rename_i rr rdOff off' _
      have h2 := parseTypedRecord_safe rr m rdOff
      split
      · rename_i e he
        rw [he] at h2; exact h2.err_cast
      · exact ih _ _ _

/-- **N3 + N4 for the whole parser**: for arbitrary bytes `parse` never reads out of range and never exhausts fuel -/
theorem parse_safe (m : Bytes) : Safe (parse m) := by
  unfold parse
  split
  · exact Safe.err _ (by decide) (by decide)
  · refine Safe.bind (parseHeader_safe _ _) ?_; rintro ⟨h, off⟩ _
    refine Safe.bind (parseQuestions_safe _ _ _ _) ?_; rintro ⟨qs, off⟩ _
    refine Safe.bind (parseSection_safe _ _ _ _ _) ?_; rintro ⟨an, ts, off⟩ _
    refine Safe.bind (parseSection_safe _ _ _ _ _) ?_; rintro ⟨ns, ts, off⟩ _
    refine Safe.bind (parseSection_safe _ _ _ _ _) ?_; rintro ⟨ar, ts, off⟩ _
    exact Safe.pure _

end Iora.Dns
