import IoraModel.Lemmas.WsClient
set_option linter.unusedSimpArgs false
set_option linter.unusedVariables false
/-! The client's upgrade boundary: a valid `101` response followed by frames, cut anywhere (M2). -/
namespace Iora.Ws
open Iora Iora.Framing

theorem isPrefixOf_append_of_len (pat s x : Bytes) (h : pat.length ≤ s.length) :
    pat.isPrefixOf (s ++ x) = pat.isPrefixOf s := by
  induction pat generalizing s with
  | nil => simp
  | cons p ps ih =>
    cases s with
    | nil => simp at h
    | cons a as =>
      simp only [List.cons_append, List.isPrefixOf_cons₂]
      rw [ih as (by simpa using h)]

theorem isPrefixOf_length {pat s : Bytes} (h : pat.isPrefixOf s = true) : pat.length ≤ s.length := by
  induction pat generalizing s with
  | nil => simp
  | cons p ps ih =>
    cases s with
    | nil => simp at h
    | cons a as =>
      simp only [List.isPrefixOf_cons₂, Bool.and_eq_true] at h
      have := ih h.2
      simp; omega

/-- an occurrence lies inside the searched text -/
theorem findFrom_fits (pat : Bytes) : ∀ (d : Bytes) (i k : Nat), findFrom pat d i = some k →
    i ≤ k ∧ k + pat.length ≤ i + d.length := by
  intro d
  induction d with
  | nil =>
    intro i k h
    simp only [findFrom] at h
    split at h
    · cases h
      rename_i hp
      have : pat = [] := by simpa using hp
      subst this; simp
    · cases h
  | cons x t ih =>
    intro i k h
    simp only [findFrom] at h
    split at h
    · cases h
      rename_i hp
      have := isPrefixOf_length hp
      simp at this ⊢; omega
    · obtain ⟨h1, h2⟩ := ih (i + 1) k h
      simp; omega

/-- the first occurrence stays the first occurrence when more bytes arrive -/
theorem findFrom_append (pat : Bytes) (hne : pat ≠ []) : ∀ (d x : Bytes) (i k : Nat), findFrom pat d i = some k →
    findFrom pat (d ++ x) i = some k := by
  intro d
  induction d with
  | nil =>
    intro x i k h
    simp only [findFrom] at h
    split at h
    · rename_i hp; exact absurd (by simpa using hp) hne
    · cases h
  | cons a t ih =>
    intro x i k h
    simp only [findFrom] at h
    simp only [List.cons_append, findFrom]
    split at h
    · rename_i hp
      cases h
      have hl := isPrefixOf_length hp
      have := isPrefixOf_append_of_len pat (a :: t) x hl
      simp only [List.cons_append] at this
      rw [this, hp]; simp
    · rename_i hp
      obtain ⟨_, hf⟩ := findFrom_fits pat t (i + 1) k h
      have hl : pat.length ≤ (a :: t).length := by simp; omega
      have := isPrefixOf_append_of_len pat (a :: t) x hl
      simp only [List.cons_append] at this
      rw [this]
      simp only [hp, Bool.false_eq_true, ↓reduceIte]
      exact ih x (i + 1) k h

/-- if the first occurrence in `r` is its very end, no strict prefix of `r` contains one -/
theorem findSub_prefix_none (pat : Bytes) (hne : pat ≠ []) (r b y : Bytes) (hr : r = b ++ y) (hy : y ≠ [])
    (hf : findSub pat r = some (r.length - pat.length)) (hl : pat.length ≤ r.length) : findSub pat b = none := by
  cases hb : findSub pat b with
  | none => rfl
  | some j =>
    exfalso
    have h1 := findFrom_append pat hne b y 0 j hb
    have h2 := findFrom_fits pat b 0 j hb
    unfold findSub at hf
    rw [hr] at hf
    rw [h1] at hf
    cases hf
    have : y.length ≠ 0 := by intro h; exact hy (List.length_eq_zero_iff.mp h)
    simp at h2 hl
    omega

/-- a response the client accepts: it ends with its first CRLF CRLF, is not longer than the client waits for, starts with
the 101 status, and carries the expected `Sec-WebSocket-Accept` value on a line inside the header section -/
structure ValidResp (cfg : CCfg) (resp : Bytes) : Prop where
  len4 : 4 ≤ resp.length
  cap : resp.length ≤ Gen.Ws.clientMaxUpgradeResponse
  ends : findSub crlf2 resp = some (resp.length - 4)
  status : statusOk.isPrefixOf resp = true
  accept : ∃ ap k, findSub acceptHdr resp = some ap ∧ ap < resp.length - 4 ∧
    findSub crlf (resp.drop (ap + acceptHdr.length)) = some k ∧
    trimWs ((resp.drop (ap + acceptHdr.length)).take k) = cfg.accept

theorem crlf2_ne : crlf2 ≠ [] := by decide
theorem crlf_ne : crlf ≠ [] := by decide
theorem acceptHdr_ne : acceptHdr ≠ [] := by decide

theorem acceptValue_append (cfg : CCfg) (resp rest : Bytes) (h : ValidResp cfg resp) :
    acceptValue (resp ++ rest) (resp.length - 4) = cfg.accept := by
  obtain ⟨ap, k, h1, h2, h3, h4⟩ := h.accept
  have f1 := findFrom_fits acceptHdr resp 0 ap h1
  have f3 := findFrom_fits crlf (resp.drop (ap + acceptHdr.length)) 0 k h3
  unfold acceptValue
  have e1 : findSub acceptHdr (resp ++ rest) = some ap := findFrom_append acceptHdr acceptHdr_ne resp rest 0 ap h1
  rw [e1]
  simp only [h2, ↓reduceIte]
  have hd : (resp ++ rest).drop (ap + acceptHdr.length) = resp.drop (ap + acceptHdr.length) ++ rest := by
    rw [List.drop_append_of_le_length (by omega)]
  rw [hd]
  have e3 : findSub crlf (resp.drop (ap + acceptHdr.length) ++ rest) = some k :=
    findFrom_append crlf crlf_ne _ rest 0 k h3
  rw [e3]
  simp only
  rw [List.take_append_of_le_length (by simp at f3 ⊢; omega)]
  exact h4

/-- the handshake step on a buffer that contains the whole response -/
theorem cHandshake_ok (cfg : CCfg) (s : CSess) (resp rest : Bytes) (h : ValidResp cfg resp) :
    cHandshake cfg s (resp ++ rest) = .ok { s with upgraded := true, connected := true } [.connected] rest := by
  unfold cHandshake
  have e1 : findSub crlf2 (resp ++ rest) = some (resp.length - 4) := findFrom_append crlf2 crlf2_ne resp rest 0 _ h.ends
  rw [e1]
  have e2 : statusOk.isPrefixOf (resp ++ rest) = true := by
    rw [isPrefixOf_append_of_len statusOk resp rest (isPrefixOf_length h.status)]; exact h.status
  simp only [e2, Bool.not_true, Bool.false_eq_true, ↓reduceIte, acceptValue_append cfg resp rest h, ne_eq, not_true_eq_false]
  have : resp.length - 4 + 4 = resp.length := by have := h.len4; omega
  rw [this, List.drop_left]

/-- the handshake step on a strict prefix of the response: wait, keeping everything -/
theorem cHandshake_wait (cfg : CCfg) (s : CSess) (resp b y : Bytes) (h : ValidResp cfg resp) (hr : resp = b ++ y) (hy : y ≠ []) :
    cHandshake cfg s b = .wait { s with buffer := b } := by
  unfold cHandshake
  have hl : crlf2.length ≤ resp.length := by have := h.len4; simpa [crlf2] using this
  have e1 : findSub crlf2 b = none := findSub_prefix_none crlf2 crlf2_ne resp b y hr hy (by simpa [crlf2] using h.ends) hl
  rw [e1]
  have : ¬ b.length > Gen.Ws.clientMaxUpgradeResponse := by
    have := h.cap
    have : b.length ≤ resp.length := by rw [hr]; simp
    omega
  simp [this]

/-- a client waiting for the upgrade response, with `b` already received -/
def waiting (b : Bytes) : CSess := { buffer := b, connected := false, upgraded := false }

theorem cOnData_waiting (cfg : CCfg) (b seg : Bytes) :
    cOnData cfg (waiting b) seg =
      match cHandshake cfg (waiting []) (b ++ seg) with
      | .wait s1 => (s1, [])
      | .failed s1 ev => (s1, ev)
      | .ok s1 ev rest => ((cFrames cfg s1 rest).1, ev ++ (cFrames cfg s1 rest).2) := by
  simp only [cOnData, waiting, Bool.false_eq_true, ↓reduceIte]
  cases cHandshake cfg { buffer := [], connected := false, upgraded := false } (b ++ seg) <;> rfl

/-- **The client's upgrade boundary.** A client waiting for the upgrade response that receives a valid response followed
by any stream of valid frames — the whole byte stream cut ANYWHERE into reads (inside the response, exactly at its end,
inside a frame) — reports the connection once and then produces exactly the events of the per-frame handler folded over
the frames. -/
theorem cRun_upgrade_eq (cfg : CCfg) (resp : Bytes) (h : ValidResp cfg resp) (fs : List Frame) (hv : ValidFrames cfg.max fs) :
    ∀ (ss : List Bytes) (b : Bytes), b.length < resp.length → b ++ ss.flatten = resp ++ stream fs →
    (cRun cfg (waiting b) (ss.map COp.data)).2 = CEv.connected :: (cInterp cfg {} (fs.map toP)).2 := by
  intro ss
  induction ss with
  | nil =>
    intro b hb he
    simp only [List.flatten_nil, List.append_nil] at he
    have : b.length = resp.length + (stream fs).length := by rw [he]; simp
    omega
  | cons seg ss ih =>
    intro b hb he
    simp only [List.flatten_cons, ← List.append_assoc] at he
    simp only [List.map_cons, cRun, cStep]
    rw [cOnData_waiting]
    by_cases hlt : (b ++ seg).length < resp.length
    · -- still inside the response
      obtain ⟨y, hy⟩ : ∃ y, resp = (b ++ seg) ++ y := by
        have := List.append_eq_append_iff.mp he
        rcases this with ⟨a', h1, h2⟩ | ⟨c', h1, h2⟩
        · exact ⟨a', h1⟩
        · exfalso
          have : (b ++ seg).length = resp.length + c'.length := by rw [h1]; simp
          omega
      have hyne : y ≠ [] := by
        intro h0; subst h0
        have : resp.length = (b ++ seg).length := by rw [hy]; simp
        omega
      rw [cHandshake_wait cfg (waiting []) resp (b ++ seg) y h hy hyne]
      simp only [List.nil_append]
      exact ih (b ++ seg) hlt he
    · -- the response is complete in this read
      obtain ⟨rest, hrest, hrest2⟩ : ∃ rest, b ++ seg = resp ++ rest ∧ rest ++ ss.flatten = stream fs := by
        have := List.append_eq_append_iff.mp he
        rcases this with ⟨a', h1, h2⟩ | ⟨c', h1, h2⟩
        · have hl : resp.length = (b ++ seg).length + a'.length := by rw [h1]; simp only [List.length_append]
          have : a' = [] := by apply List.length_eq_zero_iff.mp; omega
          subst this
          exact ⟨[], by simpa using h1.symm, by simpa using h2⟩
        · exact ⟨c', h1, h2.symm⟩
      rw [hrest, cHandshake_ok cfg (waiting []) resp rest h]
      simp only [List.singleton_append, List.cons_append, List.nil_append]
      -- from here on it is the post-upgrade theorem, with `rest` as a first read
      have hs1 : ({ waiting [] with upgraded := true, connected := true } : CSess) = {} := rfl
      rw [hs1]
      have hd := cRun_data_eq cfg (rest :: ss) {} fs hv rfl rfl (by simp) (by simpa using hrest2) (by simp [parse])
      simp only [List.map_cons, cRun, cStep, cOnData_upgraded cfg {} rest rfl, List.nil_append] at hd
      congr 1

end Iora.Ws
