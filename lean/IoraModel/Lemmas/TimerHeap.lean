import IoraModel.Lemmas.TimerService
/-!
Heap order of `TimerService::_heap` (property C08, theorem S5): `siftUp`, `siftDown`, `heapPush`, `heapPop` keep the array in
heap order w.r.t. `less` (lexicographic on `(tp, id)`), hence the root is a minimum and the `break` of `collectDueLocked`
(`top.tp > now`) leaves no due item behind.
-/
namespace Iora.Tsvc

theorem less_irrefl (a : HeapItem) : less a a = false := by simp [less]
theorem less_asymm {a b : HeapItem} (h : less a b = true) : less b a = false := by
  simp only [less, Bool.or_eq_true, Bool.and_eq_true, decide_eq_true_eq, beq_iff_eq, Bool.or_eq_false_iff, Bool.and_eq_false_iff,
    decide_eq_false_iff_not, beq_eq_false_iff_ne] at h ⊢
  omega
theorem le_trans' {a b c : HeapItem} (h1 : less b a = false) (h2 : less c b = false) : less c a = false := by
  simp only [less, Bool.or_eq_false_iff, Bool.and_eq_false_iff, decide_eq_false_iff_not, beq_eq_false_iff_ne] at h1 h2 ⊢
  omega
theorem lt_le {x p c : HeapItem} (h1 : less x p = true) (h2 : less c p = false) : less c x = false := by
  simp only [less, Bool.or_eq_true, Bool.and_eq_true, decide_eq_true_eq, beq_iff_eq, Bool.or_eq_false_iff, Bool.and_eq_false_iff,
    decide_eq_false_iff_not, beq_eq_false_iff_ne] at h1 h2 ⊢
  omega
theorem lt_trans' {a b c : HeapItem} (h1 : less a b = true) (h2 : less b c = true) : less a c = true := by
  simp only [less, Bool.or_eq_true, Bool.and_eq_true, decide_eq_true_eq, beq_iff_eq] at h1 h2 ⊢
  omega
theorem not_less_tp {a b : HeapItem} (h : less a b = false) : b.tp ≤ a.tp := by
  simp only [less, Bool.or_eq_false_iff, Bool.and_eq_false_iff, decide_eq_false_iff_not, beq_eq_false_iff_ne] at h
  omega

def parent (i : Nat) : Nat := (i - 1) / 2

/-- array-heap order: no element is less than its parent -/
def HeapOk (h : List HeapItem) : Prop := ∀ i c p, 0 < i → h[i]? = some c → h[parent i]? = some p → less c p = false

theorem get_some_lt {h : List HeapItem} {i : Nat} {x : HeapItem} (hx : h[i]? = some x) : i < h.length := by
  obtain ⟨hl, _⟩ := List.getElem?_eq_some_iff.mp hx
  exact hl

theorem get_of_lt {h : List HeapItem} {i : Nat} (hl : i < h.length) : ∃ x, h[i]? = some x := ⟨h[i], List.getElem?_eq_getElem hl⟩

/-- the root is a minimum -/
theorem HeapOk.root_min {h : List HeapItem} (ok : HeapOk h) {t : HeapItem} (ht : h[0]? = some t) :
    ∀ (n i : Nat) (x : HeapItem), i ≤ n → h[i]? = some x → less x t = false := by
  intro n
  induction n with
  | zero =>
    intro i x hi hx
    have : i = 0 := by omega
    subst this
    rw [ht] at hx; cases hx
    exact less_irrefl _
  | succ n ih =>
    intro i x hi hx
    by_cases h0 : i = 0
    · subst h0; rw [ht] at hx; cases hx; exact less_irrefl _
    · have hlt := get_some_lt hx
      have hp : parent i < h.length := by unfold parent; omega
      obtain ⟨p, hpp⟩ := get_of_lt hp
      have h1 := ok i x p (by omega) hx hpp
      have h2 := ih (parent i) p (by unfold parent; omega) hpp
      exact le_trans' h2 h1

/-- `swap` read at any index (distinct valid positions) -/
theorem swap_get {h : List HeapItem} {i j : Nat} (hi : i < h.length) (hj : j < h.length) (hij : i ≠ j) (t : Nat) :
    (swap h i j)[t]? = if t = i then h[j]? else if t = j then h[i]? else h[t]? := by
  by_cases h1 : t = i
  · subst h1; simp only [if_true]; rw [swap_get_left hi hj, List.getElem?_eq_getElem hj]
  · by_cases h2 : t = j
    · subst h2; simp only [h1, if_false, if_true]; rw [swap_get_right hi hj, List.getElem?_eq_getElem hi]
    · simp only [h1, h2, if_false]; exact swap_get_other hi hj h1 h2

/-- heap order holds except possibly between `k` and its parent, and the children of `k` are not less than `k`'s parent -/
def UpOk (h : List HeapItem) (k : Nat) : Prop :=
  (∀ i c p, 0 < i → i ≠ k → h[i]? = some c → h[parent i]? = some p → less c p = false) ∧
  (∀ i c g, 0 < i → 0 < k → parent i = k → h[i]? = some c → h[parent k]? = some g → less c g = false)

theorem siftUp_ok : ∀ (f : Nat) (h : List HeapItem) (k : Nat), k < f → k < h.length → UpOk h k → HeapOk (siftUp f h k)
  | 0, _, _, hf, _, _ => by omega
  | f + 1, h, k, hf, hk, up => by
    unfold siftUp
    split
    · -- k = 0: nothing is excepted
      rename_i hk0
      intro i c p hi hc hp
      exact up.1 i c p hi (by omega) hc hp
    · rename_i hk0
      have hq : parent k < h.length := by unfold parent; omega
      have hqk : parent k ≠ k := by unfold parent; omega
      obtain ⟨x, hx⟩ := get_of_lt hk
      obtain ⟨p, hp⟩ := get_of_lt hq
      simp only
      change (match h[k]?, h[parent k]? with
        | some x, some p => if less x p = true then siftUp f (swap h k (parent k)) (parent k) else h
        | _, _ => h) |> HeapOk
      rw [hx, hp]
      simp only
      split
      · rename_i hlt
        -- swap and continue at the parent
        apply siftUp_ok f _ (parent k) (by unfold parent; omega) (by rw [swap_length]; exact hq)
        have hg := fun t => swap_get hk hq (Ne.symm hqk) t
        constructor
        · intro i c p' hi hiq hc hp'
          rw [hg] at hc hp'
          by_cases hik : i = k
          · -- the old parent now sits at k, under x
            subst hik
            simp only [if_true] at hc
            rw [hp] at hc; cases hc
            have : parent i ≠ i := hqk
            simp only [this, if_false, if_true] at hp'
            rw [hx] at hp'; cases hp'
            exact less_asymm hlt
          · simp only [hik, hiq, if_false] at hc
            by_cases hpk : parent i = k
            · -- a child of k: now under the old parent of k
              simp only [hpk, if_true] at hp'
              rw [hp] at hp'; cases hp'
              exact up.2 i c p hi (by omega) hpk hc hp
            · by_cases hpq : parent i = parent k
              · -- a sibling of k: now under x
                rw [hpq] at hp'
                simp only [hqk, if_false, if_true] at hp'
                rw [hx] at hp'; cases hp'
                have hold := up.1 i c p hi hik hc (hpq ▸ hp)
                exact lt_le hlt hold
              · simp only [hpk, hpq, if_false] at hp'
                exact up.1 i c p' hi hik hc hp'
        · intro i c g hi hq0 hpi hc hgp
          rw [hg] at hc hgp
          have hppk : parent (parent k) ≠ k := by unfold parent; omega
          have hppq : parent (parent k) ≠ parent k := by unfold parent at hq0 ⊢; omega
          simp only [hppk, hppq, if_false] at hgp
          have hqg := up.1 (parent k) p g hq0 hqk hp hgp
          by_cases hik : i = k
          · subst hik
            simp only [if_true] at hc
            rw [hp] at hc; cases hc
            exact hqg
          · have hiq : i ≠ parent k := by unfold parent at hpi ⊢; omega
            simp only [hik, hiq, if_false] at hc
            have := up.1 i c p hi hik hc (hpi ▸ hp)
            exact le_trans' hqg this
      · rename_i hnlt
        intro i c p' hi hc hp'
        by_cases hik : i = k
        · subst hik
          rw [hx] at hc; cases hc
          rw [hp] at hp'; cases hp'
          simpa using hnlt
        · exact up.1 i c p' hi hik hc hp'

/-- what `smallestOf` returns: `k` itself if no child is less than `x`; otherwise a child that is less than `x` and not greater
than the other child -/
theorem smallestOf_spec (h : List HeapItem) (k : Nat) (x : HeapItem) :
    (smallestOf h k x = k ∧ (∀ c, h[k * 2 + 1]? = some c → less c x = false) ∧ (∀ c, h[k * 2 + 1 + 1]? = some c → less c x = false)) ∨
    (smallestOf h k x = k * 2 + 1 ∧ ∃ cl, h[k * 2 + 1]? = some cl ∧ less cl x = true ∧ ∀ c, h[k * 2 + 1 + 1]? = some c → less c cl = false) ∨
    (smallestOf h k x = k * 2 + 1 + 1 ∧ ∃ cr, h[k * 2 + 1 + 1]? = some cr ∧ less cr x = true ∧ ∀ c, h[k * 2 + 1]? = some c → less c cr = false) := by
  unfold smallestOf
  simp only
  cases hl : h[k * 2 + 1]? with
  | none =>
    simp only
    cases hr : h[k * 2 + 1 + 1]? with
    | none => exact Or.inl ⟨by simp, by simp, by simp⟩
    | some r =>
      simp only
      by_cases hrx : less r x = true
      · simp only [hrx, if_true]
        exact Or.inr (Or.inr ⟨by simp, r, by simp, hrx, by simp⟩)
      · simp only [hrx, Bool.false_eq_true, if_false]
        exact Or.inl ⟨by simp, by simp, by intro c hc; cases hc; simpa using hrx⟩
  | some l =>
    simp only
    by_cases hlx : less l x = true
    · simp only [hlx, if_true]
      cases hr : h[k * 2 + 1 + 1]? with
      | none => exact Or.inr (Or.inl ⟨by simp, l, by simp, hlx, by simp⟩)
      | some r =>
        simp only
        by_cases hrl : less r l = true
        · simp only [hrl, if_true]
          exact Or.inr (Or.inr ⟨by simp, r, by simp, lt_trans' hrl hlx, by intro c hc; cases hc; exact less_asymm hrl⟩)
        · simp only [hrl, Bool.false_eq_true, if_false]
          exact Or.inr (Or.inl ⟨by simp, l, by simp, hlx, by intro c hc; cases hc; simpa using hrl⟩)
    · simp only [hlx, Bool.false_eq_true, if_false]
      have hlx' : less l x = false := by simpa using hlx
      cases hr : h[k * 2 + 1 + 1]? with
      | none => exact Or.inl ⟨by simp, by intro c hc; cases hc; exact hlx', by simp⟩
      | some r =>
        simp only
        by_cases hrx : less r x = true
        · simp only [hrx, if_true]
          refine Or.inr (Or.inr ⟨by simp, r, by simp, hrx, ?_⟩)
          intro c hc; cases hc
          exact lt_le hrx hlx'
        · simp only [hrx, Bool.false_eq_true, if_false]
          exact Or.inl ⟨by simp, by intro c hc; cases hc; exact hlx', by intro c hc; cases hc; simpa using hrx⟩

/-- heap order holds except possibly between `k` and its children, and the children of `k` are not less than `k`'s parent -/
def DownOk (h : List HeapItem) (k : Nat) : Prop :=
  (∀ i c p, 0 < i → parent i ≠ k → h[i]? = some c → h[parent i]? = some p → less c p = false) ∧
  (∀ i c g, 0 < i → 0 < k → parent i = k → h[i]? = some c → h[parent k]? = some g → less c g = false)

theorem child_iff (i k : Nat) : (0 < i ∧ parent i = k) ↔ (i = k * 2 + 1 ∨ i = k * 2 + 1 + 1) := by
  unfold parent; omega

theorem siftDown_ok : ∀ (f : Nat) (h : List HeapItem) (k : Nat), h.length ≤ f + k → DownOk h k → HeapOk (siftDown f h k)
  | 0, h, k, hf, dn => by
    -- k is past the end: it has no children
    unfold siftDown
    intro i c p hi hc hp
    by_cases hpk : parent i = k
    · have := get_some_lt hc
      unfold parent at hpk; omega
    · exact dn.1 i c p hi hpk hc hp
  | f + 1, h, k, hf, dn => by
    unfold siftDown
    cases hx : h[k]? with
    | none =>
      simp only
      intro i c p hi hc hp
      by_cases hpk : parent i = k
      · rw [hpk, hx] at hp; cases hp
      · exact dn.1 i c p hi hpk hc hp
    | some x =>
      simp only
      have hk := get_some_lt hx
      rcases smallestOf_spec h k x with ⟨hm, hL, hR⟩ | hcase
      · -- no child is less: done
        simp only [hm, if_true]
        intro i c p hi hc hp
        by_cases hpk : parent i = k
        · rw [hpk, hx] at hp; cases hp
          rcases (child_iff i k).mp ⟨hi, hpk⟩ with rfl | rfl
          · exact hL c hc
          · exact hR c hc
        · exact dn.1 i c p hi hpk hc hp
      · -- swap with the smaller child `m` and continue there
        obtain ⟨m, hm, cm, hcm, hlt, hother, hmchild⟩ : ∃ m, smallestOf h k x = m ∧ ∃ cm, h[m]? = some cm ∧ less cm x = true ∧
            (∀ i c, 0 < i → parent i = k → i ≠ m → h[i]? = some c → less c cm = false) ∧ (m = k * 2 + 1 ∨ m = k * 2 + 1 + 1) := by
          rcases hcase with ⟨hm, cl, hcl, hlt, ho⟩ | ⟨hm, cr, hcr, hlt, ho⟩
          · refine ⟨_, hm, cl, hcl, hlt, ?_, Or.inl rfl⟩
            intro i c hi hpk him hc
            rcases (child_iff i k).mp ⟨hi, hpk⟩ with rfl | rfl
            · exact absurd rfl him
            · exact ho c hc
          · refine ⟨_, hm, cr, hcr, hlt, ?_, Or.inr rfl⟩
            intro i c hi hpk him hc
            rcases (child_iff i k).mp ⟨hi, hpk⟩ with rfl | rfl
            · exact ho c hc
            · exact absurd rfl him
        have hmk : m ≠ k := by omega
        have hpm : parent m = k := by unfold parent; omega
        have hm0 : 0 < m := by omega
        have hml := get_some_lt hcm
        rw [hm]
        simp only [hmk, if_false]
        apply siftDown_ok f _ m (by rw [swap_length]; omega)
        have hg := fun t => swap_get hk hml (Ne.symm hmk) t
        constructor
        · intro i c p hi hpi hc hp
          rw [hg] at hc hp
          by_cases him : i = m
          · -- x now sits at m, under the old child
            subst him
            simp only [hmk, if_false, if_true] at hc
            rw [hx] at hc; cases hc
            rw [hpm] at hp
            simp only [if_true] at hp
            rw [hcm] at hp; cases hp
            exact less_asymm hlt
          · by_cases hik : i = k
            · -- the old child now sits at k, under k's parent (unchanged)
              subst hik
              simp only [if_true] at hc
              rw [hcm] at hc; cases hc
              have h1 : parent i ≠ i := by unfold parent; omega
              have h2 : parent i ≠ m := by unfold parent; omega
              simp only [h1, h2, if_false] at hp
              exact dn.2 m cm p hm0 hi hpm hcm hp
            · simp only [hik, him, if_false] at hc
              by_cases hpk : parent i = k
              · -- the other child of k: now under the old child, which was not greater
                rw [hpk] at hp
                simp only [if_true] at hp
                rw [hcm] at hp; cases hp
                exact hother i c hi hpk him hc
              · simp only [hpk, hpi, if_false] at hp
                exact dn.1 i c p hi hpk hc hp
        · intro i c g hi _ hpi hc hgp
          rw [hg] at hc hgp
          have hik : i ≠ k := by unfold parent at hpi; omega
          have him : i ≠ m := by unfold parent at hpi; omega
          simp only [hik, him, if_false] at hc
          rw [hpm] at hgp
          simp only [if_true] at hgp
          rw [hcm] at hgp; cases hgp
          exact dn.1 i c cm hi (by rw [hpi]; exact hmk) hc (hpi ▸ hcm)

theorem HeapOk.nil : HeapOk [] := by intro i c p _ hc; simp at hc

theorem heapPush_ok (h : List HeapItem) (x : HeapItem) (ok : HeapOk h) : HeapOk (heapPush h x) := by
  unfold heapPush
  apply siftUp_ok _ _ _ (by omega) (by simp)
  constructor
  · intro i c p hi hik hc hp
    have hil : i < (h ++ [x]).length := get_some_lt hc
    simp only [List.length_append, List.length_singleton] at hil
    have hi' : i < h.length := by omega
    have hp' : parent i < h.length := by unfold parent; omega
    rw [List.getElem?_append_left hi'] at hc
    rw [List.getElem?_append_left hp'] at hp
    exact ok i c p hi hc hp
  · intro i c g hi _ hpi hc _
    have hil : i < (h ++ [x]).length := get_some_lt hc
    simp only [List.length_append, List.length_singleton] at hil
    unfold parent at hpi; omega

theorem heapPop_ok (h : List HeapItem) (ok : HeapOk h) : HeapOk (heapPop h) := by
  unfold heapPop
  split
  · exact ok
  · rename_i hne
    have hlen : 0 < h.length := by
      cases h with
      | nil => simp at hne
      | cons a t => simp
    simp only
    split
    · rename_i hemp
      have : (swap h 0 (h.length - 1)).dropLast = [] := by simpa using hemp
      rw [this]; exact HeapOk.nil
    · apply siftDown_ok _ _ 0 (by omega)
      constructor
      · intro i c p hi hpi hc hp
        rw [List.getElem?_dropLast] at hc hp
        rw [swap_length] at hc hp
        split at hc
        · rename_i hil
          have hpl : parent i < h.length - 1 := by unfold parent; omega
          simp only [hpl, if_true] at hp
          have hp0 : parent i ≠ 0 := hpi
          by_cases hn : h.length - 1 = 0
          · omega
          · rw [swap_get hlen (by omega) (by omega)] at hc hp
            have h1 : i ≠ 0 := by omega
            have h2 : i ≠ h.length - 1 := by omega
            have h3 : parent i ≠ h.length - 1 := by omega
            simp only [h1, h2, hp0, h3, if_false] at hc hp
            exact ok i c p hi hc hp
        · cases hc
      · intro i c g _ h0; omega

theorem collectLoop_hok (now : Int) : ∀ (f : Nat) (c : CL), HeapOk c.heap →
    HeapOk (collectLoop now f c).heap ∧ ((collectLoop now f c).complete = true → ∀ x ∈ (collectLoop now f c).heap, now < x.tp)
  | 0, c, ok => ⟨ok, by simp [collectLoop]⟩
  | f + 1, c, ok => by
    unfold collectLoop
    split
    · rename_i hh
      exact ⟨ok, fun _ x hx => by rw [hh] at hx; cases hx⟩
    · rename_i top tl hh
      split
      · rename_i hgt
        refine ⟨ok, fun _ x hx => ?_⟩
        obtain ⟨i, hi, hxi⟩ := List.mem_iff_getElem.mp hx
        have h0 : c.heap[0]? = some top := by rw [hh]; rfl
        have := ok.root_min h0 i i x (Nat.le_refl _) (by rw [List.getElem?_eq_getElem hi, hxi])
        have := not_less_tp this
        omega
      · have okp : HeapOk (heapPop c.heap) := heapPop_ok _ ok
        split
        · exact collectLoop_hok now f _ okp
        · rename_i rc hfind
          cases hcan : rc.canceled
          · simp only [Bool.not_false, if_true, Bool.and_true]
            split
            · exact collectLoop_hok now f _ okp
            · split
              · exact collectLoop_hok now f _ (heapPush_ok _ _ okp)
              · exact collectLoop_hok now f _ okp
          · simp only [Bool.not_true, Bool.false_eq_true, if_false, Bool.and_false]
            split
            · exact collectLoop_hok now f _ okp
            · exact collectLoop_hok now f _ okp

/-- the heap of every reachable state is in heap order -/
theorem hok_step (L : Limits) (s : Svc) (op : Op) (ok : HeapOk s.heap) : HeapOk (step L s op).1.heap := by
  cases op with
  | schedAt now tp =>
    simp only [step, scheduleAt]
    split
    · exact ok
    · split
      · exact ok
      · split
        · exact ok
        · exact heapPush_ok _ _ ok
  | schedPer now iv =>
    simp only [step, schedulePeriodic]
    split
    · exact ok
    · split
      · exact ok
      · split
        · exact ok
        · split
          · exact ok
          · exact heapPush_ok _ _ ok
  | cancel id => simp only [step, cancel, cancelWith]; split <;> exact ok
  | collect now ax =>
    simp only [step, collect]
    split
    · exact ok
    · exact (collectLoop_hok now collectFuel _ ok).1
  | hstart =>
    simp only [step, hstart]
    split
    · exact ok
    · split
      · exact ok
      · split <;> exact ok
  | hend => simp only [step, hend]; split <;> exact ok
  | loopExit => simp only [step, loopExit]; split <;> exact ok
  | drainGate => simp only [step, drainGate]; split <;> exact ok
  | drainSweep now t =>
    simp only [step, drainSweep]
    split
    · exact ok
    · split <;> exact ok
  | drainDone => simp only [step, drainDone]; split <;> exact ok
  | drainTimeout => simp only [step, drainTimeout]; split <;> exact ok
  | drainRestore =>
    simp only [step, drainRestore]
    split
    · exact ok
    · split <;> exact ok
  | stopFlag => simp only [step, stopFlag]; split <;> exact ok
  | stopHalt => simp only [step, stopHalt]; split <;> exact ok
  | stopFinish => simp only [step, stopFinish]; split <;> exact ok

theorem hok_runFrom (L : Limits) : ∀ (ops : List Op) (s : Svc) (h : Hist), HeapOk s.heap → HeapOk (runFrom L s h ops).1.heap
  | [], _, _, ok => ok
  | op :: ops, s, h, ok => hok_runFrom L ops _ _ (hok_step L s op ok)

theorem hok_run (L : Limits) (ops : List Op) : HeapOk (run L ops).1.heap := hok_runFrom L ops _ _ HeapOk.nil

/-- after a collect whose loop ran to completion no record is due any more -/
theorem collect_complete_none_due (s : Svc) (h : Hist) (now : Int) (w : Wf s) (i : HI s h) (ok : HeapOk s.heap)
    (hc : (collectLoop now collectFuel { records := s.records, periodic := s.periodic, heap := s.heap }).complete = true) :
    ∀ r ∈ (collectLoop now collectFuel { records := s.records, periodic := s.periodic, heap := s.heap }).records, now < r.tp := by
  intro r hr
  have sp := collect_spec s h now w i
  have hk := (collectLoop_hok now collectFuel { records := s.records, periodic := s.periodic, heap := s.heap } ok).2 hc
  have : rkey r ∈ (collectLoop now collectFuel { records := s.records, periodic := s.periodic, heap := s.heap }).heap.map hkey :=
    sp.core.hk.symm.subset (List.mem_map_of_mem hr)
  obtain ⟨x, hx, hxk⟩ := List.mem_map.mp this
  simp only [hkey, rkey, Prod.mk.injEq] at hxk
  have := hk x hx
  omega

end Iora.Tsvc
