import IoraModel.Lemmas.EngineLifecycle
/-!
# Every step of both engines preserves the lifecycle invariant (C02)
-/
namespace Iora.Lifecycle

/-! ## the handlers never touch the I/O thread's program counter or the command queue's closed flag / tail -/
def Ctl (p : Phase) (c : Bool) (q : List Cmd) (g : G) : Prop := g.phase = p ∧ g.cmdsClosed = c ∧ g.queue = q

instance (p : Phase) (c : Bool) (q : List Cmd) : Closed0 (Ctl p c q) where
  closeNow := by intro sid site g h; unfold closeNow; split <;> (try split) <;> simpa [Ctl, emit] using h
  failConnect := by intro site g h; unfold failConnect; split <;> simpa [Ctl, emit] using h
  insertCur := by intro t k o g h; unfold insertCur; split <;> simpa [Ctl] using h
  acceptFresh := by intro t k o g h; simpa [acceptFresh, Ctl, emit] using h
  burnId := by intro g h; simpa [burnId, Ctl] using h
  announceConnect := by intro sid c g h; unfold announceConnect withLive; split <;> (try split) <;> simpa [Ctl, emit] using h
  dataCb := by intro sid g h; unfold dataCb withLive; split <;> (try split) <;> simpa [Ctl, emit] using h
  setWq := by intro sid n g h; unfold setWq withLive; split <;> (try split) <;> simpa [Ctl] using h
  viaIndex := by
    intro sid k g h; unfold viaIndex withLive; split <;> (try split) <;> (try simp only []) <;> (try split) <;> simpa [Ctl] using h
  stale := by intro g h; simpa [Ctl] using h
  bp := by intro n g h; simpa [Ctl] using h
  listeners := by intro l g h; simpa [Ctl] using h
  running := by intro b g h; simpa [Ctl] using h

instance (p : Phase) (c : Bool) (q : List Cmd) : Closed (Ctl p c q) where
  pop := by
    intro g h _; unfold popCmd; split
    · exact h
    · rename_i c rest hb; cases c <;> simpa [Ctl] using h

/-! ## `cur` is cleared by every connect handler -/
@[simp] theorem failConnect_cur (site : Site) (g : G) : (failConnect site g).cur = none := by
  unfold failConnect; split <;> simp_all [emit]
@[simp] theorem insertCur_cur (t : Bool) (k : Option Key) (o : Lid) (g : G) : (insertCur t k o g).cur = none := by
  unfold insertCur; split <;> simp_all

def CurIs (c : Option Sid) (g : G) : Prop := g.cur = c

theorem closeNow_cur (sid : Sid) (site : Site) (g : G) : (closeNow sid site g).cur = g.cur := by
  unfold closeNow; split <;> (try split) <;> simp [emit]
theorem announceConnect_cur (sid : Sid) (c : Bool) (g : G) : (announceConnect sid g c).cur = g.cur := by
  unfold announceConnect withLive; split <;> (try split) <;> simp [emit]
theorem viaIndex_cur (sid : Sid) (k : Key) (g : G) : (viaIndex sid k g).cur = g.cur := by
  unfold viaIndex withLive; split <;> (try split) <;> (try simp only []) <;> (try split) <;> simp

theorem Tcp.connectCheck_cur (sid : Sid) (a b c : Site) (as : List A) (g : G) :
    (Tcp.connectCheck sid a b c as g).2.1.cur = g.cur := by
  fun_cases Tcp.connectCheck sid a b c as g <;> simp [closeNow_cur, announceConnect_cur]

theorem Tcp.doConnect_cur (tls : TlsReq) (named : Bool) (as : List A) (g : G) : (Tcp.doConnect tls named as g).1.cur = none := by
  have hr : (Tcp.resolveStep named as g).1 = false → (Tcp.resolveStep named as g).2.2.1 = g := by
    fun_cases Tcp.resolveStep named as g <;> simp
  have hr1 : (Tcp.resolveStep named as g).1 = true → (Tcp.resolveStep named as g).2.2.1.cur = none := by
    fun_cases Tcp.resolveStep named as g <;> simp
  have ht : ∀ u as' g', (Tcp.tlsSetup u named as' g').1 = true → (Tcp.tlsSetup u named as' g').2.1.cur = none := by
    intro u as' g'; fun_cases Tcp.tlsSetup u named as' g' <;> simp
  have ht0 : ∀ u as' g', (Tcp.tlsSetup u named as' g').1 = false → (Tcp.tlsSetup u named as' g').2.1 = g' := by
    intro u as' g'; fun_cases Tcp.tlsSetup u named as' g' <;> simp
  fun_cases Tcp.doConnect tls named as g
  all_goals first
    | exact failConnect_cur _ _
    | exact hr1 ‹_›
    | exact ht _ _ _ ‹_›
    | exact insertCur_cur _ _ _ _
    | (dsimp only; rw [Tcp.connectCheck_cur]; exact insertCur_cur _ _ _ _)
    | (dsimp only; assumption)

theorem connectNow_cur (k : Option Key) (o : Lid) (c : Bool) (g : G) : (connectNow k o c g).cur = none := by
  unfold connectNow
  split
  · simpa using ‹g.cur = none›
  · rw [announceConnect_cur]; exact insertCur_cur _ _ _ _

theorem Udp.connectDo_cur (as : List A) (g : G) : (Udp.connectDo as g).1.cur = none := by
  fun_cases Udp.connectDo as g <;> simp [connectNow_cur]

theorem Udp.viaDo_cur (lid : Lid) (k : Key) (as : List A) (g : G) : (Udp.viaDo lid k as g).1.cur = none := by
  fun_cases Udp.viaDo lid k as g <;> simp_all [connectNow_cur, viaIndex_cur]


/-! ## the steps shared by both engines -/

theorem liveCount_succ {g g' : G} (hn : g'.nextId = g.nextId + 1) (ht : g'.table = g.table) (hf : g.table g.nextId = none) :
    liveCount g' = liveCount g := by
  unfold liveCount
  rw [hn, List.range_succ, List.countP_append]
  have hlv : live g' = live g := by funext x; simp [live, ht]
  have hl : live g g.nextId = false := by simp [live, hf]
  simp [hlv, hl]

/-- connect() / connectViaListener(): a fresh id is allocated; it becomes pending iff the queue accepted the command -/
theorem Inv.alloc_step {g g' : G} (h : Inv g) (ok : Bool) (hn : g'.nextId = g.nextId + 1) (ht : g'.table = g.table)
    (htr : g'.tr = g.tr ++ [.ret g.nextId ok]) (hp : pend g' = pend g ++ (if ok then [g.nextId] else []))
    (hc : g'.current = g.current) (he : g'.envBad = g.envBad) (hi : g'.index = g.index)
    (hd : g'.dupAnn = g.dupAnn := by rfl) : Inv g' := by
  have htn : g.table g.nextId = none := h.fresh_tbl
  have hnp : g.nextId ∉ pend g := fun hm => Nat.lt_irrefl _ (h.pend_lt _ hm)
  have hncl : g.nextId ∉ closesOf g.tr := fun hm => Nat.lt_irrefl _ (h.cl_lt _ hm)
  have hnan : g.nextId ∉ annOf g.tr := fun hm => Nat.lt_irrefl _ (h.ann_lt _ hm)
  have hcl' : closesOf g'.tr = closesOf g.tr := by simp [htr, closeSid]
  have han' : annOf g'.tr = annOf g.tr := by simp [htr, annSid]
  have hre' : retOf g'.tr = retOf g.tr ++ (if ok then [g.nextId] else []) := by cases ok <;> simp [htr, retSid]
  have hal' : allocsOf g'.tr = allocsOf g.tr ++ [g.nextId] := by simp [htr, allocSid]
  have hmem : ∀ x, x ∈ pend g' → x ∈ pend g ∨ x = g.nextId := by
    intro x hx; rw [hp] at hx; cases ok <;> simp at hx <;> first | exact Or.inl hx | exact hx
  constructor
  · intro x s hx; rw [ht] at hx; rw [hn]; exact Nat.lt_succ_of_lt (h.tbl_lt x s hx)
  · rw [hp]; cases ok
    · simpa using h.pend_nd
    · simp only [if_true]; rw [List.nodup_append]
      exact ⟨h.pend_nd, by simp, by intro a ha b hb; simp at hb; subst hb; exact fun e => hnp (e ▸ ha)⟩
  · intro x hx; rw [hn]
    rcases hmem x hx with hx | hx
    · exact Nat.lt_succ_of_lt (h.pend_lt x hx)
    · exact hx ▸ Nat.lt_succ_self _
  · intro x hx; rw [ht]
    rcases hmem x hx with hx | hx
    · exact h.pend_tbl x hx
    · exact hx ▸ htn
  · intro x hx; rw [hcl']
    rcases hmem x hx with hx | hx
    · exact h.pend_cl x hx
    · exact hx ▸ hncl
  · intro x hx; rw [han']
    rcases hmem x hx with hx | hx
    · exact h.pend_ann x hx
    · exact hx ▸ hnan
  · rw [hcl']; exact h.cl_nd
  · intro x hx; rw [hcl'] at hx; rw [hn]; exact Nat.lt_succ_of_lt (h.cl_lt x hx)
  · rw [ht, hcl']; exact h.tbl_cl
  · rw [ht, han']; exact h.tbl_ann
  · rw [ht, hcl', han']; exact h.ann_dom
  · intro x hx; rw [hre'] at hx; rw [ht, hcl', hp]
    simp at hx
    rcases hx with hx | hx
    · rcases h.ret_dom x hx with h1 | h2 | h3
      · left; simp [h1]
      · right; left; exact h2
      · right; right; exact h3
    · cases ok
      · simp at hx
      · simp at hx; left; simp [hx]
  · rw [hc, liveCount_succ hn ht htn]; exact h.gauge
  · intro x hx; rw [hal'] at hx; rw [hn]; simp at hx
    rcases hx with hx | hx
    · exact Nat.lt_succ_of_lt (h.alloc_lt x hx)
    · exact hx ▸ Nat.lt_succ_self _
  · rw [hal', List.pairwise_append]
    exact ⟨h.alloc_sorted, by simp, by intro a ha b hb; simp at hb; subst hb; exact h.alloc_lt a ha⟩
  · refine h.ord.ext (some (.ret g.nextId ok)) (by simp [htr]) ?_ (fun hx => ⟨by rw [hd] at hx; exact hx, by intro x e; cases e; trivial⟩)
      (fun hx => ⟨by rw [he] at hx; exact hx, by intro x e; cases e; trivial⟩) ?_
    · intro x e; cases e; intro y hy; cases hy
    · refine h.ord.cann_keep (some (.ret g.nextId ok)) (by simp [htr]) (by intro y e; cases e) ?_
      intro x s' hx; rw [ht] at hx; exact Or.inl ⟨s', hx, rfl⟩
  · rw [hi, ht]; exact h.idx_live

theorem inv_apiConnect (tls : TlsReq) (named : Bool) {g : G} (h : Inv g) : Inv (apiConnect tls named g) := by
  unfold apiConnect
  dsimp only
  split
  · exact h.alloc_step false rfl rfl (by simp [emit]) (by simp [emit, pend]) rfl rfl rfl
  · exact h.alloc_step true rfl rfl (by simp [emit]) (by simp [emit, pend, connSid]) rfl rfl rfl

theorem inv_apiVia (lid : Lid) (k : Key) {g : G} (h : Inv g) : Inv (apiVia lid k g) := by
  unfold apiVia
  dsimp only
  split
  · exact h.alloc_step false rfl rfl (by simp [emit]) (by simp [emit, pend]) rfl rfl rfl
  · exact h.alloc_step true rfl rfl (by simp [emit]) (by simp [emit, pend, connSid]) rfl rfl rfl

theorem inv_apiPlain (c : Cmd) (hc : connSid c = none) {g : G} (h : Inv g) : Inv (apiPlain c g) := by
  unfold apiPlain enqueue
  split
  · exact h
  · exact h.frame rfl rfl (by simp [pend, hc]) rfl rfl rfl rfl

theorem inv_apiStop {g : G} (h : Inv g) : Inv (apiStop g) := by
  unfold apiStop
  split
  · exact inv_apiPlain _ rfl (inv_running _ h)
  · exact h

theorem inv_ioSwap {g : G} (h : Inv g) : Inv (ioSwap g) := by
  unfold ioSwap
  split
  · rename_i hb; exact h.frame rfl rfl (by simp [pend, hb]) rfl rfl rfl rfl
  · exact h

theorem inv_drainClose (sid : Sid) {g : G} (h : Inv g) : Inv (drainClose sid g) := by
  unfold drainClose
  split
  · exact h
  · rename_i s hs
    split
    · exact h
    · rename_i hc
      have hcf : s.closed = false := by cases e : s.closed <;> simp_all
      refine h.close_step sid s .drainSession hs hcf ?_ ?_ rfl ?_ ?_ rfl rfl ?_
      · intro x hx; simp [emit, upd, hx]
      · right; simp [emit, upd]
      · simp [emit, pend]
      · simp [emit]
      · intro k x hx; exact eraseIdx_spec _ _ _ _ _ _ (by simpa [emit] using hx)

theorem inv_drainAll (l : List Sid) {g : G} (h : Inv g) : Inv (drainAll l g) := by
  induction l generalizing g with
  | nil => exact h
  | cons sid r ih => exact ih (inv_drainClose sid h)

theorem closedTrue_eq (s : Sess) (h : s.closed = true) : { s with closed := true } = s := by
  cases s; simp_all

theorem drainClose_table (sid : Sid) (g : G) (x : Sid) :
    (drainClose sid g).table x = if x = sid then (g.table sid).map (fun s => { s with closed := true }) else g.table x := by
  unfold drainClose
  split
  · rename_i hs; by_cases e : x = sid <;> simp [e, hs]
  · rename_i s hs
    split
    · rename_i hc; by_cases e : x = sid <;> simp [e, hs, closedTrue_eq s hc]
    · by_cases e : x = sid <;> simp [e, hs, emit, upd]

theorem drainClose_nextId (sid : Sid) (g : G) : (drainClose sid g).nextId = g.nextId := by
  unfold drainClose; split <;> (try split) <;> simp [emit]

theorem drainAll_nextId (l : List Sid) (g : G) : (drainAll l g).nextId = g.nextId := by
  induction l generalizing g with
  | nil => rfl
  | cons sid r ih => simp [drainAll, ih, drainClose_nextId]

theorem drainAll_closed (l : List Sid) (g : G) (x : Sid) (hx : x ∈ l) (s : Sess) (hs : (drainAll l g).table x = some s) :
    s.closed = true := by
  induction l generalizing g with
  | nil => simp at hx
  | cons sid r ih =>
    simp only [drainAll] at hs
    by_cases hr : x ∈ r
    · exact ih _ hr hs
    · have e : x = sid := by simpa [hr] using hx
      -- x is not touched by the rest of the walk
      have hkeep : ∀ (l : List Sid) (g : G), x ∉ l → (drainAll l g).table x = g.table x := by
        intro l
        induction l with
        | nil => intro g _; rfl
        | cons y l ih2 =>
          intro g hn
          simp only [drainAll]
          rw [ih2 _ (fun hm => hn (by simp [hm])), drainClose_table]
          have : x ≠ y := fun e => hn (by simp [e])
          simp [this]
      rw [hkeep r _ hr, drainClose_table] at hs
      subst e
      simp at hs
      obtain ⟨s0, _, rfl⟩ := hs
      rfl

/-- `_sessions.clear()` etc. after every entry has been closed -/
theorem Inv.clear_step {g g' : G} (h : Inv g) (hall : ∀ sid s, g.table sid = some s → s.closed = true)
    (ht : ∀ x, g'.table x = none) (hi : ∀ k, g'.index k = none) (hn : g'.nextId = g.nextId) (hp : pend g' = pend g)
    (htr : g'.tr = g.tr) (hc : g'.current = g.current) (he : g'.envBad = g.envBad)
    (hd : g'.dupAnn = g.dupAnn := by rfl) : Inv g' := by
  have hz : liveCount g = 0 := by
    unfold liveCount
    rw [List.countP_eq_zero]
    intro x _
    simp only [live]
    cases e : g.table x with
    | none => simp
    | some s => simp [hall x s e]
  have hz' : liveCount g' = 0 := by
    unfold liveCount
    rw [List.countP_eq_zero]
    intro x _
    simp [live, ht x]
  constructor
  · intro x s hx; rw [ht x] at hx; cases hx
  · rw [hp]; exact h.pend_nd
  · rw [hp, hn]; exact h.pend_lt
  · intro x _; exact ht x
  · rw [hp, htr]; exact h.pend_cl
  · rw [hp, htr]; exact h.pend_ann
  · rw [htr]; exact h.cl_nd
  · rw [htr, hn]; exact h.cl_lt
  · intro x s hx; rw [ht x] at hx; cases hx
  · intro x s hx; rw [ht x] at hx; cases hx
  · intro x hx; rw [htr] at hx ⊢
    rcases h.ann_dom x hx with ⟨s, hs⟩ | hr
    · right; exact (h.tbl_cl x s hs).1 (hall x s hs)
    · right; exact hr
  · intro x hx; rw [htr] at hx ⊢; rw [hp]
    rcases h.ret_dom x hx with h1 | ⟨s, hs⟩ | h3
    · left; exact h1
    · right; right; exact (h.tbl_cl x s hs).1 (hall x s hs)
    · right; right; exact h3
  · rw [hc, hz', h.gauge, hz]
  · rw [htr, hn]; exact h.alloc_lt
  · rw [htr]; exact h.alloc_sorted
  · exact h.ord.ext none (by simp [htr]) (by simp) (fun hx => ⟨by rw [hd] at hx; exact hx, by simp⟩)
      (fun hx => ⟨by rw [he] at hx; exact hx, by simp⟩) (by intro x s hx; rw [ht x] at hx; cases hx)
  · intro k x hx; rw [hi k] at hx; cases hx

theorem popCmd_cur_conn {g : G} (hc : g.cur = none) :
    (∀ c g', popCmd g = (some c, g') → (connSid c = none → g'.cur = none)) := by
  intro c g' he
  unfold popCmd at he
  split at he
  · cases he
  · rename_i c0 rest hb
    cases c0 <;> simp at he <;> obtain ⟨rfl, rfl⟩ := he <;> simp [connSid, hc]

theorem popCmd_none {g g' : G} (he : popCmd g = (none, g')) : g' = g := by
  unfold popCmd at he
  split at he
  · cases he; rfl
  · rename_i c0 rest hb; cases c0 <;> simp at he

theorem inv_residualLoop (n : Nat) {g : G} (h : Inv g) (hc : g.cur = none) :
    Inv (residualLoop n g) ∧ (residualLoop n g).cur = none := by
  induction n generalizing g with
  | zero => exact ⟨h, hc⟩
  | succ n ih =>
    unfold residualLoop
    have hp := inv_popCmd h hc
    have hcur := popCmd_cur_conn hc
    split
    · rename_i g' he; rw [he] at hp; exact ⟨hp, by rw [popCmd_none he]; exact hc⟩
    · rename_i g' _ _ _ he; rw [he] at hp; exact ih (inv_failConnect _ hp) (failConnect_cur _ _)
    · rename_i g' _ _ _ he; rw [he] at hp; exact ih (inv_failConnect _ hp) (failConnect_cur _ _)
    · rename_i c g' hn1 hn2 he
      rw [he] at hp
      refine ih hp (hcur c g' he ?_)
      cases c <;> simp [connSid] <;> first | exact absurd rfl (hn1 _ _ _) | exact absurd rfl (hn2 _ _ _)


/-! ## `cur` stays empty outside the connect handlers -/
instance : Closed0 (CurIs none) where
  closeNow := by intro sid site g h; simpa [CurIs, closeNow_cur] using h
  failConnect := by intro site g _; simp [CurIs]
  insertCur := by intro t k o g _; simp [CurIs]
  acceptFresh := by intro t k o g h; simpa [acceptFresh, CurIs, emit] using h
  burnId := by intro g h; simpa [burnId, CurIs] using h
  announceConnect := by intro sid c g h; simpa [CurIs, announceConnect_cur] using h
  dataCb := by intro sid g h; unfold dataCb withLive; split <;> (try split) <;> simpa [CurIs, emit] using h
  setWq := by intro sid n g h; unfold setWq withLive; split <;> (try split) <;> simpa [CurIs] using h
  viaIndex := by intro sid k g h; simpa [CurIs, viaIndex_cur] using h
  stale := by intro g h; simpa [CurIs] using h
  bp := by intro n g h; simpa [CurIs] using h
  listeners := by intro l g h; simpa [CurIs] using h
  running := by intro b g h; simpa [CurIs] using h

theorem Tcp.dispatch_cur (as : List A) (g : G) (hc : g.cur = none) : (Tcp.dispatch as g).1.cur = none := by
  fun_cases Tcp.dispatch as g
  all_goals
    rename_i heq
    first
    | (rw [popCmd_none heq]; exact hc)
    | exact Tcp.doConnect_cur _ _ _ _
    | exact failConnect_cur _ _
    | (have h0 := popCmd_cur_conn hc _ _ heq (by simp [connSid])
       first
       | exact h0
       | (dsimp only; split <;> exact h0)
       | exact Tcp.doSend_pres (P := CurIs none) _ _ _ h0
       | exact closeCmd_pres (P := CurIs none) _ _ _ h0)

theorem Udp.dispatch_cur (as : List A) (g : G) (hc : g.cur = none) : (Udp.dispatch as g).1.cur = none := by
  fun_cases Udp.dispatch as g
  all_goals
    rename_i heq
    first
    | (rw [popCmd_none heq]; exact hc)
    | exact Udp.connectDo_cur _ _
    | exact Udp.viaDo_cur _ _ _ _
    | (have h0 := popCmd_cur_conn hc _ _ heq (by simp [connSid])
       first
       | exact h0
       | (dsimp only; split <;> exact h0)
       | exact Udp.sendDo_pres (P := CurIs none) _ _ _ h0
       | exact closeCmd_pres (P := CurIs none) _ _ _ h0)

/-! ## the shutdown drain -/
theorem drainClose_ctl (sid : Sid) (g : G) :
    (drainClose sid g).batch = g.batch ∧ (drainClose sid g).cur = g.cur ∧ (drainClose sid g).queue = g.queue ∧
    (drainClose sid g).phase = g.phase ∧ (drainClose sid g).cmdsClosed = g.cmdsClosed := by
  unfold drainClose; split <;> (try split) <;> simp [emit]

theorem drainAll_ctl (l : List Sid) (g : G) :
    (drainAll l g).batch = g.batch ∧ (drainAll l g).cur = g.cur ∧ (drainAll l g).queue = g.queue ∧
    (drainAll l g).phase = g.phase ∧ (drainAll l g).cmdsClosed = g.cmdsClosed := by
  induction l generalizing g with
  | nil => simp [drainAll]
  | cons sid r ih =>
    have h1 := drainClose_ctl sid g
    have h2 := ih (drainClose sid g)
    simp only [drainAll]
    exact ⟨h2.1.trans h1.1, h2.2.1.trans h1.2.1, h2.2.2.1.trans h1.2.2.1, h2.2.2.2.1.trans h1.2.2.2.1, h2.2.2.2.2.trans h1.2.2.2.2⟩

theorem failConnect_frame (site : Site) (g : G) :
    (failConnect site g).batch = g.batch ∧ (failConnect site g).queue = g.queue ∧ (failConnect site g).phase = g.phase ∧
    (failConnect site g).cmdsClosed = g.cmdsClosed ∧ (failConnect site g).table = g.table := by
  unfold failConnect; split <;> simp [emit]

theorem popCmd_frame {g g' : G} {c : Cmd} (he : popCmd g = (some c, g')) :
    g.batch = c :: g'.batch ∧ g'.queue = g.queue ∧ g'.phase = g.phase ∧ g'.cmdsClosed = g.cmdsClosed ∧ g'.table = g.table := by
  unfold popCmd at he
  split at he
  · cases he
  · rename_i c0 rest hb
    cases c0 <;> simp at he <;> obtain ⟨rfl, rfl⟩ := he <;> simp [hb]

theorem residualLoop_spec (n : Nat) (g : G) (hn : g.batch.length ≤ n) :
    (residualLoop n g).batch = [] ∧ (residualLoop n g).queue = g.queue ∧ (residualLoop n g).phase = g.phase ∧
    (residualLoop n g).cmdsClosed = g.cmdsClosed ∧ (residualLoop n g).table = g.table := by
  induction n generalizing g with
  | zero => simp [residualLoop]; exact List.length_eq_zero_iff.1 (Nat.le_zero.1 hn)
  | succ n ih =>
    unfold residualLoop
    split
    · rename_i g' he
      have := popCmd_none he
      subst this
      unfold popCmd at he
      split at he
      · rename_i hb; simp [hb]
      · rename_i c0 rest hb; cases c0 <;> simp at he
    all_goals
      rename_i he
      have hf := popCmd_frame he
      have hl : (‹G›).batch.length ≤ n := by rw [hf.1] at hn; simpa using hn
    · have h1 := failConnect_frame .drainResidual ‹G›
      have := ih (failConnect .drainResidual ‹G›) (by rw [h1.1]; exact hl)
      exact ⟨this.1, by rw [this.2.1, h1.2.1, hf.2.1], by rw [this.2.2.1, h1.2.2.1, hf.2.2.1],
             by rw [this.2.2.2.1, h1.2.2.2.1, hf.2.2.2.1], by rw [this.2.2.2.2, h1.2.2.2.2, hf.2.2.2.2]⟩
    · have h1 := failConnect_frame .drainResidual ‹G›
      have := ih (failConnect .drainResidual ‹G›) (by rw [h1.1]; exact hl)
      exact ⟨this.1, by rw [this.2.1, h1.2.1, hf.2.1], by rw [this.2.2.1, h1.2.2.1, hf.2.2.1],
             by rw [this.2.2.2.1, h1.2.2.2.1, hf.2.2.2.1], by rw [this.2.2.2.2, h1.2.2.2.2, hf.2.2.2.2]⟩
    · have := ih ‹G› hl
      exact ⟨this.1, by rw [this.2.1, hf.2.1], by rw [this.2.2.1, hf.2.2.1], by rw [this.2.2.2.1, hf.2.2.2.1],
             by rw [this.2.2.2.2, hf.2.2.2.2]⟩

/-- the state right after `_sessions.clear()` / closing the queue, before the residual loop -/
def drainMid (g : G) : G :=
  let g1 := drainAll (List.range g.nextId) g
  { g1 with table := fun _ => none, listeners := fun _ => none, index := fun _ => none,
            cmdsClosed := true, batch := g1.queue, queue := [], phase := .stopped }

theorem drainFinish_eq (g : G) : drainFinish g = residualLoop (drainMid g).batch.length (drainMid g) := rfl

theorem inv_drainMid {g : G} (h : Inv g) (hb : g.batch = []) : Inv (drainMid g) := by
  have h1 := inv_drainAll (List.range g.nextId) h
  have hc := drainAll_ctl (List.range g.nextId) g
  have hn := drainAll_nextId (List.range g.nextId) g
  refine h1.clear_step ?_ (fun _ => rfl) (fun _ => rfl) rfl ?_ rfl rfl rfl
  · intro sid s hs
    have hlt : sid < g.nextId := by have := h1.tbl_lt sid s hs; rwa [hn] at this
    exact drainAll_closed _ g sid (List.mem_range.2 hlt) s hs
  · simp [drainMid, pend, hc.1, hb]

theorem inv_drainFinish {g : G} (h : Inv g) (hb : g.batch = []) (hcur : g.cur = none) :
    Inv (drainFinish g) ∧ (drainFinish g).cur = none := by
  rw [drainFinish_eq]
  refine inv_residualLoop _ (inv_drainMid h hb) ?_
  simp [drainMid, (drainAll_ctl (List.range g.nextId) g).2.1, hcur]

theorem drainFinish_stopped (g : G) :
    (drainFinish g).phase = .stopped ∧ (drainFinish g).cmdsClosed = true ∧ (drainFinish g).batch = [] ∧
    (drainFinish g).queue = [] ∧ ∀ sid, (drainFinish g).table sid = none := by
  rw [drainFinish_eq]
  have := residualLoop_spec (drainMid g).batch.length (drainMid g) (Nat.le_refl _)
  refine ⟨by rw [this.2.2.1]; rfl, by rw [this.2.2.2.1]; rfl, this.1, by rw [this.2.1]; rfl, ?_⟩
  intro sid; rw [this.2.2.2.2]; rfl

/-! ## the step invariant -/
structure Stop (g : G) : Prop where
  closed_stopped : g.cmdsClosed = true → g.phase = .stopped
  stopped : g.phase = .stopped → g.cmdsClosed = true ∧ g.batch = [] ∧ g.queue = [] ∧ ∀ sid, g.table sid = none

structure SInv (g : G) : Prop where
  inv : Inv g
  cur : g.cur = none
  stop : Stop g

theorem Stop.of_ctl {g g' : G} (h : Stop g) (hne : g.phase ≠ .stopped) (hp : g'.phase = g.phase) (hc : g'.cmdsClosed = g.cmdsClosed) :
    Stop g' := by
  have hcf : g.cmdsClosed = false := by
    cases e : g.cmdsClosed with
    | false => rfl
    | true => exact absurd (h.closed_stopped e) hne
  constructor
  · intro hcl; rw [hc, hcf] at hcl; cases hcl
  · intro hs; rw [hp] at hs; exact absurd hs hne

theorem Stop.of_same {g g' : G} (h : Stop g) (hp : g'.phase = g.phase) (hc : g'.cmdsClosed = g.cmdsClosed)
    (hb : g'.batch = g.batch) (hq : g.cmdsClosed = true → g'.queue = g.queue) (ht : g'.table = g.table) : Stop g' := by
  constructor
  · intro hcl; rw [hc] at hcl; rw [hp]; exact h.closed_stopped hcl
  · intro hs; rw [hp] at hs
    obtain ⟨h1, h2, h3, h4⟩ := h.stopped hs
    exact ⟨by rw [hc]; exact h1, by rw [hb]; exact h2, by rw [hq h1]; exact h3, by rw [ht]; exact h4⟩

theorem ctl_of (g : G) : Ctl g.phase g.cmdsClosed g.queue g := ⟨rfl, rfl, rfl⟩

theorem sinv_shared {g g' : G} (i : In) (h : SInv g) (he : stepShared g i = some g') : SInv g' := by
  cases i <;> simp only [stepShared] at he <;> (try cases he)
  case apiConnect tls named =>
    refine ⟨inv_apiConnect _ _ h.inv, by unfold apiConnect; dsimp only; split <;> simp [emit, h.cur], ?_⟩
    unfold apiConnect; dsimp only
    split
    · exact h.stop.of_same rfl rfl rfl (fun _ => rfl) rfl
    · rename_i hc
      refine h.stop.of_ctl ?_ rfl rfl
      intro hs; exact hc (by simpa using (h.stop.stopped hs).1)
  case apiClose sid =>
    refine ⟨inv_apiPlain _ rfl h.inv, by unfold apiPlain enqueue; split <;> simp [h.cur], ?_⟩
    unfold apiPlain enqueue
    split
    · exact h.stop
    · rename_i hc; exact h.stop.of_ctl (fun hs => hc (h.stop.stopped hs).1) rfl rfl
  case apiSend sid =>
    refine ⟨inv_apiPlain _ rfl h.inv, by unfold apiPlain enqueue; split <;> simp [h.cur], ?_⟩
    unfold apiPlain enqueue
    split
    · exact h.stop
    · rename_i hc; exact h.stop.of_ctl (fun hs => hc (h.stop.stopped hs).1) rfl rfl
  case apiAddListener lid tls =>
    refine ⟨inv_apiPlain _ rfl h.inv, by unfold apiPlain enqueue; split <;> simp [h.cur], ?_⟩
    unfold apiPlain enqueue
    split
    · exact h.stop
    · rename_i hc; exact h.stop.of_ctl (fun hs => hc (h.stop.stopped hs).1) rfl rfl
  case apiStop =>
    refine ⟨inv_apiStop h.inv, by unfold apiStop apiPlain enqueue; split <;> (try split) <;> simp [h.cur], ?_⟩
    unfold apiStop apiPlain enqueue
    split
    · dsimp only
      split
      · exact h.stop.of_same rfl rfl rfl (fun _ => rfl) rfl
      · rename_i hc; exact h.stop.of_ctl (fun hs => hc (by simpa using (h.stop.stopped hs).1)) rfl rfl
    · exact h.stop
  case apiStart =>
    unfold apiStart
    split
    · rename_i hg
      obtain ⟨_, hb, hq, ht⟩ := h.stop.stopped hg.1
      exact ⟨h.inv.frame rfl rfl rfl rfl rfl rfl rfl, h.cur, ⟨by intro hc; simp at hc, by intro hs; simp at hs⟩⟩
    · exact h
  case ioSwap =>
    split
    · rename_i hp
      refine ⟨inv_ioSwap h.inv, by unfold ioSwap; split <;> simp [h.cur], ?_⟩
      unfold ioSwap
      split
      · exact h.stop.of_ctl (by rw [hp]; simp) rfl rfl
      · exact h.stop
    · exact h
  case ioGc picks =>
    split
    · rename_i hp
      have hc := runGc_pres (P := Ctl g.phase g.cmdsClosed g.queue) picks g (ctl_of g)
      exact ⟨runGc_pres picks g h.inv, runGc_pres (P := CurIs none) picks g h.cur,
             h.stop.of_ctl (by rw [hp]; simp) hc.1 hc.2.1⟩
    · exact h
  case ioDrainBegin =>
    split
    · rename_i hg
      obtain ⟨hp, _, hb, _⟩ := hg
      refine ⟨h.inv.frame rfl rfl (by simp [pend, hb]) rfl rfl rfl rfl, h.cur, ?_⟩
      have hcf : g.cmdsClosed = false := by
        cases e : g.cmdsClosed with
        | false => rfl
        | true => have := h.stop.closed_stopped e; rw [hp] at this; cases this
      exact ⟨by intro hc; simp [hcf] at hc, by intro hs; simp at hs⟩
    · exact h
  case ioDrainClose sid =>
    split
    · rename_i hg
      obtain ⟨hp, hb, hcur⟩ := hg
      have hne : g.phase ≠ .stopped := by rcases hp with hp | hp <;> rw [hp] <;> simp
      have h0 : SInv { g with phase := .drainSess } :=
        ⟨h.inv.frame rfl rfl rfl rfl rfl rfl rfl, h.cur, by
          have hcf : g.cmdsClosed = false := by
            cases e : g.cmdsClosed with
            | false => rfl
            | true => exact absurd (h.stop.closed_stopped e) hne
          exact ⟨by intro hc; simp [hcf] at hc, by intro hs; simp at hs⟩⟩
      have hc := drainClose_ctl sid { g with phase := .drainSess }
      exact ⟨inv_drainClose sid h0.inv, by rw [hc.2.1]; exact h.cur,
             h0.stop.of_ctl (by simp) hc.2.2.2.1 hc.2.2.2.2⟩
    · exact h
  case ioDrainFinish =>
    split
    · rename_i hg
      obtain ⟨_, hb, hcur⟩ := hg
      have h1 := inv_drainFinish h.inv hb hcur
      have h2 := drainFinish_stopped g
      exact ⟨h1.1, h1.2, ⟨fun _ => h2.1, fun _ => ⟨h2.2.1, h2.2.2.1, h2.2.2.2.1, h2.2.2.2.2⟩⟩⟩
    · exact h


theorem sinv_timer (sid : Sid) (o : Origin) {g : G} (h : SInv g) : SInv (apiPlain (.close sid o) g) := by
  refine ⟨inv_apiPlain _ rfl h.inv, by unfold apiPlain enqueue; split <;> simp [h.cur], ?_⟩
  unfold apiPlain enqueue
  split
  · exact h.stop
  · rename_i hc; exact h.stop.of_ctl (fun hs => hc (h.stop.stopped hs).1) rfl rfl

theorem Tcp.sinv_step (g : G) (i : In) (h : SInv g) : SInv (Tcp.step g i) := by
  unfold Tcp.step
  split
  · rename_i g' he; exact sinv_shared i h he
  · split
    · exact sinv_timer _ _ h
    · split
      · rename_i hg
        have hne : g.phase ≠ .stopped := by rcases hg.1 with hp | hp <;> rw [hp] <;> simp
        have hc := Tcp.dispatch_pres (P := Ctl g.phase g.cmdsClosed g.queue) ‹List A› g (ctl_of g) h.cur
        exact ⟨Tcp.dispatch_pres _ g h.inv h.cur, Tcp.dispatch_cur _ g h.cur, h.stop.of_ctl hne hc.1 hc.2.1⟩
      · exact h
    · split
      · rename_i hp
        exact ⟨Tcp.onListener_pres _ _ g h.inv, Tcp.onListener_pres (P := CurIs none) _ _ g h.cur,
               h.stop.of_ctl (by rw [hp]; simp) (Tcp.onListener_pres (P := Ctl g.phase g.cmdsClosed g.queue) _ _ g (ctl_of g)).1
                 (Tcp.onListener_pres (P := Ctl g.phase g.cmdsClosed g.queue) _ _ g (ctl_of g)).2.1⟩
      · exact h
    · split
      · rename_i hp
        exact ⟨Tcp.onSession_pres _ _ _ _ _ g h.inv, Tcp.onSession_pres (P := CurIs none) _ _ _ _ _ g h.cur,
               h.stop.of_ctl (by rw [hp]; simp) (Tcp.onSession_pres (P := Ctl g.phase g.cmdsClosed g.queue) _ _ _ _ _ g (ctl_of g)).1
                 (Tcp.onSession_pres (P := Ctl g.phase g.cmdsClosed g.queue) _ _ _ _ _ g (ctl_of g)).2.1⟩
      · exact h
    · exact h

theorem Udp.listener_pres {P : G → Prop} [ClosedU0 P] (lid : Lid) (a b : Bool) (as : List A) (g : G) (hP : P g) :
    P (match (if a = true then Udp.readFromListener lid as g else (g, as)) with
       | (g, as) => if b = true then (Udp.flushListener lid as g).1 else g) := by
  split
  rename_i g1 as1 he
  have h1 : P g1 := by
    split at he
    · have := Udp.readFromListener_pres (P := P) lid as g hP; rw [he] at this; exact this
    · cases he; exact hP
  split
  · exact Udp.flushListener_pres _ _ _ h1
  · exact h1

theorem Udp.sinv_step (g : G) (i : In) (h : SInv g) : SInv (Udp.step g i) := by
  unfold Udp.step
  split
  · rename_i g' he; exact sinv_shared i h he
  · split
    · refine ⟨inv_apiVia _ _ h.inv, by unfold apiVia; dsimp only; split <;> simp [emit, h.cur], ?_⟩
      unfold apiVia; dsimp only
      split
      · exact h.stop.of_same rfl rfl rfl (fun _ => rfl) rfl
      · rename_i hc
        refine h.stop.of_ctl ?_ rfl rfl
        intro hs; exact hc (by simpa using (h.stop.stopped hs).1)
    · split
      · rename_i hg
        have hne : g.phase ≠ .stopped := by rcases hg.1 with hp | hp <;> rw [hp] <;> simp
        have hc := Udp.dispatch_pres (P := Ctl g.phase g.cmdsClosed g.queue) ‹List A› g (ctl_of g) h.cur
        exact ⟨Udp.dispatch_pres _ g h.inv h.cur, Udp.dispatch_cur _ g h.cur, h.stop.of_ctl hne hc.1 hc.2.1⟩
      · exact h
    · split
      · rename_i hp
        exact ⟨Udp.listener_pres _ _ _ _ g h.inv, Udp.listener_pres (P := CurIs none) _ _ _ _ g h.cur,
               h.stop.of_ctl (by rw [hp]; simp) (Udp.listener_pres (P := Ctl g.phase g.cmdsClosed g.queue) _ _ _ _ g (ctl_of g)).1
                 (Udp.listener_pres (P := Ctl g.phase g.cmdsClosed g.queue) _ _ _ _ g (ctl_of g)).2.1⟩
      · exact h
    · split
      · rename_i hp
        exact ⟨Udp.onClient_pres _ _ _ _ g h.inv, Udp.onClient_pres (P := CurIs none) _ _ _ _ g h.cur,
               h.stop.of_ctl (by rw [hp]; simp) (Udp.onClient_pres (P := Ctl g.phase g.cmdsClosed g.queue) _ _ _ _ g (ctl_of g)).1
                 (Udp.onClient_pres (P := Ctl g.phase g.cmdsClosed g.queue) _ _ _ _ g (ctl_of g)).2.1⟩
      · exact h
    · exact h

/-- the state of an engine before anything happened (any configuration) -/
def init (cfg : Cfg) : G := { cfg := cfg }

theorem sinv_init (cfg : Cfg) : SInv (init cfg) := by
  refine ⟨?_, rfl, ⟨by simp [init], by simp [init]⟩⟩
  constructor <;> (try simp [init, pend, liveCount, live, closesOf, annOf, retOf, allocsOf])
  exact ⟨trivial, fun _ => trivial, fun _ => trivial, by intro sid s hs; simp [init] at hs⟩

theorem run_foldl (stepf : G → In → G) (hs : ∀ g i, SInv g → SInv (stepf g i)) (g : G) (h : SInv g) (is : List In) :
    SInv (run stepf g is) := by
  unfold run
  induction is generalizing g with
  | nil => exact h
  | cons i r ih => exact ih _ (hs g i h)

theorem Tcp.sinv_run (cfg : Cfg) (is : List In) : SInv (run Tcp.step (init cfg) is) :=
  run_foldl _ Tcp.sinv_step _ (sinv_init cfg) is

theorem Udp.sinv_run (cfg : Cfg) (is : List In) : SInv (run Udp.step (init cfg) is) :=
  run_foldl _ Udp.sinv_step _ (sinv_init cfg) is

end Iora.Lifecycle
