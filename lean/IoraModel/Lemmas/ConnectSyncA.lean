import IoraModel.Lemmas.ConnectSyncBase
namespace Iora.ConnectSync
set_option linter.unusedSimpArgs false
set_option linter.unusedVariables false

theorem doCancel_core {s : State} (h : Inv s) (c : Nat) :
    Inv ({ s with callers := setC s.callers c { s.callers c with cancelled := true } }) := by
  constructor
  case F_log => first | exact h.F_log | (pick h [F_log]; inv_grind [evSid])
  case F_att => first | exact h.F_att | (pick h [F_att]; inv_grind)
  case F_pend => first | exact h.F_pend | (pick h [F_pend]; inv_grind)
  case F_fifo => first | exact h.F_fifo | (pick h [F_fifo]; inv_grind [cmdSid])
  case F_eng => first | exact h.F_eng | (pick h [F_eng]; inv_grind)
  case F_io => first | exact h.F_io | (pick h [F_io]; inv_grind [ioSid])
  case U_att => first | exact h.U_att | (pick h [U_att]; inv_grind)
  case A_cr => first | exact h.A_cr | (pick h [A_cr]; inv_grind)
  case U_cr => first | exact h.U_cr | (pick h [U_cr]; inv_grind)
  case RC => first | exact h.RC | (pick h [RC]; inv_grind)
  case E2 => first | exact h.E2 | (pick h [E2]; inv_grind)
  case K => first | exact h.K | (pick h [K]; inv_grind)
  case S1 => first | exact h.S1 | (pick h [S1]; inv_grind)
  case REG => first | exact h.REG | (pick h [REG]; inv_grind)
  case ACC => first | exact h.ACC | (pick h [ACC]; inv_grind)
  case P1 => first | exact h.P1 | (pick h [P1]; inv_grind)
  case P2 => first | exact h.P2 | (pick h [P2]; inv_grind)
  case P3 => first | exact h.P3 | (pick h [P3]; inv_grind)
  case P4 => first | exact h.P4 | (pick h [P4]; inv_grind)
  case P5 => first | exact h.P5 | (pick h [P5]; inv_grind)
  case P8 => first | exact h.P8 | (pick h [P8]; inv_grind)
  case D1 => first | exact h.D1 | (pick h [D1]; inv_grind)
  case E3 => first | exact h.E3 | (pick h [E3]; inv_grind)
  case E5 => first | exact h.E5 | (pick h [E5]; inv_grind)
  case H1 => first | exact h.H1 | (pick h [H1]; inv_grind)
  case H2 => first | exact h.H2 | (pick h [H2]; inv_grind)
  case E1 => first | exact h.E1 | (pick h [E1]; inv_grind)
  case E6 => first | exact h.E6 | (pick h [E6]; inv_grind)
  case R1 => first | exact h.R1 | (pick h [R1]; inv_grind)
  case T1 => first | exact h.T1 | (pick h [T1]; inv_grind)
  case FIX => first | exact h.FIX | (pick h [FIX]; inv_grind)
  case T3a => first | exact h.T3a | (pick h [T3a]; inv_grind)
  case T6a => first | exact h.T6a | (pick h [T6a]; inv_grind)
  case T6b => first | exact h.T6b | (pick h [T6b]; inv_grind)
  case G1 => first | exact h.G1 | (pick h [G1]; inv_grind)
  case G2 => first | exact h.G2 | (pick h [G2]; inv_grind)
  case T4 => first | exact h.T4 | (pick h [T4]; inv_grind)
  case Q1 => first | exact h.Q1 | (pick h [Q1]; inv_grind)
  case Q3 => first | exact h.Q3 | (pick h [Q3]; inv_grind)
  case ORD => first | exact h.ORD | (pick h [ORD]; inv_grind)
  case W => first | exact h.W | (pick h [W]; inv_grind)

theorem doCall_a {s : State} (h : Inv s) (c : Nat) (hpc : (s.callers c).pc = .idle ∨ (s.callers c).pc = .finished) (hcan : (s.callers c).cancelled = true) :
    Inv ({ s with callers := setC s.callers c { s.callers c with pc := .finished, wrapped := true }, log := s.log ++ [.wrapRet c (.err .cancelled)] }) := by
  constructor
  case F_log => first | exact h.F_log | (pick h [F_log]; inv_grind [evSid])
  case F_att => first | exact h.F_att | (pick h [F_att]; inv_grind)
  case F_pend => first | exact h.F_pend | (pick h [F_pend]; inv_grind)
  case F_fifo => first | exact h.F_fifo | (pick h [F_fifo]; inv_grind [cmdSid])
  case F_eng => first | exact h.F_eng | (pick h [F_eng]; inv_grind)
  case F_io => first | exact h.F_io | (pick h [F_io]; inv_grind [ioSid])
  case U_att => first | exact h.U_att | (pick h [U_att]; inv_grind)
  case A_cr => first | exact h.A_cr | (pick h [A_cr]; inv_grind)
  case U_cr => first | exact h.U_cr | (pick h [U_cr]; inv_grind)
  case RC => first | exact h.RC | (pick h [RC]; inv_grind)
  case E2 => first | exact h.E2 | (pick h [E2]; inv_grind)
  case K => first | exact h.K | (pick h [K]; inv_grind)
  case S1 => first | exact h.S1 | (pick h [S1]; inv_grind)
  case REG => first | exact h.REG | (pick h [REG]; inv_grind)
  case ACC => first | exact h.ACC | (pick h [ACC]; inv_grind)
  case P1 => first | exact h.P1 | (pick h [P1]; inv_grind)
  case P2 => first | exact h.P2 | (pick h [P2]; inv_grind)
  case P3 => first | exact h.P3 | (pick h [P3]; inv_grind)
  case P4 => first | exact h.P4 | (pick h [P4]; inv_grind)
  case P5 => first | exact h.P5 | (pick h [P5]; inv_grind)
  case P8 => first | exact h.P8 | (pick h [P8]; inv_grind)
  case D1 => first | exact h.D1 | (pick h [D1]; inv_grind)
  case E3 => first | exact h.E3 | (pick h [E3]; inv_grind)
  case E5 => first | exact h.E5 | (pick h [E5]; inv_grind)
  case H1 => first | exact h.H1 | (pick h [H1]; inv_grind)
  case H2 => first | exact h.H2 | (pick h [H2]; inv_grind)
  case E1 => first | exact h.E1 | (pick h [E1]; inv_grind)
  case E6 => first | exact h.E6 | (pick h [E6]; inv_grind)
  case R1 => first | exact h.R1 | (pick h [R1]; inv_grind)
  case T1 => first | exact h.T1 | (pick h [T1]; inv_grind)
  case FIX => first | exact h.FIX | (pick h [FIX]; inv_grind)
  case T3a => first | exact h.T3a | (pick h [T3a]; inv_grind)
  case T6a => first | exact h.T6a | (pick h [T6a]; inv_grind)
  case T6b => first | exact h.T6b | (pick h [T6b]; inv_grind)
  case G1 => first | exact h.G1 | (pick h [G1]; inv_grind)
  case G2 => first | exact h.G2 | (pick h [G2]; inv_grind)
  case T4 => first | exact h.T4 | (pick h [T4]; inv_grind)
  case Q1 => first | exact h.Q1 | (pick h [Q1]; inv_grind)
  case Q3 => first | exact h.Q3 | (pick h [Q3]; inv_grind)
  case ORD => first | exact h.ORD | (pick h [ORD]; inv_grind)
  case W => first | exact h.W | (pick h [W]; inv_grind)

theorem doCall_b {s : State} (h : Inv s) (c : Nat) (w : Bool) (hpc : (s.callers c).pc = .idle ∨ (s.callers c).pc = .finished) :
    Inv ({ s with callers := setC s.callers c { s.callers c with pc := .start, wrapped := w, done := none } }) := by
  constructor
  case F_log => first | exact h.F_log | (pick h [F_log]; inv_grind [evSid])
  case F_att => first | exact h.F_att | (pick h [F_att]; inv_grind)
  case F_pend => first | exact h.F_pend | (pick h [F_pend]; inv_grind)
  case F_fifo => first | exact h.F_fifo | (pick h [F_fifo]; inv_grind [cmdSid])
  case F_eng => first | exact h.F_eng | (pick h [F_eng]; inv_grind)
  case F_io => first | exact h.F_io | (pick h [F_io]; inv_grind [ioSid])
  case U_att => first | exact h.U_att | (pick h [U_att]; inv_grind)
  case A_cr => first | exact h.A_cr | (pick h [A_cr]; inv_grind)
  case U_cr => first | exact h.U_cr | (pick h [U_cr]; inv_grind)
  case RC => first | exact h.RC | (pick h [RC]; inv_grind)
  case E2 => first | exact h.E2 | (pick h [E2]; inv_grind)
  case K => first | exact h.K | (pick h [K]; inv_grind)
  case S1 => first | exact h.S1 | (pick h [S1]; inv_grind)
  case REG => first | exact h.REG | (pick h [REG]; inv_grind)
  case ACC => first | exact h.ACC | (pick h [ACC]; inv_grind)
  case P1 => first | exact h.P1 | (pick h [P1]; inv_grind)
  case P2 => first | exact h.P2 | (pick h [P2]; inv_grind)
  case P3 => first | exact h.P3 | (pick h [P3]; inv_grind)
  case P4 => first | exact h.P4 | (pick h [P4]; inv_grind)
  case P5 => first | exact h.P5 | (pick h [P5]; inv_grind)
  case P8 => first | exact h.P8 | (pick h [P8]; inv_grind)
  case D1 => first | exact h.D1 | (pick h [D1]; inv_grind)
  case E3 => first | exact h.E3 | (pick h [E3]; inv_grind)
  case E5 => first | exact h.E5 | (pick h [E5]; inv_grind)
  case H1 => first | exact h.H1 | (pick h [H1]; inv_grind)
  case H2 => first | exact h.H2 | (pick h [H2]; inv_grind)
  case E1 => first | exact h.E1 | (pick h [E1]; inv_grind)
  case E6 => first | exact h.E6 | (pick h [E6]; inv_grind)
  case R1 => first | exact h.R1 | (pick h [R1]; inv_grind)
  case T1 => first | exact h.T1 | (pick h [T1]; inv_grind)
  case FIX => first | exact h.FIX | (pick h [FIX]; inv_grind)
  case T3a => first | exact h.T3a | (pick h [T3a]; inv_grind)
  case T6a => first | exact h.T6a | (pick h [T6a]; inv_grind)
  case T6b => first | exact h.T6b | (pick h [T6b]; inv_grind)
  case G1 => first | exact h.G1 | (pick h [G1]; inv_grind)
  case G2 => first | exact h.G2 | (pick h [G2]; inv_grind)
  case T4 => first | exact h.T4 | (pick h [T4]; inv_grind)
  case Q1 => first | exact h.Q1 | (pick h [Q1]; inv_grind)
  case Q3 => first | exact h.Q3 | (pick h [Q3]; inv_grind)
  case ORD => first | exact h.ORD | (pick h [ORD]; inv_grind)
  case W => first | exact h.W | (pick h [W]; inv_grind)

theorem doWLoop_a {s : State} (h : Inv s) (c : Nat) (r : Res) (hr : r = .err .timeout ∨ (r = .err .cancelled ∧ (s.callers c).cancelled = true)) (hpc : (s.callers c).pc = .wloop) :
    Inv ({ s with callers := setC s.callers c { s.callers c with pc := .finished }, log := s.log ++ [.wrapRet c r] }) := by
  constructor
  case F_log => first | exact h.F_log | (pick h [F_log]; inv_grind [evSid])
  case F_att => first | exact h.F_att | (pick h [F_att]; inv_grind)
  case F_pend => first | exact h.F_pend | (pick h [F_pend]; inv_grind)
  case F_fifo => first | exact h.F_fifo | (pick h [F_fifo]; inv_grind [cmdSid])
  case F_eng => first | exact h.F_eng | (pick h [F_eng]; inv_grind)
  case F_io => first | exact h.F_io | (pick h [F_io]; inv_grind [ioSid])
  case U_att => first | exact h.U_att | (pick h [U_att]; inv_grind)
  case A_cr => first | exact h.A_cr | (pick h [A_cr]; inv_grind)
  case U_cr => first | exact h.U_cr | (pick h [U_cr]; inv_grind)
  case RC => first | exact h.RC | (pick h [RC]; inv_grind)
  case E2 => first | exact h.E2 | (pick h [E2]; inv_grind)
  case K => first | exact h.K | (pick h [K]; inv_grind)
  case S1 => first | exact h.S1 | (pick h [S1]; inv_grind)
  case REG => first | exact h.REG | (pick h [REG]; inv_grind)
  case ACC => first | exact h.ACC | (pick h [ACC]; inv_grind)
  case P1 => first | exact h.P1 | (pick h [P1]; inv_grind)
  case P2 => first | exact h.P2 | (pick h [P2]; inv_grind)
  case P3 => first | exact h.P3 | (pick h [P3]; inv_grind)
  case P4 => first | exact h.P4 | (pick h [P4]; inv_grind)
  case P5 => first | exact h.P5 | (pick h [P5]; inv_grind)
  case P8 => first | exact h.P8 | (pick h [P8]; inv_grind)
  case D1 => first | exact h.D1 | (pick h [D1]; inv_grind)
  case E3 => first | exact h.E3 | (pick h [E3]; inv_grind)
  case E5 => first | exact h.E5 | (pick h [E5]; inv_grind)
  case H1 => first | exact h.H1 | (pick h [H1]; inv_grind)
  case H2 => first | exact h.H2 | (pick h [H2]; inv_grind)
  case E1 => first | exact h.E1 | (pick h [E1]; inv_grind)
  case E6 => first | exact h.E6 | (pick h [E6]; inv_grind)
  case R1 => first | exact h.R1 | (pick h [R1]; inv_grind)
  case T1 => first | exact h.T1 | (pick h [T1]; inv_grind)
  case FIX => first | exact h.FIX | (pick h [FIX]; inv_grind)
  case T3a => first | exact h.T3a | (pick h [T3a]; inv_grind)
  case T6a => first | exact h.T6a | (pick h [T6a]; inv_grind)
  case T6b => first | exact h.T6b | (pick h [T6b]; inv_grind)
  case G1 => first | exact h.G1 | (pick h [G1]; inv_grind)
  case G2 => first | exact h.G2 | (pick h [G2]; inv_grind)
  case T4 => first | exact h.T4 | (pick h [T4]; inv_grind)
  case Q1 => first | exact h.Q1 | (pick h [Q1]; inv_grind)
  case Q3 => first | exact h.Q3 | (pick h [Q3]; inv_grind)
  case ORD => first | exact h.ORD | (pick h [ORD]; inv_grind)
  case W => first | exact h.W | (pick h [W]; inv_grind)

theorem doWLoop_b {s : State} (h : Inv s) (c : Nat) (hpc : (s.callers c).pc = .wloop) :
    Inv ({ s with callers := setC s.callers c { s.callers c with pc := .start, done := none } }) := by
  constructor
  case F_log => first | exact h.F_log | (pick h [F_log]; inv_grind [evSid])
  case F_att => first | exact h.F_att | (pick h [F_att]; inv_grind)
  case F_pend => first | exact h.F_pend | (pick h [F_pend]; inv_grind)
  case F_fifo => first | exact h.F_fifo | (pick h [F_fifo]; inv_grind [cmdSid])
  case F_eng => first | exact h.F_eng | (pick h [F_eng]; inv_grind)
  case F_io => first | exact h.F_io | (pick h [F_io]; inv_grind [ioSid])
  case U_att => first | exact h.U_att | (pick h [U_att]; inv_grind)
  case A_cr => first | exact h.A_cr | (pick h [A_cr]; inv_grind)
  case U_cr => first | exact h.U_cr | (pick h [U_cr]; inv_grind)
  case RC => first | exact h.RC | (pick h [RC]; inv_grind)
  case E2 => first | exact h.E2 | (pick h [E2]; inv_grind)
  case K => first | exact h.K | (pick h [K]; inv_grind)
  case S1 => first | exact h.S1 | (pick h [S1]; inv_grind)
  case REG => first | exact h.REG | (pick h [REG]; inv_grind)
  case ACC => first | exact h.ACC | (pick h [ACC]; inv_grind)
  case P1 => first | exact h.P1 | (pick h [P1]; inv_grind)
  case P2 => first | exact h.P2 | (pick h [P2]; inv_grind)
  case P3 => first | exact h.P3 | (pick h [P3]; inv_grind)
  case P4 => first | exact h.P4 | (pick h [P4]; inv_grind)
  case P5 => first | exact h.P5 | (pick h [P5]; inv_grind)
  case P8 => first | exact h.P8 | (pick h [P8]; inv_grind)
  case D1 => first | exact h.D1 | (pick h [D1]; inv_grind)
  case E3 => first | exact h.E3 | (pick h [E3]; inv_grind)
  case E5 => first | exact h.E5 | (pick h [E5]; inv_grind)
  case H1 => first | exact h.H1 | (pick h [H1]; inv_grind)
  case H2 => first | exact h.H2 | (pick h [H2]; inv_grind)
  case E1 => first | exact h.E1 | (pick h [E1]; inv_grind)
  case E6 => first | exact h.E6 | (pick h [E6]; inv_grind)
  case R1 => first | exact h.R1 | (pick h [R1]; inv_grind)
  case T1 => first | exact h.T1 | (pick h [T1]; inv_grind)
  case FIX => first | exact h.FIX | (pick h [FIX]; inv_grind)
  case T3a => first | exact h.T3a | (pick h [T3a]; inv_grind)
  case T6a => first | exact h.T6a | (pick h [T6a]; inv_grind)
  case T6b => first | exact h.T6b | (pick h [T6b]; inv_grind)
  case G1 => first | exact h.G1 | (pick h [G1]; inv_grind)
  case G2 => first | exact h.G2 | (pick h [G2]; inv_grind)
  case T4 => first | exact h.T4 | (pick h [T4]; inv_grind)
  case Q1 => first | exact h.Q1 | (pick h [Q1]; inv_grind)
  case Q3 => first | exact h.Q3 | (pick h [Q3]; inv_grind)
  case ORD => first | exact h.ORD | (pick h [ORD]; inv_grind)
  case W => first | exact h.W | (pick h [W]; inv_grind)

theorem doPark_core {s : State} (h : Inv s) (c sid : Nat) (hpc : (s.callers c).pc = .registered sid) :
    Inv ({ s with lock := none, callers := setC s.callers c { s.callers c with pc := .parked sid false } }) := by
  have hl : s.lock = some c := h.lock_of_holds (by simp [hpc, holds])
  have hsd := h.sd_of_lock hl
  have hdn : (s.callers c).done = none := h.done_none (by simp [hpc])
  constructor
  case F_log => first | exact h.F_log | (pick h [F_log]; inv_grind [evSid])
  case F_att => first | exact h.F_att | (pick h [F_att]; inv_grind)
  case F_pend => first | exact h.F_pend | (pick h [F_pend]; inv_grind)
  case F_fifo => first | exact h.F_fifo | (pick h [F_fifo]; inv_grind [cmdSid])
  case F_eng => first | exact h.F_eng | (pick h [F_eng]; inv_grind)
  case F_io => first | exact h.F_io | (pick h [F_io]; inv_grind [ioSid])
  case U_att => first | exact h.U_att | (pick h [U_att]; inv_grind)
  case A_cr => first | exact h.A_cr | (pick h [A_cr]; inv_grind)
  case U_cr => first | exact h.U_cr | (pick h [U_cr]; inv_grind)
  case RC => first | exact h.RC | (pick h [RC]; inv_grind)
  case E2 => first | exact h.E2 | (pick h [E2]; inv_grind)
  case K => first | exact h.K | (pick h [K]; inv_grind)
  case S1 => first | exact h.S1 | (pick h [S1]; inv_grind)
  case REG => first | exact h.REG | (pick h [REG]; inv_grind)
  case ACC => first | exact h.ACC | (pick h [ACC]; inv_grind)
  case P1 => first | exact h.P1 | (pick h [P1]; inv_grind)
  case P2 => first | exact h.P2 | (pick h [P2]; inv_grind)
  case P3 => first | exact h.P3 | (pick h [P3]; inv_grind)
  case P4 => first | exact h.P4 | (pick h [P4]; inv_grind)
  case P5 => first | exact h.P5 | (pick h [P5]; inv_grind)
  case P8 => first | exact h.P8 | (pick h [P8]; inv_grind)
  case D1 => first | exact h.D1 | (pick h [D1]; inv_grind)
  case E3 => first | exact h.E3 | (pick h [E3]; inv_grind)
  case E5 => first | exact h.E5 | (pick h [E5]; inv_grind)
  case H1 => first | exact h.H1 | (pick h [H1]; inv_grind)
  case H2 => first | exact h.H2 | (pick h [H2]; inv_grind)
  case E1 => first | exact h.E1 | (pick h [E1]; inv_grind)
  case E6 => first | exact h.E6 | (pick h [E6]; inv_grind)
  case R1 => first | exact h.R1 | (pick h [R1]; inv_grind)
  case T1 => first | exact h.T1 | (pick h [T1]; inv_grind)
  case FIX => first | exact h.FIX | (pick h [FIX]; inv_grind)
  case T3a => first | exact h.T3a | (pick h [T3a]; inv_grind)
  case T6a => first | exact h.T6a | (pick h [T6a]; inv_grind)
  case T6b => first | exact h.T6b | (pick h [T6b]; inv_grind)
  case G1 => first | exact h.G1 | (pick h [G1]; inv_grind)
  case G2 => first | exact h.G2 | (pick h [G2]; inv_grind)
  case T4 => first | exact h.T4 | (pick h [T4]; inv_grind)
  case Q1 => first | exact h.Q1 | (pick h [Q1]; inv_grind)
  case Q3 => first | exact h.Q3 | (pick h [Q3]; inv_grind)
  case ORD => first | exact h.ORD | (pick h [ORD]; inv_grind)
  case W => first | exact h.W | (pick h [W]; inv_grind)

theorem doCall_inv {s : State} (h : Inv s) (c : Nat) (w : Bool) : Inv (doCall s c w) := by
  unfold doCall
  dsimp only
  split
  · rename_i hpc
    split
    · rename_i hw; exact doCall_a h c (Or.inl hpc) (by simp at hw; exact hw.2)
    · exact doCall_b h c w (Or.inl hpc)
  · rename_i hpc
    split
    · rename_i hw; exact doCall_a h c (Or.inr hpc) (by simp at hw; exact hw.2)
    · exact doCall_b h c w (Or.inr hpc)
  · exact h

theorem doCancel_inv {s : State} (h : Inv s) (c : Nat) : Inv (doCancel s c) := doCancel_core h c

theorem doWLoop_inv {s : State} (h : Inv s) (c : Nat) (d : Bool) : Inv (doWLoop s c d) := by
  unfold doWLoop
  dsimp only
  split
  · rename_i hpc
    split
    · exact doWLoop_a h c _ (Or.inl rfl) hpc
    · split
      · rename_i hcan; exact doWLoop_a h c _ (Or.inr ⟨rfl, hcan⟩) hpc
      · exact doWLoop_b h c hpc
  · exact h

theorem doPark_inv {s : State} (h : Inv s) (c : Nat) : Inv (doPark s c) := by
  unfold doPark
  split
  · rename_i sid hpc; exact doPark_core h c sid hpc
  · exact h


end Iora.ConnectSync
