import IoraModel.Model.ConnectSync
/-! Invariants of the C04 model (`Model/ConnectSync.lean`), preserved by every step of every schedule. -/
namespace Iora.ConnectSync
set_option linter.unusedSimpArgs false
set_option linter.unusedVariables false

/-- session id of the attempt a caller is in the middle of -/
def att : Pc → Option Nat
  | .connected s | .registered s | .parked s _ | .closing s | .relock s => some s
  | _ => none

/-- the caller holds `syncMutex` -/
def holds : Pc → Bool
  | .haveLock | .connected _ | .registered _ => true
  | _ => false

/-- the caller's pending record is live (registered, not yet abandoned or completed-and-returned) -/
def waiting : Pc → Option Nat
  | .registered s | .parked s _ => some s
  | _ => none

def leaving : Pc → Option Nat
  | .closing s | .relock s => some s
  | _ => none

def evSid : Ev → Option Nat
  | .created _ s | .registered _ s | .engineClose _ s | .hConnect s | .hClose s | .delivered s _ | .reaped s
  | .globalConnect s | .globalClose s => some s
  | .attemptRet _ s _ => s
  | _ => none

def cmdSid : Cmd → Nat
  | .connect s | .close s => s

def ioSid : IoPc → Option Nat
  | .connCS s | .connNotify _ s | .connGlobal s | .closeCS s | .closeNotify _ s | .closeGlobal s => some s
  | .idle => none

@[simp] theorem setC_same (f : Nat → Caller) (c : Nat) (x : Caller) : setC f c x c = x := by simp [setC]
theorem setC_other (f : Nat → Caller) {c j : Nat} (x : Caller) (h : j ≠ c) : setC f c x j = f j := by simp [setC, h]
@[simp] theorem setP_same (f : Nat → Option Pend) (c : Nat) (x : Option Pend) : setP f c x c = x := by simp [setP]
theorem setP_other (f : Nat → Option Pend) {c j : Nat} (x : Option Pend) (h : j ≠ c) : setP f c x j = f j := by simp [setP, h]
@[simp] theorem setE_same (f : Nat → ES) (c : Nat) (x : ES) : setE f c x c = x := by simp [setE]
theorem setE_other (f : Nat → ES) {c j : Nat} (x : ES) (h : j ≠ c) : setE f c x j = f j := by simp [setE, h]

/-! ## the invariant -/
structure Inv (s : State) : Prop where
  -- freshness of session ids
  F_log : ∀ e ∈ s.log, ∀ sid, evSid e = some sid → sid < s.nextSid
  F_att : ∀ c sid, att (s.callers c).pc = some sid → sid < s.nextSid
  F_pend : ∀ sid p, s.pend sid = some p → sid < s.nextSid
  F_fifo : ∀ cmd ∈ s.fifo, cmdSid cmd < s.nextSid
  F_eng : ∀ sid, s.eng sid ≠ .none → sid < s.nextSid
  F_io : ∀ sid, ioSid s.io = some sid → sid < s.nextSid
  -- ownership of attempts
  U_att : ∀ c c' sid, att (s.callers c).pc = some sid → att (s.callers c').pc = some sid → c = c'
  A_cr : ∀ c sid, att (s.callers c).pc = some sid → Ev.created c sid ∈ s.log
  U_cr : ∀ c c' sid, Ev.created c sid ∈ s.log → Ev.created c' sid ∈ s.log → c = c'
  RC : ∀ c sid, Ev.registered c sid ∈ s.log → Ev.created c sid ∈ s.log
  E2 : ∀ c sid, Ev.engineClose c sid ∈ s.log → Ev.created c sid ∈ s.log
  -- the lock
  K : ∀ c, holds (s.callers c).pc = true ↔ s.lock = some c
  S1 : s.lock.isSome = true → s.shuttingDown = false
  -- pending records
  REG : ∀ c sid, Ev.created c sid ∈ s.log → Ev.registered c sid ∈ s.log ∨ (s.callers c).pc = .connected sid
  ACC : ∀ c sid, Ev.registered c sid ∈ s.log →
    s.pend sid ≠ none ∨ Ev.delivered sid true ∈ s.log ∨ Ev.delivered sid false ∈ s.log ∨ Ev.reaped sid ∈ s.log
  P1 : ∀ sid p, s.pend sid = some p → Ev.registered p.owner sid ∈ s.log
  P2 : ∀ sid p, s.pend sid = some p → p.abandoned = false →
    waiting (s.callers p.owner).pc = some sid ∧ (s.callers p.owner).done = none
  P3 : ∀ c sid, waiting (s.callers c).pc = some sid → (s.callers c).done = none →
    s.pend sid = some { owner := c, abandoned := false }
  P4 : ∀ c r, (s.callers c).done = some r → ∃ sid a, (s.callers c).pc = .parked sid a ∧ s.pend sid = none ∧
    ((r = .ok sid ∧ Ev.delivered sid true ∈ s.log) ∨ (r = .err .closed ∧ Ev.delivered sid false ∈ s.log))
  P5 : ∀ c sid, leaving (s.callers c).pc = some sid →
    s.pend sid = some { owner := c, abandoned := true } ∨ (s.pend sid = none ∧ Ev.reaped sid ∈ s.log)
  P8 : ∀ c sid, att (s.callers c).pc = some sid → Ev.delivered sid true ∈ s.log → (s.callers c).done = some (.ok sid)
  -- handlers and the engine
  D1 : ∀ sid, (Ev.delivered sid true ∈ s.log → Ev.hConnect sid ∈ s.log) ∧
    (Ev.delivered sid false ∈ s.log → Ev.hClose sid ∈ s.log) ∧ (Ev.reaped sid ∈ s.log → Ev.hClose sid ∈ s.log)
  E3 : ∀ sid, Ev.hClose sid ∈ s.log → s.eng sid = .closed
  E5 : ∀ sid, Ev.hConnect sid ∈ s.log → s.eng sid = .established ∨ s.eng sid = .closed
  H1 : ∀ sid, s.io = .connCS sid → s.eng sid = .established ∧ Ev.hConnect sid ∉ s.log
  H2 : ∀ sid, s.io = .closeCS sid → s.eng sid = .closed ∧ Ev.hClose sid ∉ s.log
  -- results
  E1 : ∀ c sid, att (s.callers c).pc = some sid → (s.callers c).pc ≠ .relock sid → Ev.engineClose c sid ∉ s.log
  E6 : ∀ c sid, (s.callers c).pc = .relock sid → Ev.engineClose c sid ∈ s.log
  R1 : ∀ c sid r, Ev.attemptRet c (some sid) r ∈ s.log → Ev.created c sid ∈ s.log ∧ att (s.callers c).pc ≠ some sid
  T1 : ∀ c sid' sid, Ev.attemptRet c (some sid') (.ok sid) ∈ s.log →
    sid' = sid ∧ Ev.delivered sid true ∈ s.log ∧ ∀ c', Ev.engineClose c' sid ∉ s.log
  FIX : ∀ c sid r, Ev.attemptRet c (some sid) r ∈ s.log → Ev.delivered sid true ∈ s.log → r = .ok sid
  T3a : ∀ c sid, Ev.attemptRet c (some sid) (.err .timeout) ∈ s.log → Ev.engineClose c sid ∈ s.log
  T6a : ∀ c sid, Ev.wrapRet c (.ok sid) ∈ s.log → Ev.attemptRet c (some sid) (.ok sid) ∈ s.log
  T6b : ∀ c, Ev.wrapRet c (.err .cancelled) ∈ s.log → (s.callers c).cancelled = true
  -- global callbacks
  G1 : ∀ sid, (s.io = .connGlobal sid ∨ Ev.globalConnect sid ∈ s.log) → ∀ c, Ev.created c sid ∉ s.log
  G2 : ∀ sid, (s.io = .closeGlobal sid ∨ Ev.globalClose sid ∈ s.log) → ∀ c, Ev.created c sid ∈ s.log →
    Ev.delivered sid true ∈ s.log
  T4 : ∀ c sid, Ev.hConnect sid ∈ s.log → Ev.created c sid ∈ s.log → Ev.registered c sid ∈ s.log
  -- the engine FIFO
  Q1 : ∀ c sid, Ev.engineClose c sid ∈ s.log → Cmd.close sid ∈ s.fifo ∨ s.eng sid = .closed
  Q3 : ∀ c sid, Ev.created c sid ∈ s.log → Cmd.connect sid ∈ s.fifo ∨ s.eng sid ≠ .none
  ORD : ∀ pre post sid, s.fifo = pre ++ Cmd.close sid :: post → Cmd.connect sid ∉ post
  -- no lost wake-up
  W : ∀ c sid, (s.callers c).pc = .parked sid false → ((s.callers c).done ≠ none ∨ s.shuttingDown = true) →
    s.io = .connNotify c sid ∨ s.io = .closeNotify c sid

theorem Inv_init : Inv init := by
  constructor <;> simp [init, att, holds, waiting, leaving, ioSid]

theorem retPc_cases (w : Bool) (r : Res) : retPc w r = .finished ∨ retPc w r = .wloop := by
  unfold retPc; split <;> simp

@[simp] theorem att_retPc (w : Bool) (r : Res) : att (retPc w r) = none := by
  rcases retPc_cases w r with h | h <;> simp [h, att]
@[simp] theorem holds_retPc (w : Bool) (r : Res) : holds (retPc w r) = false := by
  rcases retPc_cases w r with h | h <;> simp [h, holds]
@[simp] theorem waiting_retPc (w : Bool) (r : Res) : waiting (retPc w r) = none := by
  rcases retPc_cases w r with h | h <;> simp [h, waiting]
@[simp] theorem leaving_retPc (w : Bool) (r : Res) : leaving (retPc w r) = none := by
  rcases retPc_cases w r with h | h <;> simp [h, leaving]

theorem mem_retEvs (c : Nat) (sid : Option Nat) (w : Bool) (r : Res) (e : Ev) :
    e ∈ retEvs c sid w r ↔ e = .attemptRet c sid r ∨ (e = .wrapRet c r ∧ w = true ∧ r ≠ .err .timeout) := by
  unfold retEvs
  split
  · rename_i h; simp at h; simp [h]
  · rename_i h; simp at h
    simp only [List.mem_singleton]
    constructor
    · intro h'; exact Or.inl h'
    · rintro (h' | ⟨_, hw, hr⟩)
      · exact h'
      · exact absurd (h hw) hr

@[simp] theorem step_call (s : State) (c : Nat) (w : Bool) : step s (.call c w) = doCall s c w := rfl
@[simp] theorem step_cancel (s : State) (c : Nat) : step s (.cancel c) = doCancel s c := rfl
@[simp] theorem step_cEnter (s : State) (c : Nat) : step s (.cEnter c) = doEnter s c := rfl
@[simp] theorem step_cConnect (s : State) (c : Nat) : step s (.cConnect c) = doConnect s c := rfl
@[simp] theorem step_cRegister (s : State) (c : Nat) : step s (.cRegister c) = doRegister s c := rfl
@[simp] theorem step_cPark (s : State) (c : Nat) : step s (.cPark c) = doPark s c := rfl
@[simp] theorem step_cWake (s : State) (c : Nat) (t : Bool) : step s (.cWake c t) = doWake s c t := rfl
@[simp] theorem step_cClose (s : State) (c : Nat) : step s (.cClose c) = doClose s c := rfl
@[simp] theorem step_cRelock (s : State) (c : Nat) : step s (.cRelock c) = doRelock s c := rfl
@[simp] theorem step_wLoop (s : State) (c : Nat) (d : Bool) : step s (.wLoop c d) = doWLoop s c d := rfl
@[simp] theorem step_ioPop (s : State) (b : Bool) : step s (.ioPop b) = doPop s b := rfl
@[simp] theorem step_ioComplete (s : State) (sid : Nat) : step s (.ioComplete sid) = doComplete s sid := rfl
@[simp] theorem step_ioFail (s : State) (sid : Nat) : step s (.ioFail sid) = doFail s sid := rfl
@[simp] theorem step_timerClose (s : State) (sid : Nat) : step s (.timerClose sid) = doFail s sid := rfl
@[simp] theorem step_ioPeerClose (s : State) (sid : Nat) : step s (.ioPeerClose sid) = doPeerClose s sid := rfl
@[simp] theorem step_ioStep (s : State) : step s .ioStep = doIoStep s := rfl
@[simp] theorem step_fence (s : State) : step s .fence = doFence s := rfl

/-- brute force for one invariant field after the step function has been unfolded and its matches split -/
macro "crush" : tactic =>
  `(tactic| (intros; simp_all [List.mem_append, att, holds, waiting, leaving, evSid, cmdSid, ioSid, setC, setP, setE]))

/-- close a goal that is literally (up to unfolding structure projections) a field of the pre-state invariant -/
macro "frame " h:ident : tactic =>
  `(tactic| first
    | exact ($h).F_log | exact ($h).F_att | exact ($h).F_pend | exact ($h).F_fifo | exact ($h).F_eng | exact ($h).F_io
    | exact ($h).U_att | exact ($h).A_cr | exact ($h).U_cr | exact ($h).RC | exact ($h).E2 | exact ($h).K | exact ($h).S1
    | exact ($h).REG | exact ($h).ACC | exact ($h).P1 | exact ($h).P2 | exact ($h).P3 | exact ($h).P4 | exact ($h).P5
    | exact ($h).P8 | exact ($h).D1 | exact ($h).E3 | exact ($h).E5 | exact ($h).H1 | exact ($h).H2 | exact ($h).E1
    | exact ($h).E6 | exact ($h).R1 | exact ($h).T1 | exact ($h).FIX | exact ($h).T3a | exact ($h).T6a | exact ($h).T6b
    | exact ($h).G1 | exact ($h).G2 | exact ($h).T4 | exact ($h).Q1 | exact ($h).Q3 | exact ($h).ORD | exact ($h).W)

open Lean in
/-- `pick h [X, Y]` : `have X := h.X; have Y := h.Y; clear h` -/
macro "pick " h:ident "[" xs:ident,* "]" : tactic => do
  let hs ← xs.getElems.mapM fun (x : Ident) => do
    let proj := mkIdent (h.getId ++ x.getId)
    `(tactic| have $x:ident := $proj)
  `(tactic| ($[$hs]*; clear $h))

/-! ## consequences of the freshness fields in a shape E-matching can use -/
namespace Inv
variable {s : State}
theorem F_created (h : Inv s) : ∀ c sid, Ev.created c sid ∈ s.log → sid < s.nextSid := fun _ sid hm => h.F_log _ hm sid rfl
theorem F_registered (h : Inv s) : ∀ c sid, Ev.registered c sid ∈ s.log → sid < s.nextSid := fun _ sid hm => h.F_log _ hm sid rfl
theorem F_engineClose (h : Inv s) : ∀ c sid, Ev.engineClose c sid ∈ s.log → sid < s.nextSid := fun _ sid hm => h.F_log _ hm sid rfl
theorem F_hConnect (h : Inv s) : ∀ sid, Ev.hConnect sid ∈ s.log → sid < s.nextSid := fun sid hm => h.F_log _ hm sid rfl
theorem F_hClose (h : Inv s) : ∀ sid, Ev.hClose sid ∈ s.log → sid < s.nextSid := fun sid hm => h.F_log _ hm sid rfl
theorem F_delivered (h : Inv s) : ∀ sid b, Ev.delivered sid b ∈ s.log → sid < s.nextSid := fun sid _ hm => h.F_log _ hm sid rfl
theorem F_reaped (h : Inv s) : ∀ sid, Ev.reaped sid ∈ s.log → sid < s.nextSid := fun sid hm => h.F_log _ hm sid rfl
theorem F_gConnect (h : Inv s) : ∀ sid, Ev.globalConnect sid ∈ s.log → sid < s.nextSid := fun sid hm => h.F_log _ hm sid rfl
theorem F_gClose (h : Inv s) : ∀ sid, Ev.globalClose sid ∈ s.log → sid < s.nextSid := fun sid hm => h.F_log _ hm sid rfl
theorem F_aret (h : Inv s) : ∀ c sid r, Ev.attemptRet c (some sid) r ∈ s.log → sid < s.nextSid :=
  fun _ sid _ hm => h.F_log _ hm sid rfl
theorem F_connCS (h : Inv s) : ∀ sid, s.io = .connCS sid → sid < s.nextSid := fun sid hm => h.F_io sid (by rw [hm]; rfl)
theorem F_connNotify (h : Inv s) : ∀ c sid, s.io = .connNotify c sid → sid < s.nextSid := fun _ sid hm => h.F_io sid (by rw [hm]; rfl)
theorem F_connGlobal (h : Inv s) : ∀ sid, s.io = .connGlobal sid → sid < s.nextSid := fun sid hm => h.F_io sid (by rw [hm]; rfl)
theorem F_closeCS (h : Inv s) : ∀ sid, s.io = .closeCS sid → sid < s.nextSid := fun sid hm => h.F_io sid (by rw [hm]; rfl)
theorem F_closeNotify (h : Inv s) : ∀ c sid, s.io = .closeNotify c sid → sid < s.nextSid := fun _ sid hm => h.F_io sid (by rw [hm]; rfl)
theorem F_closeGlobal (h : Inv s) : ∀ sid, s.io = .closeGlobal sid → sid < s.nextSid := fun sid hm => h.F_io sid (by rw [hm]; rfl)
theorem F_fconn (h : Inv s) : ∀ sid, Cmd.connect sid ∈ s.fifo → sid < s.nextSid := fun _ hm => h.F_fifo _ hm
theorem F_fclose (h : Inv s) : ∀ sid, Cmd.close sid ∈ s.fifo → sid < s.nextSid := fun _ hm => h.F_fifo _ hm
end Inv

/-! ## the FIFO order field, as a predicate on lists -/
def OrdP (l : List Cmd) : Prop := ∀ pre post sid, l = pre ++ Cmd.close sid :: post → Cmd.connect sid ∉ post

theorem OrdP_tail {x : Cmd} {l : List Cmd} (h : OrdP (x :: l)) : OrdP l := by
  intro pre post sid heq
  exact h (x :: pre) post sid (by simp [heq])

theorem OrdP_snoc {x : Cmd} {l : List Cmd} (h : OrdP l) (hx : ∀ sid, x = Cmd.connect sid → Cmd.close sid ∉ l) :
    OrdP (l ++ [x]) := by
  intro pre post sid heq
  rcases List.eq_nil_or_concat post with hp | ⟨post', y, hp⟩
  · subst hp; simp
  · subst hp
    have heq' : l ++ [x] = (pre ++ Cmd.close sid :: post') ++ [y] := by simp [heq]
    obtain ⟨h1, h2⟩ := List.append_inj' heq' rfl
    simp at h2
    subst h2
    intro hm
    simp at hm
    rcases hm with hm | hm
    · exact h pre post' sid h1 hm
    · exact hx sid hm.symm (by simp [h1])

/-! ## small derived facts -/
namespace Inv
variable {s : State}
theorem lock_of_holds (h : Inv s) {c : Nat} (hh : holds (s.callers c).pc = true) : s.lock = some c := (h.K c).1 hh
theorem sd_of_lock (h : Inv s) {c : Nat} (hl : s.lock = some c) : s.shuttingDown = false := h.S1 (by rw [hl]; rfl)
theorem done_none (h : Inv s) {c : Nat} (hp : ∀ sid a, (s.callers c).pc ≠ .parked sid a) : (s.callers c).done = none := by
  cases hd : (s.callers c).done with
  | none => rfl
  | some r =>
    obtain ⟨sid, a, h1, _⟩ := h.P4 c r hd
    exact absurd h1 (hp sid a)
theorem not_holds_of_free (h : Inv s) (hl : s.lock = none) (c : Nat) : holds (s.callers c).pc = false := by
  cases hh : holds (s.callers c).pc with
  | false => rfl
  | true => have := (h.K c).1 hh; rw [hl] at this; cases this
end Inv

theorem att_of_waiting {p : Pc} {sid : Nat} (h : waiting p = some sid) : att p = some sid := by
  cases p <;> simp_all [waiting, att]
theorem att_of_leaving {p : Pc} {sid : Nat} (h : leaving p = some sid) : att p = some sid := by
  cases p <;> simp_all [leaving, att]

namespace Inv
variable {s : State}
theorem free_not_haveLock (h : Inv s) (hl : s.lock = none) : ∀ c, (s.callers c).pc ≠ .haveLock := by
  intro c hp; have := h.not_holds_of_free hl c; simp [hp, holds] at this
theorem free_not_connected (h : Inv s) (hl : s.lock = none) : ∀ c sid, (s.callers c).pc ≠ .connected sid := by
  intro c sid hp; have := h.not_holds_of_free hl c; simp [hp, holds] at this
theorem free_not_registered (h : Inv s) (hl : s.lock = none) : ∀ c sid, (s.callers c).pc ≠ .registered sid := by
  intro c sid hp; have := h.not_holds_of_free hl c; simp [hp, holds] at this
/-- with the lock free, a caller with a live record is parked -/
theorem free_waiting_parked (h : Inv s) (hl : s.lock = none) {c sid : Nat} (hw : waiting (s.callers c).pc = some sid) :
    ∃ a, (s.callers c).pc = .parked sid a := by
  have := h.free_not_registered hl c
  cases hp : (s.callers c).pc <;> simp_all [waiting]
end Inv

/-! ## `notifyPending` only flips `awake` flags -/
theorem np_done (s : State) (j : Nat) : (notifyPending s j).done = (s.callers j).done := by
  unfold notifyPending; split <;> (try split) <;> (try split) <;> rfl
theorem np_cancelled (s : State) (j : Nat) : (notifyPending s j).cancelled = (s.callers j).cancelled := by
  unfold notifyPending; split <;> (try split) <;> (try split) <;> rfl
theorem np_pc (s : State) (j : Nat) :
    (notifyPending s j).pc = (s.callers j).pc ∨
    ∃ sid a, (s.callers j).pc = .parked sid a ∧ (notifyPending s j).pc = .parked sid true := by
  unfold notifyPending
  split
  · rename_i sid a hp
    split
    · split
      · exact Or.inr ⟨sid, a, hp, rfl⟩
      · exact Or.inl rfl
    · exact Or.inl rfl
  · exact Or.inl rfl
theorem np_att (s : State) (j : Nat) : att (notifyPending s j).pc = att (s.callers j).pc := by
  rcases np_pc s j with h | ⟨sid, a, h1, h2⟩
  · rw [h]
  · rw [h1, h2]; rfl
theorem np_holds (s : State) (j : Nat) : holds (notifyPending s j).pc = holds (s.callers j).pc := by
  rcases np_pc s j with h | ⟨sid, a, h1, h2⟩
  · rw [h]
  · rw [h1, h2]; rfl
theorem np_waiting (s : State) (j : Nat) : waiting (notifyPending s j).pc = waiting (s.callers j).pc := by
  rcases np_pc s j with h | ⟨sid, a, h1, h2⟩
  · rw [h]
  · rw [h1, h2]; rfl
theorem np_leaving (s : State) (j : Nat) : leaving (notifyPending s j).pc = leaving (s.callers j).pc := by
  rcases np_pc s j with h | ⟨sid, a, h1, h2⟩
  · rw [h]
  · rw [h1, h2]; rfl
theorem np_connected (s : State) (j sid : Nat) : (notifyPending s j).pc = .connected sid ↔ (s.callers j).pc = .connected sid := by
  rcases np_pc s j with h | ⟨sid', a, h1, h2⟩
  · rw [h]
  · rw [h1, h2]; simp
theorem np_relock (s : State) (j sid : Nat) : (notifyPending s j).pc = .relock sid ↔ (s.callers j).pc = .relock sid := by
  rcases np_pc s j with h | ⟨sid', a, h1, h2⟩
  · rw [h]
  · rw [h1, h2]; simp
theorem np_parked (s : State) (j sid : Nat) (a : Bool) (hp : (notifyPending s j).pc = .parked sid a) :
    ∃ a', (s.callers j).pc = .parked sid a' := by
  rcases np_pc s j with h | ⟨sid', a', h1, h2⟩
  · exact ⟨a, by rw [← h]; exact hp⟩
  · rw [h2] at hp; cases hp; exact ⟨a', h1⟩
theorem np_parked_of (s : State) (j sid : Nat) (a : Bool) (hp : (s.callers j).pc = .parked sid a) :
    ∃ a', (notifyPending s j).pc = .parked sid a' := by
  rcases np_pc s j with h | ⟨sid', a', h1, h2⟩
  · exact ⟨a, by rw [h]; exact hp⟩
  · rw [h1] at hp; cases hp; exact ⟨true, h2⟩
/-- a caller still parked with `awake = false` after the fence's notify has no record of its own -/
theorem np_asleep (s : State) (j sid : Nat) (hp : (notifyPending s j).pc = .parked sid false) :
    (s.callers j).pc = .parked sid false ∧ ∀ p, s.pend sid = some p → p.owner ≠ j := by
  unfold notifyPending at hp
  split at hp
  · rename_i sid' a hpc
    split at hp
    · rename_i p hpend
      split at hp
      · cases hp
      · rw [hpc] at hp; cases hp
        refine ⟨hpc, ?_⟩
        intro p' hp'; rw [hpend] at hp'; cases hp'; assumption
    · rename_i hpend
      rw [hpc] at hp; cases hp
      refine ⟨hpc, ?_⟩
      intro p' hp'; rw [hpend] at hp'; cases hp'
  · exact absurd hp (by intro hp; simp_all)

/-! ## the work-horse: `grind` with the model's update functions and pc classifiers -/
syntax "inv_grind" (" [" Lean.Parser.Tactic.grindParam,* "]")? : tactic
macro_rules
  | `(tactic| inv_grind) =>
    `(tactic| grind [setC, setP, setE, att, holds, waiting, leaving, att_of_waiting, att_of_leaving])
  | `(tactic| inv_grind [$ps,*]) =>
    `(tactic| grind [setC, setP, setE, att, holds, waiting, leaving, att_of_waiting, att_of_leaving, $ps,*])

/-- same, for states built with `ret` -/
syntax "ret_grind" (" [" Lean.Parser.Tactic.grindParam,* "]")? : tactic
macro_rules
  | `(tactic| ret_grind) =>
    `(tactic| inv_grind [att_retPc, holds_retPc, waiting_retPc, leaving_retPc, mem_retEvs, retPc_cases])
  | `(tactic| ret_grind [$ps,*]) =>
    `(tactic| inv_grind [att_retPc, holds_retPc, waiting_retPc, leaving_retPc, mem_retEvs, retPc_cases, $ps,*])

end Iora.ConnectSync
