import IoraModel.Model.WsFrame
set_option linter.unusedSimpArgs false
set_option linter.unusedVariables false
/-! `isValidUtf8` (the model of `WebSocketFrame::isValidUtf8`) against an independent definition of well-formed
UTF-8: Table 3-7 of the Unicode Standard / RFC 3629 §4, one constructor per table row. -/
namespace Iora.Ws
open Iora

def inR (lo hi : Nat) (x : UInt8) : Prop := lo ≤ x.toNat ∧ x.toNat ≤ hi

/-- Well-formed UTF-8 byte sequences (Unicode Table 3-7). -/
inductive Utf8 : Bytes → Prop where
  | nil : Utf8 []
  | ascii (a : UInt8) (r : Bytes) : inR 0x00 0x7F a → Utf8 r → Utf8 (a :: r)
  | two (a b : UInt8) (r : Bytes) : inR 0xC2 0xDF a → inR 0x80 0xBF b → Utf8 r → Utf8 (a :: b :: r)
  | threeE0 (a b c : UInt8) (r : Bytes) : inR 0xE0 0xE0 a → inR 0xA0 0xBF b → inR 0x80 0xBF c → Utf8 r → Utf8 (a :: b :: c :: r)
  | threeE1 (a b c : UInt8) (r : Bytes) : inR 0xE1 0xEC a → inR 0x80 0xBF b → inR 0x80 0xBF c → Utf8 r → Utf8 (a :: b :: c :: r)
  | threeED (a b c : UInt8) (r : Bytes) : inR 0xED 0xED a → inR 0x80 0x9F b → inR 0x80 0xBF c → Utf8 r → Utf8 (a :: b :: c :: r)
  | threeEE (a b c : UInt8) (r : Bytes) : inR 0xEE 0xEF a → inR 0x80 0xBF b → inR 0x80 0xBF c → Utf8 r → Utf8 (a :: b :: c :: r)
  | fourF0 (a b c d : UInt8) (r : Bytes) : inR 0xF0 0xF0 a → inR 0x90 0xBF b → inR 0x80 0xBF c → inR 0x80 0xBF d → Utf8 r →
      Utf8 (a :: b :: c :: d :: r)
  | fourF1 (a b c d : UInt8) (r : Bytes) : inR 0xF1 0xF3 a → inR 0x80 0xBF b → inR 0x80 0xBF c → inR 0x80 0xBF d → Utf8 r →
      Utf8 (a :: b :: c :: d :: r)
  | fourF4 (a b c d : UInt8) (r : Bytes) : inR 0xF4 0xF4 a → inR 0x80 0x8F b → inR 0x80 0xBF c → inR 0x80 0xBF d → Utf8 r →
      Utf8 (a :: b :: c :: d :: r)

theorem isCont_iff (x : UInt8) : isCont x = true ↔ inR 0x80 0xBF x := by
  have := x.toNat_lt
  simp only [isCont, inR, decide_eq_true_eq]
  omega

theorem isValidUtf8_nil : isValidUtf8 [] = true := by rw [isValidUtf8]

theorem isValidUtf8_cons (c : UInt8) (t : Bytes) :
    isValidUtf8 (c :: t) = (match utf8Step (c :: t) with | none => false | some r => isValidUtf8 r) := by
  rw [isValidUtf8]
  split <;> rename_i h <;> simp [h]

/-- one accepted step of the validator consumes exactly one well-formed scalar value -/
theorem utf8Step_sound (c : UInt8) (t r : Bytes) (h : utf8Step (c :: t) = some r) (hr : Utf8 r) : Utf8 (c :: t) := by
  have hc := c.toNat_lt
  simp only [utf8Step] at h
  split at h
  · cases h; exact .ascii c _ ⟨by omega, by omega⟩ hr
  · split at h
    · -- two bytes
      match t, h with
      | x1 :: r', h =>
        simp only at h
        split at h; · cases h
        split at h; · cases h
        cases h
        rename_i h1 h2
        have := (isCont_iff x1).mp (by simpa using h1)
        exact .two c x1 _ ⟨by omega, by omega⟩ this hr
    · split at h
      · match t, h with
        | [x1], h => simp at h
        | x1 :: x2 :: r', h =>
          simp only at h
          split at h; · cases h
          split at h; · cases h
          split at h; · cases h
          cases h
          rename_i h1 h2 h3
          simp only [Bool.or_eq_true, Bool.not_eq_eq_eq_not, Bool.not_true, not_or, Bool.not_eq_false] at h1
          have c1 := (isCont_iff x1).mp h1.1
          have c2 := (isCont_iff x2).mp h1.2
          simp only [Bool.and_eq_true, decide_eq_true_eq, not_and, Nat.not_lt, Nat.not_le] at h2 h3
          have hx1 := c1.1; have hx1' := c1.2
          by_cases e0 : c.toNat = 0xE0
          · exact .threeE0 c x1 x2 _ ⟨by omega, by omega⟩ ⟨h2 e0, hx1'⟩ c2 hr
          · by_cases ed : c.toNat = 0xED
            · exact .threeED c x1 x2 _ ⟨by omega, by omega⟩ ⟨hx1, by have := h3 ed; omega⟩ c2 hr
            · by_cases ee : c.toNat ≥ 0xEE
              · exact .threeEE c x1 x2 _ ⟨by omega, by omega⟩ c1 c2 hr
              · exact .threeE1 c x1 x2 _ ⟨by omega, by omega⟩ c1 c2 hr
      · split at h
        · match t, h with
          | [x1], h => simp at h
          | [x1, x2], h => simp at h
          | x1 :: x2 :: x3 :: r', h =>
            simp only at h
            split at h; · cases h
            split at h; · cases h
            split at h; · cases h
            cases h
            rename_i h1 h2 h3
            simp only [Bool.or_eq_true, Bool.not_eq_eq_eq_not, Bool.not_true, not_or, Bool.not_eq_false] at h1
            have c1 := (isCont_iff x1).mp h1.1.1
            have c2 := (isCont_iff x2).mp h1.1.2
            have c3 := (isCont_iff x3).mp h1.2
            simp only [Bool.and_eq_true, Bool.or_eq_true, decide_eq_true_eq, not_and, not_or, Nat.not_lt, Nat.not_le] at h2 h3
            have hx1 := c1.1; have hx1' := c1.2
            by_cases f0 : c.toNat = 0xF0
            · exact .fourF0 c x1 x2 x3 _ ⟨by omega, by omega⟩ ⟨h2 f0, hx1'⟩ c2 c3 hr
            · by_cases f4 : c.toNat = 0xF4
              · exact .fourF4 c x1 x2 x3 _ ⟨by omega, by omega⟩ ⟨hx1, by have := h3.2 f4; omega⟩ c2 c3 hr
              · exact .fourF1 c x1 x2 x3 _ ⟨by have := h3.1; omega, by have := h3.1; omega⟩ c1 c2 c3 hr
        · cases h

end Iora.Ws

namespace Iora.Ws
open Iora

theorem isCont_of (x : UInt8) (h : inR 0x80 0xBF x) : isCont x = true := (isCont_iff x).mpr h

/-- soundness: whatever the validator accepts is well-formed UTF-8 -/
theorem isValidUtf8_sound : ∀ (n : Nat) (d : Bytes), d.length ≤ n → isValidUtf8 d = true → Utf8 d := by
  intro n
  induction n with
  | zero =>
    intro d hl _
    have : d = [] := List.eq_nil_of_length_eq_zero (by omega)
    subst this; exact .nil
  | succ n ih =>
    intro d hl h
    match d with
    | [] => exact .nil
    | c :: t =>
      rw [isValidUtf8_cons] at h
      cases hs : utf8Step (c :: t) with
      | none => simp [hs] at h
      | some r =>
        simp only [hs] at h
        have hlt := utf8Step_length (c :: t) r (by simp) hs
        exact utf8Step_sound c t r hs (ih r (by simp at hl hlt; omega) h)

/-- completeness: every well-formed UTF-8 string is accepted -/
theorem isValidUtf8_complete (d : Bytes) (h : Utf8 d) : isValidUtf8 d = true := by
  induction h with
  | nil => exact isValidUtf8_nil
  | ascii a r ha _ ih =>
    rw [isValidUtf8_cons]
    have : utf8Step (a :: r) = some r := by
      simp only [utf8Step]; simp [ha.2]
    simp [this, ih]
  | two a b r ha hb _ ih =>
    rw [isValidUtf8_cons]
    obtain ⟨a1, a2⟩ := ha
    have : utf8Step (a :: b :: r) = some r := by
      simp only [utf8Step]
      simp [isCont_of b hb, show ¬ a.toNat ≤ 0x7F by omega, show a.toNat / 32 = 6 by omega, show ¬ a.toNat < 0xC2 by omega]
    simp [this, ih]
  | threeE0 a b c r ha hb hc _ ih =>
    rw [isValidUtf8_cons]
    obtain ⟨a1, a2⟩ := ha; obtain ⟨b1, b2⟩ := hb
    have : utf8Step (a :: b :: c :: r) = some r := by
      simp only [utf8Step]
      simp [isCont_of b ⟨by omega, by omega⟩, isCont_of c hc, show ¬ a.toNat ≤ 0x7F by omega, show ¬ a.toNat / 32 = 6 by omega,
        show a.toNat / 16 = 14 by omega, show ¬ b.toNat < 0xA0 by omega, show ¬ a.toNat = 0xED by omega]
    simp [this, ih]
  | threeE1 a b c r ha hb hc _ ih =>
    rw [isValidUtf8_cons]
    obtain ⟨a1, a2⟩ := ha
    have : utf8Step (a :: b :: c :: r) = some r := by
      simp only [utf8Step]
      simp [isCont_of b hb, isCont_of c hc, show ¬ a.toNat ≤ 0x7F by omega, show ¬ a.toNat / 32 = 6 by omega,
        show a.toNat / 16 = 14 by omega, show ¬ a.toNat = 0xE0 by omega, show ¬ a.toNat = 0xED by omega]
    simp [this, ih]
  | threeED a b c r ha hb hc _ ih =>
    rw [isValidUtf8_cons]
    obtain ⟨a1, a2⟩ := ha; obtain ⟨b1, b2⟩ := hb
    have : utf8Step (a :: b :: c :: r) = some r := by
      simp only [utf8Step]
      simp [isCont_of b ⟨by omega, by omega⟩, isCont_of c hc, show ¬ a.toNat ≤ 0x7F by omega, show ¬ a.toNat / 32 = 6 by omega,
        show a.toNat / 16 = 14 by omega, show ¬ a.toNat = 0xE0 by omega, show ¬ b.toNat ≥ 0xA0 by omega]
    simp [this, ih]
  | threeEE a b c r ha hb hc _ ih =>
    rw [isValidUtf8_cons]
    obtain ⟨a1, a2⟩ := ha
    have : utf8Step (a :: b :: c :: r) = some r := by
      simp only [utf8Step]
      simp [isCont_of b hb, isCont_of c hc, show ¬ a.toNat ≤ 0x7F by omega, show ¬ a.toNat / 32 = 6 by omega,
        show a.toNat / 16 = 14 by omega, show ¬ a.toNat = 0xE0 by omega, show ¬ a.toNat = 0xED by omega]
    simp [this, ih]
  | fourF0 a b c d r ha hb hc hd _ ih =>
    rw [isValidUtf8_cons]
    obtain ⟨a1, a2⟩ := ha; obtain ⟨b1, b2⟩ := hb
    have : utf8Step (a :: b :: c :: d :: r) = some r := by
      simp only [utf8Step]
      simp [isCont_of b ⟨by omega, by omega⟩, isCont_of c hc, isCont_of d hd, show ¬ a.toNat ≤ 0x7F by omega,
        show ¬ a.toNat / 32 = 6 by omega, show ¬ a.toNat / 16 = 14 by omega, show a.toNat / 8 = 30 by omega,
        show ¬ b.toNat < 0x90 by omega, show ¬ a.toNat > 0xF4 by omega, show ¬ a.toNat = 0xF4 by omega]
    simp [this, ih]
  | fourF1 a b c d r ha hb hc hd _ ih =>
    rw [isValidUtf8_cons]
    obtain ⟨a1, a2⟩ := ha
    have : utf8Step (a :: b :: c :: d :: r) = some r := by
      simp only [utf8Step]
      simp [isCont_of b hb, isCont_of c hc, isCont_of d hd, show ¬ a.toNat ≤ 0x7F by omega,
        show ¬ a.toNat / 32 = 6 by omega, show ¬ a.toNat / 16 = 14 by omega, show a.toNat / 8 = 30 by omega,
        show ¬ a.toNat = 0xF0 by omega, show ¬ a.toNat > 0xF4 by omega, show ¬ a.toNat = 0xF4 by omega]
    simp [this, ih]
  | fourF4 a b c d r ha hb hc hd _ ih =>
    rw [isValidUtf8_cons]
    obtain ⟨a1, a2⟩ := ha; obtain ⟨b1, b2⟩ := hb
    have : utf8Step (a :: b :: c :: d :: r) = some r := by
      simp only [utf8Step]
      simp [isCont_of b ⟨by omega, by omega⟩, isCont_of c hc, isCont_of d hd, show ¬ a.toNat ≤ 0x7F by omega,
        show ¬ a.toNat / 32 = 6 by omega, show ¬ a.toNat / 16 = 14 by omega, show a.toNat / 8 = 30 by omega,
        show ¬ a.toNat = 0xF0 by omega, show ¬ a.toNat > 0xF4 by omega, show ¬ b.toNat > 0x8F by omega]
    simp [this, ih]

theorem isValidUtf8_iff (d : Bytes) : isValidUtf8 d = true ↔ Utf8 d :=
  ⟨isValidUtf8_sound d.length d (Nat.le_refl _), isValidUtf8_complete d⟩

end Iora.Ws
