import IoraModel.Lemmas.TpQuiesce
import IoraModel.Lemmas.TpCount
/-!
# C09 — all invariants together, for every schedule
-/
namespace Iora.ThreadPool

theorem pollExit_nctor (sh : Shared) (r : MRegs) (k : Poll) (d : Bool) : ctorPc (pollExit sh r k d).2.1 = false := by
  unfold pollExit drainReturn; (repeat' split) <;> simp [ctorPc]
theorem pollHead_nctor (sh : Shared) (r : MRegs) (k : Poll) : ctorPc (pollHead sh r k).2.1 = false := by
  unfold pollHead; split
  · simp [ctorPc]
  · exact pollExit_nctor sh r k false
theorem stepMYield_nctor (sh : Shared) (r : MRegs) : ctorPc (stepMYield sh r).2.1 = false := by
  unfold stepMYield drainEnter; (repeat' split) <;> simp [ctorPc]
theorem drainReturn_nctor (sh : Shared) (r : MRegs) (b : Bool) : ctorPc (drainReturn sh r b).2.1 = false := by
  unfold drainReturn; (repeat' split) <;> simp [ctorPc]
theorem shutdownReturn_nctor (sh : Shared) (r : MRegs) : ctorPc (shutdownReturn sh r).2.1 = false := by
  unfold shutdownReturn; (repeat' split) <;> simp [ctorPc]
theorem dtorReturn_nctor (sh : Shared) (r : MRegs) : ctorPc (dtorReturn sh r).2.1 = false := by
  unfold dtorReturn; simp [ctorPc]

theorem nctor_ne_cC (pc : MPc) (h : ctorPc pc = false) : pc ≠ .cC := by
  intro e; rw [e] at h; simp [ctorPc] at h

/-- the controller reaches `cC` (thread creation in the constructor) only from `cL` -/
theorem transM_cC (cfg : Cfg) (sh : Shared) (n t : Nat) (pc : MPc) (r : MRegs) (alt : Nat)
    (h : (transM cfg sh n t pc r alt).2.1.1 = .cC) : pc = .cL := by
  cases pc with
  | cL => rfl
  | inCall c =>
    simp only [transM] at h
    cases hx : (callStep cfg sh n t c).2.1 <;> simp [hx] at h
  | mYield => simp only [transM] at h; exact absurd h (nctor_ne_cC _ (stepMYield_nctor sh r))
  | dInfU => simp only [transM] at h; exact absurd h (nctor_ne_cC _ (pollHead_nctor _ _ _))
  | pollZ k => simp only [transM] at h; exact absurd h (nctor_ne_cC _ (pollHead_nctor _ _ _))
  | p2Grace => simp only [transM] at h; exact absurd h (nctor_ne_cC _ (pollHead_nctor _ _ _))
  | p5U => simp only [transM] at h; exact absurd h (nctor_ne_cC _ (dtorReturn_nctor { sh with owner := none } r))
  | pollU k =>
    simp only [transM] at h; split at h
    · exact absurd h (nctor_ne_cC _ (pollExit_nctor _ _ _ _))
    · simp at h
  | finU k =>
    cases k <;> simp only [transM] at h
    · exact absurd h (nctor_ne_cC _ (drainReturn_nctor { sh with owner := none } r false))
    all_goals simp at h
  | sFlagUA =>
    simp only [transM] at h; split at h
    · exact absurd h (nctor_ne_cC _ (dtorReturn_nctor { sh with owner := none } r))
    · exact absurd h (nctor_ne_cC _ (shutdownReturn_nctor { sh with owner := none } r))
  | sBcast =>
    simp only [transM] at h; split at h
    · simp at h
    · exact absurd h (nctor_ne_cC _ (pollHead_nctor _ _ _))
  | sChkU =>
    simp only [transM] at h; split at h
    · exact absurd h (nctor_ne_cC _ (pollHead_nctor _ _ _))
    · simp at h
  | jUnone =>
    simp only [transM] at h; split at h
    · simp at h
    · exact absurd h (nctor_ne_cC _ (shutdownReturn_nctor { sh with owner := none } r))
  | p2Z =>
    simp only [transM] at h; split at h
    · simp at h
    · split at h
      · simp at h
      · exact absurd h (nctor_ne_cC _ (pollHead_nctor _ _ _))
  | _ => simp only [transM] at h <;> (repeat' split at h) <;> simp at h

theorem trans_cC (cfg : Cfg) (sh : Shared) (n t : Nat) (th : Thread) (alt : Nat) (r' : MRegs)
    (h : (trans cfg sh n t th alt).2.1 = .main .cC r') : ∃ r, th = .main .cL r := by
  cases th with
  | main pc r =>
    simp only [trans] at h
    injection h with h1 _
    exact ⟨r, by rw [transM_cC cfg sh n t pc r alt h1]⟩
  | sub x => simp [trans] at h
  | worker x => simp [trans] at h

/-- thread 0 is the controller and its state is consistent with the flags -/
def MainInv (s : St) : Prop := ∃ pc r, s.thr[0]? = some (.main pc r) ∧ MainOk s.sh pc

structure AllInv (s : St) : Prop where
  mutex : MutexOk s
  w : WInv s
  main : MainInv s
  q : QOk s

theorem mainOk_init (cfg : Cfg) : MainOk (init cfg).sh .start := by
  refine ⟨by simp [inShut, seqPc, qPc], by simp [qPc], by simp [init], by simp [init], by simp [init], by simp [init]⟩

theorem allInv_init (cfg : Cfg) : AllInv (init cfg) := by
  refine ⟨mutexOk_init cfg, winv_init cfg, ⟨.start, _, rfl, mainOk_init cfg⟩, ?_⟩
  intro h; simp [init] at h

theorem trans_flags_nonmain (cfg : Cfg) (sh : Shared) (n t : Nat) (th : Thread) (alt : Nat) (h : isMain th = false) :
    FlagsSame sh (trans cfg sh n t th alt).1 := by
  cases th with
  | main pc r => simp [isMain] at h
  | sub x => exact transS_flags cfg sh n t x
  | worker x => exact transW_flags cfg sh n t x

theorem main_not_asleep (x y : Thread) (h : isMain x = true) (hw : WokeFrom x y) : y = x := by
  rcases hw with e | ⟨ha, _⟩
  · exact e
  · cases x with
    | main pc r => simp [isAsleep] at ha
    | sub z => simp [isMain] at h
    | worker z => simp [isMain] at h

theorem allInv_step (cfg : Cfg) (hdet : cfg.detached = false) (hmax : 1 ≤ cfg.maxSize) (s : St) (c : Choice)
    (h : AllInv s) : AllInv (step cfg s c) := by
  obtain ⟨pc0, r0, hm0, hmok⟩ := h.main
  have hqs : s.sh.quiesced = true → s.sh.shutdown = true := hmok.qs
  have main_is_0 : ∀ (t : Nat) (th : Thread), s.thr[t]? = some th → isMain th = true → th = .main pc0 r0 := by
    intro t th hget hm
    have := h.w.oneMain t th hget hm
    rw [this, hm0] at hget
    exact (Option.some.inj hget).symm
  have hctor : ∀ (t : Nat) (th : Thread), s.thr[t]? = some th → ∀ r, th = .main .cL r → s.sh.quiesced = false := by
    intro t th hget r e
    have := main_is_0 t th hget (by rw [e]; rfl)
    rw [e] at this
    injection this with e1 _
    exact hmok.ctor (by rw [← e1]; rfl)
  refine ⟨mutexOk_step cfg s c h.mutex, winv_step cfg hdet hmax s c h.mutex h.w, ?_, ?_⟩
  · -- the controller invariant
    apply step_cases cfg s c MainInv
    · exact h.main
    · intro t th b hget ha
      have ne : 0 ≠ t := by
        intro e; rw [← e, hm0] at hget
        have := Option.some.inj hget; rw [← this] at ha; simp [isAsleep] at ha
      exact ⟨pc0, r0, by simp only []; rw [getElem?_set_ne' s.thr t 0 _ ne]; exact hm0, hmok⟩
    · intro t th to late hget hw _
      have ne : 0 ≠ t := by
        intro e; rw [← e, hm0] at hget
        have := Option.some.inj hget; rw [← this] at hw; simp [wokenBy] at hw
      exact ⟨pc0, r0, by simp only []; rw [getElem?_set_ne' s.thr t 0 _ ne]; exact hm0,
        mainOk_of_flags hmok (reacq_flags cfg s.sh t late)⟩
    · intro t th alt l hget _ _ _ _ hp
      have hts := threadsStep_of_run cfg s t th alt l hget hp
      by_cases e : t = 0
      · rw [e, hm0] at hget
        have e2 : Thread.main pc0 r0 = th := Option.some.inj hget
        rw [e] at hts
        rw [← e2] at hts ⊢
        rw [e]
        refine ⟨_, _, hts.self, ?_⟩
        exact transM_mainOk cfg s.sh s.thr.length 0 pc0 r0 alt hmok
      · have hnm : isMain th = false := by
          cases hm : isMain th with
          | false => rfl
          | true => exact absurd (h.w.oneMain t th hget hm) e
        obtain ⟨y, hy, hwf⟩ := hts.old 0 _ (fun e2 => e e2.symm) hm0
        rw [main_not_asleep _ y rfl hwf] at hy
        exact ⟨pc0, r0, hy, mainOk_of_flags hmok (trans_flags_nonmain cfg s.sh s.thr.length t th alt hnm)⟩
  · -- quiescence
    apply step_cases cfg s c QOk
    · exact h.q
    · intro t th b hget ha
      have hth : th = .worker .asleep := by
        cases th with
        | worker w => cases w <;> simp [isAsleep] at ha; rfl
        | main pc r => simp [isAsleep] at ha
        | sub x => simp [isAsleep] at ha
      exact qok_of_eff cfg s s.sh t th (wake th b) .none 0 _ h.w h.mutex h.q hget (by rw [hth]; rfl)
        (by rw [hth]; intro e; simp [locksM, locksW] at e) hqs (hctor t th hget)
        (by rw [hth]; intro r' e; simp [wake] at e)
        (.quiet (SameQ.rfl' _) (fun nt e => by cases e) (by rw [hth]; rfl) (by rw [hth]; rfl) (by simp) (by simp) (by simp) (by simp)
          (by rw [hth]; intro e; simp [wake] at e))
        (threadsStep_of_set s.thr t th _ hget) (fun nt e => by cases e)
    · intro t th to late hget hw ho
      have hth : th = .worker (.woken to) := by
        cases th with
        | worker w => cases w <;> simp [wokenBy] at hw; rw [hw]
        | main pc r => simp [wokenBy] at hw
        | sub x => simp [wokenBy] at hw
      have heff : StepEff cfg s.sh s.thr.length t th 0 (reacq cfg s.sh t late).1 (.worker (reacq cfg s.sh t late).2) .none := by
        rcases reacq_eff cfg s.sh t late with he | ⟨hq, hwr⟩
        · exact waitEff_lift cfg s.sh s.sh s.thr.length t 0 th _ _ (SameQ.rfl' _) he (by rw [hth]; exact ⟨rfl, rfl, rfl⟩)
            (by rw [hth]; rfl) (by rw [hth]; rfl)
        · rw [hwr]
          exact .quiet hq (fun nt e => by cases e) (by rw [hth]; rfl) rfl (by rw [hth]; rfl) (by rw [hth]; rfl) (by rw [hth]; rfl)
            (by rw [hth]; rfl) (by intro e; cases e)
      exact qok_of_eff cfg s _ t th _ .none 0 _ h.w h.mutex h.q hget (by rw [hth]; rfl)
        (by rw [hth]; intro e; simp [locksM, locksW] at e) hqs (hctor t th hget) (by intro r' e; cases e)
        heff (threadsStep_of_set s.thr t th _ hget) (fun nt e => by cases e)
    · intro t th alt l hget _ _ hf he hp
      exact qok_of_eff cfg s _ t th _ _ alt l h.w h.mutex h.q hget hf (enabled_locks s th he) hqs (hctor t th hget)
        (fun r' e => trans_cC cfg s.sh s.thr.length t th alt r' e)
        (trans_eff cfg s.sh s.thr.length t th alt) (threadsStep_of_run cfg s t th alt l hget hp)
        (fun nt e => trans_spawn cfg s.sh s.thr.length t th alt nt e)

theorem allInv_run (cfg : Cfg) (hdet : cfg.detached = false) (hmax : 1 ≤ cfg.maxSize) (sched : List Choice) :
    AllInv (run cfg sched) :=
  inv_run cfg AllInv (allInv_init cfg) (fun s c h => allInv_step cfg hdet hmax s c h) sched

end Iora.ThreadPool
