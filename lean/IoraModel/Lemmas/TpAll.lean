import IoraModel.Lemmas.TpQuiesce
import IoraModel.Lemmas.TpCount
/-!
# C09 — all invariants together, for every schedule (any number of controller threads)
-/
namespace Iora.ThreadPool

theorem pollExit_nctor (sh : Shared) (r : MRegs) (k : Poll) (d : Bool) : ctorPc (pollExit sh r k d).2.1 = false := by
  unfold pollExit drainReturn; (repeat' split) <;> simp [ctorPc]
theorem pollHead_nctor (sh : Shared) (r : MRegs) (k : Poll) : ctorPc (pollHead sh r k).2.1 = false := by
  unfold pollHead; split
  · simp [ctorPc]
  · exact pollExit_nctor sh r k false
theorem stepMYield_nctor (cfg : Cfg) (sh : Shared) (r : MRegs) : ctorPc (stepMYield cfg sh r).2.1 = false := by
  unfold stepMYield drainEnter; (repeat' split) <;> simp [ctorPc]
theorem drainReturn_nctor (sh : Shared) (r : MRegs) (b : Bool) : ctorPc (drainReturn sh r b).2.1 = false := by
  unfold drainReturn; (repeat' split) <;> simp [ctorPc]
theorem shutdownReturn_nctor (sh : Shared) (r : MRegs) : ctorPc (shutdownReturn sh r).2.1 = false := by
  unfold shutdownReturn; (repeat' split) <;> simp [ctorPc]
theorem dtorReturn_nctor (sh : Shared) (r : MRegs) : ctorPc (dtorReturn sh r).2.1 = false := by
  unfold dtorReturn; simp [ctorPc]
theorem dtorEarly_nctor (sh : Shared) (r : MRegs) : ctorPc (dtorEarly sh r).2.1 = false := by
  unfold dtorEarly; split
  · exact dtorReturn_nctor sh r
  · simp [ctorPc]

structure AllInv (s : St) : Prop where
  mutex : MutexOk s
  c : CInv s
  w : WInv s
  q : QOk s

theorem allInv_init (cfg : Cfg) : AllInv (init cfg) := by
  refine ⟨mutexOk_init cfg, cinv_init cfg, winv_init cfg, ?_⟩
  intro h; simp [init] at h

theorem allInv_step (cfg : Cfg) (hdet : cfg.detached = false) (hr : cfg.allowRestart = false) (s : St) (c : Choice)
    (h : AllInv s) : AllInv (step cfg s c) := by
  have hqs : s.sh.quiesced = true → s.sh.shutdown = true := h.c.gok.qs
  have hcq : ∀ (t : Nat) (th : Thread), s.thr[t]? = some th → ∀ r, th = .main .cC r → s.sh.quiesced = false := by
    intro t th hget r e
    rw [e] at hget
    exact ((h.c.cok t .cC r hget).ctor (by simp [ctorPc])).2
  have hnotgt : ∀ (t : Nat) (th : Thread), s.thr[t]? = some th → ∀ r, th = .main .jL r →
      ∀ (j : Nat) (x : Thread) (w : Tid), s.thr[j]? = some x → targetOf x ≠ some w := by
    intro t th hget r e j x w hx htg
    -- a thread with a join target owns the shutdown, and so does the acting thread at `jL`: they are the same thread
    cases x with
    | main pc rx =>
      have ho : ownsPc pc = true := by cases pc <;> simp [targetOf] at htg <;> simp [ownsPc, seqPc]
      rw [e] at hget
      have := h.c.oneOwner j t pc .jL rx r hx hget ho (by simp [ownsPc, seqPc])
      rw [this, hget] at hx
      injection hx with hx; injection hx with e1 _
      rw [← e1] at htg; simp [targetOf] at htg
    | sub z => simp [targetOf] at htg
    | worker z => simp [targetOf] at htg
  refine ⟨mutexOk_step cfg s c h.mutex, cinv_step cfg hdet hr s c h.c, winv_step cfg s c h.mutex h.c h.w, ?_⟩
  apply step_cases cfg s c QOk
  · exact h.q
  · intro t th b hget ha
    have hth : th = .worker .asleep := by
      cases th with
      | worker w => cases w <;> simp [isAsleep] at ha; rfl
      | main pc r => simp [isAsleep] at ha
      | sub x => simp [isAsleep] at ha
    exact qok_of_eff cfg s s.sh t th (wake th b) .none 0 _ h.w h.mutex h.q hget (by rw [hth]; rfl)
      (by rw [hth]; intro e; simp [locksM, locksW] at e) hqs (hcq t th hget) (hnotgt t th hget) (by rw [hth]; rfl)
      (.quiet (SameQ.rfl' _) (fun nt e => by cases e) (by rw [hth]; rfl) (by rw [hth]; rfl) (by simp) (by simp) (by simp) (by simp)
        (by rw [hth]; intro e; simp [wake] at e))
      (threadsStep_of_set s.thr t th _ hget) (fun nt e => by cases e)
  · intro t th to late hget hw ho
    have hth : th = .worker (.woken to) := by
      cases th with
      | worker w => cases w <;> simp [wokenBy] at hw; rw [hw]
      | main pc r => simp [wokenBy] at hw
      | sub x => simp [wokenBy] at hw
    have heff : StepEff cfg s.sh s.thr.length t th 0 (reacq cfg s.sh t late).1 (.worker (reacq cfg s.sh t late).2) .none := by
      rcases reacq_eff cfg s.sh t late with he | ⟨hq, hwr⟩
      · exact waitEff_lift cfg s.sh s.sh s.thr.length t 0 th _ _ (SameQ.rfl' _) he (by rw [hth]; exact ⟨rfl, rfl, rfl⟩)
          (by rw [hth]; rfl) (by rw [hth]; rfl)
      · rw [hwr]
        exact .quiet hq (fun nt e => by cases e) (by rw [hth]; rfl) rfl (by rw [hth]; rfl) (by rw [hth]; rfl) (by rw [hth]; rfl)
          (by rw [hth]; rfl) (by intro e; cases e)
    exact qok_of_eff cfg s _ t th _ .none 0 _ h.w h.mutex h.q hget (by rw [hth]; rfl)
      (by rw [hth]; intro e; simp [locksM, locksW] at e) hqs (hcq t th hget) (hnotgt t th hget) (by rw [hth]; rfl)
      heff (threadsStep_of_set s.thr t th _ hget) (fun nt e => by cases e)
  · intro t th alt l hget _ _ hf he hp
    exact qok_of_eff cfg s _ t th _ _ alt l h.w h.mutex h.q hget hf (enabled_locks s th he) hqs (hcq t th hget) (hnotgt t th hget)
      (h.c.nors t th hget)
      (trans_eff cfg s.sh s.thr.length t th alt) (threadsStep_of_run cfg s t th alt l hget hp)
      (fun nt e => trans_spawn cfg s.sh s.thr.length t th alt nt e)

theorem allInv_run (cfg : Cfg) (hdet : cfg.detached = false) (hr : cfg.allowRestart = false) (sched : List Choice) :
    AllInv (run cfg sched) :=
  inv_run cfg AllInv (allInv_init cfg) (fun s c h => allInv_step cfg hdet hr s c h) sched

end Iora.ThreadPool
