import IoraModel.Lemmas.Xml
set_option linter.unusedSimpArgs false
set_option linter.unusedVariables false
/-!
The explicit tokenizer of `Model/Xml.lean` (every read a partial function, every guard the C++ comparison) equals its closed
form (`Lemmas/XmlClosed.lean`), function by function.  A guard dropped from an explicit function makes its read return `none`
at the end of the input, hence `bad oob`, and the corresponding equation here stops being provable.
-/
namespace Iora.Xml
open Iora

/-! ### the reads are indexed reads of the input, the guards comparisons with its size -/

theorem Cur.at_eq_get {bs : Bytes} {c : Cur} (h : c.At bs) (i : Nat) : c.at i = bs[c.pos + i]? := by
  simp [Cur.at, h.2]

theorem Cur.peek_eq_at (c : Cur) : c.peek = c.at 0 := by
  simp [Cur.peek, Cur.at, List.head?_eq_getElem?]

theorem Cur.beyond_iff {bs : Bytes} {c : Cur} (h : c.At bs) (i : Nat) : c.beyond i = true ↔ bs.length ≤ c.pos + i := by
  have := h.total
  simp only [Cur.beyond, List.isEmpty_iff, List.drop_eq_nil_iff]
  omega

theorem Cur.eof_iff {bs : Bytes} {c : Cur} (h : c.At bs) : c.eof = true ↔ bs.length ≤ c.pos := by
  have := h.total
  simp only [Cur.eof, List.isEmpty_iff]
  constructor
  · intro h0; rw [h0] at this; simp at this; omega
  · intro h0; apply List.eq_nil_of_length_eq_zero; omega

/-! ### cursor steps -/

/-- the cursor after `advance()` over the byte `ch` -/
def Cur.stepTo (c : Cur) (ch : UInt8) (r : Bytes) : Cur :=
  if ch = 10 then ⟨c.pos + 1, c.line + 1, 1, r⟩ else ⟨c.pos + 1, c.line, c.col + 1, r⟩

@[simp] theorem Cur.stepTo_rest (c : Cur) (ch : UInt8) (r : Bytes) : (c.stepTo ch r).rest = r := by
  unfold Cur.stepTo; split <;> rfl

theorem Cur.adv_cons {c : Cur} {ch : UInt8} {r : Bytes} (h : c.rest = ch :: r) : c.adv = some (c.stepTo ch r) := by
  unfold Cur.adv Cur.stepTo; rw [h]

theorem advR_zero (c : Cur) : advR 0 c = .ok () c := by simp [advR, advN]

theorem advR_succ {c : Cur} {ch : UInt8} {r : Bytes} (h : c.rest = ch :: r) (k : Nat) :
    advR (k + 1) c = advR k (c.stepTo ch r) := by
  simp [advR, advN, Cur.adv_cons h]

theorem advR_nil {c : Cur} (h : c.rest = []) (k : Nat) : advR (k + 1) c = .bad .oob := by
  simp [advR, advN, Cur.adv, h]

/-! ### loops -/

theorem advWhile_eq (p : UInt8 → Bool) : ∀ (fuel : Bytes) (c : Cur), c.rest.length ≤ fuel.length →
    advWhile p fuel c = advR (spanLen p c.rest) c := by
  intro fuel
  induction fuel with
  | nil =>
    intro c h
    have : c.rest = [] := List.eq_nil_of_length_eq_zero (by simpa using h)
    unfold advWhile
    simp [Cur.eof, this, spanLen, advR_zero]
  | cons f fuel ih =>
    intro c h
    unfold advWhile
    cases hr : c.rest with
    | nil => simp [Cur.eof, hr, spanLen, advR_zero]
    | cons ch r =>
      simp only [Cur.eof, hr, List.isEmpty_cons, Bool.false_eq_true, ↓reduceIte, Cur.peek, List.head?_cons, spanLen]
      by_cases hp : p ch = true
      · simp only [hp, ↓reduceIte, Cur.adv_cons hr]
        rw [ih _ (by rw [hr] at h; simpa using h), advR_succ hr]
        simp
      · simp only [hp, Bool.false_eq_true, ↓reduceIte, advR_zero]

theorem advWhile_self (p : UInt8 → Bool) (c : Cur) : advWhile p c.rest c = advR (spanLen p c.rest) c :=
  advWhile_eq p c.rest c (Nat.le_refl _)

theorem skipSpaces_eq (c : Cur) : skipSpaces c = skipSpacesC c := by
  unfold skipSpaces skipSpacesC; exact advWhile_self _ c

theorem wsScan_eq : ∀ (fuel : Bytes) (l : Look), l.rest.length ≤ fuel.length →
    wsScan fuel l = .ok ⟨l.off + spanLen isSpace l.rest, l.rest.drop (spanLen isSpace l.rest)⟩ := by
  intro fuel
  induction fuel with
  | nil =>
    intro l h
    have : l.rest = [] := List.eq_nil_of_length_eq_zero (by simpa using h)
    unfold wsScan
    obtain ⟨off, rest⟩ := l
    simp only at this
    subst this
    simp [Look.atEnd, spanLen]
  | cons f fuel ih =>
    intro l h
    unfold wsScan
    obtain ⟨off, rest⟩ := l
    cases rest with
    | nil => simp [Look.atEnd, spanLen]
    | cons ch r =>
      simp only [Look.atEnd, List.isEmpty_cons, Bool.false_eq_true, ↓reduceIte, Look.read, List.head?_cons, spanLen]
      by_cases hp : isSpace ch = true
      · simp only [hp, ↓reduceIte, Look.next, List.tail_cons]
        rw [ih _ (by simpa using h)]
        simp [Nat.add_assoc, Nat.add_comm 1]
      · simp [hp]

theorem skipWs_eq (c : Cur) : skipWhitespaceOutsideText c = skipWhitespaceOutsideTextC c := by
  unfold skipWhitespaceOutsideText skipWhitespaceOutsideTextC
  rw [wsScan_eq c.rest (Look.start c) (Nat.le_refl _)]
  simp only [Look.start, Nat.zero_add, Look.atEnd, Look.read]
  cases hk : c.rest[spanLen isSpace c.rest]? with
  | none =>
    have : c.rest.drop (spanLen isSpace c.rest) = [] := by
      rw [List.drop_eq_nil_iff]; exact List.getElem?_eq_none_iff.mp hk
    simp [this]
  | some ch =>
    have : (c.rest.drop (spanLen isSpace c.rest)).head? = some ch := by rw [List.head?_drop]; exact hk
    cases hd : c.rest.drop (spanLen isSpace c.rest) with
    | nil => rw [hd] at this; simp at this
    | cons y ys =>
      rw [hd] at this
      simp only [List.head?_cons, Option.some.injEq] at this
      subst this
      simp

theorem list_cases (l : Bytes) : l = [] ∨ ∃ y ys, l = y :: ys := by cases l <;> simp

theorem drop_cons_at {r : Bytes} {i : Nat} {y : UInt8} {ys : Bytes} (h : r.drop i = y :: ys) :
    r[i]? = some y ∧ r.drop (i + 1) = ys := by
  constructor
  · have := List.head?_drop (l := r) (i := i)
    rw [h] at this; simpa using this.symm
  · have : r.drop (i + 1) = (r.drop i).drop 1 := by rw [List.drop_drop]
    rw [this, h]; simp

theorem matchLoop_eq (c : Cur) : ∀ (s : Bytes) (i : Nat), matchLoop c s i = .ok (startsWith s (c.rest.drop i)) := by
  intro s
  induction s with
  | nil => intro i; simp [matchLoop, startsWith]
  | cons x xs ih =>
    intro i
    simp only [matchLoop, Cur.beyond, Cur.at]
    rcases list_cases (c.rest.drop i) with hd | ⟨y, ys, hd⟩
    · simp [hd, startsWith]
    · obtain ⟨h1, h2⟩ := drop_cons_at hd
      simp only [hd, List.isEmpty_cons, Bool.false_eq_true, ↓reduceIte, h1, startsWith]
      by_cases hxy : y = x
      · subst hxy; simp [ih, h2]
      · have : ¬ (x = y) := fun h => hxy h.symm
        simp [hxy, this]

theorem matchString_eq (s : Bytes) (c : Cur) : matchString s c = matchStringC s c := by
  unfold matchString matchStringC
  rw [matchLoop_eq]
  simp only [List.drop_zero]
  cases startsWith s c.rest <;> simp

theorem matchLoopCI_eq (c : Cur) : ∀ (s : Bytes) (i : Nat), matchLoopCI c s i = .ok (startsWithCI s (c.rest.drop i)) := by
  intro s
  induction s with
  | nil => intro i; simp [matchLoopCI, startsWithCI]
  | cons x xs ih =>
    intro i
    simp only [matchLoopCI, Cur.beyond, Cur.at]
    rcases list_cases (c.rest.drop i) with hd | ⟨y, ys, hd⟩
    · simp [hd, startsWithCI]
    · obtain ⟨h1, h2⟩ := drop_cons_at hd
      simp only [hd, List.isEmpty_cons, Bool.false_eq_true, ↓reduceIte, h1, startsWithCI]
      by_cases hxy : lowerAscii y = lowerAscii x
      · simp [hxy, ih, h2]
      · simp [hxy]

theorem matchWordCI_eq (w : Bytes) (c : Cur) : matchWordCI w c = matchWordCIC w c := by
  unfold matchWordCI matchWordCIC
  rw [matchLoopCI_eq]
  simp only [List.drop_zero]
  cases startsWithCI w c.rest with
  | false => simp
  | true =>
    simp only [↓reduceIte, Cur.beyond, Cur.at]
    cases hk : c.rest[w.length]? with
    | none =>
      have : c.rest.drop w.length = [] := by
        rw [List.drop_eq_nil_iff]; exact List.getElem?_eq_none_iff.mp hk
      simp only [this, List.isEmpty_nil, ↓reduceIte]
      have e1 : isSpace 0 = false := by decide
      simp [e1]
    | some x =>
      have : c.rest.drop w.length ≠ [] := by
        intro h
        rw [List.drop_eq_nil_iff] at h
        have := List.getElem?_eq_none_iff.mpr h
        rw [this] at hk; cases hk
      rcases list_cases (c.rest.drop w.length) with hd | ⟨y, ys, hd⟩
      · exact (this hd).elim
      · simp [hd]

/-- one `advance()` then `k` more -/
theorem advR_one_bind {α : Type} {c : Cur} {ch : UInt8} {r : Bytes} (h : c.rest = ch :: r) (f : Bytes → Nat)
    (K : Unit → Cur → Res α) :
    ((advR 1 c).bind fun _ c0 => (advR (f c0.rest) c0).bind K) = (advR (1 + f r) c).bind K := by
  rw [Nat.add_comm, advR_succ h, advR_succ h, advR_zero]
  simp [Res.bind]

theorem readName_eq (o : Options) (c : Cur) : readName o c = readNameC o c := by
  unfold readName readNameC
  cases hr : c.rest with
  | nil => simp [Cur.eof, hr]
  | cons ch r =>
    simp only [Cur.eof, hr, List.isEmpty_cons, Bool.false_eq_true, ↓reduceIte, Cur.peek, List.head?_cons]
    split
    · rfl
    · simp only [advWhile_self]
      exact advR_one_bind hr (fun r => spanLen isNameChar r) _

theorem untilScan_eq (e : Bytes) : ∀ (fuel : Bytes) (l : Look), l.rest.length ≤ fuel.length →
    untilScan e fuel l = .ok ((findSub e l.rest).map fun k => ⟨l.off + k, l.rest.drop k⟩) := by
  intro fuel
  induction fuel with
  | nil =>
    intro l h
    obtain ⟨off, rest⟩ := l
    have : rest = [] := List.eq_nil_of_length_eq_zero (by simpa using h)
    subst this
    unfold untilScan
    simp [Look.atEnd, findSub]
  | cons f fuel ih =>
    intro l h
    obtain ⟨off, rest⟩ := l
    unfold untilScan
    cases rest with
    | nil => simp [Look.atEnd, findSub]
    | cons ch r =>
      simp only [Look.atEnd, List.isEmpty_cons, Bool.false_eq_true, ↓reduceIte, Look.read, List.head?_cons, findSub]
      by_cases hs : startsWith e (ch :: r) = true
      · simp [hs]
      · simp only [hs, Bool.false_eq_true, ↓reduceIte, Look.next, List.tail_cons]
        rw [ih _ (by simpa using h)]
        cases findSub e r with
        | none => simp
        | some k => simp [Nat.add_assoc, Nat.add_comm 1]

theorem readUntil_eq (e : Bytes) (c : Cur) : readUntil e c = readUntilC e c := by
  unfold readUntil readUntilC
  rw [untilScan_eq e c.rest (Look.start c) (Nat.le_refl _)]
  simp only [Look.start, Nat.zero_add]
  cases findSub e c.rest <;> simp

theorem readQuotedValue_eq (o : Options) (c : Cur) : readQuotedValue o c = readQuotedValueC o c := by
  unfold readQuotedValue readQuotedValueC
  cases hr : c.rest with
  | nil => simp [Cur.eof, hr]
  | cons q r =>
    simp only [Cur.eof, hr, List.isEmpty_cons, Bool.false_eq_true, ↓reduceIte, Cur.peek, List.head?_cons, advWhile_self]

theorem readAttributes_eq (o : Options) : ∀ (fuel : Bytes) (acc : List Attr) (c : Cur),
    readAttributes o fuel acc c = readAttributesC o fuel.length acc c := by
  intro fuel
  induction fuel with
  | nil => intro acc c; simp [readAttributes, readAttributesC]
  | cons f fuel ih =>
    intro acc c
    simp only [readAttributes, readAttributesC, List.length_cons, skipSpaces_eq]
    congr 1
    funext _ c1
    cases hr1 : c1.rest with
    | nil => simp [Cur.eof, hr1]
    | cons ch r =>
      simp only [Cur.eof, hr1, List.isEmpty_cons, Bool.false_eq_true, ↓reduceIte, Cur.peek, List.head?_cons, readName_eq]
      split
      · rfl
      · congr 1
        funext name c2
        cases name with
        | none => rfl
        | some nm =>
          simp only
          congr 1
          funext _ c3
          rcases list_cases c3.rest with hr3 | ⟨e, r3, hr3⟩
          · simp [Cur.eof, hr3]
          · simp only [Cur.eof, hr3, List.isEmpty_cons, Bool.false_eq_true, ↓reduceIte, Cur.peek, List.head?_cons,
              readQuotedValue_eq, ih]

/-! ### token readers -/

theorem findFrom_eq (pat : Bytes) : ∀ (r : Bytes) (i : Nat), findFrom pat i r = (findSub pat r).map (· + i) := by
  intro r
  induction r with
  | nil => intro i; simp [findFrom, findSub]
  | cons ch r ih =>
    intro i
    simp only [findFrom, findSub]
    split
    · simp
    · rw [ih]
      cases findSub pat r with
      | none => simp
      | some k => simp [Nat.add_assoc, Nat.add_comm 1]

theorem toStep_congr {α : Type} (r : Res α) (k k' : α → Cur → Step) (h : ∀ a c, k a c = k' a c) :
    r.toStep k = r.toStep k' := by
  have : k = k' := by funext a c; exact h a c
  rw [this]

theorem readPI_eq (o : Options) (s : St) (start c : Cur) : readPI o s start c = readPIC o s start c := by
  unfold readPI readPIC
  rw [readName_eq]
  apply toStep_congr
  intro target c1
  cases target with
  | none => rfl
  | some tg =>
    simp only [findFrom_eq]
    cases findSub [0x3F, 0x3E] c1.rest <;> simp

theorem readComment_eq (s : St) (start c : Cur) : readComment s start c = readCommentC s start c := by
  unfold readComment readCommentC; rw [readUntil_eq]; rfl

theorem readCData_eq (s : St) (start c : Cur) : readCData s start c = readCDataC s start c := by
  unfold readCData readCDataC; rw [readUntil_eq]; rfl

theorem doctypeLoop_eq : ∀ (fuel : Bytes) (l : Look) (b : Nat), l.rest.length ≤ fuel.length →
    doctypeLoop fuel l b = .ok (match doctypeScan l.rest b with
      | some k => ⟨l.off + k, l.rest.drop k⟩
      | none => ⟨l.off + l.rest.length, []⟩) := by
  intro fuel
  induction fuel with
  | nil =>
    intro l b h
    obtain ⟨off, rest⟩ := l
    have : rest = [] := List.eq_nil_of_length_eq_zero (by simpa using h)
    subst this
    unfold doctypeLoop
    simp [Look.atEnd, doctypeScan]
  | cons f fuel ih =>
    intro l b h
    obtain ⟨off, rest⟩ := l
    unfold doctypeLoop
    cases rest with
    | nil => simp [Look.atEnd, doctypeScan]
    | cons ch r =>
      have hlen : r.length ≤ fuel.length := by simpa using h
      simp only [Look.atEnd, List.isEmpty_cons, Bool.false_eq_true, ↓reduceIte, Look.read, List.head?_cons, doctypeScan,
        Look.next, List.tail_cons]
      split
      · rw [ih _ _ hlen]
        cases doctypeScan r (b + 1) with
        | none => simp [Nat.add_assoc, Nat.add_comm 1]
        | some k => simp [Nat.add_assoc, Nat.add_comm 1]
      · split
        · have hb : (if b > 0 then b - 1 else b) = b - 1 := by split <;> omega
          rw [ih _ _ hlen, hb]
          cases doctypeScan r (b - 1) with
          | none => simp [Nat.add_assoc, Nat.add_comm 1]
          | some k => simp [Nat.add_assoc, Nat.add_comm 1]
        · split
          · simp
          · rw [ih _ _ hlen]
            cases doctypeScan r b with
            | none => simp [Nat.add_assoc, Nat.add_comm 1]
            | some k => simp [Nat.add_assoc, Nat.add_comm 1]

theorem readDoctype_eq (s : St) (start c : Cur) : readDoctype s start c = readDoctypeC s start c := by
  unfold readDoctype readDoctypeC
  rw [doctypeLoop_eq c.rest (Look.start c) 0 (Nat.le_refl _)]
  simp only [Look.start, Nat.zero_add]
  cases hk : doctypeScan c.rest 0 with
  | none => simp [Look.atEnd]
  | some k =>
    have := doctypeScan_bound _ _ _ hk
    have hne : c.rest.drop k ≠ [] := by
      intro h; rw [List.drop_eq_nil_iff] at h; omega
    rcases list_cases (c.rest.drop k) with hd | ⟨y, ys, hd⟩
    · exact (hne hd).elim
    · simp [Look.atEnd, hd]

theorem readEndTag_eq (o : Options) (s : St) (start c : Cur) : readEndTag o s start c = readEndTagC o s start c := by
  unfold readEndTag readEndTagC
  rw [readName_eq]
  apply toStep_congr
  intro name c1
  cases name with
  | none => rfl
  | some nm =>
    simp only [skipSpaces_eq]
    apply toStep_congr
    intro _ c2
    rcases list_cases c2.rest with hr | ⟨g, r, hr⟩
    · simp [Cur.eof, hr]
    · simp only [Cur.eof, Cur.peek, hr, List.isEmpty_cons, Bool.false_eq_true, ↓reduceIte, List.head?_cons]
      rfl

theorem readStartOrEmptyTag_eq (o : Options) (s : St) (start c : Cur) :
    readStartOrEmptyTag o s start c = readStartOrEmptyTagC o s start c := by
  unfold readStartOrEmptyTag readStartOrEmptyTagC
  rw [readName_eq]
  apply toStep_congr
  intro name c1
  cases name with
  | none => rfl
  | some nm =>
    simp only [readAttributes_eq, List.length_cons]
    apply toStep_congr
    intro attrs c2
    rcases list_cases c2.rest with hr | ⟨p, r, hr⟩
    · simp [Cur.peek, hr]
    · simp only [Cur.peek, hr, List.head?_cons]
      apply toStep_congr
      intro _ c3
      rcases list_cases c3.rest with hr3 | ⟨g, r3, hr3⟩
      · simp [Cur.eof, hr3]
      · simp only [Cur.eof, Cur.peek, hr3, List.isEmpty_cons, Bool.false_eq_true, ↓reduceIte, List.head?_cons]

/-- closed form of the `readText` loop entered after `j` bytes of the span have been consumed -/
theorem textLoop_eq (o : Options) (start : Nat) : ∀ (fuel : Bytes) (c : Cur) (j : Nat), c.rest.length ≤ fuel.length →
    c.pos = start + j →
    textLoop o start fuel c =
      if 0 < spanLen notLt c.rest ∧ j + spanLen notLt c.rest > o.maxText then
        (advR (o.maxText - j) c).bind fun _ c' => .fail .textTooLarge c'
      else advR (spanLen notLt c.rest) c := by
  intro fuel
  induction fuel with
  | nil =>
    intro c j h _
    have : c.rest = [] := List.eq_nil_of_length_eq_zero (by simpa using h)
    unfold textLoop
    simp [Cur.eof, this, spanLen, advR_zero]
  | cons f fuel ih =>
    intro c j h hpos
    unfold textLoop
    rcases list_cases c.rest with hr | ⟨ch, r, hr⟩
    · simp [Cur.eof, hr, spanLen, advR_zero]
    · simp only [Cur.eof, hr, List.isEmpty_cons, Bool.false_eq_true, ↓reduceIte, Cur.peek, List.head?_cons, spanLen]
      by_cases hlt : ch = 0x3C
      · subst hlt
        have : notLt 0x3C = false := by decide
        simp [this, advR_zero]
      · have hn : notLt ch = true := by simp [notLt, hlt]
        simp only [hlt, ↓reduceIte, hn]
        have hj : c.pos - start = j := by omega
        rw [hj]
        by_cases hmax : j ≥ o.maxText
        · have h0 : o.maxText - j = 0 := by omega
          have hc : 0 < spanLen notLt r + 1 ∧ j + (spanLen notLt r + 1) > o.maxText := ⟨by omega, by omega⟩
          simp [hmax, hc, h0, advR_zero, Res.bind]
        · simp only [hmax, ↓reduceIte, Cur.adv_cons hr]
          have hpos' : (c.stepTo ch r).pos = start + (j + 1) := by
            unfold Cur.stepTo; split <;> simp <;> omega
          rw [ih (c.stepTo ch r) (j + 1) (by rw [hr] at h; simpa using h) hpos']
          simp only [Cur.stepTo_rest]
          by_cases hk : 0 < spanLen notLt r ∧ j + 1 + spanLen notLt r > o.maxText
          · have hc : 0 < spanLen notLt r + 1 ∧ j + (spanLen notLt r + 1) > o.maxText := ⟨by omega, by omega⟩
            have hsub : o.maxText - j = (o.maxText - (j + 1)) + 1 := by omega
            simp only [hk, hc, and_self, ↓reduceIte]
            rw [hsub, advR_succ hr]
          · have hc : ¬ (0 < spanLen notLt r + 1 ∧ j + (spanLen notLt r + 1) > o.maxText) := by
              intro ⟨_, h2⟩
              apply hk
              constructor
              · omega
              · omega
            simp only [hk, hc, ↓reduceIte]
            rw [advR_succ hr]

theorem readText_eq (o : Options) (s : St) (c : Cur) (ch : UInt8) (r : Bytes) (hr : c.rest = ch :: r) (hch : ch ≠ 0x3C) :
    readText o s c = readTextC o s c r := by
  unfold readText readTextC
  rw [textLoop_eq o c.pos c.rest c 0 (Nat.le_refl _) (by simp)]
  have hn : notLt ch = true := by simp [notLt, hch]
  have hsp : spanLen notLt c.rest = 1 + spanLen notLt r := by rw [hr]; simp [spanLen, hn]; omega
  simp only [hsp, Nat.zero_add, Nat.sub_zero]
  by_cases hk : 1 + spanLen notLt r > o.maxText
  · have : 0 < 1 + spanLen notLt r ∧ 1 + spanLen notLt r > o.maxText := ⟨by omega, hk⟩
    rw [if_pos this, if_pos hk]
    cases advR o.maxText c <;> rfl
  · have : ¬ (0 < 1 + spanLen notLt r ∧ 1 + spanLen notLt r > o.maxText) := fun h => hk h.2
    rw [if_neg this, if_neg hk]
    have hsat := advR_sat (k := 1 + spanLen notLt r) (c := c) (by rw [hr]; have := spanLen_le notLt r; simp; omega)
    cases hres : advR (1 + spanLen notLt r) c with
    | ok a c1 =>
      rw [hres] at hsat
      have : ¬ (c1.pos - c.pos = 0) := by have := hsat.2.1; omega
      simp [Res.toStep, this]
    | fail e c1 => rfl
    | bad b => rfl

theorem next_eq (o : Options) (s : St) : next o s = nextC o s := by
  unfold next nextC
  split
  · rfl
  · rw [skipWs_eq]
    apply toStep_congr
    intro _ c
    rcases list_cases c.rest with hr | ⟨ch, r, hr⟩
    · simp [Cur.eof, hr]
    · simp only [Cur.eof, Cur.peek, hr, List.isEmpty_cons, Bool.false_eq_true, ↓reduceIte, List.head?_cons]
      split
      · apply toStep_congr
        intro _ c1
        rcases list_cases c1.rest with hr1 | ⟨n, r1, hr1⟩
        · simp [hr1]
        · simp only [hr1, List.isEmpty_cons, Bool.false_eq_true, ↓reduceIte, List.head?_cons, readPI_eq, readEndTag_eq,
            readStartOrEmptyTag_eq, matchString_eq, matchWordCI_eq, readComment_eq, readCData_eq, readDoctype_eq]
      · rename_i hch
        exact readText_eq o s c ch r hr hch

theorem run_eq (o : Options) : ∀ (fuel : Nat) (s : St), run o fuel s = runC o fuel s := by
  intro fuel
  induction fuel with
  | zero => intro s; rfl
  | succ fuel ih =>
    intro s
    simp only [run, runC, next_eq]
    cases nextC o s with
    | tok t s' => simp only [ih]
    | eof t s' => rfl
    | err e c => rfl
    | bad b => rfl

theorem tokens_eq (o : Options) (bs : Bytes) : tokens o bs = tokensC o bs := by
  unfold tokens tokensC; exact run_eq o _ _

end Iora.Xml
