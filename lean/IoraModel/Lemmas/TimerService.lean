import IoraModel.Model.TimerService
/-!
Helper lemmas about `Model/TimerService.lean` (property C08).
-/
namespace Iora.Tsvc

/-! ### the heap operations only permute -/

theorem swap_perm (h : List HeapItem) (i j : Nat) : (swap h i j).Perm h := by
  unfold swap
  split
  · rename_i a b hi hj
    obtain ⟨hi', rfl⟩ := List.getElem?_eq_some_iff.mp hi
    obtain ⟨hj', rfl⟩ := List.getElem?_eq_some_iff.mp hj
    exact List.set_set_perm hi' hj'
  · exact List.Perm.refl _

theorem swap_length (h : List HeapItem) (i j : Nat) : (swap h i j).length = h.length := (swap_perm h i j).length_eq

theorem siftUp_perm : ∀ (f : Nat) (h : List HeapItem) (idx : Nat), (siftUp f h idx).Perm h
  | 0, h, _ => List.Perm.refl _
  | f + 1, h, idx => by
    unfold siftUp
    split
    · exact List.Perm.refl _
    · simp only
      split
      · split
        · exact (siftUp_perm f _ _).trans (swap_perm h _ _)
        · exact List.Perm.refl _
      · exact List.Perm.refl _

theorem siftDown_perm : ∀ (f : Nat) (h : List HeapItem) (idx : Nat), (siftDown f h idx).Perm h
  | 0, h, _ => List.Perm.refl _
  | f + 1, h, idx => by
    unfold siftDown
    split
    · exact List.Perm.refl _
    · split
      · exact List.Perm.refl _
      · exact (siftDown_perm f _ _).trans (swap_perm h _ _)

theorem heapPush_perm (h : List HeapItem) (x : HeapItem) : (heapPush h x).Perm (x :: h) := by
  unfold heapPush
  exact (siftUp_perm _ _ _).trans (List.perm_append_comm (l₁ := h) (l₂ := [x]))

theorem swap_eq {h : List HeapItem} {i j : Nat} (hi : i < h.length) (hj : j < h.length) :
    swap h i j = (h.set i h[j]).set j h[i] := by
  unfold swap
  rw [List.getElem?_eq_getElem hi, List.getElem?_eq_getElem hj]

theorem swap_get_right {h : List HeapItem} {i j : Nat} (hi : i < h.length) (hj : j < h.length) :
    (swap h i j)[j]? = some h[i] := by
  rw [swap_eq hi hj, List.getElem?_set]
  simp [hj]

theorem swap_get_left {h : List HeapItem} {i j : Nat} (hi : i < h.length) (hj : j < h.length) :
    (swap h i j)[i]? = some h[j] := by
  rw [swap_eq hi hj, List.getElem?_set]
  by_cases hij : j = i
  · subst hij; simp [hj]
  · simp [hij, List.getElem?_set, hi]

theorem swap_get_other {h : List HeapItem} {i j k : Nat} (hi : i < h.length) (hj : j < h.length) (hki : k ≠ i) (hkj : k ≠ j) :
    (swap h i j)[k]? = h[k]? := by
  rw [swap_eq hi hj, List.getElem?_set, List.getElem?_set]
  simp [Ne.symm hki, Ne.symm hkj]

theorem dropLast_snoc_last {α : Type} : ∀ (l : List α), l ≠ [] → ∃ a, l = l.dropLast ++ [a] ∧ l[l.length - 1]? = some a
  | [], h => absurd rfl h
  | [a], _ => ⟨a, rfl, rfl⟩
  | a :: b :: l, _ => by
    obtain ⟨x, hx, hl⟩ := dropLast_snoc_last (b :: l) (by simp)
    refine ⟨x, ?_, ?_⟩
    · simp only [List.dropLast_cons₂, List.cons_append]
      exact congrArg (a :: ·) hx
    · simpa using hl

theorem heapPop_perm (top : HeapItem) (rest : List HeapItem) : (top :: heapPop (top :: rest)).Perm (top :: rest) := by
  unfold heapPop
  simp only [List.isEmpty_cons, Bool.false_eq_true, if_false]
  have h0 : 0 < (top :: rest).length := by simp
  have hl : (top :: rest).length - 1 < (top :: rest).length := by simp
  have hne : swap (top :: rest) 0 ((top :: rest).length - 1) ≠ [] := by
    intro h
    have := congrArg List.length h
    rw [swap_length] at this
    simp at this
  obtain ⟨a, ha, hla⟩ := dropLast_snoc_last _ hne
  rw [swap_length, swap_get_right h0 hl] at hla
  have hat : a = top := by simpa using hla.symm
  subst hat
  have hp : (a :: (swap (a :: rest) 0 ((a :: rest).length - 1)).dropLast).Perm (a :: rest) := by
    have : ((swap (a :: rest) 0 ((a :: rest).length - 1)).dropLast ++ [a]).Perm (a :: rest) := by
      rw [← ha]; exact swap_perm _ _ _
    exact (List.perm_append_comm (l₁ := [a])).trans this
  split
  · exact hp
  · exact ((siftDown_perm _ _ _).cons a).trans hp

/-! ### the maps -/

theorem findRec_some {rs : List Rec} {id : Nat} {r : Rec} (h : findRec rs id = some r) : r ∈ rs ∧ r.id = id := by
  unfold findRec at h
  exact ⟨List.mem_of_find?_eq_some h, by simpa using List.find?_some h⟩

theorem findRec_none {rs : List Rec} {id : Nat} (h : findRec rs id = none) : ∀ r ∈ rs, r.id ≠ id := by
  unfold findRec at h
  intro r hr
  have := List.find?_eq_none.mp h r hr
  simpa using this

theorem findPer_some {ps : List Per} {id : Nat} {p : Per} (h : findPer ps id = some p) : p ∈ ps ∧ p.id = id := by
  unfold findPer at h
  exact ⟨List.mem_of_find?_eq_some h, by simpa using List.find?_some h⟩

theorem findPer_none {ps : List Per} {id : Nat} (h : findPer ps id = none) : ∀ p ∈ ps, p.id ≠ id := by
  unfold findPer at h
  intro p hp
  have := List.find?_eq_none.mp h p hp
  simpa using this

theorem findPer_isSome_of_mem {ps : List Per} {p : Per} (h : p ∈ ps) : ∃ q, findPer ps p.id = some q := by
  cases hf : findPer ps p.id with
  | some q => exact ⟨q, rfl⟩
  | none => exact absurd rfl (findPer_none hf p h)

theorem findRec_isSome_of_mem {rs : List Rec} {r : Rec} (h : r ∈ rs) : ∃ q, findRec rs r.id = some q := by
  cases hf : findRec rs r.id with
  | some q => exact ⟨q, rfl⟩
  | none => exact absurd rfl (findRec_none hf r h)

theorem mem_eraseRec {rs : List Rec} {id : Nat} {r : Rec} : r ∈ eraseRec rs id ↔ r ∈ rs ∧ r.id ≠ id := by
  simp [eraseRec, List.mem_filter]

theorem mem_erasePer {ps : List Per} {id : Nat} {p : Per} : p ∈ erasePer ps id ↔ p ∈ ps ∧ p.id ≠ id := by
  simp [erasePer, List.mem_filter]

theorem rec_unique {rs : List Rec} (hnd : (rs.map (·.id)).Nodup) : ∀ {a b : Rec}, a ∈ rs → b ∈ rs → a.id = b.id → a = b := by
  induction rs with
  | nil => intro a b ha; cases ha
  | cons x xs ih =>
    simp only [List.map_cons, List.nodup_cons] at hnd
    intro a b ha hb hab
    rcases List.mem_cons.mp ha with rfl | ha' <;> rcases List.mem_cons.mp hb with rfl | hb'
    · rfl
    · exact absurd (hab ▸ List.mem_map_of_mem (f := (·.id)) hb') hnd.1
    · exact absurd (hab ▸ List.mem_map_of_mem (f := (·.id)) ha') hnd.1
    · exact ih hnd.2 ha' hb' hab

/-- with unique ids, erasing by id removes exactly the one record -/
theorem eraseRec_perm {rs : List Rec} (hnd : (rs.map (·.id)).Nodup) {r : Rec} (hr : r ∈ rs) : rs.Perm (r :: eraseRec rs r.id) := by
  induction rs with
  | nil => cases hr
  | cons x xs ih =>
    simp only [List.map_cons, List.nodup_cons] at hnd
    rcases List.mem_cons.mp hr with rfl | hr'
    · have : eraseRec (r :: xs) r.id = xs := by
        simp only [eraseRec, List.filter_cons, bne_self_eq_false, Bool.false_eq_true, if_false]
        rw [List.filter_eq_self]
        intro y hy
        simp only [bne_iff_ne, ne_eq]
        exact fun h => hnd.1 (h ▸ List.mem_map_of_mem (f := (·.id)) hy)
      rw [this]
    · have hne : x.id ≠ r.id := fun h => hnd.1 (h ▸ List.mem_map_of_mem (f := (·.id)) hr')
      have : eraseRec (x :: xs) r.id = x :: eraseRec xs r.id := by
        simp [eraseRec, List.filter_cons, hne]
      rw [this]
      exact ((ih hnd.2 hr').cons x).trans (List.Perm.swap _ _ _)

/-! ### the container invariant -/

def hkey (x : HeapItem) : Int × Nat := (x.tp, x.id)
def rkey (r : Rec) : Int × Nat := (r.tp, r.id)

/-- invariant of `_records` / `_periodicTimers` / `_heap` (`n` = `_nextId`) -/
structure Core (n : Nat) (rs : List Rec) (ps : List Per) (hp : List HeapItem) : Prop where
  /-- heap items and records correspond one to one, with equal time points -/
  hk : (hp.map hkey).Perm (rs.map rkey)
  rnd : (rs.map (·.id)).Nodup
  rle : ∀ r ∈ rs, 0 < r.id ∧ r.id ≤ n
  pnd : (ps.map (·.id)).Nodup
  /-- every periodic entry has its (guarded) record, due at `nextExecution` -/
  pg : ∀ p ∈ ps, ∃ r ∈ rs, r.id = p.id ∧ r.guarded = true ∧ r.tp = p.next ∧ r.iv = p.interval
  /-- a live guarded record has its periodic entry -/
  gp : ∀ r ∈ rs, r.guarded = true → r.canceled = false → ∃ p ∈ ps, p.id = r.id
  /-- one-shot ids have no periodic entry -/
  ug : ∀ r ∈ rs, r.guarded = false → ∀ p ∈ ps, p.id ≠ r.id
  /-- `tp = t0 + k * iv` -/
  arith : ∀ r ∈ rs, r.tp = r.t0 + r.k * r.iv

theorem Core.init : Core 0 [] [] [] :=
  ⟨List.Perm.refl _, List.nodup_nil, by simp, List.nodup_nil, by simp, by simp, by simp, by simp⟩

theorem Core.ple {n rs ps hp} (c : Core n rs ps hp) : ∀ p ∈ ps, 0 < p.id ∧ p.id ≤ n := by
  intro p hp'
  obtain ⟨r, hr, hid, _⟩ := c.pg p hp'
  exact hid ▸ c.rle r hr

/-- a new one-shot record with the fresh id `n + 1` -/
theorem Core.addOneShot {n rs ps hp} (c : Core n rs ps hp) (tp : Int) :
    Core (n + 1) (rs ++ [⟨n + 1, tp, false, false, 0, tp, 0⟩]) ps (heapPush hp ⟨tp, n + 1⟩) := by
  refine ⟨?_, ?_, ?_, c.pnd, ?_, ?_, ?_, ?_⟩
  · refine ((heapPush_perm hp _).map hkey).trans ?_
    simp only [List.map_cons, List.map_append, List.map_nil]
    exact (List.Perm.cons _ c.hk).trans (List.perm_append_comm (l₁ := [_]))
  · simp only [List.map_append, List.map_cons, List.map_nil]
    rw [List.nodup_append]
    refine ⟨c.rnd, by simp, ?_⟩
    intro a ha b hb
    simp only [List.mem_singleton] at hb
    obtain ⟨r, hr, rfl⟩ := List.mem_map.mp ha
    have := (c.rle r hr).2
    omega
  · intro r hr
    simp only [List.mem_append, List.mem_singleton] at hr
    rcases hr with hr | rfl
    · have := c.rle r hr; exact ⟨this.1, by omega⟩
    · exact ⟨by simp, by simp⟩
  · intro p hp'
    obtain ⟨r, hr, h⟩ := c.pg p hp'
    exact ⟨r, List.mem_append_left _ hr, h⟩
  · intro r hr hg hc
    simp only [List.mem_append, List.mem_singleton] at hr
    rcases hr with hr | rfl
    · exact c.gp r hr hg hc
    · cases hg
  · intro r hr hg p hp'
    simp only [List.mem_append, List.mem_singleton] at hr
    rcases hr with hr | rfl
    · exact c.ug r hr hg p hp'
    · have := (c.ple p hp').2
      simp only; omega
  · intro r hr
    simp only [List.mem_append, List.mem_singleton] at hr
    rcases hr with hr | rfl
    · exact c.arith r hr
    · simp

/-- a new periodic timer with the fresh id `n + 1` -/
theorem Core.addPeriodic {n rs ps hp} (c : Core n rs ps hp) (now iv : Int) :
    Core (n + 1) (rs ++ [⟨n + 1, now + iv, false, true, 1, now, iv⟩]) (ps ++ [⟨n + 1, iv, now + iv, false⟩]) (heapPush hp ⟨now + iv, n + 1⟩) := by
  refine ⟨?_, ?_, ?_, ?_, ?_, ?_, ?_, ?_⟩
  · refine ((heapPush_perm hp _).map hkey).trans ?_
    simp only [List.map_cons, List.map_append, List.map_nil]
    exact (List.Perm.cons _ c.hk).trans (List.perm_append_comm (l₁ := [_]))
  · simp only [List.map_append, List.map_cons, List.map_nil]
    rw [List.nodup_append]
    refine ⟨c.rnd, by simp, ?_⟩
    intro a ha b hb
    simp only [List.mem_singleton] at hb
    obtain ⟨r, hr, rfl⟩ := List.mem_map.mp ha
    have := (c.rle r hr).2
    omega
  · intro r hr
    simp only [List.mem_append, List.mem_singleton] at hr
    rcases hr with hr | rfl
    · have := c.rle r hr; exact ⟨this.1, by omega⟩
    · exact ⟨by simp, by simp⟩
  · simp only [List.map_append, List.map_cons, List.map_nil]
    rw [List.nodup_append]
    refine ⟨c.pnd, by simp, ?_⟩
    intro a ha b hb
    simp only [List.mem_singleton] at hb
    obtain ⟨p, hp', rfl⟩ := List.mem_map.mp ha
    have := (c.ple p hp').2
    omega
  · intro p hp'
    simp only [List.mem_append, List.mem_singleton] at hp'
    rcases hp' with hp' | rfl
    · obtain ⟨r, hr, h⟩ := c.pg p hp'
      exact ⟨r, List.mem_append_left _ hr, h⟩
    · exact ⟨_, List.mem_append_right _ (List.mem_singleton.mpr rfl), rfl, rfl, rfl, rfl⟩
  · intro r hr hg hc
    simp only [List.mem_append, List.mem_singleton] at hr
    rcases hr with hr | rfl
    · obtain ⟨p, hp', h⟩ := c.gp r hr hg hc
      exact ⟨p, List.mem_append_left _ hp', h⟩
    · exact ⟨_, List.mem_append_right _ (List.mem_singleton.mpr rfl), rfl⟩
  · intro r hr hg p hp'
    simp only [List.mem_append, List.mem_singleton] at hr hp'
    rcases hr with hr | rfl
    · rcases hp' with hp' | rfl
      · exact c.ug r hr hg p hp'
      · have := (c.rle r hr).2
        simp only; omega
    · cases hg
  · intro r hr
    simp only [List.mem_append, List.mem_singleton] at hr
    rcases hr with hr | rfl
    · exact c.arith r hr
    · simp

/-- marking records cancelled / touching only the `canceled` flag of periodic entries -/
theorem Core.mark {n rs ps hp} (c : Core n rs ps hp) (f : Rec → Rec) (g : Per → Per)
    (hf : ∀ r, f r = r ∨ f r = { r with canceled := true })
    (hg : ∀ p, (g p).id = p.id ∧ (g p).interval = p.interval ∧ (g p).next = p.next) :
    Core n (rs.map f) (ps.map g) hp := by
  have hfid : ∀ r, (f r).id = r.id ∧ (f r).tp = r.tp ∧ (f r).guarded = r.guarded ∧ (f r).k = r.k ∧ (f r).t0 = r.t0 ∧ (f r).iv = r.iv ∧
      ((f r).canceled = false → r.canceled = false) := by
    intro r
    rcases hf r with h | h <;> rw [h] <;> simp
  have hkeys : (rs.map f).map rkey = rs.map rkey := by
    rw [List.map_map]
    apply List.map_congr_left
    intro r _
    simp [rkey, (hfid r).1, (hfid r).2.1]
  have hids : (rs.map f).map (·.id) = rs.map (·.id) := by
    rw [List.map_map]
    apply List.map_congr_left
    intro r _
    simp [(hfid r).1]
  have hpids : (ps.map g).map (·.id) = ps.map (·.id) := by
    rw [List.map_map]
    apply List.map_congr_left
    intro p _
    simp [(hg p).1]
  refine ⟨by rw [hkeys]; exact c.hk, by rw [hids]; exact c.rnd, ?_, by rw [hpids]; exact c.pnd, ?_, ?_, ?_, ?_⟩
  · intro r hr
    obtain ⟨r0, h0, rfl⟩ := List.mem_map.mp hr
    rw [(hfid r0).1]; exact c.rle r0 h0
  · intro p hp'
    obtain ⟨p0, h0, rfl⟩ := List.mem_map.mp hp'
    obtain ⟨r, hr, h1, h2, h3, h4⟩ := c.pg p0 h0
    refine ⟨f r, List.mem_map_of_mem hr, ?_, ?_, ?_, ?_⟩
    · rw [(hfid r).1, (hg p0).1]; exact h1
    · rw [(hfid r).2.2.1]; exact h2
    · rw [(hfid r).2.1, (hg p0).2.2]; exact h3
    · rw [(hfid r).2.2.2.2.2.1, (hg p0).2.1]; exact h4
  · intro r hr hgd hc
    obtain ⟨r0, h0, rfl⟩ := List.mem_map.mp hr
    obtain ⟨p, hp', h1⟩ := c.gp r0 h0 ((hfid r0).2.2.1 ▸ hgd) ((hfid r0).2.2.2.2.2.2 hc)
    exact ⟨g p, List.mem_map_of_mem hp', by rw [(hg p).1, (hfid r0).1]; exact h1⟩
  · intro r hr hgd p hp'
    obtain ⟨r0, h0, rfl⟩ := List.mem_map.mp hr
    obtain ⟨p0, hp0, rfl⟩ := List.mem_map.mp hp'
    rw [(hg p0).1, (hfid r0).1]
    exact c.ug r0 h0 ((hfid r0).2.2.1 ▸ hgd) p0 hp0
  · intro r hr
    obtain ⟨r0, h0, rfl⟩ := List.mem_map.mp hr
    rw [(hfid r0).2.1, (hfid r0).2.2.2.2.1, (hfid r0).2.2.2.1, (hfid r0).2.2.2.2.2.1]
    exact c.arith r0 h0

/-- erasing the periodic entry of an id none of whose guarded records is live -/
theorem Core.dropPer {n rs ps hp} (c : Core n rs ps hp) (id : Nat)
    (h : ∀ r ∈ rs, r.id = id → r.guarded = true → r.canceled = true) : Core n rs (erasePer ps id) hp := by
  refine ⟨c.hk, c.rnd, c.rle, (List.filter_sublist.map _).nodup c.pnd, ?_, ?_, ?_, c.arith⟩
  · intro p hp'
    exact c.pg p (mem_erasePer.mp hp').1
  · intro r hr hg hc
    obtain ⟨p, hp', hid⟩ := c.gp r hr hg hc
    refine ⟨p, mem_erasePer.mpr ⟨hp', ?_⟩, hid⟩
    intro hpid
    have := h r hr (hid ▸ hpid) hg
    rw [hc] at this; cases this
  · intro r hr hg p hp'
    exact c.ug r hr hg p (mem_erasePer.mp hp').1

theorem per_unique {ps : List Per} (hnd : (ps.map (·.id)).Nodup) : ∀ {a b : Per}, a ∈ ps → b ∈ ps → a.id = b.id → a = b := by
  induction ps with
  | nil => intro a b ha; cases ha
  | cons x xs ih =>
    simp only [List.map_cons, List.nodup_cons] at hnd
    intro a b ha hb hab
    rcases List.mem_cons.mp ha with rfl | ha' <;> rcases List.mem_cons.mp hb with rfl | hb'
    · rfl
    · exact absurd (hab ▸ List.mem_map_of_mem (f := (·.id)) hb') hnd.1
    · exact absurd (hab ▸ List.mem_map_of_mem (f := (·.id)) ha') hnd.1
    · exact ih hnd.2 ha' hb' hab

/-! ### one iteration of `collectDueLocked` -/

/-- the record found for the heap top has the top's time point; popping the heap and erasing the record keep the correspondence -/
theorem pop_keys {n rs ps top tl rc} (c : Core n rs ps (top :: tl)) (hf : findRec rs top.id = some rc) :
    rc.tp = top.tp ∧ ((heapPop (top :: tl)).map hkey).Perm ((eraseRec rs rc.id).map rkey) := by
  obtain ⟨hrc, hid⟩ := findRec_some hf
  have hmem : hkey top ∈ rs.map rkey := c.hk.subset (List.mem_map_of_mem List.mem_cons_self)
  obtain ⟨r, hr, hrk⟩ := List.mem_map.mp hmem
  simp only [rkey, hkey, Prod.mk.injEq] at hrk
  have : r = rc := rec_unique c.rnd hr hrc (hrk.2.trans hid.symm)
  subst this
  refine ⟨hrk.1, ?_⟩
  have h1 : (hkey top :: (heapPop (top :: tl)).map hkey).Perm (rs.map rkey) :=
    ((heapPop_perm top tl).map hkey).trans c.hk
  have h2 : (rs.map rkey).Perm (rkey r :: (eraseRec rs r.id).map rkey) := (eraseRec_perm c.rnd hr).map rkey
  have h3 : hkey top = rkey r := by simp [hkey, rkey, hrk.1, hrk.2]
  rw [h3] at h1
  exact (h1.trans h2).cons_inv

theorem pop_none {n rs ps top tl rc} (c : Core n rs ps (top :: tl)) (hf : findRec rs top.id = some rc)
    (hp : findPer ps rc.id = none) : Core n (eraseRec rs rc.id) ps (heapPop (top :: tl)) := by
  obtain ⟨_, hk⟩ := pop_keys c hf
  refine ⟨hk, (List.filter_sublist.map _).nodup c.rnd, fun r hr => c.rle r (mem_eraseRec.mp hr).1, c.pnd, ?_, ?_, ?_,
          fun r hr => c.arith r (mem_eraseRec.mp hr).1⟩
  · intro p hp'
    obtain ⟨r, hr, h1, h2⟩ := c.pg p hp'
    exact ⟨r, mem_eraseRec.mpr ⟨hr, fun h => findPer_none hp p hp' (h1.symm.trans h)⟩, h1, h2⟩
  · intro r hr hg hc
    exact c.gp r (mem_eraseRec.mp hr).1 hg hc
  · intro r hr hg
    exact c.ug r (mem_eraseRec.mp hr).1 hg

theorem pop_drop {n rs ps top tl rc} (c : Core n rs ps (top :: tl)) (hf : findRec rs top.id = some rc) :
    Core n (eraseRec rs rc.id) (erasePer ps rc.id) (heapPop (top :: tl)) := by
  obtain ⟨_, hk⟩ := pop_keys c hf
  refine ⟨hk, (List.filter_sublist.map _).nodup c.rnd, fun r hr => c.rle r (mem_eraseRec.mp hr).1,
          (List.filter_sublist.map _).nodup c.pnd, ?_, ?_, ?_, fun r hr => c.arith r (mem_eraseRec.mp hr).1⟩
  · intro p hp'
    obtain ⟨hp1, hp2⟩ := mem_erasePer.mp hp'
    obtain ⟨r, hr, h1, h2⟩ := c.pg p hp1
    exact ⟨r, mem_eraseRec.mpr ⟨hr, fun h => hp2 (h1.symm.trans h)⟩, h1, h2⟩
  · intro r hr hg hc
    obtain ⟨hr1, hr2⟩ := mem_eraseRec.mp hr
    obtain ⟨p, hp', hid⟩ := c.gp r hr1 hg hc
    exact ⟨p, mem_erasePer.mpr ⟨hp', fun h => hr2 (hid.symm.trans h)⟩, hid⟩
  · intro r hr hg p hp'
    exact c.ug r (mem_eraseRec.mp hr).1 hg p (mem_erasePer.mp hp').1

theorem pop_rearm {n rs ps top tl rc pt} (c : Core n rs ps (top :: tl)) (hf : findRec rs top.id = some rc)
    (hp : findPer ps rc.id = some pt) :
    Core n (eraseRec rs rc.id ++ [⟨rc.id, pt.next + pt.interval, false, true, rc.k + 1, rc.t0, rc.iv⟩])
      (ps.map (fun p => if p.id == rc.id then { p with next := pt.next + pt.interval } else p))
      (heapPush (heapPop (top :: tl)) ⟨pt.next + pt.interval, rc.id⟩) := by
  obtain ⟨_, hk⟩ := pop_keys c hf
  obtain ⟨hrc, hid⟩ := findRec_some hf
  obtain ⟨hpt, hptid⟩ := findPer_some hp
  -- the record of `pt` is `rc`
  obtain ⟨r0, hr0, h01, h02, h03, h04⟩ := c.pg pt hpt
  have : r0 = rc := rec_unique c.rnd hr0 hrc (h01.trans hptid)
  subst this
  have hpids : (ps.map (fun p => if p.id == r0.id then { p with next := pt.next + pt.interval } else p)).map (·.id) = ps.map (·.id) := by
    rw [List.map_map]
    apply List.map_congr_left
    intro p _
    simp only [Function.comp]
    split <;> rfl
  refine ⟨?_, ?_, ?_, by rw [hpids]; exact c.pnd, ?_, ?_, ?_, ?_⟩
  · refine ((heapPush_perm _ _).map hkey).trans ?_
    simp only [List.map_cons, List.map_append, List.map_nil]
    exact (List.Perm.cons _ hk).trans (List.perm_append_comm (l₁ := [_]))
  · simp only [List.map_append, List.map_cons, List.map_nil]
    rw [List.nodup_append]
    refine ⟨(List.filter_sublist.map _).nodup c.rnd, by simp, ?_⟩
    intro a ha b hb
    simp only [List.mem_singleton] at hb
    obtain ⟨r, hr, rfl⟩ := List.mem_map.mp ha
    rw [hb]; exact (mem_eraseRec.mp hr).2
  · intro r hr
    simp only [List.mem_append, List.mem_singleton] at hr
    rcases hr with hr | rfl
    · exact c.rle r (mem_eraseRec.mp hr).1
    · exact c.rle r0 hrc
  · intro p' hp'
    obtain ⟨p, hpm, rfl⟩ := List.mem_map.mp hp'
    by_cases hpid : p.id = r0.id
    · have : p = pt := per_unique c.pnd hpm hpt (hpid.trans hptid.symm)
      subst this
      simp only [hpid, beq_self_eq_true, if_true]
      exact ⟨_, List.mem_append_right _ (List.mem_singleton.mpr rfl), rfl, rfl, rfl, h04⟩
    · have hb : (p.id == r0.id) = false := by simpa using hpid
      simp only [hb, Bool.false_eq_true, if_false]
      obtain ⟨r, hr, h1, h2⟩ := c.pg p hpm
      exact ⟨r, List.mem_append_left _ (mem_eraseRec.mpr ⟨hr, fun h => hpid (h1.symm.trans h)⟩), h1, h2⟩
  · intro r hr hg hc
    simp only [List.mem_append, List.mem_singleton] at hr
    rcases hr with hr | rfl
    · obtain ⟨hr1, hr2⟩ := mem_eraseRec.mp hr
      obtain ⟨p, hpm, hpid⟩ := c.gp r hr1 hg hc
      refine ⟨_, List.mem_map_of_mem hpm, ?_⟩
      have hb : (p.id == r0.id) = false := by simpa using fun h => hr2 (hpid.symm.trans h)
      simp only [hb, Bool.false_eq_true, if_false]
      exact hpid
    · refine ⟨_, List.mem_map_of_mem hpt, ?_⟩
      simp [hptid]
  · intro r hr hg p' hp'
    simp only [List.mem_append, List.mem_singleton] at hr
    obtain ⟨p, hpm, rfl⟩ := List.mem_map.mp hp'
    rcases hr with hr | rfl
    · have := c.ug r (mem_eraseRec.mp hr).1 hg p hpm
      split <;> exact this
    · cases hg
  · intro r hr
    simp only [List.mem_append, List.mem_singleton] at hr
    rcases hr with hr | rfl
    · exact c.arith r (mem_eraseRec.mp hr).1
    · simp only
      rw [← h03, ← h04, c.arith r0 hrc, Int.natCast_add, Int.add_mul]
      simp [Int.add_assoc]

/-! ### collected invocations versus the containers -/

def ekey (e : Hnd) : Nat × Nat := (e.id, e.k)

/-- what is known about a list `Q` of collected invocations (earlier ones, or the `out` of the running collect) relative to
the current containers -/
structure QInv (n : Nat) (rs : List Rec) (ps : List Per) (Q : List Hnd) : Prop where
  bnd : ∀ e ∈ Q, 0 < e.id ∧ e.id ≤ n
  /-- a record with the id of a collected invocation exists only for periodic timers and is a LATER firing -/
  later : ∀ e ∈ Q, ∀ r ∈ rs, r.id = e.id → e.guarded = true ∧ r.guarded = true ∧ e.k < r.k
  noper : ∀ e ∈ Q, e.guarded = false → ∀ p ∈ ps, p.id ≠ e.id
  nodup : (Q.map ekey).Nodup

theorem QInv.nil (n rs ps) : QInv n rs ps [] := ⟨by simp, by simp, by simp, by simp⟩

/-- fewer records / periodic ids -/
theorem QInv.shrink {n rs ps Q rs' ps'} (q : QInv n rs ps Q) (hr : ∀ r ∈ rs', r ∈ rs) (hp : ∀ p ∈ ps', ∃ p0 ∈ ps, p0.id = p.id) :
    QInv n rs' ps' Q :=
  ⟨q.bnd, fun e he r hr' => q.later e he r (hr r hr'),
   fun e he hg p hp' => by obtain ⟨p0, h0, hid⟩ := hp p hp'; exact hid ▸ q.noper e he hg p0 h0, q.nodup⟩

/-- a fresh id: nothing collected refers to it -/
theorem QInv.fresh {n rs ps Q} (q : QInv n rs ps Q) (r : Rec) (hr : r.id = n + 1) (ps' : List Per)
    (hp : ∀ p ∈ ps', (∃ p0 ∈ ps, p0.id = p.id) ∨ p.id = n + 1) : QInv (n + 1) (rs ++ [r]) ps' Q := by
  refine ⟨fun e he => ⟨(q.bnd e he).1, by have := (q.bnd e he).2; omega⟩, ?_, ?_, q.nodup⟩
  · intro e he r' hr' hid
    simp only [List.mem_append, List.mem_singleton] at hr'
    rcases hr' with hr' | rfl
    · exact q.later e he r' hr' hid
    · have := (q.bnd e he).2; omega
  · intro e he hg p hp'
    rcases hp p hp' with ⟨p0, h0, hid⟩ | h
    · exact hid ▸ q.noper e he hg p0 h0
    · have := (q.bnd e he).2; omega

/-- the heap top's record `rc` is erased and handed over (no re-arm) -/
theorem QInv.push {n rs ps hp Q rc} (q : QInv n rs ps Q) (c : Core n rs ps hp) (hrc : rc ∈ rs) (ps' : List Per)
    (hps : ∀ p ∈ ps', ∃ p0 ∈ ps, p0.id = p.id) : QInv n (eraseRec rs rc.id) ps' (Q ++ [rc.hnd]) := by
  refine ⟨?_, ?_, ?_, ?_⟩
  · intro e he
    simp only [List.mem_append, List.mem_singleton] at he
    rcases he with he | rfl
    · exact q.bnd e he
    · exact c.rle rc hrc
  · intro e he r hr hid
    obtain ⟨hr1, hr2⟩ := mem_eraseRec.mp hr
    simp only [List.mem_append, List.mem_singleton] at he
    rcases he with he | rfl
    · exact q.later e he r hr1 hid
    · exact absurd hid hr2
  · intro e he hg p hp'
    obtain ⟨p0, h0, hid⟩ := hps p hp'
    simp only [List.mem_append, List.mem_singleton] at he
    rcases he with he | rfl
    · exact hid ▸ q.noper e he hg p0 h0
    · exact hid ▸ c.ug rc hrc hg p0 h0
  · simp only [List.map_append, List.map_cons, List.map_nil]
    rw [List.nodup_append]
    refine ⟨q.nodup, by simp, ?_⟩
    intro a ha b hb
    simp only [List.mem_singleton] at hb
    obtain ⟨e, he, rfl⟩ := List.mem_map.mp ha
    rw [hb]
    intro heq
    simp only [ekey, Rec.hnd, Prod.mk.injEq] at heq
    have := (q.later e he rc hrc heq.1.symm).2.2
    omega

/-- the heap top's record `rc` is erased, handed over and re-armed as firing `k + 1` -/
theorem QInv.rearm {n rs ps hp Q rc} (q : QInv n rs ps Q) (c : Core n rs ps hp) (hrc : rc ∈ rs) (hg : rc.guarded = true)
    (nx : Int) (ps' : List Per) (hps : ∀ p ∈ ps', ∃ p0 ∈ ps, p0.id = p.id) :
    QInv n (eraseRec rs rc.id ++ [⟨rc.id, nx, false, true, rc.k + 1, rc.t0, rc.iv⟩]) ps' (Q ++ [rc.hnd]) := by
  have base := q.push c hrc ps' hps
  refine ⟨base.bnd, ?_, base.noper, base.nodup⟩
  intro e he r hr hid
  simp only [List.mem_append, List.mem_singleton] at hr
  rcases hr with hr | rfl
  · exact base.later e he r hr hid
  · simp only [List.mem_append, List.mem_singleton] at he
    rcases he with he | rfl
    · have := q.later e he rc hrc hid
      exact ⟨this.1, rfl, by simp only; omega⟩
    · exact ⟨hg, rfl, by simp [Rec.hnd]⟩

/-! ### the loop of `collectDueLocked` -/

/-- loop invariant: `rs0` = records at loop entry, `P` = invocations collected earlier, `R` = any relation between an id and the
ghost request fields that holds for all records -/
structure CLInv (now : Int) (n : Nat) (rs0 : List Rec) (P : List Hnd) (R : Nat → Int → Int → Prop) (c : CL) : Prop where
  core : Core n c.records c.periodic c.heap
  q : QInv n c.records c.periodic (P ++ c.out)
  due : ∀ e ∈ c.out, e.tp ≤ now
  arith : ∀ e ∈ c.out, e.tp = e.t0 + e.k * e.iv
  drop : ∀ r ∈ c.dropped, r.canceled = true
  acct : ∀ r ∈ rs0, r ∈ c.records ∨ (r.canceled = false ∧ r.hnd ∈ c.out) ∨ (r.canceled = true ∧ r ∈ c.dropped)
  rrec : ∀ r ∈ c.records, R r.id r.t0 r.iv
  rout : ∀ e ∈ c.out, R e.id e.t0 e.iv

theorem collectLoop_inv (now : Int) (n : Nat) (rs0 : List Rec) (P : List Hnd) (R : Nat → Int → Int → Prop) :
    ∀ (f : Nat) (c : CL), CLInv now n rs0 P R c → CLInv now n rs0 P R (collectLoop now f c)
  | 0, c, i => ⟨i.core, i.q, i.due, i.arith, i.drop, i.acct, i.rrec, i.rout⟩
  | f + 1, c, i => by
    unfold collectLoop
    split
    · exact ⟨i.core, i.q, i.due, i.arith, i.drop, i.acct, i.rrec, i.rout⟩
    · rename_i top tl hheap
      split
      · exact ⟨i.core, i.q, i.due, i.arith, i.drop, i.acct, i.rrec, i.rout⟩
      · rename_i hdue
        have hdue' : top.tp ≤ now := by omega
        have core := i.core
        rw [hheap] at core
        split
        · -- no record for the heap top: impossible (heap items and records correspond)
          rename_i hnone
          exfalso
          have hmem : hkey top ∈ c.records.map rkey := core.hk.subset (List.mem_map_of_mem List.mem_cons_self)
          obtain ⟨r, hr, hrk⟩ := List.mem_map.mp hmem
          simp only [rkey, hkey, Prod.mk.injEq] at hrk
          exact findRec_none hnone r hr hrk.2
        · rename_i rc hfind
          obtain ⟨hrc, hrcid⟩ := findRec_some hfind
          obtain ⟨htp, _⟩ := pop_keys core hfind
          have hrctp : rc.tp ≤ now := by omega
          -- accounting of the records at loop entry, common to all branches
          have acct_out : ∀ (recs' : List Rec) (out' : List Hnd) (dr' : List Rec),
              (∀ r ∈ c.records, r.id ≠ rc.id → r ∈ recs') →
              (∀ e ∈ c.out, e ∈ out') → (∀ r ∈ c.dropped, r ∈ dr') →
              (rc.canceled = false → rc.hnd ∈ out') → (rc.canceled = true → rc ∈ dr') →
              ∀ r ∈ rs0, r ∈ recs' ∨ (r.canceled = false ∧ r.hnd ∈ out') ∨ (r.canceled = true ∧ r ∈ dr') := by
            intro recs' out' dr' h1 h2 h3 h4 h5 r hr
            rcases i.acct r hr with h | ⟨hc, h⟩ | ⟨hc, h⟩
            · by_cases hid : r.id = rc.id
              · have : r = rc := rec_unique core.rnd h hrc hid
                subst this
                cases hc : r.canceled
                · exact Or.inr (Or.inl ⟨rfl, h4 hc⟩)
                · exact Or.inr (Or.inr ⟨rfl, h5 hc⟩)
              · exact Or.inl (h1 r h hid)
            · exact Or.inr (Or.inl ⟨hc, h2 _ h⟩)
            · exact Or.inr (Or.inr ⟨hc, h3 _ h⟩)
          cases hcan : rc.canceled
          · -- the record is live: handed over
            simp only [Bool.not_false, if_true]
            have due' : ∀ e ∈ c.out ++ [rc.hnd], e.tp ≤ now := by
              intro e he
              simp only [List.mem_append, List.mem_singleton] at he
              rcases he with he | rfl
              · exact i.due e he
              · exact hrctp
            have arith' : ∀ e ∈ c.out ++ [rc.hnd], e.tp = e.t0 + e.k * e.iv := by
              intro e he
              simp only [List.mem_append, List.mem_singleton] at he
              rcases he with he | rfl
              · exact i.arith e he
              · exact core.arith rc hrc
            have rout' : ∀ e ∈ c.out ++ [rc.hnd], R e.id e.t0 e.iv := by
              intro e he
              simp only [List.mem_append, List.mem_singleton] at he
              rcases he with he | rfl
              · exact i.rout e he
              · exact i.rrec rc hrc
            split
            · -- one-shot (no periodic entry)
              rename_i hper
              apply collectLoop_inv now n rs0 P R f
              refine ⟨(by simp only [hheap]; exact pop_none core hfind hper), ?_, due', arith', i.drop, ?_, fun r hr => i.rrec r (mem_eraseRec.mp hr).1, rout'⟩
              · have := i.q.push core hrc c.periodic (fun p hp => ⟨p, hp, rfl⟩)
                simpa [List.append_assoc] using this
              · exact acct_out _ _ _ (fun r hr hid => mem_eraseRec.mpr ⟨hr, hid⟩) (fun e he => List.mem_append_left _ he) (fun r hr => hr)
                  (fun _ => List.mem_append_right _ (List.mem_singleton.mpr rfl)) (fun h => by rw [hcan] at h; cases h)
            · rename_i pt hper
              obtain ⟨hpt, hptid⟩ := findPer_some hper
              split
              · -- re-arm
                have hg : rc.guarded = true := by
                  cases hgd : rc.guarded
                  · exact absurd hptid (core.ug rc hrc hgd pt hpt)
                  · rfl
                apply collectLoop_inv now n rs0 P R f
                refine ⟨(by simp only [hheap]; exact pop_rearm core hfind hper), ?_, due', arith', i.drop, ?_, ?_, rout'⟩
                · have := i.q.rearm core hrc hg (pt.next + pt.interval)
                    (c.periodic.map (fun p => if p.id == rc.id then { p with next := pt.next + pt.interval } else p))
                    (by
                      intro p hp
                      obtain ⟨p0, h0, rfl⟩ := List.mem_map.mp hp
                      exact ⟨p0, h0, by split <;> rfl⟩)
                  simpa [List.append_assoc] using this
                · exact acct_out _ _ _ (fun r hr hid => List.mem_append_left _ (mem_eraseRec.mpr ⟨hr, hid⟩)) (fun e he => List.mem_append_left _ he)
                    (fun r hr => hr) (fun _ => List.mem_append_right _ (List.mem_singleton.mpr rfl)) (fun h => by rw [hcan] at h; cases h)
                · intro r hr
                  simp only [List.mem_append, List.mem_singleton] at hr
                  rcases hr with hr | rfl
                  · exact i.rrec r (mem_eraseRec.mp hr).1
                  · exact i.rrec rc hrc
              · -- periodic entry cancelled by drain(): last firing, entry erased
                apply collectLoop_inv now n rs0 P R f
                refine ⟨(by simp only [hheap]; exact pop_drop core hfind), ?_, due', arith', i.drop, ?_, fun r hr => i.rrec r (mem_eraseRec.mp hr).1, rout'⟩
                · have := i.q.push core hrc (erasePer c.periodic rc.id) (fun p hp => ⟨p, (mem_erasePer.mp hp).1, rfl⟩)
                  simpa [List.append_assoc] using this
                · exact acct_out _ _ _ (fun r hr hid => mem_eraseRec.mpr ⟨hr, hid⟩) (fun e he => List.mem_append_left _ he) (fun r hr => hr)
                    (fun _ => List.mem_append_right _ (List.mem_singleton.mpr rfl)) (fun h => by rw [hcan] at h; cases h)
          · -- the record was cancelled: erased, not handed over
            simp only [Bool.not_true, Bool.false_eq_true, if_false, Bool.and_false]
            have drop' : ∀ r ∈ c.dropped ++ [rc], r.canceled = true := by
              intro r hr
              simp only [List.mem_append, List.mem_singleton] at hr
              rcases hr with hr | rfl
              · exact i.drop r hr
              · exact hcan
            have hacct := acct_out (eraseRec c.records rc.id) c.out (c.dropped ++ [rc]) (fun r hr hid => mem_eraseRec.mpr ⟨hr, hid⟩)
              (fun e he => he) (fun r hr => List.mem_append_left _ hr) (fun h => by rw [hcan] at h; cases h)
              (fun _ => List.mem_append_right _ (List.mem_singleton.mpr rfl))
            split
            · rename_i hper
              apply collectLoop_inv now n rs0 P R f
              exact ⟨(by simp only [hheap]; exact pop_none core hfind hper), i.q.shrink (fun r hr => (mem_eraseRec.mp hr).1) (fun p hp => ⟨p, hp, rfl⟩), i.due, i.arith, drop',
                     hacct, fun r hr => i.rrec r (mem_eraseRec.mp hr).1, i.rout⟩
            · apply collectLoop_inv now n rs0 P R f
              exact ⟨(by simp only [hheap]; exact pop_drop core hfind), i.q.shrink (fun r hr => (mem_eraseRec.mp hr).1) (fun p hp => ⟨p, (mem_erasePer.mp hp).1, rfl⟩),
                     i.due, i.arith, drop', hacct, fun r hr => i.rrec r (mem_eraseRec.mp hr).1, i.rout⟩

/-! ### state invariant -/

structure Wf (s : Svc) : Prop where
  core : Core s.nextId s.records s.periodic s.heap
  /-- `_executingCallbacks` = handlers collected and not finished -/
  acct : s.executing = s.ready.length + s.inflight.toList.length
  ex1 : s.exited = true → s.exiting = true ∧ s.ready = [] ∧ s.inflight = none
  ex2 : s.exiting = true → s.running = false
  st1 : s.life = .stopped → s.accepting = false ∧ s.exited = true
  run1 : s.running = false → (s.spc = .halted ∨ s.spc = .done)
  sp1 : s.spc = .done → s.life = .stopped

theorem Wf.init : Wf {} :=
  ⟨Core.init, rfl, by simp, by simp, by simp, by simp, by simp⟩

theorem markCanceled_cases (id : Nat) (r : Rec) : markCanceled id r = r ∨ markCanceled id r = { r with canceled := true } := by
  unfold markCanceled
  split
  · exact Or.inr rfl
  · exact Or.inl rfl

theorem markCanceled_id (id : Nat) (r : Rec) : (markCanceled id r).id = r.id ∧ (markCanceled id r).guarded = r.guarded ∧
    (markCanceled id r).k = r.k ∧ (markCanceled id r).t0 = r.t0 ∧ (markCanceled id r).iv = r.iv ∧ (markCanceled id r).tp = r.tp := by
  rcases markCanceled_cases id r with h | h <;> rw [h] <;> simp

theorem markCanceled_hit (id : Nat) (r : Rec) (h : r.id = id) : (markCanceled id r).canceled = true := by
  unfold markCanceled
  cases hc : r.canceled <;> simp [h, hc]

theorem sweep_cases (now t : Int) (r : Rec) :
    (if !r.canceled && r.tp > now + t then { r with canceled := true } else r) = r ∨
    (if !r.canceled && r.tp > now + t then { r with canceled := true } else r) = { r with canceled := true } := by
  split
  · exact Or.inr rfl
  · exact Or.inl rfl

theorem collect_loop_core (s : Svc) (now : Int) (w : Wf s) :
    Core s.nextId (collectLoop now collectFuel { records := s.records, periodic := s.periodic, heap := s.heap }).records
      (collectLoop now collectFuel { records := s.records, periodic := s.periodic, heap := s.heap }).periodic
      (collectLoop now collectFuel { records := s.records, periodic := s.periodic, heap := s.heap }).heap := by
  have := collectLoop_inv now s.nextId s.records [] (fun _ _ _ => True) collectFuel
    { records := s.records, periodic := s.periodic, heap := s.heap }
    ⟨w.core, QInv.nil _ _ _, by simp, by simp, by simp, fun r hr => Or.inl hr, fun _ _ => trivial, by simp⟩
  exact this.core

theorem wf_step (L : Limits) (s : Svc) (op : Op) (w : Wf s) : Wf (step L s op).1 := by
  cases op with
  | schedAt now tp =>
    simp only [step, scheduleAt]
    split
    · exact w
    · split
      · exact w
      · split
        · exact w
        · exact ⟨w.core.addOneShot tp, w.acct, w.ex1, w.ex2, w.st1, w.run1, w.sp1⟩
  | schedPer now iv =>
    simp only [step, schedulePeriodic]
    split
    · exact w
    · split
      · exact w
      · split
        · exact w
        · split
          · exact w
          · exact ⟨w.core.addPeriodic now iv, w.acct, w.ex1, w.ex2, w.st1, w.run1, w.sp1⟩
  | cancel id =>
    simp only [step, cancel, cancelWith]
    have hm : Core s.nextId (s.records.map (markCanceled id)) s.periodic s.heap := by
      have := w.core.mark (markCanceled id) (fun p => p) (markCanceled_cases id) (fun p => ⟨rfl, rfl, rfl⟩)
      simpa using this
    split
    · refine ⟨?_, w.acct, w.ex1, w.ex2, w.st1, w.run1, w.sp1⟩
      apply hm.dropPer id
      intro r hr hid _
      obtain ⟨r0, h0, rfl⟩ := List.mem_map.mp hr
      exact markCanceled_hit id r0 ((markCanceled_id id r0).1 ▸ hid)
    · exact ⟨hm, w.acct, w.ex1, w.ex2, w.st1, w.run1, w.sp1⟩
  | collect now ax =>
    simp only [step, collect]
    split
    · exact w
    · rename_i hg
      simp only [Bool.or_eq_true, not_or, Bool.not_eq_true, Bool.not_eq_true', List.isEmpty_iff] at hg
      obtain ⟨⟨⟨⟨hx, hxi⟩, hr⟩, hi⟩, hax⟩ := hg
      have hr' : s.ready = [] := by simpa using hr
      have hi' : s.inflight = none := by simpa using hi
      refine ⟨collect_loop_core s now w, ?_, ?_, ?_, w.st1, w.run1, w.sp1⟩
      · have := w.acct
        simp only [hr', hi'] at this ⊢
        simp [this]
      · intro h; simp only at h; rw [hx] at h; cases h
      · intro h
        simp only at h
        subst h
        simpa using hax
  | hstart =>
    simp only [step, hstart]
    cases hin : s.inflight with
    | some x => simpa [hin] using w
    | none =>
      cases hrd : s.ready with
      | nil => simpa [hin, hrd] using w
      | cons h rest =>
        simp only [Option.isSome_none, Bool.false_eq_true, if_false]
        have hacc := w.acct
        rw [hrd, hin] at hacc
        simp only [List.length_cons, Option.toList_none, List.length_nil, Nat.add_zero] at hacc
        split
        · refine ⟨w.core, ?_, ?_, w.ex2, w.st1, w.run1, w.sp1⟩
          · simp only [hin, Option.toList_none, List.length_nil, Nat.add_zero]; omega
          · intro hx; have := (w.ex1 hx).2.1; rw [hrd] at this; cases this
        · refine ⟨w.core, ?_, ?_, w.ex2, w.st1, w.run1, w.sp1⟩
          · simp only [Option.toList_some, List.length_singleton]; omega
          · intro hx; have := (w.ex1 hx).2.1; rw [hrd] at this; cases this
  | hend =>
    simp only [step, hend]
    cases hin : s.inflight with
    | none => simpa [hin] using w
    | some h =>
      simp only
      have hacc := w.acct
      rw [hin] at hacc
      simp only [Option.toList_some, List.length_singleton] at hacc
      refine ⟨w.core, ?_, ?_, w.ex2, w.st1, w.run1, w.sp1⟩
      · simp only [Option.toList_none, List.length_nil, Nat.add_zero]; omega
      · intro hx; have := (w.ex1 hx).2.2; rw [hin] at this; cases this
  | loopExit =>
    simp only [step, loopExit]
    split
    · rename_i hg
      simp only [Bool.and_eq_true, List.isEmpty_iff, Option.isNone_iff_eq_none] at hg
      exact ⟨w.core, w.acct, fun _ => ⟨hg.1.1, hg.1.2, hg.2⟩, w.ex2, fun h => ⟨(w.st1 h).1, rfl⟩, w.run1, w.sp1⟩
    · exact w
  | drainGate =>
    simp only [step, drainGate]
    split
    · rename_i hg
      exact ⟨w.core, w.acct, w.ex1, w.ex2, by simp, w.run1, fun h => by have := w.sp1 h; rw [hg.1] at this; cases this⟩
    · exact w
  | drainSweep now t =>
    simp only [step, drainSweep]
    split
    · exact w
    · split
      · exact ⟨w.core.mark _ _ (sweep_cases now t) (fun p => ⟨rfl, rfl, rfl⟩), w.acct, w.ex1, w.ex2, w.st1, w.run1, w.sp1⟩
      · exact ⟨w.core, w.acct, w.ex1, w.ex2, w.st1, w.run1, w.sp1⟩
  | drainDone =>
    simp only [step, drainDone]
    split
    · exact ⟨w.core, w.acct, w.ex1, w.ex2, w.st1, w.run1, w.sp1⟩
    · exact w
  | drainTimeout =>
    simp only [step, drainTimeout]
    split
    · exact ⟨w.core, w.acct, w.ex1, w.ex2, w.st1, w.run1, w.sp1⟩
    · exact w
  | drainRestore =>
    simp only [step, drainRestore]
    split
    · exact w
    · split
      · rename_i hl
        exact ⟨w.core, w.acct, w.ex1, w.ex2, by simp, w.run1, fun h => by have := w.sp1 h; rw [hl] at this; cases this⟩
      · exact ⟨w.core, w.acct, w.ex1, w.ex2, w.st1, w.run1, w.sp1⟩
  | stopFlag =>
    simp only [step, stopFlag]
    split
    · rename_i hg
      refine ⟨w.core, w.acct, w.ex1, w.ex2, fun h => ⟨rfl, (w.st1 h).2⟩, ?_, by simp⟩
      intro hr
      rcases w.run1 hr with h | h <;> rw [hg.1] at h <;> cases h
    · exact w
  | stopHalt =>
    simp only [step, stopHalt]
    split
    · rename_i hg
      exact ⟨w.core, w.acct, w.ex1, fun _ => rfl, w.st1, fun _ => Or.inl rfl, by simp⟩
    · exact w
  | stopFinish =>
    simp only [step, stopFinish]
    split
    · rename_i hg
      exact ⟨w.core, w.acct, w.ex1, w.ex2, fun _ => ⟨rfl, hg.2⟩, fun _ => Or.inr rfl, fun _ => rfl⟩
    · exact w

/-! ### histories -/

theorem collected_snoc (h : Hist) (x : Op × Out) : collected (h ++ [x]) = collected h ++ collectedOf x := by simp [collected]
theorem started_snoc (h : Hist) (x : Op × Out) : started (h ++ [x]) = started h ++ startedOf x := by simp [started]
theorem skipped_snoc (h : Hist) (x : Op × Out) : skipped (h ++ [x]) = skipped h ++ skippedOf x := by simp [skipped]
theorem reqOf_snoc (h : Hist) (x : Op × Out) : reqOf (h ++ [x]) = reqUpd (reqOf h) x := by simp [reqOf, List.foldl_append]

/-- steps that hand out no id leave the request table alone -/
theorem reqUpd_noid (d : Nat → Option (Int × Int)) (op : Op) (out : Out) (h : ∀ n, out = .id n → n = 0) : reqUpd d (op, out) = d := by
  cases out with
  | id n =>
    have := h n rfl
    subst this
    cases op <;> first | rfl | (funext i; simp [reqUpd])
  | none => cases op <;> rfl
  | bool b => cases op <;> rfl
  | collected a b => cases op <;> rfl
  | start o => cases op <;> rfl

theorem QInv.mapRec {n rs ps Q} (q : QInv n rs ps Q) (f : Rec → Rec)
    (hf : ∀ r, (f r).id = r.id ∧ (f r).guarded = r.guarded ∧ (f r).k = r.k) : QInv n (rs.map f) ps Q := by
  refine ⟨q.bnd, ?_, q.noper, q.nodup⟩
  intro e he r hr hid
  obtain ⟨r0, h0, rfl⟩ := List.mem_map.mp hr
  have := q.later e he r0 h0 ((hf r0).1 ▸ hid)
  rw [(hf r0).2.1, (hf r0).2.2]
  exact this

/-- invariant tying the state to the history -/
structure HI (s : Svc) (h : Hist) : Prop where
  q : QInv s.nextId s.records s.periodic (collected h)
  /-- every collected invocation is exactly one of: started, skipped (guard closed), still waiting in `ready` -/
  perm : (started h ++ skipped h ++ s.ready).Perm (collected h)
  infl : ∀ e, s.inflight = some e → e ∈ started h
  req : ∀ r ∈ s.records, reqOf h r.id = some (r.t0, r.iv)

theorem HI.init : HI {} [] := ⟨QInv.nil _ _ _, by simp [started, skipped, collected], by simp, by simp⟩

/-- the facts `collect` establishes, for a reachable state -/
theorem collect_spec (s : Svc) (h : Hist) (now : Int) (w : Wf s) (i : HI s h) :
    CLInv now s.nextId s.records (collected h) (fun id t0 iv => reqOf h id = some (t0, iv))
      (collectLoop now collectFuel { records := s.records, periodic := s.periodic, heap := s.heap }) :=
  collectLoop_inv now s.nextId s.records (collected h) _ collectFuel _
    ⟨w.core, by simpa using i.q, by simp, by simp, by simp, fun r hr => Or.inl hr, i.req, by simp⟩

theorem hi_step (L : Limits) (s : Svc) (h : Hist) (op : Op) (w : Wf s) (i : HI s h) :
    HI (step L s op).1 (h ++ [(op, (step L s op).2)]) := by
  have keep : ∀ (s' : Svc) (out : Out), s'.nextId = s.nextId → s'.records = s.records → s'.periodic = s.periodic → s'.ready = s.ready →
      s'.inflight = s.inflight → (∀ n, out = .id n → n = 0) → collectedOf (op, out) = [] → startedOf (op, out) = [] → skippedOf (op, out) = [] →
      HI s' (h ++ [(op, out)]) := by
    intro s' out h1 h2 h3 h4 h5 h6 h7 h8 h9
    refine ⟨?_, ?_, ?_, ?_⟩
    · rw [collected_snoc, h7, List.append_nil, h1, h2, h3]; exact i.q
    · rw [collected_snoc, started_snoc, skipped_snoc, h7, h8, h9, h4]; simpa using i.perm
    · intro e he; rw [started_snoc, h8, List.append_nil]; exact i.infl e (h5 ▸ he)
    · intro r hr; rw [reqOf_snoc, reqUpd_noid _ _ _ h6]; exact i.req r (h2 ▸ hr)
  cases op with
  | schedAt now tp =>
    simp only [step, scheduleAt]
    split
    · exact keep _ _ rfl rfl rfl rfl rfl (by simp) rfl rfl rfl
    · split
      · exact keep _ _ rfl rfl rfl rfl rfl (by simp) rfl rfl rfl
      · split
        · exact keep _ _ rfl rfl rfl rfl rfl (by simp) rfl rfl rfl
        · refine ⟨?_, ?_, ?_, ?_⟩
          · rw [collected_snoc]
            simp only [collectedOf, List.append_nil]
            exact i.q.fresh _ rfl s.periodic (fun p hp => Or.inl ⟨p, hp, rfl⟩)
          · rw [collected_snoc, started_snoc, skipped_snoc]; simpa [collectedOf, startedOf, skippedOf] using i.perm
          · intro e he; rw [started_snoc]; simp only [startedOf, List.append_nil]; exact i.infl e he
          · intro r hr
            rw [reqOf_snoc]
            simp only [List.mem_append, List.mem_singleton] at hr
            simp only [reqUpd]
            rcases hr with hr | rfl
            · have := (w.core.rle r hr).2
              have hne : ¬ (s.nextId + 1 ≠ 0 ∧ r.id = s.nextId + 1) := by omega
              simp only [hne, if_false]
              exact i.req r hr
            · simp
  | schedPer now iv =>
    simp only [step, schedulePeriodic]
    split
    · exact keep _ _ rfl rfl rfl rfl rfl (by simp) rfl rfl rfl
    · split
      · exact keep _ _ rfl rfl rfl rfl rfl (by simp) rfl rfl rfl
      · split
        · exact keep _ _ rfl rfl rfl rfl rfl (by simp) rfl rfl rfl
        · split
          · exact keep _ _ rfl rfl rfl rfl rfl (by simp) rfl rfl rfl
          · refine ⟨?_, ?_, ?_, ?_⟩
            · rw [collected_snoc]
              simp only [collectedOf, List.append_nil]
              refine i.q.fresh _ rfl _ ?_
              intro p hp
              simp only [List.mem_append, List.mem_singleton] at hp
              rcases hp with hp | rfl
              · exact Or.inl ⟨p, hp, rfl⟩
              · exact Or.inr rfl
            · rw [collected_snoc, started_snoc, skipped_snoc]; simpa [collectedOf, startedOf, skippedOf] using i.perm
            · intro e he; rw [started_snoc]; simp only [startedOf, List.append_nil]; exact i.infl e he
            · intro r hr
              rw [reqOf_snoc]
              simp only [List.mem_append, List.mem_singleton] at hr
              simp only [reqUpd]
              rcases hr with hr | rfl
              · have := (w.core.rle r hr).2
                have hne : ¬ (s.nextId + 1 ≠ 0 ∧ r.id = s.nextId + 1) := by omega
                simp only [hne, if_false]
                exact i.req r hr
              · simp
  | cancel id =>
    have hq : QInv s.nextId (s.records.map (markCanceled id)) s.periodic (collected h) :=
      i.q.mapRec _ (fun r => ⟨(markCanceled_id id r).1, (markCanceled_id id r).2.1, (markCanceled_id id r).2.2.1⟩)
    have hreq : ∀ r ∈ s.records.map (markCanceled id), reqOf h r.id = some (r.t0, r.iv) := by
      intro r hr
      obtain ⟨r0, h0, rfl⟩ := List.mem_map.mp hr
      rw [(markCanceled_id id r0).1, (markCanceled_id id r0).2.2.2.1, (markCanceled_id id r0).2.2.2.2.1]
      exact i.req r0 h0
    simp only [step, cancel, cancelWith]
    split
    · refine ⟨?_, ?_, ?_, ?_⟩
      · rw [collected_snoc]; simp only [collectedOf, List.append_nil]
        exact hq.shrink (fun r hr => hr) (fun p hp => ⟨p, (mem_erasePer.mp hp).1, rfl⟩)
      · rw [collected_snoc, started_snoc, skipped_snoc]; simpa [collectedOf, startedOf, skippedOf] using i.perm
      · intro e he; rw [started_snoc]; simp only [startedOf, List.append_nil]; exact i.infl e he
      · intro r hr; rw [reqOf_snoc, reqUpd_noid _ _ _ (by simp)]; exact hreq r hr
    · refine ⟨?_, ?_, ?_, ?_⟩
      · rw [collected_snoc]; simp only [collectedOf, List.append_nil]; exact hq
      · rw [collected_snoc, started_snoc, skipped_snoc]; simpa [collectedOf, startedOf, skippedOf] using i.perm
      · intro e he; rw [started_snoc]; simp only [startedOf, List.append_nil]; exact i.infl e he
      · intro r hr; rw [reqOf_snoc, reqUpd_noid _ _ _ (by simp)]; exact hreq r hr
  | collect now ax =>
    simp only [step, collect]
    split
    · exact keep _ _ rfl rfl rfl rfl rfl (by simp) rfl rfl rfl
    · rename_i hg
      simp only [Bool.or_eq_true, not_or, Bool.not_eq_true, Bool.not_eq_true', List.isEmpty_iff] at hg
      obtain ⟨⟨⟨_, hr⟩, hi⟩, _⟩ := hg
      have hr' : s.ready = [] := by simpa using hr
      have hi' : s.inflight = none := by simpa using hi
      have sp := collect_spec s h now w i
      refine ⟨?_, ?_, ?_, ?_⟩
      · rw [collected_snoc]; simp only [collectedOf]; exact sp.q
      · rw [collected_snoc, started_snoc, skipped_snoc]
        simp only [collectedOf, startedOf, skippedOf, List.append_nil]
        have := i.perm
        rw [hr', List.append_nil] at this
        exact this.append_right _
      · intro e he; simp only [hi'] at he; cases he
      · intro r hr; rw [reqOf_snoc, reqUpd_noid _ _ _ (by simp)]; exact sp.rrec r hr
  | hstart =>
    simp only [step, hstart]
    cases hin : s.inflight with
    | some x => simpa [hin] using keep s (.start .none) rfl rfl rfl rfl rfl (by simp) rfl rfl rfl
    | none =>
      cases hrd : s.ready with
      | nil => simpa [hin, hrd] using keep s (.start .none) rfl rfl rfl rfl rfl (by simp) rfl rfl rfl
      | cons e rest =>
        simp only [Option.isSome_none, Bool.false_eq_true, if_false]
        have hp := i.perm
        rw [hrd] at hp
        split
        · refine ⟨?_, ?_, ?_, ?_⟩
          · rw [collected_snoc]; simp only [collectedOf, List.append_nil]; exact i.q
          · rw [collected_snoc, started_snoc, skipped_snoc]
            simp only [collectedOf, startedOf, skippedOf, List.append_nil]
            refine List.Perm.trans ?_ hp
            rw [List.perm_iff_count]; intro a
            simp only [List.count_append, List.count_cons, List.count_nil]; omega
          · intro x hx; simp only [hin] at hx; cases hx
          · intro r hr; rw [reqOf_snoc, reqUpd_noid _ _ _ (by simp)]; exact i.req r hr
        · refine ⟨?_, ?_, ?_, ?_⟩
          · rw [collected_snoc]; simp only [collectedOf, List.append_nil]; exact i.q
          · rw [collected_snoc, started_snoc, skipped_snoc]
            simp only [collectedOf, startedOf, skippedOf, List.append_nil]
            refine List.Perm.trans ?_ hp
            rw [List.perm_iff_count]; intro a
            simp only [List.count_append, List.count_cons, List.count_nil]; omega
          · intro x hx
            simp only [Option.some.injEq] at hx
            subst hx
            rw [started_snoc]; simp [startedOf]
          · intro r hr; rw [reqOf_snoc, reqUpd_noid _ _ _ (by simp)]; exact i.req r hr
  | hend =>
    simp only [step, hend]
    cases hin : s.inflight with
    | none => simpa [hin] using keep s .none rfl rfl rfl rfl rfl (by simp) rfl rfl rfl
    | some e =>
      refine ⟨?_, ?_, ?_, ?_⟩
      · rw [collected_snoc]; simp only [collectedOf, List.append_nil]; exact i.q
      · rw [collected_snoc, started_snoc, skipped_snoc]; simpa [collectedOf, startedOf, skippedOf] using i.perm
      · intro x hx; cases hx
      · intro r hr; rw [reqOf_snoc, reqUpd_noid _ _ _ (by simp)]; exact i.req r hr
  | loopExit =>
    simp only [step, loopExit]
    split <;> exact keep _ _ rfl rfl rfl rfl rfl (by simp) rfl rfl rfl
  | drainGate =>
    simp only [step, drainGate]
    split <;> exact keep _ _ rfl rfl rfl rfl rfl (by simp) rfl rfl rfl
  | drainSweep now t =>
    simp only [step, drainSweep]
    split
    · exact keep _ _ rfl rfl rfl rfl rfl (by simp) rfl rfl rfl
    · split
      · have hcase := sweep_cases now t
        have hid : ∀ r : Rec, (if !r.canceled && r.tp > now + t then { r with canceled := true } else r).id = r.id ∧
            (if !r.canceled && r.tp > now + t then { r with canceled := true } else r).guarded = r.guarded ∧
            (if !r.canceled && r.tp > now + t then { r with canceled := true } else r).k = r.k ∧
            (if !r.canceled && r.tp > now + t then { r with canceled := true } else r).t0 = r.t0 ∧
            (if !r.canceled && r.tp > now + t then { r with canceled := true } else r).iv = r.iv := by
          intro r; rcases hcase r with h | h <;> rw [h] <;> simp
        refine ⟨?_, ?_, ?_, ?_⟩
        · rw [collected_snoc]; simp only [collectedOf, List.append_nil]
          exact (i.q.mapRec _ (fun r => ⟨(hid r).1, (hid r).2.1, (hid r).2.2.1⟩)).shrink (fun r hr => hr)
            (fun p hp => by obtain ⟨p0, h0, rfl⟩ := List.mem_map.mp hp; exact ⟨p0, h0, rfl⟩)
        · rw [collected_snoc, started_snoc, skipped_snoc]; simpa [collectedOf, startedOf, skippedOf] using i.perm
        · intro e he; rw [started_snoc]; simp only [startedOf, List.append_nil]; exact i.infl e he
        · intro r hr
          obtain ⟨r0, h0, rfl⟩ := List.mem_map.mp hr
          rw [reqOf_snoc, reqUpd_noid _ _ _ (by simp), (hid r0).1, (hid r0).2.2.2.1, (hid r0).2.2.2.2]
          exact i.req r0 h0
      · exact keep _ _ rfl rfl rfl rfl rfl (by simp) rfl rfl rfl
  | drainDone =>
    simp only [step, drainDone]
    split <;> exact keep _ _ rfl rfl rfl rfl rfl (by simp) rfl rfl rfl
  | drainTimeout =>
    simp only [step, drainTimeout]
    split <;> exact keep _ _ rfl rfl rfl rfl rfl (by simp) rfl rfl rfl
  | drainRestore =>
    simp only [step, drainRestore]
    split
    · exact keep _ _ rfl rfl rfl rfl rfl (by simp) rfl rfl rfl
    · split <;> exact keep _ _ rfl rfl rfl rfl rfl (by simp) rfl rfl rfl
  | stopFlag =>
    simp only [step, stopFlag]
    split <;> exact keep _ _ rfl rfl rfl rfl rfl (by simp) rfl rfl rfl
  | stopHalt =>
    simp only [step, stopHalt]
    split <;> exact keep _ _ rfl rfl rfl rfl rfl (by simp) rfl rfl rfl
  | stopFinish =>
    simp only [step, stopFinish]
    split <;> exact keep _ _ rfl rfl rfl rfl rfl (by simp) rfl rfl rfl

theorem inv_runFrom (L : Limits) : ∀ (ops : List Op) (s : Svc) (h : Hist), Wf s → HI s h →
    Wf (runFrom L s h ops).1 ∧ HI (runFrom L s h ops).1 (runFrom L s h ops).2
  | [], _, _, w, i => ⟨w, i⟩
  | op :: ops, s, h, w, i => inv_runFrom L ops _ _ (wf_step L s op w) (hi_step L s h op w i)

theorem inv_run (L : Limits) (ops : List Op) : Wf (run L ops).1 ∧ HI (run L ops).1 (run L ops).2 :=
  inv_runFrom L ops _ _ Wf.init HI.init

/-! ### after a successful cancel -/

/-- state of an id for which `cancel` has answered `true`: no live record, no periodic entry, and whatever invocation of it is still
waiting in `ready` goes through a closed guard -/
structure Dead (id : Nat) (s : Svc) : Prop where
  recs : ∀ r ∈ s.records, r.id = id → r.canceled = true
  pers : ∀ p ∈ s.periodic, p.id ≠ id
  rdy : ∀ e ∈ s.ready, e.id = id → e.guarded = true ∧ s.closed.contains id = true

theorem collectLoop_dead (now : Int) (id : Nat) : ∀ (f : Nat) (c : CL),
    (∀ r ∈ c.records, r.id = id → r.canceled = true) → (∀ p ∈ c.periodic, p.id ≠ id) → (∀ e ∈ c.out, e.id ≠ id) →
    (∀ r ∈ (collectLoop now f c).records, r.id = id → r.canceled = true) ∧ (∀ p ∈ (collectLoop now f c).periodic, p.id ≠ id) ∧
    (∀ e ∈ (collectLoop now f c).out, e.id ≠ id)
  | 0, c, h1, h2, h3 => ⟨h1, h2, h3⟩
  | f + 1, c, h1, h2, h3 => by
    unfold collectLoop
    split
    · exact ⟨h1, h2, h3⟩
    · split
      · exact ⟨h1, h2, h3⟩
      · split
        · exact collectLoop_dead now id f _ h1 h2 h3
        · rename_i rc hfind
          obtain ⟨hrc, _⟩ := findRec_some hfind
          have hrecs : ∀ r ∈ eraseRec c.records rc.id, r.id = id → r.canceled = true := fun r hr => h1 r (mem_eraseRec.mp hr).1
          cases hcan : rc.canceled
          · simp only [Bool.not_false, if_true, Bool.and_true]
            have hne : rc.id ≠ id := by
              intro hid
              have := h1 rc hrc hid
              rw [hcan] at this; cases this
            have hout : ∀ e ∈ c.out ++ [rc.hnd], e.id ≠ id := by
              intro e he
              simp only [List.mem_append, List.mem_singleton] at he
              rcases he with he | rfl
              · exact h3 e he
              · exact hne
            split
            · exact collectLoop_dead now id f _ hrecs h2 hout
            · split
              · apply collectLoop_dead now id f _ _ _ hout
                · intro r hr hid
                  simp only [List.mem_append, List.mem_singleton] at hr
                  rcases hr with hr | rfl
                  · exact hrecs r hr hid
                  · exact absurd hid hne
                · intro p hp
                  obtain ⟨p0, h0, rfl⟩ := List.mem_map.mp hp
                  have := h2 p0 h0
                  split <;> exact this
              · exact collectLoop_dead now id f _ hrecs (fun p hp => h2 p (mem_erasePer.mp hp).1) hout
          · simp only [Bool.not_true, Bool.false_eq_true, if_false, Bool.and_false]
            split
            · exact collectLoop_dead now id f _ hrecs h2 h3
            · exact collectLoop_dead now id f _ hrecs (fun p hp => h2 p (mem_erasePer.mp hp).1) h3

theorem markCanceled_keeps (j : Nat) (r : Rec) (h : r.canceled = true) : (markCanceled j r).canceled = true := by
  unfold markCanceled
  split
  · rfl
  · exact h

theorem dead_step (L : Limits) (id : Nat) (s : Svc) (op : Op) (d : Dead id s) (hle : id ≤ s.nextId) :
    Dead id (step L s op).1 ∧ id ≤ (step L s op).1.nextId ∧ ∀ e ∈ startedOf (op, (step L s op).2), e.id ≠ id := by
  have same : ∀ (s' : Svc) (out : Out), s'.records = s.records → s'.periodic = s.periodic → s'.ready = s.ready → s'.closed = s.closed →
      s'.nextId = s.nextId → startedOf (op, out) = [] → Dead id s' ∧ id ≤ s'.nextId ∧ ∀ e ∈ startedOf (op, out), e.id ≠ id := by
    intro s' out h1 h2 h3 h4 h5 h6
    exact ⟨⟨h1 ▸ d.recs, h2 ▸ d.pers, by rw [h3, h4]; exact d.rdy⟩, h5 ▸ hle, by simp [h6]⟩
  cases op with
  | schedAt now tp =>
    simp only [step, scheduleAt]
    split
    · exact same _ _ rfl rfl rfl rfl rfl rfl
    · split
      · exact same _ _ rfl rfl rfl rfl rfl rfl
      · split
        · exact same _ _ rfl rfl rfl rfl rfl rfl
        · refine ⟨⟨?_, d.pers, d.rdy⟩, by simp only; omega, by simp [startedOf]⟩
          intro r hr hid
          simp only [List.mem_append, List.mem_singleton] at hr
          rcases hr with hr | rfl
          · exact d.recs r hr hid
          · simp only at hid; omega
  | schedPer now iv =>
    simp only [step, schedulePeriodic]
    split
    · exact same _ _ rfl rfl rfl rfl rfl rfl
    · split
      · exact same _ _ rfl rfl rfl rfl rfl rfl
      · split
        · exact same _ _ rfl rfl rfl rfl rfl rfl
        · split
          · exact same _ _ rfl rfl rfl rfl rfl rfl
          · refine ⟨⟨?_, ?_, d.rdy⟩, by simp only; omega, by simp [startedOf]⟩
            · intro r hr hid
              simp only [List.mem_append, List.mem_singleton] at hr
              rcases hr with hr | rfl
              · exact d.recs r hr hid
              · simp only at hid; omega
            · intro p hp
              simp only [List.mem_append, List.mem_singleton] at hp
              rcases hp with hp | rfl
              · exact d.pers p hp
              · simp only; omega
  | cancel j =>
    have hrecs : ∀ r ∈ s.records.map (markCanceled j), r.id = id → r.canceled = true := by
      intro r hr hid
      obtain ⟨r0, h0, rfl⟩ := List.mem_map.mp hr
      exact markCanceled_keeps j r0 (d.recs r0 h0 ((markCanceled_id j r0).1 ▸ hid))
    simp only [step, cancel, cancelWith]
    split
    · refine ⟨⟨hrecs, fun p hp => d.pers p (mem_erasePer.mp hp).1, ?_⟩, hle, by simp [startedOf]⟩
      intro e he hid
      have := d.rdy e he hid
      refine ⟨this.1, ?_⟩
      split
      · simp only [List.contains_cons, Bool.or_eq_true]
        exact Or.inr this.2
      · exact this.2
    · exact ⟨⟨hrecs, d.pers, d.rdy⟩, hle, by simp [startedOf]⟩
  | collect now ax =>
    simp only [step, collect]
    split
    · exact same _ _ rfl rfl rfl rfl rfl rfl
    · obtain ⟨h1, h2, h3⟩ := collectLoop_dead now id collectFuel { records := s.records, periodic := s.periodic, heap := s.heap }
        d.recs d.pers (by simp)
      exact ⟨⟨h1, h2, fun e he hid => absurd hid (h3 e he)⟩, hle, by simp [startedOf]⟩
  | hstart =>
    simp only [step, hstart]
    cases hin : s.inflight with
    | some x => simpa [hin] using same s (.start .none) rfl rfl rfl rfl rfl rfl
    | none =>
      cases hrd : s.ready with
      | nil => simpa [hin, hrd] using same s (.start .none) rfl rfl rfl rfl rfl rfl
      | cons e rest =>
        simp only [Option.isSome_none, Bool.false_eq_true, if_false]
        have hrest : ∀ x ∈ rest, x.id = id → x.guarded = true ∧ s.closed.contains id = true :=
          fun x hx => d.rdy x (hrd ▸ List.mem_cons_of_mem _ hx)
        split
        · exact ⟨⟨d.recs, d.pers, hrest⟩, hle, by simp [startedOf]⟩
        · rename_i hns
          refine ⟨⟨d.recs, d.pers, hrest⟩, hle, ?_⟩
          intro x hx
          simp only [startedOf, List.mem_singleton] at hx
          subst hx
          intro hid
          have := d.rdy x (hrd ▸ List.mem_cons_self) hid
          apply hns
          rw [this.1, hid, this.2]; rfl
  | hend =>
    simp only [step, hend]
    split <;> exact same _ _ rfl rfl rfl rfl rfl rfl
  | loopExit =>
    simp only [step, loopExit]
    split <;> exact same _ _ rfl rfl rfl rfl rfl rfl
  | drainGate =>
    simp only [step, drainGate]
    split <;> exact same _ _ rfl rfl rfl rfl rfl rfl
  | drainSweep now t =>
    simp only [step, drainSweep]
    split
    · exact same _ _ rfl rfl rfl rfl rfl rfl
    · split
      · refine ⟨⟨?_, ?_, d.rdy⟩, hle, by simp [startedOf]⟩
        · intro r hr hid
          obtain ⟨r0, h0, rfl⟩ := List.mem_map.mp hr
          rcases sweep_cases now t r0 with h | h
          · rw [h] at hid ⊢; exact d.recs r0 h0 hid
          · rw [h]
        · intro p hp
          obtain ⟨p0, h0, rfl⟩ := List.mem_map.mp hp
          exact d.pers p0 h0
      · exact same _ _ rfl rfl rfl rfl rfl rfl
  | drainDone =>
    simp only [step, drainDone]
    split <;> exact same _ _ rfl rfl rfl rfl rfl rfl
  | drainTimeout =>
    simp only [step, drainTimeout]
    split <;> exact same _ _ rfl rfl rfl rfl rfl rfl
  | drainRestore =>
    simp only [step, drainRestore]
    split
    · exact same _ _ rfl rfl rfl rfl rfl rfl
    · split <;> exact same _ _ rfl rfl rfl rfl rfl rfl
  | stopFlag =>
    simp only [step, stopFlag]
    split <;> exact same _ _ rfl rfl rfl rfl rfl rfl
  | stopHalt =>
    simp only [step, stopHalt]
    split <;> exact same _ _ rfl rfl rfl rfl rfl rfl
  | stopFinish =>
    simp only [step, stopFinish]
    split <;> exact same _ _ rfl rfl rfl rfl rfl rfl

theorem dead_trace (L : Limits) (id : Nat) : ∀ (ops : List Op) (s : Svc), Dead id s → id ≤ s.nextId →
    ∀ e ∈ started (trace L s ops), e.id ≠ id
  | [], _, _, _ => by simp [trace, started]
  | op :: ops, s, d, hle => by
    obtain ⟨d', hle', hst⟩ := dead_step L id s op d hle
    intro e he
    simp only [trace, started, List.flatMap_cons, List.mem_append] at he
    rcases he with he | he
    · exact hst e he
    · exact dead_trace L id ops _ d' hle' e he

/-- `cancel(id) = true` in a reachable state makes the id dead -/
theorem cancel_true_dead (s : Svc) (h : Hist) (id : Nat) (w : Wf s) (i : HI s h) (ht : (cancel s id).2 = true) :
    Dead id (cancel s id).1 ∧ id ≤ (cancel s id).1.nextId := by
  have hrecs : ∀ r ∈ s.records.map (markCanceled id), r.id = id → r.canceled = true := by
    intro r hr hid
    obtain ⟨r0, h0, rfl⟩ := List.mem_map.mp hr
    exact markCanceled_hit id r0 ((markCanceled_id id r0).1 ▸ hid)
  -- an invocation of `id` waiting in `ready` was collected; the containers say it is periodic
  have hready : ∀ e ∈ s.ready, e.id = id → e.guarded = true := by
    intro e he hid
    have hc : e ∈ collected h := i.perm.subset (List.mem_append_right _ he)
    cases hg : e.guarded
    · exfalso
      have hnor : ∀ r ∈ s.records, r.id ≠ id := by
        intro r hr hrid
        have := (i.q.later e hc r hr (hrid.trans hid.symm)).1
        rw [hg] at this; cases this
      have hnop : ∀ p ∈ s.periodic, p.id ≠ id := fun p hp => hid ▸ i.q.noper e hc hg p hp
      have h1 : findRec s.records id = none := by
        cases hf : findRec s.records id with
        | none => rfl
        | some r => exact absurd (findRec_some hf).2 (hnor r (findRec_some hf).1)
      have h2 : findPer s.periodic id = none := by
        cases hf : findPer s.periodic id with
        | none => rfl
        | some p => exact absurd (findPer_some hf).2 (hnop p (findPer_some hf).1)
      simp [cancel, cancelWith, h1, h2] at ht
    · rfl
  unfold cancel cancelWith at ht ⊢
  simp only at ht ⊢
  cases hp : findPer s.periodic id with
  | some pt =>
    simp only [hp]
    obtain ⟨hpt, hptid⟩ := findPer_some hp
    -- the guard is closed on every successful cancel of a periodic entry: this is where the source shape read by the translator
    -- (`cancelFlag->store(true)` outside the `if (!entry.canceled)` transition block) is used
    have hg : Gen.Timer.svcCancelClosesGuardAlways = true := by decide
    refine ⟨⟨hrecs, fun p hp' => (mem_erasePer.mp hp').2, fun e he hid => ⟨hready e he hid, by simp [hg]⟩⟩, ?_⟩
    exact hptid ▸ (w.core.ple pt hpt).2
  | none =>
    simp only [hp] at ht ⊢
    cases hf : findRec s.records id with
    | none => simp [hf] at ht
    | some rc =>
      simp only [hf, Bool.not_eq_true'] at ht
      obtain ⟨hrc, hrcid⟩ := findRec_some hf
      refine ⟨⟨hrecs, findPer_none hp, ?_⟩, hrcid ▸ (w.core.rle rc hrc).2⟩
      intro e he hid
      exfalso
      have hc : e ∈ collected h := i.perm.subset (List.mem_append_right _ he)
      have hg := (i.q.later e hc rc hrc (hrcid.trans hid.symm)).2.1
      obtain ⟨p, hp', hpid⟩ := w.core.gp rc hrc hg ht
      exact findPer_none hp p hp' (hpid.trans hrcid)

/-! ### after `stop()` has returned -/

theorem stopped_step (L : Limits) (s : Svc) (op : Op) (w : Wf s) (hs : s.life = .stopped) :
    (step L s op).1.life = .stopped ∧ startedOf (op, (step L s op).2) = [] := by
  obtain ⟨hacc, hex⟩ := w.st1 hs
  obtain ⟨_, hrd, hin⟩ := w.ex1 hex
  cases op with
  | schedAt now tp => simp [step, scheduleAt, hacc, hs, startedOf]
  | schedPer now iv => simp [step, schedulePeriodic, hacc, hs, startedOf]
  | cancel id =>
    simp only [step, cancel, cancelWith]
    split <;> exact ⟨hs, rfl⟩
  | collect now ax => simp [step, collect, hex, hs, startedOf]
  | hstart => simp [step, hstart, hin, hrd, hs, startedOf]
  | hend => simp [step, hend, hin, hs, startedOf]
  | loopExit =>
    simp only [step, loopExit]
    split <;> exact ⟨hs, rfl⟩
  | drainGate => simp [step, drainGate, hs, startedOf]
  | drainSweep now t =>
    simp only [step, drainSweep]
    split
    · exact ⟨hs, rfl⟩
    · split <;> exact ⟨hs, rfl⟩
  | drainDone =>
    simp only [step, drainDone]
    split <;> exact ⟨hs, rfl⟩
  | drainTimeout =>
    simp only [step, drainTimeout]
    split <;> exact ⟨hs, rfl⟩
  | drainRestore =>
    simp only [step, drainRestore]
    split
    · exact ⟨hs, rfl⟩
    · split
      · rename_i h; rw [hs] at h; cases h
      · exact ⟨hs, rfl⟩
  | stopFlag =>
    simp only [step, stopFlag]
    split <;> exact ⟨hs, rfl⟩
  | stopHalt =>
    simp only [step, stopHalt]
    split <;> exact ⟨hs, rfl⟩
  | stopFinish =>
    simp only [step, stopFinish]
    split
    · exact ⟨rfl, rfl⟩
    · exact ⟨hs, rfl⟩

theorem stopped_trace (L : Limits) : ∀ (ops : List Op) (s : Svc), Wf s → s.life = .stopped →
    started (trace L s ops) = [] ∧ ∀ h, (runFrom L s h ops).1.life = .stopped ∧ (runFrom L s h ops).1.accepting = false
  | [], s, w, hs => ⟨by simp [trace, started], fun _ => ⟨hs, (w.st1 hs).1⟩⟩
  | op :: ops, s, w, hs => by
    obtain ⟨hs', hst⟩ := stopped_step L s op w hs
    obtain ⟨ih1, ih2⟩ := stopped_trace L ops _ (wf_step L s op w) hs'
    refine ⟨?_, fun h => ih2 _⟩
    simp only [trace, started, List.flatMap_cons]
    rw [hst]
    simpa [started] using ih1

theorem runFrom_append (L : Limits) : ∀ (a b : List Op) (s : Svc) (h : Hist),
    runFrom L s h (a ++ b) = runFrom L (runFrom L s h a).1 (runFrom L s h a).2 b
  | [], _, _, _ => rfl
  | op :: a, b, s, h => by
    simp only [List.cons_append, runFrom]
    exact runFrom_append L a b _ _

/-- steps other than `collect` never remove a record -/
theorem records_kept (L : Limits) (s : Svc) (op : Op) (hop : ∀ now ax, op ≠ .collect now ax) :
    ∀ r ∈ s.records, ∃ r' ∈ (step L s op).1.records, r'.id = r.id ∧ r'.tp = r.tp := by
  intro r hr
  have same : ∀ s' : Svc, s'.records = s.records → ∃ r' ∈ s'.records, r'.id = r.id ∧ r'.tp = r.tp :=
    fun s' h => ⟨r, h ▸ hr, rfl, rfl⟩
  cases op with
  | schedAt now tp =>
    simp only [step, scheduleAt]
    split
    · exact same _ rfl
    · split
      · exact same _ rfl
      · split
        · exact same _ rfl
        · exact ⟨r, List.mem_append_left _ hr, rfl, rfl⟩
  | schedPer now iv =>
    simp only [step, schedulePeriodic]
    split
    · exact same _ rfl
    · split
      · exact same _ rfl
      · split
        · exact same _ rfl
        · split
          · exact same _ rfl
          · exact ⟨r, List.mem_append_left _ hr, rfl, rfl⟩
  | cancel id =>
    simp only [step, cancel, cancelWith]
    split <;> exact ⟨markCanceled id r, List.mem_map_of_mem hr, (markCanceled_id id r).1, (markCanceled_id id r).2.2.2.2.2⟩
  | collect now ax => exact absurd rfl (hop now ax)
  | hstart =>
    simp only [step, hstart]
    split
    · exact same _ rfl
    · split
      · exact same _ rfl
      · split <;> exact same _ rfl
  | hend => simp only [step, hend]; split <;> exact same _ rfl
  | loopExit => simp only [step, loopExit]; split <;> exact same _ rfl
  | drainGate => simp only [step, drainGate]; split <;> exact same _ rfl
  | drainSweep now t =>
    simp only [step, drainSweep]
    split
    · exact same _ rfl
    · split
      · refine ⟨_, List.mem_map_of_mem hr, ?_⟩
        rcases sweep_cases now t r with h | h <;> rw [h] <;> simp
      · exact same _ rfl
  | drainDone => simp only [step, drainDone]; split <;> exact same _ rfl
  | drainTimeout => simp only [step, drainTimeout]; split <;> exact same _ rfl
  | drainRestore =>
    simp only [step, drainRestore]
    split
    · exact same _ rfl
    · split <;> exact same _ rfl
  | stopFlag => simp only [step, stopFlag]; split <;> exact same _ rfl
  | stopHalt => simp only [step, stopHalt]; split <;> exact same _ rfl
  | stopFinish => simp only [step, stopFinish]; split <;> exact same _ rfl

end Iora.Tsvc
