import IoraModel.Lemmas.DnsRoundtrip
/-! C19: malformed names are errors (corollaries of completeness); the A-record rule; exact AAAA / TXT decoding. -/
namespace Iora.Dns
open Iora

theorem joinFrom_nonempty (ls : List Bytes) : ∀ (n : Bytes), n ≠ [] →
    joinFrom n ls = n ++ (ls.map (fun x => (46 : UInt8) :: x)).flatten := by
  induction ls with
  | nil => intro n _; simp [joinFrom]
  | cons l ls ih =>
    intro n hn
    rw [joinFrom_cons]
    have : appendLabel n l = n ++ 46 :: l := by
      unfold appendLabel
      cases n with
      | nil => exact absurd rfl hn
      | cons _ _ => simp
    rw [this, ih _ (by simp)]
    simp [List.append_assoc]

theorem dottedName_cons (l : Bytes) (ls : List Bytes) (hl : l ≠ []) :
    dottedName (l :: ls) = l ++ (ls.map (fun x => (46 : UInt8) :: x)).flatten := by
  unfold dottedName
  rw [joinFrom_cons]
  have : appendLabel [] l = l := by simp [appendLabel]
  rw [this]
  exact joinFrom_nonempty ls l hl

/-- a pointer that points at itself starts no finite chain -/
theorem no_self_loop {m : Bytes} {n : Nat} {b b2 : UInt8} (h0 : m[n]? = some b) (hp : 192 ≤ b.toNat) (h1 : m[n + 1]? = some b2)
    (hs : (b.toNat % 64) * 256 + b2.toNat = n) (ls : List Bytes) (nx : Nat) : ¬ Denotes m n ls nx := by
  intro hd
  obtain ⟨k, hh, hk⟩ := hd.toN
  cases hk with
  | root hz => rw [h0] at hz; cases hz; simp at hp
  | label hb _ h63 _ _ => rw [h0] at hb; cases hb; omega
  | ptr hb _ hb2 hrest =>
    rw [h0] at hb; cases hb
    rw [h1] at hb2; cases hb2
    rw [hs] at hrest
    have := (hrest.det (DenotesN.ptr h0 hp h1 (hs ▸ hrest))).2.2
    omega

theorem self_pointer_rejected (pre post : Bytes) (hp : pre.length < 16384) :
    ∃ e, decodeName (pre ++ [b8 (192 + pre.length / 256), b8 pre.length] ++ post) pre.length = .error e := by
  cases h : decodeName (pre ++ [b8 (192 + pre.length / 256), b8 pre.length] ++ post) pre.length with
  | error e => exact ⟨e, rfl⟩
  | ok r =>
    obtain ⟨n, nx⟩ := r
    obtain ⟨ls, ⟨_, hdh, _, _⟩, _⟩ := decodeName_complete _ _ _ _ h
    have hd := hdh.toDenotes
    exfalso
    have e0 : pre ++ [b8 (192 + pre.length / 256), b8 pre.length] ++ post =
        pre ++ b8 (192 + pre.length / 256) :: (b8 pre.length :: post) := by simp
    have e1 : pre ++ [b8 (192 + pre.length / 256), b8 pre.length] ++ post =
        (pre ++ [b8 (192 + pre.length / 256)]) ++ b8 pre.length :: post := by simp
    have h0 : (pre ++ [b8 (192 + pre.length / 256), b8 pre.length] ++ post)[pre.length]? = some (b8 (192 + pre.length / 256)) := by
      rw [e0]; exact getElem?_mid _ _ _
    have h1 : (pre ++ [b8 (192 + pre.length / 256), b8 pre.length] ++ post)[pre.length + 1]? = some (b8 pre.length) := by
      rw [e1]
      have hl : (pre ++ [b8 (192 + pre.length / 256)]).length = pre.length + 1 := by simp
      rw [← hl]; exact getElem?_mid _ _ _
    have hb : (b8 (192 + pre.length / 256)).toNat = 192 + pre.length / 256 := b8_toNat_small (by omega)
    have hb2 : (b8 pre.length).toNat = pre.length % 256 := b8_toNat _
    exact no_self_loop h0 (by omega) h1 (by rw [hb, hb2]; omega) ls nx hd

theorem out_of_range_rejected (m : Bytes) (off : Nat) (b b2 : UInt8) (h0 : m[off]? = some b) (h1 : m[off + 1]? = some b2)
    (hp : 192 ≤ b.toNat) (hr : m.length ≤ (b.toNat % 64) * 256 + b2.toNat) :
    ∃ e, decodeName m off = .error e := by
  cases h : decodeName m off with
  | error e => exact ⟨e, rfl⟩
  | ok r =>
    obtain ⟨n, nx⟩ := r
    obtain ⟨ls, ⟨_, hdh, _, _⟩, _⟩ := decodeName_complete _ _ _ _ h
    have hd := hdh.toDenotes
    exfalso
    cases hd with
    | root hz => rw [h0] at hz; cases hz; simp at hp
    | label hb _ h63 _ _ => rw [h0] at hb; cases hb; omega
    | ptr hb _ hb2 hrest =>
      rw [h0] at hb; cases hb
      rw [h1] at hb2; cases hb2
      have : (b.toNat % 64) * 256 + b2.toNat < m.length := by
        cases hrest with
        | root hz => exact (List.getElem?_eq_some_iff.mp hz).1
        | label hb' _ _ _ _ => exact (List.getElem?_eq_some_iff.mp hb').1
        | ptr hb' _ _ _ => exact (List.getElem?_eq_some_iff.mp hb').1
      omega

/-! ### records -/

/-- the recorded rule of `validateRdataSecurity` for 4-byte A RDATA: first byte `0xC0`, second `< 64`, last two zero
(the addresses 192.0.0.0 … 192.63.0.0).  Hypothesis of `N2_A_partial`; mirrored by `a_rule_fires` in props/c19.py. -/
def aRuleFires (a : Bytes) : Bool :=
  match a with
  | [b0, b1, b2, b3] => isPtr b0 && decide ((b0.toNat % 64) * 256 + b1.toNat < 64) && decide (b2.toNat = 0) && decide (b3.toNat = 0)
  | _ => false

theorem validate_other (rr : RR) (ht : rr.type ≠ 1) : validateRdata rr = .ok () := by
  unfold validateRdata
  simp [ht]
  rfl

theorem a_record_ok (rr : RR) (ht : rr.type = 1) (hl : rr.rdata.length = 4) (hk : aRuleFires rr.rdata = false) :
    validateRdata rr = .ok () ∧ parseA rr = .ok (.a rr.name rr.rdata rr.ttl) := by
  obtain ⟨name, type, cls, ttl, rdl, rdata⟩ := rr
  dsimp only at ht hl hk ⊢
  match rdata, hl with
  | [b0, b1, b2, b3], _ =>
    subst ht
    have hr0 : rd [b0, b1, b2, b3] 0 = .ok b0 := rfl
    have hr1 : rd [b0, b1, b2, b3] 1 = .ok b1 := rfl
    have hr2 : rd [b0, b1, b2, b3] 2 = .ok b2 := rfl
    have hr3 : rd [b0, b1, b2, b3] 3 = .ok b3 := rfl
    constructor
    · unfold validateRdata
      dsimp only
      rw [if_pos ⟨rfl, by decide⟩, if_neg (by simp [Gen.Dns.aLen])]
      simp only [hr0, hr1, hr2, hr3, bind, Except.bind]
      simp only [aRuleFires] at hk
      have hm : Gen.Dns.compressionMask = 192 := rfl
      have hlim : Gen.Dns.aPointerLimit = 64 := rfl
      split
      · rename_i hp
        split
        · rename_i hc
          rw [hm, hlim] at hc
          obtain ⟨h1, h2, h3⟩ := hc
          simp only [hp, Bool.true_and, Bool.and_eq_false_iff, decide_eq_false_iff_not] at hk
          rcases hk with (hk | hk) | hk
          · exact absurd h1 hk
          · exact absurd h2 hk
          · exact absurd h3 hk
        · rfl
      · rfl
    · unfold parseA
      dsimp only
      rw [if_neg (by simp [Gen.Dns.lenA])]
      simp only [hr0, hr1, hr2, hr3, bind, Except.bind]
      rfl

theorem aaaa_exact (rr : RR) (hl : rr.rdata.length = 16) : parseAAAA rr = .ok (.aaaa rr.name rr.rdata rr.ttl) := by
  unfold parseAAAA
  have hs : slice rr.rdata 0 16 = rr.rdata := by
    simp only [slice, List.drop_zero]
    exact List.take_of_length_le (by omega)
  simp [Gen.Dns.lenAAAA, hl, copy_ok (show 0 + 16 ≤ rr.rdata.length by omega), hs, bind, Except.bind, pure, Except.pure]

/-- tightness of the carve-out: every 4-byte A record inside `aRuleFires` IS rejected -/
theorem a_rule_rejects (rr : RR) (ht : rr.type = 1) (hl : rr.rdata.length = 4) (hk : aRuleFires rr.rdata = true) :
    validateRdata rr = .error .malicious := by
  obtain ⟨name, type, cls, ttl, rdl, rdata⟩ := rr
  dsimp only at ht hl hk ⊢
  match rdata, hl with
  | [b0, b1, b2, b3], _ =>
    subst ht
    have hr0 : rd [b0, b1, b2, b3] 0 = .ok b0 := rfl
    have hr1 : rd [b0, b1, b2, b3] 1 = .ok b1 := rfl
    have hr2 : rd [b0, b1, b2, b3] 2 = .ok b2 := rfl
    have hr3 : rd [b0, b1, b2, b3] 3 = .ok b3 := rfl
    simp only [aRuleFires, Bool.and_eq_true, decide_eq_true_eq] at hk
    obtain ⟨⟨⟨hp, h1⟩, h2⟩, h3⟩ := hk
    unfold validateRdata
    dsimp only
    rw [if_pos ⟨rfl, by decide⟩, if_neg (by simp [Gen.Dns.aLen])]
    simp only [hr0, hr1, hr2, hr3, bind, Except.bind, hp, ↓reduceIte]
    rw [if_pos]
    exact ⟨by simpa [Gen.Dns.compressionMask, Gen.Dns.aPointerLimit] using h1, h2, h3⟩

/-- RDATA of a TXT record: a sequence of character strings -/
def encodeTxt : List Bytes → Bytes
  | [] => []
  | t :: ts => b8 t.length :: t ++ encodeTxt ts

theorem txt_exact (ts : List Bytes) (h : ∀ t ∈ ts, t.length < 256) : ∀ (pre : Bytes) (acc : List Bytes),
    txtGo (pre ++ encodeTxt ts) pre.length acc = .ok (acc ++ ts) := by
  induction ts with
  | nil =>
    intro pre acc
    unfold txtGo
    simp [encodeTxt]
  | cons t ts ih =>
    intro pre acc
    have ht := h t (by simp)
    have hb : (b8 t.length).toNat = t.length := b8_toNat_small ht
    have e0 : pre ++ encodeTxt (t :: ts) = pre ++ b8 t.length :: (t ++ encodeTxt ts) := by simp [encodeTxt]
    have e1 : pre ++ encodeTxt (t :: ts) = (pre ++ [b8 t.length]) ++ t ++ encodeTxt ts := by simp [encodeTxt]
    have e2 : pre ++ encodeTxt (t :: ts) = (pre ++ b8 t.length :: t) ++ encodeTxt ts := by simp [encodeTxt]
    unfold txtGo
    have hlt : pre.length < (pre ++ encodeTxt (t :: ts)).length := by rw [e0]; simp
    simp only [hlt, ↓reduceIte]
    have hrd : rd (pre ++ encodeTxt (t :: ts)) pre.length = .ok (b8 t.length) := by rw [e0]; exact rd_mid _ _ _
    rw [hrd]
    dsimp only
    have hfit : ¬ pre.length + 1 + (b8 t.length).toNat > (pre ++ encodeTxt (t :: ts)).length := by
      rw [hb, e0]; simp; omega
    simp only [hfit, ↓reduceIte]
    have hcp : copy (pre ++ encodeTxt (t :: ts)) (pre.length + 1) (b8 t.length).toNat =
        .ok (slice (pre ++ encodeTxt (t :: ts)) (pre.length + 1) (b8 t.length).toNat) := copy_ok (by omega)
    rw [hcp]
    dsimp only
    have hsl : slice (pre ++ encodeTxt (t :: ts)) (pre.length + 1) (b8 t.length).toNat = t := by
      rw [hb, e1]
      have hl : (pre ++ [b8 t.length]).length = pre.length + 1 := by simp
      rw [← hl]
      exact slice_mid _ _ _
    rw [hsl, hb, e2]
    have hl2 : (pre ++ b8 t.length :: t).length = pre.length + 1 + t.length := by simp; omega
    rw [← hl2, ih (fun x hx => h x (by simp [hx]))]
    simp

theorem parseTxt_exact (rr : RR) (ts : List Bytes) (h : ∀ t ∈ ts, t.length < 256) (hr : rr.rdata = encodeTxt ts) :
    parseTxt rr = .ok (.txt rr.name ts rr.ttl) := by
  unfold parseTxt
  have := txt_exact ts h [] []
  simp only [List.nil_append, List.length_nil] at this
  rw [hr, this]
  rfl

end Iora.Dns
