import IoraModel.Model.HttpRespondConn
import IoraModel.Lemmas.HttpRespond
/-
Lemmas about the connection-level step system (worker pool) and the engine's side of a session (C16: O1/O2/O3, O4′).
-/
namespace Iora.HttpRespond
open Iora

/-! ### projections -/

theorem pending_nil : pending [] = [] := rfl
theorem pending_cons (t : Task) (ts : List Task) : pending (t :: ts) = t.tagged ++ pending ts := by
  simp [pending]
theorem pending_append (a b : List Task) : pending (a ++ b) = pending a ++ pending b := by
  simp [pending]

theorem proj_append (sid : Nat) (a b : List (Nat × Cmd)) : proj sid (a ++ b) = proj sid a ++ proj sid b := by
  simp [proj]
theorem proj_tag_same (sid : Nat) (cs : List Cmd) : proj sid (tag sid cs) = cs := by
  induction cs with
  | nil => rfl
  | cons c cs ih => simpa [proj, tag] using ih
theorem proj_tag_ne (sid s : Nat) (cs : List Cmd) (h : s ≠ sid) : proj sid (tag s cs) = [] := by
  induction cs with
  | nil => rfl
  | cons c cs ih => simpa [proj, tag, h] using ih

/-! ### `markFirstQueued`, `emitAt` -/

theorem markFirstQueued_pending (ts : List Task) : pending (markFirstQueued ts) = pending ts := by
  induction ts with
  | nil => rfl
  | cons t ts ih =>
    unfold markFirstQueued
    split
    · simp [pending_cons, ih]
    · simp [pending_cons, Task.tagged]

theorem markFirstQueued_sids (ts : List Task) : (markFirstQueued ts).map (·.sid) = ts.map (·.sid) := by
  induction ts with
  | nil => rfl
  | cons t ts ih =>
    unfold markFirstQueued
    split
    · simp [ih]
    · simp

/-- one `emit` moves at most one command from the owed commands to the engine queue -/
theorem emitAt_split (ts : List Task) (i : Nat) :
    match (emitAt ts i).1 with
    | none => pending (emitAt ts i).2 = pending ts
    | some e => ∃ pre post, pending ts = pre ++ e :: post ∧ pending (emitAt ts i).2 = pre ++ post := by
  induction ts generalizing i with
  | nil => simp [emitAt]
  | cons t ts ih =>
    cases i with
    | zero =>
      unfold emitAt
      by_cases hr : t.running = true
      · simp only [hr, Bool.not_true, Bool.false_eq_true, if_false]
        match hc : t.cmds with
        | [] => simp [pending_cons, Task.tagged, tag, hc]
        | [c] => exact ⟨[], pending ts, by simp [pending_cons, Task.tagged, tag, hc], by simp⟩
        | c :: c' :: r =>
          exact ⟨[], tag t.sid (c' :: r) ++ pending ts, by simp [pending_cons, Task.tagged, tag, hc],
            by simp [pending_cons, Task.tagged, tag]⟩
      · simp [hr]
    | succ i =>
      have := ih i
      unfold emitAt
      simp only
      cases he : (emitAt ts i).1 with
      | none => rw [he] at this; simp [pending_cons, this]
      | some e =>
        rw [he] at this
        obtain ⟨pre, post, h1, h2⟩ := this
        exact ⟨t.tagged ++ pre, post, by simp [pending_cons, h1], by simp [pending_cons, h2]⟩

theorem emitAt_sids_sublist (ts : List Task) (i : Nat) : ((emitAt ts i).2.map (·.sid)).Sublist (ts.map (·.sid)) := by
  induction ts generalizing i with
  | nil => simp [emitAt]
  | cons t ts ih =>
    cases i with
    | zero =>
      unfold emitAt
      by_cases hr : t.running = true
      · simp only [hr, Bool.not_true, Bool.false_eq_true, if_false]
        match hc : t.cmds with
        | [] => simp
        | [c] => simp
        | c :: c' :: r => simp
      · simp [hr]
    | succ i =>
      unfold emitAt
      simp only [List.map_cons]
      exact (ih i).cons_cons _

/-! ### `stepPool` by constructor -/

theorem stepPool_arrive_full (P : Params) (p : Pool) (sid : Nat) (data : Bytes) (h : queuedCount p.tasks ≥ P.qcap) :
    stepPool P p (.arrive sid data) =
      { p with log := p.log ++ tag sid (overflowCmds (isHeadRaw data)), ledger := p.ledger ++ tag sid (overflowCmds (isHeadRaw data)) } := by
  simp [stepPool, h]

theorem stepPool_arrive_ok (P : Params) (p : Pool) (sid : Nat) (data : Bytes) (h : ¬ queuedCount p.tasks ≥ P.qcap) :
    stepPool P p (.arrive sid data) =
      { p with tasks := p.tasks ++ [{ sid := sid, cmds := P.respond sid data }],
               ledger := p.ledger ++ tag sid (P.respond sid data) } := by
  simp [stepPool, h]

theorem stepPool_pick_yes (P : Params) (p : Pool) (h : runningCount p.tasks < P.w) :
    stepPool P p .pick = { p with tasks := markFirstQueued p.tasks } := by
  simp [stepPool, h]

theorem stepPool_pick_no (P : Params) (p : Pool) (h : ¬ runningCount p.tasks < P.w) : stepPool P p .pick = p := by
  simp [stepPool, h]

theorem stepPool_emit_none (P : Params) (p : Pool) (i : Nat) (h : (emitAt p.tasks i).1 = none) :
    stepPool P p (.emit i) = { p with tasks := (emitAt p.tasks i).2 } := by
  simp [stepPool, h]

theorem stepPool_emit_some (P : Params) (p : Pool) (i : Nat) (e : Nat × Cmd) (h : (emitAt p.tasks i).1 = some e) :
    stepPool P p (.emit i) = { p with tasks := (emitAt p.tasks i).2, log := p.log ++ [e] } := by
  simp [stepPool, h]

/-! ### O1 / O2 for every schedule -/

theorem stepPool_perm (P : Params) (p : Pool) (s : Step) (h : (p.log ++ pending p.tasks).Perm p.ledger) :
    ((stepPool P p s).log ++ pending (stepPool P p s).tasks).Perm (stepPool P p s).ledger := by
  cases s with
  | arrive sid data =>
    by_cases hq : queuedCount p.tasks ≥ P.qcap
    · rw [stepPool_arrive_full P p sid data hq]
      simp only
      have : (p.log ++ tag sid (overflowCmds (isHeadRaw data)) ++ pending p.tasks).Perm (p.log ++ pending p.tasks ++ tag sid (overflowCmds (isHeadRaw data))) := by
        simp only [List.append_assoc]
        exact List.Perm.append_left _ List.perm_append_comm
      exact this.trans (h.append_right _)
    · rw [stepPool_arrive_ok P p sid data hq]
      simp only [pending_append, pending_cons, pending_nil, Task.tagged, List.append_nil]
      rw [← List.append_assoc]
      exact h.append_right _
  | pick =>
    by_cases hr : runningCount p.tasks < P.w
    · rw [stepPool_pick_yes P p hr]; simpa [markFirstQueued_pending] using h
    · rw [stepPool_pick_no P p hr]; exact h
  | emit i =>
    have := emitAt_split p.tasks i
    cases he : (emitAt p.tasks i).1 with
    | none =>
      rw [he] at this
      rw [stepPool_emit_none P p i he]
      simpa [this] using h
    | some e =>
      rw [he] at this
      obtain ⟨pre, post, h1, h2⟩ := this
      rw [stepPool_emit_some P p i e he]
      simp only [h2]
      rw [h1] at h
      refine List.Perm.trans ?_ h
      simp only [List.append_assoc, List.singleton_append]
      exact List.Perm.append_left _ List.perm_middle.symm

theorem runPool_perm (P : Params) (p : Pool) (steps : List Step) (h : (p.log ++ pending p.tasks).Perm p.ledger) :
    ((runPool P p steps).log ++ pending (runPool P p steps).tasks).Perm (runPool P p steps).ledger := by
  induction steps generalizing p with
  | nil => exact h
  | cons s rest ih => exact ih _ (stepPool_perm P p s h)

/-- what the ledger is: one ticket per arrived request, in arrival order; the ticket is what `processHttpRequest`
    issues for that request, or the 503-and-close of the overflow path -/
def arrivals : List Step → List (Nat × Bytes)
  | [] => []
  | .arrive sid d :: rest => (sid, d) :: arrivals rest
  | _ :: rest => arrivals rest

def TicketOf (P : Params) (a : Nat × Bytes) (t : Nat × List Cmd) : Prop :=
  t.1 = a.1 ∧ (t.2 = P.respond a.1 a.2 ∨ t.2 = overflowCmds (isHeadRaw a.2))

def flattenTickets (ts : List (Nat × List Cmd)) : List (Nat × Cmd) := ts.flatMap (fun t => tag t.1 t.2)

/-- one ticket per arrival, in order -/
inductive Tickets (P : Params) : List (Nat × Bytes) → List (Nat × List Cmd) → Prop where
  | nil : Tickets P [] []
  | cons {a t as ts} : TicketOf P a t → Tickets P as ts → Tickets P (a :: as) (t :: ts)

theorem runPool_ledger (P : Params) (p : Pool) (steps : List Step) :
    ∃ ts, Tickets P (arrivals steps) ts ∧ (runPool P p steps).ledger = p.ledger ++ flattenTickets ts := by
  induction steps generalizing p with
  | nil => exact ⟨[], .nil, by simp [runPool, flattenTickets]⟩
  | cons s rest ih =>
    obtain ⟨ts, hf, hl⟩ := ih (stepPool P p s)
    simp only [runPool, List.foldl_cons] at hl ⊢
    cases s with
    | arrive sid data =>
      by_cases hq : queuedCount p.tasks ≥ P.qcap
      · refine ⟨(sid, overflowCmds (isHeadRaw data)) :: ts, .cons ⟨rfl, Or.inr rfl⟩ hf, ?_⟩
        rw [hl, stepPool_arrive_full P p sid data hq]
        simp [flattenTickets]
      · refine ⟨(sid, P.respond sid data) :: ts, .cons ⟨rfl, Or.inl rfl⟩ hf, ?_⟩
        rw [hl, stepPool_arrive_ok P p sid data hq]
        simp [flattenTickets]
    | pick =>
      refine ⟨ts, hf, ?_⟩
      rw [hl]
      by_cases hr : runningCount p.tasks < P.w
      · rw [stepPool_pick_yes P p hr]
      · rw [stepPool_pick_no P p hr]
    | emit i =>
      refine ⟨ts, hf, ?_⟩
      rw [hl]
      cases he : (emitAt p.tasks i).1 with
      | none => rw [stepPool_emit_none P p i he]
      | some e => rw [stepPool_emit_some P p i e he]

/-- the ticket of every arrival, by replaying the schedule: the overflow 503 exactly when the task queue was at capacity at that
    arrival, what `processHttpRequest` issues otherwise -/
def ticketsOf (P : Params) : Pool → List Step → List (Nat × List Cmd)
  | _, [] => []
  | p, s :: rest =>
    (match s with
     | .arrive sid d => [(sid, if queuedCount p.tasks ≥ P.qcap then overflowCmds (isHeadRaw d) else P.respond sid d)]
     | _ => []) ++ ticketsOf P (stepPool P p s) rest

theorem runPool_cons (P : Params) (p : Pool) (s : Step) (rest : List Step) :
    runPool P p (s :: rest) = runPool P (stepPool P p s) rest := rfl

def ticketOfStep (P : Params) (p : Pool) : Step → List (Nat × List Cmd)
  | .arrive sid d => [(sid, if queuedCount p.tasks ≥ P.qcap then overflowCmds (isHeadRaw d) else P.respond sid d)]
  | _ => []

theorem ticketsOf_cons (P : Params) (p : Pool) (s : Step) (rest : List Step) :
    ticketsOf P p (s :: rest) = ticketOfStep P p s ++ ticketsOf P (stepPool P p s) rest := by
  cases s <;> rfl

theorem stepPool_ledger (P : Params) (p : Pool) (s : Step) :
    (stepPool P p s).ledger = p.ledger ++ flattenTickets (ticketOfStep P p s) := by
  cases s with
  | arrive sid data =>
    by_cases hq : queuedCount p.tasks ≥ P.qcap
    · rw [stepPool_arrive_full P p sid data hq]; simp [ticketOfStep, flattenTickets, hq]
    · rw [stepPool_arrive_ok P p sid data hq]; simp [ticketOfStep, flattenTickets, hq]
  | pick =>
    by_cases hr : runningCount p.tasks < P.w
    · rw [stepPool_pick_yes P p hr]; simp [ticketOfStep, flattenTickets]
    · rw [stepPool_pick_no P p hr]; simp [ticketOfStep, flattenTickets]
  | emit i =>
    cases he : (emitAt p.tasks i).1 with
    | none => rw [stepPool_emit_none P p i he]; simp [ticketOfStep, flattenTickets]
    | some e => rw [stepPool_emit_some P p i e he]; simp [ticketOfStep, flattenTickets]

theorem runPool_ledger_eq (P : Params) (p : Pool) (steps : List Step) :
    (runPool P p steps).ledger = p.ledger ++ flattenTickets (ticketsOf P p steps) := by
  induction steps generalizing p with
  | nil => simp [runPool, ticketsOf, flattenTickets]
  | cons s rest ih =>
    rw [runPool_cons, ih, stepPool_ledger, ticketsOf_cons]
    simp [flattenTickets, List.append_assoc]

theorem ticketsOf_tickets (P : Params) (p : Pool) (steps : List Step) : Tickets P (arrivals steps) (ticketsOf P p steps) := by
  induction steps generalizing p with
  | nil => exact .nil
  | cons s rest ih =>
    cases s with
    | arrive sid data =>
      simp only [arrivals, ticketsOf, List.singleton_append]
      refine .cons ⟨rfl, ?_⟩ (ih _)
      by_cases hq : queuedCount p.tasks ≥ P.qcap
      · right; simp [hq]
      · left; simp [hq]
    | pick => simpa [arrivals, ticketsOf] using ih (stepPool P p .pick)
    | emit i => simpa [arrivals, ticketsOf] using ih (stepPool P p (.emit i))

/-- no overflow: every ticket is what `processHttpRequest` issues for that request -/
theorem ticketsOf_noOverflow (P : Params) (p : Pool) (steps : List Step) (h : NoOverflow P p steps) :
    ticketsOf P p steps = (arrivals steps).map (fun a => (a.1, P.respond a.1 a.2)) := by
  induction steps generalizing p with
  | nil => rfl
  | cons s rest ih =>
    obtain ⟨h1, h2⟩ := h
    cases s with
    | arrive sid data =>
      have hq : ¬ queuedCount p.tasks ≥ P.qcap := by
        have : queuedCount p.tasks < P.qcap := h1
        omega
      simp [ticketsOf, arrivals, hq, ih _ h2]
    | pick => simpa [ticketsOf, arrivals] using ih _ h2
    | emit i => simpa [ticketsOf, arrivals] using ih _ h2

theorem proj_flattenTickets (sid : Nat) (ts : List (Nat × List Cmd)) :
    proj sid (flattenTickets ts) = (ts.filter (fun t => t.1 == sid)).flatMap (fun t => t.2) := by
  induction ts with
  | nil => rfl
  | cons t ts ih =>
    have ih' : proj sid (List.flatMap (fun t => tag t.1 t.2) ts) = _ := ih
    by_cases h : t.1 = sid
    · subst h
      simp [flattenTickets, proj_append, proj_tag_same, ih']
    · have hb : (t.1 == sid) = false := by simpa using h
      simp [flattenTickets, proj_append, proj_tag_ne sid t.1 t.2 h, ih', hb]

/-! ### O3 under `OneInFlight` -/

/-- per-session order invariant -/
def InOrder (p : Pool) : Prop := ∀ sid, proj sid p.log ++ proj sid (pending p.tasks) = proj sid p.ledger

theorem emitAt_proj (ts : List Task) (i : Nat) (hn : (ts.map (·.sid)).Nodup) :
    match (emitAt ts i).1 with
    | none => ∀ sid, proj sid (pending (emitAt ts i).2) = proj sid (pending ts)
    | some e => proj e.1 (pending ts) = e.2 :: proj e.1 (pending (emitAt ts i).2) ∧
                (∀ sid, sid ≠ e.1 → proj sid (pending (emitAt ts i).2) = proj sid (pending ts)) ∧
                e.1 ∈ ts.map (·.sid) := by
  induction ts generalizing i with
  | nil => simp [emitAt]
  | cons t ts ih =>
    have hn' : (ts.map (·.sid)).Nodup := (List.nodup_cons.1 (by simpa using hn)).2
    have hnot : t.sid ∉ ts.map (·.sid) := (List.nodup_cons.1 (by simpa using hn)).1
    cases i with
    | zero =>
      unfold emitAt
      by_cases hr : t.running = true
      · simp only [hr, Bool.not_true, Bool.false_eq_true, if_false]
        match hc : t.cmds with
        | [] => intro sid; simp [pending_cons, Task.tagged, tag, hc]
        | [c] =>
          refine ⟨?_, ?_, by simp⟩
          · simp [pending_cons, Task.tagged, hc, proj_append, proj_tag_same]
          · intro sid hs
            simp [pending_cons, Task.tagged, hc, proj_append, proj_tag_ne sid t.sid [c] (Ne.symm hs)]
        | c :: c' :: r =>
          refine ⟨?_, ?_, by simp⟩
          · simp [pending_cons, Task.tagged, hc, proj_append, proj_tag_same]
          · intro sid hs
            simp [pending_cons, Task.tagged, hc, proj_append, proj_tag_ne sid t.sid _ (Ne.symm hs)]
      · simp [hr]
    | succ i =>
      have := ih i hn'
      unfold emitAt
      simp only
      cases he : (emitAt ts i).1 with
      | none =>
        rw [he] at this
        intro sid
        simp [pending_cons, proj_append, this sid]
      | some e =>
        rw [he] at this
        obtain ⟨h1, h2, h3⟩ := this
        have hne : t.sid ≠ e.1 := fun heq => hnot (heq ▸ h3)
        refine ⟨?_, ?_, by simp [h3]⟩
        · simp [pending_cons, proj_append, Task.tagged, proj_tag_ne e.1 t.sid _ hne, h1]
        · intro sid hs
          simp [pending_cons, proj_append, h2 sid hs]

theorem proj_pending_none (sid : Nat) (ts : List Task) (h : ∀ t ∈ ts, t.sid ≠ sid) : proj sid (pending ts) = [] := by
  induction ts with
  | nil => rfl
  | cons t ts ih =>
    simp [pending_cons, proj_append, Task.tagged, proj_tag_ne sid t.sid _ (h t (by simp)),
      ih (fun x hx => h x (by simp [hx]))]

theorem stepPool_inOrder (P : Params) (p : Pool) (s : Step)
    (hone : match s with | .arrive sid _ => ∀ t ∈ p.tasks, t.sid ≠ sid | _ => True)
    (hn : (p.tasks.map (·.sid)).Nodup) (h : InOrder p) :
    ((stepPool P p s).tasks.map (·.sid)).Nodup ∧ InOrder (stepPool P p s) := by
  cases s with
  | arrive sid data =>
    have hone' : ∀ t ∈ p.tasks, t.sid ≠ sid := hone
    by_cases hq : queuedCount p.tasks ≥ P.qcap
    · rw [stepPool_arrive_full P p sid data hq]
      refine ⟨hn, ?_⟩
      intro s'
      have := h s'
      simp only [proj_append] at this ⊢
      by_cases hs : s' = sid
      · subst hs
        have hp : proj s' (pending p.tasks) = [] := proj_pending_none s' _ hone'
        rw [hp] at this ⊢
        simp only [List.append_nil] at this ⊢
        rw [this]
      · rw [proj_tag_ne s' sid _ (Ne.symm hs)]
        simpa using this
    · rw [stepPool_arrive_ok P p sid data hq]
      refine ⟨?_, ?_⟩
      · simp only [List.map_append, List.map_cons, List.map_nil]
        refine List.nodup_append.2 ⟨hn, by simp, ?_⟩
        intro a ha b hb
        simp at hb
        subst hb
        obtain ⟨t, ht, rfl⟩ := List.mem_map.1 ha
        exact hone' t ht
      · intro s'
        have := h s'
        simp only [pending_append, pending_cons, pending_nil, Task.tagged, List.append_nil, proj_append] at this ⊢
        rw [← this]
        simp [List.append_assoc]
  | pick =>
    by_cases hr : runningCount p.tasks < P.w
    · rw [stepPool_pick_yes P p hr]
      exact ⟨by simpa [markFirstQueued_sids] using hn, by intro s'; simpa [markFirstQueued_pending] using h s'⟩
    · rw [stepPool_pick_no P p hr]; exact ⟨hn, h⟩
  | emit i =>
    have hsub := emitAt_sids_sublist p.tasks i
    have hp := emitAt_proj p.tasks i hn
    cases he : (emitAt p.tasks i).1 with
    | none =>
      rw [he] at hp
      rw [stepPool_emit_none P p i he]
      exact ⟨hsub.nodup hn, by intro s'; simpa [hp s'] using h s'⟩
    | some e =>
      rw [he] at hp
      obtain ⟨h1, h2, _⟩ := hp
      rw [stepPool_emit_some P p i e he]
      refine ⟨hsub.nodup hn, ?_⟩
      intro s'
      have := h s'
      simp only [proj_append]
      by_cases hs : s' = e.1
      · subst hs
        rw [h1] at this
        rw [← this]
        simp [proj]
      · rw [h2 s' hs]
        have hl : proj s' [e] = [] := by simp [proj, Ne.symm hs]
        simpa [hl] using this

theorem runPool_inOrder (P : Params) (p : Pool) (steps : List Step) (hone : OneInFlight P p steps)
    (hn : (p.tasks.map (·.sid)).Nodup) (h : InOrder p) : InOrder (runPool P p steps) := by
  induction steps generalizing p with
  | nil => exact h
  | cons s rest ih =>
    obtain ⟨h1, h2⟩ := hone
    have := stepPool_inOrder P p s (by cases s <;> simpa using h1) hn h
    exact ih _ h2 this.1 this.2

/-! ### O3 for a single worker and a queue that is never full -/

def Fifo (p : Pool) : Prop := (∀ t ∈ p.tasks.tail, t.running = false) ∧ p.log ++ pending p.tasks = p.ledger

theorem emitAt_idle (ts : List Task) (i : Nat) (h : ∀ t ∈ ts, t.running = false) : emitAt ts i = (none, ts) := by
  induction ts generalizing i with
  | nil => simp [emitAt]
  | cons t ts ih =>
    cases i with
    | zero => simp [emitAt, h t (by simp)]
    | succ i =>
      have := ih i (fun x hx => h x (by simp [hx]))
      simp [emitAt, this]

theorem stepPool_fifo (P : Params) (hw : P.w = 1) (p : Pool) (s : Step)
    (hno : match s with | .arrive _ _ => queuedCount p.tasks < P.qcap | _ => True) (h : Fifo p) :
    Fifo (stepPool P p s) := by
  obtain ⟨htail, heq⟩ := h
  cases s with
  | arrive sid data =>
    have hq : ¬ queuedCount p.tasks ≥ P.qcap := by
      have : queuedCount p.tasks < P.qcap := hno
      omega
    rw [stepPool_arrive_ok P p sid data hq]
    refine ⟨?_, ?_⟩
    · intro t ht
      cases hts : p.tasks with
      | nil => simp [hts] at ht
      | cons a as =>
        simp only [hts, List.cons_append, List.tail_cons, List.mem_append, List.mem_singleton] at ht
        rcases ht with ht | ht
        · exact htail t (by simp [hts, ht])
        · subst ht; rfl
    · simp only [pending_append, pending_cons, pending_nil, Task.tagged, List.append_nil]
      rw [← List.append_assoc, heq]
  | pick =>
    by_cases hlt : runningCount p.tasks < P.w
    · rw [stepPool_pick_yes P p hlt]
      refine ⟨?_, by simpa [markFirstQueued_pending] using heq⟩
      cases hts : p.tasks with
      | nil => simp [markFirstQueued]
      | cons a as =>
        have ha : a.running = false := by
          cases hr : a.running with
          | false => rfl
          | true =>
            have : runningCount p.tasks ≥ 1 := by simp [hts, runningCount, List.filter, hr]
            omega
        simp only [markFirstQueued, ha, Bool.false_eq_true, if_false, List.tail_cons]
        intro t ht
        exact htail t (by simp [hts, ht])
    · rw [stepPool_pick_no P p hlt]; exact ⟨htail, heq⟩
  | emit i =>
    cases hts : p.tasks with
    | nil =>
      have he : (emitAt p.tasks i).1 = none := by simp [hts, emitAt]
      rw [stepPool_emit_none P p i he]
      refine ⟨by simp [hts, emitAt], ?_⟩
      simpa [hts, emitAt] using heq
    | cons a as =>
      have has : ∀ t ∈ as, t.running = false := fun t ht => htail t (by simp [hts, ht])
      rw [hts] at heq
      cases i with
      | succ i =>
        have hidle := emitAt_idle as i has
        have he : (emitAt p.tasks (i + 1)).1 = none := by simp [hts, emitAt, hidle]
        rw [stepPool_emit_none P p (i + 1) he]
        have h2 : (emitAt p.tasks (i + 1)).2 = a :: as := by simp [hts, emitAt, hidle]
        simp only [h2]
        exact ⟨by simpa using has, heq⟩
      | zero =>
        by_cases hr : a.running = true
        · match hc : a.cmds with
          | [] =>
            have he : (emitAt p.tasks 0).1 = none := by simp [hts, emitAt, hr, hc]
            have h2 : (emitAt p.tasks 0).2 = as := by simp [hts, emitAt, hr, hc]
            rw [stepPool_emit_none P p 0 he]
            simp only [h2]
            refine ⟨fun t ht => has t (List.mem_of_mem_tail ht), ?_⟩
            simpa [pending_cons, Task.tagged, tag, hc] using heq
          | [c] =>
            have he : (emitAt p.tasks 0).1 = some (a.sid, c) := by simp [hts, emitAt, hr, hc]
            have h2 : (emitAt p.tasks 0).2 = as := by simp [hts, emitAt, hr, hc]
            rw [stepPool_emit_some P p 0 _ he]
            simp only [h2]
            refine ⟨fun t ht => has t (List.mem_of_mem_tail ht), ?_⟩
            simpa [pending_cons, Task.tagged, tag, hc] using heq
          | c :: c' :: r =>
            have he : (emitAt p.tasks 0).1 = some (a.sid, c) := by simp [hts, emitAt, hr, hc]
            have h2 : (emitAt p.tasks 0).2 = { a with cmds := c' :: r } :: as := by simp [hts, emitAt, hr, hc]
            rw [stepPool_emit_some P p 0 _ he]
            simp only [h2]
            refine ⟨by simpa using has, ?_⟩
            simpa [pending_cons, Task.tagged, tag, hc] using heq
        · have he : (emitAt p.tasks 0).1 = none := by simp [hts, emitAt, hr]
          have h2 : (emitAt p.tasks 0).2 = a :: as := by simp [hts, emitAt, hr]
          rw [stepPool_emit_none P p 0 he]
          simp only [h2]
          exact ⟨by simpa using has, heq⟩

theorem runPool_fifo (P : Params) (hw : P.w = 1) (p : Pool) (steps : List Step) (hno : NoOverflow P p steps)
    (h : Fifo p) : Fifo (runPool P p steps) := by
  induction steps generalizing p with
  | nil => exact h
  | cons s rest ih =>
    obtain ⟨h1, h2⟩ := hno
    exact ih _ h2 (stepPool_fifo P hw p s (by cases s <;> simpa using h1) h)

/-! ### the engine's side of a session (O4′) -/

theorem runSock_cons (s : Sock) (e : EngEv) (rest : List EngEv) : runSock s (e :: rest) = runSock (sockStep s e) rest := rfl

theorem sockStep_closed (s : Sock) (e : EngEv) (h : s.isOpen = false) : sockStep s e = s := by
  cases e with
  | cmd c k => cases c <;> simp [sockStep, h]
  | writable n => simp [sockStep, h]

theorem runSock_closed (s : Sock) (evs : List EngEv) (h : s.isOpen = false) : runSock s evs = s := by
  induction evs with
  | nil => rfl
  | cons e rest ih => rw [runSock_cons, sockStep_closed s e h]; exact ih

theorem sockStep_send_open (s : Sock) (bs : Bytes) (k : Nat) (ho : s.isOpen = true) :
    (sockStep s (.cmd (.send bs) k)).isOpen = true ∧
    (sockStep s (.cmd (.send bs) k)).delivered ++ (sockStep s (.cmd (.send bs) k)).wq = s.delivered ++ s.wq ++ bs := by
  by_cases hw : s.wq.isEmpty = true
  · have : s.wq = [] := by simpa using hw
    simp [sockStep, ho, this, List.append_assoc]
  · simp [sockStep, ho, hw, List.append_assoc]

theorem sockStep_writable_open (s : Sock) (n : Nat) (ho : s.isOpen = true) :
    (sockStep s (.writable n)).isOpen = true ∧
    (sockStep s (.writable n)).delivered ++ (sockStep s (.writable n)).wq = s.delivered ++ s.wq := by
  simp [sockStep, ho, List.append_assoc]

theorem sockStep_close_open (s : Sock) (k : Nat) (ho : s.isOpen = true) :
    (sockStep s (.cmd .close k)).isOpen = false ∧ (sockStep s (.cmd .close k)).delivered = s.delivered := by
  simp [sockStep, ho]

/-- for an open session: what was delivered plus what is queued is everything sent so far; once closed the delivered
    bytes are a prefix of it -/
theorem runSock_inv (s : Sock) (evs : List EngEv) (ho : s.isOpen = true) :
    (runSock s evs).delivered <+: s.delivered ++ s.wq ++ sentBeforeClose evs ∧
    ((runSock s evs).isOpen = true → (runSock s evs).delivered ++ (runSock s evs).wq = s.delivered ++ s.wq ++ sentBeforeClose evs) := by
  induction evs generalizing s with
  | nil => simp [runSock, sentBeforeClose]
  | cons e rest ih =>
    rw [runSock_cons]
    cases e with
    | writable n =>
      obtain ⟨hs, e1⟩ := sockStep_writable_open s n ho
      have := ih _ hs
      simp only [sentBeforeClose]
      rw [← e1]
      exact this
    | cmd c k =>
      cases c with
      | close =>
        obtain ⟨hc, hd⟩ := sockStep_close_open s k ho
        rw [runSock_closed _ rest hc]
        refine ⟨?_, ?_⟩
        · rw [hd]; simp [sentBeforeClose, List.append_assoc]
        · intro h; rw [hc] at h; cases h
      | send bs =>
        obtain ⟨hs, e1⟩ := sockStep_send_open s bs k ho
        have := ih _ hs
        simp only [sentBeforeClose]
        rw [← List.append_assoc, ← e1]
        exact this

/-- if the kernel takes every Send whole, the write queue stays empty and nothing can be lost under a Close -/
theorem runSock_fits (s : Sock) (evs : List EngEv) (ho : s.isOpen = true) (hq : s.wq = []) (hf : FitsBuffer evs) :
    (runSock s evs).delivered = s.delivered ++ sentBeforeClose evs ∧
    ((runSock s evs).isOpen = true → (runSock s evs).wq = []) := by
  induction evs generalizing s with
  | nil => simp [runSock, sentBeforeClose, hq]
  | cons e rest ih =>
    rw [runSock_cons]
    cases e with
    | writable n =>
      have h1 : (sockStep s (.writable n)).isOpen = true := by simp [sockStep, ho]
      have h2 : (sockStep s (.writable n)).wq = [] := by simp [sockStep, ho, hq]
      have h3 : (sockStep s (.writable n)).delivered = s.delivered := by simp [sockStep, ho, hq]
      have := ih _ h1 h2 hf
      rw [h3] at this
      simpa [sentBeforeClose] using this
    | cmd c k =>
      cases c with
      | close =>
        obtain ⟨hc, hd⟩ := sockStep_close_open s k ho
        rw [runSock_closed _ rest hc]
        refine ⟨by simp [hd, sentBeforeClose], ?_⟩
        intro h; rw [hc] at h; cases h
      | send bs =>
        obtain ⟨hlen, hf'⟩ := hf
        have h1 : (sockStep s (.cmd (.send bs) k)).isOpen = true := (sockStep_send_open s bs k ho).1
        have h2 : (sockStep s (.cmd (.send bs) k)).wq = [] := by
          simp [sockStep, ho, hq, List.drop_eq_nil_of_le hlen]
        have h3 : (sockStep s (.cmd (.send bs) k)).delivered = s.delivered ++ bs := by
          simp [sockStep, ho, hq, List.take_of_length_le hlen]
        have := ih _ h1 h2 hf'
        rw [h3] at this
        simpa [sentBeforeClose, List.append_assoc] using this

/-! ### the byte stream of a session in terms of its commands -/

/-- the session's commands in the order the I/O thread processes them -/
def cmdsOf : List EngEv → List Cmd
  | [] => []
  | .cmd c _ :: rest => c :: cmdsOf rest
  | .writable _ :: rest => cmdsOf rest

/-- concatenated payloads of the Send commands before the first Close -/
def payloadBeforeClose : List Cmd → Bytes
  | [] => []
  | .send w :: rest => w ++ payloadBeforeClose rest
  | .close :: _ => []

theorem sentBeforeClose_eq (evs : List EngEv) : sentBeforeClose evs = payloadBeforeClose (cmdsOf evs) := by
  induction evs with
  | nil => rfl
  | cons e rest ih =>
    cases e with
    | writable n => simpa [sentBeforeClose, cmdsOf] using ih
    | cmd c k => cases c <;> simp [sentBeforeClose, cmdsOf, payloadBeforeClose, ih]

theorem payloadBeforeClose_sends (ws : List Bytes) (tail : List Cmd) (ht : tail = [] ∨ tail = [.close]) :
    payloadBeforeClose (ws.map Cmd.send ++ tail) = ws.flatten := by
  induction ws with
  | nil => rcases ht with h | h <;> simp [h, payloadBeforeClose]
  | cons w ws ih => simp [payloadBeforeClose, ih]

end Iora.HttpRespond
