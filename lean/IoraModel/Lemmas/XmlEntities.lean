import IoraModel.Model.Xml
set_option linter.unusedSimpArgs false
set_option linter.unusedVariables false
/-! Helper lemmas about `encodeUtf8`, `appendCharRef` and `decodeEntities` of the XML model. -/
namespace Iora.Xml
open Iora

/-! ### `encodeUtf8` against Lean's own UTF-8 encoder -/

theorem encodeUtf8_char (c : Char) : encodeUtf8 c.val = some (String.utf8EncodeChar c) := by
  rw [String.utf8EncodeChar_eq_utf8EncodeCharFast]
  have hv : c.val.toNat < 0xD800 ∨ (0xDFFF < c.val.toNat ∧ c.val.toNat < 0x110000) := c.valid
  unfold encodeUtf8 String.utf8EncodeCharFast
  simp only []
  split
  · rfl
  · split
    · simp [u8, UInt8.or_comm]
    · split
      · have : ¬ ((c.val ≥ 0xD800 && c.val ≤ 0xDFFF) = true) := by
          simp only [Bool.and_eq_true, decide_eq_true_eq, ge_iff_le, UInt32.le_iff_toNat_le, UInt32.reduceToNat, not_and]
          omega
        simp only [this]
        simp [u8, UInt8.or_comm]
      · have : c.val ≤ 0x10FFFF := by
          simp only [UInt32.le_iff_toNat_le, UInt32.reduceToNat]; omega
        simp only [this]
        simp [u8, UInt8.or_comm]

theorem encodeUtf8_none (cp : UInt32) :
    encodeUtf8 cp = none ↔ (0xD800 ≤ cp.toNat ∧ cp.toNat ≤ 0xDFFF) ∨ 0x10FFFF < cp.toNat := by
  unfold encodeUtf8
  simp only [UInt32.le_iff_toNat_le, UInt32.reduceToNat, ge_iff_le]
  split
  · simp; omega
  · split
    · simp; omega
    · split
      · split
        · rename_i h; simp at h; simp; omega
        · rename_i h; simp at h; simp; omega
      · split
        · simp; omega
        · simp; omega

/-! ### reference semantics of character data -/

/-- the predefined entities of XML 1.0 §4.6, stated independently of the header's chain -/
def fiveEntities : List (Bytes × UInt8) :=
  [([0x6C, 0x74], 0x3C), ([0x67, 0x74], 0x3E), ([0x61, 0x6D, 0x70], 0x26), ([0x61, 0x70, 0x6F, 0x73], 0x27),
   ([0x71, 0x75, 0x6F, 0x74], 0x22)]

/-- `Dec inp out`: `out` is `inp` with every reference replaced — literal bytes copied, `&name;` for the five predefined names
replaced by their character, `&#…;` replaced by the UTF-8 encoding of the code point the digits denote.  Nothing else is a
reference: there is no rule for any other `&name;`. -/
inductive Dec : Bytes → Bytes → Prop where
  | nil : Dec [] []
  | lit (ch : UInt8) (r o : Bytes) : ch ≠ 0x26 → Dec r o → Dec (ch :: r) (ch :: o)
  | named (name : Bytes) (b : UInt8) (r o : Bytes) : (name, b) ∈ fiveEntities → Dec r o →
      Dec (0x26 :: name ++ 0x3B :: r) (b :: o)
  | numeric (body : Bytes) (cp : UInt32) (u r o : Bytes) : 0x3B ∉ body → charRefCode (0x23 :: body) = some cp →
      encodeUtf8 cp = some u → Dec r o → Dec (0x26 :: 0x23 :: body ++ 0x3B :: r) (u ++ o)

theorem findByte_split (b : UInt8) : ∀ (r : Bytes) (k : Nat), findByte b r = some k →
    r = r.take k ++ b :: r.drop (k + 1) ∧ b ∉ r.take k ∧ k < r.length := by
  intro r
  induction r with
  | nil => intro k h; simp [findByte] at h
  | cons ch r ih =>
    intro k h
    simp only [findByte] at h
    split at h
    · rename_i hch; cases h; subst hch; simp
    · rename_i hch
      split at h
      · cases h
      · rename_i k' hk'
        cases h
        obtain ⟨h1, h2, h3⟩ := ih k' hk'
        refine ⟨?_, ?_, ?_⟩
        · simp only [List.take_succ_cons, List.drop_succ_cons, List.cons_append]; rw [← h1]
        · simp only [List.take_succ_cons, List.mem_cons, not_or]; exact ⟨fun h => hch h.symm, h2⟩
        · simp; omega

theorem findByte_append (b : UInt8) : ∀ (name post : Bytes), b ∉ name → findByte b (name ++ b :: post) = some name.length := by
  intro name
  induction name with
  | nil => intro post _; simp [findByte]
  | cons ch r ih =>
    intro post h
    simp only [List.mem_cons, not_or] at h
    simp only [List.cons_append, findByte]
    rw [if_neg (fun hh => h.1 hh.symm), ih post h.2]
    simp

theorem predefined_mem (ent : Bytes) (b : UInt8) (h : predefined ent = some b) : (ent, b) ∈ fiveEntities := by
  unfold predefined at h
  simp only [Gen.Xml.entityBytes, List.find?] at h
  split at h
  · rename_i e heq
    cases h
    repeat' split at heq
    all_goals cases heq
    all_goals (rename_i hb; have := eq_of_beq hb; subst this; decide)
  · cases h

/-- a name that is none of the five is not found by the header's chain (and conversely) -/
theorem predefined_none_of_not_five (ent : Bytes) (h : ∀ b, (ent, b) ∉ fiveEntities) : predefined ent = none := by
  cases hp : predefined ent with
  | none => rfl
  | some b => exact (h b (predefined_mem ent b hp)).elim

theorem predefined_of_five (ent : Bytes) (b : UInt8) (h : (ent, b) ∈ fiveEntities) : predefined ent = some b := by
  simp only [fiveEntities, List.mem_cons, Prod.mk.injEq, List.mem_nil_iff, or_false] at h
  rcases h with ⟨rfl, rfl⟩ | ⟨rfl, rfl⟩ | ⟨rfl, rfl⟩ | ⟨rfl, rfl⟩ | ⟨rfl, rfl⟩ <;> decide

/-- soundness of the loop: whatever it appends is the `Dec`-image of what it consumed -/
theorem decodeLoop_sound : ∀ (fuel : Nat) (r : Bytes) (i : Nat) (acc out : Bytes),
    decodeLoop fuel r i acc = .ok out → ∃ o', out = acc ++ o' ∧ Dec r o' := by
  intro fuel
  induction fuel with
  | zero => intro r i acc out h; simp [decodeLoop] at h
  | succ fuel ih =>
    intro r i acc out h
    cases r with
    | nil =>
      simp only [decodeLoop, DecRes.ok.injEq] at h
      exact ⟨[], by simp [h], Dec.nil⟩
    | cons ch t =>
      simp only [decodeLoop] at h
      split at h
      · rename_i hch
        obtain ⟨o', ho, hd⟩ := ih _ _ _ _ h
        exact ⟨ch :: o', by simp [ho], Dec.lit ch t o' hch hd⟩
      · rename_i hch
        simp only [ne_eq, Decidable.not_not] at hch
        subst hch
        split at h
        · cases h
        · rename_i k hk
          obtain ⟨hsplit, hnot, hlt⟩ := findByte_split _ _ _ hk
          split at h
          · rename_i b hb
            obtain ⟨o', ho, hd⟩ := ih _ _ _ _ h
            refine ⟨b :: o', by simp [ho], ?_⟩
            rw [hsplit]
            exact Dec.named _ b _ o' (predefined_mem _ _ hb) hd
          · split at h
            · rename_i body hbody
              split at h
              · rename_i u hu
                obtain ⟨o', ho, hd⟩ := ih _ _ _ _ h
                refine ⟨u ++ o', by simp [ho], ?_⟩
                unfold appendCharRef at hu
                split at hu
                · cases hu
                · rename_i code hcode
                  rw [hsplit, hbody]
                  rw [hbody] at hnot hcode
                  simp only [List.mem_cons, not_or] at hnot
                  exact Dec.numeric body code u _ o' hnot.2 hcode hu hd
              · cases h
            · cases h

theorem decodeEntities_sound (inp out : Bytes) (h : decodeEntities inp = .ok out) : Dec inp out := by
  obtain ⟨o', ho, hd⟩ := decodeLoop_sound _ _ _ _ _ h
  simp at ho; subst ho; exact hd

/-- the loop budget `|in| + 1` is never exhausted -/
theorem decodeLoop_ne_fuel : ∀ (fuel : Nat) (r : Bytes) (i : Nat) (acc : Bytes),
    r.length < fuel → decodeLoop fuel r i acc ≠ .fuel := by
  intro fuel
  induction fuel with
  | zero => intro r i acc h; omega
  | succ fuel ih =>
    intro r i acc hlen
    cases r with
    | nil => simp [decodeLoop]
    | cons ch t =>
      simp only [decodeLoop]
      simp only [List.length_cons] at hlen
      split
      · exact ih _ _ _ (by omega)
      · split
        · simp
        · rename_i k hk
          obtain ⟨_, _, hlt⟩ := findByte_split _ _ _ hk
          split
          · exact ih _ _ _ (by simp; omega)
          · split
            · split
              · exact ih _ _ _ (by simp; omega)
              · simp
            · simp

theorem decodeEntities_ne_fuel (inp : Bytes) : decodeEntities inp ≠ .fuel :=
  decodeLoop_ne_fuel _ _ _ _ (by simp)

/-- literal bytes are copied -/
theorem decodeLoop_literal : ∀ (pre r : Bytes) (fuel i : Nat) (acc : Bytes), 0x26 ∉ pre →
    decodeLoop (fuel + pre.length) (pre ++ r) i acc = decodeLoop fuel r (i + pre.length) (acc ++ pre) := by
  intro pre
  induction pre with
  | nil => intro r fuel i acc _; simp
  | cons ch p ih =>
    intro r fuel i acc h
    simp only [List.mem_cons, not_or] at h
    have : fuel + (ch :: p).length = (fuel + p.length) + 1 := by simp; omega
    rw [this]
    simp only [List.cons_append, decodeLoop]
    rw [if_pos (fun hh => h.1 hh.symm), ih r fuel (i + 1) (acc ++ [ch]) h.2]
    simp [Nat.add_assoc, Nat.add_comm 1]

/-- **an undefined entity is an error at its own offset** — whatever precedes it (without `&`) and whatever follows -/
theorem decode_unknown_entity (pre name post : Bytes) (hpre : 0x26 ∉ pre) (hname : 0x3B ∉ name)
    (hfive : ∀ b, (name, b) ∉ fiveEntities) (hnum : name.head? ≠ some 0x23) :
    decodeEntities (pre ++ 0x26 :: name ++ 0x3B :: post) = .err .unknownEntity pre.length := by
  unfold decodeEntities
  have hlen : (pre ++ 0x26 :: name ++ 0x3B :: post).length + 1 = (name.length + post.length + 2 + 1) + pre.length := by
    simp; omega
  rw [hlen]
  have : pre ++ 0x26 :: name ++ 0x3B :: post = pre ++ (0x26 :: (name ++ 0x3B :: post)) := by simp
  rw [this, decodeLoop_literal pre _ _ 0 [] hpre]
  simp only [decodeLoop, ne_eq, not_true_eq_false, ↓reduceIte, Nat.zero_add]
  rw [findByte_append _ name post hname]
  simp only [List.take_left']
  rw [predefined_none_of_not_five name hfive]
  simp only
  cases name with
  | nil => rfl
  | cons x xs =>
    simp only [List.head?_cons, ne_eq, Option.some.injEq] at hnum
    split
    · rename_i heq; cases heq; exact (hnum rfl).elim
    · rfl

/-- the names of the five contain no `;` and do not start with `#` -/
theorem five_name_ok (name : Bytes) (b : UInt8) (h : (name, b) ∈ fiveEntities) : 0x3B ∉ name ∧ name.head? ≠ some 0x23 := by
  simp only [fiveEntities, List.mem_cons, Prod.mk.injEq, List.mem_nil_iff, or_false] at h
  rcases h with ⟨rfl, rfl⟩ | ⟨rfl, rfl⟩ | ⟨rfl, rfl⟩ | ⟨rfl, rfl⟩ | ⟨rfl, rfl⟩ <;> decide

theorem hash_not_five (body : Bytes) (b : UInt8) : ((0x23 : UInt8) :: body, b) ∉ fiveEntities := by
  intro h
  have := (five_name_ok _ b h).2
  simp at this

/-- completeness of the loop: whatever `Dec` relates, the loop computes -/
theorem decodeLoop_complete : ∀ (r o : Bytes), Dec r o → ∀ (fuel i : Nat) (acc : Bytes), r.length < fuel →
    decodeLoop fuel r i acc = .ok (acc ++ o) := by
  intro r o h
  induction h with
  | nil =>
    intro fuel i acc hf
    cases fuel with
    | zero => omega
    | succ f => simp [decodeLoop]
  | lit ch r o hch _ ih =>
    intro fuel i acc hf
    cases fuel with
    | zero => omega
    | succ f =>
      simp only [decodeLoop, hch, ne_eq, not_false_eq_true, ↓reduceIte]
      rw [ih f (i + 1) (acc ++ [ch]) (by simp at hf; omega)]
      simp
  | named name b r o hmem _ ih =>
    intro fuel i acc hf
    cases fuel with
    | zero => omega
    | succ f =>
      obtain ⟨hsemi, _⟩ := five_name_ok name b hmem
      simp only [List.cons_append, decodeLoop, ne_eq, not_true_eq_false, ↓reduceIte]
      rw [findByte_append _ name r hsemi]
      simp only [List.take_left', predefined_of_five name b hmem]
      have hdrop : (name ++ 0x3B :: r).drop (name.length + 1) = r := by
        rw [← List.drop_drop]; simp
      rw [hdrop, ih f _ _ (by simp at hf; omega)]
      simp
  | numeric body cp u r o hsemi hcode henc _ ih =>
    intro fuel i acc hf
    cases fuel with
    | zero => omega
    | succ f =>
      have hs : (0x3B : UInt8) ∉ (0x23 : UInt8) :: body := by
        simp only [List.mem_cons, not_or]; exact ⟨by decide, hsemi⟩
      have hrw : (0x26 : UInt8) :: 0x23 :: body ++ 0x3B :: r = 0x26 :: ((0x23 :: body) ++ 0x3B :: r) := by simp
      rw [hrw]
      simp only [decodeLoop, ne_eq, not_true_eq_false, ↓reduceIte]
      rw [findByte_append _ (0x23 :: body) r hs]
      simp only [List.take_left']
      rw [predefined_none_of_not_five _ (hash_not_five body)]
      have happ : appendCharRef (0x23 :: body) = some u := by
        unfold appendCharRef; rw [hcode]; exact henc
      simp only [happ]
      have hdrop : ((0x23 :: body) ++ 0x3B :: r).drop ((0x23 :: body).length + 1) = r := by
        rw [← List.drop_drop]; simp
      rw [hdrop, ih f _ _ (by simp at hf; omega)]
      simp

theorem decodeEntities_complete (inp out : Bytes) (h : Dec inp out) : decodeEntities inp = .ok out := by
  have := decodeLoop_complete inp out h (inp.length + 1) 0 [] (by omega)
  simpa [decodeEntities] using this

/-! ### what a numeric reference denotes -/

theorem forall_u8 {P : UInt8 → Prop} (h : ∀ n, n < 256 → P (UInt8.ofNat n)) : ∀ z, P z := by
  intro z
  have := h z.toNat z.toNat_lt
  rwa [UInt8.ofNat_toNat] at this

/-- value of a decimal digit -/
def decDigit (c : UInt8) : Option Nat := if 0x30 ≤ c.toNat ∧ c.toNat ≤ 0x39 then some (c.toNat - 0x30) else none

/-- value of a hexadecimal digit, either case -/
def hexDigit? (c : UInt8) : Option Nat :=
  if 0x30 ≤ c.toNat ∧ c.toNat ≤ 0x39 then some (c.toNat - 0x30)
  else if 0x61 ≤ c.toNat ∧ c.toNat ≤ 0x66 then some (c.toNat - 0x61 + 10)
  else if 0x41 ≤ c.toNat ∧ c.toNat ≤ 0x46 then some (c.toNat - 0x41 + 10)
  else none

/-- the number a digit string denotes in base `b` (unbounded), continuing from `acc`; `none` if a byte is not a digit -/
def numValue (b : Nat) (dv : UInt8 → Option Nat) : Bytes → Nat → Option Nat
  | [], acc => some acc
  | c :: r, acc =>
    match dv c with
    | none => none
    | some d => numValue b dv r (acc * b + d)

theorem hexDigitVal_eq : ∀ c : UInt8, hexDigitVal c = (hexDigit? c).map UInt32.ofNat ∧ (∀ d, hexDigit? c = some d → d < 16) :=
  forall_u8 (by decide +kernel)

theorem decDigit_eq : ∀ c : UInt8, (if c < 0x30 || c > 0x39 then none else some (c - 0x30).toUInt32) = (decDigit c).map UInt32.ofNat ∧
    (∀ d, decDigit c = some d → d < 10) :=
  forall_u8 (by decide +kernel)

theorem shl4_or (acc d : Nat) (hd : d < 16) : (UInt32.ofNat acc <<< 4) ||| UInt32.ofNat d = UInt32.ofNat (acc * 16 + d) := by
  apply UInt32.toNat_inj.mp
  simp only [UInt32.toNat_or, UInt32.toNat_shiftLeft, UInt32.toNat_ofNat', UInt32.reduceToNat, Nat.reduceMod, Nat.shiftLeft_eq]
  have h1 : acc % 4294967296 * 2 ^ 4 % 4294967296 = 2 ^ 4 * (acc % 268435456) := by omega
  have h2 : d % 4294967296 = d := by omega
  rw [h1, h2, ← Nat.two_pow_add_eq_or_of_lt (by omega : d < 2 ^ 4)]
  omega

theorem hexAcc_value : ∀ (r : Bytes) (acc : Nat), hexAcc r (UInt32.ofNat acc) = (numValue 16 hexDigit? r acc).map UInt32.ofNat := by
  intro r
  induction r with
  | nil => intro acc; simp [hexAcc, numValue]
  | cons c r ih =>
    intro acc
    obtain ⟨h1, h2⟩ := hexDigitVal_eq c
    simp only [hexAcc, numValue, h1]
    cases hd : hexDigit? c with
    | none => simp
    | some d =>
      simp only [Option.map_some]
      rw [shl4_or acc d (h2 d hd), ih]

theorem decAcc_value : ∀ (r : Bytes) (acc : Nat), decAcc r (UInt32.ofNat acc) = (numValue 10 decDigit r acc).map UInt32.ofNat := by
  intro r
  induction r with
  | nil => intro acc; simp [decAcc, numValue]
  | cons c r ih =>
    intro acc
    obtain ⟨h1, h2⟩ := decDigit_eq c
    simp only [decAcc, numValue]
    cases hd : decDigit c with
    | none =>
      rw [hd] at h1
      simp only [Option.map_none] at h1
      split at h1
      · rename_i hc; simp [hc]
      · cases h1
    | some d =>
      rw [hd] at h1
      simp only [Option.map_some] at h1
      split at h1
      · cases h1
      · rename_i hc
        simp only [hc, Bool.false_eq_true, ↓reduceIte]
        simp only [Option.some.injEq] at h1
        rw [h1, ← ih]
        congr 1
        apply UInt32.toNat_inj.mp
        simp only [UInt32.toNat_add, UInt32.toNat_mul, UInt32.toNat_ofNat', UInt32.reduceToNat]
        omega

/-- **what a numeric reference denotes**: the digits' value, reduced modulo 2^32 (the `uint32_t` accumulator wraps) -/
theorem charRefCode_hex (x : UInt8) (ds : Bytes) (hx : x = 0x78 ∨ x = 0x58) :
    charRefCode (0x23 :: x :: ds) = (numValue 16 hexDigit? ds 0).map UInt32.ofNat := by
  have := hexAcc_value ds 0
  rcases hx with h | h <;> subst h <;> simpa [charRefCode] using this

theorem charRefCode_dec (x : UInt8) (ds : Bytes) (hx : x ≠ 0x78 ∧ x ≠ 0x58) :
    charRefCode (0x23 :: x :: ds) = (numValue 10 decDigit (x :: ds) 0).map UInt32.ofNat := by
  have := decAcc_value (x :: ds) 0
  simp only [charRefCode, hx.1, hx.2, decide_false, Bool.or_self, Bool.false_eq_true, ↓reduceIte]
  simpa using this


end Iora.Xml
