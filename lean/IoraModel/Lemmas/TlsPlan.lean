import IoraModel.Model.TlsPlan
/-! Helper lemmas for C07 (`Props/C07.lean`): closed form of a context block, the floor, the OpenSSL reference. -/
namespace Iora.Tls
open Iora.Gen.TlsCalls

/-! ### `applyTls12Floor` -/

theorem floor_ge (n : Int) : tls12 ≤ floor n ∧ n ≤ floor n := by
  unfold floor
  simp only [floorCmp, floorConst, floorThen, floorElse, Cmp.eval, FloorArm.eval, tls12]
  by_cases h : n < 771 <;> simp [h] <;> omega

/-- the effective minimum of a fresh context: always set, TLS 1.2 … TLS 1.3, and the operator's minimum whenever that is
a TLS version the library knows — for EVERY integer `n` -/
theorem applyFloorMin_ok (n : Int) :
    ∃ m, applyFloorMin none n = some m ∧ tls12 ≤ m ∧ m ≤ 772 ∧ (n ≤ 772 → n ≤ m) := by
  unfold applyFloorMin libSetMin floor
  simp only [floorCmp, floorConst, floorThen, floorElse, floorReadback, Cmp.eval, FloorArm.eval, tls12]
  by_cases h1 : n < 771
  · refine ⟨771, ?_, by omega, by omega, by omega⟩
    simp [h1]
  · by_cases h2 : n ≤ 772
    · refine ⟨n, ?_, by omega, by omega, by omega⟩
      have h3 : ¬ n = 0 := by omega
      have h4 : (768 : Int) ≤ n := by omega
      simp [h1, h2, h3, h4]
    · refine ⟨771, ?_, by omega, by omega, by omega⟩
      have h3 : ¬ n = 0 := by omega
      simp [h1, h2, h3]

/-! ### closed form of `runSteps`: a block refuses iff some enabled step refuses; otherwise every field is the last enabled write -/

def stepRefuses (e : Env) (f : Files) (s : Step) : Bool :=
  s.guard.eval e &&
    match s.act with
    | .require x => !f.holds x
    | .fail => true
    | _ => false

def refusedIn (e : Env) (f : Files) (ss : List Step) : Bool := ss.any (stepRefuses e f)

def verifyOf (e : Env) : List Step → List VFlag → List VFlag
  | [], acc => acc
  | s :: ss, acc => verifyOf e ss (match s.act with | .setVerify fl => if s.guard.eval e then fl else acc | _ => acc)

def minOf (e : Env) : List Step → Option Int → Option Int
  | [], acc => acc
  | s :: ss, acc => minOf e ss (match s.act with | .applyFloor => if s.guard.eval e then applyFloorMin acc e.cfg.minVersion else acc | _ => acc)

def trustOf (e : Env) : List Step → Trust → Trust
  | [], acc => acc
  | s :: ss, acc =>
    trustOf e ss (match s.act with
      | .require .caLoads => if s.guard.eval e then { acc with file := acc.file || e.cfg.caFileSet, path := acc.path || e.cfg.caPathSet } else acc
      | .defaultVerifyPaths => if s.guard.eval e then { acc with dflt := true } else acc
      | _ => acc)

def certOf (e : Env) : List Step → Bool → Bool
  | [], acc => acc
  | s :: ss, acc => certOf e ss (match s.act with | .require .certLoads => if s.guard.eval e then true else acc | _ => acc)

def keyOf (e : Env) : List Step → Bool → Bool
  | [], acc => acc
  | s :: ss, acc => keyOf e ss (match s.act with | .require .keyLoads => if s.guard.eval e then true else acc | _ => acc)

def anonOf (e : Env) : List Step → Bool → Bool
  | [], acc => acc
  | s :: ss, acc => anonOf e ss (match s.act with | .setCipherList => if s.guard.eval e then e.cfg.ciphers == .enablesAnon else acc | _ => acc)

def depthOf (e : Env) : List Step → Option Int → Option Int
  | [], acc => acc
  | s :: ss, acc => depthOf e ss (match s.act with | .setVerifyDepth => if s.guard.eval e then some e.cfg.verifyDepth else acc | _ => acc)

theorem runSteps_eq (e : Env) (f : Files) (ss : List Step) (c : Ctx) :
    runSteps e f ss c =
      if refusedIn e f ss then none
      else some { role := c.role, verify := verifyOf e ss c.verify, minProto := minOf e ss c.minProto,
                  trust := trustOf e ss c.trust, certLoaded := certOf e ss c.certLoaded, keyLoaded := keyOf e ss c.keyLoaded,
                  anon := anonOf e ss c.anon, depth := depthOf e ss c.depth } := by
  induction ss generalizing c with
  | nil => simp [runSteps, refusedIn, verifyOf, minOf, trustOf, certOf, keyOf, anonOf, depthOf]
  | cons s ss ih =>
    obtain ⟨g, act⟩ := s
    cases hg : g.eval e
    · simp [runSteps, stepCtx, hg, ih, refusedIn, stepRefuses, verifyOf, minOf, trustOf, certOf, keyOf, anonOf, depthOf]
      cases act <;> simp
      rename_i x; cases x <;> simp
    · cases act with
      | require x =>
        cases hx : f.holds x
        · simp [runSteps, stepCtx, hg, hx, refusedIn, stepRefuses]
        · cases x <;>
            simp [runSteps, stepCtx, hg, hx, ih, refusedIn, stepRefuses, verifyOf, minOf, trustOf, certOf, keyOf, anonOf, depthOf]
      | fail => simp [runSteps, stepCtx, hg, refusedIn, stepRefuses]
      | setVerify fl => simp [runSteps, stepCtx, hg, ih, refusedIn, stepRefuses, verifyOf, minOf, trustOf, certOf, keyOf, anonOf, depthOf]
      | defaultVerifyPaths => simp [runSteps, stepCtx, hg, ih, refusedIn, stepRefuses, verifyOf, minOf, trustOf, certOf, keyOf, anonOf, depthOf]
      | applyFloor => simp [runSteps, stepCtx, hg, ih, refusedIn, stepRefuses, verifyOf, minOf, trustOf, certOf, keyOf, anonOf, depthOf]
      | setCipherList => simp [runSteps, stepCtx, hg, ih, refusedIn, stepRefuses, verifyOf, minOf, trustOf, certOf, keyOf, anonOf, depthOf]
      | setVerifyDepth => simp [runSteps, stepCtx, hg, ih, refusedIn, stepRefuses, verifyOf, minOf, trustOf, certOf, keyOf, anonOf, depthOf]
      | other n => simp [runSteps, stepCtx, hg, ih, refusedIn, stepRefuses, verifyOf, minOf, trustOf, certOf, keyOf, anonOf, depthOf]

end Iora.Tls

namespace Iora.Tls
open Iora.Gen.TlsCalls

/-! ### the two context blocks of `initTls`, in closed form -/

theorem buildCtx_eq (blk : CtxBlock) (role : Mode) (cfg : Cfg) (f : Files) :
    buildCtx blk role cfg f =
      if blk.create.eval { cfg := cfg } then
        if refusedIn { cfg := cfg } f blk.steps then .refused
        else .built { role := role, verify := verifyOf { cfg := cfg } blk.steps [], minProto := minOf { cfg := cfg } blk.steps none,
                      trust := trustOf { cfg := cfg } blk.steps {}, certLoaded := certOf { cfg := cfg } blk.steps false,
                      keyLoaded := keyOf { cfg := cfg } blk.steps false, anon := anonOf { cfg := cfg } blk.steps false,
                      depth := depthOf { cfg := cfg } blk.steps none }
      else .absent := by
  unfold buildCtx
  simp only [runSteps_eq]
  cases blk.create.eval { cfg := cfg } <;> simp
  cases refusedIn { cfg := cfg } f blk.steps <;> simp

/-- what a built server context looks like -/
theorem server_built (cfg : Cfg) (f : Files) (c : Ctx) (h : buildCtx serverCtx .server cfg f = .built c) :
    c.role = .server ∧
    c.verify = (if cfg.verifyPeer then [.peer, .failIfNoPeerCert] else []) ∧
    c.minProto = applyFloorMin none cfg.minVersion ∧
    c.trust = (if cfg.verifyPeer && (cfg.caFileSet || cfg.caPathSet) then { file := cfg.caFileSet, path := cfg.caPathSet, dflt := false } else {}) ∧
    c.certLoaded = (cfg.certFileSet && cfg.keyFileSet) ∧ c.keyLoaded = (cfg.certFileSet && cfg.keyFileSet) ∧
    c.anon = (cfg.ciphers == .enablesAnon) := by
  rw [buildCtx_eq] at h
  split at h
  · split at h
    · cases h
    · injection h with h
      subst h
      cases hv : cfg.verifyPeer <;> cases hf : cfg.caFileSet <;> cases hp : cfg.caPathSet <;> cases hc : cfg.ciphers <;>
        simp [serverCtx, verifyOf, minOf, trustOf, certOf, keyOf, anonOf, G.eval, Env.atom, hv, hf, hp, hc]
  · cases h

/-- what a built client context looks like -/
theorem client_built (cfg : Cfg) (f : Files) (c : Ctx) (h : buildCtx clientCtx .client cfg f = .built c) :
    c.role = .client ∧
    c.verify = (if cfg.verifyPeer then [.peer] else []) ∧
    c.minProto = applyFloorMin none cfg.minVersion ∧
    c.trust = (if cfg.verifyPeer then (if cfg.caFileSet || cfg.caPathSet then { file := cfg.caFileSet, path := cfg.caPathSet, dflt := false } else { dflt := true }) else {}) ∧
    c.anon = (cfg.ciphers == .enablesAnon) := by
  rw [buildCtx_eq] at h
  split at h
  · split at h
    · cases h
    · injection h with h
      subst h
      cases hv : cfg.verifyPeer <;> cases hf : cfg.caFileSet <;> cases hp : cfg.caPathSet <;> cases hc : cfg.ciphers <;>
        simp [clientCtx, verifyOf, minOf, trustOf, anonOf, G.eval, Env.atom, hv, hf, hp, hc]
  · cases h

/-- a context exists only if the block's creation guard holds -/
theorem server_built_guard (cfg : Cfg) (f : Files) (c : Ctx) (h : buildCtx serverCtx .server cfg f = .built c) :
    cfg.enabled = true ∧ cfg.defaultMode = .server := by
  rw [buildCtx_eq] at h
  split at h
  · rename_i hc
    simpa [serverCtx, G.eval, Env.atom] using hc
  · cases h

theorem client_built_guard (cfg : Cfg) (f : Files) (c : Ctx) (h : buildCtx clientCtx .client cfg f = .built c) :
    cfg.enabled = true ∧ cfg.defaultMode = .client := by
  rw [buildCtx_eq] at h
  split at h
  · rename_i hc
    simpa [clientCtx, G.eval, Env.atom] using hc
  · cases h

/-- fail-fast rules of the server block -/
theorem server_refuses (cfg : Cfg) (f : Files) (he : cfg.enabled = true) (hm : cfg.defaultMode = .server)
    (hbad : (cfg.verifyPeer = true ∧ cfg.caFileSet = false ∧ cfg.caPathSet = false) ∨
            (cfg.verifyPeer = true ∧ f.caLoads = false) ∨
            (cfg.certFileSet = true ∧ cfg.keyFileSet = true ∧
              (f.certReadable = false ∨ f.keyReadable = false ∨ f.certLoads = false ∨ f.keyLoads = false ∨
               f.keyMatches = false ∨ f.certNotExpired = false))) :
    buildCtx serverCtx .server cfg f = .refused := by
  rw [buildCtx_eq]
  have hc : serverCtx.create.eval { cfg := cfg } = true := by simp [serverCtx, G.eval, Env.atom, he, hm]
  simp only [hc, if_true]
  have : refusedIn { cfg := cfg } f serverCtx.steps = true := by
    rcases hbad with ⟨hv, h1, h2⟩ | ⟨hv, h1⟩ | ⟨h1, h2, h3⟩
    · simp [refusedIn, serverCtx, stepRefuses, G.eval, Env.atom, Files.holds, hv, h1, h2]
    · cases hf : cfg.caFileSet <;> cases hp : cfg.caPathSet <;>
        simp [refusedIn, serverCtx, stepRefuses, G.eval, Env.atom, Files.holds, hv, h1, hf, hp]
    · rcases h3 with h | h | h | h | h | h <;>
        simp [refusedIn, serverCtx, stepRefuses, G.eval, Env.atom, Files.holds, h1, h2, h]
  simp [this]

/-! ### the OpenSSL parameter equals the reference under the assumed semantics -/

theorem ossl_clientTls_some (c : Ctx) (h : Option String) (a : Anchors) (p : SrvPeer) (v : Int) :
    Ossl.clientTls c h a p = some v ↔
      (c.lowest ≤ negotiated p.ceil ∧ p.cert.possession = true ∧
        (c.verify.contains .peer = true → chains p.cert a = true ∧ p.cert.inTime = true ∧ nameOk h p.cert = true)) ∧
      negotiated p.ceil = v := by
  unfold Ossl.clientTls
  cases hpe : c.verify.contains .peer <;>
    simp [hpe, and_assoc]

theorem ossl_serverTls_some (c : Ctx) (a : Anchors) (p : CliPeer) (v : Int) :
    Ossl.serverTls c a p = some v ↔
      (c.lowest ≤ negotiated p.ceil ∧ (c.certLoaded && c.keyLoaded) = true ∧
        (c.verify.contains .peer = true → Ossl.clientCertOk c a p.cert = true)) ∧
      negotiated p.ceil = v := by
  unfold Ossl.serverTls
  cases hpe : c.verify.contains .peer <;>
    simp [hpe, and_assoc]

theorem assumed_client {H : Handshake} (hA : H.Assumed) (c : Ctx) (h : Option String) (a : Anchors) (p : SrvPeer) :
    H.client c h a p = Ossl.client c h a p := by
  unfold Ossl.client
  cases hk : p.kind with
  | plaintext => exact hA.client_nontls c h a p (by simp [hk]) (by simp [hk])
  | garbage => exact hA.client_nontls c h a p (by simp [hk]) (by simp [hk])
  | anon => exact hA.client_anon c h a p hk
  | tls =>
    show H.client c h a p = Ossl.clientTls c h a p
    cases hr : Ossl.clientTls c h a p with
    | some v =>
      obtain ⟨⟨hv, hp, hver⟩, he⟩ := (ossl_clientTls_some c h a p v).mp hr
      rw [← he]
      exact hA.client_complete c h a p hk hv hp hver
    | none =>
      cases hr' : H.client c h a p with
      | none => rfl
      | some v =>
        exfalso
        have hv := hA.client_version c h a p v hk hr'
        have hp := hA.client_possession c h a p v hk hr'
        have : Ossl.clientTls c h a p = some v := by
          refine (ossl_clientTls_some c h a p v).mpr ⟨⟨?_, hp, ?_⟩, hv.1.symm⟩
          · rw [← hv.1]; exact hv.2
          · intro hpe
            have hch := hA.client_verify c h a p v hk hr' hpe
            refine ⟨hch.1, hch.2, ?_⟩
            cases h with
            | none => rfl
            | some n => exact hA.client_name c n a p v hk hr' hpe
        rw [hr] at this; cases this

theorem assumed_server {H : Handshake} (hA : H.Assumed) (c : Ctx) (a : Anchors) (p : CliPeer) :
    H.server c a p = Ossl.server c a p := by
  unfold Ossl.server
  cases hk : p.kind with
  | plaintext => exact hA.server_nontls c a p (by simp [hk]) (by simp [hk])
  | garbage => exact hA.server_nontls c a p (by simp [hk]) (by simp [hk])
  | anon => exact hA.server_anon c a p hk
  | tls =>
    show H.server c a p = Ossl.serverTls c a p
    cases hr : Ossl.serverTls c a p with
    | some v =>
      obtain ⟨⟨hv, hck, hver⟩, he⟩ := (ossl_serverTls_some c a p v).mp hr
      rw [← he]
      apply hA.server_complete c a p hk hv hck
      intro hpe
      have := hver hpe
      cases hcc : p.cert with
      | none => simpa [Ossl.clientCertOk, hcc] using this
      | some cc => simpa [Ossl.clientCertOk, hcc, and_assoc] using this
    | none =>
      cases hr' : H.server c a p with
      | none => rfl
      | some v =>
        exfalso
        have hv := hA.server_version c a p v hk hr'
        have hck := hA.server_needs_cert c a p v hk hr'
        have : Ossl.serverTls c a p = some v := by
          refine (ossl_serverTls_some c a p v).mpr ⟨⟨?_, hck, ?_⟩, hv.1.symm⟩
          · rw [← hv.1]; exact hv.2
          · intro hpe
            cases hcc : p.cert with
            | none => simpa [Ossl.clientCertOk] using hA.server_nocert c a p v hk hr' hpe hcc
            | some cc =>
              have := hA.server_verify c a p v cc hk hr' hpe hcc
              simp [Ossl.clientCertOk, this.1, this.2.1, this.2.2]
        rw [hr] at this; cases this

/-- the reference satisfies the assumed semantics (the hypotheses are consistent) -/
theorem ref_assumed : Ossl.ref.Assumed where
  client_nontls := fun c h a p h1 h2 => by
    simp only [Ossl.ref, Ossl.client]
  client_anon := fun c h a p hk => by simp [Ossl.ref, Ossl.client, hk]
  client_version := fun c h a p v hk hr => by
    simp only [Ossl.ref, Ossl.client, hk] at hr
    obtain ⟨⟨hv, _⟩, he⟩ := (ossl_clientTls_some c h a p v).mp hr
    exact ⟨he.symm, he ▸ hv⟩
  client_possession := fun c h a p v hk hr => by
    simp only [Ossl.ref, Ossl.client, hk] at hr
    exact ((ossl_clientTls_some c h a p v).mp hr).1.2.1
  client_verify := fun c h a p v hk hr hpe => by
    simp only [Ossl.ref, Ossl.client, hk] at hr
    have hh := ((ossl_clientTls_some c h a p v).mp hr).1.2.2 hpe
    exact ⟨hh.1, hh.2.1⟩
  client_name := fun c n a p v hk hr hpe => by
    simp only [Ossl.ref, Ossl.client, hk] at hr
    have hh := ((ossl_clientTls_some c (some n) a p v).mp hr).1.2.2 hpe
    simpa [nameOk] using hh.2.2
  client_complete := fun c h a p hk hv hp hver => by
    simp only [Ossl.ref, Ossl.client, hk]
    exact (ossl_clientTls_some c h a p _).mpr ⟨⟨hv, hp, hver⟩, rfl⟩
  server_nontls := fun c a p h1 h2 => by
    simp only [Ossl.ref, Ossl.server]
  server_anon := fun c a p hk => by simp [Ossl.ref, Ossl.server, hk]
  server_version := fun c a p v hk hr => by
    simp only [Ossl.ref, Ossl.server, hk] at hr
    obtain ⟨⟨hv, _⟩, he⟩ := (ossl_serverTls_some c a p v).mp hr
    exact ⟨he.symm, he ▸ hv⟩
  server_needs_cert := fun c a p v hk hr => by
    simp only [Ossl.ref, Ossl.server, hk] at hr
    exact ((ossl_serverTls_some c a p v).mp hr).1.2.1
  server_verify := fun c a p v cc hk hr hpe hcc => by
    simp only [Ossl.ref, Ossl.server, hk] at hr
    have hh := ((ossl_serverTls_some c a p v).mp hr).1.2.2 hpe
    simpa [Ossl.clientCertOk, hcc, and_assoc] using hh
  server_nocert := fun c a p v hk hr hpe hcc => by
    simp only [Ossl.ref, Ossl.server, hk] at hr
    have hh := ((ossl_serverTls_some c a p v).mp hr).1.2.2 hpe
    simpa [Ossl.clientCertOk, hcc] using hh
  server_complete := fun c a p hk hv hck hver => by
    simp only [Ossl.ref, Ossl.server, hk]
    refine (ossl_serverTls_some c a p _).mpr ⟨⟨hv, hck, ?_⟩, rfl⟩
    intro hpe
    have := hver hpe
    cases hcc : p.cert with
    | none => simpa [Ossl.clientCertOk, hcc] using this
    | some cc => simpa [Ossl.clientCertOk, hcc, and_assoc] using this

end Iora.Tls

namespace Iora.Tls
open Iora.Gen.TlsCalls

/-! ### exhaustive enumeration of the (finite) matrix: `allX p = true ↔ ∀ x, p x = true` -/

def allBool (p : Bool → Bool) : Bool := p false && p true
theorem allBool_iff {p : Bool → Bool} : allBool p = true ↔ ∀ b, p b = true := by
  constructor
  · intro h b; simp only [allBool, Bool.and_eq_true] at h; cases b <;> simp [h.1, h.2]
  · intro h; simp [allBool, h]

def allTrust (p : TrustSel → Bool) : Bool := p .right && p .wrong && p .none
theorem allTrust_iff {p : TrustSel → Bool} : allTrust p = true ↔ ∀ b, p b = true := by
  constructor
  · intro h b; simp only [allTrust, Bool.and_eq_true] at h; cases b <;> simp [h.1.1, h.1.2, h.2]
  · intro h; simp [allTrust, h]

def allCert (p : CertKind → Bool) : Bool :=
  p .valid && p .selfSigned && p .expired && p .wrongName && p .keyMismatch && p .sanOther && p .cnOnly
theorem allCert_iff {p : CertKind → Bool} : allCert p = true ↔ ∀ b, p b = true := by
  constructor
  · intro h b; simp only [allCert, Bool.and_eq_true] at h; obtain ⟨⟨⟨⟨⟨⟨h1, h2⟩, h3⟩, h4⟩, h5⟩, h6⟩, h7⟩ := h; cases b <;> assumption
  · intro h; simp [allCert, h]

def allCCert (p : CCertKind → Bool) : Bool := p .none && p .valid && p .untrusted && p .expired
theorem allCCert_iff {p : CCertKind → Bool} : allCCert p = true ↔ ∀ b, p b = true := by
  constructor
  · intro h b; simp only [allCCert, Bool.and_eq_true] at h; obtain ⟨⟨⟨h1, h2⟩, h3⟩, h4⟩ := h; cases b <;> assumption
  · intro h; simp [allCCert, h]

def allVer (p : Ver → Bool) : Bool := p .v10 && p .v11 && p .v12 && p .v13
theorem allVer_iff {p : Ver → Bool} : allVer p = true ↔ ∀ b, p b = true := by
  constructor
  · intro h b; simp only [allVer, Bool.and_eq_true] at h; obtain ⟨⟨⟨h1, h2⟩, h3⟩, h4⟩ := h; cases b <;> assumption
  · intro h; simp [allVer, h]

def allMin (p : MinSel → Bool) : Bool := p .unset && p .v10 && p .v11 && p .v12 && p .v13
theorem allMin_iff {p : MinSel → Bool} : allMin p = true ↔ ∀ b, p b = true := by
  constructor
  · intro h b; simp only [allMin, Bool.and_eq_true] at h; obtain ⟨⟨⟨⟨h1, h2⟩, h3⟩, h4⟩, h5⟩ := h; cases b <;> assumption
  · intro h; simp [allMin, h]

def allPeer (p : PeerKind → Bool) : Bool := p .tls && p .plaintext && p .garbage && p .anon
theorem allPeer_iff {p : PeerKind → Bool} : allPeer p = true ↔ ∀ b, p b = true := by
  constructor
  · intro h b; simp only [allPeer, Bool.and_eq_true] at h; obtain ⟨⟨⟨h1, h2⟩, h3⟩, h4⟩ := h; cases b <;> assumption
  · intro h; simp [allPeer, h]

def CliCell.all (p : CliCell → Bool) : Bool :=
  allBool fun v => allTrust fun t => allCert fun s => allVer fun ce => allPeer fun pk => allBool fun bn => allMin fun m =>
    p ⟨v, t, s, ce, pk, bn, m⟩
theorem CliCell.all_iff {p : CliCell → Bool} : CliCell.all p = true ↔ ∀ c, p c = true := by
  simp only [CliCell.all, allBool_iff, allTrust_iff, allCert_iff, allVer_iff, allPeer_iff, allMin_iff]
  constructor
  · intro h ⟨v, t, s, ce, pk, bn, m⟩; exact h v t s ce pk bn m
  · intro h v t s ce pk bn m; exact h _

def SrvCell.all (p : SrvCell → Bool) : Bool :=
  allBool fun v => allTrust fun t => allCert fun o => allCCert fun cc => allVer fun ce => allPeer fun pk => allMin fun m =>
    p ⟨v, t, o, cc, ce, pk, m⟩
theorem SrvCell.all_iff {p : SrvCell → Bool} : SrvCell.all p = true ↔ ∀ c, p c = true := by
  simp only [SrvCell.all, allBool_iff, allTrust_iff, allCert_iff, allCCert_iff, allVer_iff, allPeer_iff, allMin_iff]
  constructor
  · intro h ⟨v, t, o, cc, ce, pk, m⟩; exact h v t o cc ce pk m
  · intro h v t o cc ce pk m; exact h _

/-- what is checked in every client cell (for the cell's plan `p`): announced exactly when admissible, never below
TLS 1.2, never plain -/
def cliCellOkP (p : Plan) (c : CliCell) : Bool :=
  let o := clientOutcome Ossl.ref p c.trust.anchors .empty c.srvPeer
  (o.isSome == Spec.cliAdmissible c) &&
  (match o with | some v => decide (Spec.tls12 ≤ v) | none => true) &&
  (p != .plain)
def cliCellOk (c : CliCell) : Bool := cliCellOkP c.plan c

def srvCellOkP (p : Plan) (c : SrvCell) : Bool :=
  let o := serverOutcome Ossl.ref p c.trust.anchors .empty c.cliPeer
  (o.isSome == Spec.srvAdmissible c) &&
  (match o with | some v => decide (Spec.tls12 ≤ v) | none => true) &&
  (p != .plain)
def srvCellOk (c : SrvCell) : Bool := srvCellOkP c.plan c

/-- the same enumeration with the plan computed once per configuration (it does not depend on the peer's dimensions):
this is what the kernel evaluates -/
def CliCell.allShared : Bool :=
  allBool fun v => allTrust fun t => allBool fun bn => allMin fun m =>
    (fun p => allCert fun s => allVer fun ce => allPeer fun pk => cliCellOkP p ⟨v, t, s, ce, pk, bn, m⟩)
      (CliCell.plan ⟨v, t, .valid, .v10, .tls, bn, m⟩)

theorem CliCell.allShared_iff : CliCell.allShared = true ↔ ∀ c, cliCellOk c = true := by
  simp only [CliCell.allShared, allBool_iff, allTrust_iff, allCert_iff, allVer_iff, allPeer_iff, allMin_iff]
  constructor
  · intro h ⟨v, t, s, ce, pk, bn, m⟩; exact h v t bn m s ce pk
  · intro h v t bn m s ce pk; exact h ⟨v, t, s, ce, pk, bn, m⟩

def SrvCell.allShared : Bool :=
  allBool fun v => allTrust fun t => allCert fun o => allMin fun m =>
    (fun p => allCCert fun cc => allVer fun ce => allPeer fun pk => srvCellOkP p ⟨v, t, o, cc, ce, pk, m⟩)
      (SrvCell.plan ⟨v, t, o, .none, .v10, .tls, m⟩)

theorem SrvCell.allShared_iff : SrvCell.allShared = true ↔ ∀ c, srvCellOk c = true := by
  simp only [SrvCell.allShared, allBool_iff, allTrust_iff, allCert_iff, allCCert_iff, allVer_iff, allPeer_iff, allMin_iff]
  constructor
  · intro h ⟨v, t, o, cc, ce, pk, m⟩; exact h v t o m cc ce pk
  · intro h v t o m cc ce pk; exact h ⟨v, t, o, cc, ce, pk, m⟩

def httpCellOkP (p : Plan) (c : HttpCell) : Bool :=
  let o := clientOutcome Ossl.ref p c.ca.anchors c.sys.anchors c.srvPeer
  (c.nameUnchecked || (o.isSome == Spec.httpAdmissible c)) &&
  (match o with | some v => decide (Spec.tls12 ≤ v) | none => true) &&
  (p != .plain)
def httpCellOk (c : HttpCell) : Bool := httpCellOkP c.plan c

def HttpCell.allShared : Bool :=
  allBool fun v => allTrust fun ca => allBool fun bn =>
    (fun p => allTrust fun sy => allCert fun s => allVer fun ce => allPeer fun pk => httpCellOkP p ⟨v, ca, sy, s, ce, pk, bn⟩)
      (HttpCell.plan ⟨v, ca, .none, .valid, .v10, .tls, bn⟩)

theorem HttpCell.allShared_iff : HttpCell.allShared = true ↔ ∀ c, httpCellOk c = true := by
  simp only [HttpCell.allShared, allBool_iff, allTrust_iff, allCert_iff, allVer_iff, allPeer_iff]
  constructor
  · intro h ⟨v, ca, sy, s, ce, pk, bn⟩; exact h v ca bn sy s ce pk
  · intro h v ca bn sy s ce pk; exact h ⟨v, ca, sy, s, ce, pk, bn⟩

theorem outcome_http_eq {H : Handshake} (hA : H.Assumed) (c : HttpCell) : c.outcome H = c.outcome Ossl.ref := by
  unfold HttpCell.outcome clientOutcome
  cases c.plan <;> simp [assumed_client hA, Ossl.ref]

theorem outcome_cli_eq {H : Handshake} (hA : H.Assumed) (c : CliCell) : c.outcome H = c.outcome Ossl.ref := by
  unfold CliCell.outcome clientOutcome
  cases c.plan <;> simp [assumed_client hA, Ossl.ref]

theorem outcome_srv_eq {H : Handshake} (hA : H.Assumed) (c : SrvCell) : c.outcome H = c.outcome Ossl.ref := by
  unfold SrvCell.outcome serverOutcome
  cases c.plan <;> simp [assumed_server hA, Ossl.ref]

end Iora.Tls

namespace Iora.Tls
open Iora.Gen.TlsCalls

/-! ### what a `.tls` plan tells about the configuration -/

theorem ctx?_some (r : CtxRes) (c : Ctx) : r.ctx? = some c ↔ r = .built c := by
  cases r <;> simp [CtxRes.ctx?]

theorem start_up (tc : TCfg) (tf : TFiles) (srv cli : Option Ctx) (h : start tc tf = .up srv cli) :
    srv = (buildCtx serverCtx .server tc.server tf.server).ctx? ∧
    cli = (buildCtx clientCtx .client tc.client tf.client).ctx? := by
  unfold start at h
  cases hs : buildCtx serverCtx .server tc.server tf.server <;>
    cases hc : buildCtx clientCtx .client tc.client tf.client <;>
    simp only [hs, hc] at h <;> first | (cases h; exact ⟨rfl, rfl⟩) | cases h

theorem connectPlan_tls {tc : TCfg} {tf : TFiles} {req : Mode} {t : Target} {c : Ctx} {h s : Option String}
    (hp : connectPlan tc tf req t = .tls c h s) :
    buildCtx clientCtx .client tc.client tf.client = .built c ∧
    h = (if connectSite.set1host.eval { cfg := tc.client, req := req, ctx := true, target := t } then t.name? else none) ∧
    s = (if connectSite.sni.eval { cfg := tc.client, req := req, ctx := true, target := t } then t.name? else none) := by
  unfold connectPlan at hp
  cases hst : start tc tf with
  | refused => simp [hst] at hp
  | up srv cli =>
    simp only [hst] at hp
    obtain ⟨_, hcli⟩ := start_up _ _ _ _ hst
    simp only [connectOn] at hp
    cases cli with
    | none =>
      exfalso
      split at hp <;> (try split at hp) <;> simp at hp
    | some c' =>
      split at hp
      · cases hp
      · split at hp
        · simp only [Option.isSome_some] at hp
          injection hp with h1 h2 h3
          subst h1
          exact ⟨(ctx?_some _ _).mp hcli.symm, h2.symm, h3.symm⟩
        · cases hp

theorem listenPlan_tls {tc : TCfg} {tf : TFiles} {req : Mode} {c : Ctx} {h s : Option String}
    (hp : listenPlan tc tf req = .tls c h s) :
    buildCtx serverCtx .server tc.server tf.server = .built c ∧ h = none ∧ s = none := by
  unfold listenPlan at hp
  cases hst : start tc tf with
  | refused => simp [hst] at hp
  | up srv cli =>
    simp only [hst] at hp
    obtain ⟨hsrv, _⟩ := start_up _ _ _ _ hst
    simp only [listenOn] at hp
    cases srv with
    | none =>
      exfalso
      split at hp <;> (try split at hp) <;> simp at hp
    | some c' =>
      split at hp
      · cases hp
      · split at hp
        · injection hp with h1 h2 h3
          subst h1
          exact ⟨(ctx?_some _ _).mp hsrv.symm, h2.symm, h3.symm⟩
        · cases hp

end Iora.Tls

namespace Iora.Tls
open Iora.Gen.TlsCalls

/-! ### the session machine: a TLS session is silent until the handshake is done and never writes raw bytes -/

/-- a TLS session: requested with TLS, mode set, state `handshake` or `open` -/
def Sess.IsTls (s : Sess) : Prop := s.req ≠ .none ∧ s.tlsMode ≠ .none ∧ s.tlsState ≠ .none

/-- still before the successful end of the handshake (or already closed) -/
def Sess.Pending (s : Sess) : Prop :=
  s.req ≠ .none ∧ s.tlsMode ≠ .none ∧ (s.tlsState = .handshake ∨ s.closed = true) ∧ s.announced = false

/-- the event "`SSL_do_handshake` returned 1" -/
def SEv.isHsOk : SEv → Bool
  | .epoll _ (some true) => true
  | _ => false

theorem sessStep_tls (s : Sess) (ev : SEv) (h : s.IsTls) :
    (sessStep s ev).1.IsTls ∧ ∀ bs, SOut.rawWire bs ∉ (sessStep s ev).2 := by
  obtain ⟨req, mode, st, pend, ann, closed, wq⟩ := s
  obtain ⟨hr, hm, hs⟩ := h
  simp only at hr hm hs
  cases req <;> simp at hr <;> cases mode <;> simp at hm <;> cases st <;> simp at hs <;> cases closed <;> cases pend <;>
    cases ev <;> (try rename_i out rc; cases out <;> rcases rc with _ | _ | _) <;> cases wq <;>
    simp [sessStep, driveHs, leakOnIncomplete, writePending, announce, Sess.IsTls, Sess.inHs, Sess.openTls,
      handshakeDrivenFirst, handshakeReturnsWhenIncomplete, plainAnnounceRequiresModeNone, immediateAnnounceRequiresReqNone,
      wantIoKeepsHandshake, failureCloses, openOnlyOnRc1, connectCbOnlyOnRc1, sendQueuedDuringHandshake, sendGuardPrecedesIo,
      doSendSslWhenOpenTls, writePendingSslWhenOpenTls, writePendingSkipsHandshake]

theorem sessRun_tls_no_raw (s : Sess) (evs : List SEv) (h : s.IsTls) : ∀ bs, SOut.rawWire bs ∉ sessRun s evs := by
  induction evs generalizing s with
  | nil => simp [sessRun]
  | cons e es ih =>
    intro bs
    simp only [sessRun, List.mem_append, not_or]
    exact ⟨(sessStep_tls s e h).2 bs, ih _ (sessStep_tls s e h).1 bs⟩

/-- without a successful `SSL_do_handshake` the session stays pending and emits nothing but (at most) its close -/
theorem sessStep_pending (s : Sess) (ev : SEv) (h : s.Pending) (hev : ev.isHsOk = false) :
    (sessStep s ev).1.Pending ∧ ∀ o ∈ (sessStep s ev).2, o = .onClose := by
  obtain ⟨req, mode, st, pend, ann, closed, wq⟩ := s
  obtain ⟨hr, hm, hs, ha⟩ := h
  simp only at hr hm hs ha
  subst ha
  cases req <;> simp at hr <;> cases mode <;> simp at hm <;> cases closed <;> cases st <;> simp at hs <;> cases pend <;>
    cases ev <;> (try rename_i out rc; cases out <;> rcases rc with _ | _ | _) <;> cases wq <;>
    simp [SEv.isHsOk] at hev <;>
    simp [sessStep, driveHs, leakOnIncomplete, writePending, announce, Sess.Pending, Sess.inHs, Sess.openTls,
      handshakeDrivenFirst, handshakeReturnsWhenIncomplete, plainAnnounceRequiresModeNone, immediateAnnounceRequiresReqNone,
      wantIoKeepsHandshake, failureCloses, openOnlyOnRc1, connectCbOnlyOnRc1, sendQueuedDuringHandshake, sendGuardPrecedesIo,
      doSendSslWhenOpenTls, writePendingSslWhenOpenTls, writePendingSkipsHandshake]

theorem sessRun_pending (s : Sess) (evs : List SEv) (h : s.Pending) (hev : ∀ e ∈ evs, e.isHsOk = false) :
    ∀ o ∈ sessRun s evs, o = .onClose := by
  induction evs generalizing s with
  | nil => simp [sessRun]
  | cons e es ih =>
    intro o ho
    simp only [sessRun, List.mem_append] at ho
    have hst := sessStep_pending s e h (hev e (List.mem_cons_self ..))
    rcases ho with ho | ho
    · exact hst.2 o ho
    · exact ih _ hst.1 (fun e' he' => hev e' (List.mem_cons_of_mem _ he')) o ho

/-! ### `HttpClient` configuration history -/

/-- the settings in force are the settings last accepted by `setTlsConfig` -/
def HState.Coherent (s : HState) : Prop := s.applied = none ∨ s.applied = some s.stored

theorem hStep_coherent (s : HState) (o : HOp) (h : s.Coherent) : (hStep s o).1.Coherent := by
  cases o with
  | touch =>
    cases hd : s.dead <;> rcases h with h | h <;> simp [hStep, HState.Coherent, h, hd]
  | touchFail =>
    simp only [hStep, initFailureReleasesTransport]
    cases ha : s.applied <;> cases hd : s.dead <;> simp [HState.Coherent, ha, hd] <;> rcases h with h | h <;> simp_all
  | setTls c =>
    simp only [hStep, setTlsConfigRejectsChangeAfterInit, Bool.true_and]
    rcases h with h | h
    · cases hd : s.dead
      · simp [HState.Coherent, h]
      · by_cases hc : s.stored = c
        · subst hc; simp [HState.Coherent, h]
        · simp [HState.Coherent, h, hc]
    · by_cases hc : s.stored = c
      · subst hc; simp [HState.Coherent, h]
      · simp [HState.Coherent, h, hc]

/-- a failed initialisation never leaves a dead transport behind -/
theorem hStep_alive (s : HState) (o : HOp) (h : s.dead = false) : (hStep s o).1.dead = false := by
  cases o with
  | touch => simp [hStep, h]
  | touchFail => simp only [hStep, initFailureReleasesTransport]; cases s.applied <;> simp [h]
  | setTls c => simp only [hStep]; split <;> simp [h]

theorem hRun_alive (s : HState) (ops : List HOp) (h : s.dead = false) : (hRun s ops).dead = false := by
  induction ops generalizing s with
  | nil => exact h
  | cons o os ih => exact ih _ (hStep_alive s o h)

theorem hRun_coherent (s : HState) (ops : List HOp) (h : s.Coherent) : (hRun s ops).Coherent := by
  induction ops generalizing s with
  | nil => exact h
  | cons o os ih => exact ih _ (hStep_coherent s o h)

end Iora.Tls
