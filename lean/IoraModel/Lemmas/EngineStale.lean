import IoraModel.Lemmas.EngineSteps
/-!
# No handler reaches a session that is no longer in the table (C02, `stale`)

`G.stale` is set by the model exactly where the C++ would dereference a `Session*` after the session has been erased (or use
`cr.sid` of a request that is not in flight).  This file proves that no history sets it.
-/
namespace Iora.Lifecycle

/-- no entry of the table carries the closed flag (true whenever handlers run: only the shutdown drain flags entries) -/
def NoFlag (g : G) : Prop := ∀ sid s, g.table sid = some s → s.closed = false
/-- the session is in the table -/
def Has (sid : Sid) (g : G) : Prop := g.table sid ≠ none

instance : Closed0 NoFlag where
  closeNow := by
    intro sid site g h; unfold closeNow; split <;> (try split) <;> (try exact h)
    intro x s hx; by_cases e : x = sid
    · subst e; simp [emit, upd] at hx
    · simp [emit, upd, e] at hx; exact h x s hx
  failConnect := by intro site g h; unfold failConnect; split <;> exact h
  insertCur := by
    intro t k o g h; unfold insertCur; split
    · exact h
    · rename_i sid _; intro x s hx; by_cases e : x = sid
      · subst e; simp [upd] at hx; subst hx; rfl
      · simp [upd, e] at hx; exact h x s hx
  acceptFresh := by
    intro t k o g h x s hx; by_cases e : x = g.nextId
    · subst e; simp [acceptFresh, emit, upd] at hx; subst hx; rfl
    · simp [acceptFresh, emit, upd, e] at hx; exact h x s hx
  burnId := by intro g h; exact h
  announceConnect := by
    intro sid c g h; unfold announceConnect withLive; split <;> (try split) <;> (try exact h)
    rename_i s hs hc; intro x s' hx; by_cases e : x = sid
    · subst e; simp [emit, upd] at hx; subst hx; exact h x s hs
    · simp [emit, upd, e] at hx; exact h x s' hx
  dataCb := by intro sid g h; unfold dataCb withLive; split <;> (try split) <;> exact h
  setWq := by
    intro sid n g h; unfold setWq withLive; split <;> (try split) <;> (try exact h)
    rename_i s hs hc; intro x s' hx; by_cases e : x = sid
    · subst e; simp [upd] at hx; subst hx; exact h x s hs
    · simp [upd, e] at hx; exact h x s' hx
  viaIndex := by intro sid k g h; unfold viaIndex withLive; split <;> (try split) <;> (try simp only []) <;> (try split) <;> exact h
  stale := by intro g h; exact h
  bp := by intro n g h; exact h
  listeners := by intro l g h; exact h
  running := by intro b g h; exact h

instance : Closed NoFlag where
  pop := by
    intro g h _; unfold popCmd; split
    · exact h
    · rename_i c rest hb; cases c <;> exact h

/-! ## stale / domain facts of the primitives -/
@[simp] theorem closeNow_stale (sid : Sid) (site : Site) (g : G) : (closeNow sid site g).stale = g.stale := by
  unfold closeNow; split <;> (try split) <;> simp [emit]
@[simp] theorem bumpBp_stale (g : G) : (bumpBp g).stale = g.stale := rfl
@[simp] theorem bumpBp_table (g : G) : (bumpBp g).table = g.table := rfl
@[simp] theorem burnId_stale (g : G) : (burnId g).stale = g.stale := rfl
@[simp] theorem acceptFresh_stale (t : Tls) (k : Option Key) (o : Lid) (g : G) : (acceptFresh t k o g).1.stale = g.stale := rfl

theorem closeNow_has (sid x : Sid) (site : Site) (g : G) (h : Has x (closeNow sid site g)) : Has x g := by
  unfold closeNow at h
  split at h
  · exact h
  · split at h
    · exact h
    · by_cases e : x = sid
      · subst e; simp [Has, emit, upd] at h
      · simpa [Has, emit, upd, e] using h

/-- the operations that update the entry of a live session in place -/
theorem upd_live {g : G} {sid : Sid} (hn : NoFlag g) (hh : Has sid g) :
    ∃ s, g.table sid = some s ∧ s.closed = false := by
  cases e : g.table sid with
  | none => exact absurd e hh
  | some s => exact ⟨s, rfl, hn sid s e⟩

theorem announceConnect_ok (sid : Sid) (c : Bool) {g : G} (hn : NoFlag g) (hh : Has sid g) :
    (announceConnect sid g c).stale = g.stale ∧ ∀ x, Has x (announceConnect sid g c) ↔ Has x g := by
  obtain ⟨s, hs, hc⟩ := upd_live hn hh
  unfold announceConnect withLive
  simp only [hs, hc]
  refine ⟨by simp [emit], ?_⟩
  intro x; by_cases e : x = sid
  · subst e; simp [Has, emit, upd, hs]
  · simp [Has, emit, upd, e]

theorem dataCb_ok (sid : Sid) {g : G} (hn : NoFlag g) (hh : Has sid g) :
    (dataCb sid g).stale = g.stale ∧ (dataCb sid g).table = g.table := by
  obtain ⟨s, hs, hc⟩ := upd_live hn hh
  unfold dataCb withLive
  simp [hs, hc, emit]

theorem setWq_ok (sid : Sid) (n : Nat) {g : G} (hn : NoFlag g) (hh : Has sid g) :
    (setWq sid n g).stale = g.stale ∧ ∀ x, Has x (setWq sid n g) ↔ Has x g := by
  obtain ⟨s, hs, hc⟩ := upd_live hn hh
  unfold setWq withLive
  simp only [hs, hc]
  refine ⟨by simp, ?_⟩
  intro x; by_cases e : x = sid
  · subst e; simp [Has, upd, hs]
  · simp [Has, upd, e]

theorem viaIndex_ok (sid : Sid) (k : Key) {g : G} (hn : NoFlag g) (hh : Has sid g) :
    (viaIndex sid k g).stale = g.stale := by
  obtain ⟨s, hs, hc⟩ := upd_live hn hh
  unfold viaIndex withLive
  simp only [hs, hc]
  split
  · rename_i hf; cases hf
  · split <;> rfl


theorem failConnect_ok (site : Site) {g : G} {sid : Sid} (hc : g.cur = some sid) : (failConnect site g).stale = g.stale := by
  unfold failConnect; simp [hc, emit]

theorem insertCur_ok (t : Bool) (k : Option Key) (o : Lid) {g : G} {sid : Sid} (hc : g.cur = some sid) :
    (insertCur t k o g).stale = g.stale ∧ Has sid (insertCur t k o g) := by
  unfold insertCur; simp [hc, Has, upd]

theorem connectNow_ok (k : Option Key) (o : Lid) (c : Bool) {g : G} {sid : Sid} (hc : g.cur = some sid) (hn : NoFlag g) :
    (connectNow k o c g).stale = g.stale ∧ Has sid (connectNow k o c g) := by
  unfold connectNow
  simp only [hc]
  have hi := insertCur_ok false k o hc
  have hn1 : NoFlag (insertCur false k o g) := Closed0.insertCur _ _ _ _ hn
  have ha := announceConnect_ok sid c hn1 hi.2
  exact ⟨ha.1.trans hi.1, (ha.2 sid).2 hi.2⟩

theorem has_of_table_eq {g g' : G} (h : g'.table = g.table) (x : Sid) : Has x g' ↔ Has x g := by simp [Has, h]

theorem closeCmd_ok (sid : Sid) (o : Origin) (g : G) : (closeCmd sid o g).stale = g.stale := by
  unfold closeCmd; split
  · rfl
  · split <;> (try split) <;> simp

theorem runGc_ok (picks : List Sid) (g : G) : (runGc picks g).stale = g.stale := by
  induction picks generalizing g with
  | nil => rfl
  | cons sid r ih => simp [runGc, ih]

theorem popCmd_ok {g : G} : (popCmd g).2.stale = g.stale ∧ (popCmd g).2.table = g.table := by
  unfold popCmd; split
  · exact ⟨rfl, rfl⟩
  · rename_i c rest hb; cases c <;> exact ⟨rfl, rfl⟩

theorem popCmd_cur {g g' : G} {c : Cmd} (he : popCmd g = (some c, g')) (sid : Sid) (hs : connSid c = some sid) : g'.cur = some sid := by
  unfold popCmd at he
  split at he
  · cases he
  · rename_i c0 rest hb
    cases c0 <;> simp at he <;> obtain ⟨rfl, rfl⟩ := he <;> simp_all [connSid]

/-! ## tcp handlers -/
namespace Tcp

theorem readAvail_ok (sid : Sid) (t : Bool) (as : List A) (g : G) (hn : NoFlag g) (hh : Has sid g) :
    (readAvail sid t as g).1.stale = g.stale := by
  fun_induction readAvail sid t as g <;> (try simp) <;> (try rfl)
  all_goals
    rename_i ih
    have hd := dataCb_ok sid hn hh
    rw [ih (Closed0.dataCb _ _ hn) ((has_of_table_eq hd.2 sid).2 hh), hd.1]

theorem writePending_ok (sid : Sid) (t : Bool) (as : List A) (g : G) (hn : NoFlag g) (hh : Has sid g) :
    (writePending sid t as g).1.stale = g.stale := by
  fun_induction writePending sid t as g <;> (try simp) <;> (try rfl)
  · rename_i hs; exact absurd hs hh
  all_goals
    rename_i ih
    have hd := setWq_ok sid (‹Sess›.wq - 1) hn hh
    rw [ih (Closed0.setWq _ _ _ hn) ((hd.2 sid).2 hh), hd.1]

theorem queueWrite_ok (sid : Sid) (wq : Nat) (g : G) (hn : NoFlag g) (hh : Has sid g) :
    (queueWrite sid wq g).stale = g.stale := by
  unfold queueWrite
  dsimp only
  have hb : NoFlag (bumpBp g) := hn
  have hhb : Has sid (bumpBp g) := hh
  split
  · split
    · simp [(setWq_ok sid (wq + 1) hb hhb).1]
    · exact (setWq_ok sid _ hb hhb).1
  · exact (setWq_ok sid (wq + 1) hn hh).1

theorem doSend_ok (sid : Sid) (as : List A) (g : G) (hn : NoFlag g) : (doSend sid as g).1.stale = g.stale := by
  fun_cases doSend sid as g <;> (try simp) <;> (try rfl)
  all_goals
    have hh : Has sid g := by simp [Has, ‹g.table sid = some _›]
    first
    | exact (setWq_ok sid _ hn hh).1
    | exact queueWrite_ok sid _ g hn hh

theorem handshakeStep_ok (sid : Sid) (as : List A) (g : G) (hn : NoFlag g) (hh : Has sid g) :
    (handshakeStep sid as g).2.1.stale = g.stale := by
  fun_cases handshakeStep sid as g <;> (try simp) <;> (try rfl)
  have h2 := announceConnect_ok sid true hn hh
  have hn2 : NoFlag (announceConnect sid g) := Closed0.announceConnect _ _ _ hn
  have hh2 : Has sid (announceConnect sid g) := (h2.2 sid).2 hh
  rw [readAvail_ok sid true _ _ hn2 hh2, h2.1]

theorem driveHandshake_ok (sid : Sid) (as : List A) (g : G) (hn : NoFlag g) (hh : Has sid g) :
    (driveHandshake sid as g).2.1.stale = g.stale := by
  fun_cases driveHandshake sid as g <;> (try simp) <;> (try rfl)
  all_goals exact handshakeStep_ok sid _ g hn hh

theorem connectCheck_ok (sid : Sid) (a b c : Site) (as : List A) (g : G) (hn : NoFlag g) (hh : Has sid g) :
    (connectCheck sid a b c as g).2.1.stale = g.stale ∧
    ((connectCheck sid a b c as g).1 = true → Has sid (connectCheck sid a b c as g).2.1) := by
  fun_cases connectCheck sid a b c as g <;> (try simp) <;> (try exact hh)
  exact ⟨(announceConnect_ok sid true hn hh).1, ((announceConnect_ok sid true hn hh).2 sid).2 hh⟩

theorem sessEarly_ok (sid : Sid) (o : Bool) (as : List A) (g : G) :
    (sessEarly sid o as g).2.1.stale = g.stale ∧ ((sessEarly sid o as g).1 = false → (sessEarly sid o as g).2.1 = g) := by
  fun_cases sessEarly sid o as g <;> simp

theorem sessConnect_ok (sid : Sid) (s : Sess) (o : Bool) (as : List A) (g : G) (hn : NoFlag g) (hh : Has sid g) :
    (sessConnect sid s o as g).2.1.stale = g.stale ∧
    ((sessConnect sid s o as g).1 = false → Has sid (sessConnect sid s o as g).2.1) := by
  fun_cases sessConnect sid s o as g
  · exact ⟨driveHandshake_ok sid as g hn hh, by simp⟩
  · exact ⟨driveHandshake_ok sid as g hn hh, by simp⟩
  · rename_i hs
    exact ⟨driveHandshake_ok sid as g hn hh, fun _ => by simp [Has, hs]⟩
  · have := connectCheck_ok sid .evGsoFail .evPeerFail .evSoErr as g hn hh
    exact ⟨this.1, by intro h; apply this.2; simpa using h⟩
  · exact ⟨rfl, fun _ => hh⟩

theorem sessRead_ok (sid : Sid) (i : Bool) (as : List A) (g : G) (hn : NoFlag g) (hh : Has sid g) :
    (sessRead sid i as g).2.1.stale = g.stale ∧ ((sessRead sid i as g).1 = false → Has sid (sessRead sid i as g).2.1) := by
  fun_cases sessRead sid i as g
  · exact ⟨readAvail_ok sid _ as g hn hh, by simp⟩
  · rename_i hs; exact ⟨readAvail_ok sid _ as g hn hh, fun _ => by simp [Has, hs]⟩
  · exact ⟨rfl, fun _ => hh⟩

theorem onSession_tail (sid : Sid) (i o : Bool) (as : List A) (g : G) (hn : NoFlag g) (hh : Has sid g) :
    (if (sessRead sid i as g).1 = true then ((sessRead sid i as g).2.1, (sessRead sid i as g).2.2)
     else if o = true then writePending sid (tlsOpenOf sid (sessRead sid i as g).2.1) (sessRead sid i as g).2.2 (sessRead sid i as g).2.1
     else ((sessRead sid i as g).2.1, (sessRead sid i as g).2.2)).1.stale = g.stale := by
  have e3 := sessRead_ok sid i as g hn hh
  by_cases h4 : (sessRead sid i as g).1 = true
  · rw [if_pos h4]; exact e3.1
  · rw [if_neg h4]
    cases o
    · rw [if_neg (by simp)]; exact e3.1
    · rw [if_pos rfl]
      have hn3 := sessRead_pres (P := NoFlag) sid i as g hn
      have hh3 := e3.2 (by simpa using h4)
      rw [writePending_ok sid _ _ _ hn3 hh3]; exact e3.1

theorem onSession_ok (sid : Sid) (i o hup : Bool) (as : List A) (g : G) (hn : NoFlag g) :
    (onSession sid i o hup as g).1.stale = g.stale := by
  unfold onSession
  cases hs : g.table sid with
  | none => rfl
  | some s =>
    simp only []
    by_cases hc : s.closed = true
    · rw [if_pos hc]
    · rw [if_neg hc]
      have hh : Has sid g := by simp [Has, hs]
      have e1 := sessEarly_ok sid o as g
      by_cases h1 : (sessEarly sid o as g).1 = true
      · rw [if_pos h1]; exact e1.1
      · rw [if_neg h1]
        have eg := e1.2 (by simpa using h1)
        have e2 := sessConnect_ok sid s o (sessEarly sid o as g).2.2 (sessEarly sid o as g).2.1 (by rw [eg]; exact hn) (by rw [eg]; exact hh)
        have hst2 := e2.1.trans e1.1
        by_cases h2 : (sessConnect sid s o (sessEarly sid o as g).2.2 (sessEarly sid o as g).2.1).1 = true
        · rw [if_pos h2]; exact hst2
        · rw [if_neg h2]
          by_cases h3 : hup = true
          · rw [if_pos h3]; simpa using hst2
          · rw [if_neg h3]
            have hn2 : NoFlag (sessConnect sid s o (sessEarly sid o as g).2.2 (sessEarly sid o as g).2.1).2.1 :=
              sessConnect_pres (P := NoFlag) _ _ _ _ _ (by rw [eg]; exact hn)
            have hh2 := e2.2 (by simpa using h2)
            exact (onSession_tail sid i o _ _ hn2 hh2).trans hst2

theorem resolveStep_ok (named : Bool) (as : List A) {g : G} {sid : Sid} (hc : g.cur = some sid) :
    (resolveStep named as g).2.2.1.stale = g.stale ∧ ((resolveStep named as g).1 = false → (resolveStep named as g).2.2.1 = g) := by
  fun_cases resolveStep named as g <;> simp [failConnect_ok _ hc]

theorem tlsSetup_ok (u named : Bool) (as : List A) {g : G} {sid : Sid} (hc : g.cur = some sid) :
    (tlsSetup u named as g).2.1.stale = g.stale ∧ ((tlsSetup u named as g).1 = false → (tlsSetup u named as g).2.1 = g) := by
  fun_cases tlsSetup u named as g <;> simp [failConnect_ok _ hc]

theorem doConnect_ok (tls : TlsReq) (named : Bool) (as : List A) (g : G) (sid : Sid) (hc : g.cur = some sid) (hn : NoFlag g) :
    (doConnect tls named as g).1.stale = g.stale := by
  unfold doConnect
  simp only []
  split
  · exact failConnect_ok _ hc
  · have e1 := resolveStep_ok named as hc
    by_cases h1 : (resolveStep named as g).1 = true
    · rw [if_pos h1]; exact e1.1
    · rw [if_neg h1]
      have eg := e1.2 (by simpa using h1)
      have hc1 : (resolveStep named as g).2.2.1.cur = some sid := by rw [eg]; exact hc
      have hn1 : NoFlag (resolveStep named as g).2.2.1 := by rw [eg]; exact hn
      split
      · rw [failConnect_ok _ hc1]; exact e1.1
      · rw [failConnect_ok _ hc1]; exact e1.1
      · have e2 := tlsSetup_ok (decide (tls = .client) && g.cfg.cliCtx) named (connLoop (resolveStep named as g).2.1 (resolveStep named as g).2.2.2).2 hc1
        by_cases h2 : (tlsSetup (decide (tls = .client) && g.cfg.cliCtx) named (connLoop (resolveStep named as g).2.1 (resolveStep named as g).2.2.2).2
            (resolveStep named as g).2.2.1).1 = true
        · rw [if_pos h2]; exact e2.1.trans e1.1
        · rw [if_neg h2]
          have eg2 := e2.2 (by simpa using h2)
          rw [eg2]
          simp only [hc1]
          have hi := insertCur_ok (decide (tls = .client) && g.cfg.cliCtx) none 0 hc1
          have hni : NoFlag (insertCur (decide (tls = .client) && g.cfg.cliCtx) none 0 (resolveStep named as g).2.2.1) :=
            Closed0.insertCur _ _ _ _ hn1
          split
          · rw [(connectCheck_ok sid _ _ _ _ _ hni hi.2).1, hi.1]; exact e1.1
          · rw [hi.1]; exact e1.1

theorem onListener_ok (t : Bool) (as : List A) (g : G) : (onListener t as g).1.stale = g.stale := by
  fun_induction onListener t as g <;> (try simp) <;> (try rfl)
  all_goals
    rename_i ih
    rw [ih]; rfl

theorem dispatch_ok (as : List A) (g : G) (hn : NoFlag g) : (dispatch as g).1.stale = g.stale := by
  have hp := popCmd_ok (g := g)
  have hnp : NoFlag (popCmd g).2 := by intro x s hx; rw [hp.2] at hx; exact hn x s hx
  fun_cases dispatch as g
  all_goals
    rename_i heq
    rw [heq] at hp hnp
    dsimp only at hp hnp
  · exact hp.1
  · exact hp.1
  · dsimp only; split <;> exact hp.1
  · rw [doConnect_ok _ _ _ _ _ (popCmd_cur heq _ rfl) hnp]; exact hp.1
  · rw [failConnect_ok _ (popCmd_cur heq _ rfl)]; exact hp.1
  · rw [doSend_ok _ _ _ hnp]; exact hp.1
  · dsimp only; rw [closeCmd_ok]; exact hp.1

end Tcp

/-! ## udp handlers -/
namespace Udp

theorem readFromListener_ok (lid : Lid) (as : List A) (g : G) (hi : Inv g) (hn : NoFlag g) :
    (readFromListener lid as g).1.stale = g.stale := by
  induction as generalizing g with
  | nil => rfl
  | cons a r ih =>
    unfold readFromListener
    cases a <;> (try rfl)
    case eof => exact ih g hi hn
    case dgramNoKey => exact ih g hi hn
    case dgram k =>
      simp only []
      cases hk : g.index k with
      | none =>
        simp only []
        split
        · exact ih g hi hn
        · have hi1 : Inv (acceptFresh .none (some k) lid g).1 := Closed0.acceptFresh _ _ _ _ hi
          have hn1 : NoFlag (acceptFresh .none (some k) lid g).1 := Closed0.acceptFresh _ _ _ _ hn
          have hh1 : Has (acceptFresh .none (some k) lid g).2 (acceptFresh .none (some k) lid g).1 := by
            simp [Has, acceptFresh, emit, upd]
          have hd := dataCb_ok _ hn1 hh1
          rw [ih _ (Closed0.dataCb _ _ hi1) (Closed0.dataCb _ _ hn1), hd.1]; rfl
      | some sid =>
        simp only []
        obtain ⟨s, hs, _⟩ := hi.idx_live k sid hk
        have hh : Has sid g := by simp [Has, hs]
        have hd := dataCb_ok _ hn hh
        rw [ih _ (Closed0.dataCb _ _ hi) (Closed0.dataCb _ _ hn), hd.1]

theorem flushListener_ok (lid : Lid) (as : List A) (g : G) : (flushListener lid as g).1.stale = g.stale := by
  fun_induction flushListener lid as g <;> (try rfl)
  rename_i ih; rw [ih]

theorem writeClient_ok (sid : Sid) (as : List A) (g : G) (hn : NoFlag g) (hh : Has sid g) :
    (writeClient sid as g).1.stale = g.stale := by
  fun_induction writeClient sid as g <;> (try simp) <;> (try rfl)
  · rename_i hs; exact absurd hs hh
  all_goals
    rename_i ih
    have hd := setWq_ok sid (‹Sess›.wq - 1) hn hh
    rw [ih (Closed0.setWq _ _ _ hn) ((hd.2 sid).2 hh), hd.1]

theorem clientRead_ok (sid : Sid) (as : List A) (g : G) (hn : NoFlag g) (hh : Has sid g) :
    (clientRead sid as g).2.1.stale = g.stale ∧ ((clientRead sid as g).1 = true → Has sid (clientRead sid as g).2.1) := by
  fun_induction clientRead sid as g
  · exact ⟨rfl, fun _ => hh⟩
  · rename_i ih
    have hd := dataCb_ok sid hn hh
    have := ih (Closed0.dataCb _ _ hn) ((has_of_table_eq hd.2 sid).2 hh)
    exact ⟨this.1.trans hd.1, this.2⟩
  · rename_i ih
    have hd := dataCb_ok sid hn hh
    have := ih (Closed0.dataCb _ _ hn) ((has_of_table_eq hd.2 sid).2 hh)
    exact ⟨this.1.trans hd.1, this.2⟩
  · exact ⟨rfl, fun _ => hh⟩
  · exact ⟨by simp, by simp⟩

theorem onClient_ok (sid : Sid) (i o : Bool) (as : List A) (g : G) (hn : NoFlag g) :
    (onClient sid i o as g).1.stale = g.stale := by
  unfold onClient
  cases hs : g.table sid with
  | none => rfl
  | some s =>
    simp only []
    split
    · rfl
    · have hh : Has sid g := by simp [Has, hs]
      cases i
      · simp only [Bool.false_eq_true, if_false]
        split
        · exact writeClient_ok sid as g hn hh
        · rfl
      · simp only [if_true]
        have e := clientRead_ok sid as g hn hh
        split
        · rename_i hc
          rw [writeClient_ok sid _ _ (clientRead_pres (P := NoFlag) sid as g hn) (e.2 hc.1)]; exact e.1
        · exact e.1

theorem queueClient_ok (sid : Sid) (wq : Nat) (g : G) (hn : NoFlag g) (hh : Has sid g) :
    (queueClient sid wq g).stale = g.stale := by
  unfold queueClient
  dsimp only
  have hb : NoFlag (bumpBp g) := hn
  have hhb : Has sid (bumpBp g) := hh
  split
  · split
    · simp [(setWq_ok sid (wq + 1) hb hhb).1]
    · exact (setWq_ok sid _ hb hhb).1
  · exact (setWq_ok sid (wq + 1) hn hh).1

theorem queueListener_ok (sid : Sid) (o : Lid) (n : Nat) (g : G) : (queueListener sid o n g).stale = g.stale := by
  unfold queueListener
  dsimp only
  split
  · split <;> simp
  · rfl

theorem sendDo_ok (sid : Sid) (as : List A) (g : G) (hn : NoFlag g) : (sendDo sid as g).1.stale = g.stale := by
  fun_cases sendDo sid as g <;> (try simp) <;> (try rfl)
  all_goals first
    | exact queueClient_ok sid _ g hn (by simp [Has, ‹g.table sid = some _›])
    | exact queueListener_ok _ _ _ _

theorem connectDo_ok (as : List A) (g : G) (sid : Sid) (hc : g.cur = some sid) (hn : NoFlag g) :
    (connectDo as g).1.stale = g.stale := by
  unfold connectDo
  simp only []
  split
  · split
    · exact failConnect_ok _ hc
    · exact (connectNow_ok none 0 true hc hn).1
  · exact failConnect_ok _ hc

theorem viaDo_ok (lid : Lid) (k : Key) (as : List A) (g : G) (sid : Sid) (hc : g.cur = some sid) (hn : NoFlag g) :
    (viaDo lid k as g).1.stale = g.stale := by
  have main : (viaIndex sid k (connectNow (some k) lid false g)).stale = g.stale := by
    have hcn := connectNow_ok (some k) lid false hc hn
    have hn2 : NoFlag (connectNow (some k) lid false g) := ClosedU0.connectNow _ _ _ _ hn
    rw [viaIndex_ok sid k hn2 hcn.2, hcn.1]
  unfold viaDo
  simp only [hc]
  repeat' split
  all_goals first | exact failConnect_ok _ hc | exact main

theorem dispatch_ok (as : List A) (g : G) (hn : NoFlag g) : (dispatch as g).1.stale = g.stale := by
  have hp := popCmd_ok (g := g)
  have hnp : NoFlag (popCmd g).2 := by intro x s hx; rw [hp.2] at hx; exact hn x s hx
  fun_cases dispatch as g
  all_goals
    rename_i heq
    rw [heq] at hp hnp
    dsimp only at hp hnp
  · exact hp.1
  · exact hp.1
  · dsimp only; split <;> exact hp.1
  · rw [connectDo_ok _ _ _ (popCmd_cur heq _ rfl) hnp]; exact hp.1
  · rw [viaDo_ok _ _ _ _ _ (popCmd_cur heq _ rfl) hnp]; exact hp.1
  · rw [sendDo_ok _ _ _ hnp]; exact hp.1
  · dsimp only; rw [closeCmd_ok]; exact hp.1

end Udp

/-! ## every history -/
structure Good (g : G) : Prop where
  sinv : SInv g
  nostale : g.stale = false
  noflag : g.phase ≠ .drainSess → NoFlag g

theorem Good.frame {g g' : G} (h : Good g) (hs : SInv g') (ht : g'.table = g.table) (hst : g'.stale = g.stale) (hp : g'.phase = g.phase) :
    Good g' :=
  ⟨hs, by rw [hst]; exact h.nostale, by intro hne x s hx; rw [ht] at hx; rw [hp] at hne; exact h.noflag hne x s hx⟩

theorem apiPlain_frame (c : Cmd) (g : G) : (apiPlain c g).table = g.table ∧ (apiPlain c g).stale = g.stale ∧ (apiPlain c g).phase = g.phase := by
  unfold apiPlain enqueue; split <;> simp

theorem drainClose_stale (sid : Sid) (g : G) : (drainClose sid g).stale = g.stale := by
  unfold drainClose; split <;> (try split) <;> simp [emit]

theorem drainAll_stale (l : List Sid) (g : G) : (drainAll l g).stale = g.stale := by
  induction l generalizing g with
  | nil => rfl
  | cons sid r ih => simp [drainAll, ih, drainClose_stale]

theorem residualLoop_stale (n : Nat) (g : G) (hc : g.cur = none) : (residualLoop n g).stale = g.stale := by
  induction n generalizing g with
  | zero => rfl
  | succ n ih =>
    unfold residualLoop
    have hp := popCmd_ok (g := g)
    split
    · rename_i g' he; rw [he] at hp; exact hp.1
    · rename_i g' _ _ _ he
      rw [he] at hp
      rw [ih _ (failConnect_cur _ _), failConnect_ok _ (popCmd_cur he _ rfl)]; exact hp.1
    · rename_i g' _ _ _ he
      rw [he] at hp
      rw [ih _ (failConnect_cur _ _), failConnect_ok _ (popCmd_cur he _ rfl)]; exact hp.1
    · rename_i c g' hn1 hn2 he
      rw [he] at hp
      have : connSid c = none := by
        cases c <;> simp [connSid] <;> first | exact absurd rfl (hn1 _ _ _) | exact absurd rfl (hn2 _ _ _)
      rw [ih _ (popCmd_cur_conn hc c g' he this)]; exact hp.1

theorem drainFinish_stale (g : G) (hc : g.cur = none) : (drainFinish g).stale = g.stale := by
  rw [drainFinish_eq, residualLoop_stale _ _ (by simp [drainMid, (drainAll_ctl (List.range g.nextId) g).2.1, hc])]
  simp [drainMid, drainAll_stale]

theorem good_shared {g g' : G} (i : In) (h : Good g) (he : stepShared g i = some g') : Good g' := by
  have hs := sinv_shared i h.sinv he
  cases i <;> simp only [stepShared] at he <;> (try cases he)
  case apiConnect tls named =>
    refine h.frame hs ?_ ?_ ?_ <;> (unfold apiConnect; dsimp only; split <;> simp [emit])
  case apiClose sid => exact h.frame hs (apiPlain_frame _ g).1 (apiPlain_frame _ g).2.1 (apiPlain_frame _ g).2.2
  case apiSend sid => exact h.frame hs (apiPlain_frame _ g).1 (apiPlain_frame _ g).2.1 (apiPlain_frame _ g).2.2
  case apiAddListener lid tls => exact h.frame hs (apiPlain_frame _ g).1 (apiPlain_frame _ g).2.1 (apiPlain_frame _ g).2.2
  case apiStop =>
    refine h.frame hs ?_ ?_ ?_ <;> (unfold apiStop; split <;> simp [(apiPlain_frame _ _).1, (apiPlain_frame _ _).2.1, (apiPlain_frame _ _).2.2])
  case apiStart =>
    unfold apiStart at hs ⊢
    split
    · rename_i hg
      refine ⟨by simpa [hg] using hs, h.nostale, ?_⟩
      intro _ x s hx
      have := (h.sinv.stop.stopped hg.1).2.2.2 x
      simp at hx; rw [this] at hx; cases hx
    · exact h
  case ioSwap =>
    split
    · refine h.frame (by simpa [*] using hs) ?_ ?_ ?_ <;> (unfold ioSwap; split <;> simp)
    · exact h
  case ioGc picks =>
    split
    · rename_i hp
      refine ⟨by simpa [hp] using hs, by rw [runGc_ok]; exact h.nostale, ?_⟩
      intro _
      exact runGc_pres (P := NoFlag) picks g (h.noflag (by rw [hp]; simp))
    · exact h
  case ioDrainBegin =>
    split
    · rename_i hg
      refine ⟨by simpa [hg] using hs, h.nostale, ?_⟩
      intro _ x s hx
      exact h.noflag (by rw [hg.1]; simp) x s hx
    · exact h
  case ioDrainClose sid =>
    split
    · rename_i hg
      refine ⟨by simpa [hg] using hs, by rw [drainClose_stale]; exact h.nostale, ?_⟩
      intro hne
      exact absurd ((drainClose_ctl sid { g with phase := .drainSess }).2.2.2.1) hne
    · exact h
  case ioDrainFinish =>
    split
    · rename_i hg
      refine ⟨by simpa [hg] using hs, by rw [drainFinish_stale g hg.2.2]; exact h.nostale, ?_⟩
      intro _ x s hx
      rw [(drainFinish_stopped g).2.2.2.2 x] at hx; cases hx
    · exact h

theorem Tcp.good_step (g : G) (i : In) (h : Good g) : Good (Tcp.step g i) := by
  have hs := Tcp.sinv_step g i h.sinv
  unfold Tcp.step at hs ⊢
  split
  · rename_i g' he; exact good_shared i h he
  · split
    · exact h.frame (by simpa [*] using hs) (apiPlain_frame _ g).1 (apiPlain_frame _ g).2.1 (apiPlain_frame _ g).2.2
    · split
      · rename_i hg
        have hnf : NoFlag g := h.noflag (by rcases hg.1 with hp | hp <;> rw [hp] <;> simp)
        have hc := Tcp.dispatch_pres (P := Ctl g.phase g.cmdsClosed g.queue) ‹List A› g (ctl_of g) hg.2
        refine ⟨by simpa [*] using hs, by rw [Tcp.dispatch_ok _ g hnf]; exact h.nostale, fun _ => Tcp.dispatch_pres _ g hnf hg.2⟩
      · exact h
    · split
      · rename_i hp
        have hnf : NoFlag g := h.noflag (by rw [hp]; simp)
        exact ⟨by simpa [*] using hs, by rw [Tcp.onListener_ok]; exact h.nostale, fun _ => Tcp.onListener_pres _ _ g hnf⟩
      · exact h
    · split
      · rename_i hp
        have hnf : NoFlag g := h.noflag (by rw [hp]; simp)
        exact ⟨by simpa [*] using hs, by rw [Tcp.onSession_ok _ _ _ _ _ g hnf]; exact h.nostale,
               fun _ => Tcp.onSession_pres _ _ _ _ _ g hnf⟩
      · exact h
    · exact h

theorem Udp.listener_ok (lid : Lid) (a b : Bool) (as : List A) (g : G) (hi : Inv g) (hn : NoFlag g) :
    (match (if a = true then Udp.readFromListener lid as g else (g, as)) with
     | (g, as) => if b = true then (Udp.flushListener lid as g).1 else g).stale = g.stale := by
  split
  rename_i g1 as1 he
  have h1 : g1.stale = g.stale := by
    split at he
    · have := Udp.readFromListener_ok lid as g hi hn; rw [he] at this; exact this
    · cases he; rfl
  split
  · rw [Udp.flushListener_ok]; exact h1
  · exact h1

theorem Udp.good_step (g : G) (i : In) (h : Good g) : Good (Udp.step g i) := by
  have hs := Udp.sinv_step g i h.sinv
  unfold Udp.step at hs ⊢
  split
  · rename_i g' he; exact good_shared i h he
  · split
    · refine h.frame (by simpa [*] using hs) ?_ ?_ ?_ <;> (unfold apiVia; dsimp only; split <;> simp [emit])
    · split
      · rename_i hg
        have hnf : NoFlag g := h.noflag (by rcases hg.1 with hp | hp <;> rw [hp] <;> simp)
        refine ⟨by simpa [*] using hs, by rw [Udp.dispatch_ok _ g hnf]; exact h.nostale, fun _ => Udp.dispatch_pres _ g hnf hg.2⟩
      · exact h
    · split
      · rename_i hp
        have hnf : NoFlag g := h.noflag (by rw [hp]; simp)
        exact ⟨by simpa [*] using hs, by rw [Udp.listener_ok _ _ _ _ g h.sinv.inv hnf]; exact h.nostale,
               fun _ => Udp.listener_pres _ _ _ _ g hnf⟩
      · exact h
    · split
      · rename_i hp
        have hnf : NoFlag g := h.noflag (by rw [hp]; simp)
        exact ⟨by simpa [*] using hs, by rw [Udp.onClient_ok _ _ _ _ g hnf]; exact h.nostale,
               fun _ => Udp.onClient_pres _ _ _ _ g hnf⟩
      · exact h
    · exact h

theorem good_init (cfg : Cfg) : Good (init cfg) :=
  ⟨sinv_init cfg, rfl, by intro _ x s hx; simp [init] at hx⟩

theorem good_run (stepf : G → In → G) (hs : ∀ g i, Good g → Good (stepf g i)) (g : G) (h : Good g) (is : List In) :
    Good (run stepf g is) := by
  unfold run
  induction is generalizing g with
  | nil => exact h
  | cons i r ih => exact ih _ (hs g i h)

end Iora.Lifecycle
