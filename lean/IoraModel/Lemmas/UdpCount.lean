import IoraModel.Lemmas.UdpEngine
/-!
Part 5 of the C06 lemmas: the `sessionsCurrent` counter equals the number of open sessions in every reachable state, so the
admission test of `readFromListener`/`viaDo` (`maxSessions && sessionsCurrent >= maxSessions`) means what it says.
-/
namespace Iora.Udp

/-- number of open sessions among ids `< n` -/
def countOpen (ss : Nat → Option Sess) : Nat → Nat
  | 0 => 0
  | n + 1 => countOpen ss n + (if (ss n).isSome then 1 else 0)

theorem countOpen_upd_ge (ss : Nat → Option Sess) (k : Nat) (v : Option Sess) : ∀ n, n ≤ k → countOpen (upd ss k v) n = countOpen ss n
  | 0, _ => rfl
  | n + 1, h => by
    have hne : n ≠ k := by omega
    simp only [countOpen, countOpen_upd_ge ss k v n (by omega), upd_other _ _ _ _ hne]

theorem countOpen_upd_lt (ss : Nat → Option Sess) (k : Nat) (v : Option Sess) : ∀ n, k < n →
    countOpen (upd ss k v) n + (if (ss k).isSome then 1 else 0) = countOpen ss n + (if v.isSome then 1 else 0)
  | 0, h => by omega
  | n + 1, h => by
    by_cases e : k = n
    · subst e
      simp only [countOpen, countOpen_upd_ge ss k v k (Nat.le_refl _), upd_same]
      omega
    · have hne : n ≠ k := fun x => e x.symm
      have ih := countOpen_upd_lt ss k v n (by omega)
      simp only [countOpen, upd_other _ _ _ _ hne]
      omega

/-- the counter invariant -/
def CInv (st : State) : Prop := st.sessionsCurrent = countOpen st.sessions st.nextSid

theorem cinv_insert (st : State) (h : Inv cfg st) (c : CInv st) (s : Sess) (pi : Nat → Option Nat) :
    CInv { st with sessions := upd st.sessions st.nextSid (some s), peerIndex := pi, nextSid := st.nextSid + 1,
                   sessionsCurrent := st.sessionsCurrent + 1 } := by
  have hnone : st.sessions st.nextSid = none := by
    cases hx : st.sessions st.nextSid with
    | none => rfl
    | some x => have := h.fresh _ _ hx; omega
  unfold CInv at *
  simp only [countOpen, countOpen_upd_ge _ _ _ _ (Nat.le_refl _), upd_same, Option.isSome_some, if_true]
  omega

theorem cinv_touch (st : State) (c : CInv st) (sid : Nat) (s s' : Sess) (hs : st.sessions sid = some s) (h : Inv cfg st) :
    CInv { st with sessions := upd st.sessions sid (some s') } := by
  unfold CInv at *
  have hlt := h.fresh sid s hs
  have := countOpen_upd_lt st.sessions sid (some s') st.nextSid hlt
  simp only [hs, Option.isSome_some, if_true] at this
  show st.sessionsCurrent = countOpen (upd st.sessions sid (some s')) st.nextSid
  omega

theorem closeNow_cinv (cfg : Cfg) (st : State) (sid : Nat) (why : Why) (h : Inv cfg st) (c : CInv st) : CInv (closeNow cfg st sid why).1 := by
  unfold closeNow
  cases hs : st.sessions sid with
  | none => exact c
  | some s =>
    unfold CInv at *
    have hlt := h.fresh sid s hs
    have := countOpen_upd_lt st.sessions sid none st.nextSid hlt
    simp only [hs, Option.isSome_some, if_true, Option.isSome_none] at this
    show st.sessionsCurrent - 1 = countOpen (upd st.sessions sid none) st.nextSid
    simp at this
    omega

theorem closeAll_cinv (cfg : Cfg) (why : Why) : ∀ (l : List Nat) (st : State), Inv cfg st → CInv st → CInv (closeAll cfg why st l).1
  | [], _, _, c => c
  | x :: rest, st, h, c => by
    simp only [closeAll]
    exact closeAll_cinv cfg why rest _ (closeNow_inv cfg st x why h) (closeNow_cinv cfg st x why h c)

theorem recvOne_cinv (cfg : Cfg) (lid : Lid) (st : State) (d : Nat × Bytes) (h : Inv cfg st) (c : CInv st) : CInv (recvOne cfg lid st d).1 := by
  unfold recvOne
  simp only
  split
  · exact c
  · split
    · split
      · exact c
      · exact cinv_insert st h c _ _
    · split
      · exact c
      · rename_i s hs
        exact cinv_touch st c _ s _ hs h

theorem recvMany_cinv (cfg : Cfg) (lid : Lid) : ∀ (ds : List (Nat × Bytes)) (st : State), Inv cfg st → CInv st → CInv (recvMany cfg lid st ds).1
  | [], _, _, c => c
  | d :: ds, st, h, c => by
    simp only [recvMany]
    exact recvMany_cinv cfg lid ds _ (recvOne_inv cfg lid st d h) (recvOne_cinv cfg lid st d h c)

theorem clientRecvMany_cinv (cfg : Cfg) (sid : Nat) : ∀ (ds : List Bytes) (st : State), Inv cfg st → CInv st → CInv (clientRecvMany cfg sid st ds).1
  | [], _, _, c => c
  | d :: ds, st, h, c => by
    simp only [clientRecvMany]
    split
    · exact clientRecvMany_cinv cfg sid ds _ h c
    · unfold touchClient
      split
      · exact clientRecvMany_cinv cfg sid ds _ h c
      · rename_i s hs
        exact clientRecvMany_cinv cfg sid ds _ (InvC.touch h hs rfl rfl) (cinv_touch st c sid s _ hs h)

/-- `shutdownDrain`'s loop over the ids `< n`: the counter drops by exactly the number of sessions among them -/
theorem drainAll_append (cfg : Cfg) : ∀ (a b : List Nat) (st : State),
    drainAll cfg st (a ++ b) = ((drainAll cfg (drainAll cfg st a).1 b).1, (drainAll cfg st a).2 ++ (drainAll cfg (drainAll cfg st a).1 b).2)
  | [], _, _ => by simp [drainAll]
  | x :: a, b, st => by simp [drainAll, drainAll_append cfg a b]

theorem drainOne_counter (cfg : Cfg) (st : State) (sid : Nat) :
    (drainOne cfg st sid).1.sessionsCurrent = st.sessionsCurrent - (if (st.sessions sid).isSome then 1 else 0) := by
  unfold drainOne
  split <;> simp_all

theorem drainAll_range_counter (cfg : Cfg) : ∀ (n : Nat) (st : State),
    (drainAll cfg st (List.range n)).1.sessionsCurrent = st.sessionsCurrent - countOpen st.sessions n
  | 0, st => by simp [drainAll, countOpen]
  | n + 1, st => by
    rw [List.range_succ, drainAll_append]
    simp only [drainAll, countOpen]
    rw [drainOne_counter, drainAll_range_counter cfg n st, (drainAll_sessions cfg (List.range n) st).1]
    omega

theorem shutdownDrain_cinv (cfg : Cfg) (st : State) (c : CInv st) : CInv (shutdownDrain cfg st).1 := by
  unfold CInv at *
  have h1 := drainAll_range_counter cfg st.nextSid st
  have h2 := (drainAll_sessions cfg (List.range st.nextSid) st).2
  have hz : ∀ n, countOpen (fun _ => (none : Option Sess)) n = 0 := by
    intro n; induction n with
    | zero => rfl
    | succ k ih => simp [countOpen, ih]
  show (drainAll cfg st (List.range st.nextSid)).1.sessionsCurrent = countOpen (fun _ => none) (drainAll cfg st (List.range st.nextSid)).1.nextSid
  rw [hz, h1]; omega

theorem step_cinv (cfg : Cfg) (tok : Nat) (st : State) (i : In) (h : Inv cfg st) (c : CInv st) : CInv (step cfg tok st i).1 := by
  cases i with
  | listen v6 => exact c
  | recvFrom lid dgs =>
    simp only [step]; split
    · exact c
    · split
      · exact recvMany_cinv cfg lid dgs st h c
      · exact c
  | clientRecv sid dgs =>
    simp only [step]; split
    · exact c
    · split
      · exact c
      · split
        · exact clientRecvMany_cinv cfg sid dgs st h c
        · exact c
  | recvKeyFail lid n =>
    simp only [step]; split
    · exact c
    · split <;> exact c
  | viaKeyFail lid =>
    simp only [step]
    unfold CInv at *
    have hnone : st.sessions st.nextSid = none := by
      cases hx : st.sessions st.nextSid with
      | none => rfl
      | some x => have := h.fresh _ _ hx; omega
    simp [countOpen, hnone, c]
  | connect a v6 => exact cinv_insert st h c _ _
  | via lid a v6 =>
    simp only [step, viaDo]
    have bump : CInv { st with nextSid := st.nextSid + 1 } := by
      unfold CInv at *
      have hnone : st.sessions st.nextSid = none := by
        cases hx : st.sessions st.nextSid with
        | none => rfl
        | some x => have := h.fresh _ _ hx; omega
      simp [countOpen, hnone, c]
    split
    · exact bump
    · split
      · exact bump
      · split
        · exact bump
        · exact cinv_insert st h c _ _
  | cmdSend sid p ans =>
    simp only [step]; split
    · exact c
    · unfold sendDo
      cases hs : st.sessions sid with
      | none => exact c
      | some s =>
        dsimp only
        cases hr : s.role with
        | client =>
          dsimp only
          cases kernelAns _ p ans with
          | ok => exact cinv_touch st c sid s _ hs h
          | eagain =>
            dsimp only
            split
            · split
              · exact closeNow_cinv cfg st sid _ h c
              · exact cinv_touch st c sid s _ hs h
            · exact cinv_touch st c sid s _ hs h
          | err => exact closeNow_cinv cfg st sid _ h c
        | serverPeer =>
          dsimp only
          cases st.listeners s.owner with
          | none => exact closeNow_cinv cfg st sid _ h c
          | some l =>
            dsimp only
            cases kernelAns _ p ans with
            | ok => exact cinv_touch st c sid s _ hs h
            | eagain =>
              dsimp only
              split
              · split
                · exact closeNow_cinv cfg _ sid _ h c
                · exact c
              · exact c
            | err => exact closeNow_cinv cfg st sid _ h c
  | writableL lid as =>
    simp only [step, flushListener]
    split
    · exact c
    · split <;> exact c
  | writableC sid as =>
    simp only [step, writeClient]
    cases hs : st.sessions sid with
    | none => exact c
    | some s =>
      dsimp only
      cases hr : s.role with
      | serverPeer => exact c
      | client =>
        dsimp only
        split
        · split
          · exact closeNow_cinv cfg _ sid _ (InvC.touch h hs rfl (by simp [hr])) (cinv_touch st c sid s _ hs h)
          · exact cinv_touch st c sid s _ hs h
        · exact c
  | close sid => exact closeNow_cinv cfg st sid _ h c
  | advance ms => exact c
  | gc => exact closeAll_cinv cfg _ _ st h c
  | restart => exact shutdownDrain_cinv cfg st c

theorem runFrom_cinv (cfg : Cfg) : ∀ (is : List In) (n : Nat) (st : State), Inv cfg st → CInv st → CInv (runFrom cfg n st is).1
  | [], _, _, _, c => c
  | i :: is, n, st, h, c => by
    simp only [runFrom]
    exact runFrom_cinv cfg is _ _ (step_inv cfg n st i h) (step_cinv cfg n st i h c)

/-- in every reachable state `sessionsCurrent` is the number of open sessions -/
theorem run_cinv (cfg : Cfg) (is : List In) : (run cfg is).1.sessionsCurrent = countOpen (run cfg is).1.sessions (run cfg is).1.nextSid :=
  runFrom_cinv cfg is 0 {} (inv_init cfg) rfl

end Iora.Udp
