import IoraModel.Model.TcpSession
/-!
Lemmas for C01 (`Model/TcpSession.lean`): the conservation invariant `wire ++ pending = accepted`, the EPOLLOUT re-arm
invariant, TLS-only writes on TLS sessions, the read loop, and the command-queue interleaving.
-/
namespace Iora.Tcp
open Iora

/-! ## ghost-field algebra -/

theorem flat_rev_cons (x : Bytes) (l : List Bytes) : (x :: l).reverse.flatten = l.reverse.flatten ++ x := by
  simp [List.reverse_cons, List.flatten_append]

theorem flat_rev_append (a l : List Bytes) : (a ++ l).reverse.flatten = l.reverse.flatten ++ a.reverse.flatten := by
  simp [List.reverse_append, List.flatten_append]

/-- conservation: what the kernel took, followed by what is still queued, is what was accepted -/
def Conserved (s : St) : Prop := s.wire ++ s.wq.flatten = s.accepted.flatten

/-- T1 as a state predicate -/
def Inv (s : St) : Prop := (s.closed = false → Conserved s) ∧ s.wire <+: s.accepted.flatten

/-- T3 as a state predicate: an open session with queued data has EPOLLOUT registered by an `epoll_ctl` issued after the
last write attempt -/
def Armed (s : St) : Prop := s.closed = false → s.wq ≠ [] → s.interestOut = true ∧ s.rearmed = true

/-- T1's and T3's invariants together; the re-arm half needs the unconditional `epoll_ctl(MOD)` of `updateInterest` -/
def Good (cfg : Cfg) (s : St) : Prop := Inv s ∧ (cfg.modSkipsUnchanged = false → Armed s)

theorem inv_of_conserved {s : St} (h : Conserved s) : Inv s :=
  ⟨fun _ => h, ⟨s.wq.flatten, h⟩⟩

/-! ## updateInterest / closeNow -/

section basic
variable (cfg : Cfg) (s : St)

@[simp] theorem ui_wq : (updateInterest cfg s).1.wq = s.wq := by
  unfold updateInterest; split <;> rfl
@[simp] theorem ui_wireRev : (updateInterest cfg s).1.wireRev = s.wireRev := by
  unfold updateInterest; split <;> rfl
@[simp] theorem ui_acceptedRev : (updateInterest cfg s).1.acceptedRev = s.acceptedRev := by
  unfold updateInterest; split <;> rfl
@[simp] theorem ui_closed : (updateInterest cfg s).1.closed = s.closed := by
  unfold updateInterest; split <;> rfl
@[simp] theorem ui_tls : (updateInterest cfg s).1.tls = s.tls := by
  unfold updateInterest; split <;> rfl
@[simp] theorem ui_deliveredRev : (updateInterest cfg s).1.deliveredRev = s.deliveredRev := by
  unfold updateInterest; split <;> rfl
@[simp] theorem ui_receivedRev : (updateInterest cfg s).1.receivedRev = s.receivedRev := by
  unfold updateInterest; split <;> rfl
@[simp] theorem ui_connectPending : (updateInterest cfg s).1.connectPending = s.connectPending := by
  unfold updateInterest; split <;> rfl
@[simp] theorem ui_wire : (updateInterest cfg s).1.wire = s.wire := by simp [St.wire]
@[simp] theorem ui_accepted : (updateInterest cfg s).1.accepted = s.accepted := by simp [St.accepted]

theorem ui_armed (hmod : cfg.modSkipsUnchanged = false) : Armed (updateInterest cfg s).1 := by
  intro _ hq
  have hq' : s.wq ≠ [] := by simpa using hq
  have : s.wq.isEmpty = false := by
    cases h : s.wq with
    | nil => exact absurd h hq'
    | cons _ _ => rfl
  simp [updateInterest, needWrite, this, hmod]


theorem ui_inv (h : Inv s) : Inv (updateInterest cfg s).1 := by
  unfold Inv Conserved at *; simpa using h
theorem ui_good (h : Inv s) : Good cfg (updateInterest cfg s).1 := ⟨ui_inv cfg s h, ui_armed cfg s⟩

@[simp] theorem cn_wireRev (w : Why) : (closeNow s w).1.wireRev = s.wireRev := by
  unfold closeNow; split <;> rfl
@[simp] theorem cn_acceptedRev (w : Why) : (closeNow s w).1.acceptedRev = s.acceptedRev := by
  unfold closeNow; split <;> rfl
@[simp] theorem cn_tls (w : Why) : (closeNow s w).1.tls = s.tls := by
  unfold closeNow; split <;> rfl
@[simp] theorem cn_closed (w : Why) : (closeNow s w).1.closed = true := by
  unfold closeNow; split
  · simp_all
  · rfl
@[simp] theorem cn_wire (w : Why) : (closeNow s w).1.wire = s.wire := by
  simp [St.wire]
@[simp] theorem cn_accepted (w : Why) : (closeNow s w).1.accepted = s.accepted := by
  simp [St.accepted]

theorem cn_good (w : Why) (h : s.wire <+: s.accepted.flatten) : Good cfg (closeNow s w).1 := by
  refine ⟨⟨fun hc => ?_, ?_⟩, fun _ hc => ?_⟩
  · simp at hc
  · simpa using h
  · simp at hc

/-- closing an open session emits the close output -/
theorem cn_outs_open (w : Why) (h : s.closed = false) : (closeNow s w).2 = [.close w] := by
  simp [closeNow, h]

end basic


/-! ## doSend -/

theorem prefix_of_eq {a b c : Bytes} (h : a ++ b = c) : a <+: c := ⟨b, h⟩

/-- the queueing tail of `doSend`, close-on-backpressure policy: the payload is appended whole at the back, or the session closes -/
theorem enqueueTail_good (cfg : Cfg) (s : St) (p : Bytes) (hcob : cfg.closeOnBackpressure = true)
    (h : s.wire ++ (s.wq.flatten ++ p) = s.accepted.flatten) : Good cfg (enqueueTail cfg s p).1 := by
  unfold enqueueTail
  have hcons : Conserved { s with wq := s.wq ++ [p] } := by
    simpa [Conserved, St.wire, St.accepted, List.flatten_append] using h
  simp only [hcob, if_true]
  split
  · exact cn_good cfg _ _ (prefix_of_eq hcons)
  · exact ui_good cfg _ (inv_of_conserved (by simpa [Conserved, St.wire, St.accepted] using hcons))

theorem noteWrite_flat (s : St) (t : Bytes) :
    (noteWrite s t).wireRev.reverse.flatten = s.wireRev.reverse.flatten ++ t := by
  unfold noteWrite
  by_cases h : t.isEmpty
  · have : t = [] := by simpa using h
    simp [this]
  · simp [h]

@[simp] theorem noteWrite_wq (s : St) (t : Bytes) : (noteWrite s t).wq = s.wq := rfl
@[simp] theorem noteWrite_acceptedRev (s : St) (t : Bytes) : (noteWrite s t).acceptedRev = s.acceptedRev := rfl
@[simp] theorem noteWrite_closed (s : St) (t : Bytes) : (noteWrite s t).closed = s.closed := rfl
@[simp] theorem noteWrite_tls (s : St) (t : Bytes) : (noteWrite s t).tls = s.tls := rfl

/-- `doSend` keeps the invariants (close-on-backpressure policy) -/
theorem doSend_good (cfg : Cfg) (s : St) (p : Bytes) (a : WAns) (hcob : cfg.closeOnBackpressure = true)
    (hg : Good cfg s) : Good cfg (doSend cfg s p a).1 := by
  obtain ⟨⟨hcons, hpre⟩, harm⟩ := hg
  unfold doSend
  simp only
  split
  · -- closed: the command is dropped
    rename_i hc
    have hc' : s.closed = true := by simpa using hc
    refine ⟨⟨fun h => ?_, ?_⟩, fun _ h => ?_⟩
    · simp [hc'] at h
    · obtain ⟨t, ht⟩ := hpre
      refine ⟨t ++ p, ?_⟩
      simp only [St.wire, St.accepted] at ht ⊢
      simp [← List.append_assoc, ht]
    · simp [hc'] at h
  · rename_i hc
    have hc' : s.closed = false := by simpa using hc
    have hcs : s.wireRev.reverse.flatten ++ s.wq.flatten = s.acceptedRev.reverse.flatten := hcons hc'
    split
    · -- TLS handshake in progress: queue, never write
      refine ui_good cfg _ (inv_of_conserved ?_)
      simp only [Conserved, St.wire, St.accepted]
      simp [← List.append_assoc, hcs]
    · split
      · -- empty queue: direct write
        rename_i hemp
        have hq : s.wq = [] := by simpa using hemp
        have hw : s.wireRev.reverse.flatten = s.acceptedRev.reverse.flatten := by simpa [hq] using hcs
        split
        · -- progress n
          rename_i n _
          split
          · -- short write: the unsent tail goes to the (empty) queue
            refine ui_good cfg _ (inv_of_conserved ?_)
            simp only [Conserved, St.wire, St.accepted]
            simp [noteWrite_flat, hw, List.append_assoc]
          · -- whole payload written
            rename_i hn
            have hn' : p.take n = p := List.take_of_length_le (by omega)
            refine ⟨inv_of_conserved ?_, fun _ _ hne => ?_⟩
            · simp only [Conserved, St.wire, St.accepted]
              simp [noteWrite_flat, hw, hq, hn']
            · simp [hq] at hne
        · -- would block: queue the whole payload
          refine enqueueTail_good cfg _ p hcob ?_
          simp only [St.wire, St.accepted]
          simp [noteWrite_flat, hw, hq]
        · -- failure: close
          refine cn_good cfg _ _ ?_
          simp only [St.wire, St.accepted]
          simp [noteWrite_flat, hw]
      · -- queue not empty: append at the back
        refine enqueueTail_good cfg _ p hcob ?_
        simp only [St.wire, St.accepted]
        simp [← List.append_assoc, hcs]


/-! ## writePending -/

/-- the drain loop conserves bytes: what it reports as taken, followed by what it leaves queued, is what was queued -/
theorem writeLoop_conserves (ssl : Bool) : ∀ (q : List Bytes) (as : List WAns),
    (writeLoop ssl q as).sentRev.reverse.flatten ++ (writeLoop ssl q as).wq.flatten = q.flatten
  | [], _ => by simp [writeLoop]
  | d :: rest, as => by
    unfold writeLoop
    simp only
    split
    · rename_i n _
      split
      · by_cases h : (List.take n d).isEmpty
        · have h' : List.take n d = [] := by simpa using h
          simp only [h, if_true]
          conv => rhs; rw [← List.take_append_drop n d]
          simp [h']
        · simp [h, ← List.append_assoc]
      · have ih := writeLoop_conserves ssl rest as.tail
        by_cases h : d.isEmpty
        · have h' : d = [] := by simpa using h
          simp [h', ih]
        · simp [h, flat_rev_append, List.append_assoc, ih]
    · simp
    · simp

/-- the queue the loop leaves is empty exactly when it reports "drained" -/
theorem writeLoop_drained (ssl : Bool) : ∀ (q : List Bytes) (as : List WAns),
    (writeLoop ssl q as).stop = .drained ↔ (writeLoop ssl q as).wq = []
  | [], _ => by simp [writeLoop]
  | d :: rest, as => by
    unfold writeLoop
    simp only
    split
    · split
      · simp
      · exact writeLoop_drained ssl rest as.tail
    · simp
    · simp

theorem writePending_good (cfg : Cfg) (s : St) (ws : List WAns) (hc : s.closed = false) (hg : Good cfg s) :
    Good cfg (writePending cfg s ws).1 := by
  obtain ⟨⟨hcons, _⟩, _⟩ := hg
  have hcs : s.wireRev.reverse.flatten ++ s.wq.flatten = s.acceptedRev.reverse.flatten := hcons hc
  have hl := writeLoop_conserves (s.tls == .open) s.wq ws
  unfold writePending
  simp only
  have key : (({ s with wq := (writeLoop (s.tls == .open) s.wq ws).wq,
                        wireRev := (writeLoop (s.tls == .open) s.wq ws).sentRev ++ s.wireRev,
                        rearmed := if (writeLoop (s.tls == .open) s.wq ws).outs.isEmpty then s.rearmed else false } : St).wireRev.reverse.flatten)
      ++ (writeLoop (s.tls == .open) s.wq ws).wq.flatten = s.acceptedRev.reverse.flatten := by
    simp only [flat_rev_append]
    rw [List.append_assoc, hl, hcs]
  split
  · exact cn_good cfg _ _ (by simp only [St.wire, St.accepted]; exact ⟨_, key⟩)
  · exact ui_good cfg _ (inv_of_conserved (by simp only [Conserved, St.wire, St.accepted]; exact key))
  · exact ui_good cfg _ (inv_of_conserved (by simp only [Conserved, St.wire, St.accepted]; exact key))
  · exact ui_good cfg _ (inv_of_conserved (by simp only [Conserved, St.wire, St.accepted]; exact key))


/-! ## the read side and the event handler do not touch the write path, except through `updateInterest` / `closeNow` / `writePending` -/

theorem inv_congr {s s' : St} (h1 : s'.wq = s.wq) (h2 : s'.wireRev = s.wireRev) (h3 : s'.acceptedRev = s.acceptedRev)
    (h4 : s'.closed = s.closed) (h : Inv s) : Inv s' := by
  unfold Inv Conserved St.wire St.accepted at *
  rw [h1, h2, h3, h4]; exact h

theorem good_congr {cfg : Cfg} {s s' : St} (h1 : s'.wq = s.wq) (h2 : s'.wireRev = s.wireRev) (h3 : s'.acceptedRev = s.acceptedRev)
    (h4 : s'.closed = s.closed) (h5 : s'.interestOut = s.interestOut) (h6 : s'.rearmed = s.rearmed)
    (h : Good cfg s) : Good cfg s' := by
  refine ⟨inv_congr h1 h2 h3 h4 h.1, fun hm => ?_⟩
  have := h.2 hm
  unfold Armed at *
  rw [h1, h4, h5, h6]; exact this

theorem readAvail_good (cfg : Cfg) : ∀ (rs : List RAns) (s : St), Good cfg s → Good cfg (readAvail cfg s rs).1.1
  | [], s, h => by simpa [readAvail] using h
  | a :: rest, s, h => by
    unfold readAvail
    simp only
    split
    · split
      · exact readAvail_good cfg rest _ (good_congr rfl rfl rfl rfl rfl rfl h)
      · exact good_congr rfl rfl rfl rfl rfl rfl h
    · exact h
    · exact ui_good cfg _ (inv_congr rfl rfl rfl rfl h.1)
    · exact cn_good cfg _ _ h.1.2
    · exact cn_good cfg _ _ h.1.2

theorem driveHandshake_good (cfg : Cfg) (s : St) (h : HAns) (rs : List RAns) (hg : Good cfg s) :
    Good cfg (driveHandshake cfg s h rs).1.1.1 := by
  unfold driveHandshake
  split
  · exact readAvail_good cfg rs _ (ui_good cfg _ (inv_congr rfl rfl rfl rfl hg.1))
  · exact ui_good cfg _ (inv_congr rfl rfl rfl rfl hg.1)
  · exact ui_good cfg _ (inv_congr rfl rfl rfl rfl hg.1)
  · exact cn_good cfg _ _ hg.1.2

theorem onSessionIo_good (cfg : Cfg) (s : St) (ev : Ev) (rs : List RAns) (ws : List WAns) (hg : Good cfg s) :
    Good cfg (onSessionIo cfg s ev rs ws).1 := by
  unfold onSessionIo
  split
  · exact hg
  · split
    · exact cn_good cfg _ _ hg.1.2
    · have h1 : Good cfg (if ev.inn = true then (readAvail cfg s rs).1 else (s, [])).1 := by
        split
        · exact readAvail_good cfg rs s hg
        · exact hg
      simp only
      generalize (if ev.inn = true then (readAvail cfg s rs).1 else (s, [])) = r1 at h1 ⊢
      split
      · exact h1
      · rename_i hc
        split
        · exact writePending_good cfg _ ws (by simpa using hc) h1
        · exact h1

theorem connectCheck_good (s : St) (c : CAns) (hg : Good cfg s) : Good cfg (connectCheck s c).1 := by
  unfold connectCheck
  split
  · exact hg
  · split
    · exact hg
    · split
      · exact good_congr rfl rfl rfl rfl rfl rfl hg
      · exact hg
      · exact cn_good cfg _ _ hg.1.2

theorem onSession_good (cfg : Cfg) (s : St) (ev : Ev) (soOk : Bool) (c : CAns) (h : HAns)
    (rs : List RAns) (ws : List WAns) (hg : Good cfg s) : Good cfg (onSession cfg s ev soOk c h rs ws).1 := by
  unfold onSession
  split
  · exact hg
  · split
    · exact cn_good cfg _ _ hg.1.2
    · simp only
      split
      · split
        · exact onSessionIo_good cfg _ ev _ ws (driveHandshake_good cfg s h rs hg)
        · exact driveHandshake_good cfg s h rs hg
      · split
        · split
          · exact onSessionIo_good cfg _ ev rs ws (ui_good cfg _ (inv_congr rfl rfl rfl rfl hg.1))
          · exact onSessionIo_good cfg _ ev rs ws hg
          · exact cn_good cfg _ _ hg.1.2
        · exact onSessionIo_good cfg _ ev rs ws hg

/-- every step keeps T1's and T3's invariants (close-on-backpressure policy) -/
theorem step_good (cfg : Cfg) (hcob : cfg.closeOnBackpressure = true) (s : St) (i : In) (hg : Good cfg s) :
    Good cfg (step cfg s i).1 := by
  cases i with
  | cmdSend p a =>
    show Good cfg (if p.isEmpty then (s, []) else doSend cfg s p a).1
    split
    · exact hg
    · exact doSend_good cfg s p a hcob hg
  | cmdClose w o =>
    show Good cfg (if closeGuardSkips s o then (s, []) else closeNow s w).1
    split
    · exact hg
    · exact cn_good cfg _ _ hg.1.2
  | shutdown residual =>
    have hcg := cn_good cfg s .shutdown hg.1.2
    refine ⟨⟨fun hc => ?_, ?_⟩, fun _ hc => ?_⟩
    · have : (closeNow s .shutdown).1.closed = false := hc
      simp at this
    · obtain ⟨t, ht⟩ := hcg.1.2
      refine ⟨t ++ (residual.filter (!·.isEmpty)).flatten, ?_⟩
      show (closeNow s .shutdown).1.wire ++ _ = (((residual.filter (!·.isEmpty)).reverse ++ (closeNow s .shutdown).1.acceptedRev).reverse).flatten
      rw [List.reverse_append, List.flatten_append, List.reverse_reverse, ← List.append_assoc]
      show _ = (closeNow s .shutdown).1.accepted.flatten ++ _
      rw [← ht]
    · have : (closeNow s .shutdown).1.closed = false := hc
      simp at this
  | connectCheck c => exact connectCheck_good s c hg
  | event ev soOk c h rs ws => exact onSession_good cfg s ev soOk c h rs ws hg

theorem run_good (cfg : Cfg) (hcob : cfg.closeOnBackpressure = true) : ∀ (is : List In) (s : St), Good cfg s →
    Good cfg (run cfg s is).1
  | [], _, h => h
  | i :: is, s, h => run_good cfg hcob is _ (step_good cfg hcob s i h)

theorem fresh_good (cfg : Cfg) (s : St) (h : s.Fresh) : Good cfg s := by
  obtain ⟨h1, h2, h3, _, _, _⟩ := h
  refine ⟨inv_of_conserved ?_, fun _ _ hne => absurd h1 hne⟩
  simp [Conserved, St.wire, St.accepted, h1, h2, h3]


/-! ## T2: a TLS session never issues a plain `::send` -/

/-- a plain-socket write (`::send`) or a plain-socket read (`::recv`) -/
def Out.isClearWrite : Out → Bool
  | .write false _ => true
  | .read false _ => true
  | _ => false

/-- no output of the list is a plain-socket write -/
def NoClear (outs : List Out) : Prop := outs.all (fun o => !o.isClearWrite) = true

theorem noClear_nil : NoClear [] := rfl
theorem noClear_append {a b : List Out} (ha : NoClear a) (hb : NoClear b) : NoClear (a ++ b) := by
  unfold NoClear at *; simp [List.all_append, ha, hb]
theorem noClear_cons {o : Out} {b : List Out} (ho : o.isClearWrite = false) (hb : NoClear b) : NoClear (o :: b) := by
  unfold NoClear at *; simp [ho, hb]

theorem ui_noClear (cfg : Cfg) (s : St) : NoClear (updateInterest cfg s).2 := by
  unfold updateInterest; split <;> rfl
theorem cn_noClear (s : St) (w : Why) : NoClear (closeNow s w).2 := by
  unfold closeNow; split <;> rfl

@[simp] theorem writePending_tls (cfg : Cfg) (s : St) (ws : List WAns) : (writePending cfg s ws).1.tls = s.tls := by
  unfold writePending
  simp only
  split <;> simp

theorem writeLoop_noClear : ∀ (q : List Bytes) (as : List WAns), NoClear (writeLoop true q as).outs
  | [], _ => rfl
  | d :: rest, as => by
    unfold writeLoop
    simp only
    split
    · split
      · rfl
      · exact noClear_cons rfl (writeLoop_noClear rest as.tail)
    · rfl
    · rfl

theorem writePending_noClear (cfg : Cfg) (s : St) (ws : List WAns) (h : s.tls = .open) :
    NoClear (writePending cfg s ws).2 := by
  unfold writePending
  simp only
  have hl : NoClear (writeLoop (s.tls == .open) s.wq ws).outs := by
    rw [h]; exact writeLoop_noClear s.wq ws
  split
  · exact noClear_append hl (cn_noClear _ _)
  · exact noClear_append hl (ui_noClear _ _)
  · exact noClear_append hl (ui_noClear _ _)
  · exact noClear_append hl (ui_noClear _ _)

theorem readAvail_tls (cfg : Cfg) : ∀ (rs : List RAns) (s : St), (readAvail cfg s rs).1.1.tls = s.tls
  | [], s => rfl
  | a :: rest, s => by
    unfold readAvail
    simp only
    split
    · split
      · exact readAvail_tls cfg rest _
      · rfl
    · rfl
    · simp
    · simp
    · simp

theorem readAvail_noClear (cfg : Cfg) : ∀ (rs : List RAns) (s : St), s.tls = .open → NoClear (readAvail cfg s rs).1.2
  | [], s, h => by simp [readAvail, NoClear, Out.isClearWrite, h]
  | a :: rest, s, h => by
    have ho : (Out.read (s.tls == Tls.open) cfg.ioReadChunk).isClearWrite = false := by simp [h, Out.isClearWrite]
    unfold readAvail
    simp only
    split
    · split
      · exact noClear_cons ho (noClear_cons rfl (readAvail_noClear cfg rest _ h))
      · exact noClear_cons ho (noClear_cons rfl rfl)
    · exact noClear_cons ho rfl
    · exact noClear_cons ho (ui_noClear _ _)
    · exact noClear_cons ho (cn_noClear _ _)
    · exact noClear_cons ho (cn_noClear _ _)

theorem onSessionIo_tls (cfg : Cfg) (s : St) (ev : Ev) (rs : List RAns) (ws : List WAns) :
    (onSessionIo cfg s ev rs ws).1.tls = s.tls := by
  unfold onSessionIo
  split
  · rfl
  · split
    · simp
    · have h1 : (if ev.inn = true then (readAvail cfg s rs).1 else (s, [])).1.tls = s.tls := by
        split
        · exact readAvail_tls cfg rs s
        · rfl
      simp only
      generalize (if ev.inn = true then (readAvail cfg s rs).1 else (s, [])) = r1 at h1 ⊢
      split
      · exact h1
      · split
        · simpa using h1
        · exact h1

theorem onSessionIo_noClear (cfg : Cfg) (s : St) (ev : Ev) (rs : List RAns) (ws : List WAns) (h : s.tls = .open) :
    NoClear (onSessionIo cfg s ev rs ws).2 := by
  unfold onSessionIo
  split
  · rfl
  · split
    · exact cn_noClear _ _
    · have h1 : (if ev.inn = true then (readAvail cfg s rs).1 else (s, [])).1.tls = .open ∧
          NoClear (if ev.inn = true then (readAvail cfg s rs).1 else (s, [])).2 := by
        split
        · exact ⟨by rw [readAvail_tls]; exact h, readAvail_noClear cfg rs s h⟩
        · exact ⟨h, rfl⟩
      simp only
      generalize (if ev.inn = true then (readAvail cfg s rs).1 else (s, [])) = r1 at h1 ⊢
      split
      · exact h1.2
      · split
        · exact noClear_append h1.2 (writePending_noClear cfg _ ws h1.1)
        · exact h1.2

theorem driveHandshake_spec (cfg : Cfg) (s : St) (h : HAns) (rs : List RAns) (hs : s.tls = .handshake) :
    NoClear (driveHandshake cfg s h rs).1.1.2 ∧
    ((driveHandshake cfg s h rs).2 = true → (driveHandshake cfg s h rs).1.1.1.tls = .open) ∧
    ((driveHandshake cfg s h rs).2 = false → (driveHandshake cfg s h rs).1.1.1.tls = .handshake ∧
        (driveHandshake cfg s h rs).1.1.1.wireRev = s.wireRev) := by
  unfold driveHandshake
  split
  · refine ⟨noClear_cons rfl (noClear_cons rfl (noClear_append (ui_noClear _ _) (readAvail_noClear cfg rs _ (by simp)))), ?_, ?_⟩
    · intro _; rw [readAvail_tls]; simp
    · intro hf; simp at hf
  · exact ⟨noClear_cons rfl (ui_noClear _ _), by intro hf; simp at hf, fun _ => ⟨by simpa using hs, by simp⟩⟩
  · exact ⟨noClear_cons rfl (ui_noClear _ _), by intro hf; simp at hf, fun _ => ⟨by simpa using hs, by simp⟩⟩
  · exact ⟨noClear_cons rfl (cn_noClear _ _), by intro hf; simp at hf, fun _ => ⟨by simpa using hs, by simp⟩⟩

theorem tls_cases (t : Tls) (h : t ≠ .none) (h' : t ≠ .handshake) : t = .open := by
  cases t <;> simp_all

theorem enqueueTail_noClear (cfg : Cfg) (s : St) (p : Bytes) : NoClear (enqueueTail cfg s p).2 := by
  unfold enqueueTail
  simp only
  split
  · split
    · exact cn_noClear _ _
    · exact ui_noClear _ _
  · exact ui_noClear _ _

theorem enqueueTail_tls (cfg : Cfg) (s : St) (p : Bytes) : (enqueueTail cfg s p).1.tls = s.tls := by
  unfold enqueueTail
  simp only
  split
  · split <;> simp
  · simp

theorem doSend_tls (cfg : Cfg) (s : St) (p : Bytes) (a : WAns) : (doSend cfg s p a).1.tls = s.tls := by
  unfold doSend
  simp only
  split
  · rfl
  · split
    · simp
    · split
      · split
        · split <;> simp
        · simp [enqueueTail_tls]
        · simp
      · simp [enqueueTail_tls]

theorem doSend_noClear (cfg : Cfg) (s : St) (p : Bytes) (a : WAns) (h : s.tls ≠ .none) :
    NoClear (doSend cfg s p a).2 := by
  unfold doSend
  simp only
  split
  · rfl
  · split
    · exact ui_noClear _ _
    · rename_i hh
      have ho : s.tls = .open := tls_cases _ h hh
      have hssl : (s.tls == Tls.open) = true := by simp [ho]
      split
      · split
        · split
          · exact noClear_cons (by simp [hssl, Out.isClearWrite]) (ui_noClear _ _)
          · exact noClear_cons (by simp [hssl, Out.isClearWrite]) noClear_nil
        · exact noClear_cons (by simp [hssl, Out.isClearWrite]) (enqueueTail_noClear _ _ _)
        · exact noClear_cons (by simp [hssl, Out.isClearWrite]) (cn_noClear _ _)
      · exact enqueueTail_noClear _ _ _

theorem connectCheck_tlsOn (s : St) (c : CAns) (h : s.tls ≠ .none) : connectCheck s c = (s, []) := by
  unfold connectCheck
  split
  · rfl
  · simp [h]

theorem onSession_noClear (cfg : Cfg) (s : St) (ev : Ev) (soOk : Bool) (c : CAns) (h : HAns)
    (rs : List RAns) (ws : List WAns) (ht : s.tls ≠ .none) :
    NoClear (onSession cfg s ev soOk c h rs ws).2 ∧ (onSession cfg s ev soOk c h rs ws).1.tls ≠ .none := by
  have hpre : NoClear (if ev.out = true then [Out.soError] else []) := by split <;> rfl
  unfold onSession
  split
  · exact ⟨rfl, ht⟩
  · split
    · exact ⟨noClear_cons rfl (cn_noClear _ _), by simpa using ht⟩
    · simp only
      split
      · rename_i hs
        have sp := driveHandshake_spec cfg s h rs hs
        split
        · rename_i hd
          have ho := sp.2.1 hd
          refine ⟨noClear_append (noClear_append hpre sp.1) (onSessionIo_noClear cfg _ ev _ ws ho), ?_⟩
          rw [onSessionIo_tls, ho]; simp
        · rename_i hd
          have hf := sp.2.2 (by simpa using hd)
          exact ⟨noClear_append hpre sp.1, by rw [hf.1]; simp⟩
      · rename_i hs
        have ho : s.tls = .open := tls_cases _ ht hs
        split
        · rename_i hc
          simp [ho] at hc
        · refine ⟨noClear_append hpre (onSessionIo_noClear cfg s ev rs ws ho), ?_⟩
          rw [onSessionIo_tls]; exact ht

theorem step_noClear (cfg : Cfg) (s : St) (i : In) (ht : s.tls ≠ .none) :
    NoClear (step cfg s i).2 ∧ (step cfg s i).1.tls ≠ .none := by
  cases i with
  | cmdSend p a =>
    show NoClear (if p.isEmpty then (s, []) else doSend cfg s p a).2 ∧ (if p.isEmpty then (s, []) else doSend cfg s p a).1.tls ≠ .none
    split
    · exact ⟨rfl, ht⟩
    · exact ⟨doSend_noClear cfg s p a ht, by rw [doSend_tls]; exact ht⟩
  | cmdClose w o =>
    show NoClear (if closeGuardSkips s o then (s, []) else closeNow s w).2 ∧ (if closeGuardSkips s o then (s, []) else closeNow s w).1.tls ≠ .none
    split
    · exact ⟨rfl, ht⟩
    · exact ⟨cn_noClear _ _, by show (closeNow s w).1.tls ≠ .none; simpa using ht⟩
  | shutdown residual => exact ⟨cn_noClear _ _, by show (closeNow s .shutdown).1.tls ≠ .none; simpa using ht⟩
  | connectCheck c =>
    show NoClear (connectCheck s c).2 ∧ (connectCheck s c).1.tls ≠ .none
    rw [connectCheck_tlsOn s c ht]; exact ⟨rfl, ht⟩
  | event ev soOk c h rs ws => exact onSession_noClear cfg s ev soOk c h rs ws ht

theorem run_noClear (cfg : Cfg) : ∀ (is : List In) (s : St), s.tls ≠ .none → NoClear (run cfg s is).2
  | [], _, _ => rfl
  | i :: is, s, ht => by
    have h := step_noClear cfg s i ht
    exact noClear_append h.1 (run_noClear cfg is _ h.2)

/-- a step that leaves the session in the handshake state has put nothing on the wire -/
theorem step_handshake_wire (cfg : Cfg) (s : St) (i : In) (hs : s.tls = .handshake)
    (hs' : (step cfg s i).1.tls = .handshake) : (step cfg s i).1.wireRev = s.wireRev := by
  cases i with
  | cmdSend p a =>
    show (if p.isEmpty then (s, []) else doSend cfg s p a).1.wireRev = s.wireRev
    split
    · rfl
    · unfold doSend
      simp only
      split
      · rfl
      · simp [hs]
  | cmdClose w o =>
    show (if closeGuardSkips s o then (s, []) else closeNow s w).1.wireRev = s.wireRev
    split
    · rfl
    · simp
  | shutdown residual => show (closeNow s .shutdown).1.wireRev = s.wireRev; simp
  | connectCheck c =>
    show (connectCheck s c).1.wireRev = s.wireRev
    rw [connectCheck_tlsOn s c (by rw [hs]; simp)]
  | event ev soOk c h rs ws =>
    have hs'' : (onSession cfg s ev soOk c h rs ws).1.tls = .handshake := hs'
    show (onSession cfg s ev soOk c h rs ws).1.wireRev = s.wireRev
    have sp := driveHandshake_spec cfg s h rs hs
    unfold onSession at hs'' ⊢
    by_cases hc : s.closed = true
    · simp only [hc, if_true]
    · by_cases hso : (ev.out && !soOk) = true
      · simp only [hc, hso, if_true, if_false]; simp
      · simp only [hc, hso, hs, if_true, if_false, Bool.false_eq_true, ↓reduceIte] at hs'' ⊢
        by_cases hd : (driveHandshake cfg s h rs).2 = true
        · simp only [hd, if_true, ↓reduceIte] at hs''
          rw [onSessionIo_tls, sp.2.1 hd] at hs''
          cases hs''
        · simp only [hd, if_false, Bool.false_eq_true, ↓reduceIte]
          exact (sp.2.2 (by simpa using hd)).2


/-! ## T3: progress and draining -/

theorem writeLoop_le (ssl : Bool) (q : List Bytes) (as : List WAns) :
    (writeLoop ssl q as).wq.flatten.length ≤ q.flatten.length := by
  have h := congrArg List.length (writeLoop_conserves ssl q as)
  simp only [List.length_append] at h
  omega

/-- a write that takes `n > 0` bytes of a non-empty front buffer strictly decreases the pending byte count -/
theorem writeLoop_progress (ssl : Bool) (d : Bytes) (rest : List Bytes) (n : Nat) (as : List WAns)
    (hn : 0 < n) (hd : d ≠ []) :
    (writeLoop ssl (d :: rest) (.wrote n :: as)).wq.flatten.length < (d :: rest).flatten.length := by
  have hdl : 0 < d.length := List.length_pos_iff.mpr hd
  have hcl : classifyW ssl (.wrote n) = .progress n := by
    unfold classifyW
    have : (n == 0) = false := by simp; omega
    simp [this]
  unfold writeLoop
  simp only [List.headD_cons, hcl, List.tail_cons]
  split
  · simp [List.length_drop]; omega
  · have := writeLoop_le ssl rest as
    simp only [List.flatten_cons, List.length_append]
    omega

/-- if the environment takes every (non-empty) buffer whole, the loop empties the queue and reports every buffer as taken -/
theorem writeLoop_drains (ssl : Bool) : ∀ (q : List Bytes), (∀ d ∈ q, d ≠ []) →
    (writeLoop ssl q (q.map fun d => .wrote d.length)).wq = [] ∧
    (writeLoop ssl q (q.map fun d => .wrote d.length)).stop = .drained ∧
    (writeLoop ssl q (q.map fun d => .wrote d.length)).sentRev.reverse.flatten = q.flatten
  | [], _ => by simp [writeLoop]
  | d :: rest, h => by
    have hd : d ≠ [] := h d (by simp)
    have hdl : 0 < d.length := List.length_pos_iff.mpr hd
    have hcl : classifyW ssl (.wrote d.length) = .progress d.length := by
      unfold classifyW
      have : (d.length == 0) = false := by simp; omega
      simp [this]
    have ih := writeLoop_drains ssl rest (fun x hx => h x (by simp [hx]))
    unfold writeLoop
    simp only [List.map_cons, List.headD_cons, hcl, List.tail_cons, Nat.lt_irrefl, if_false]
    have hne : d.isEmpty = false := by cases d <;> simp_all
    refine ⟨ih.1, ih.2.1, ?_⟩
    simp [hne, flat_rev_append, ih.2.2]

/-! ## T4: the read loop -/

/-- chunks of the leading data answers -/
def dataPrefix (ssl : Bool) : List RAns → List Bytes
  | [] => []
  | a :: rest => match classifyR ssl a with
    | .got bs => bs :: dataPrefix ssl rest
    | _ => []

/-- the answers from the first non-data answer on -/
def afterData (ssl : Bool) : List RAns → List RAns
  | [] => []
  | a :: rest => match classifyR ssl a with
    | .got _ => afterData ssl rest
    | _ => a :: rest

/-- the payloads of the data callbacks in an output list -/
def deliveries : List Out → List Bytes
  | [] => []
  | .deliver bs :: os => bs :: deliveries os
  | _ :: os => deliveries os

/-- number of read calls in an output list -/
def readCalls : List Out → Nat
  | [] => 0
  | .read _ _ :: os => readCalls os + 1
  | _ :: os => readCalls os

theorem deliveries_ui (cfg : Cfg) (s : St) : deliveries (updateInterest cfg s).2 = [] := by
  unfold updateInterest; split <;> rfl
theorem deliveries_cn (s : St) (w : Why) : deliveries (closeNow s w).2 = [] := by
  unfold closeNow; split <;> rfl
theorem readCalls_ui (cfg : Cfg) (s : St) : readCalls (updateInterest cfg s).2 = 0 := by
  unfold updateInterest; split <;> rfl
theorem readCalls_cn (s : St) (w : Why) : readCalls (closeNow s w).2 = 0 := by
  unfold closeNow; split <;> rfl

/-- does this (non-data) answer end the session? -/
def endsSession (ssl : Bool) (a : RAns) : Bool :=
  match classifyR ssl a with
  | .eof => true
  | .fail => true
  | _ => false

theorem endsSession_eof {ssl : Bool} {a : RAns} (h : classifyR ssl a = .eof) : endsSession ssl a = true := by
  simp [endsSession, h]
theorem endsSession_fail {ssl : Bool} {a : RAns} (h : classifyR ssl a = .fail) : endsSession ssl a = true := by
  simp [endsSession, h]

theorem readAvail_spec' (cfg : Cfg) (hd : cfg.readDrains = true) (ssl : Bool) : ∀ (rs : List RAns) (s : St), (s.tls == .open) = ssl →
    deliveries (readAvail cfg s rs).1.2 = dataPrefix ssl rs ∧
    (readAvail cfg s rs).1.1.deliveredRev = (dataPrefix ssl rs).reverse ++ s.deliveredRev ∧
    (readAvail cfg s rs).1.1.receivedRev = (dataPrefix ssl rs).reverse ++ s.receivedRev ∧
    (readAvail cfg s rs).2 = (afterData ssl rs).tail ∧
    readCalls (readAvail cfg s rs).1.2 = (dataPrefix ssl rs).length + 1 ∧
    ((readAvail cfg s rs).1.1.closed = (s.closed || ((afterData ssl rs).head?.map (endsSession ssl)).getD false))
  | [], s, _ => by simp [readAvail, dataPrefix, afterData, deliveries, readCalls]
  | a :: rest, s, hssl => by
    unfold readAvail
    simp only [hssl]
    cases hcl : classifyR ssl a with
    | got bs =>
      have ih := readAvail_spec' cfg hd ssl rest
        { s with receivedRev := bs :: s.receivedRev, deliveredRev := bs :: s.deliveredRev } hssl
      simp only [dataPrefix, afterData, hcl, deliveries, readCalls, hd, if_true]
      refine ⟨by rw [ih.1], by rw [ih.2.1]; simp, by rw [ih.2.2.1]; simp, ih.2.2.2.1, by rw [ih.2.2.2.2.1]; simp, ih.2.2.2.2.2⟩
    | block o =>
      cases o with
      | none => simp [dataPrefix, afterData, hcl, deliveries, readCalls, endsSession]
      | some tw =>
        simp [dataPrefix, afterData, hcl, deliveries, readCalls, endsSession, deliveries_ui, readCalls_ui]
    | eof =>
      simp only [dataPrefix, afterData, hcl, deliveries, readCalls, deliveries_cn, readCalls_cn]
      simp [endsSession_eof hcl]
      unfold closeNow; split <;> simp_all
    | fail =>
      simp only [dataPrefix, afterData, hcl, deliveries, readCalls, deliveries_cn, readCalls_cn]
      simp [endsSession_fail hcl]
      unfold closeNow; split <;> simp_all


/-! ## T6: the session never becomes closed silently -/

def HasClose (outs : List Out) : Prop := ∃ w, Out.close w ∈ outs

/-- from `s`, the result either has the same `closed` flag or its outputs contain the close -/
def Loud (s : St) (r : R) : Prop := r.1.closed = s.closed ∨ HasClose r.2

theorem loud_refl (s : St) (o : List Out) : Loud s (s, o) := Or.inl rfl

theorem hasClose_append_left {a b : List Out} (h : HasClose a) : HasClose (a ++ b) := by
  obtain ⟨w, hw⟩ := h; exact ⟨w, List.mem_append_left _ hw⟩
theorem hasClose_append_right {a b : List Out} (h : HasClose b) : HasClose (a ++ b) := by
  obtain ⟨w, hw⟩ := h; exact ⟨w, List.mem_append_right _ hw⟩
theorem hasClose_cons {o : Out} {b : List Out} (h : HasClose b) : HasClose (o :: b) := by
  obtain ⟨w, hw⟩ := h; exact ⟨w, List.mem_cons_of_mem _ hw⟩

/-- sequential composition -/
theorem loud_seq {s : St} {r1 r2 : R} (h1 : Loud s r1) (h2 : Loud r1.1 r2) : Loud s (r2.1, r1.2 ++ r2.2) := by
  rcases h2 with h2 | h2
  · rcases h1 with h1 | h1
    · exact Or.inl (h2.trans h1)
    · exact Or.inr (hasClose_append_left h1)
  · exact Or.inr (hasClose_append_right h2)

theorem loud_congr_state {s s0 : St} {r : R} (hc : s.closed = s0.closed) (h : Loud s r) : Loud s0 r := by
  unfold Loud at *; rw [← hc]; exact h

theorem loud_pre {s : St} {r : R} (pre : List Out) (h : Loud s r) : Loud s (r.1, pre ++ r.2) := by
  rcases h with h | h
  · exact Or.inl h
  · exact Or.inr (hasClose_append_right h)

theorem loud_cons {s : St} {r : R} (o : Out) (h : Loud s r) : Loud s (r.1, o :: r.2) := loud_pre [o] h

theorem ui_loud (cfg : Cfg) (s : St) : Loud s (updateInterest cfg s) := Or.inl (by simp)

theorem cn_loud (s : St) (w : Why) : Loud s (closeNow s w) := by
  unfold closeNow
  split
  · exact Or.inl rfl
  · exact Or.inr ⟨w, by simp⟩

theorem enqueueTail_loud (cfg : Cfg) (s : St) (p : Bytes) : Loud s (enqueueTail cfg s p) := by
  unfold enqueueTail
  simp only
  split
  · split
    · exact loud_congr_state rfl (cn_loud _ _)
    · exact loud_congr_state rfl (ui_loud _ _)
  · exact loud_congr_state rfl (ui_loud _ _)

theorem doSend_loud (cfg : Cfg) (s : St) (p : Bytes) (a : WAns) : Loud s (doSend cfg s p a) := by
  unfold doSend
  simp only
  split
  · exact Or.inl rfl
  · split
    · exact loud_congr_state rfl (ui_loud _ _)
    · split
      · split
        · split
          · exact loud_cons _ (loud_congr_state rfl (ui_loud _ _))
          · exact Or.inl rfl
        · exact loud_cons _ (loud_congr_state rfl (enqueueTail_loud _ _ _))
        · exact loud_cons _ (loud_congr_state rfl (cn_loud _ _))
      · exact loud_congr_state rfl (enqueueTail_loud _ _ _)

theorem writePending_loud (cfg : Cfg) (s : St) (ws : List WAns) : Loud s (writePending cfg s ws) := by
  unfold writePending
  simp only
  split
  · exact loud_pre _ (loud_congr_state rfl (cn_loud _ _))
  · exact loud_pre _ (loud_congr_state rfl (ui_loud _ _))
  · exact loud_pre _ (loud_congr_state rfl (ui_loud _ _))
  · exact loud_pre _ (loud_congr_state rfl (ui_loud _ _))

theorem readAvail_loud (cfg : Cfg) : ∀ (rs : List RAns) (s : St), Loud s (readAvail cfg s rs).1
  | [], s => Or.inl rfl
  | a :: rest, s => by
    unfold readAvail
    simp only
    split
    · split
      · exact loud_cons _ (loud_cons _ (loud_congr_state rfl (readAvail_loud cfg rest _)))
      · exact Or.inl rfl
    · exact Or.inl rfl
    · exact loud_cons _ (loud_congr_state rfl (ui_loud _ _))
    · exact loud_cons _ (cn_loud _ _)
    · exact loud_cons _ (cn_loud _ _)

theorem driveHandshake_loud (cfg : Cfg) (s : St) (h : HAns) (rs : List RAns) :
    Loud s (driveHandshake cfg s h rs).1.1 := by
  unfold driveHandshake
  split
  · have h1 : Loud s (updateInterest cfg { s with tls := .open, tlsWantWrite := false, connectPending := false }) :=
      loud_congr_state rfl (ui_loud _ _)
    exact loud_cons _ (loud_cons _ (loud_seq h1 (readAvail_loud cfg rs _)))
  · exact loud_cons _ (loud_congr_state rfl (ui_loud _ _))
  · exact loud_cons _ (loud_congr_state rfl (ui_loud _ _))
  · exact loud_cons _ (cn_loud _ _)

theorem onSessionIo_loud (cfg : Cfg) (s : St) (ev : Ev) (rs : List RAns) (ws : List WAns) :
    Loud s (onSessionIo cfg s ev rs ws) := by
  unfold onSessionIo
  split
  · exact Or.inl rfl
  · split
    · exact cn_loud _ _
    · have h1 : Loud s (if ev.inn = true then (readAvail cfg s rs).1 else (s, [])) := by
        split
        · exact readAvail_loud cfg rs s
        · exact Or.inl rfl
      simp only
      generalize (if ev.inn = true then (readAvail cfg s rs).1 else (s, [])) = r1 at h1 ⊢
      split
      · exact h1
      · split
        · exact loud_seq h1 (writePending_loud cfg _ ws)
        · exact h1

theorem connectCheck_loud (s : St) (c : CAns) : Loud s (connectCheck s c) := by
  unfold connectCheck
  split
  · exact Or.inl rfl
  · split
    · exact Or.inl rfl
    · split
      · exact Or.inl rfl
      · exact Or.inl rfl
      · exact loud_cons _ (cn_loud _ _)

theorem onSession_loud (cfg : Cfg) (s : St) (ev : Ev) (soOk : Bool) (c : CAns) (h : HAns)
    (rs : List RAns) (ws : List WAns) : Loud s (onSession cfg s ev soOk c h rs ws) := by
  unfold onSession
  split
  · exact Or.inl rfl
  · split
    · exact loud_cons _ (cn_loud _ _)
    · simp only
      split
      · split
        · have := loud_seq (driveHandshake_loud cfg s h rs) (onSessionIo_loud cfg _ ev (driveHandshake cfg s h rs).1.2 ws)
          rw [List.append_assoc]
          exact loud_pre _ this
        · exact loud_pre _ (driveHandshake_loud cfg s h rs)
      · split
        · split
          · have h1 : Loud s (updateInterest cfg { s with connectPending := false }) := loud_congr_state rfl (ui_loud _ _)
            have := loud_seq h1 (onSessionIo_loud cfg _ ev rs ws)
            exact loud_pre _ (loud_cons _ (loud_cons _ this))
          · exact loud_pre _ (loud_cons _ (onSessionIo_loud cfg s ev rs ws))
          · exact loud_pre _ (loud_cons _ (cn_loud _ _))
        · exact loud_pre _ (onSessionIo_loud cfg s ev rs ws)

theorem step_loud (cfg : Cfg) (s : St) (i : In) : Loud s (step cfg s i) := by
  cases i with
  | cmdSend p a =>
    show Loud s (if p.isEmpty then (s, []) else doSend cfg s p a)
    split
    · exact Or.inl rfl
    · exact doSend_loud cfg s p a
  | cmdClose w o =>
    show Loud s (if closeGuardSkips s o then (s, []) else closeNow s w)
    split
    · exact Or.inl rfl
    · exact cn_loud s w
  | shutdown residual =>
    rcases cn_loud s .shutdown with h | h
    · exact Or.inl h
    · exact Or.inr h
  | connectCheck c => exact connectCheck_loud s c
  | event ev soOk c h rs ws => exact onSession_loud cfg s ev soOk c h rs ws

/-- a closed session stays closed and is silent -/
theorem step_closed (cfg : Cfg) (s : St) (i : In) (hc : s.closed = true) :
    (step cfg s i).2 = [] ∧ (step cfg s i).1.closed = true ∧ (step cfg s i).1.wireRev = s.wireRev := by
  cases i with
  | cmdSend p a =>
    show (if p.isEmpty then (s, []) else doSend cfg s p a).2 = [] ∧
      (if p.isEmpty then (s, []) else doSend cfg s p a).1.closed = true ∧
      (if p.isEmpty then (s, []) else doSend cfg s p a).1.wireRev = s.wireRev
    split
    · exact ⟨rfl, hc, rfl⟩
    · simp [doSend, hc]
  | cmdClose w o => by_cases hg : closeGuardSkips s o <;> simp [step, closeNow, hc, hg]
  | shutdown residual => simp [step, closeNow, hc]
  | connectCheck c => simp [step, connectCheck, hc]
  | event ev soOk c h rs ws => simp [step, onSession, hc]


/-! ## T3: a fair environment drains the queue -/

/-- every queued buffer is non-empty (true of the engine: `send` does not enqueue `n == 0`, tails are non-empty) -/
def NonEmptyBufs (q : List Bytes) : Prop := ∀ d ∈ q, d ≠ []

theorem writeLoop_nonEmpty (ssl : Bool) : ∀ (q : List Bytes) (as : List WAns), NonEmptyBufs q →
    NonEmptyBufs (writeLoop ssl q as).wq
  | [], _, _ => by simp [writeLoop, NonEmptyBufs]
  | d :: rest, as, h => by
    have hrest : NonEmptyBufs rest := fun x hx => h x (by simp [hx])
    unfold writeLoop
    simp only
    split
    · rename_i n _
      split
      · rename_i hn
        intro x hx
        simp only [List.mem_cons] at hx
        rcases hx with hx | hx
        · subst hx
          intro he
          have := congrArg List.length he
          simp [List.length_drop] at this
          omega
        · exact hrest x hx
      · exact writeLoop_nonEmpty ssl rest as.tail hrest
    · exact h
    · exact h

@[simp] theorem cn_connectPending (s : St) (w : Why) : (closeNow s w).1.connectPending = s.connectPending := by
  unfold closeNow; split <;> rfl

@[simp] theorem writePending_connectPending (cfg : Cfg) (s : St) (ws : List WAns) :
    (writePending cfg s ws).1.connectPending = s.connectPending := by
  unfold writePending
  simp only
  split
  · simp
  · simp
  · simp
  · simp

theorem writePending_wq (cfg : Cfg) (s : St) (ws : List WAns) (hc : (writePending cfg s ws).1.closed = false) :
    (writePending cfg s ws).1.wq = (writeLoop (s.tls == .open) s.wq ws).wq := by
  unfold writePending at hc ⊢
  simp only at hc ⊢
  split at hc <;> rename_i hst <;> simp only [hst]
  · simp at hc
  · simp
  · simp
  · simp

/-! ## every queued buffer is non-empty in every reachable state (`send` does not enqueue `n == 0`) -/

theorem ne_nil : NonEmptyBufs [] := fun _ h => by simp at h
theorem ne_append {q : List Bytes} {p : Bytes} (h : NonEmptyBufs q) (hp : p ≠ []) : NonEmptyBufs (q ++ [p]) := by
  intro d hd
  simp only [List.mem_append, List.mem_singleton] at hd
  rcases hd with hd | hd
  · exact h d hd
  · rw [hd]; exact hp
theorem ne_tail {q : List Bytes} (h : NonEmptyBufs q) : NonEmptyBufs q.tail :=
  fun d hd => h d (List.mem_of_mem_tail hd)

theorem cn_ne (s : St) (w : Why) (h : NonEmptyBufs s.wq) : NonEmptyBufs (closeNow s w).1.wq := by
  unfold closeNow; split
  · exact h
  · exact ne_nil

theorem enqueueTail_ne (cfg : Cfg) (s : St) (p : Bytes) (hp : p ≠ []) (h : NonEmptyBufs s.wq) :
    NonEmptyBufs (enqueueTail cfg s p).1.wq := by
  unfold enqueueTail
  simp only
  split
  · split
    · exact cn_ne _ _ (ne_append h hp)
    · simpa using ne_tail (ne_append h hp)
  · simpa using ne_append h hp

theorem doSend_ne (cfg : Cfg) (s : St) (p : Bytes) (a : WAns) (hp : p ≠ []) (h : NonEmptyBufs s.wq) :
    NonEmptyBufs (doSend cfg s p a).1.wq := by
  unfold doSend
  simp only
  split
  · exact h
  · split
    · simpa using ne_append h hp
    · split
      · split
        · rename_i n _
          split
          · rename_i hn
            simp only [ui_wq]
            intro d hd
            simp only [List.mem_singleton] at hd
            rw [hd]
            intro he
            have := congrArg List.length he
            simp [List.length_drop] at this
            omega
          · exact h
        · exact enqueueTail_ne cfg _ p hp h
        · exact cn_ne _ _ h
      · exact enqueueTail_ne cfg _ p hp h

theorem writePending_ne (cfg : Cfg) (s : St) (ws : List WAns) (h : NonEmptyBufs s.wq) :
    NonEmptyBufs (writePending cfg s ws).1.wq := by
  have hl := writeLoop_nonEmpty (s.tls == .open) s.wq ws h
  unfold writePending
  simp only
  split
  · exact cn_ne _ _ hl
  · simpa using hl
  · simpa using hl
  · simpa using hl

theorem readAvail_ne (cfg : Cfg) : ∀ (rs : List RAns) (s : St), NonEmptyBufs s.wq →
    NonEmptyBufs (readAvail cfg s rs).1.1.wq
  | [], _, h => h
  | a :: rest, s, h => by
    unfold readAvail
    simp only
    split
    · split
      · exact readAvail_ne cfg rest _ h
      · exact h
    · exact h
    · simpa using h
    · exact cn_ne _ _ h
    · exact cn_ne _ _ h

theorem driveHandshake_ne (cfg : Cfg) (s : St) (h : HAns) (rs : List RAns) (hn : NonEmptyBufs s.wq) :
    NonEmptyBufs (driveHandshake cfg s h rs).1.1.1.wq := by
  unfold driveHandshake
  split
  · exact readAvail_ne cfg rs _ (by simpa using hn)
  · simpa using hn
  · simpa using hn
  · exact cn_ne _ _ hn

theorem onSessionIo_ne (cfg : Cfg) (s : St) (ev : Ev) (rs : List RAns) (ws : List WAns) (hn : NonEmptyBufs s.wq) :
    NonEmptyBufs (onSessionIo cfg s ev rs ws).1.wq := by
  unfold onSessionIo
  split
  · exact hn
  · split
    · exact cn_ne _ _ hn
    · have h1 : NonEmptyBufs (if ev.inn = true then (readAvail cfg s rs).1 else (s, [])).1.wq := by
        split
        · exact readAvail_ne cfg rs s hn
        · exact hn
      simp only
      generalize (if ev.inn = true then (readAvail cfg s rs).1 else (s, [])) = r1 at h1 ⊢
      split
      · exact h1
      · split
        · exact writePending_ne cfg _ ws h1
        · exact h1

theorem connectCheck_ne (s : St) (c : CAns) (hn : NonEmptyBufs s.wq) : NonEmptyBufs (connectCheck s c).1.wq := by
  unfold connectCheck
  split
  · exact hn
  · split
    · exact hn
    · split
      · exact hn
      · exact hn
      · exact cn_ne _ _ hn

theorem onSession_ne (cfg : Cfg) (s : St) (ev : Ev) (soOk : Bool) (c : CAns) (h : HAns)
    (rs : List RAns) (ws : List WAns) (hn : NonEmptyBufs s.wq) :
    NonEmptyBufs (onSession cfg s ev soOk c h rs ws).1.wq := by
  unfold onSession
  split
  · exact hn
  · split
    · exact cn_ne _ _ hn
    · simp only
      split
      · split
        · exact onSessionIo_ne cfg _ ev _ ws (driveHandshake_ne cfg s h rs hn)
        · exact driveHandshake_ne cfg s h rs hn
      · split
        · split
          · exact onSessionIo_ne cfg _ ev rs ws (by simpa using hn)
          · exact onSessionIo_ne cfg _ ev rs ws hn
          · exact cn_ne _ _ hn
        · exact onSessionIo_ne cfg _ ev rs ws hn

theorem step_ne (cfg : Cfg) (s : St) (i : In) (hn : NonEmptyBufs s.wq) : NonEmptyBufs (step cfg s i).1.wq := by
  cases i with
  | cmdSend p a =>
    show NonEmptyBufs (if p.isEmpty then (s, []) else doSend cfg s p a).1.wq
    split
    · exact hn
    · rename_i hp
      exact doSend_ne cfg s p a (by intro he; simp [he] at hp) hn
  | cmdClose w o =>
    show NonEmptyBufs (if closeGuardSkips s o then (s, []) else closeNow s w).1.wq
    split
    · exact hn
    · exact cn_ne s w hn
  | shutdown residual => exact cn_ne s .shutdown hn
  | connectCheck c => exact connectCheck_ne s c hn
  | event ev soOk c h rs ws => exact onSession_ne cfg s ev soOk c h rs ws hn

theorem run_ne (cfg : Cfg) : ∀ (is : List In) (s : St), NonEmptyBufs s.wq → NonEmptyBufs (run cfg s is).1.wq
  | [], _, h => h
  | i :: is, s, h => run_ne cfg is _ (step_ne cfg s i h)

/-! ## `accepted` is exactly the list of non-empty payloads of the Send commands, in command order -/

/-- the payloads of the Send commands of a history, in order (`send` does not enqueue `n == 0`) -/
def sentPayloads : List In → List Bytes
  | [] => []
  | .cmdSend p _ :: is => if p.isEmpty then sentPayloads is else p :: sentPayloads is
  | .shutdown residual :: is => residual.filter (!·.isEmpty) ++ sentPayloads is
  | _ :: is => sentPayloads is

@[simp] theorem enqueueTail_acceptedRev (cfg : Cfg) (s : St) (p : Bytes) :
    (enqueueTail cfg s p).1.acceptedRev = s.acceptedRev := by
  unfold enqueueTail
  simp only
  split
  · split <;> simp
  · simp

theorem doSend_acceptedRev (cfg : Cfg) (s : St) (p : Bytes) (a : WAns) :
    (doSend cfg s p a).1.acceptedRev = p :: s.acceptedRev := by
  unfold doSend
  simp only
  split
  · rfl
  · split
    · simp
    · split
      · split
        · split <;> simp [noteWrite]
        · simp [noteWrite]
        · simp [noteWrite]
      · simp

@[simp] theorem writePending_acceptedRev (cfg : Cfg) (s : St) (ws : List WAns) :
    (writePending cfg s ws).1.acceptedRev = s.acceptedRev := by
  unfold writePending
  simp only
  split <;> simp

theorem readAvail_acceptedRev (cfg : Cfg) : ∀ (rs : List RAns) (s : St),
    (readAvail cfg s rs).1.1.acceptedRev = s.acceptedRev
  | [], _ => rfl
  | a :: rest, s => by
    unfold readAvail
    simp only
    split
    · split
      · rw [readAvail_acceptedRev cfg rest]
      · rfl
    · rfl
    · simp
    · simp
    · simp

theorem driveHandshake_acceptedRev (cfg : Cfg) (s : St) (h : HAns) (rs : List RAns) :
    (driveHandshake cfg s h rs).1.1.1.acceptedRev = s.acceptedRev := by
  unfold driveHandshake
  split
  · simp [readAvail_acceptedRev]
  · simp
  · simp
  · simp

theorem onSessionIo_acceptedRev (cfg : Cfg) (s : St) (ev : Ev) (rs : List RAns) (ws : List WAns) :
    (onSessionIo cfg s ev rs ws).1.acceptedRev = s.acceptedRev := by
  unfold onSessionIo
  split
  · rfl
  · split
    · simp
    · have h1 : (if ev.inn = true then (readAvail cfg s rs).1 else (s, [])).1.acceptedRev = s.acceptedRev := by
        split
        · exact readAvail_acceptedRev cfg rs s
        · rfl
      simp only
      generalize (if ev.inn = true then (readAvail cfg s rs).1 else (s, [])) = r1 at h1 ⊢
      split
      · exact h1
      · split
        · simpa using h1
        · exact h1

theorem connectCheck_acceptedRev (s : St) (c : CAns) : (connectCheck s c).1.acceptedRev = s.acceptedRev := by
  unfold connectCheck
  split
  · rfl
  · split
    · rfl
    · split
      · rfl
      · rfl
      · simp

theorem onSession_acceptedRev (cfg : Cfg) (s : St) (ev : Ev) (soOk : Bool) (c : CAns) (h : HAns)
    (rs : List RAns) (ws : List WAns) : (onSession cfg s ev soOk c h rs ws).1.acceptedRev = s.acceptedRev := by
  unfold onSession
  split
  · rfl
  · split
    · simp
    · simp only
      split
      · split
        · rw [onSessionIo_acceptedRev, driveHandshake_acceptedRev]
        · exact driveHandshake_acceptedRev cfg s h rs
      · split
        · split
          · rw [onSessionIo_acceptedRev]; simp
          · exact onSessionIo_acceptedRev cfg s ev rs ws
          · simp
        · exact onSessionIo_acceptedRev cfg s ev rs ws

theorem run_accepted (cfg : Cfg) : ∀ (is : List In) (s : St),
    (run cfg s is).1.accepted = s.accepted ++ sentPayloads is
  | [], s => by simp [run, sentPayloads]
  | i :: is, s => by
    simp only [run]
    rw [run_accepted cfg is]
    cases i with
    | cmdSend p a =>
      show (if p.isEmpty then (s, []) else doSend cfg s p a).1.accepted ++ _ = _
      by_cases hp : p.isEmpty
      · simp [hp, sentPayloads]
      · simp [hp, sentPayloads, St.accepted, doSend_acceptedRev]
    | cmdClose w o => by_cases hg : closeGuardSkips s o <;> simp [step, sentPayloads, hg]
    | shutdown residual => simp [step, sentPayloads, St.accepted, List.reverse_append]
    | connectCheck c => simp [step, sentPayloads, St.accepted, connectCheck_acceptedRev]
    | event ev soOk c h rs ws => simp [step, sentPayloads, St.accepted, onSession_acceptedRev]

/-! ## T5: the command queue under `_cmdMutex` -/
namespace Enq

theorem setThr_get (q : Q) (t : Tid) (th th' : Thr) (t' : Tid) (h : q.thr[t]? = some th) :
    (setThr q t th').thr[t']? = if t' = t then some th' else q.thr[t']? := by
  have hlt : t < q.thr.length := by
    have := (List.getElem?_eq_some_iff.mp h).1; exact this
  unfold setThr
  simp only [List.getElem?_set]
  by_cases e : t = t'
  · subst e; simp [hlt]
  · have e' : ¬ t' = t := fun x => e x.symm
    simp [e, e']

@[simp] theorem setThr_owner (q : Q) (t : Tid) (th : Thr) : (setThr q t th).owner = q.owner := rfl
@[simp] theorem setThr_cmds (q : Q) (t : Tid) (th : Thr) : (setThr q t th).cmds = q.cmds := rfl
@[simp] theorem setThr_taken (q : Q) (t : Tid) (th : Thr) : (setThr q t th).taken = q.taken := rfl

theorem seqOf_append (t : Tid) (a b : List Cmd) : seqOf t (a ++ b) = seqOf t a ++ seqOf t b := by
  simp [seqOf, List.filter_append]

theorem seqOf_single_self (t : Tid) (n : Nat) : seqOf t [(t, n)] = [n] := by simp [seqOf]
theorem seqOf_single_ne (t t' : Tid) (n : Nat) (h : t' ≠ t) : seqOf t [(t', n)] = [] := by
  simp [seqOf, h]

/-- invariant of the protocol with the mutex -/
structure EInv (q : Q) : Prop where
  own : ∀ (t : Tid) (th : Thr), q.thr[t]? = some th → th.pc ≠ .idle → q.owner = some t
  pos : ∀ (t : Tid) (th : Thr) (p : Nat), q.thr[t]? = some th → th.pc = .readEnd p → p = q.cmds.length
  fifo : ∀ (t : Tid) (th : Thr), q.thr[t]? = some th →
    seqOf t (q.taken ++ q.cmds) = List.range (th.next + (if th.pc = .stored then 1 else 0))
  dom : ∀ c ∈ q.taken ++ q.cmds, c.1 < q.thr.length

theorem init_inv (n : Nat) : EInv (init n) := by
  refine ⟨?_, ?_, ?_, ?_⟩
  · intro t th h hp
    simp only [init, List.getElem?_replicate] at h
    split at h
    · cases h; simp at hp
    · cases h
  · intro t th p h hp
    simp only [init, List.getElem?_replicate] at h
    split at h
    · cases h; simp at hp
    · cases h
  · intro t th h
    simp only [init, List.getElem?_replicate] at h
    split at h
    · cases h; simp [init, seqOf]
    · cases h
  · intro c hc; simp [init] at hc

theorem storeAt_end (l : List Cmd) (c : Cmd) : storeAt l l.length c = l ++ [c] := by
  simp [storeAt]

theorem step_inv (q : Q) (a : Actor) (hi : EInv q) : EInv (step true true true q a) := by
  cases a with
  | io =>
    unfold step
    simp only [if_true]
    split
    · rename_i hown
      have hnone : q.owner = none := by simpa using hown
      refine ⟨?_, ?_, ?_, ?_⟩
      · intro t th h hp; exact hi.own t th h hp
      · intro t th p h hp
        have := hi.own t th h (by rw [hp]; simp)
        rw [hnone] at this; cases this
      · intro t th h
        have := hi.fifo t th h
        simpa using this
      · intro c hc
        exact hi.dom c (by simpa using hc)
    · exact hi
  | sender t =>
    unfold step
    simp only
    cases hth : q.thr[t]? with
    | none => exact hi
    | some th =>
      simp only
      cases hpc : th.pc with
      | idle =>
        simp only [if_true]
        split
        · rename_i hown
          have hnone : q.owner = none := by simpa using hown
          have hthr : ({ q with owner := some t } : Q).thr[t]? = some th := hth
          refine ⟨?_, ?_, ?_, ?_⟩
          · intro t' th' h hp
            rw [setThr_get _ t th _ t' hthr] at h
            split at h
            · rename_i e; subst e; rfl
            · have := hi.own t' th' h hp
              rw [hnone] at this; cases this
          · intro t' th' p h hp
            rw [setThr_get _ t th _ t' hthr] at h
            split at h
            · cases h; simp at hp
            · exact hi.pos t' th' p h hp
          · intro t' th' h
            rw [setThr_get _ t th _ t' hthr] at h
            show seqOf t' (q.taken ++ q.cmds) = _
            split at h
            · rename_i e; subst e; cases h
              have := hi.fifo t' th hth
              simpa [hpc] using this
            · exact hi.fifo t' th' h
          · intro c hc
            have := hi.dom c hc
            simpa [setThr] using this
        · exact hi
      | locked =>
        have hown : q.owner = some t := hi.own t th hth (by rw [hpc]; simp)
        refine ⟨?_, ?_, ?_, ?_⟩
        · intro t' th' h hp
          rw [setThr_get _ t th _ t' hth] at h
          split at h
          · rename_i e; subst e; exact hown
          · exact hi.own t' th' h hp
        · intro t' th' p h hp
          rw [setThr_get _ t th _ t' hth] at h
          split at h
          · cases h; simp at hp; exact hp.symm
          · exact hi.pos t' th' p h hp
        · intro t' th' h
          rw [setThr_get _ t th _ t' hth] at h
          show seqOf t' (q.taken ++ q.cmds) = _
          split at h
          · rename_i e; subst e; cases h
            have := hi.fifo t' th hth
            simpa [hpc] using this
          · exact hi.fifo t' th' h
        · intro c hc
          have := hi.dom c hc
          simpa [setThr] using this
      | readEnd p =>
        have hown : q.owner = some t := hi.own t th hth (by rw [hpc]; simp)
        have hp : p = q.cmds.length := hi.pos t th p hth hpc
        subst hp
        have hthr : ({ q with cmds := storeAt q.cmds q.cmds.length (t, th.next) } : Q).thr[t]? = some th := hth
        refine ⟨?_, ?_, ?_, ?_⟩
        · intro t' th' h hp'
          rw [setThr_get _ t th _ t' hthr] at h
          split at h
          · rename_i e; subst e; exact hown
          · exact hi.own t' th' h hp'
        · intro t' th' p' h hp'
          rw [setThr_get _ t th _ t' hthr] at h
          split at h
          · cases h; simp at hp'
          · rename_i e
            have := hi.own t' th' h (by rw [hp']; simp)
            rw [hown] at this
            exact absurd (Option.some.inj this).symm e
        · intro t' th' h
          rw [setThr_get _ t th _ t' hthr] at h
          show seqOf t' (q.taken ++ storeAt q.cmds q.cmds.length (t, th.next)) = _
          rw [storeAt_end, ← List.append_assoc, seqOf_append]
          split at h
          · rename_i e; subst e; cases h
            have := hi.fifo t' th hth
            rw [this, seqOf_single_self]
            simp [hpc, List.range_succ]
          · rename_i e
            rw [seqOf_single_ne t' t _ (fun x => e x.symm), List.append_nil]
            exact hi.fifo t' th' h
        · intro c hc
          have hlt : t < q.thr.length := (List.getElem?_eq_some_iff.mp hth).1
          have hc' : c ∈ (q.taken ++ q.cmds) ++ [(t, th.next)] := by
            have : c ∈ q.taken ++ storeAt q.cmds q.cmds.length (t, th.next) := hc
            rw [storeAt_end, ← List.append_assoc] at this
            exact this
          simp only [List.mem_append, List.mem_singleton] at hc'
          show c.1 < (q.thr.set t _).length
          rw [List.length_set]
          rcases hc' with hc' | hc'
          · exact hi.dom c (by simpa using hc')
          · rw [hc']; exact hlt
      | stored =>
        have hown : q.owner = some t := hi.own t th hth (by rw [hpc]; simp)
        simp only [if_true]
        have hthr : ({ q with owner := none } : Q).thr[t]? = some th := hth
        refine ⟨?_, ?_, ?_, ?_⟩
        · intro t' th' h hp'
          rw [setThr_get _ t th _ t' hthr] at h
          split at h
          · cases h; simp at hp'
          · rename_i e
            have := hi.own t' th' h hp'
            rw [hown] at this
            exact absurd (Option.some.inj this).symm e
        · intro t' th' p' h hp'
          rw [setThr_get _ t th _ t' hthr] at h
          split at h
          · cases h; simp at hp'
          · exact hi.pos t' th' p' h hp'
        · intro t' th' h
          rw [setThr_get _ t th _ t' hthr] at h
          show seqOf t' (q.taken ++ q.cmds) = _
          split at h
          · rename_i e; subst e; cases h
            have := hi.fifo t' th hth
            simpa [hpc] using this
          · exact hi.fifo t' th' h
        · intro c hc
          have := hi.dom c hc
          simpa [setThr] using this

theorem run_inv : ∀ (as : List Actor) (q : Q), EInv q → EInv (run true true true q as)
  | [], _, h => h
  | a :: as, q, h => run_inv as _ (step_inv q a h)

/-- the number of sender threads never changes -/
theorem step_thr_length (l sl wb : Bool) (q : Q) (a : Actor) : (step l sl wb q a).thr.length = q.thr.length := by
  cases a with
  | io => unfold step; simp only; repeat' split
          all_goals rfl
  | sender t =>
    unfold step
    simp only
    cases q.thr[t]? with
    | none => rfl
    | some th =>
      simp only
      cases th.pc with
      | idle => simp only [setThr]; repeat' split
                all_goals simp
      | locked => simp [setThr]
      | readEnd p => simp [setThr]
      | stored => simp [setThr]

theorem run_thr_length (l sl wb : Bool) : ∀ (as : List Actor) (q : Q), (run l sl wb q as).thr.length = q.thr.length
  | [], _ => rfl
  | a :: as, q => by rw [run, run_thr_length l sl wb as, step_thr_length]

end Enq

end Iora.Tcp
