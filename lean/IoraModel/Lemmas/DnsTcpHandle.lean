import IoraModel.Lemmas.DnsTcp
import IoraModel.Lemmas.DnsTransport
/-! N6 for C19 at the level of the complete data callbacks `handleTcpData` / `handleUdpData`: containment for arbitrary bytes,
and a response can only complete queries addressed to the server:port the session belongs to. -/
namespace Iora.DnsTcp
open Iora Iora.Dns

theorem respond_total (p : List (Nat × Nat)) (s : Nat) (d : Bytes) : ∃ out, respond p s d = .ok out := by
  unfold respond
  obtain ⟨⟨c, left⟩, h⟩ := DnsTransport.processResponse_total ((p.filter (fun q => q.2 = s)).map (·.1)) d
  rw [h]
  exact ⟨_, rfl⟩

theorem deliver_total (sid : Nat) (srv : Option Nat) : ∀ (evs : List Ev) (p : List (Nat × Nat)), ∃ out, deliver sid srv evs p = .ok out := by
  intro evs
  induction evs with
  | nil => intro p; exact ⟨_, rfl⟩
  | cons e r ih =>
    intro p
    cases e with
    | close =>
      obtain ⟨⟨o, p'⟩, h⟩ := ih p
      simp only [deliver, h]
      exact ⟨_, rfl⟩
    | msg m =>
      cases srv with
      | none => simp only [deliver]; exact ih p
      | some s =>
        obtain ⟨⟨c, p1⟩, h1⟩ := respond_total p s m
        obtain ⟨⟨o, p'⟩, h2⟩ := ih p1
        simp only [deliver, h1, h2]
        exact ⟨_, rfl⟩

/-- **containment, TCP**: whatever bytes arrive on whatever session, in whatever state, `handleTcpData` ends normally -/
theorem handleTcpData_total (cap : Nat) (st : TSt) (sid : Nat) (data : Bytes) : ∃ out, handleTcpData cap st sid data = .ok out := by
  unfold handleTcpData
  simp only
  obtain ⟨⟨o, p⟩, h⟩ := deliver_total sid (lookup sid st.sessions)
    (tcpData cap (bufOf sid st.bufs) data).1 st.pending
  rw [h]
  exact ⟨_, rfl⟩

/-- **containment, UDP** -/
theorem handleUdpData_total (st : TSt) (sid : Nat) (data : Bytes) : ∃ out, handleUdpData st sid data = .ok out := by
  unfold handleUdpData
  cases lookup sid st.sessions with
  | none => exact ⟨_, rfl⟩
  | some s =>
    obtain ⟨⟨c, p⟩, h⟩ := respond_total st.pending s data
    simp only [h]
    exact ⟨_, rfl⟩

/-- **containment, UDP in mode Both** (truncation → TCP fallback) -/
theorem handleUdpDataBoth_total (st : TSt) (sid : Nat) (data : Bytes) : ∃ out, handleUdpDataBoth st sid data = .ok out := by
  unfold handleUdpDataBoth
  cases lookup sid st.sessions with
  | none => exact ⟨_, rfl⟩
  | some s =>
    obtain ⟨⟨c, p⟩, h⟩ := respond_total st.pending s data
    simp only [h]
    split
    · split
      · split <;> exact ⟨_, rfl⟩
      · exact ⟨_, rfl⟩
    · exact ⟨_, rfl⟩

/-- **truncation falls back exactly once.** In mode Both a truncated UDP answer for a pending query that has not fallen back yet
completes NOTHING: the pending set is unchanged, the query is marked and re-sent over TCP (one `resent` event).  (A second
truncated answer for the same query then takes the normal path and completes it: the flag is set.) -/
theorem tc_falls_back_once (st : TSt) (sid s : Nat) (data : Bytes) (r : Result) (hs : lookup sid st.sessions = some s)
    (hp : parse data = .ok r) (htc : r.header.tc = true) (hpend : st.pending.contains (r.header.id, s) = true)
    (hfb : st.fallback.contains (r.header.id, s) = false) :
    ∃ t st', handleUdpDataBoth st sid data = .ok ([.resent r.header.id s t], st') ∧ st'.pending = st.pending ∧
      st'.fallback = (r.header.id, s) :: st.fallback := by
  unfold handleUdpDataBoth
  simp only [hs, hp, htc, hpend, hfb, and_self, Bool.false_eq_true, not_false_eq_true, ↓reduceIte]
  cases ht : lookup s st.tcpSess with
  | some t => exact ⟨t, _, rfl, rfl, rfl⟩
  | none => exact ⟨st.nextSid, _, rfl, rfl, rfl⟩

/-- a response from server `s` leaves every pending query addressed to ANOTHER server:port pending (`QueryKey::operator==`
compares id, server and port), whatever its 16-bit id -/
theorem respond_other_servers {p p' : List (Nat × Nat)} {s : Nat} {d : Bytes} {c : Option DnsTransport.Completion}
    (h : respond p s d = .ok (c, p')) : ∀ q ∈ p, q.2 ≠ s → q ∈ p' := by
  unfold respond at h
  split at h
  · cases h
  · cases h
    intro q hq hne
    simp only [List.mem_filter, hq, true_and]
    simp [hne]

/-- … and it never adds a pending query -/
theorem respond_subset {p p' : List (Nat × Nat)} {s : Nat} {d : Bytes} {c : Option DnsTransport.Completion}
    (h : respond p s d = .ok (c, p')) : ∀ q ∈ p', q ∈ p := by
  unfold respond at h
  split at h
  · cases h
  · cases h
    intro q hq
    exact (List.mem_filter.mp hq).1

end Iora.DnsTcp
