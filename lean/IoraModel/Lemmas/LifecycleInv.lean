import IoraModel.Lemmas.LifecycleCore
/-! # `Inv` is preserved by every primitive operation (C02) -/
namespace Iora.Lifecycle

theorem Inv.frame {g g' : G} (h : Inv g) (ht : g'.table = g.table) (hn : g'.nextId = g.nextId) (hp : pend g' = pend g)
    (htr : g'.tr = g.tr) (hc : g'.current = g.current) (he : g'.envBad = g.envBad) (hi : g'.index = g.index)
    (hd : g'.dupAnn = g.dupAnn := by rfl) : Inv g' := by
  have hlv : live g' = live g := by funext sid; simp [live, ht]
  have hl : liveCount g' = liveCount g := by simp [liveCount, hlv, hn]
  constructor
  · simpa [ht, hn] using h.tbl_lt
  · simpa [hp] using h.pend_nd
  · simpa [hp, hn] using h.pend_lt
  · simpa [hp, ht] using h.pend_tbl
  · simpa [hp, htr] using h.pend_cl
  · simpa [hp, htr] using h.pend_ann
  · simpa [htr] using h.cl_nd
  · simpa [htr, hn] using h.cl_lt
  · simpa [htr, ht] using h.tbl_cl
  · simpa [htr, ht] using h.tbl_ann
  · simpa [htr, ht] using h.ann_dom
  · simpa [htr, ht, hp] using h.ret_dom
  · simpa [hc, hl] using h.gauge
  · simpa [htr, hn] using h.alloc_lt
  · simpa [htr] using h.alloc_sorted
  · exact h.ord.ext none (by simp [htr]) (by simp) (fun hx => ⟨by rw [hd] at hx; exact hx, by simp⟩)
      (fun hx => ⟨by rw [he] at hx; exact hx, by simp⟩) (by rw [ht, htr]; exact h.ord.cann)
  · simpa [hi, ht] using h.idx_live

theorem inv_stale {g : G} (h : Inv g) : Inv { g with stale := true } := h.frame rfl rfl rfl rfl rfl rfl rfl
theorem inv_bp {g : G} (n : Nat) (h : Inv g) : Inv { g with backpressureCloses := n } := h.frame rfl rfl rfl rfl rfl rfl rfl
theorem inv_listeners {g : G} (l : Lid → Option Nat) (h : Inv g) : Inv { g with listeners := l } := h.frame rfl rfl rfl rfl rfl rfl rfl
theorem inv_running {g : G} (b : Bool) (h : Inv g) : Inv { g with running := b } := h.frame rfl rfl rfl rfl rfl rfl rfl


theorem live_of_closed_eq {g g' : G} (sid : Sid) (h : ∀ x, x ≠ sid → g'.table x = g.table x) :
    ∀ x, x ≠ sid → live g' x = live g x := by
  intro x hx; simp [live, h x hx]

/-- removing (or marking closed) one live entry lowers the count by one -/
theorem liveCount_drop {g g' : G} (sid : Sid) (hn : g'.nextId = g.nextId) (hlt : sid < g.nextId)
    (hl : live g sid = true) (hl' : live g' sid = false) (h : ∀ x, x ≠ sid → g'.table x = g.table x) :
    liveCount g = liveCount g' + 1 := by
  unfold liveCount
  rw [hn]
  exact countP_range_flip (live g') (live g) g.nextId sid hlt hl' hl (fun x hx => live_of_closed_eq sid h x hx)

/-- adding one live entry below nextId raises the count by one -/
theorem liveCount_add {g g' : G} (sid : Sid) (hn : g'.nextId = g.nextId) (hlt : sid < g.nextId)
    (hl : live g sid = false) (hl' : live g' sid = true) (h : ∀ x, x ≠ sid → g'.table x = g.table x) :
    liveCount g' = liveCount g + 1 := by
  unfold liveCount
  rw [hn]
  exact countP_range_flip (live g) (live g') g.nextId sid hlt hl hl' (fun x hx => (live_of_closed_eq sid h x hx).symm)

theorem liveCount_same {g g' : G} (hn : g'.nextId = g.nextId) (h : ∀ x, live g' x = live g x) : liveCount g' = liveCount g := by
  unfold liveCount; rw [hn]; exact countP_range_congr _ _ _ (fun x _ => h x)

theorem eraseIdx_spec (gd : Bool) (idx : Key → Option Sid) (pk : Option Key) (sid : Sid) (k : Key) (x : Sid)
    (h : eraseIdx gd idx pk sid k = some x) : idx k = some x ∧ ¬(pk = some k ∧ x = sid) := by
  unfold eraseIdx at h
  cases pk with
  | none => simp at h; exact ⟨h, by simp⟩
  | some k0 =>
    simp only at h
    by_cases hg : gd = true
    · simp only [hg, if_true] at h
      by_cases hi : idx k0 = some sid
      · simp only [hi, if_true] at h
        by_cases ek : k = k0
        · subst ek; simp [upd] at h
        · simp [upd, ek] at h; exact ⟨h, by intro ⟨e, _⟩; cases e; exact ek rfl⟩
      · simp only [hi, if_false] at h
        refine ⟨h, ?_⟩
        intro ⟨e, ex⟩; cases e; subst ex; exact hi h
    · simp only [hg] at h
      by_cases ek : k = k0
      · subst ek; simp [upd] at h
      · simp [upd, ek] at h; exact ⟨h, by intro ⟨e, _⟩; cases e; exact ek rfl⟩

/-- a live table entry `sid` is closed: removed from the table (closeNow) or kept with the closed flag (shutdown drain) -/
theorem Inv.close_step {g g' : G} (h : Inv g) (sid : Sid) (s : Sess) (site : Site)
    (hs : g.table sid = some s) (hcf : s.closed = false)
    (ht : ∀ x, x ≠ sid → g'.table x = g.table x)
    (hts : g'.table sid = none ∨ g'.table sid = some { s with closed := true })
    (hn : g'.nextId = g.nextId) (hp : pend g' = pend g) (htr : g'.tr = g.tr ++ [.close sid site])
    (hc : g'.current = g.current - 1) (he : g'.envBad = g.envBad)
    (hi : ∀ k x, g'.index k = some x → g.index k = some x ∧ ¬(s.pkey = some k ∧ x = sid))
    (hd : g'.dupAnn = g.dupAnn := by rfl) : Inv g' := by
  have hcl : sid ∉ closesOf g.tr := fun hm => by have := (h.tbl_cl sid s hs).2 hm; simp [hcf] at this
  have hlt : sid < g.nextId := h.tbl_lt sid s hs
  have hnp : sid ∉ pend g := fun hm => by have := h.pend_tbl sid hm; simp [hs] at this
  have hcl' : closesOf g'.tr = closesOf g.tr ++ [sid] := by simp [htr, closeSid]
  have han' : annOf g'.tr = annOf g.tr := by simp [htr, annSid]
  have hre' : retOf g'.tr = retOf g.tr := by simp [htr, retSid]
  have hal' : allocsOf g'.tr = allocsOf g.tr := by simp [htr, allocSid]
  constructor
  · intro x s' hx
    rw [hn]
    by_cases e : x = sid
    · subst e; exact hlt
    · rw [ht x e] at hx; exact h.tbl_lt x s' hx
  · rw [hp]; exact h.pend_nd
  · rw [hp, hn]; exact h.pend_lt
  · intro x hx; rw [hp] at hx
    have e : x ≠ sid := fun e => hnp (e ▸ hx)
    rw [ht x e]; exact h.pend_tbl x hx
  · intro x hx; rw [hp] at hx
    have e : x ≠ sid := fun e => hnp (e ▸ hx)
    rw [hcl']; simp [e]; exact h.pend_cl x hx
  · intro x hx; rw [hp] at hx; rw [han']; exact h.pend_ann x hx
  · rw [hcl', List.nodup_append]
    exact ⟨h.cl_nd, by simp, by intro a ha b hb; simp at hb; subst hb; exact fun e => hcl (e ▸ ha)⟩
  · intro x hx; rw [hcl'] at hx; rw [hn]; simp at hx
    rcases hx with hx | hx
    · exact h.cl_lt x hx
    · subst hx; exact hlt
  · intro x s' hx
    rw [hcl']
    by_cases e : x = sid
    · subst e
      rcases hts with hts | hts
      · rw [hts] at hx; cases hx
      · rw [hts] at hx; cases hx; simp
    · rw [ht x e] at hx; simp [e]; exact h.tbl_cl x s' hx
  · intro x s' hx
    rw [han']
    by_cases e : x = sid
    · subst e
      rcases hts with hts | hts
      · rw [hts] at hx; cases hx
      · rw [hts] at hx; cases hx
        have := h.tbl_ann x s hs
        simpa [Sess.announced] using this
    · rw [ht x e] at hx; exact h.tbl_ann x s' hx
  · intro x hx; rw [han'] at hx; rw [hcl']
    by_cases e : x = sid
    · right; simp [e]
    · rcases h.ann_dom x hx with ⟨s', hs'⟩ | hc'
      · left; exact ⟨s', by rw [ht x e]; exact hs'⟩
      · right; simp [hc']
  · intro x hx; rw [hre'] at hx; rw [hcl', hp]
    by_cases e : x = sid
    · right; right; simp [e]
    · rcases h.ret_dom x hx with hp' | ⟨s', hs'⟩ | hc'
      · left; exact hp'
      · right; left; exact ⟨s', by rw [ht x e]; exact hs'⟩
      · right; right; simp [hc']
  · have hl : live g sid = true := by simp [live, hs, hcf]
    have hl' : live g' sid = false := by
      rcases hts with hts | hts <;> simp [live, hts]
    have := liveCount_drop sid hn hlt hl hl' ht
    rw [hc, h.gauge, this]; simp
  · rw [hal', hn]; exact h.alloc_lt
  · rw [hal']; exact h.alloc_sorted
  · refine h.ord.ext (some (.close sid site)) (by simp [htr]) ?_ (fun hx => ⟨by rw [hd] at hx; exact hx, by intro x e; cases e; trivial⟩)
      (fun hx => ⟨by rw [he] at hx; exact hx, by intro x e; cases e; trivial⟩) ?_
    · intro x e; cases e; intro y hy; cases hy; exact hcl
    · refine h.ord.cann_keep (some (.close sid site)) (by simp [htr]) (by intro y e; cases e) ?_
      intro x s' hx
      by_cases e : x = sid
      · subst e
        rcases hts with hts | hts
        · rw [hts] at hx; cases hx
        · rw [hts] at hx; cases hx; exact Or.inl ⟨s, hs, rfl⟩
      · rw [ht x e] at hx; exact Or.inl ⟨s', hx, rfl⟩
  · intro k x hx
    obtain ⟨hx0, hne⟩ := hi k x hx
    obtain ⟨s', hs', h1, h2, h3⟩ := h.idx_live k x hx0
    have e : x ≠ sid := by
      intro e; subst e; rw [hs] at hs'; cases hs'; exact hne ⟨h3, rfl⟩
    exact ⟨s', by rw [ht x e]; exact hs', h1, h2, h3⟩

theorem inv_closeNow (sid : Sid) (site : Site) {g : G} (h : Inv g) : Inv (closeNow sid site g) := by
  unfold closeNow
  split
  · exact h
  · rename_i s hs
    split
    · exact h
    · rename_i hc
      have hcf : s.closed = false := by cases e : s.closed <;> simp_all
      refine h.close_step sid s site hs hcf ?_ ?_ rfl ?_ ?_ rfl rfl ?_
      · intro x hx; simp [emit, upd, hx]
      · left; simp [emit, upd]
      · simp [emit, pend]
      · simp [emit]
      · intro k x hx; exact eraseIdx_spec _ _ _ _ _ _ (by simpa [emit] using hx)


/-- a pending connect request (head of `pend`) fails: its close is delivered, nothing was inserted -/
theorem Inv.fail_step {g g' : G} (h : Inv g) (sid : Sid) (rest : List Sid) (site : Site)
    (hp : pend g = sid :: rest) (hp' : pend g' = rest) (ht : g'.table = g.table) (hn : g'.nextId = g.nextId)
    (htr : g'.tr = g.tr ++ [.close sid site]) (hc : g'.current = g.current) (he : g'.envBad = g.envBad)
    (hi : g'.index = g.index) (hd : g'.dupAnn = g.dupAnn := by rfl) : Inv g' := by
  have hmem : sid ∈ pend g := by simp [hp]
  have hnd := h.pend_nd
  rw [hp] at hnd
  obtain ⟨hnr, hndr⟩ := List.nodup_cons.1 hnd
  have hsub : ∀ x, x ∈ rest → x ∈ pend g := fun x hx => by simp [hp, hx]
  have hcl : sid ∉ closesOf g.tr := h.pend_cl sid hmem
  have htn : g.table sid = none := h.pend_tbl sid hmem
  have hcl' : closesOf g'.tr = closesOf g.tr ++ [sid] := by simp [htr, closeSid]
  have han' : annOf g'.tr = annOf g.tr := by simp [htr, annSid]
  have hre' : retOf g'.tr = retOf g.tr := by simp [htr, retSid]
  have hal' : allocsOf g'.tr = allocsOf g.tr := by simp [htr, allocSid]
  have hlv : live g' = live g := by funext x; simp [live, ht]
  have hl : liveCount g' = liveCount g := by simp [liveCount, hlv, hn]
  constructor
  · rw [ht, hn]; exact h.tbl_lt
  · rw [hp']; exact hndr
  · intro x hx; rw [hp'] at hx; rw [hn]; exact h.pend_lt x (hsub x hx)
  · intro x hx; rw [hp'] at hx; rw [ht]; exact h.pend_tbl x (hsub x hx)
  · intro x hx; rw [hp'] at hx; rw [hcl']
    have e : x ≠ sid := fun e => hnr (e ▸ hx)
    simp [e]; exact h.pend_cl x (hsub x hx)
  · intro x hx; rw [hp'] at hx; rw [han']; exact h.pend_ann x (hsub x hx)
  · rw [hcl', List.nodup_append]
    exact ⟨h.cl_nd, by simp, by intro a ha b hb; simp at hb; subst hb; exact fun e => hcl (e ▸ ha)⟩
  · intro x hx; rw [hcl'] at hx; rw [hn]; simp at hx
    rcases hx with hx | hx
    · exact h.cl_lt x hx
    · subst hx; exact h.pend_lt x hmem
  · intro x s' hx; rw [ht] at hx; rw [hcl']
    have e : x ≠ sid := fun e => by subst e; rw [htn] at hx; cases hx
    simp [e]; exact h.tbl_cl x s' hx
  · intro x s' hx; rw [ht] at hx; rw [han']; exact h.tbl_ann x s' hx
  · intro x hx; rw [han'] at hx; rw [hcl', ht]
    rcases h.ann_dom x hx with hl | hr
    · left; exact hl
    · right; simp [hr]
  · intro x hx; rw [hre'] at hx; rw [hcl', hp', ht]
    rcases h.ret_dom x hx with hpd | hl | hr
    · rw [hp] at hpd; simp at hpd
      rcases hpd with e | hr
      · right; right; simp [e]
      · left; exact hr
    · right; left; exact hl
    · right; right; simp [hr]
  · rw [hc, hl]; exact h.gauge
  · rw [hal', hn]; exact h.alloc_lt
  · rw [hal']; exact h.alloc_sorted
  · refine h.ord.ext (some (.close sid site)) (by simp [htr]) ?_ (fun hx => ⟨by rw [hd] at hx; exact hx, by intro x e; cases e; trivial⟩)
      (fun hx => ⟨by rw [he] at hx; exact hx, by intro x e; cases e; trivial⟩) ?_
    · intro x e; cases e; intro y hy; cases hy; exact hcl
    · refine h.ord.cann_keep (some (.close sid site)) (by simp [htr]) (by intro y e; cases e) ?_
      intro x s' hx; rw [ht] at hx; exact Or.inl ⟨s', hx, rfl⟩
  · rw [hi, ht]; exact h.idx_live

theorem inv_failConnect (site : Site) {g : G} (h : Inv g) : Inv (failConnect site g) := by
  unfold failConnect
  split
  · exact inv_stale h
  · rename_i sid hcur
    exact h.fail_step sid (connSids g.batch ++ connSids g.queue) site (by simp [pend, hcur]) (by simp [emit, pend]) rfl rfl
      (by simp [emit]) rfl rfl rfl

/-- the pending connect request at the head of `pend` succeeds: a client session enters the table, not yet announced -/
theorem Inv.insert_step {g g' : G} (h : Inv g) (sid : Sid) (rest : List Sid) (s0 : Sess)
    (hp : pend g = sid :: rest) (hp' : pend g' = rest)
    (ht : ∀ x, x ≠ sid → g'.table x = g.table x) (hts : g'.table sid = some s0)
    (h0c : s0.closed = false) (h0a : s0.announced = false) (h0n : s0.connAnnounced = false)
    (hn : g'.nextId = g.nextId) (htr : g'.tr = g.tr) (hc : g'.current = g.current + 1) (he : g'.envBad = g.envBad)
    (hi : g'.index = g.index) (hd : g'.dupAnn = g.dupAnn := by rfl) : Inv g' := by
  have hmem : sid ∈ pend g := by simp [hp]
  have hnd := h.pend_nd
  rw [hp] at hnd
  obtain ⟨hnr, hndr⟩ := List.nodup_cons.1 hnd
  have hsub : ∀ x, x ∈ rest → x ∈ pend g := fun x hx => by simp [hp, hx]
  have htn : g.table sid = none := h.pend_tbl sid hmem
  have hlt : sid < g.nextId := h.pend_lt sid hmem
  constructor
  · intro x s' hx; rw [hn]
    by_cases e : x = sid
    · subst e; exact hlt
    · rw [ht x e] at hx; exact h.tbl_lt x s' hx
  · rw [hp']; exact hndr
  · intro x hx; rw [hp'] at hx; rw [hn]; exact h.pend_lt x (hsub x hx)
  · intro x hx; rw [hp'] at hx
    have e : x ≠ sid := fun e => hnr (e ▸ hx)
    rw [ht x e]; exact h.pend_tbl x (hsub x hx)
  · intro x hx; rw [hp'] at hx; rw [htr]; exact h.pend_cl x (hsub x hx)
  · intro x hx; rw [hp'] at hx; rw [htr]; exact h.pend_ann x (hsub x hx)
  · rw [htr]; exact h.cl_nd
  · rw [htr, hn]; exact h.cl_lt
  · intro x s' hx; rw [htr]
    by_cases e : x = sid
    · subst e; rw [hts] at hx; cases hx
      have := h.pend_cl x hmem
      simp [h0c, this]
    · rw [ht x e] at hx; exact h.tbl_cl x s' hx
  · intro x s' hx; rw [htr]
    by_cases e : x = sid
    · subst e; rw [hts] at hx; cases hx
      have := h.pend_ann x hmem
      simp [h0a, this]
    · rw [ht x e] at hx; exact h.tbl_ann x s' hx
  · intro x hx; rw [htr] at hx ⊢
    rcases h.ann_dom x hx with ⟨s', hs'⟩ | hr
    · left
      by_cases e : x = sid
      · exact ⟨s0, e ▸ hts⟩
      · exact ⟨s', by rw [ht x e]; exact hs'⟩
    · right; exact hr
  · intro x hx; rw [htr] at hx ⊢; rw [hp']
    rcases h.ret_dom x hx with hpd | ⟨s', hs'⟩ | hr
    · rw [hp] at hpd; simp at hpd
      rcases hpd with e | hr
      · right; left; exact ⟨s0, e ▸ hts⟩
      · left; exact hr
    · right; left
      by_cases e : x = sid
      · exact ⟨s0, e ▸ hts⟩
      · exact ⟨s', by rw [ht x e]; exact hs'⟩
    · right; right; exact hr
  · have hl : live g sid = false := by simp [live, htn]
    have hl' : live g' sid = true := by simp [live, hts, h0c]
    have := liveCount_add sid hn hlt hl hl' ht
    rw [hc, h.gauge, this]; simp
  · rw [htr, hn]; exact h.alloc_lt
  · rw [htr]; exact h.alloc_sorted
  · refine h.ord.ext none (by simp [htr]) (by simp) (fun hx => ⟨by rw [hd] at hx; exact hx, by simp⟩)
      (fun hx => ⟨by rw [he] at hx; exact hx, by simp⟩) ?_
    refine h.ord.cann_keep none (by simp [htr]) (by simp) ?_
    intro x s' hx
    by_cases e : x = sid
    · subst e; rw [hts] at hx; cases hx; exact Or.inr ⟨h0n, h.pend_ann x hmem⟩
    · rw [ht x e] at hx; exact Or.inl ⟨s', hx, rfl⟩
  · intro k x hx; rw [hi] at hx
    obtain ⟨s', hs', h1, h2, h3⟩ := h.idx_live k x hx
    have e : x ≠ sid := fun e => by subst e; rw [htn] at hs'; cases hs'
    exact ⟨s', by rw [ht x e]; exact hs', h1, h2, h3⟩

theorem inv_insertCur (t : Bool) (k : Option Key) (o : Lid) {g : G} (h : Inv g) : Inv (insertCur t k o g) := by
  unfold insertCur
  split
  · exact inv_stale h
  · rename_i sid hcur
    exact h.insert_step sid (connSids g.batch ++ connSids g.queue)
      { client := true, connectPending := true, tls := if t then .handshake else .none, pkey := k, owner := o } (by simp [pend, hcur]) (by simp [pend])
      (by intro x hx; simp [upd, hx]) (by simp [upd]) rfl (by simp [Sess.announced]) rfl rfl rfl rfl rfl rfl

/-- a fresh id is allocated on the I/O thread, its session inserted and announced by the accept callback -/
theorem Inv.accept_step {g g' : G} (h : Inv g) (s0 : Sess)
    (hn : g'.nextId = g.nextId + 1) (hp : pend g' = pend g)
    (ht : ∀ x, x ≠ g.nextId → g'.table x = g.table x) (hts : g'.table g.nextId = some s0)
    (h0c : s0.closed = false) (h0a : s0.announced = true) (h0n : s0.connAnnounced = false)
    (htr : g'.tr = g.tr ++ [.announce g.nextId .accept]) (hc : g'.current = g.current + 1) (he : g'.envBad = g.envBad)
    (hd : g'.dupAnn = g.dupAnn)
    (hi : ∀ k x, g'.index k = some x → g.index k = some x ∨ (x = g.nextId ∧ s0.pkey = some k)) : Inv g' := by
  have htn : g.table g.nextId = none := h.fresh_tbl
  have hnp : g.nextId ∉ pend g := fun hm => Nat.lt_irrefl _ (h.pend_lt _ hm)
  have hncl : g.nextId ∉ closesOf g.tr := fun hm => Nat.lt_irrefl _ (h.cl_lt _ hm)
  have hnan : g.nextId ∉ annOf g.tr := fun hm => Nat.lt_irrefl _ (h.ann_lt _ hm)
  have hcl' : closesOf g'.tr = closesOf g.tr := by simp [htr, closeSid]
  have han' : annOf g'.tr = annOf g.tr ++ [g.nextId] := by simp [htr, annSid]
  have hre' : retOf g'.tr = retOf g.tr := by simp [htr, retSid]
  have hal' : allocsOf g'.tr = allocsOf g.tr ++ [g.nextId] := by simp [htr, allocSid]
  constructor
  · intro x s' hx; rw [hn]
    by_cases e : x = g.nextId
    · exact e ▸ Nat.lt_succ_self _
    · rw [ht x e] at hx; exact Nat.lt_succ_of_lt (h.tbl_lt x s' hx)
  · rw [hp]; exact h.pend_nd
  · intro x hx; rw [hp] at hx; rw [hn]; exact Nat.lt_succ_of_lt (h.pend_lt x hx)
  · intro x hx; rw [hp] at hx
    have e : x ≠ g.nextId := fun e => hnp (e ▸ hx)
    rw [ht x e]; exact h.pend_tbl x hx
  · intro x hx; rw [hp] at hx; rw [hcl']; exact h.pend_cl x hx
  · intro x hx; rw [hp] at hx; rw [han']
    have e : x ≠ g.nextId := fun e => hnp (e ▸ hx)
    simp [e]; exact h.pend_ann x hx
  · rw [hcl']; exact h.cl_nd
  · intro x hx; rw [hcl'] at hx; rw [hn]; exact Nat.lt_succ_of_lt (h.cl_lt x hx)
  · intro x s' hx; rw [hcl']
    by_cases e : x = g.nextId
    · subst e; rw [hts] at hx; cases hx; simp [h0c, hncl]
    · rw [ht x e] at hx; exact h.tbl_cl x s' hx
  · intro x s' hx; rw [han']
    by_cases e : x = g.nextId
    · subst e; rw [hts] at hx; cases hx; simp [h0a]
    · rw [ht x e] at hx; simp [e]; exact h.tbl_ann x s' hx
  · intro x hx; rw [han'] at hx; rw [hcl']; simp at hx
    rcases hx with hx | hx
    · rcases h.ann_dom x hx with ⟨s', hs'⟩ | hr
      · left
        have e : x ≠ g.nextId := fun e => by subst e; rw [htn] at hs'; cases hs'
        exact ⟨s', by rw [ht x e]; exact hs'⟩
      · right; exact hr
    · left; exact ⟨s0, hx ▸ hts⟩
  · intro x hx; rw [hre'] at hx; rw [hcl', hp]
    rcases h.ret_dom x hx with hpd | ⟨s', hs'⟩ | hr
    · left; exact hpd
    · right; left
      have e : x ≠ g.nextId := fun e => by subst e; rw [htn] at hs'; cases hs'
      exact ⟨s', by rw [ht x e]; exact hs'⟩
    · right; right; exact hr
  · have hlv : ∀ x, x < g.nextId → live g' x = live g x := by
      intro x hx; simp [live, ht x (Nat.ne_of_lt hx)]
    have hl' : live g' g.nextId = true := by simp [live, hts, h0c]
    rw [hc, h.gauge]
    unfold liveCount
    rw [hn, List.range_succ, List.countP_append, countP_range_congr _ _ _ hlv]
    simp [hl']
  · intro x hx; rw [hal'] at hx; rw [hn]; simp at hx
    rcases hx with hx | hx
    · exact Nat.lt_succ_of_lt (h.alloc_lt x hx)
    · exact hx ▸ Nat.lt_succ_self _
  · rw [hal', List.pairwise_append]
    exact ⟨h.alloc_sorted, by simp, by intro a ha b hb; simp at hb; subst hb; exact h.alloc_lt a ha⟩
  · refine h.ord.ext (some (.announce g.nextId .accept)) (by simp [htr]) ?_
      (fun hx => ⟨by rw [hd] at hx; exact hx, by intro x e; cases e; exact fun hm => hnan (mem_annOf_of_mem hm)⟩)
      (fun hx => ⟨by rw [he] at hx; exact hx, by intro x e; cases e; trivial⟩) ?_
    · intro x e; cases e; intro y hy; cases hy; exact hncl
    · refine h.ord.cann_keep (some (.announce g.nextId .accept)) (by simp [htr]) (by intro y e; cases e) ?_
      intro x s' hx
      by_cases e : x = g.nextId
      · subst e; rw [hts] at hx; cases hx; exact Or.inr ⟨h0n, hnan⟩
      · rw [ht x e] at hx; exact Or.inl ⟨s', hx, rfl⟩
  · intro k x hx
    rcases hi k x hx with hx0 | ⟨ex, hk⟩
    · obtain ⟨s', hs', h1, h2, h3⟩ := h.idx_live k x hx0
      have e : x ≠ g.nextId := fun e => by subst e; rw [htn] at hs'; cases hs'
      exact ⟨s', by rw [ht x e]; exact hs', h1, h2, h3⟩
    · subst ex; exact ⟨s0, hts, h0c, h0a, hk⟩

theorem inv_acceptFresh (t : Tls) (k : Option Key) (o : Lid) {g : G} (h : Inv g) : Inv (acceptFresh t k o g).1 := by
  unfold acceptFresh
  refine h.accept_step { tls := t, pkey := k, owner := o } rfl (by simp [emit, pend]) ?_ (by simp [emit, upd]) rfl (by simp [Sess.announced]) rfl
    (by simp [emit]) rfl rfl rfl ?_
  · intro x hx; simp [emit, upd, hx]
  · intro k' x hx
    simp only [emit] at hx
    cases k with
    | none => left; simpa using hx
    | some k0 =>
      simp only at hx
      by_cases ek : k' = k0
      · subst ek; simp [upd] at hx; right; exact ⟨hx.symm, rfl⟩
      · simp [upd, ek] at hx; left; exact hx

theorem inv_burnId {g : G} (h : Inv g) : Inv (burnId g) := by
  unfold burnId
  have htn : g.table g.nextId = none := h.fresh_tbl
  constructor
  · intro x s' hx; exact Nat.lt_succ_of_lt (h.tbl_lt x s' hx)
  · exact h.pend_nd
  · intro x hx; exact Nat.lt_succ_of_lt (h.pend_lt x hx)
  · exact h.pend_tbl
  · exact h.pend_cl
  · exact h.pend_ann
  · exact h.cl_nd
  · intro x hx; exact Nat.lt_succ_of_lt (h.cl_lt x hx)
  · exact h.tbl_cl
  · exact h.tbl_ann
  · exact h.ann_dom
  · exact h.ret_dom
  · have : liveCount { g with nextId := g.nextId + 1 } = liveCount g := by
      unfold liveCount
      simp only
      rw [List.range_succ, List.countP_append]
      have hl : live g g.nextId = false := by simp [live, htn]
      have hlv : live { g with nextId := g.nextId + 1 } = live g := by funext x; simp [live]
      simp [hl, hlv]
    rw [this]; exact h.gauge
  · intro x hx; exact Nat.lt_succ_of_lt (h.alloc_lt x hx)
  · exact h.alloc_sorted
  · exact ⟨h.ord.closed, h.ord.once, h.ord.data, h.ord.cann⟩
  · exact h.idx_live

/-- an entry of the table is replaced by one with the same closed flag, peer key and at least the same announcement;
the trace gains `outs` (an announce for this id, a data event, or nothing) -/
theorem Inv.update_step {g g' : G} (h : Inv g) (sid : Sid) (s s' : Sess)
    (hs : g.table sid = some s) (hcf : s.closed = false)
    (ht : ∀ x, x ≠ sid → g'.table x = g.table x) (hts : g'.table sid = some s')
    (hcl : s'.closed = false) (hpk : s'.pkey = s.pkey)
    (hn : g'.nextId = g.nextId) (hp : pend g' = pend g) (hc : g'.current = g.current) (hi : g'.index = g.index)
    (o : Option Out) (htr : g'.tr = g.tr ++ o.toList)
    (hcase : (o = none ∧ s'.announced = s.announced ∧ g'.envBad = g.envBad ∧ s'.connAnnounced = s.connAnnounced ∧ g'.dupAnn = g.dupAnn) ∨
             (o = some (.announce sid .connect) ∧ s'.announced = true ∧ g'.envBad = g.envBad ∧ s'.connAnnounced = true ∧
                g'.dupAnn = (g.dupAnn || s.connAnnounced)) ∨
             (o = some (.data sid) ∧ s'.announced = s.announced ∧ g'.envBad = (g.envBad || !s.announced) ∧
                s'.connAnnounced = s.connAnnounced ∧ g'.dupAnn = g.dupAnn)) : Inv g' := by
  have hncl : sid ∉ closesOf g.tr := fun hm => by have := (h.tbl_cl sid s hs).2 hm; simp [hcf] at this
  have hnp : sid ∉ pend g := fun hm => by have := h.pend_tbl sid hm; simp [hs] at this
  have hcl' : closesOf g'.tr = closesOf g.tr := by
    rcases hcase with ⟨e, _⟩ | ⟨e, _⟩ | ⟨e, _⟩ <;> simp [htr, e, closeSid]
  have hre' : retOf g'.tr = retOf g.tr := by
    rcases hcase with ⟨e, _⟩ | ⟨e, _⟩ | ⟨e, _⟩ <;> simp [htr, e, retSid]
  have hal' : allocsOf g'.tr = allocsOf g.tr := by
    rcases hcase with ⟨e, _⟩ | ⟨e, _⟩ | ⟨e, _⟩ <;> simp [htr, e, allocSid]
  have han' : ∀ x, x ∈ annOf g'.tr ↔ (x ∈ annOf g.tr ∨ (x = sid ∧ o = some (.announce sid .connect))) := by
    intro x
    rcases hcase with ⟨e, _⟩ | ⟨e, _⟩ | ⟨e, _⟩ <;> simp [htr, e, annSid]
  have hann_sid : s'.announced = true ↔ sid ∈ annOf g'.tr := by
    rw [han']
    rcases hcase with ⟨e, ha, _⟩ | ⟨e, ha, _⟩ | ⟨e, ha, _⟩
    · simp [e, ha]; exact h.tbl_ann sid s hs
    · simp [e, ha]
    · simp [e, ha]; exact h.tbl_ann sid s hs
  have hlv : ∀ x, live g' x = live g x := by
    intro x
    by_cases e : x = sid
    · subst e; simp [live, hts, hs, hcl, hcf]
    · simp [live, ht x e]
  constructor
  · intro x s'' hx; rw [hn]
    by_cases e : x = sid
    · subst e; exact h.tbl_lt x s hs
    · rw [ht x e] at hx; exact h.tbl_lt x s'' hx
  · rw [hp]; exact h.pend_nd
  · rw [hp, hn]; exact h.pend_lt
  · intro x hx; rw [hp] at hx
    have e : x ≠ sid := fun e => hnp (e ▸ hx)
    rw [ht x e]; exact h.pend_tbl x hx
  · intro x hx; rw [hp] at hx; rw [hcl']; exact h.pend_cl x hx
  · intro x hx; rw [hp] at hx; rw [han']
    have e : x ≠ sid := fun e => hnp (e ▸ hx)
    simp [e]; exact h.pend_ann x hx
  · rw [hcl']; exact h.cl_nd
  · rw [hcl', hn]; exact h.cl_lt
  · intro x s'' hx; rw [hcl']
    by_cases e : x = sid
    · subst e; rw [hts] at hx; cases hx; simp [hcl, hncl]
    · rw [ht x e] at hx; exact h.tbl_cl x s'' hx
  · intro x s'' hx
    by_cases e : x = sid
    · subst e; rw [hts] at hx; cases hx; exact hann_sid
    · rw [ht x e] at hx; rw [han']; simp [e]; exact h.tbl_ann x s'' hx
  · intro x hx; rw [han'] at hx; rw [hcl']
    rcases hx with hx | ⟨ex, _⟩
    · rcases h.ann_dom x hx with ⟨s'', hs''⟩ | hr
      · left
        by_cases e : x = sid
        · exact ⟨s', e ▸ hts⟩
        · exact ⟨s'', by rw [ht x e]; exact hs''⟩
      · right; exact hr
    · left; exact ⟨s', ex ▸ hts⟩
  · intro x hx; rw [hre'] at hx; rw [hcl', hp]
    rcases h.ret_dom x hx with hpd | ⟨s'', hs''⟩ | hr
    · left; exact hpd
    · right; left
      by_cases e : x = sid
      · exact ⟨s', e ▸ hts⟩
      · exact ⟨s'', by rw [ht x e]; exact hs''⟩
    · right; right; exact hr
  · rw [hc, liveCount_same hn hlv]; exact h.gauge
  · rw [hal', hn]; exact h.alloc_lt
  · rw [hal']; exact h.alloc_sorted
  · rcases hcase with ⟨e, _, hb, hca, hdd⟩ | ⟨e, _, hb, hca, hdd⟩ | ⟨e, _, hb, hca, hdd⟩
    · subst e
      refine h.ord.ext none htr (by simp) (fun hx => ⟨by rw [hdd] at hx; exact hx, by simp⟩)
        (fun hx => ⟨by rw [hb] at hx; exact hx, by simp⟩) ?_
      refine h.ord.cann_keep none htr (by simp) ?_
      intro x s'' hx
      by_cases ex : x = sid
      · subst ex; rw [hts] at hx; cases hx; exact Or.inl ⟨s, hs, hca.symm⟩
      · rw [ht x ex] at hx; exact Or.inl ⟨s'', hx, rfl⟩
    · subst e
      have htr' : g'.tr = g.tr ++ [.announce sid .connect] := by simpa using htr
      refine h.ord.ext (some (.announce sid .connect)) htr ?_ ?_ (fun hx => ⟨by rw [hb] at hx; exact hx, by intro x e; cases e; trivial⟩) ?_
      · intro x e; cases e; intro y hy; cases hy; exact hncl
      · intro hx
        rw [hdd] at hx
        have h1 : g.dupAnn = false := by cases hb1 : g.dupAnn <;> simp_all
        have h2 : s.connAnnounced = false := by cases hb2 : s.connAnnounced <;> simp_all
        refine ⟨h1, ?_⟩
        intro x e; cases e
        intro hm
        have := (h.ord.cann sid s hs).2 hm
        rw [h2] at this; cases this
      · intro x s'' hx
        rw [htr']
        by_cases ex : x = sid
        · subst ex; rw [hts] at hx; cases hx; simp [hca]
        · rw [ht x ex] at hx
          simp only [List.mem_append, List.mem_singleton]
          rw [h.ord.cann x s'' hx]
          constructor
          · exact Or.inl
          · rintro (h1 | h1)
            · exact h1
            · cases h1; exact absurd rfl ex
    · subst e
      refine h.ord.ext (some (.data sid)) htr ?_ (fun hx => ⟨by rw [hdd] at hx; exact hx, by intro x e; cases e; trivial⟩) ?_ ?_
      · intro x e; cases e; intro y hy; cases hy; exact hncl
      · intro hx
        rw [hb] at hx
        have h1 : g.envBad = false := by cases hb1 : g.envBad <;> simp_all
        have h2 : s.announced = true := by cases hb2 : s.announced <;> simp_all
        exact ⟨h1, by intro x e; cases e; exact (h.tbl_ann sid s hs).1 h2⟩
      · refine h.ord.cann_keep (some (.data sid)) htr (by intro y e; cases e) ?_
        intro x s'' hx
        by_cases ex : x = sid
        · subst ex; rw [hts] at hx; cases hx; exact Or.inl ⟨s, hs, hca.symm⟩
        · rw [ht x ex] at hx; exact Or.inl ⟨s'', hx, rfl⟩
  · intro k x hx; rw [hi] at hx
    obtain ⟨s'', hs'', h1, h2, h3⟩ := h.idx_live k x hx
    by_cases e : x = sid
    · subst e; rw [hs] at hs''; cases hs''
      refine ⟨s', hts, hcl, ?_, by rw [hpk]; exact h3⟩
      rcases hcase with ⟨_, ha, _⟩ | ⟨_, ha, _⟩ | ⟨_, ha, _⟩
      · rw [ha]; exact h2
      · exact ha
      · rw [ha]; exact h2
    · exact ⟨s'', by rw [ht x e]; exact hs'', h1, h2, h3⟩


theorem inv_announceConnect (sid : Sid) (c : Bool) {g : G} (h : Inv g) : Inv (announceConnect sid g c) := by
  unfold announceConnect withLive
  split
  · exact inv_stale h
  · rename_i s hs
    split
    · exact inv_stale h
    · rename_i hc
      have hcf : s.closed = false := by cases e : s.closed <;> simp_all
      refine h.update_step sid s { s with connectPending := false, connAnnounced := true, tls := if s.tls = .handshake then .opened else s.tls }
        hs hcf ?_ (by simp [emit, upd]) hcf rfl rfl (by simp [emit, pend]) rfl rfl
        (some (.announce sid .connect)) (by simp [emit]) ?_
      · intro x hx; simp [emit, upd, hx]
      · right; left; exact ⟨rfl, by simp [Sess.announced], rfl, rfl, rfl⟩

theorem inv_dataCb (sid : Sid) {g : G} (h : Inv g) : Inv (dataCb sid g) := by
  unfold dataCb withLive
  split
  · exact inv_stale h
  · rename_i s hs
    split
    · exact inv_stale h
    · rename_i hc
      have hcf : s.closed = false := by cases e : s.closed <;> simp_all
      refine h.update_step sid s s hs hcf ?_ (by simp [emit, hs]) hcf rfl rfl (by simp [emit, pend]) rfl rfl
        (some (.data sid)) (by simp [emit]) ?_
      · intro x _; simp [emit]
      · right; right; exact ⟨rfl, rfl, by simp [emit], rfl, rfl⟩

theorem inv_setWq (sid : Sid) (n : Nat) {g : G} (h : Inv g) : Inv (setWq sid n g) := by
  unfold setWq withLive
  split
  · exact inv_stale h
  · rename_i s hs
    split
    · exact inv_stale h
    · rename_i hc
      have hcf : s.closed = false := by cases e : s.closed <;> simp_all
      refine h.update_step sid s { s with wq := n } hs hcf ?_ (by simp [upd]) hcf rfl rfl (by simp [pend]) rfl rfl none (by simp) ?_
      · intro x hx; simp [upd, hx]
      · left; exact ⟨rfl, by simp [Sess.announced], rfl, rfl, rfl⟩

/-- only the peer index changes, and every new entry points at a live announced session with that key -/
theorem Inv.index_step {g g' : G} (h : Inv g) (ht : g'.table = g.table) (hn : g'.nextId = g.nextId) (hp : pend g' = pend g)
    (htr : g'.tr = g.tr) (hc : g'.current = g.current) (he : g'.envBad = g.envBad)
    (hi : ∀ k sid, g'.index k = some sid → ∃ s, g.table sid = some s ∧ s.closed = false ∧ s.announced = true ∧ s.pkey = some k)
    (hd : g'.dupAnn = g.dupAnn := by rfl) : Inv g' := by
  have h0 : Inv { g with index := g'.index } := by
    have hb := h
    constructor
    · exact hb.tbl_lt
    · exact hb.pend_nd
    · exact hb.pend_lt
    · exact hb.pend_tbl
    · exact hb.pend_cl
    · exact hb.pend_ann
    · exact hb.cl_nd
    · exact hb.cl_lt
    · exact hb.tbl_cl
    · exact hb.tbl_ann
    · exact hb.ann_dom
    · exact hb.ret_dom
    · have : liveCount { g with index := g'.index } = liveCount g := liveCount_same rfl (fun x => by simp [live])
      rw [this]; exact hb.gauge
    · exact hb.alloc_lt
    · exact hb.alloc_sorted
    · exact ⟨hb.ord.closed, hb.ord.once, hb.ord.data, hb.ord.cann⟩
    · exact hi
  exact h0.frame ht hn (by simpa [pend] using hp) htr hc he rfl hd

theorem inv_viaIndex (sid : Sid) (k : Key) {g : G} (h : Inv g) : Inv (viaIndex sid k g) := by
  unfold viaIndex withLive
  split
  · exact inv_stale h
  · rename_i s hs
    split
    · exact inv_stale h
    · rename_i hc
      have hcf : s.closed = false := by cases e : s.closed <;> simp_all
      simp only []
      split
      · rename_i hg
        refine h.index_step rfl rfl (by simp [pend]) rfl rfl rfl ?_
        intro k' x hx
        by_cases ek : k' = k
        · subst ek; simp [upd] at hx; subst hx; exact ⟨s, hs, hcf, hg.1, hg.2.1⟩
        · simp [upd, ek] at hx; exact h.idx_live k' x hx
      · exact h

theorem inv_popCmd {g : G} (h : Inv g) (hcur : g.cur = none) : Inv (popCmd g).2 := by
  unfold popCmd
  split
  · exact h
  · rename_i c rest hb
    cases c <;> simp only <;>
      exact h.frame rfl rfl (by simp [pend, hcur, hb, connSid]) rfl rfl rfl rfl

instance : Closed0 Inv where
  closeNow := fun sid site _ h => inv_closeNow sid site h
  failConnect := fun site _ h => inv_failConnect site h
  insertCur := fun t k o _ h => inv_insertCur t k o h
  acceptFresh := fun t k o _ h => inv_acceptFresh t k o h
  burnId := fun _ h => inv_burnId h
  announceConnect := fun sid c _ h => inv_announceConnect sid c h
  dataCb := fun sid _ h => inv_dataCb sid h
  setWq := fun sid n _ h => inv_setWq sid n h
  viaIndex := fun sid k _ h => inv_viaIndex sid k h
  stale := fun _ h => inv_stale h
  bp := fun n _ h => inv_bp n h
  listeners := fun l _ h => inv_listeners l h
  running := fun b _ h => inv_running b h

instance : Closed Inv where
  pop := fun _ h hc => inv_popCmd h hc

end Iora.Lifecycle
